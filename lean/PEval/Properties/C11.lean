import PEval.Lemmas.ClassificationScore
import PEval.Gen.ClassificationDT
import PEval.Lemmas.ClassificationDT
import PEval.Lemmas.ClassificationSim
import PEval.Lemmas.ClassificationTp
/-!
# C11 — classification pairs objects by identity and scores them by label agreement

Model: `PEval.Model.Classification` (`objectResults` = `get_object_results` on ROI-less
`DynamicObject2D` lists, `pairById` = `_get_object_results_with_id`, `pairTlr` =
`_get_object_results_for_tlr`, `accuracy` = `ClassificationAccuracy`, `summarize` =
`ClassificationMetricsScore._summarize`).  All statements quantify over arbitrary lists; "distinct
Python objects" is `List.Nodup`, the property's domain "unique non-null uuids per side and camera" is
`(l.map key).Nodup` (which implies `l.Nodup`) plus `uuid ≠ none`.
-/
namespace PEval.C11
open PEval.Classification

/-! ## pairing: same camera, every object used at most once -/

/-- estimates and ground truths are paired only within the same camera frame -/
theorem pair_same_camera {fpv uf : Bool} {ests gts : List Obj} {rs : List Res}
    (h : objectResults fpv uf ests gts = .ok rs) :
    ∀ r ∈ rs, ∀ g, r.gt = some g → r.est.frame = g.frame := by
  obtain ⟨ps, left, gleft, tail, S⟩ := objectResults_shape h
  intro r hr g hg
  rcases r with ⟨e, rg⟩
  simp only at hg
  subst hg
  rw [S.eq] at hr
  exact S.cam (e, g) (mem_results_some.1 hr)

/-- results only mention the given objects -/
theorem pair_members {fpv uf : Bool} {ests gts : List Obj} {rs : List Res}
    (h : objectResults fpv uf ests gts = .ok rs) :
    ∀ r ∈ rs, r.est ∈ ests ∧ ∀ g, r.gt = some g → g ∈ gts := by
  obtain ⟨ps, left, gleft, tail, S⟩ := objectResults_shape h
  intro r hr
  rcases r with ⟨e, rg⟩
  rw [S.eq] at hr
  cases rg with
  | some g =>
    have hp := mem_results_some.1 hr
    refine ⟨S.es.mem_iff.2 (List.mem_append_right _ (List.mem_map.2 ⟨_, hp, rfl⟩)), ?_⟩
    intro g' hg'
    simp only [Option.some.injEq] at hg'
    subst hg'
    exact S.gs.mem_iff.2 (List.mem_append_right _ (List.mem_map.2 ⟨_, hp, rfl⟩))
  | none =>
    have ht := mem_results_none.1 hr
    refine ⟨?_, fun g hg => by cases hg⟩
    rcases S.tail with h1 | h1
    · exact S.es.mem_iff.2 (List.mem_append_left _ (h1 ▸ ht))
    · rw [h1] at ht; cases ht

/-- each estimate appears in at most one result and each ground truth in at most one result -/
theorem pair_used_once {fpv uf : Bool} {ests gts : List Obj} {rs : List Res}
    (hE : ests.Nodup) (hG : gts.Nodup) (h : objectResults fpv uf ests gts = .ok rs) :
    (rs.map Res.est).Nodup ∧ (rs.filterMap Res.gt).Nodup := by
  obtain ⟨ps, left, gleft, tail, S⟩ := objectResults_shape h
  have hE' := S.es.nodup_iff.1 hE
  have hG' := S.gs.nodup_iff.1 hG
  rw [S.eq]
  constructor
  · rw [List.map_append, paired_map_est, fpResults_map_est]
    rcases S.tail with h1 | h1
    · rw [h1]; exact (List.perm_append_comm.nodup_iff).1 hE'
    · rw [h1, List.append_nil]; exact (List.nodup_append.1 hE').2.1
  · rw [List.filterMap_append, paired_filterMap_gt, fpResults_filterMap_gt, List.append_nil]
    exact (List.nodup_append.1 hG').2.1

/-! ## generic objects: paired iff they share uuid and camera -/

/-- on the property's domain the generic matcher does not raise -/
theorem generic_total {ests gts : List Obj} (hn : ∀ o ∈ ests ++ gts, o.uuid ≠ none)
    (hke : (ests.map key).Nodup) (hkg : (gts.map key).Nodup) : ∃ rs, pairById ests gts = .ok rs := by
  obtain ⟨s, hs⟩ := generic_loop_total hn hke hkg
  refine ⟨paired s.res ++ fpResults (fpTail s.es), ?_⟩
  simp only [pairById, hs]

/-- unique non-null uuids per side and camera ⇒ the generic matcher answers, and an estimate and a
ground truth are paired iff they have the same uuid and the same camera frame -/
theorem generic_pair_iff_same_uuid {ests gts : List Obj} (hn : ∀ o ∈ ests ++ gts, o.uuid ≠ none)
    (hke : (ests.map key).Nodup) (hkg : (gts.map key).Nodup) :
    ∃ rs, pairById ests gts = .ok rs ∧
      ∀ e g, ({ est := e, gt := some g } : Res) ∈ rs ↔
        (e ∈ ests ∧ g ∈ gts ∧ e.uuid = g.uuid ∧ e.frame = g.frame) := by
  obtain ⟨rs, h⟩ := generic_total hn hke hkg
  refine ⟨rs, h, ?_⟩
  obtain ⟨s, hs, hrs⟩ := pairById_ok h
  have F := gen_facts hs
  intro e g
  rw [hrs, mem_results_some, F.mem_res]
  simp [sameKey]

/-- the GT-less results of the generic matcher: the estimates without a same-uuid same-camera ground
truth, all of them or (if one of them lives in `CAM_TRAFFIC_LIGHT`) none -/
theorem generic_fp_tail {ests gts : List Obj} {rs : List Res} (hE : ests.Nodup)
    (h : pairById ests gts = .ok rs) (e : Obj) :
    ({ est := e, gt := none } : Res) ∈ rs ↔
      (e ∈ ests ∧ ∀ g ∈ gts, sameKey e g = false) ∧
      (∀ e' ∈ ests, (∀ g ∈ gts, sameKey e' g = false) → e'.frame ≠ camTrafficLight) := by
  obtain ⟨s, hs, hrs⟩ := pairById_ok h
  have F := gen_facts hs
  rw [hrs, mem_results_none, mem_fpTail, F.mem_es hE]
  constructor
  · rintro ⟨h1, h2⟩
    exact ⟨h1, fun e' he' hno => h2 e' ((F.mem_es hE e').2 ⟨he', hno⟩)⟩
  · rintro ⟨h1, h2⟩
    exact ⟨h1, fun x hx => let hh := (F.mem_es hE x).1 hx; h2 x hh.1 hh.2⟩

/-- a null uuid on either side (both lists non-empty) makes the generic matcher raise (the loop body's
`RuntimeError`, or a `ValueError` of `list.remove` if duplicate keys are met first) -/
theorem generic_null_uuid_error {ests gts : List Obj} (he : ests ≠ []) (hg : gts ≠ [])
    (hnull : ∃ o ∈ ests ++ gts, o.uuid = none) : ∃ x, pairById ests gts = .error x := by
  cases hres : pairById ests gts with
  | error x => exact ⟨x, rfl⟩
  | ok rs =>
    exfalso
    obtain ⟨s, hs, _⟩ := pairById_ok hres
    have hnn := outer_ok_nonnull (fun e g s s' hs => (stepU_ok hs).1) gts ests hs
    obtain ⟨o, ho, hnone⟩ := hnull
    rcases List.mem_append.1 ho with ho | ho
    · obtain ⟨g, hgm⟩ := List.exists_mem_of_ne_nil gts hg
      have := hnn o ho g hgm
      rw [nullUuid_true_left hnone] at this
      cases this
    · obtain ⟨e, hem⟩ := List.exists_mem_of_ne_nil ests he
      have := hnn e hem o ho
      rw [nullUuid_true_right hnone] at this
      cases this

/-! ## traffic lights: label stage, then uuid stage -/

/-- with non-null uuids the traffic-light matcher does not raise -/
theorem tlr_total {uf : Bool} {ests gts : List Obj} (hn : ∀ o ∈ ests ++ gts, o.uuid ≠ none) :
    ∃ rs, pairTlr uf ests gts = .ok rs := by
  have hnn : ∀ e ∈ ests, ∀ g ∈ gts, nullUuid e g = false := fun e he g hg =>
    nullUuid_false (hn e (List.mem_append_left _ he)) (hn g (List.mem_append_right _ hg))
  obtain ⟨s1, h1⟩ := outer_stepG_total (c := cond1 uf) ests (initSt ests gts) hnn
  have sh := outer_shrinks (stepG_is_move _) gts ests h1
  obtain ⟨s2, h2⟩ := outer_stepG_total (c := sameKey) (gs := s1.gs) s1.es s1
    (fun e he g hg => hnn e (sh.es.subset he) g (sh.gs.subset hg))
  exact ⟨paired s2.res, by simp only [pairTlr, tlrStage1, tlrStage2, h1, h2]⟩

/-- a null uuid on either side (both lists non-empty) raises `RuntimeError` -/
theorem tlr_null_uuid_error {uf : Bool} {ests gts : List Obj} (he : ests ≠ []) (hg : gts ≠ [])
    (hnull : ∃ o ∈ ests ++ gts, o.uuid = none) : pairTlr uf ests gts = .error "RuntimeError" := by
  cases hres : pairTlr uf ests gts with
  | ok rs =>
    exfalso
    obtain ⟨s1, s2, h1, _, _⟩ := pairTlr_ok hres
    have hnn := outer_ok_nonnull (fun e g s s' hs => (stepG_ok hs).1) gts ests h1
    obtain ⟨o, ho, hnone⟩ := hnull
    rcases List.mem_append.1 ho with ho | ho
    · obtain ⟨g, hgm⟩ := List.exists_mem_of_ne_nil gts hg
      have := hnn o ho g hgm
      rw [nullUuid_true_left hnone] at this
      cases this
    · obtain ⟨e, hem⟩ := List.exists_mem_of_ne_nil ests he
      have := hnn e hem o ho
      rw [nullUuid_true_right hnone] at this
      cases this
  | error x =>
    congr
    unfold pairTlr at hres
    split at hres
    · rename_i y hy
      simp only [Except.error.injEq] at hres
      subst hres
      exact outer_stepG_error ests _ _ hy
    · split at hres
      · rename_i y hy
        simp only [Except.error.injEq] at hres
        subst hres
        exact outer_stepG_error _ _ _ hy
      · cases hres

/-- structure of the answer: the stage-1 pairs (equal label, equal uuid too when uuid-first, same
camera) followed by the stage-2 pairs (equal uuid, same camera, both unused after stage 1); the unused
objects after stage 1 are exactly those in no stage-1 pair -/
theorem tlr_result_split {uf : Bool} {ests gts : List Obj} {rs : List Res}
    (h : pairTlr uf ests gts = .ok rs) :
    ∃ s1 p2, tlrStage1 uf ests gts = .ok s1 ∧ rs = paired (s1.res ++ p2) ∧
      (∀ p ∈ s1.res, p.1 ∈ ests ∧ p.2 ∈ gts ∧ p.1.label = p.2.label ∧ (uf = true → p.1.uuid = p.2.uuid) ∧
        p.1.frame = p.2.frame) ∧
      (∀ p ∈ p2, p.1 ∈ s1.es ∧ p.2 ∈ s1.gs ∧ p.1.uuid = p.2.uuid ∧ p.1.frame = p.2.frame) ∧
      (ests.Nodup → ∀ e, e ∈ s1.es ↔ e ∈ ests ∧ e ∉ s1.res.map Prod.fst) ∧
      (gts.Nodup → ∀ g, g ∈ s1.gs ↔ g ∈ gts ∧ g ∉ s1.res.map Prod.snd) := by
  obtain ⟨s1, s2, h1, h2, hrs⟩ := pairTlr_ok h
  obtain ⟨p2, F⟩ := tlr_facts h1 h2
  refine ⟨s1, p2, h1, by rw [hrs, F.res2], ?_, ?_, fun hnd e => F.wf1.es_iff hnd e, fun hnd g => F.wf1.gs_iff hnd g⟩
  · intro p hp
    obtain ⟨hc, hpe, hpg⟩ := F.res1 p hp
    refine ⟨hpe, hpg, cond1_label hc, ?_, cond1_frame hc⟩
    intro hu; subst hu
    exact sameKey_uuid (cond1_true_sameKey hc)
  · intro p hp
    obtain ⟨hk, hpe, hpg⟩ := F.pairs2 p hp
    exact ⟨hpe, hpg, sameKey_uuid hk, sameKey_frame hk⟩

/-- after stage 1 no unused estimate and unused ground truth of the same camera agree in label (and in
uuid, when uuid-first matching is requested) -/
theorem tlr_stage1_maximal {uf : Bool} {ests gts : List Obj} {s1 : St} (hE : ests.Nodup)
    (h1 : tlrStage1 uf ests gts = .ok s1) :
    ∀ e ∈ s1.es, ∀ g ∈ s1.gs, ¬(e.label = g.label ∧ (uf = true → e.uuid = g.uuid) ∧ e.frame = g.frame) := by
  intro e he g hg hh
  have := tlr_max1 hE h1 e he g hg
  cases uf <;> simp [cond1, hh.1, hh.2.2] at this
  exact this (hh.2.1 rfl)

/-- class-wise count (label-first mode): in every (camera, label) class the label stage makes
`min(#estimates, #ground truths)` pairs -/
theorem tlr_stage1_class_count {ests gts : List Obj} {s1 : St} (hE : ests.Nodup)
    (h1 : tlrStage1 false ests gts = .ok s1) (k : String × Label) :
    s1.res.countP (fun p => decide (cls p.1 = k)) =
      min (ests.countP fun o => decide (cls o = k)) (gts.countP fun o => decide (cls o = k)) := by
  have w : WF ests gts s1 := outer_wf (stepG_is_move _) gts ests (wf_init ests gts) h1
  obtain ⟨t, ht, hall⟩ := outer_res_from (stepG_is_move _) gts ests h1
  refine stage1_class_count w ?_ ?_ k
  · intro p hp
    rw [ht] at hp
    simp only [initSt, List.nil_append] at hp
    exact cond1_false_iff.1 (hall p hp).1
  · intro e he g hg hc
    have := tlr_max1 hE h1 e he g hg
    rw [cond1_false_iff.2 hc] at this
    cases this

/-- on the property's domain stage 2 pairs exactly the same-uuid same-camera pairs stage 1 left unused -/
theorem tlr_stage2_pairs_by_uuid {uf : Bool} {ests gts : List Obj} {rs : List Res}
    (hke : (ests.map key).Nodup) (hkg : (gts.map key).Nodup) (h : pairTlr uf ests gts = .ok rs) :
    ∃ s1 p2, tlrStage1 uf ests gts = .ok s1 ∧ rs = paired (s1.res ++ p2) ∧
      ∀ e g, (e, g) ∈ p2 ↔ (e ∈ s1.es ∧ g ∈ s1.gs ∧ e.uuid = g.uuid ∧ e.frame = g.frame) := by
  obtain ⟨s1, s2, h1, h2, hrs⟩ := pairTlr_ok h
  obtain ⟨p2, F⟩ := tlr_facts h1 h2
  refine ⟨s1, p2, h1, by rw [hrs, F.res2], ?_⟩
  intro e g
  constructor
  · intro hp
    obtain ⟨hk, hpe, hpg⟩ := F.pairs2 _ hp
    exact ⟨hpe, hpg, sameKey_uuid hk, sameKey_frame hk⟩
  · rintro ⟨he, hg, hu, hf⟩
    exact tlr_stage2_complete hke hkg h1 h2 F e he g hg (by simp [sameKey, hu, hf])

/-- in label-first mode every stage-2 pair disagrees in label -/
theorem tlr_stage2_pairs_incorrect {ests gts : List Obj} {rs : List Res} (hE : ests.Nodup)
    (h : pairTlr false ests gts = .ok rs) :
    ∃ s1 p2, tlrStage1 false ests gts = .ok s1 ∧ rs = paired (s1.res ++ p2) ∧
      ∀ p ∈ p2, p.1.label ≠ p.2.label := by
  obtain ⟨s1, s2, h1, h2, hrs⟩ := pairTlr_ok h
  obtain ⟨p2, F⟩ := tlr_facts h1 h2
  refine ⟨s1, p2, h1, by rw [hrs, F.res2], ?_⟩
  intro p hp hl
  obtain ⟨hk, hpe, hpg⟩ := F.pairs2 _ hp
  exact tlr_stage1_maximal hE h1 p.1 hpe p.2 hpg ⟨hl, (fun hh => by cases hh), sameKey_frame hk⟩

/-- uuid-first mode on the property's domain: the pairing is determined by uuid and camera alone -/
theorem tlr_uuid_first_iff_same_uuid {ests gts : List Obj} {rs : List Res}
    (hke : (ests.map key).Nodup) (hkg : (gts.map key).Nodup) (h : pairTlr true ests gts = .ok rs) :
    ∀ e g, ({ est := e, gt := some g } : Res) ∈ rs ↔
      (e ∈ ests ∧ g ∈ gts ∧ e.uuid = g.uuid ∧ e.frame = g.frame) := by
  have hE : ests.Nodup := List.Nodup.of_map _ hke
  have hG : gts.Nodup := List.Nodup.of_map _ hkg
  obtain ⟨s1, s2, h1, h2, hrs⟩ := pairTlr_ok h
  obtain ⟨p2, F⟩ := tlr_facts h1 h2
  intro e g
  rw [hrs, mem_paired, F.res2, List.mem_append]
  constructor
  · rintro (hp | hp)
    · obtain ⟨hc, hpe, hpg⟩ := F.res1 _ hp
      have hk := cond1_true_sameKey hc
      exact ⟨hpe, hpg, sameKey_uuid hk, sameKey_frame hk⟩
    · obtain ⟨hk, hpe, hpg⟩ := F.pairs2 _ hp
      exact ⟨F.sub_es _ hpe, F.sub_gs _ hpg, sameKey_uuid hk, sameKey_frame hk⟩
  · rintro ⟨he, hg, hu, hf⟩
    have hk : sameKey e g = true := by simp [sameKey, hu, hf]
    by_cases hes : e ∈ s1.es
    · by_cases hgs : g ∈ s1.gs
      · exact Or.inr (tlr_stage2_complete hke hkg h1 h2 F e hes g hgs hk)
      · -- g was taken by stage 1, by an estimate with the same key, i.e. by e
        left
        have : g ∈ s1.res.map Prod.snd := by
          rcases (F.wf1.mem_gs g).1 hg with h' | h'
          · exact absurd h' hgs
          · exact h'
        obtain ⟨e', hp⟩ := mem_map_snd this
        obtain ⟨hc, hpe, _⟩ := F.res1 _ hp
        have : e' = e := key_inj hke hpe he
          ((sameKey_iff.1 (cond1_true_sameKey hc)).trans (sameKey_iff.1 hk).symm)
        exact this ▸ hp
    · left
      have : e ∈ s1.res.map Prod.fst := by
        rcases (F.wf1.mem_es e).1 he with h' | h'
        · exact absurd h' hes
        · exact h'
      obtain ⟨g', hp⟩ := mem_map_fst this
      obtain ⟨hc, _, hpg⟩ := F.res1 _ hp
      have : g' = g := key_inj hkg hpg hg
        ((sameKey_iff.1 (cond1_true_sameKey hc)).symm.trans (sameKey_iff.1 hk))
      exact this ▸ hp

/-- [ext] label-first mode: the answer is a one-to-one same-camera pairing, and no one-to-one
same-camera pairing of the given objects has more equally-labelled pairs -/
theorem tlr_correct_pairs_maximum {ests gts : List Obj} {rs : List Res} (hE : ests.Nodup) (hG : gts.Nodup)
    (h : pairTlr false ests gts = .ok rs) :
    Pairing ests gts (resPairs rs) ∧
      ∀ P, Pairing ests gts P → numEqual P ≤ numEqual (resPairs rs) := by
  obtain ⟨s1, s2, h1, h2, hrs⟩ := pairTlr_ok h
  obtain ⟨p2, F⟩ := tlr_facts h1 h2
  have hpairs : resPairs rs = s1.res ++ p2 := by rw [hrs, resPairs_paired, F.res2]
  constructor
  · rw [hrs, resPairs_paired]
    refine ⟨?_, ?_, ?_, F.wf2.res_fst_nodup hE, F.wf2.res_snd_nodup hG⟩
    · intro p hp; exact (F.wf2.mem_es p.1).2 (Or.inr (List.mem_map.2 ⟨p, hp, rfl⟩))
    · intro p hp; exact (F.wf2.mem_gs p.2).2 (Or.inr (List.mem_map.2 ⟨p, hp, rfl⟩))
    · intro p hp
      rw [F.res2] at hp
      rcases List.mem_append.1 hp with hp | hp
      · exact cond1_frame (F.res1 p hp).1
      · exact sameKey_frame (F.pairs2 p hp).1
  · intro P hP
    have hdom : numEqual P ≤ s1.res.length :=
      stage1_dominates F.wf1 (fun p hp => cond1_false_iff.1 (F.res1 p hp).1)
        (fun e he g hg hc => by
          have := tlr_max1 hE h1 e he g hg
          rw [cond1_false_iff.2 hc] at this
          cases this) hP
    have hall : s1.res.countP equalLabel = s1.res.length := by
      rw [List.countP_eq_length]
      intro p hp
      simpa [equalLabel] using cond1_label (F.res1 p hp).1
    rw [hpairs]
    unfold numEqual at *
    rw [List.countP_append, hall]
    omega

/-! ## scores -/

/-- every label-correct result consumes its own ground truth -/
theorem tp_le_num_gt {fpv uf : Bool} {ests gts : List Obj} {rs : List Res}
    (h : objectResults fpv uf ests gts = .ok rs) : countTp rs ≤ gts.length := by
  obtain ⟨ps, left, gleft, tail, S⟩ := objectResults_shape h
  exact S.tp_le

/-- the scores equal their counting definitions: TP = label-correct results (a GT-less result is never
correct, a result whose ground truth carries the FP label always is), FP = the other results,
FN = `num_ground_truth − TP`; precision = TP/(TP+FP), recall = TP/(TP+FN), accuracy = TP/(TP+FP+FN),
F1 = 2PR/(P+R); a zero denominator (or an undefined precision / recall) gives `inf` -/
theorem metrics_def (rs : List Res) (n : Nat) :
    let a := accuracy rs n
    a.num = rs.length ∧ a.numGT = n ∧
    a.tp = (rs.filter fun r => match r.gt with
                              | none => false
                              | some g => g.label.isFP || decide (r.est.label = g.label)).length ∧
    a.tp + a.fp = rs.length ∧
    a.precision = ratio a.tp (a.tp + a.fp) ∧
    (a.tp ≤ n → a.recall = ratio a.tp (a.tp + (n - a.tp)) ∧ a.accuracy = ratio a.tp (a.tp + a.fp + (n - a.tp))) ∧
    a.f1 = (match a.precision, a.recall with
            | .val p, .val r => if p + r = 0 then .inf else .val (2 * p * r / (p + r))
            | _, _ => .inf) ∧
    (∀ a b : Nat, ratio a b = if b = 0 then .inf else .val ((a : Rat) / (b : Rat))) := by
  have hl := countTp_le_length rs
  intro a
  refine ⟨rfl, rfl, ?_, ?_, ?_, ?_, ?_, fun _ _ => rfl⟩
  · show countTp rs = _
    unfold countTp
    rw [List.countP_eq_length_filter]
    rfl
  · show countTp rs + (rs.length - countTp rs) = rs.length
    omega
  · show ratio (countTp rs) rs.length = ratio (countTp rs) (countTp rs + (rs.length - countTp rs))
    congr 1; omega
  · intro h
    have h : countTp rs ≤ n := h
    constructor
    · show ratio (countTp rs) n = ratio (countTp rs) (countTp rs + (n - countTp rs))
      congr 1; omega
    · show ratio (countTp rs) (rs.length + n - countTp rs) =
        ratio (countTp rs) (countTp rs + (rs.length - countTp rs) + (n - countTp rs))
      congr 1; omega
  · show f1Acc (ratio (countTp rs) rs.length) (ratio (countTp rs) n) =
      match ratio (countTp rs) rs.length, ratio (countTp rs) n with
      | .val p, .val r => if p + r = 0 then .inf else .val (2 * p * r / (p + r))
      | _, _ => .inf
    generalize ratio (countTp rs) rs.length = p
    generalize ratio (countTp rs) n = r
    cases p <;> cases r <;> rfl

/-- every defined score lies in [0,1], provided the label-correct results do not outnumber the ground
truths the caller announces -/
theorem metrics_in_unit {rs : List Res} {n : Nat} (h : countTp rs ≤ n) :
    (accuracy rs n).accuracy.inUnit ∧ (accuracy rs n).precision.inUnit ∧ (accuracy rs n).recall.inUnit ∧
      (accuracy rs n).f1.inUnit := accuracy_inUnit h

/-- … which always holds for the results of the matchers scored against their own ground truths -/
theorem metrics_in_unit_results {fpv uf : Bool} {ests gts : List Obj} {rs : List Res}
    (h : objectResults fpv uf ests gts = .ok rs) :
    let a := accuracy rs gts.length
    a.accuracy.inUnit ∧ a.precision.inUnit ∧ a.recall.inUnit ∧ a.f1.inUnit :=
  accuracy_inUnit (tp_le_num_gt h)

/-- as many results as ground truths (at least one), all label-correct ⇒ all four scores are 1 -/
theorem metrics_all_one {rs : List Res} {n : Nat} (hall : ∀ r ∈ rs, labelCorrect r = true)
    (hlen : rs.length = n) (hpos : 0 < n) :
    (accuracy rs n).accuracy = .val 1 ∧ (accuracy rs n).precision = .val 1 ∧ (accuracy rs n).recall = .val 1 ∧
      (accuracy rs n).f1 = .val 1 := by
  rw [accuracy_all_one hall hlen hpos]
  exact ⟨rfl, rfl, rfl, rfl⟩

/-- end to end: every ground truth is paired with an equally-labelled estimate and nothing else is
reported ⇒ accuracy, precision, recall and F1 are all 1 -/
theorem metrics_all_one_results {fpv uf : Bool} {ests gts : List Obj} {rs : List Res}
    (hG : gts.Nodup) (hne : gts ≠ []) (h : objectResults fpv uf ests gts = .ok rs)
    (hgt : ∀ g ∈ gts, ∃ e, ({ est := e, gt := some g } : Res) ∈ rs ∧ e.label = g.label)
    (honly : ∀ r ∈ rs, r.gt ≠ none) :
    let a := accuracy rs gts.length
    a.accuracy = .val 1 ∧ a.precision = .val 1 ∧ a.recall = .val 1 ∧ a.f1 = .val 1 := by
  obtain ⟨ps, left, gleft, tail, S⟩ := objectResults_shape h
  have hG' := S.gs.nodup_iff.1 hG
  have hsnd : (ps.map Prod.snd).Nodup := (List.nodup_append.1 hG').2.1
  -- nothing GT-less is reported
  have htail : tail = [] := by
    cases tail with
    | nil => rfl
    | cons t ts =>
      exfalso
      have : ({ est := t, gt := none } : Res) ∈ rs := by
        rw [S.eq]; exact mem_results_none.2 List.mem_cons_self
      exact honly _ this rfl
  have hrs : rs = paired ps := by rw [S.eq, htail]; simp [fpResults]
  -- every ground truth occurs in a pair, so the pairs' ground truths are a permutation of `gts`
  have hsub : gts ⊆ ps.map Prod.snd := by
    intro g hg
    obtain ⟨e, hr, _⟩ := hgt g hg
    rw [hrs] at hr
    exact List.mem_map.2 ⟨(e, g), mem_paired.1 hr, rfl⟩
  have hsub' : ps.map Prod.snd ⊆ gts := fun g hg => S.gs.mem_iff.2 (List.mem_append_right _ hg)
  have hlen : rs.length = gts.length := by
    have h1 := (List.subperm_of_subset hG hsub).length_le
    have h2 := (List.subperm_of_subset hsnd hsub').length_le
    simp only [List.length_map] at h1 h2
    rw [hrs]; simp only [paired, List.length_map]; omega
  have hall : ∀ r ∈ rs, labelCorrect r = true := by
    intro r hr
    rw [hrs] at hr
    obtain ⟨p, hp, rfl⟩ := paired_gt_some hr
    have hg : p.2 ∈ gts := hsub' (List.mem_map.2 ⟨p, hp, rfl⟩)
    obtain ⟨e, hr', hl⟩ := hgt p.2 hg
    rw [hrs] at hr'
    have hp' := mem_paired.1 hr'
    have : (e, p.2) = p := pair_eq_of_snd hsnd hp' hp rfl
    have he : e = p.1 := by rw [← this]
    simp [labelCorrect, ← he, hl]
  have hpos : 0 < gts.length := List.length_pos_iff.2 hne
  exact metrics_all_one hall hlen hpos

/-- `_summarize` pools the per-label counts and applies the same counting definitions (precision over
TP+FP); an undefined precision or recall makes its F1 `nan` rather than `inf` -/
theorem summarize_def (accs : List Acc) :
    let tp := (accs.map (·.tp)).sum
    let fp := (accs.map (·.fp)).sum
    let ngt := (accs.map (·.numGT)).sum
    let nest := (accs.map (·.num)).sum
    summarize accs =
      (ratio tp (nest + ngt - tp), ratio tp (tp + fp), ratio tp ngt,
       match ratio tp (tp + fp), ratio tp ngt with
       | .val p, .val r => if p + r = 0 then .inf else .val (2 * p * r / (p + r))
       | _, _ => .nan) := by
  intro tp fp ngt nest
  simp only [summarize]
  congr 3

/-- the pooled scores lie in [0,1] whenever defined, if in every bucket the label-correct results do not
outnumber the announced ground truths -/
theorem summarize_in_unit {bs : List (List (List Res) × Nat)} (h : ∀ b ∈ bs, countTp b.1.flatten ≤ b.2) :
    (summarize (bucketAccs bs)).1.inUnit ∧ (summarize (bucketAccs bs)).2.1.inUnit ∧
    (summarize (bucketAccs bs)).2.2.1.inUnit ∧ (summarize (bucketAccs bs)).2.2.2.inUnit :=
  summarize_inUnit_of h

/-- all results label-correct and as many as announced ground truths in every bucket, at least one
ground truth overall ⇒ the pooled scores are all 1 -/
theorem summarize_all_one {bs : List (List (List Res) × Nat)}
    (hall : ∀ b ∈ bs, (∀ r ∈ b.1.flatten, labelCorrect r = true) ∧ b.1.flatten.length = b.2)
    (hpos : 0 < (bs.map (·.2)).sum) :
    summarize (bucketAccs bs) = (.val 1, .val 1, .val 1, .val 1) := by
  obtain ⟨h1, h2, h3⟩ := sums_all_one hall
  have hn : ((bucketAccs bs).map (·.numGT)).sum = (bs.map (·.2)).sum := by
    simp [bucketAccs, accuracyNested, accuracy, Function.comp_def]
  simp only [summarize, h1, h2, h3, Nat.add_zero, Nat.add_sub_cancel]
  rw [hn, ratio_self hpos, f1_one.2]

/-! ## manager level: a scene pools the frames (`PerceptionEvaluationManager.get_scene_result` hands
`[[]] ++ [bucket of frame 1, bucket of frame 2, …]` and the summed ground-truth numbers to
`MetricsScore.evaluate_classification`; a frame hands its own bucket) -/

/-- the per-label input of the scene score: an empty list first, then the frames' buckets -/
def sceneFrames (fs : List (List Res × Nat)) : List (List Res) := [] :: fs.map (·.1)

/-- the counts of a nested accuracy are the sums over its frames -/
theorem pooled_counts (frames : List (List Res)) (n : Nat) :
    (accuracyNested frames n).num = (frames.map List.length).sum ∧
    (accuracyNested frames n).tp = (frames.map countTp).sum ∧
    (accuracyNested frames n).numGT = n := by
  refine ⟨?_, ?_, rfl⟩
  · simp [accuracyNested, accuracy, List.length_flatten]
  · simp only [accuracyNested, accuracy, countTp, List.countP_flatten]; rfl

/-- scene counts = sums of the frame counts (results, label-correct results, ground truths) -/
theorem scene_counts_sum (fs : List (List Res × Nat)) :
    let scene := accuracyNested (sceneFrames fs) (fs.map (·.2)).sum
    scene.num = (fs.map fun f => (accuracy f.1 f.2).num).sum ∧
    scene.tp = (fs.map fun f => (accuracy f.1 f.2).tp).sum ∧
    scene.numGT = (fs.map fun f => (accuracy f.1 f.2).numGT).sum := by
  intro scene
  obtain ⟨h1, h2, h3⟩ := pooled_counts (sceneFrames fs) (fs.map (·.2)).sum
  refine ⟨?_, ?_, ?_⟩
  · rw [h1]; simp [sceneFrames, accuracy, Function.comp_def]
  · rw [h2]; simp [sceneFrames, accuracy, countTp, Function.comp_def]
  · rw [h3]; simp [accuracy]

theorem countTp_sceneFrames_le {fs : List (List Res × Nat)} (h : ∀ f ∈ fs, countTp f.1 ≤ f.2) :
    countTp (sceneFrames fs).flatten ≤ (fs.map (·.2)).sum := by
  induction fs with
  | nil => simp [sceneFrames, countTp]
  | cons f fs ih =>
    have h1 := h f (List.mem_cons_self ..)
    have h2 := ih (fun g hg => h g (List.mem_cons_of_mem _ hg))
    simp only [sceneFrames, List.map_cons, List.flatten_cons, List.nil_append, List.sum_cons, countTp,
      List.countP_append] at h1 h2 ⊢
    omega

/-- the scene scores of a label lie in [0,1] whenever defined, if in every frame the label-correct results do
not outnumber the frame's ground truths of that label -/
theorem scene_in_unit {fs : List (List Res × Nat)} (h : ∀ f ∈ fs, countTp f.1 ≤ f.2) :
    let scene := accuracyNested (sceneFrames fs) (fs.map (·.2)).sum
    scene.accuracy.inUnit ∧ scene.precision.inUnit ∧ scene.recall.inUnit ∧ scene.f1.inUnit :=
  accuracy_inUnit (countTp_sceneFrames_le h)

/-- every frame perfect (all results label-correct, as many as ground truths) and at least one ground truth in the
scene ⇒ the scene scores of the label are all 1 -/
theorem scene_all_one {fs : List (List Res × Nat)}
    (hall : ∀ f ∈ fs, (∀ r ∈ f.1, labelCorrect r = true) ∧ f.1.length = f.2) (hpos : 0 < (fs.map (·.2)).sum) :
    let scene := accuracyNested (sceneFrames fs) (fs.map (·.2)).sum
    scene.accuracy = .val 1 ∧ scene.precision = .val 1 ∧ scene.recall = .val 1 ∧ scene.f1 = .val 1 := by
  intro scene
  have hc : ∀ r ∈ (sceneFrames fs).flatten, labelCorrect r = true := by
    intro r hr
    simp only [sceneFrames, List.flatten_cons, List.nil_append, List.mem_flatten, List.mem_map] at hr
    obtain ⟨l, ⟨f, hf, rfl⟩, hrl⟩ := hr
    exact (hall f hf).1 r hrl
  have hl : (sceneFrames fs).flatten.length = (fs.map (·.2)).sum := by
    clear hpos hc
    induction fs with
    | nil => rfl
    | cons f fs ih =>
      have h1 := (hall f (List.mem_cons_self ..)).2
      have h2 := ih (fun g hg => hall g (List.mem_cons_of_mem _ hg))
      simp only [sceneFrames, List.map_cons, List.flatten_cons, List.nil_append, List.sum_cons, List.length_append] at h2 ⊢
      omega
  exact metrics_all_one hc hl hpos

/-! ## the hypotheses are satisfiable: concrete non-trivial instances -/

section Examples

def lg : Label := { tl := true, name := "green" }
def lr : Label := { tl := true, name := "red" }
def e1 : Obj := { id := 0, uuid := some "a", label := lg, frame := "cam_front" }
def e2 : Obj := { id := 1, uuid := some "b", label := lr, frame := "cam_front" }
def e3 : Obj := { id := 2, uuid := some "a", label := lg, frame := "cam_back" }
def g1 : Obj := { id := 10, uuid := some "a", label := lr, frame := "cam_front" }
def g2 : Obj := { id := 11, uuid := some "b", label := lg, frame := "cam_front" }
def g3 : Obj := { id := 12, uuid := some "a", label := lg, frame := "cam_back" }

/-- unique non-null uuids per side and camera (the same uuid recurs in the other camera) -/
example : ([e1, e2, e3].map key).Nodup ∧ ([g1, g2, g3].map key).Nodup ∧
    ∀ o ∈ [e1, e2, e3] ++ [g1, g2, g3], o.uuid ≠ none := by decide

/-- label-first: the label stage steals the uuid partners, all three pairs are label-correct -/
example : pairTlr false [e1, e2, e3] [g1, g2, g3] =
    .ok [⟨e1, some g2⟩, ⟨e2, some g1⟩, ⟨e3, some g3⟩] := by decide +kernel

/-- uuid-first: pairs follow the uuids; two of them are label-wrong -/
example : pairTlr true [e1, e2, e3] [g1, g2, g3] =
    .ok [⟨e3, some g3⟩, ⟨e1, some g1⟩, ⟨e2, some g2⟩] := by decide +kernel

/-- the hypotheses of `metrics_all_one_results` hold for the label-first answer -/
example : ∃ rs, objectResults false false [e1, e2, e3] [g1, g2, g3] = .ok rs ∧
    (∀ g ∈ [g1, g2, g3], ∃ e, ({ est := e, gt := some g } : Res) ∈ rs ∧ e.label = g.label) ∧
    (∀ r ∈ rs, r.gt ≠ none) :=
  ⟨[⟨e1, some g2⟩, ⟨e2, some g1⟩, ⟨e3, some g3⟩], by decide +kernel, by
    intro g hg
    simp only [List.mem_cons, List.not_mem_nil, or_false] at hg
    rcases hg with rfl | rfl | rfl
    · exact ⟨e2, by decide, by decide⟩
    · exact ⟨e1, by decide, by decide⟩
    · exact ⟨e3, by decide, by decide⟩, by decide⟩

/-- a competitor pairing for `tlr_correct_pairs_maximum` (the uuid pairing: one equally-labelled pair) -/
example : Pairing [e1, e2, e3] [g1, g2, g3] [(e1, g1), (e2, g2), (e3, g3)] :=
  ⟨by decide, by decide, by decide, by decide, by decide⟩

/-- stage 1 of the uuid-first run leaves a same-uuid pair for stage 2 (`tlr_stage2_pairs_by_uuid` is not vacuous) -/
example : ∃ s1, tlrStage1 true [e1, e2, e3] [g1, g2, g3] = .ok s1 ∧ e1 ∈ s1.es ∧ g1 ∈ s1.gs :=
  ⟨⟨[(e3, g3)], [e1, e2], [g1, g2]⟩, by decide +kernel, by decide, by decide⟩

/-- a bucket meeting the hypothesis of `metrics_in_unit` with a fractional score -/
example : countTp [⟨e1, some g2⟩, ⟨e2, some g2⟩, ⟨e3, none⟩] ≤ 2 ∧
    (accuracy [⟨e1, some g2⟩, ⟨e2, some g2⟩, ⟨e3, none⟩] 2).recall = .val (1 / 2) := by decide +kernel

/-- a two-frame scene: the first frame perfect, the second with a wrong pair; pooled recall 2/3 -/
example : (accuracyNested (sceneFrames [([⟨e1, some g2⟩], 1), ([⟨e2, some g1⟩, ⟨e1, some g1⟩], 2)]) 3).recall = .val (2 / 3) ∧
    countTp [⟨e2, some g1⟩, ⟨e1, some g1⟩] ≤ 2 := by decide +kernel

end Examples

/-! ## tie to the source: decision tables of the pairing kernels extracted from the real code (regenerated on every run)

`harness/dt_c11.py` runs the REAL `get_object_results` on ROI-less stub objects (at most two estimates and two ground
truths; generic labels, traffic-light labels with both `uuid_matching_first` settings) over every assignment of the
equality atoms it queries (`PEval/Gen/ClassificationDT.lean`). `ClassificationDT.skel` is the hand-written skeleton over
the same atoms; `DT.agree` decides by kernel evaluation, completely for the finite decision space, that table and
skeleton give the same SET of pairs (`canonRes`: result order forgotten — the property speaks of pairs, not of a list;
unpaired results forgotten on the traffic-light path, where the text does not say whether they are reported) under every
valuation an input inside the quantifier can induce (`pairForb`: a valuation where one object shares uuid AND camera with
both objects of the other side belongs to no input with unique uuids per side and camera, so what the code does there —
`ValueError` of `list.remove`, a guard, silently skipping — is left open). Among several equally admissible partners the
model's list-order choice is still the reference (a reversed ground-truth scan of the traffic-light matcher is reported). The skeleton itself is tied to the model by exhaustive
kernel evaluation: on every valuation of a shape's atoms it equals the MODEL's own loops (`outer`, `stepU`, `stepG`,
`take`, `pairById` / `pairTlr` with their tests as parameters) run on index objects. A shape the translator cannot
follow has `tree = none` (vacuous; the evidence says so). -/
section Table
open PEval.DT PEval.ClassificationDT

/-- every atom may be asked again further down a path (stage 2 of the traffic-light matcher re-reads uuid and frame) -/
def pairSticky : List Nat := List.range 14

/-- the code's table agrees with the canonical skeleton `skelC` (pairs as a SET: result order forgotten; unpaired results
of the traffic-light path forgotten) on every valuation that avoids `pairForb` (the valuations no input with unique
uuids per side and camera induces) -/
def pairTablesOk : Bool :=
  Gen.ClassificationDT.tables.all fun row =>
    match row.2.2 with
    | some t => agree pairForb pairSticky t (skelC row.1 (row.2.1 / 3) (row.2.1 % 3)) PA.empty
    | none => true

/-- THE per-run obligation: the checker accepts every regenerated table -/
theorem pair_table_check : pairTablesOk = true := by decide +kernel

/-- the code's decision table of `get_object_results` (every tabulated function and shape; leaves written canonically by
`harness/dt_c11.py`) equals the canonical form of the model's skeleton under every valuation of the atoms that is
consistent with `pairForb` -/
theorem pair_code_table_eq_model :
    ∀ row ∈ Gen.ClassificationDT.tables, ∀ t, row.2.2 = some t → ∀ v : Val, consistent pairForb v = true →
      eval t v = canonRes (dropFPOf row.1 (row.2.1 / 3) (row.2.1 % 3)) (skelAtoms row.1 (row.2.1 / 3) (row.2.1 % 3) v) := by
  intro row hrow t ht v hc
  have h := pair_table_check
  unfold pairTablesOk at h
  rw [List.all_eq_true] at h
  have h2 := h row hrow
  rw [ht] at h2
  rw [agree_sound h2 v hc, eval_skelC]

/-- the same with the shape spelt out -/
theorem pair_code_table_eq_skel {f n m : Nat} {t : DTree} (ht : (f, 3 * n + m, some t) ∈ Gen.ClassificationDT.tables)
    (hm : m < 3) (v : Val) (hc : consistent pairForb v = true) :
    eval t v = canonRes (dropFPOf f n m) (skelAtoms f n m v) := by
  have h := pair_code_table_eq_model _ ht t rfl v hc
  have h1 : (3 * n + m) / 3 = n := by omega
  have h2 : (3 * n + m) % 3 = m := by omega
  dsimp only at h
  rw [h1, h2] at h
  exact h

/-- composition with `skel_eq_model_on_index` (Lemmas/ClassificationDT.lean: skeleton = the MODEL's own loops on index
objects, for every valuation of the shape's atoms): the CODE's table on a consistent valuation of the shape's atoms is
the canonical form of the model's algorithm on index objects -/
theorem pair_code_table_eq_model_on_index {f n m : Nat} {t : DTree}
    (ht : (f, 3 * n + m, some t) ∈ Gen.ClassificationDT.tables) (hf : f ∈ [0, 1, 2]) (hs : (n, m) ∈ shapes)
    (hm : m < 3) :
    ∀ bs ∈ allBits (shapeAtoms f n m).length, consistent pairForb (valOf (shapeAtoms f n m) bs) = true →
      eval t (valOf (shapeAtoms f n m) bs) = canonRes (dropFPOf f n m) (modelOnIndex f n m (valOf (shapeAtoms f n m) bs)) := by
  intro bs hbs hc
  rw [pair_code_table_eq_skel ht hm _ hc]
  have h := skel_eq_model_on_index f hf _ hs
  unfold skelOk at h
  rw [List.all_eq_true] at h
  have h' := beq_iff_eq.mp (h bs hbs)
  unfold skelAtoms
  rw [h']

/-- every valuation of a 1 × 1 shape is consistent with `pairForb` (its clauses need two objects on one side) -/
theorem consistent_1x1 : ∀ f ∈ [0, 1, 2], ∀ bs ∈ allBits (shapeAtoms f 1 1).length,
    consistent pairForb (valOf (shapeAtoms f 1 1) bs) = true := by decide +kernel

/-- C11 for the code's table, one generic estimate and one ground truth (every valuation of the shape's atoms): they
are paired iff they share the uuid and the camera frame; otherwise the estimate is reported unpaired, unless it lives in
`CAM_TRAFFIC_LIGHT` -/
theorem table_generic_1x1 {t : DTree} (ht : (0, 3 * 1 + 1, some t) ∈ Gen.ClassificationDT.tables) :
    ∀ bs ∈ allBits (shapeAtoms 0 1 1).length,
      eval t (valOf (shapeAtoms 0 1 1) bs) =
        .other (if (valOf (shapeAtoms 0 1 1) bs).b (aUuid 0 0) && (valOf (shapeAtoms 0 1 1) bs).b (aFrame 0 0)
          then digitOf 0 (some 0) else if (valOf (shapeAtoms 0 1 1) bs).b (aTl 0) then 0 else digitOf 0 none) := by
  intro bs hbs
  rw [pair_code_table_eq_model_on_index ht (by decide) (by decide) (by decide) bs hbs
    (consistent_1x1 0 (by decide) bs hbs)]
  revert bs
  decide +kernel

/-- C11 for the code's table, traffic lights 1 × 1: paired iff same camera and (same uuid, or — without
`uuid_matching_first` — same label): stage 2 pairs by uuid what stage 1 left (whether an unpaired traffic-light estimate
is also reported is left open, `dropFPOf`) -/
theorem table_tlr_1x1 {t1 t2 : DTree} (h1 : (1, 3 * 1 + 1, some t1) ∈ Gen.ClassificationDT.tables)
    (h2 : (2, 3 * 1 + 1, some t2) ∈ Gen.ClassificationDT.tables) :
    (∀ bs ∈ allBits (shapeAtoms 1 1 1).length,
      eval t1 (valOf (shapeAtoms 1 1 1) bs) =
        .other (if (valOf (shapeAtoms 1 1 1) bs).b (aFrame 0 0) &&
            ((valOf (shapeAtoms 1 1 1) bs).b (aUuid 0 0) || (valOf (shapeAtoms 1 1 1) bs).b (aLab 0 0))
          then digitOf 0 (some 0) else 0)) ∧
    (∀ bs ∈ allBits (shapeAtoms 2 1 1).length,
      eval t2 (valOf (shapeAtoms 2 1 1) bs) =
        .other (if (valOf (shapeAtoms 2 1 1) bs).b (aFrame 0 0) && (valOf (shapeAtoms 2 1 1) bs).b (aUuid 0 0)
          then digitOf 0 (some 0) else 0)) := by
  constructor
  · intro bs hbs
    rw [pair_code_table_eq_model_on_index h1 (by decide) (by decide) (by decide) bs hbs
      (consistent_1x1 1 (by decide) bs hbs)]
    revert bs
    decide +kernel
  · intro bs hbs
    rw [pair_code_table_eq_model_on_index h2 (by decide) (by decide) (by decide) bs hbs
      (consistent_1x1 2 (by decide) bs hbs)]
    revert bs
    decide +kernel

/-- non-vacuity: the checker distinguishes skeletons (the early `break` of seeded change C11_E would be a different
tree) although it forgets the result order and the traffic-light FP tail and skips the `pairForb` valuations; a
reordered result list IS accepted (`canonRes`), a different set of pairs is not -/
example : agree pairForb pairSticky (skelC 0 1 2) (skelC 0 1 2) PA.empty = true := by decide +kernel
example : agree pairForb pairSticky (skelC 1 2 2) (skelC 2 2 2) PA.empty = false := by decide +kernel
example : agree pairForb pairSticky (skelC 0 2 2) (skelC 1 2 2) PA.empty = false := by decide +kernel
/-- the generic skeleton raising ValueError on a double hit and one that never raises agree modulo `pairForb` only -/
example : agree pairForb pairSticky (.leaf (.other 62)) (skelC 0 2 2) PA.empty = false := by decide +kernel

end Table

/-! ## the tables speak about ALL inputs of their shapes: relabelling invariance (`PEval/Lemmas/ClassificationSim.lean`) -/
section TableAllInputs
open PEval.DT PEval.ClassificationDT

/-- RELABELLING INVARIANCE of the model's pairing (any list lengths): the pairing looks at the objects only through the
equality tests between an estimate and a ground truth (uuid, frame, label), `uuid is None`, the traffic-light-frame test,
the label family of the first estimate, and identity. A renaming `fE`, `fG` that is injective on the inputs and keeps
those answers renames the results (or keeps the exception). -/
theorem pairing_relabelling_invariant (uf : Bool) (fE fG : Obj → Obj) (ests gts : List Obj)
    (hiE : InjOn fE ests) (hiG : InjOn fG gts)
    (hu : ∀ e ∈ ests, ∀ g ∈ gts, decide ((fE e).uuid = (fG g).uuid) = decide (e.uuid = g.uuid))
    (hfr : ∀ e ∈ ests, ∀ g ∈ gts, decide ((fE e).frame = (fG g).frame) = decide (e.frame = g.frame))
    (hl : ∀ e ∈ ests, ∀ g ∈ gts, decide ((fE e).label = (fG g).label) = decide (e.label = g.label))
    (hnull : ∀ e ∈ ests, ∀ g ∈ gts, nullUuid (fE e) (fG g) = nullUuid e g)
    (htl : ∀ e ∈ ests, ((fE e).frame == camTrafficLight) = (e.frame == camTrafficLight))
    (hfam : ∀ e ∈ ests, (fE e).label.tl = e.label.tl) :
    objectResults false uf (ests.map fE) (gts.map fG) = mapOut fE fG (objectResults false uf ests gts) :=
  objectResults_relabel uf fE fG ests gts hiE hiG hu hfr hl hnull htl hfam

/-- BRIDGE, any list lengths: for pairwise distinct objects with non-null uuids the model's `get_object_results`, written
as index pairs (`encodeC`: positions in the input lists, the format of the tables), is the model's algorithm on index
objects at every valuation that answers the atoms as the objects' equality tests do -/
theorem pairing_index_form (uf : Bool) (ests gts : List Obj) (hE : ests.Nodup) (hG : gts.Nodup)
    (hn : ∀ o ∈ ests ++ gts, o.uuid ≠ none) (v : Val) (hv : Induces v ests gts) :
    modelOnIndex (fOf uf ests) ests.length gts.length v = encodeC ests gts (objectResults false uf ests gts) :=
  objectResults_eq_modelOnIndex uf ests gts hE hG hn v hv

/-- every function × shape has its row in the regenerated tables -/
theorem pair_table_rows_present :
    ∀ f ∈ [0, 1, 2], ∀ nm ∈ shapes, (Gen.ClassificationDT.tables.any fun r => r.1 == f && r.2.1 == 3 * nm.1 + nm.2) = true := by
  decide +kernel

/-- the quantifier of C11 ("unique non-null uuids per side and camera"), the part the per-run obligation is restricted
to: no two estimates and no two ground truths share uuid AND camera -/
def UniqueKeys (ests gts : List Obj) : Prop := (ests.map key).Nodup ∧ (gts.map key).Nodup

/-- such inputs induce valuations the checker looks at -/
theorem uniqueKeys_consistent {ests gts : List Obj} (hk : UniqueKeys ests gts) (hn : ests.length ≤ 2)
    (hm : gts.length ≤ 2) : consistent pairForb (valC ests gts) = true :=
  valC_consistent ests gts hn hm hk.1 hk.2

/-- WHAT THE CODE'S TABLES SAY ABOUT EVERY INPUT OF THEIR SHAPES INSIDE THE QUANTIFIER (table theorem ∘ skeleton check ∘
relabelling invariance): for ALL lists of at most two estimates and two ground truths (a tabulated shape; pairwise distinct
objects, non-null uuids, unique (uuid, camera) per side — `UniqueKeys`; any uuids, frames, labels, either
`uuid_matching_first`), the tables contain the row of that input, and its tree — the decision tree of the REAL
`get_object_results`, result written canonically — evaluated at the valuation `valC` of the objects' equality tests, is
the canonical form (`canonRes`: the SET of index pairs; on the traffic-light path with ground truths present without the
unpaired results) of the model's pairing. -/
theorem table_pairing_is_model (uf : Bool) (ests gts : List Obj) (hE : ests.Nodup) (hG : gts.Nodup)
    (hn : ∀ o ∈ ests ++ gts, o.uuid ≠ none) (hk : UniqueKeys ests gts) (hs : (ests.length, gts.length) ∈ shapes) :
    ∃ row ∈ Gen.ClassificationDT.tables, row.1 = fOf uf ests ∧ row.2.1 = 3 * ests.length + gts.length ∧
      ∀ t, row.2.2 = some t → eval t (valC ests gts) =
        canonRes (dropFPOf (fOf uf ests) ests.length gts.length) (encodeC ests gts (objectResults false uf ests gts)) := by
  have hf : fOf uf ests ∈ [0, 1, 2] := by
    cases ests with
    | nil => simp [fOf]
    | cons e0 es => cases h : e0.label.tl <;> cases uf <;> simp [fOf, h]
  have hrow := pair_table_rows_present (fOf uf ests) hf (ests.length, gts.length) hs
  obtain ⟨row, hmem, hk'⟩ := List.any_eq_true.1 hrow
  simp only [Bool.and_eq_true, beq_iff_eq] at hk'
  refine ⟨row, hmem, hk'.1, hk'.2, ?_⟩
  intro t ht
  have hm : ests.length ≤ 2 ∧ gts.length ≤ 2 := by
    simp only [shapes, List.mem_cons, Prod.mk.injEq, List.not_mem_nil, or_false] at hs
    omega
  have h := pair_code_table_eq_model row hmem t ht (valC ests gts) (uniqueKeys_consistent hk hm.1 hm.2)
  have h1 : (3 * ests.length + gts.length) / 3 = ests.length := by omega
  have h2 : (3 * ests.length + gts.length) % 3 = gts.length := by omega
  rw [hk'.1, hk'.2, h1, h2] at h
  rw [h]
  unfold skelAtoms
  rw [skel_eq_objectResults uf ests gts hE hG hn hs]

/-- non-vacuity: two traffic lights against two ground truths with crossed uuids, same labels (an input inside the
quantifier: `UniqueKeys`, consistent valuation) — without `uuid_matching_first` stage 1 pairs by label in input order
(digits 2 = est 0 ↔ gt 0, 6 = est 1 ↔ gt 1), with it by uuid (3 = est 0 ↔ gt 1, 5 = est 1 ↔ gt 0); the canonical
form keeps both sets of pairs apart -/
example :
    let e0 : Obj := ⟨0, some "a", ⟨true, "green"⟩, "cam0"⟩
    let e1 : Obj := ⟨1, some "b", ⟨true, "green"⟩, "cam0"⟩
    let g0 : Obj := ⟨2, some "b", ⟨true, "green"⟩, "cam0"⟩
    let g1 : Obj := ⟨3, some "a", ⟨true, "green"⟩, "cam0"⟩
    encodeC [e0, e1] [g0, g1] (objectResults false false [e0, e1] [g0, g1]) = .other 62 ∧
    encodeC [e0, e1] [g0, g1] (objectResults false true [e0, e1] [g0, g1]) = .other 53 ∧
    canonRes (dropFPOf 1 2 2) (.other 62) = .other 62 ∧ canonRes (dropFPOf 2 2 2) (.other 53) = .other 53 ∧
    ([e0, e1].map key).Nodup ∧ ([g0, g1].map key).Nodup ∧
    consistent pairForb (valC [e0, e1] [g0, g1]) = true := by decide +kernel

end TableAllInputs

/-! ## "the number of LABEL-CORRECT pairs is the largest possible": the count the metrics use

`tlr_correct_pairs_maximum` maximises `numEqual` (pairs with EQUAL labels).  `ClassificationAccuracy` counts
`is_label_correct`, which is also true when the ground truth carries the FP label whatever the estimate's
label (`labelCorrect`, `countTp`).  This section links the two counts:

* `tp_eq_equal_plus_fp_only`: `countTp rs` = equal-label pairs + pairs that are correct ONLY through an FP label;
* `tlr_tp_maximum`: no ground truth with the FP label ⇒ the TP count of the answer is the maximum over ALL
  one-to-one same-camera pairings (label-first mode);
* `tlr_tp_exact`, `tlr_tp_maximum_up_to_fp`, `tlr_tp_not_maximal_with_fp_label`: the FP-label case stated exactly
  (the TP count is NOT maximal there, not even among pairings every pair of which the rule can form; it depends on
  the order of the estimates; the gap is at most the number of FP-labelled ground truths);
* `tlr_uuid_first_maximum`: uuid-first mode (every admissible pair shares uuid and camera, and all of them are made).
-/
section TpMaximum

/-- link between the metrics' count and the count of `tlr_correct_pairs_maximum` -/
theorem tp_eq_equal_plus_fp_only (rs : List Res) :
    countTp rs = numEqual (resPairs rs) + numFpOnly (resPairs rs) := by
  rw [countTp_eq_numCorrect, numCorrect_split]

/-- without FP-labelled ground truths "label-correct" and "equal label" are the same count -/
theorem tp_eq_equal_of_no_fp_label {ests gts : List Obj} {P : List (Obj × Obj)} (hP : Pairing ests gts P)
    (hfp : ∀ g ∈ gts, g.label.isFP = false) : countTp (paired P) = numEqual P := by
  rw [← numCorrect_eq_countTp_paired]
  exact numCorrect_eq_numEqual fun p hp => hfp p.2 (hP.gt_mem p hp)

/-- label-first mode, no ground truth with the FP label: the TP count of the answer (the number
`ClassificationAccuracy` computes) is the largest TP count of any one-to-one same-camera pairing -/
theorem tlr_tp_maximum {ests gts : List Obj} {rs : List Res} (hE : ests.Nodup) (hG : gts.Nodup)
    (hfp : ∀ g ∈ gts, g.label.isFP = false) (h : pairTlr false ests gts = .ok rs) :
    ∀ P, Pairing ests gts P → countTp (paired P) ≤ countTp rs := by
  intro P hP
  obtain ⟨hR, hmax⟩ := tlr_correct_pairs_maximum hE hG h
  have h1 := tp_eq_equal_of_no_fp_label hP hfp
  have h2 := tp_eq_equal_of_no_fp_label hR hfp
  obtain ⟨s1, s2, _, _, hrs⟩ := pairTlr_ok h
  have h3 : paired (resPairs rs) = rs := by rw [hrs, resPairs_paired]
  rw [h3] at h2
  rw [h1, h2]
  exact hmax P hP

/-- the FP-label case, exactly: the TP count of the label-first answer is the number of label-stage pairs plus
the number of uuid-stage pairs whose ground truth carries the FP label -/
theorem tlr_tp_exact {ests gts : List Obj} {rs : List Res} (hE : ests.Nodup)
    (h : pairTlr false ests gts = .ok rs) :
    ∃ s1 p2, tlrStage1 false ests gts = .ok s1 ∧ rs = paired (s1.res ++ p2) ∧
      countTp rs = s1.res.length + p2.countP (fun p => p.2.label.isFP) := by
  obtain ⟨s1, p2, h1, hrs, hne⟩ := tlr_stage2_pairs_incorrect hE h
  obtain ⟨_, p2', h1', hrs', H1, _⟩ := tlr_result_split h
  have hs : tlrStage1 false ests gts = .ok s1 := h1
  refine ⟨s1, p2, h1, hrs, ?_⟩
  rw [h1] at h1'
  cases h1'
  rw [hrs, ← numCorrect_eq_countTp_paired]
  unfold numCorrect
  rw [List.countP_append]
  congr 1
  · rw [List.countP_eq_length]
    intro p hp
    have := (H1 p hp).2.2.1
    simp [pairCorrect_eq, equalLabel, this]
  · apply List.countP_congr
    intro p hp
    have := hne p hp
    simp [pairCorrect_eq, equalLabel, this]

/-- the FP-label case, bound: a competitor can beat the answer's TP count by at most the number of FP-labelled
ground truths -/
theorem tlr_tp_maximum_up_to_fp {ests gts : List Obj} {rs : List Res} (hE : ests.Nodup) (hG : gts.Nodup)
    (h : pairTlr false ests gts = .ok rs) :
    ∀ P, Pairing ests gts P → countTp (paired P) ≤ countTp rs + gts.countP (fun g => g.label.isFP) := by
  intro P hP
  obtain ⟨_, hmax⟩ := tlr_correct_pairs_maximum hE hG h
  have h1 := hmax P hP
  have h2 := numFpOnly_le hP
  have h3 := numEqual_le_numCorrect (resPairs rs)
  rw [← numCorrect_eq_countTp_paired, numCorrect_split, countTp_eq_numCorrect]
  omega

/-- a pairing every pair of which the property's rule can form: equal label (label stage) or equal uuid (uuid stage) -/
def RuleAdmissible (P : List (Obj × Obj)) : Prop := ∀ p ∈ P, p.1.label = p.2.label ∨ p.1.uuid = p.2.uuid

def lfp : Label := { tl := true, name := "false_positive" }
def ea : Obj := { id := 0, uuid := some "a", label := lg, frame := "cam_front" }
def ec : Obj := { id := 1, uuid := some "c", label := lg, frame := "cam_front" }
def ga : Obj := { id := 10, uuid := some "a", label := lfp, frame := "cam_front" }
def gx : Obj := { id := 11, uuid := some "x", label := lg, frame := "cam_front" }

/-- the FP-label case, deviation: with ONE FP-labelled ground truth the TP count of the label-first answer is not
the largest possible, even among the pairings the rule itself can form (label stage `(ec, gx)`, uuid stage
`(ea, ga)`), on unique non-null uuids; and it depends on the order of the estimates (the reversed list reaches 2).
Reproduced on the real code: `get_object_results` gives TP 1 / TP 2 for the two orders. -/
theorem tlr_tp_not_maximal_with_fp_label :
    ([ea, ec].map key).Nodup ∧ ([ga, gx].map key).Nodup ∧ (∀ o ∈ [ea, ec] ++ [ga, gx], o.uuid ≠ none) ∧
    pairTlr false [ea, ec] [ga, gx] = .ok [⟨ea, some gx⟩] ∧ countTp [⟨ea, some gx⟩] = 1 ∧
    Pairing [ea, ec] [ga, gx] [(ec, gx), (ea, ga)] ∧ RuleAdmissible [(ec, gx), (ea, ga)] ∧
    countTp (paired [(ec, gx), (ea, ga)]) = 2 ∧
    pairTlr false [ec, ea] [ga, gx] = .ok [⟨ec, some gx⟩, ⟨ea, some ga⟩] := by
  refine ⟨by decide, by decide, by decide, by decide +kernel, by decide, ⟨by decide, by decide, by decide, by decide, by decide⟩,
    ?_, by decide, by decide +kernel⟩
  intro p hp
  simp only [List.mem_cons, List.not_mem_nil, or_false] at hp
  rcases hp with rfl | rfl
  · exact Or.inl (by decide)
  · exact Or.inr (by decide)

/-- the audit's 1×1 instance: one estimate, one FP-labelled ground truth with another uuid – the answer is empty
(TP 0), the one-pair pairing is label-correct (TP 1); both uuid-first settings -/
theorem tlr_tp_not_maximal_1x1 :
    pairTlr false [ec] [ga] = .ok [] ∧ pairTlr true [ec] [ga] = .ok [] ∧
    Pairing [ec] [ga] [(ec, ga)] ∧ countTp (paired [(ec, ga)]) = 1 :=
  ⟨by decide +kernel, by decide +kernel, ⟨by decide, by decide, by decide, by decide, by decide⟩, by decide⟩

/-- uuid-first mode on the property's domain: every pairing whose pairs share uuid and camera (the only pairs
either stage can form) is contained in the answer, so the answer has at least as many label-correct pairs and at
least as many equally-labelled pairs -/
theorem tlr_uuid_first_maximum {ests gts : List Obj} {rs : List Res}
    (hke : (ests.map key).Nodup) (hkg : (gts.map key).Nodup) (h : pairTlr true ests gts = .ok rs) :
    ∀ P, Pairing ests gts P → (∀ p ∈ P, p.1.uuid = p.2.uuid) →
      P ⊆ resPairs rs ∧ countTp (paired P) ≤ countTp rs ∧ numEqual P ≤ numEqual (resPairs rs) := by
  intro P hP hu
  have hsub : P ⊆ resPairs rs := by
    intro p hp
    have := (tlr_uuid_first_iff_same_uuid hke hkg h p.1 p.2).2
      ⟨hP.est_mem p hp, hP.gt_mem p hp, hu p hp, hP.cam p hp⟩
    exact mem_resPairs.2 this
  have hnd : P.Nodup := List.Nodup.of_map _ hP.est_once
  refine ⟨hsub, ?_, countP_le_of_subset hnd hsub _⟩
  rw [← numCorrect_eq_countTp_paired, countTp_eq_numCorrect]
  exact countP_le_of_subset hnd hsub _

/-- a DEFECTIVE variant of the matcher: the uuid stage runs before the label stage -/
def pairTlr_uuidStageFirst (ests gts : List Obj) : Except Err (List Res) :=
  match outer (stepG sameKey) gts ests (initSt ests gts) with
  | .error x => .error x
  | .ok s1 =>
    match outer (stepG (cond1 false)) s1.gs s1.es s1 with
    | .error x => .error x
    | .ok s2 => .ok (paired s2.res)

/-- `tlr_tp_maximum` says something: its conclusion fails for the defective variant (no FP label involved) -/
example : ∃ rs, pairTlr_uuidStageFirst [e1, e2] [g1, g2] = .ok rs ∧ (∀ g ∈ [g1, g2], g.label.isFP = false) ∧
    ¬ (∀ P, Pairing [e1, e2] [g1, g2] P → countTp (paired P) ≤ countTp rs) :=
  ⟨[⟨e1, some g1⟩, ⟨e2, some g2⟩], by decide +kernel, by decide, fun hmax => by
    have := hmax [(e1, g2), (e2, g1)] ⟨by decide, by decide, by decide, by decide, by decide⟩
    revert this
    decide⟩

/-- non-vacuity of `tlr_tp_maximum` / `tlr_tp_maximum_up_to_fp` / `tlr_tp_exact`: the three-camera instance has no
FP-labelled ground truth and a competitor; the FP instance `[ea, ec] / [ga, gx]` above has one -/
example : [e1, e2, e3].Nodup ∧ [g1, g2, g3].Nodup ∧ (∀ g ∈ [g1, g2, g3], g.label.isFP = false) ∧
    (∃ rs, pairTlr false [e1, e2, e3] [g1, g2, g3] = .ok rs) ∧ [ea, ec].Nodup ∧ [ga, gx].Nodup ∧
    [ga, gx].countP (fun g => g.label.isFP) = 1 :=
  ⟨by decide, by decide, by decide, ⟨[⟨e1, some g2⟩, ⟨e2, some g1⟩, ⟨e3, some g3⟩], by decide +kernel⟩, by decide, by decide, by decide⟩

/-- non-vacuity of `tlr_uuid_first_maximum`: the uuid pairing is a competitor all of whose pairs share the uuid -/
example : Pairing [e1, e2, e3] [g1, g2, g3] [(e1, g1), (e2, g2), (e3, g3)] ∧
    ∀ p ∈ [(e1, g1), (e2, g2), (e3, g3)], p.1.uuid = p.2.uuid :=
  ⟨⟨by decide, by decide, by decide, by decide, by decide⟩, by decide⟩

end TpMaximum

end PEval.C11
