import PEval.Lemmas.FrameEval
import PEval.Properties.Pipeline
import PEval.Properties.C03Critical
import PEval.Properties.C07
/-!
# C03 on the composed whole-frame model `FrameChange.evalFrame` (joins the two halves of the property's last sentence)

`Properties/C03Critical.lean` proves "nothing outside the critical region is counted, in whichever frame" on
`Model/CriticalFrame.lean`, where the pairing and the fields `labelOk` / `thr` / `score` of a result are INPUTS.
`Properties/Pipeline.lean` proves TP soundness and conservation on `Pipeline.detectFrame`, where the pairing and those
three fields are computed from the matcher's inputs but the critical flags `EstAttr.crit` / `GtAttr.crit` are INPUTS.
`FrameChange.evalFrame` (`Model/FrameEval.lean`, written for C07) is `add_frame_result` + `evaluate_frame` on objects
with 3-D boxes, yaws, labels, confidences, point counts, in the ego or the map frame: it runs the manager filter
(`Filter.isTarget`), computes the score table from the geometry, runs `Matching.getObjectResults`, computes the
critical flags with `Filter.isTarget` on the positions, and hands all of it to `Pipeline.detectFrame`.  Nothing the
accounting reads is an input any more.  This file states C03 over `evalFrame`:

* `evalFrame_trace`           what a returning `evalFrame` did, stage by stage (the only unfolding of `evalFrame` here);
* `eval_critical_sound`       (b) every entry of TP / FP / TN / FN is an object of the frame that passed the manager
                              filter and satisfies the C10 criteria of the critical filter on its EGO-RELATIVE position
                              (`SFrame.egoXY`: its own x/y in a BASE_LINK frame, the inverse ego pose applied to it in a MAP
                              frame); `eval_counted_range` spells the range part out; `eval_critical_sound_toMap`
                              composes with `C07.evalFrame_toMap`: the MAP rendering of a BASE_LINK frame returns the
                              very same result and the criteria are tested on the very same coordinates;
* `eval_tp_sound`             (c) every TP is a pair the matcher made from the score table of the frame's geometry, the
                              ground truth not FP-labelled and label-compatible under the configured policy, both inside
                              the critical region, and the plane distance of the two BOXES (as the rendering computes it)
                              is below the entry of the pass/fail threshold list at the index of the GROUND TRUTH's label;
* `eval_conservation`, `eval_accounting_perm`, `eval_num_total`, `eval_tp_fp_exactly_one`
                              (a) the counting theorems, with `MatcherWF` / `FrameWF` / `GtsDistinct` DISCHARGED from the
                              construction; the one hypothesis left is about the input lists: `ObjectsDistinct f`
                              (ground truths pairwise different objects and pairwise different under `__eq__`, estimates
                              pairwise different objects — the quantifier's word "set");
* `eval_gt_sites_agree`       the one critical flag per ground truth of `evalFrame` (computed with `gtParams`, as
                              `filter_object_results` does) is also the verdict of `filter_objects(is_gt=True, …)`, which
                              additionally applies the confidence list, whenever the ground truth's own confidence beats
                              the critical confidence threshold (`GtConfBeats`; see `gtConfOK_nonvacuous`).

The defective variants: `eval_f2_not_critical_sound` (the F2 reader: the critical filter of the MAP branch is
called without transforms) refutes the statement of `eval_critical_sound`; `eval_estLabel_not_tp_sound` refutes the
statement of `eval_tp_sound` for the threshold keyed on the estimate's label; `eval_dup_gt_breaks_conservation` shows
that `ObjectsDistinct` is needed.
-/
namespace PEval.C03
open PEval PEval.FrameChange PEval.Pipeline PEval.PipelineProps

/-! ## what `evalFrame` does, stage by stage -/

/-- `frame_ground_truth.objects` / `estimated_objects` after the manager filter (`_filter_objects`) -/
def keptEsts (C : EvalCfg) (f : SFrame) : Except Err (List SObj) :=
  Filter.filterE (fun x => f.reader.verdict { C.mgr with isGt := false } x.tagged) f.ests
def keptGts (C : EvalCfg) (f : SFrame) : Except Err (List SObj) :=
  Filter.filterE (fun x => f.reader.verdict { C.mgr with isGt := true } x.tagged) f.gts

/-- the `Pipeline.Frame` that `evalFrame` hands to `Pipeline.detectFrame` for the kept objects `kE`, `kG` and the
critical verdicts `cE`, `cG`: labels, ids, confidences from the objects' attributes, every score from the table of
the boxes as the frame's rendering computes it, `__eq__` classes from the `__eq__` table of the kept ground truths -/
def frameOf (C : EvalCfg) (f : SFrame) (kE kG : List SObj) (cE cG : List Bool) : Pipeline.Frame :=
  mkFrame C f.reader.frame (kE.map (·.attr)) (kG.map (·.attr)) cE cG (tableOf f.reader kE kG)
    (eqKeys (eqTable f.reader.same kG))

/-- **the stages of a returning `evalFrame`**: manager filter on both lists, critical verdicts of every kept
object (estimates with `estParams`, ground truths with `gtParams`), matcher on the table of the kept boxes, and
`Pipeline.detectFrame` on the frame built from exactly these -/
theorem evalFrame_trace {C : EvalCfg} {f : SFrame} {o : FrameOut} (h : evalFrame C f = .ok o) :
    ∃ kE kG : List SObj, keptEsts C f = .ok kE ∧ keptGts C f = .ok kG ∧
      flagsE (fun x => f.reader.verdict (Filter.estParams C.crit) x.tagged) kE = .ok o.critEst ∧
      flagsE (fun x => f.reader.verdict (Filter.gtParams C.crit) x.tagged) kG = .ok o.critGt ∧
      o.keptEst = kE.map (·.attr.tag.id) ∧ o.keptGt = kG.map (·.attr.tag.id) ∧
      o.table = tableOf f.reader kE kG ∧ o.same = eqTable f.reader.same kG ∧
      Matching.getObjectResults C.matcher (frameOf C f kE kG o.critEst o.critGt).scene = .ok o.out.matched ∧
      Pipeline.detectFrame (frameOf C f kE kG o.critEst o.critGt) = .ok o.out := by
  unfold evalFrame evalWith at h
  cases hE : Filter.filterE (fun x => f.reader.verdict { C.mgr with isGt := false } x.tagged) f.ests with
  | error e => rw [hE] at h; cases h
  | ok kE =>
    rw [hE] at h; simp only at h
    cases hG : Filter.filterE (fun x => f.reader.verdict { C.mgr with isGt := true } x.tagged) f.gts with
    | error e => rw [hG] at h; cases h
    | ok kG =>
      rw [hG] at h; simp only at h
      unfold evalKept at h
      cases hcE : flagsE (fun x => f.reader.verdict (Filter.estParams C.crit) x.tagged) kE with
      | error e => rw [hcE] at h; cases h
      | ok cE =>
        rw [hcE] at h; simp only at h
        cases hcG : flagsE (fun x => f.reader.verdict (Filter.gtParams C.crit) x.tagged) kG with
        | error e => rw [hcG] at h; cases h
        | ok cG =>
          rw [hcG] at h; simp only at h
          unfold finish at h
          simp only at h
          cases hd : Pipeline.detectFrame (mkFrame C f.reader.frame (kE.map (·.attr)) (kG.map (·.attr)) cE cG
              (tableOf f.reader kE kG) (eqKeys (eqTable f.reader.same kG))) with
          | error e => rw [hd] at h; cases h
          | ok out =>
            rw [hd] at h
            cases h
            obtain ⟨rs, hr, hm, _, _⟩ := detectFrame_ok hd
            refine ⟨kE, kG, hE, hG, hcE, hcG, by simp [List.map_map, Function.comp], by simp [List.map_map, Function.comp],
              rfl, rfl, ?_, hd⟩
            show Matching.getObjectResults _ _ = .ok out.matched
            rw [hm]
            exact hr

/-! ## what the filters read of an object of the frame, and its ego-relative position -/

/-- what `_is_target_object` reads of object `x` of frame `f` (BASE_LINK: its own position; MAP: its map position and
the position carried through the inverse of the registered ego pose) -/
def _root_.PEval.FrameChange.SFrame.view (f : SFrame) (x : SObj) : Filter.Obj :=
  match f.frameId with
  | .baseLink => filterViewEgo x.tagged
  | .map => filterViewMap f.pose x.tagged

/-- the ego-relative planar position of object `x` of frame `f`, in whichever frame it is expressed -/
def _root_.PEval.FrameChange.SFrame.egoXY (f : SFrame) (x : SObj) : Filter.Pos :=
  match f.frameId with
  | .baseLink => ⟨x.obj.box.center.x, x.obj.box.center.y⟩
  | .map => ⟨(toEgo3 f.pose x.obj.box.center).x, (toEgo3 f.pose x.obj.box.center).y⟩

/-- the verdict of the frame's reader IS `Filter.isTarget` (C10's model of `_is_target_object`) on the view, with
the manager's `transforms` supplied -/
theorem reader_verdict (f : SFrame) (P : Filter.Params) (x : SObj) :
    f.reader.verdict P x.tagged = Filter.isTarget { P with hasTransforms := true } (f.view x) := by
  unfold SFrame.reader SFrame.view
  cases f.frameId <;> rfl

/-- the position C10's criteria are tested on (`Filter.EgoPos`) is `egoXY`, for either frame id -/
theorem egoPos_view_eval (f : SFrame) (P : Filter.Params) (hP : P.hasTransforms = true) (x : SObj) (p : Filter.Pos) :
    Filter.EgoPos P (f.view x) p ↔ p = f.egoXY x := by
  unfold Filter.EgoPos SFrame.view SFrame.egoXY
  cases f.frameId
  · constructor
    · rintro (⟨_, h⟩ | ⟨h, _⟩)
      · exact (Option.some.inj h).symm
      · exact absurd rfl h
    · intro h
      exact Or.inl ⟨rfl, by rw [h]; rfl⟩
  · constructor
    · rintro (⟨h, _⟩ | ⟨_, _, _, h⟩)
      · have h' : ("map" : String) = "base_link" := h
        exact absurd h' (by decide)
      · exact (Option.some.inj h).symm
    · intro h
      refine Or.inr ⟨?_, hP, ?_, by rw [h]; rfl⟩
      · show ("map" : String) ≠ "base_link"
        decide
      · show (some _ : Option Filter.Pos) ≠ none
        simp

/-- the four parameter sets in play: manager filter on estimates / ground truths, critical filter on the estimate
and on the ground truth of a result (`filter_object_results`), all with `transforms` supplied -/
def mgrEstP (C : EvalCfg) : Filter.Params := { ({ C.mgr with isGt := false } : Filter.Params) with hasTransforms := true }
def mgrGtP (C : EvalCfg) : Filter.Params := { ({ C.mgr with isGt := true } : Filter.Params) with hasTransforms := true }
def critEstP (C : EvalCfg) : Filter.Params := { Filter.estParams C.crit with hasTransforms := true }
def critGtP (C : EvalCfg) : Filter.Params := { Filter.gtParams C.crit with hasTransforms := true }

/-- estimate `x` of frame `f` passed the manager filter and lies in the critical region: C10's declarative criteria
(label, confidence, x / y / distance bounds on the ego-relative position) hold for both parameter sets -/
def EvalEstCounted (C : EvalCfg) (f : SFrame) (x : SObj) : Prop :=
  x ∈ f.ests ∧ Filter.Criteria (mgrEstP C) (f.view x) ∧ Filter.Criteria (critEstP C) (f.view x)

/-- ground truth `y` of frame `f` passed the manager filter and lies in the critical region (label, ignored
attributes, bounds on the ego-relative position, point count, uuid) -/
def EvalGtCounted (C : EvalCfg) (f : SFrame) (y : SObj) : Prop :=
  y ∈ f.gts ∧ Filter.Criteria (mgrGtP C) (f.view y) ∧ Filter.Criteria (critGtP C) (f.view y)

/-- every entry of the four lists of a frame result is an object of the frame inside the critical region -/
def EvalCountedInCritical (C : EvalCfg) (f : SFrame) (p : PassFail.PassFail) : Prop :=
  (∀ r ∈ p.tp ++ p.fp, ∃ x, EvalEstCounted C f x ∧ r.est = x.attr.tag.id ∧
    ∀ g, r.gt = some g → ∃ y, EvalGtCounted C f y ∧ g.id = y.attr.tag.id) ∧
  (∀ g ∈ p.tn ++ p.fn, ∃ y, EvalGtCounted C f y ∧ g.id = y.attr.tag.id)

/-! ### lemmas: flags, kept objects, the attributes of `frameOf` -/

theorem flagsE_getD {α} {g : α → Except Err Bool} {l : List α} {bs : List Bool} (h : flagsE g l = .ok bs) :
    ∀ i a, l[i]? = some a → g a = .ok (bs.getD i false) := by
  induction l generalizing bs with
  | nil => intro i a ha; simp at ha
  | cons b l ih =>
    unfold flagsE at h
    cases hb : g b with
    | error e => rw [hb] at h; cases h
    | ok v =>
      rw [hb] at h; simp only at h
      cases hr : flagsE g l with
      | error e => rw [hr] at h; cases h
      | ok vs =>
        rw [hr] at h; cases h
        intro i a ha
        cases i with
        | zero =>
          simp only [List.getElem?_cons_zero, Option.some.injEq] at ha
          subst ha
          simpa using hb
        | succ i =>
          simp only [List.getElem?_cons_succ] at ha
          simpa using ih hr i a ha

theorem kept_mem {α} {g : α → Except Err Bool} {l ks : List α} (h : Filter.filterE g l = .ok ks) {x : α}
    (hx : x ∈ ks) : x ∈ l ∧ g x = .ok true := by
  obtain ⟨_, hk⟩ := Filter.filterE_ok h
  rw [hk] at hx
  obtain ⟨h1, h2⟩ := List.mem_filter.1 hx
  exact ⟨h1, of_decide_eq_true h2⟩

theorem criteria_of_verdict {f : SFrame} {P : Filter.Params} {x : SObj} (h : f.reader.verdict P x.tagged = .ok true) :
    Filter.Criteria { P with hasTransforms := true } (f.view x) := by
  rw [reader_verdict] at h
  exact (Filter.isTarget_ok_iff h).1 rfl

section attrs
variable (C : EvalCfg) (f : SFrame) (kE kG : List SObj) (cE cG : List Bool)

theorem frameOf_est {i : Nat} {x : SObj} (hx : kE[i]? = some x) :
    (frameOf C f kE kG cE cG).est i =
      { id := x.attr.tag.id, label := x.attr.alabel, conf := x.attr.tag.score, crit := cE.getD i false } := by
  unfold frameOf mkFrame
  simp only [List.getElem?_map, hx, Option.map_some]

theorem frameOf_est_none {i : Nat} (hx : kE[i]? = none) : ((frameOf C f kE kG cE cG).est i).crit = false := by
  unfold frameOf mkFrame
  simp only [List.getElem?_map, hx, Option.map_none]

theorem frameOf_gt {j : Nat} {y : SObj} (hy : kG[j]? = some y) :
    (frameOf C f kE kG cE cG).gt j =
      { id := y.attr.tag.id, label := y.attr.alabel, crit := cG.getD j false,
        eqKey := (eqKeys (eqTable f.reader.same kG)).getD j 0 } := by
  unfold frameOf mkFrame
  simp only [List.getElem?_map, hy, Option.map_some]

theorem frameOf_gt_none {j : Nat} (hy : kG[j]? = none) : ((frameOf C f kE kG cE cG).gt j).crit = false := by
  unfold frameOf mkFrame
  simp only [List.getElem?_map, hy, Option.map_none]

theorem frameOf_est_crit {i : Nat} (h : ((frameOf C f kE kG cE cG).est i).crit = true) :
    ∃ x, kE[i]? = some x ∧ cE.getD i false = true := by
  cases hx : kE[i]? with
  | none => rw [frameOf_est_none C f kE kG cE cG hx] at h; cases h
  | some x => rw [frameOf_est C f kE kG cE cG hx] at h; exact ⟨x, rfl, h⟩

theorem frameOf_gt_crit {j : Nat} (h : ((frameOf C f kE kG cE cG).gt j).crit = true) :
    ∃ y, kG[j]? = some y ∧ cG.getD j false = true := by
  cases hy : kG[j]? with
  | none => rw [frameOf_gt_none C f kE kG cE cG hy] at h; cases h
  | some y => rw [frameOf_gt C f kE kG cE cG hy] at h; exact ⟨y, rfl, h⟩

end attrs

/-- the stages' outcome on one estimate position: critical flag set ⇒ the object there is a counted estimate -/
theorem est_counted {C : EvalCfg} {f : SFrame} {kE kG : List SObj} {cE cG : List Bool}
    (hE : keptEsts C f = .ok kE)
    (hcE : flagsE (fun x => f.reader.verdict (Filter.estParams C.crit) x.tagged) kE = .ok cE)
    {i : Nat} (h : ((frameOf C f kE kG cE cG).est i).crit = true) :
    ∃ x, kE[i]? = some x ∧ EvalEstCounted C f x ∧ ((frameOf C f kE kG cE cG).est i).id = x.attr.tag.id := by
  obtain ⟨x, hx, hc⟩ := frameOf_est_crit C f kE kG cE cG h
  obtain ⟨hm, hv⟩ := kept_mem hE (List.mem_of_getElem? hx)
  have hv2 := flagsE_getD hcE i x hx
  rw [hc] at hv2
  refine ⟨x, hx, ⟨hm, criteria_of_verdict hv, criteria_of_verdict hv2⟩, ?_⟩
  rw [frameOf_est C f kE kG cE cG hx]

theorem gt_counted {C : EvalCfg} {f : SFrame} {kE kG : List SObj} {cE cG : List Bool}
    (hG : keptGts C f = .ok kG)
    (hcG : flagsE (fun x => f.reader.verdict (Filter.gtParams C.crit) x.tagged) kG = .ok cG)
    {j : Nat} (h : ((frameOf C f kE kG cE cG).gt j).crit = true) :
    ∃ y, kG[j]? = some y ∧ EvalGtCounted C f y ∧ ((frameOf C f kE kG cE cG).gt j).id = y.attr.tag.id ∧
      ((frameOf C f kE kG cE cG).gt j).label = y.attr.alabel := by
  obtain ⟨y, hy, hc⟩ := frameOf_gt_crit C f kE kG cE cG h
  obtain ⟨hm, hv⟩ := kept_mem hG (List.mem_of_getElem? hy)
  have hv2 := flagsE_getD hcG j y hy
  rw [hc] at hv2
  refine ⟨y, hy, ⟨hm, criteria_of_verdict hv, criteria_of_verdict hv2⟩, ?_, ?_⟩ <;>
  rw [frameOf_gt C f kE kG cE cG hy]

/-! ## (b) nothing outside the critical region is counted -/

/-- the statement, for a way of evaluating a frame -/
def EvalCriticalSound (eval : EvalCfg → SFrame → Except Err FrameOut) : Prop :=
  ∀ C f o, eval C f = .ok o → EvalCountedInCritical C f o.out.pf

/-- **(b)** for every configuration (both filters with any per-label bounds, `target_uuids`,
`ignore_attributes`, point-count thresholds; any matcher mode and policy; any pass/fail thresholds) and every frame —
objects in BASE_LINK, or in MAP with the ego pose registered — whatever `evalFrame` counts as TP / FP / TN / FN is an
object of the frame that passed the manager filter and satisfies the critical filter's criteria on its ego-relative
position.  No hypothesis besides "the call returned". -/
theorem eval_critical_sound : EvalCriticalSound evalFrame := by
  intro C f o h
  obtain ⟨kE, kG, hE, hG, hcE, hcG, _, _, _, _, _, hdet⟩ := evalFrame_trace h
  obtain ⟨rs, _, _, hpf, _⟩ := detectFrame_ok hdet
  obtain ⟨m1, m2, m3, m4⟩ := PassFail.evaluate_members
    (PassFail.criticalResults (pfFrame (frameOf C f kE kG o.critEst o.critGt) rs).results)
    (PassFail.criticalGts (pfFrame (frameOf C f kE kG o.critEst o.critGt) rs).gts)
  have hpf' : o.out.pf = PassFail.evaluate
      (PassFail.criticalResults (pfFrame (frameOf C f kE kG o.critEst o.critGt) rs).results)
      (PassFail.criticalGts (pfFrame (frameOf C f kE kG o.critEst o.critGt) rs).gts) := hpf
  rw [← hpf'] at m1 m2 m3 m4
  -- a surviving translated result
  have surv : ∀ r0 ∈ PassFail.criticalResults (pfFrame (frameOf C f kE kG o.critEst o.critGt) rs).results,
      ∃ x, EvalEstCounted C f x ∧ r0.est = x.attr.tag.id ∧
        ∀ g, r0.gt = some g → ∃ y, EvalGtCounted C f y ∧ g.id = y.attr.tag.id := by
    intro r0 hr0
    obtain ⟨hmem, hs⟩ := List.mem_filter.1 hr0
    obtain ⟨m, _, rfl⟩ := List.mem_map.1 hmem
    rw [resSurvives_toPFRes] at hs
    obtain ⟨i, oj⟩ := m
    have hs' := Bool.and_eq_true_iff.1 hs
    obtain ⟨x, _, hx, hid⟩ := est_counted (kG := kG) (cG := o.critGt) hE hcE hs'.1
    refine ⟨x, hx, by rw [toPFRes_est]; exact hid, ?_⟩
    intro g hg
    rw [toPFRes_gt] at hg
    cases oj with
    | none => cases hg
    | some j =>
      simp only [Option.map_some, Option.some.injEq] at hg
      subst hg
      obtain ⟨y, _, hy, hid', _⟩ := gt_counted (kE := kE) (cE := o.critEst) hG hcG hs'.2
      exact ⟨y, hy, hid'⟩
  have neg : ∀ g, (g ∈ PassFail.criticalGts (pfFrame (frameOf C f kE kG o.critEst o.critGt) rs).gts ∨
      g ∈ PassFail.gtsOf (PassFail.criticalResults (pfFrame (frameOf C f kE kG o.critEst o.critGt) rs).results)) →
      ∃ y, EvalGtCounted C f y ∧ g.id = y.attr.tag.id := by
    rintro g (hg | hg)
    · obtain ⟨hmem, hc⟩ := List.mem_filter.1 hg
      obtain ⟨j, _, rfl⟩ := List.mem_map.1 hmem
      obtain ⟨y, _, hy, hid', _⟩ := gt_counted (kE := kE) (cE := o.critEst) hG hcG (show ((frameOf C f kE kG o.critEst o.critGt).gt j).crit = true from hc)
      exact ⟨y, hy, hid'⟩
    · obtain ⟨r0, hr0, hrg⟩ := PassFail.mem_gtsOf.1 hg
      obtain ⟨_, _, _, hgt⟩ := surv r0 hr0
      exact hgt g hrg
  constructor
  · intro r hr
    rcases List.mem_append.1 hr with hr | hr
    · exact surv r (m1 r hr)
    · obtain ⟨r0, hr0, he, hg⟩ := m2 r hr
      obtain ⟨x, hx, hid, hgt⟩ := surv r0 hr0
      refine ⟨x, hx, by rw [he]; exact hid, ?_⟩
      intro g hrg
      rcases hg with hg | hg
      · rw [hg] at hrg; exact hgt g hrg
      · rw [hg] at hrg; cases hrg
  · intro g hg
    rcases List.mem_append.1 hg with hg | hg
    · exact neg g (m3 g hg)
    · exact neg g (m4 g hg)

/-- the range part spelled out: for a counted object that is not FP-labelled (those pass by C10's first clause,
DESIGN §7 O1) the x / y / distance / point-count criteria hold AT its ego-relative position `egoXY` — its own
coordinates in a BASE_LINK frame, `toEgo3 pose position` in a MAP frame -/
theorem eval_counted_range {C : EvalCfg} {f : SFrame} {x : SObj} (isGt : Bool)
    (h : if isGt then EvalGtCounted C f x else EvalEstCounted C f x) (hfp : ¬ Filter.IsFP x.attr.tag.label) :
    Filter.RangeOK (if isGt then critGtP C else critEstP C) (f.view x) (f.egoXY x) := by
  have hl : (f.view x).label = x.attr.tag.label := by
    unfold SFrame.view; cases f.frameId <;> rfl
  cases isGt with
  | true =>
    rcases h.2.2 with h | h
    · exact absurd (hl ▸ h) hfp
    · exact h.2.2.2.1 _ ((egoPos_view_eval f (critGtP C) rfl x _).2 rfl)
  | false =>
    rcases h.2.2 with h | h
    · exact absurd (hl ▸ h) hfp
    · exact h.2.2.2.1 _ ((egoPos_view_eval f (critEstP C) rfl x _).2 rfl)

/-! ### in whichever frame: composition with `C07.evalFrame_toMap` -/

/-- the ego-relative position of the MAP rendering of a BASE_LINK object is the object's own position (any unit
yaw, any translation incl. height) -/
theorem egoXY_toMap (e : Pose) (he : e.rot.IsUnit) (f : SFrame) (hf : f.frameId = .baseLink) (x : SObj) :
    (f.toMap e).egoXY (x.toMap e) = f.egoXY x := by
  unfold SFrame.egoXY
  rw [hf]
  show (⟨(toEgo3 e (x.obj.toMap e).box.center).x, (toEgo3 e (x.obj.toMap e).box.center).y⟩ : Filter.Pos) = _
  rw [C07.egoPos3_toMap e he]

/-- **(b), either rendering**: a recorded BASE_LINK frame and its MAP rendering under the ego pose `e` (unit yaw,
any translation) return the SAME result — same four lists, same exception otherwise — and on both renderings every
counted entry satisfies the critical criteria, tested at the same ego-relative coordinates (`egoXY_toMap`) -/
theorem eval_critical_sound_toMap (C : EvalCfg) (e : Pose) (f : SFrame) (hok : C07.FrameOK e f) :
    evalFrame C (f.toMap e) = evalFrame C f ∧
    ∀ o, evalFrame C f = .ok o →
      EvalCountedInCritical C f o.out.pf ∧ EvalCountedInCritical C (f.toMap e) o.out.pf ∧
      ∀ x, (f.toMap e).egoXY (x.toMap e) = f.egoXY x := by
  have h := C07.evalFrame_toMap C e f hok
  refine ⟨h, ?_⟩
  intro o ho
  refine ⟨eval_critical_sound C f o ho, eval_critical_sound C (f.toMap e) o (h ▸ ho), ?_⟩
  intro x
  exact egoXY_toMap e hok.1 f hok.2.2.1 x

/-! ## (c) TP soundness on the frame's objects -/

/-- the scene `evalFrame` hands to the matcher: labels of the kept objects, the frame id of the rendering, and as
matching value the entry of the score table (computed from the boxes) for the matcher's mode -/
def sceneOf (C : EvalCfg) (f : SFrame) (kE kG : List SObj) : Matching.Scene :=
  { ests := kE.map (fun a => ⟨a.attr.mlabel, f.reader.frame⟩)
    gts := kG.map (fun a => ⟨a.attr.mlabel, f.reader.frame⟩)
    val := fun i j =>
      match rowAt (tableOf f.reader kE kG) i j with
      | some r => mValue C.dist C.matcher.mode r
      | none => 0 }

theorem frameOf_scene (C : EvalCfg) (f : SFrame) (kE kG : List SObj) (cE cG : List Bool) :
    (frameOf C f kE kG cE cG).scene = sceneOf C f kE kG := by
  unfold frameOf mkFrame sceneOf
  simp only [List.map_map, Function.comp_def]
  rfl

theorem rowAt_tableOf (R : Reader) {kE kG : List SObj} {i j : Nat} {x y : SObj} (hx : kE[i]? = some x)
    (hy : kG[j]? = some y) : rowAt (tableOf R kE kG) i j = some (R.row x.obj y.obj).unsigned := by
  unfold rowAt tableOf
  simp only [List.getElem?_map, hx, hy, Option.map_some]

/-- the statement, for a way of evaluating a frame: every TP is a pair `(i, j)` of the matcher's result on the
scene of the kept objects; the estimate `x` and the ground truth `y` at these positions passed both filters (C10's
criteria on their ego-relative positions); `y` is not FP-labelled and label-compatible with `x` under the configured
policy; and whenever a pass/fail threshold list is configured and `y`'s label occurs in the pass/fail target list, the
plane distance of the two BOXES, as the frame's rendering computes it, is strictly below the entry of the threshold list
at the index of `y`'s label in the target list -/
def EvalTpSound (eval : EvalCfg → SFrame → Except Err FrameOut) : Prop :=
  ∀ C f o, eval C f = .ok o → ∀ r ∈ o.out.pf.tp,
    ∃ (kE kG : List SObj) (i j : Nat) (x y : SObj),
      keptEsts C f = .ok kE ∧ keptGts C f = .ok kG ∧
      Matching.getObjectResults C.matcher (sceneOf C f kE kG) = .ok o.out.matched ∧
      (i, some j) ∈ o.out.matched ∧ kE[i]? = some x ∧ kG[j]? = some y ∧
      r.est = x.attr.tag.id ∧ r.gt.map (·.id) = some y.attr.tag.id ∧
      EvalEstCounted C f x ∧ EvalGtCounted C f y ∧
      Matching.isMatchable C.matcher.policy ⟨x.attr.mlabel, f.reader.frame⟩ ⟨y.attr.mlabel, f.reader.frame⟩ = true ∧
      y.attr.alabel ≠ AP.fpLabel ∧
      ∀ thrs k, C.pfThrs = some thrs → IsIndexOf y.attr.alabel C.pfTargets k →
        ∃ t, thrs[k]? = some t ∧ C.dist (f.reader.row x.obj y.obj).plane2 < t

/-- **(c)** TP soundness of the whole frame evaluation; no hypothesis besides "the call returned" -/
theorem eval_tp_sound : EvalTpSound evalFrame := by
  intro C f o h r hr
  obtain ⟨kE, kG, hE, hG, hcE, hcG, _, _, _, _, hmatch, hdet⟩ := evalFrame_trace h
  obtain ⟨i, j, e, g, hmem, hest, hgt, he, hg, hlab, hnfp, hci, hcj, hthr⟩ :=
    pipeline_tp_sound_detectFrame _ _ hdet r hr
  obtain ⟨x, hx, hxc, hxid⟩ := est_counted (kG := kG) (cG := o.critGt) hE hcE hci
  obtain ⟨y, hy, hyc, hyid, hylab⟩ := gt_counted (kE := kE) (cE := o.critEst) hG hcG hcj
  rw [frameOf_scene] at hmatch he hg
  have he' : e = ⟨x.attr.mlabel, f.reader.frame⟩ := by
    have : (sceneOf C f kE kG).ests[i]? = some ⟨x.attr.mlabel, f.reader.frame⟩ := by
      unfold sceneOf; simp only [List.getElem?_map, hx, Option.map_some]
    rw [this] at he; exact (Option.some.inj he).symm
  have hg' : g = ⟨y.attr.mlabel, f.reader.frame⟩ := by
    have : (sceneOf C f kE kG).gts[j]? = some ⟨y.attr.mlabel, f.reader.frame⟩ := by
      unfold sceneOf; simp only [List.getElem?_map, hy, Option.map_some]
    rw [this] at hg; exact (Option.some.inj hg).symm
  subst he' hg'
  refine ⟨kE, kG, i, j, x, y, hE, hG, hmatch, hmem, hx, hy, by rw [hest, hxid], ?_, hxc, hyc, hlab, ?_, ?_⟩
  · rw [hgt]
    show some (toGT (frameOf C f kE kG o.critEst o.critGt) j).id = _
    show some ((frameOf C f kE kG o.critEst o.critGt).gt j).id = _
    rw [hyid]
  · rw [← hylab]; exact hnfp
  · intro thrs k hthrs hk
    rw [← hylab] at hk
    obtain ⟨t, v, ht, hv, hlt⟩ := hthr thrs k hthrs hk
    refine ⟨t, ht, ?_⟩
    have hsc : (frameOf C f kE kG o.critEst o.critGt).pfScore i j
        = some (C.dist (f.reader.row x.obj y.obj).unsigned.plane2) := by
      unfold frameOf mkFrame
      simp only [rowAt_tableOf f.reader hx hy, Option.map_some]
    rw [hsc] at hv
    cases hv
    exact hlt

/-! ## (a) conservation and exactly-once accounting, hypotheses discharged from the construction

`pipeline_conservation` & co. need `PassFail.GtsDistinct (pfGts …)` on the `Pipeline.Frame` (ids and `__eq__` classes of
the ground truths handed to the matcher), `critical_conservation` & co. need `FrameWF` and `GtConfOK`.  On `evalFrame`
the ids are the objects' ids, the `__eq__` classes are computed from time stamp, label, position, orientation
(`SObj.sameAs`, `eqTable`, `eqKeys`), the pairing is the matcher's (so `MatcherWF` is C01's theorem,
`matcher_output_wf`), and one critical verdict per ground truth serves both call sites (`eval_gt_sites_agree` below).
What is left is ONE hypothesis on the two input lists. -/

/-- **the one input hypothesis** (the quantifier's word "set"): the ground truths handed to `add_frame_result` are
pairwise different objects and pairwise different under `DynamicObject.__eq__` (time stamp, label, position,
orientation), the estimates are pairwise different objects.  What real inputs guarantee: `id` is the harness's name for
the Python object (always distinct); two annotations of one frame that agree in time stamp, label, exact position and
exact orientation do not occur in loaded datasets (`dup_gt_breaks_conservation`, `eval_dup_gt_breaks_conservation`
show what happens when they do; DESIGN §4.3 lists duplicate ground truths as an excluded-point probe). -/
structure ObjectsDistinct (f : SFrame) : Prop where
  gts : f.gts.Pairwise (fun a b => a.attr.tag.id ≠ b.attr.tag.id ∧ a.sameAs Obj.samePose b = false)
  ests : f.ests.Pairwise (fun a b => a.attr.tag.id ≠ b.attr.tag.id)

theorem reader_same (f : SFrame) : f.reader.same = Obj.samePose := by
  unfold SFrame.reader
  cases f.frameId <;> rfl

theorem sameAs_iff (a b : SObj) :
    a.sameAs Obj.samePose b = true ↔
      (a.attr.stamp = b.attr.stamp ∧ a.attr.mlabel = b.attr.mlabel ∧ a.obj.box.center = b.obj.box.center ∧
        a.obj.box.rot = b.obj.box.rot) := by
  unfold SObj.sameAs
  rw [Bool.and_eq_true, Bool.and_eq_true, samePose_iff]
  simp [and_assoc]

theorem kept_sublist {α} {g : α → Except Err Bool} {l ks : List α} (h : Filter.filterE g l = .ok ks) :
    ks.Sublist l := by
  obtain ⟨_, hk⟩ := Filter.filterE_ok h
  rw [hk]
  exact List.filter_sublist

/-- `__eq__` classes of a list of pairwise `!=` objects are pairwise different -/
theorem eqKeys_ne {kG : List SObj} (hp : kG.Pairwise (fun a b => a.sameAs Obj.samePose b = false))
    {j j' : Nat} (hjj : j < j') (hj' : j' < kG.length) :
    (eqKeys (eqTable Obj.samePose kG)).getD j 0 ≠ (eqKeys (eqTable Obj.samePose kG)).getD j' 0 := by
  have hj : j < kG.length := Nat.lt_trans hjj hj'
  have key : ∀ k (hk : k < kG.length), (eqKeys (eqTable Obj.samePose kG)).getD k 0 =
      (kG.map (fun b => kG[k].sameAs Obj.samePose b)).idxOf true := by
    intro k hk
    unfold eqKeys eqTable
    simp [List.getD_eq_getElem?_getD, hk]
  rw [key j hj, key j' hj']
  intro heq
  -- the class representative of row j lies at a position ≤ j, and is `==` to both
  have hrefl : ∀ k (hk : k < kG.length), (kG.map (fun b => kG[k].sameAs Obj.samePose b))[k]'(by simpa using hk) = true := by
    intro k hk
    simp only [List.getElem_map]
    exact (sameAs_iff _ _).2 ⟨rfl, rfl, rfl, rfl⟩
  have hmem : ∀ k (hk : k < kG.length), true ∈ kG.map (fun b => kG[k].sameAs Obj.samePose b) := by
    intro k hk
    exact List.mem_of_getElem (hrefl k hk)
  have hlt : ∀ k (hk : k < kG.length),
      (kG.map (fun b => kG[k].sameAs Obj.samePose b)).idxOf true < kG.length := by
    intro k hk
    have := List.idxOf_lt_length_iff.2 (hmem k hk)
    simpa using this
  have hat : ∀ k (hk : k < kG.length),
      kG[k].sameAs Obj.samePose (kG[(kG.map (fun b => kG[k].sameAs Obj.samePose b)).idxOf true]'(hlt k hk)) = true := by
    intro k hk
    have := List.getElem_idxOf (xs := kG.map (fun b => kG[k].sameAs Obj.samePose b)) (x := true)
      (by rw [List.length_map]; exact hlt k hk)
    rw [List.getElem_map] at this
    exact this
  have h1 := hat j hj
  have h2 := hat j' hj'
  have hidx : (kG.map (fun b => kG[j'].sameAs Obj.samePose b)).idxOf true
      = (kG.map (fun b => kG[j].sameAs Obj.samePose b)).idxOf true := heq.symm
  have h2' : kG[j'].sameAs Obj.samePose (kG[(kG.map (fun b => kG[j].sameAs Obj.samePose b)).idxOf true]'(hlt j hj)) = true := by
    have e : ∀ (a b : Nat) (ha : a < kG.length) (hb : b < kG.length), a = b → kG[a] = kG[b] := by
      intro a b ha hb hab; subst hab; rfl
    rw [← e _ _ (hlt j' hj') (hlt j hj) hidx]
    exact h2
  have hsame : kG[j].sameAs Obj.samePose kG[j'] = true := by
    obtain ⟨a1, a2, a3, a4⟩ := (sameAs_iff _ _).1 h1
    obtain ⟨b1, b2, b3, b4⟩ := (sameAs_iff _ _).1 h2'
    exact (sameAs_iff _ _).2 ⟨a1.trans b1.symm, a2.trans b2.symm, a3.trans b3.symm, a4.trans b4.symm⟩
  have := (List.pairwise_iff_getElem.1 hp) j j' hj hj' hjj
  rw [hsame] at this
  cases this

/-- `ObjectsDistinct` on the input lists discharges `GtsDistinct` of the frame `evalFrame` builds (whatever the
critical verdicts) -/
theorem gtsDistinct_frameOf {C : EvalCfg} {f : SFrame} (hd : ObjectsDistinct f) {kE kG : List SObj}
    (hG : keptGts C f = .ok kG) (cE cG : List Bool) :
    PassFail.GtsDistinct (pfGts (frameOf C f kE kG cE cG)) := by
  have hsub := kept_sublist hG
  have hp := hd.gts.sublist hsub
  have hlen : (frameOf C f kE kG cE cG).scene.gts.length = kG.length := by
    rw [frameOf_scene]; simp [sceneOf]
  unfold PassFail.GtsDistinct pfGts
  rw [hlen, List.pairwise_map]
  refine List.Pairwise.imp_of_mem ?_ (List.pairwise_lt_range (n := kG.length))
  intro j j' hj hj' hjj
  have hj1 : j < kG.length := List.mem_range.1 hj
  have hj2 : j' < kG.length := List.mem_range.1 hj'
  have hy : kG[j]? = some kG[j] := List.getElem?_eq_getElem hj1
  have hy' : kG[j']? = some kG[j'] := List.getElem?_eq_getElem hj2
  have hR := (List.pairwise_iff_getElem.1 hp) j j' hj1 hj2 hjj
  unfold toGT
  rw [frameOf_gt C f kE kG cE cG hy, frameOf_gt C f kE kG cE cG hy']
  refine ⟨hR.1, ?_⟩
  simp only
  rw [reader_same]
  exact eqKeys_ne (hp.imp (fun h => h.2)) hjj hj2

theorem estIds_frameOf {C : EvalCfg} {f : SFrame} (hd : ObjectsDistinct f) {kE kG : List SObj}
    (hE : keptEsts C f = .ok kE) (cE cG : List Bool) :
    ((List.range (frameOf C f kE kG cE cG).scene.ests.length).map
      (fun i => ((frameOf C f kE kG cE cG).est i).id)).Nodup := by
  have hp := hd.ests.sublist (kept_sublist hE)
  have hlen : (frameOf C f kE kG cE cG).scene.ests.length = kE.length := by
    rw [frameOf_scene]; simp [sceneOf]
  rw [hlen]
  unfold List.Nodup
  rw [List.pairwise_map]
  refine List.Pairwise.imp_of_mem ?_ (List.pairwise_lt_range (n := kE.length))
  intro i i' hi hi' hii
  have hi1 : i < kE.length := List.mem_range.1 hi
  have hi2 : i' < kE.length := List.mem_range.1 hi'
  rw [frameOf_est C f kE kG cE cG (List.getElem?_eq_getElem hi1),
    frameOf_est C f kE kG cE cG (List.getElem?_eq_getElem hi2)]
  exact (List.pairwise_iff_getElem.1 hp) i i' hi1 hi2 hii

/-- **(a) conservation**: in every frame `evalFrame` returns, ordinary critical ground truths = TP + FN, FP-labelled
critical ground truths = TN + matched FP, surviving results = TP + FP -/
theorem eval_conservation (C : EvalCfg) (f : SFrame) (o : FrameOut) (h : evalFrame C f = .ok o)
    (hd : ObjectsDistinct f) :
    (o.out.pf.gts.filter (fun g => !g.isFP)).length = o.out.pf.tp.length + o.out.pf.fn.length ∧
    (o.out.pf.gts.filter (fun g => g.isFP)).length
        = o.out.pf.tn.length + (PassFail.matchedFP o.out.pf.fp).length ∧
    o.out.pf.tp.length + o.out.pf.fp.length = o.out.pf.results.length := by
  obtain ⟨kE, kG, _, hG, _, _, _, _, _, _, _, hdet⟩ := evalFrame_trace h
  exact pipeline_conservation _ _ hdet (gtsDistinct_frameOf hd hG _ _)

/-- **(a) exactly-once accounting**: the ground truths of the TP results, the FN list, the TN list and the ground
truths of the matched-FP results are together a permutation of the critical ground truths -/
theorem eval_accounting_perm (C : EvalCfg) (f : SFrame) (o : FrameOut) (h : evalFrame C f = .ok o)
    (hd : ObjectsDistinct f) :
    (PassFail.gtsOf o.out.pf.tp ++ (o.out.pf.fn ++ (o.out.pf.tn ++
      PassFail.gtsOf (PassFail.matchedFP o.out.pf.fp)))).Perm o.out.pf.gts := by
  obtain ⟨kE, kG, _, hG, _, _, _, _, _, _, _, hdet⟩ := evalFrame_trace h
  exact pipeline_accounting_perm _ _ hdet (gtsDistinct_frameOf hd hG _ _)

/-- … the critical ground truths being exactly the kept ground truths whose critical verdict is `True`, in order
(so the permutation above accounts for each of THEM exactly once) -/
theorem eval_critical_gts (C : EvalCfg) (f : SFrame) (o : FrameOut) (h : evalFrame C f = .ok o) :
    ∃ kG : List SObj, keptGts C f = .ok kG ∧
      o.out.pf.gts.map (·.id) =
        ((List.range kG.length).filter (fun j => o.critGt.getD j false)).map (fun j => (kG.map (·.attr.tag.id)).getD j 0) := by
  obtain ⟨kE, kG, _, hG, _, _, _, _, _, _, _, hdet⟩ := evalFrame_trace h
  refine ⟨kG, hG, ?_⟩
  rw [(pipeline_same_lists _ _ hdet).2.1]
  unfold critGtIdx
  have hlen : (frameOf C f kE kG o.critEst o.critGt).scene.gts.length = kG.length := by
    rw [frameOf_scene]; simp [sceneOf]
  rw [hlen, List.map_map]
  have hfil : (List.range kG.length).filter (fun j => ((frameOf C f kE kG o.critEst o.critGt).gt j).crit)
      = (List.range kG.length).filter (fun j => o.critGt.getD j false) := by
    apply List.filter_congr
    intro j hj
    rw [frameOf_gt C f kE kG o.critEst o.critGt (List.getElem?_eq_getElem (List.mem_range.1 hj))]
  rw [hfil]
  apply List.map_congr_left
  intro j hj
  have hj' : j < kG.length := List.mem_range.1 (List.mem_filter.1 hj).1
  show ((frameOf C f kE kG o.critEst o.critGt).gt j).id = _
  rw [frameOf_gt C f kE kG o.critEst o.critGt (List.getElem?_eq_getElem hj')]
  simp [List.getD_eq_getElem?_getD, hj']

/-- **(a) counters** -/
theorem eval_num_total (C : EvalCfg) (f : SFrame) (o : FrameOut) (h : evalFrame C f = .ok o)
    (hd : ObjectsDistinct f) :
    PassFail.numSuccess o.out.pf + PassFail.numFail o.out.pf + o.out.pf.tp.length
        + (PassFail.matchedFP o.out.pf.fp).length = o.out.pf.results.length + o.out.pf.gts.length := by
  obtain ⟨kE, kG, _, hG, _, _, _, _, _, _, _, hdet⟩ := evalFrame_trace h
  exact pipeline_num_total _ _ hdet (gtsDistinct_frameOf hd hG _ _)

/-- **(a)** each surviving estimate is in exactly one of TP / FP -/
theorem eval_tp_fp_exactly_one (C : EvalCfg) (f : SFrame) (o : FrameOut) (h : evalFrame C f = .ok o)
    (hd : ObjectsDistinct f) :
    ∀ r ∈ o.out.pf.results,
      (r.est ∈ o.out.pf.tp.map (·.est) ∧ r.est ∉ o.out.pf.fp.map (·.est)) ∨
      (r.est ∉ o.out.pf.tp.map (·.est) ∧ r.est ∈ o.out.pf.fp.map (·.est)) := by
  obtain ⟨kE, kG, hE, _, _, _, _, _, _, _, _, hdet⟩ := evalFrame_trace h
  exact pipeline_tp_fp_exactly_one _ _ hdet (estIds_frameOf hd hE _ _)

/-- the matcher's guarantee (C01) is the well-formedness hypothesis of the C03 counting theorems — derived, not assumed -/
theorem eval_matcher_wf (C : EvalCfg) (f : SFrame) (o : FrameOut) (h : evalFrame C f = .ok o)
    (hd : ObjectsDistinct f) :
    ∃ kE kG, keptEsts C f = .ok kE ∧ keptGts C f = .ok kG ∧
      PassFail.MatcherWF (pfFrame (frameOf C f kE kG o.critEst o.critGt) o.out.matched) ∧
      o.out.pf = PassFail.evaluateFrame (pfFrame (frameOf C f kE kG o.critEst o.critGt) o.out.matched) := by
  obtain ⟨kE, kG, hE, hG, _, _, _, _, _, _, _, hdet⟩ := evalFrame_trace h
  obtain ⟨rs, hr, hm, hpf, _⟩ := detectFrame_ok hdet
  subst hm
  exact ⟨kE, kG, hE, hG, matcher_output_wf _ _ hr (gtsDistinct_frameOf hd hG _ _), hpf⟩

/-- histories: `add_frame_result` evaluates every frame on its own -/
theorem eval_history_conservation (C : EvalCfg) (fs : List SFrame) (outs : List FrameOut)
    (h : evalHistory C fs = .ok outs) (hd : ∀ f ∈ fs, ObjectsDistinct f) :
    ∀ o ∈ outs,
      (o.out.pf.gts.filter (fun g => !g.isFP)).length = o.out.pf.tp.length + o.out.pf.fn.length ∧
      (o.out.pf.gts.filter (fun g => g.isFP)).length
          = o.out.pf.tn.length + (PassFail.matchedFP o.out.pf.fp).length ∧
      o.out.pf.tp.length + o.out.pf.fp.length = o.out.pf.results.length := by
  unfold evalHistory at h
  induction fs generalizing outs with
  | nil => cases h; intro o ho; cases ho
  | cons f fs ih =>
    unfold mapE at h
    cases h1 : evalFrame C f with
    | error e => rw [h1] at h; cases h
    | ok o1 =>
      rw [h1] at h; simp only at h
      cases h2 : mapE (evalFrame C) fs with
      | error e => rw [h2] at h; cases h
      | ok os =>
        rw [h2] at h; cases h
        intro o ho
        rcases List.mem_cons.1 ho with rfl | ho
        · exact eval_conservation C f _ h1 (hd f List.mem_cons_self)
        · exact ih os h2 (fun g hg => hd g (List.mem_cons_of_mem _ hg)) o ho

/-! ## one critical verdict per ground truth serves both call sites

`evalFrame` computes ONE critical flag per kept ground truth, with `Filter.gtParams` (what `filter_object_results`
hands to `_is_target_object` for the ground truth of a result: no confidence list).  The other call site,
`filter_objects(frame_ground_truth.objects, is_gt=True, **filtering_params)`, hands the confidence list on, and
`_is_target_object` compares it with the ground truth's own `semantic_score` (DESIGN §7 O7).  The two verdicts are
the same whenever that score beats the critical confidence threshold of the ground truth's label: -/

/-- the confidence of ground truth `y` beats the critical confidence threshold of its label (vacuous without a
critical confidence list, true for FP-labelled ground truths).  Real inputs: every ground truth built by the dataset
loader has `semantic_score = 1.0` (`dataset_utils.py`), and `confidence_threshold` is a probability < 1 -/
def GtConfBeats (C : EvalCfg) (f : SFrame) (y : SObj) : Prop := CritFrame.ConfBeats C.crit (f.view y)

theorem eval_gt_sites_agree (C : EvalCfg) (f : SFrame) (y : SObj) (hc : GtConfBeats C f y) :
    f.reader.verdict { C.crit with isGt := true } y.tagged = f.reader.verdict (Filter.gtParams C.crit) y.tagged := by
  rw [reader_verdict, reader_verdict]
  exact CritFrame.isTarget_gt_conf (P := { ({ C.crit with isGt := true } : Filter.Params) with hasTransforms := true })
    (o := f.view y) rfl hc

/-! ## defective variants

`evalFrameX det res` is `evalFrame` with two holes: `det` in place of `Pipeline.detectFrame`, and the reader `res f`
in place of `f.reader` for the critical verdicts of the ESTIMATES (the `filter_object_results` call site).  With
`Pipeline.detectFrame` and `SFrame.reader` it is `evalFrame` (`evalFrameX_code`, by `rfl`).

* `evalFrameF2`: the `filter_object_results` call receives `transform=` instead of `transforms=` (commit 46d063e
  reverted): the callee sees `transforms=None`, a MAP-frame estimate has no ego-relative position and is not
  range-tested.  (The ground-truth half of the same call cannot be told apart from the `filter_objects` call in
  `Pipeline.Frame`, which has one flag per ground truth; `Model/CriticalFrame.lean` has both.)
* `evalFrameEstKey`: the pass/fail threshold keyed on the ESTIMATE's label (seeded changes C03_B / C01_A). -/

def finishX (det : Pipeline.Frame → Except Err Pipeline.Out) (C : EvalCfg) (fr : String) (aE aG : List Attr)
    (cE cG : List Bool) (T : List (List ScoreRow)) (tbl : List (List Bool)) : Except Err FrameOut :=
  let pf := mkFrame C fr aE aG cE cG T (eqKeys tbl)
  match det pf with
  | .error e => .error e
  | .ok out =>
    .ok { keptEst := aE.map (·.tag.id), keptGt := aG.map (·.tag.id), critEst := cE, critGt := cG,
          table := T, same := tbl, out := out,
          tracks := (Pipeline.critResults pf out.matched).map (trackRes C aE aG pf),
          gtLabels := (Pipeline.apGts pf).map (·.label) }

def evalKeptX (det : Pipeline.Frame → Except Err Pipeline.Out) (R Rres : Reader) (C : EvalCfg) (kE kG : List SObj) :
    Except Err FrameOut :=
  match flagsE (fun o => Rres.verdict (Filter.estParams C.crit) o.tagged) kE with
  | .error e => .error e
  | .ok cE =>
    match flagsE (fun o => R.verdict (Filter.gtParams C.crit) o.tagged) kG with
    | .error e => .error e
    | .ok cG =>
      finishX det C R.frame (kE.map (·.attr)) (kG.map (·.attr)) cE cG (tableOf R kE kG) (eqTable R.same kG)

def evalFrameX (det : Pipeline.Frame → Except Err Pipeline.Out) (res : SFrame → Reader) (C : EvalCfg) (f : SFrame) :
    Except Err FrameOut :=
  match Filter.filterE (fun o => f.reader.verdict { C.mgr with isGt := false } o.tagged) f.ests with
  | .error e => .error e
  | .ok kE =>
    match Filter.filterE (fun o => f.reader.verdict { C.mgr with isGt := true } o.tagged) f.gts with
    | .error e => .error e
    | .ok kG => evalKeptX det f.reader (res f) C kE kG

/-- the code is the instance with the real `detectFrame` and the frame's own reader at both sites -/
theorem evalFrameX_code (C : EvalCfg) (f : SFrame) : evalFrameX Pipeline.detectFrame SFrame.reader C f = evalFrame C f := rfl

/-- the frame's reader as a callee sees it that was handed `transforms=None` -/
def readerNoTransforms (f : SFrame) : Reader :=
  { f.reader with
    verdict := fun P t =>
      match f.frameId with
      | .baseLink => Filter.isTarget { P with hasTransforms := false } (filterViewEgo t)
      | .map => Filter.isTarget { P with hasTransforms := false } (filterViewMap f.pose t) }

def evalFrameF2 : EvalCfg → SFrame → Except Err FrameOut := evalFrameX Pipeline.detectFrame readerNoTransforms
def evalFrameEstKey : EvalCfg → SFrame → Except Err FrameOut := evalFrameX (Pipeline.detectFrameWith .estLabel) SFrame.reader

/-- some counted estimate / ground-truth id belongs only to objects of the frame that `_is_target_object` rejects -/
def evalBadB (C : EvalCfg) (f : SFrame) (p : PassFail.PassFail) : Bool :=
  (p.tp ++ p.fp).any (fun r => f.ests.all (fun x => x.attr.tag.id != r.est || outB (critEstP C) (f.view x))) ||
  (p.tn ++ p.fn).any (fun g => f.gts.all (fun y => y.attr.tag.id != g.id || outB (critGtP C) (f.view y)))

theorem not_counted_of_evalBadB {C : EvalCfg} {f : SFrame} {p : PassFail.PassFail} (h : evalBadB C f p = true) :
    ¬ EvalCountedInCritical C f p := by
  rintro ⟨c1, c2⟩
  rcases Bool.or_eq_true_iff.1 h with h | h
  · obtain ⟨r, hr, hall⟩ := List.any_eq_true.1 h
    obtain ⟨x, ⟨hx, _, hin⟩, hid, _⟩ := c1 r hr
    rcases Bool.or_eq_true_iff.1 (List.all_eq_true.1 hall x hx) with h' | h'
    · simp [hid] at h'
    · exact not_criteria_of_outB h' hin
  · obtain ⟨g, hg, hall⟩ := List.any_eq_true.1 h
    obtain ⟨y, ⟨hy, _, hin⟩, hid⟩ := c2 g hg
    rcases Bool.or_eq_true_iff.1 (List.all_eq_true.1 hall y hy) with h' | h'
    · simp [hid] at h'
    · exact not_criteria_of_outB h' hin

/-! ## non-vacuity and refutations: a concrete frame in both renderings

Critical filter: cars with |x| < 10, |y| < 10 (ego-relative); manager filter |x| < 60, |y| < 40.  Ego pose: yaw with
(cos, sin) = (3/5, 4/5), ego at (100, 50, 2) in the map.  Ground truths A (5, 5), B (20, 0), D (3, −4); estimates
1 (5, 11/2) pairs with A (TP), 2 (20, 1/2) pairs with B (both outside the critical region: not counted),
3 (12, 0) unpaired outside (not counted), 4 (1, 1) unpaired inside (FP); D is FN.  Distances are carried squared
(`dist := id`): matcher radius 2 m ↔ 4, pass/fail threshold 2 m ↔ 4. -/
section Example

def exPoseE : Pose := { rot := ⟨3/5, 4/5⟩, tau := 59/200, t := ⟨100, 50, 2⟩ }

def exSObj (i : Nat) (lab : String) (ml : String) (al : AP.Label) (score : Rat) (x y : Rat) : SObj :=
  { attr := { tag := { id := i, label := lab, name := ml, attributes := [], score := score, pcNum := some 5, uuid := none },
              mlabel := ml, alabel := al, uid := i, stamp := 7 },
    obj := { box := { center := ⟨x, y, 0⟩, rot := ⟨1, 0⟩, w := 2, l := 4, h := 3/2 }, tau := 0 } }

def exCar (i : Nat) (x y : Rat) : SObj := exSObj i "AutowareLabel.CAR" "car" 2 1 x y

def exFilter (mx my : Rat) : Filter.Params :=
  { isGt := false, targets := some ["AutowareLabel.CAR", "AutowareLabel.PEDESTRIAN"], ignoreAttrs := none,
    maxX := some [mx, mx], maxY := some [my, my], maxDist := none, minDist := none, conf := none, minPts := none,
    uuids := none, hasTransforms := false }

def exC : EvalCfg :=
  { mgr := exFilter 60 40, crit := exFilter 10 10
    matcher := { policy := .default, mode := .centerDistance, targets := some ["car", "pedestrian"],
                 thresholds := some [4, 4], fpValidation := false }
    dist := id, pfTargets := [2, 4], pfThrs := some [4, 4], critTargets := [2, 4], mapTargets := [2, 4]
    maps := [⟨.centerDistance, [1, 1]⟩], trackMode := .centerDistance, trackTargets := [(2, 1)] }

def exE : SFrame :=
  { frameId := .baseLink, pose := exPoseE
    ests := [exCar 1 5 (11/2), exCar 2 20 (1/2), exCar 3 12 0, exCar 4 1 1]
    gts := [exCar 101 5 5, exCar 102 20 0, exCar 103 3 (-4)] }

def exM : SFrame := exE.toMap exPoseE

example : C07.FrameOK exPoseE exE :=
  ⟨by unfold Geometry.Rot2.IsUnit exPoseE; norm_num, by decide +kernel, rfl, by decide +kernel⟩
/-- the hypothesis of the counting theorems holds of both renderings -/
example : ObjectsDistinct exE := ⟨by decide +kernel, by decide +kernel⟩
example : ObjectsDistinct exM := ⟨by decide +kernel, by decide +kernel⟩
/-- the map rendering really is in the map: ground truth A sits at (99, 57, 2) -/
example : exM.gts.map (·.obj.box.center) = [⟨99, 57, 2⟩, ⟨112, 66, 2⟩, ⟨105, 50, 2⟩] := by decide +kernel
example : exM.gts.map exM.egoXY = [⟨5, 5⟩, ⟨20, 0⟩, ⟨3, -4⟩] := by decide +kernel

def exSummary : Summary :=
  { keptEst := [1, 2, 3, 4], keptGt := [101, 102, 103], matched := [(0, some 0), (1, some 1), (2, none), (3, none)],
    tp := [1], fp := [4], tn := [], fn := [103], maps := [(some (1/2), some (1/2))] }

/-- the code, either rendering: TP = {1 ↔ A}, FP = {4}, FN = {D}; B, 2 and 3 are not counted -/
example : (evalFrame exC exE).map FrameOut.summary = .ok exSummary := by decide +kernel
example : (evalFrame exC exM).map FrameOut.summary = .ok exSummary := by decide +kernel

/-- F2 on the map rendering: estimate 3, at ego-relative (12, 0), is counted FP … -/
example : (evalFrameF2 exC exM).map (fun o => (o.summary.tp, o.summary.fp, o.summary.fn)) = .ok ([1], [3, 4], [103]) := by
  decide +kernel
/-- … while on the BASE_LINK rendering the typo is harmless -/
example : (evalFrameF2 exC exE).map FrameOut.summary = .ok exSummary := by decide +kernel

/-- **the F2 variant violates the statement of `eval_critical_sound`** -/
theorem eval_f2_not_critical_sound : ¬ EvalCriticalSound evalFrameF2 := by
  intro hs
  have hb : (match evalFrameF2 exC exM with
      | .ok o => evalBadB exC exM o.out.pf
      | .error _ => false) = true := by decide +kernel
  cases hx : evalFrameF2 exC exM with
  | error e => rw [hx] at hb; cases hb
  | ok o => rw [hx] at hb; exact not_counted_of_evalBadB hb (hs exC exM o hx)

/-- the checker accepts the code on both renderings -/
example : (match evalFrame exC exM with
    | .ok o => evalBadB exC exM o.out.pf
    | .error _ => true) = false ∧
    (match evalFrame exC exE with
    | .ok o => evalBadB exC exE o.out.pf
    | .error _ => true) = false := by decide +kernel

/-! ### the threshold keyed on the estimate's label

Policy ALLOW_ANY; one estimate `car` at (5, 6), one ground truth `pedestrian` at (5, 5): centre distance² 1 (matched),
plane distance² 1; pass/fail targets [car, pedestrian] with thresholds [4, 1/2].  Keyed on the ground truth's label
the pair fails (1 < 1/2 is false): no TP.  Keyed on the estimate's label it passes (1 < 4). -/

def exCKey : EvalCfg :=
  { exC with matcher := { exC.matcher with policy := .allowAny }, pfThrs := some [4, 1/2], maps := [] }
def exKeyEst : SObj := exCar 1 5 6
def exKeyGt : SObj := exSObj 101 "AutowareLabel.PEDESTRIAN" "pedestrian" 4 1 5 5
def exKeyFrame : SFrame := { frameId := .baseLink, pose := exPoseE, ests := [exKeyEst], gts := [exKeyGt] }

example : (evalFrame exCKey exKeyFrame).map (fun o => (o.summary.matched, o.summary.tp, o.summary.fp, o.summary.fn))
    = .ok ([(0, some 0)], [], [1], [101]) := by decide +kernel

/-- **keyed on the estimate's label the statement of `eval_tp_sound` fails** -/
theorem eval_estLabel_not_tp_sound : ¬ EvalTpSound evalFrameEstKey := by
  intro h
  have hok : (evalFrameEstKey exCKey exKeyFrame).toOption.map (fun o => o.out.pf.tp.length) = some 1 := by
    decide +kernel
  cases hd : evalFrameEstKey exCKey exKeyFrame with
  | error e => rw [hd] at hok; cases hok
  | ok o =>
    rw [hd] at hok
    have hlen : o.out.pf.tp.length = 1 := by simpa [Except.toOption] using hok
    cases htp : o.out.pf.tp with
    | nil => rw [htp] at hlen; cases hlen
    | cons r rest =>
      obtain ⟨kE, kG, i, j, x, y, _, _, _, _, _, _, _, _, hx, hy, _, _, hthr⟩ :=
        h exCKey exKeyFrame o hd r (by rw [htp]; exact List.mem_cons_self)
      have hx' : x = exKeyEst := List.mem_singleton.1 hx.1
      have hy' : y = exKeyGt := List.mem_singleton.1 hy.1
      subst hx' hy'
      have hidx : IsIndexOf exKeyGt.attr.alabel exCKey.pfTargets 1 := by
        refine ⟨rfl, ?_⟩
        intro k' hk'
        have : k' = 0 := by omega
        subst this
        show ([2, 4] : List AP.Label)[0]? ≠ some 4
        decide
      obtain ⟨t, ht, hlt⟩ := hthr [4, 1 / 2] 1 rfl hidx
      have ht' : t = 1 / 2 := by
        have : ([4, 1 / 2] : List Rat)[1]? = some (1 / 2) := rfl
        rw [this] at ht; exact (Option.some.inj ht).symm
      subst ht'
      have hv : exCKey.dist (exKeyFrame.reader.row exKeyEst.obj exKeyGt.obj).plane2 = 1 := by decide +kernel
      rw [hv] at hlt
      revert hlt
      norm_num

/-- the hypotheses of `eval_tp_sound` are met with a TP present (frame `exE`): estimate 1 on ground truth A, plane
distance² 1/4 below the `car` entry 4 -/
example : exC.dist (exE.reader.row (exCar 1 5 (11/2)).obj (exCar 101 5 5).obj).plane2 = 1 / 4 := by decide +kernel
example : IsIndexOf (exCar 101 5 5).attr.alabel exC.pfTargets 0 := ⟨rfl, fun _ hk' => absurd hk' (Nat.not_lt_zero _)⟩

/-! ### `ObjectsDistinct` is needed

Two annotations that agree in time stamp, label, position and orientation (different Python objects): the matched
twin makes the unmatched one "`in`" the list of matched ground truths, it is counted nowhere. -/

def exDup : SFrame :=
  { frameId := .baseLink, pose := exPoseE, ests := [exCar 1 5 (11/2)], gts := [exCar 101 5 5, exCar 102 5 5] }

theorem eval_dup_gt_breaks_conservation :
    ¬ ObjectsDistinct exDup ∧
    (evalFrame exC exDup).map (fun o => ((o.out.pf.gts.filter (fun g => !g.isFP)).length, o.out.pf.tp.length,
      o.out.pf.fn.length)) = .ok (2, 1, 0) := by
  refine ⟨fun h => absurd h.gts (by decide +kernel), by decide +kernel⟩

/-! ### `GtConfBeats`, non-vacuous: a critical confidence threshold is configured -/

def exCConf : EvalCfg := { exC with crit := { exC.crit with conf := some [1/2, 1/2] } }

example : ∀ y ∈ exE.gts, GtConfBeats exCConf exE y := by
  intro y hy
  refine Or.inr (fun l hl => ?_)
  have hl' : l = [1/2, 1/2] := (Option.some.inj hl).symm
  subst hl'
  simp only [exE, List.mem_cons, List.not_mem_nil, or_false] at hy
  rcases hy with rfl | rfl | rfl <;>
  exact ⟨1/2, ⟨["AutowareLabel.CAR", "AutowareLabel.PEDESTRIAN"], 0, rfl, rfl, fun _ hj => absurd hj (Nat.not_lt_zero _), rfl⟩,
    by decide +kernel⟩

end Example

/-! ## (e) `GtConfOK` of `Model/CriticalFrame.lean`, non-vacuously

Both instances of `GtConfOK` in `C03Critical.lean` (`exEgo`, `exMap`) have no critical confidence list.  Here one is
configured (threshold 1/2 for cars); the estimate has confidence 3/4, its ground truth 1.  -/
section GtConf
open PEval.CritFrame PEval.Filter

def exConfOK : CritFrame.Frame :=
  { results := [⟨{ exObj 1 5 (11/2) with score := 3/4 }, some gA, true, some 2, some (1/2)⟩,
                ⟨{ exObj 4 1 1 with score := 1/4 }, none, false, none, none⟩],
    gts := [gA, gC], transforms := some [("map", exPose)],
    critical := { exCrit with conf := some [1/2] } }

/-- **`GtConfOK` with a confidence threshold configured** (1/2) and ground-truth confidence above it (1).  Where real
inputs guarantee the hypothesis: every ground truth the dataset loader builds has `semantic_score = 1.0`
(`perception_eval/common/dataset_utils.py`: the three `semantic_score=1.0` constructor calls), and
`confidence_threshold` is compared strictly, so the hypothesis holds for every loaded dataset and every threshold below
1; it fails for a threshold ≥ 1 and for hand-built ground truths with a lower score (`gt_conf_needed`). -/
theorem gtConfOK_nonvacuous :
    GtConfOK exConfOK ∧ exConfOK.critical.conf = some [1/2] ∧ FrameWF exConfOK ∧
    (CritFrame.evaluateFrame exConfOK).map (fun o => obs o.pf) = .ok ([(1, some 101)], [], [], [103]) := by
  refine ⟨?_, rfl, by unfold FrameWF gtsOfC; decide +kernel, by decide +kernel⟩
  intro r hr g hg
  refine Or.inr (fun l hl => ?_)
  have hl' : l = [1/2] := (Option.some.inj hl).symm
  subst hl'
  simp only [exConfOK, List.mem_cons, List.not_mem_nil, or_false] at hr
  rcases hr with rfl | rfl
  · cases hg
    exact ⟨1/2, ⟨["AutowareLabel.CAR"], 0, rfl, rfl, fun _ hj => absurd hj (Nat.not_lt_zero _), rfl⟩, by decide +kernel⟩
  · cases hg

/-- … so the transfer theorems apply non-vacuously: one ordinary critical ground truth each in TP and FN; the
low-confidence estimate 4 is dropped by the critical filter -/
example : ∀ out, CritFrame.evaluateFrame exConfOK = .ok out →
    (out.pf.gts.filter (fun g => !g.isFP)).length = out.pf.tp.length + out.pf.fn.length :=
  fun _ h => (critical_conservation h gtConfOK_nonvacuous.1 gtConfOK_nonvacuous.2.2.1).1

end GtConf

end PEval.C03
