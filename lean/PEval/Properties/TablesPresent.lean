import PEval.Gen.IsTarget
import PEval.Gen.ClearDT
import PEval.Gen.LookupTables
import PEval.Gen.SensingDT
import PEval.Gen.ClassificationDT
import PEval.Gen.APTables
import PEval.Gen.AnalyzerDT
import PEval.Gen.KMatchable
import PEval.Gen.KBetter
import PEval.Gen.KStatus
import PEval.Gen.KCell
import PEval.Gen.Enums
import PEval.Gen.Labels
import PEval.Gen.Config
import PEval.Gen.CallSites
/-!
# No decision-table theorem is vacuous on the CURRENT tree  (audit item X1)

Every decision-table theorem of the property modules has the form `∀ t, Gen.….tree = some t → …`,
`rows = [] ∨ …` or `∀ p ∈ Gen.tables, …`: when the translator gives up ("Untranslatable ≠ alarm", DESIGN §3.6)
the regenerated table is `none` / `[]` and those theorems hold vacuously, on purpose.  This file states, for ALL
generated tables, that this is NOT the case for the source the tables were generated from.

* It is NOT registered in any `THEOREMS` list and MUST NOT be imported by a property module (nor by `PEval.lean`,
  which `harness/gen_index.py` builds from the `C\d+` files only): a refactoring that makes a table untranslatable
  must not break a property build.  It imports `PEval.Gen.*` only.
* `tableStatus` is the machine-readable status (one entry per table, computed, never fails); the `example`s below
  prove that every entry is `true` and fail to compile, naming the table, as soon as one is not.
-/
namespace PEval.TablesPresent
open PEval

/-- (table, present) for every generated table / row list / translation flag -/
def tableStatus : List (String × Bool) :=
  [ ("C10 IsTarget.tree", Gen.IsTarget.tree.isSome),
    ("C05 ClearDT.isIdSwitchedTree", Gen.ClearDT.isIdSwitchedTree.isSome),
    ("C05 ClearDT.isSameMatchTree", Gen.ClearDT.isSameMatchTree.isSome),
    ("C05 ClearDT.stepTree_0_1", Gen.ClearDT.stepTree_0_1.isSome),
    ("C05 ClearDT.stepTree_1_0", Gen.ClearDT.stepTree_1_0.isSome),
    ("C05 ClearDT.stepTree_1_1", Gen.ClearDT.stepTree_1_1.isSome),
    ("C05 ClearDT.stepTree_1_2", Gen.ClearDT.stepTree_1_2.isSome),
    ("C05 ClearDT.stepTree_2_0", Gen.ClearDT.stepTree_2_0.isSome),
    ("C05 ClearDT.stepTree_2_1", Gen.ClearDT.stepTree_2_1.isSome),
    ("C05 ClearDT.scoreTree", Gen.ClearDT.scoreTree.isSome),
    ("C05 ClearDT.initTree_0", Gen.ClearDT.initTree_0.isSome),
    ("C05 ClearDT.initTree_1", Gen.ClearDT.initTree_1.isSome),
    ("C05 ClearDT.initTree_2", Gen.ClearDT.initTree_2.isSome),
    ("C05 ClearDT.initTree_3", Gen.ClearDT.initTree_3.isSome),
    ("C17 getNowTrees (lengths 0..3)", Gen.getNowTrees.map (·.1) == [0, 1, 2, 3]),
    ("C17 getInterpTrees (lengths 0..3)", Gen.getInterpTrees.map (·.1) == [0, 1, 2, 3]),
    ("C17 velPresence (4 rows)", Gen.velPresence.length == 4),
    ("C17 arithTranslated", Gen.arithTranslated),
    ("C12 SensingDT.tables non-empty", !Gen.SensingDT.tables.isEmpty),
    ("C12 SensingDT.tables all some", Gen.SensingDT.tables.all (·.2.2.isSome)),
    ("C12 SensingDT.scaleTranslated", Gen.SensingDT.scaleTranslated),
    ("C12 SensingDT.cropScaleTranslated", Gen.SensingDT.cropScaleTranslated),
    ("C11 ClassificationDT.tables non-empty", !Gen.ClassificationDT.tables.isEmpty),
    ("C11 ClassificationDT.tables all some", Gen.ClassificationDT.tables.all (·.2.2.isSome)),
    ("C04 APDT.tpfpRows", !Gen.APDT.tpfpRows.isEmpty),
    ("C04 APDT.prRows", !Gen.APDT.prRows.isEmpty),
    ("C04 APDT.interpRows", !Gen.APDT.interpRows.isEmpty),
    ("C04 APDT.areaRows", !Gen.APDT.areaRows.isEmpty),
    ("C04 APDT.mapRows", !Gen.APDT.mapRows.isEmpty),
    ("C19 AnalyzerDT.tables non-empty", !Gen.AnalyzerDT.tables.isEmpty),
    ("C19 AnalyzerDT.tables all some", Gen.AnalyzerDT.tables.all (·.2.2.isSome)),
    ("C01/C02 K.matchable.tree", Gen.K.matchable.tree.isSome),
    ("C01/C02 K.better.tree", Gen.K.better.tree.isSome),
    ("C03 K.labelCorrect.tree", Gen.K.labelCorrect.tree.isSome),
    ("C03 K.resultCorrect.tree", Gen.K.resultCorrect.tree.isSome),
    ("C03 K.status.tree", Gen.K.status.tree.isSome),
    ("C01 K.cell.tree", Gen.K.cell.tree.isSome) ]

/-- the tables that are NOT present (empty on the current tree) -/
def missing : List String := (tableStatus.filter (fun p => !p.2)).map (·.1)

-- printed by `lake env lean PEval/Properties/TablesPresent.lean`, also when an `example` below fails
#eval IO.println s!"TABLES-PRESENT total={tableStatus.length} missing={missing}"

/-! ## one `example` per table (a failure names the table) -/

example : Gen.IsTarget.tree.isSome = true := by decide
example : Gen.ClearDT.isIdSwitchedTree.isSome = true := by decide
example : Gen.ClearDT.isSameMatchTree.isSome = true := by decide
example : Gen.ClearDT.stepTree_0_1.isSome = true := by decide
example : Gen.ClearDT.stepTree_1_0.isSome = true := by decide
example : Gen.ClearDT.stepTree_1_1.isSome = true := by decide
example : Gen.ClearDT.stepTree_1_2.isSome = true := by decide
example : Gen.ClearDT.stepTree_2_0.isSome = true := by decide
example : Gen.ClearDT.stepTree_2_1.isSome = true := by decide
example : Gen.ClearDT.scoreTree.isSome = true := by decide
example : Gen.ClearDT.initTree_0.isSome = true := by decide
example : Gen.ClearDT.initTree_1.isSome = true := by decide
example : Gen.ClearDT.initTree_2.isSome = true := by decide
example : Gen.ClearDT.initTree_3.isSome = true := by decide
example : Gen.getNowTrees.map (·.1) = [0, 1, 2, 3] := by decide
example : Gen.getInterpTrees.map (·.1) = [0, 1, 2, 3] := by decide
example : Gen.velPresence.length = 4 := by decide
example : Gen.arithTranslated = true := by decide
example : Gen.SensingDT.tables ≠ [] ∧ Gen.SensingDT.tables.all (·.2.2.isSome) = true := by decide
example : Gen.SensingDT.scaleTranslated = true ∧ Gen.SensingDT.cropScaleTranslated = true := by decide
example : Gen.ClassificationDT.tables ≠ [] ∧ Gen.ClassificationDT.tables.all (·.2.2.isSome) = true := by decide
example : Gen.APDT.tpfpRows.isEmpty = false := by decide
example : Gen.APDT.prRows.isEmpty = false := by decide
example : Gen.APDT.interpRows.isEmpty = false := by decide
example : Gen.APDT.areaRows.isEmpty = false := by decide
example : Gen.APDT.mapRows.isEmpty = false := by decide
example : Gen.AnalyzerDT.tables ≠ [] ∧ Gen.AnalyzerDT.tables.all (·.2.2.isSome) = true := by decide
example : Gen.K.matchable.tree.isSome = true := by decide
example : Gen.K.better.tree.isSome = true := by decide
example : Gen.K.labelCorrect.tree.isSome = true := by decide
example : Gen.K.resultCorrect.tree.isSome = true := by decide
example : Gen.K.status.tree.isSome = true := by decide
example : Gen.K.cell.tree.isSome = true := by decide

/-- the summary: nothing is missing -/
theorem all_tables_present : missing = [] := by decide +kernel

/-! ## the regenerated enum tables of C20 are non-empty too (audit Part 1 item 6) -/
example : Gen.evaluationTask ≠ [] ∧ Gen.frameID ≠ [] ∧ Gen.visibility ≠ [] ∧ Gen.sensorModality ≠ [] ∧
    Gen.shapeType ≠ [] ∧ Gen.matchingLabelPolicy ≠ [] ∧ Gen.matchingMode ≠ [] ∧ Gen.visibilityAlias ≠ [] ∧
    Gen.taskIsFpValidation ≠ [] := by decide
example : Gen.autowareLabel ≠ [] ∧ Gen.trafficLightLabel ≠ [] ∧ Gen.autowarePairs ≠ [] ∧ Gen.autowarePairsMerged ≠ [] ∧
    Gen.trafficLightPairsClassification ≠ [] ∧ Gen.trafficLightPairsOther ≠ [] ∧ Gen.trafficLightTableOfTask ≠ [] := by
  decide
example : Gen.perceptionSupportTasks ≠ [] ∧ Gen.detectionMetricsParams ≠ [] ∧ Gen.perceptionConfigReadKeys ≠ [] ∧
    Gen.calleeParams ≠ [] ∧ Gen.callSiteKeywords ≠ [] ∧ Gen.criticalFilteringParamKeys ≠ [] := by decide

end PEval.TablesPresent
