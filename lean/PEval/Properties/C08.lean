import PEval.Lemmas.APMono
import PEval.Lemmas.APExt
import PEval.Lemmas.APTotal
import PEval.Lemmas.APPassFail
import PEval.Properties.KernelBetter
import PEval.Properties.KernelStatus
/-!
# C08 — Loosening a matching threshold never loses a TP and never lowers AP

Model: `PEval/Model/AP.lean` (`isBetterThan`, `isResultCorrect`, `getPositive`, `getNegative`, `apOf`,
`mapOf`). "Looser" is per mode: distance modes (center / plane distance) `t ≤ t'`, IoU modes `t' ≤ t`.
Every statement holds for all result lists of any length, all rational scores and thresholds.
A statement of the form "run(t) = ok x → run(t') = ok x' → …" covers exactly the runs in which the code
raises nothing (an IoU threshold outside [0,1] raises `AssertionError`, a too short threshold list
`IndexError`; `getLabelThreshold_rel` shows the two runs raise `IndexError` alike).

Monotonicity of the interpolated AP needs no side condition on ranks: the ranking (descending
confidence, stable) does not depend on the threshold, so loosening only turns FP entries of a FIXED
ranking into TP entries (`classify_thr_rel`), every cumulative TP sum, precision and recall grows
pointwise, and each term `(r_i − r_{i−1})·max_{j≥i} p_j` of the interpolated area grows (`apW_mono`).
-/

namespace PEval.C08
open PEval.AP

/-! ## direction per mode -/

theorem looser_distance (t t' : Rat) :
    (looser .centerDistance t t' ↔ t ≤ t') ∧ (looser .planeDistance t t' ↔ t ≤ t') := by
  simp [looser, Mode.isDistance]

theorem looser_iou (t t' : Rat) :
    (looser .iou2d t t' ↔ t' ≤ t) ∧ (looser .iou3d t t' ↔ t' ≤ t) := by
  simp [looser, Mode.isDistance]

/-- a matching score that beats a threshold beats every looser one (strict comparisons both) -/
theorem isBetter_mono (m : Mode) (v t t' : Rat) (hl : looser m t t') (h : isBetter m v t = true) :
    isBetter m v t' = true := AP.isBetter_mono hl h

/-! ## a TP stays a TP -/

/-- ordinary (non false-positive-labelled) ground truth: correct at `t` ⇒ correct at every looser
valid `t'` -/
theorem isResultCorrect_mono (m : Mode) (r : Res) (t t' : Rat)
    (hord : ∀ g, r.gt = some g → g.label ≠ fpLabel) (hl : looser m t t') (hv : thrValid m t' = true)
    (h : isResultCorrect m (some t) r = .ok true) : isResultCorrect m (some t') r = .ok true := by
  cases h' : isResultCorrect m (some t') r with
  | ok b =>
    have := isResultCorrect_mono_opt (o := some t) (o' := some t') hord hl h h'
    rw [this]
  | error e =>
    exfalso
    unfold isResultCorrect at h'
    cases hg : r.gt with
    | none => simp [hg] at h'
    | some g =>
      simp only [hg] at h'
      cases hs : r.score with
      | noMethod => simp [hs] at h'
      | val v => simp [hs, isBetterThan, hv] at h'

/-- the same without the validity hypothesis: if the second run returns at all, it returns "correct" -/
theorem isResultCorrect_mono_of_ok (m : Mode) (r : Res) (t t' : Rat)
    (hord : ∀ g, r.gt = some g → g.label ≠ fpLabel) (hl : looser m t t')
    (h : isResultCorrect m (some t) r = .ok true) (b : Bool)
    (h' : isResultCorrect m (some t') r = .ok b) : b = true :=
  isResultCorrect_mono_opt (o := some t) (o' := some t') hord hl h h'

/-- excluded case, documented: for a false-positive-labelled ground truth the relation is reversed -/
theorem isResultCorrect_antitone_fp_label (m : Mode) (r : Res) (g : Gt) (t t' : Rat)
    (hg : r.gt = some g) (hfp : g.label = fpLabel) (hl : looser m t t')
    (h : isResultCorrect m (some t) r = .ok false) (b : Bool)
    (h' : isResultCorrect m (some t') r = .ok b) : b = false :=
  isResultCorrect_anti_fp hg hfp hl h h'

/-- `get_positive_objects`: every TP under the tighter list is a TP under the looser list (as
sub-lists of estimate ids, order kept); the FP list only shrinks. No hypothesis on the ground-truth
labels is needed: an FP-labelled ground truth never yields a TP. -/
theorem tp_never_lost (m : Mode) (T : List Label) (th th' : List Rat)
    (hth : List.Forall₂ (looser m) th th') (rs : List Res) (p p' : List Nat × List Nat)
    (h : getPositive m T (some th) rs = .ok p) (h' : getPositive m T (some th') rs = .ok p') :
    p.1.Sublist p'.1 ∧ p'.2.Sublist p.2 := getPositive_mono hth h h'

theorem tp_count_mono (m : Mode) (T : List Label) (th th' : List Rat)
    (hth : List.Forall₂ (looser m) th th') (rs : List Res) (p p' : List Nat × List Nat)
    (h : getPositive m T (some th) rs = .ok p) (h' : getPositive m T (some th') rs = .ok p') :
    p.1.length ≤ p'.1.length := (getPositive_mono hth h h').1.length_le

/-- `get_negative_objects`: every FN under the looser list is an FN under the tighter one -/
theorem fn_count_antitone (m : Mode) (T : List Label) (th th' : List Rat)
    (hth : List.Forall₂ (looser m) th th') (gts : List Gt) (rs : List Res) (n n' : List Nat × List Nat)
    (h : getNegative m T (some th) gts rs = .ok n) (h' : getNegative m T (some th') gts rs = .ok n') :
    n'.2.Sublist n.2 ∧ n'.2.length ≤ n.2.length :=
  ⟨getNegative_mono hth h h', (getNegative_mono hth h h').length_le⟩

/-! ## AP, APH, mAP -/

/-- pointwise larger (non-negative) TP weights along a fixed ranking never lower the interpolated AP
and keep it defined -/
theorem apSpec_mono (G : Nat) (ks ks' : List Kind)
    (h : List.Forall₂ (fun k k' => 0 ≤ k.tpw ∧ k.tpw ≤ k'.tpw) ks ks') :
    optLe (apOfKinds G ks).ap (apOfKinds G ks').ap := apOfKinds_mono G h

/-- one result, two thresholds: FP may become TP, TP stays TP with the same weight, ignored stays
ignored -/
theorem kind_mono_threshold (tm : TpMetric) (m : Mode) (T : List Label) (th th' : List Rat) (r : Res)
    (hth : List.Forall₂ (looser m) th th')
    (hfp : fpLabel ∉ T ∨ ∀ g, r.gt = some g → g.label ≠ fpLabel) (hw : 0 ≤ r.hw) (k k' : Kind)
    (h1 : classify tm m T th r = .ok k) (h2 : classify tm m T th' r = .ok k') :
    0 ≤ k.tpw ∧ k.tpw ≤ k'.tpw := classify_thr_rel hth hfp (tpValue_nonneg hw) h1 h2

/-- `Ap(TPMetricsAp …)` of the same results under a looser threshold list is not smaller (and defined
iff it was). `hfp`: ordinary ground truth only, or the false-positive label is no target label. -/
theorem ap_mono_threshold (m : Mode) (T : List Label) (th th' : List Rat) (G : Nat) (rs : List Res)
    (hth : List.Forall₂ (looser m) th th')
    (hfp : fpLabel ∉ T ∨ ∀ r ∈ rs, ∀ g, r.gt = some g → g.label ≠ fpLabel) (a a' : ApOut)
    (h : apOf .ap m T th G rs = .ok a) (h' : apOf .ap m T th' G rs = .ok a') : optLe a.ap a'.ap := by
  -- the heading weight is not read by the AP metric
  obtain ⟨ks, hk, rfl⟩ := apOf_ok h
  obtain ⟨ks', hk', rfl⟩ := apOf_ok h'
  apply apOfKinds_mono
  refine classifyAll_rel (fun r hr k k' h1 h2 => ?_) hk hk'
  refine classify_thr_rel hth ?_ (by simp [tpValue]) h1 h2
  rcases hfp with h | h
  · exact Or.inl h
  · exact Or.inr (h r (mem_sortDesc.1 hr))

/-- the same for APH (heading weights non-negative, as `TPMetricsAph` clamps them) -/
theorem aph_mono_threshold (m : Mode) (T : List Label) (th th' : List Rat) (G : Nat) (rs : List Res)
    (hth : List.Forall₂ (looser m) th th')
    (hfp : fpLabel ∉ T ∨ ∀ r ∈ rs, ∀ g, r.gt = some g → g.label ≠ fpLabel)
    (hw : ∀ r ∈ rs, 0 ≤ r.hw) (a a' : ApOut)
    (h : apOf .aph m T th G rs = .ok a) (h' : apOf .aph m T th' G rs = .ok a') : optLe a.ap a'.ap :=
  apOf_thr_mono hth hfp hw h h'

/-- `Map` over the same per-label buckets under a looser threshold list: every per-label AP and APH,
mAP and mAPH are not smaller, and each is defined iff it was (the number of defined APs is unchanged) -/
theorem map_mono_threshold (m : Mode) (is2d : Bool) (T : List Label) (th th' : List Rat)
    (buckets : List (Label × List (List Res))) (nums : List (Label × Nat))
    (hth : List.Forall₂ (looser m) th th') (hfp : fpLabel ∉ T)
    (hw : ∀ l rss, lookupKey l buckets = .ok rss → ∀ r ∈ rss.flatten, 0 ≤ r.hw) (o o' : MapOut)
    (h : mapOf m is2d T th buckets nums = .ok o) (h' : mapOf m is2d T th' buckets nums = .ok o') :
    optLe o.map o'.map ∧ optLe o.maph o'.maph
      ∧ List.Forall₂ (fun a a' => optLe a.ap a'.ap) o.aps o'.aps
      ∧ List.Forall₂ (fun a a' => optLe a.ap a'.ap) o.aphs o'.aphs :=
  mapOf_mono hth hfp hw h h'

/-- frame level (`evaluate_frame`: `divide_objects` buckets of one result list): the same for the
whole frame evaluation, with hypotheses on the result list only -/
theorem frame_map_mono_threshold (m : Mode) (is2d : Bool) (T : List Label) (th th' : List Rat)
    (rs : List Res) (gtLabels : List Label) (hth : List.Forall₂ (looser m) th th')
    (hfp : fpLabel ∉ T) (hw : ∀ r ∈ rs, 0 ≤ r.hw) (o o' : MapOut)
    (h : frameMap m is2d T th rs gtLabels = .ok o) (h' : frameMap m is2d T th' rs gtLabels = .ok o') :
    optLe o.map o'.map ∧ optLe o.maph o'.maph
      ∧ List.Forall₂ (fun a a' => optLe a.ap a'.ap) o.aps o'.aps
      ∧ List.Forall₂ (fun a a' => optLe a.ap a'.ap) o.aphs o'.aphs :=
  frameMap_mono hth hfp hw h h'

/-! ## thresholds at the ends of the scale: `float("inf")`

`EThr` (`PEval/Model/APExt.lean`) adds `float("inf")` to the threshold values: legal for the validators,
the loosest distance threshold, rejected by the IoU modes. `looserE` extends "looser" with `inf` on top
of the numbers (so for the IoU modes `inf` is the tightest, and invalid, value). The statements above
hold verbatim on `EThr`; on numbers the extended functions are the functions above (`ext_agrees_on_numbers`). -/

/-- `value < inf`: under the distance modes every matching score beats `inf` -/
theorem inf_is_loosest_distance (m : Mode) (hm : m.isDistance = true) (v : Rat) :
    isBetterThanE m (some v) .posInf = .ok true := by
  simp [isBetterThanE, thrValidE, isBetterE, hm]

/-- the IoU modes' assertion `0 ≤ t ≤ 1` rejects `inf` -/
theorem inf_rejected_by_iou (m : Mode) (hm : m.isDistance = false) (v : Option Rat) :
    isBetterThanE m v .posInf = .error "AssertionError" := by
  simp [isBetterThanE, thrValidE, hm]

/-- under a distance mode with threshold `inf` a paired result with an ordinary ground truth and a score
is correct exactly when its label is -/
theorem isResultCorrect_at_inf (m : Mode) (hm : m.isDistance = true) (r : Res) (g : Gt) (x : Rat)
    (hg : r.gt = some g) (hord : g.label ≠ fpLabel) (hs : r.score = .val (some x)) :
    isResultCorrectE m (some .posInf) r = .ok (isLabelCorrect r) := by
  have : (g.label == fpLabel) = false := by simpa using hord
  simp [isResultCorrectE, hg, hs, isBetterThanE, thrValidE, isBetterE, hm, this]

/-- every number is a looser distance threshold than no number: `t ≤ inf`; `inf` is looser only than itself -/
theorem looserE_inf (m : Mode) (hm : m.isDistance = true) (e : EThr) :
    looserE m e .posInf ∧ (looserE m .posInf e ↔ e = .posInf) := by
  unfold looserE
  cases e <;> simp [hm, EThr.le]

theorem looserE_numbers (m : Mode) (t t' : Rat) : looserE m (.fin t) (.fin t') ↔ looser m t t' := by
  unfold looserE looser
  cases m.isDistance <;> simp [EThr.le]

/-- on numbers the extended functions are the functions of the model -/
theorem ext_agrees_on_numbers (tm : TpMetric) (m : Mode) (is2d : Bool) (T : List Label) (th : List Rat)
    (G : Nat) (rs : List Res) (gts : List Gt) (buckets : List (Label × List (List Res)))
    (nums : List (Label × Nat)) :
    apOfE tm m T (th.map .fin) G rs = apOf tm m T th G rs
      ∧ mapOfE m is2d T (th.map .fin) buckets nums = mapOf m is2d T th buckets nums
      ∧ getPositiveE m T (some (th.map .fin)) rs = getPositive m T (some th) rs
      ∧ getNegativeE m T (some (th.map .fin)) gts rs = getNegative m T (some th) gts rs := by
  have hb := boundFor_spec rs [] []
  have hb' := boundFor_spec (allRes buckets) [] []
  refine ⟨?_, ?_, ?_, ?_⟩
  · rw [apOfE_real _ G hb.1 hb.2.1, map_real_fin]
  · rw [mapOfE_real _ hb'.1 (bucketsLt_of_all hb'.2.1), map_real_fin]
  · rw [getPositiveE_real _ hb.1 hb.2.1, Option.map_some, map_real_fin]
  · rw [getNegativeE_real _ gts hb.1 hb.2.1, Option.map_some, map_real_fin]

/-- a TP stays a TP, thresholds in `EThr` -/
theorem isResultCorrect_mono_ext (m : Mode) (r : Res) (t t' : EThr)
    (hord : ∀ g, r.gt = some g → g.label ≠ fpLabel) (hl : looserE m t t') (hv : thrValidE m t' = true)
    (h : isResultCorrectE m (some t) r = .ok true) : isResultCorrectE m (some t') r = .ok true := by
  obtain ⟨hB, hs, h1, h2⟩ := boundFor_spec [r] [t] [t']
  have hr := hs r (List.mem_singleton.2 rfl)
  rw [isResultCorrectE_real _ hB hr] at h ⊢
  refine isResultCorrect_mono m r _ _ hord
    (looserE_real hl (fun x hx => h1 x (by simp [hx])) (fun x hx => h2 x (by simp [hx]))) ?_ h
  cases t' with
  | fin x => exact hv
  | posInf =>
    simp only [thrValidE] at hv
    simp [thrValid, hv]

theorem tp_never_lost_ext (m : Mode) (T : List Label) (th th' : List EThr)
    (hth : List.Forall₂ (looserE m) th th') (rs : List Res) (p p' : List Nat × List Nat)
    (h : getPositiveE m T (some th) rs = .ok p) (h' : getPositiveE m T (some th') rs = .ok p') :
    p.1.Sublist p'.1 ∧ p'.2.Sublist p.2 ∧ p.1.length ≤ p'.1.length := by
  obtain ⟨hB, hs, h1, h2⟩ := boundFor_spec rs th th'
  rw [getPositiveE_real _ hB hs] at h h'
  have := getPositive_mono (forall₂_looserE_real hth h1 h2) h h'
  exact ⟨this.1, this.2, this.1.length_le⟩

theorem fn_count_antitone_ext (m : Mode) (T : List Label) (th th' : List EThr)
    (hth : List.Forall₂ (looserE m) th th') (gts : List Gt) (rs : List Res) (n n' : List Nat × List Nat)
    (h : getNegativeE m T (some th) gts rs = .ok n) (h' : getNegativeE m T (some th') gts rs = .ok n') :
    n'.2.Sublist n.2 ∧ n'.2.length ≤ n.2.length := by
  obtain ⟨hB, hs, h1, h2⟩ := boundFor_spec rs th th'
  rw [getNegativeE_real _ gts hB hs] at h h'
  exact fn_count_antitone m T _ _ (forall₂_looserE_real hth h1 h2) gts rs n n' h h'

theorem ap_mono_threshold_ext (m : Mode) (T : List Label) (th th' : List EThr) (G : Nat) (rs : List Res)
    (hth : List.Forall₂ (looserE m) th th')
    (hfp : fpLabel ∉ T ∨ ∀ r ∈ rs, ∀ g, r.gt = some g → g.label ≠ fpLabel) (a a' : ApOut)
    (h : apOfE .ap m T th G rs = .ok a) (h' : apOfE .ap m T th' G rs = .ok a') : optLe a.ap a'.ap := by
  obtain ⟨hB, hs, h1, h2⟩ := boundFor_spec rs th th'
  rw [apOfE_real _ G hB hs] at h h'
  exact ap_mono_threshold m T _ _ G rs (forall₂_looserE_real hth h1 h2) hfp a a' h h'

theorem aph_mono_threshold_ext (m : Mode) (T : List Label) (th th' : List EThr) (G : Nat) (rs : List Res)
    (hth : List.Forall₂ (looserE m) th th')
    (hfp : fpLabel ∉ T ∨ ∀ r ∈ rs, ∀ g, r.gt = some g → g.label ≠ fpLabel)
    (hw : ∀ r ∈ rs, 0 ≤ r.hw) (a a' : ApOut)
    (h : apOfE .aph m T th G rs = .ok a) (h' : apOfE .aph m T th' G rs = .ok a') : optLe a.ap a'.ap := by
  obtain ⟨hB, hs, h1, h2⟩ := boundFor_spec rs th th'
  rw [apOfE_real _ G hB hs] at h h'
  exact aph_mono_threshold m T _ _ G rs (forall₂_looserE_real hth h1 h2) hfp hw a a' h h'

/-- `Map` on any per-label dicts (frame level, scene level, or handed over directly), thresholds in `EThr` -/
theorem map_mono_threshold_ext (m : Mode) (is2d : Bool) (T : List Label) (th th' : List EThr)
    (buckets : List (Label × List (List Res))) (nums : List (Label × Nat))
    (hth : List.Forall₂ (looserE m) th th') (hfp : fpLabel ∉ T)
    (hw : ∀ l rss, lookupKey l buckets = .ok rss → ∀ r ∈ rss.flatten, 0 ≤ r.hw) (o o' : MapOut)
    (h : mapOfE m is2d T th buckets nums = .ok o) (h' : mapOfE m is2d T th' buckets nums = .ok o') :
    optLe o.map o'.map ∧ optLe o.maph o'.maph
      ∧ List.Forall₂ (fun a a' => optLe a.ap a'.ap) o.aps o'.aps
      ∧ List.Forall₂ (fun a a' => optLe a.ap a'.ap) o.aphs o'.aphs := by
  obtain ⟨hB, hs, h1, h2⟩ := boundFor_spec (allRes buckets) th th'
  rw [mapOfE_real _ hB (bucketsLt_of_all hs)] at h h'
  exact map_mono_threshold m is2d T _ _ buckets nums (forall₂_looserE_real hth h1 h2) hfp hw o o' h h'

/-- frame level, the dicts keyed by any label list `divT` (the critical-object filter's), `Map` walking `T` -/
theorem frame_map_mono_threshold_ext (m : Mode) (is2d : Bool) (divT T : List Label) (th th' : List EThr)
    (rs : List Res) (gtLabels : List Label) (hth : List.Forall₂ (looserE m) th th')
    (hfp : fpLabel ∉ T) (hw : ∀ r ∈ rs, 0 ≤ r.hw) (o o' : MapOut)
    (h : frameMapE m is2d divT T th rs gtLabels = .ok o)
    (h' : frameMapE m is2d divT T th' rs gtLabels = .ok o') :
    optLe o.map o'.map ∧ optLe o.maph o'.maph
      ∧ List.Forall₂ (fun a a' => optLe a.ap a'.ap) o.aps o'.aps
      ∧ List.Forall₂ (fun a a' => optLe a.ap a'.ap) o.aphs o'.aphs := by
  unfold frameMapE at h h'
  refine map_mono_threshold_ext m is2d T th th' _ _ hth hfp ?_ o o' h h'
  intro l rss hl r hr
  obtain ⟨k, hk⟩ := lookupKey_mem hl
  simp only [List.mem_map] at hk
  obtain ⟨kv, hkv, he⟩ := hk
  obtain ⟨k0, v0⟩ := kv
  simp only [Prod.mk.injEq] at he
  obtain ⟨_, rfl⟩ := he
  simp only [List.flatten_cons, List.flatten_nil, List.append_nil] at hr
  exact hw r (divideObjects_mem (some divT) rs hkv hr)

/-! ## a concrete instance: the hypotheses are satisfiable and the inequality can be strict -/

/-- estimate 0 (car, confidence 1/2) paired with car ground truth 0 at center distance 3/2 -/
def r0 : Res :=
  { id := 0, conf := 1/2, label := 2, gt := some { id := 0, label := 2 }, score := .val (some (3/2)),
    hw := 3/4, policy := .default }

example : looser .centerDistance 1 2 := by simp [looser, Mode.isDistance]

example : List.Forall₂ (looser .centerDistance) [1] [2] :=
  .cons (by simp [looser, Mode.isDistance]) .nil

example : ∀ g, r0.gt = some g → g.label ≠ fpLabel := by
  intro g hg; simp [r0] at hg; subst hg; decide

/-- FP at threshold 1, TP at threshold 2; AP goes from 0 to 1, APH from 0 to 3/4 -/
example : isResultCorrect .centerDistance (some 1) r0 = .ok false
    ∧ isResultCorrect .centerDistance (some 2) r0 = .ok true := by
  constructor <;>
    simp [isResultCorrect, r0, isBetterThan, thrValid, Mode.isDistance, isBetter, isLabelCorrect,
      isMatchable, fpLabel] <;> norm_num

/-- the whole constructor on that result with one car ground truth: AP 0 → 1, APH 0 → 9/16
(recall 3/4 · precision 3/4) when the threshold goes from 1 to 2 -/
example : apOf .ap .centerDistance [2] [1] 1 [r0] = .ok { ap := some 0, tpList := [0], fpList := [1] }
    ∧ apOf .ap .centerDistance [2] [2] 1 [r0] = .ok { ap := some 1, tpList := [1], fpList := [0] }
    ∧ apOf .aph .centerDistance [2] [1] 1 [r0] = .ok { ap := some 0, tpList := [0], fpList := [1] }
    ∧ apOf .aph .centerDistance [2] [2] 1 [r0]
        = .ok { ap := some (9/16), tpList := [3/4], fpList := [0] } := by
  decide +kernel

/-- the same result under `1 → inf`: FP at 1, TP at `inf`; AP 0 → 1 -/
example : List.Forall₂ (looserE .centerDistance) [.fin 1] [.posInf]
    ∧ apOfE .ap .centerDistance [2] [.fin 1] 1 [r0] = .ok { ap := some 0, tpList := [0], fpList := [1] }
    ∧ apOfE .ap .centerDistance [2] [.posInf] 1 [r0] = .ok { ap := some 1, tpList := [1], fpList := [0] }
    ∧ apOfE .ap .iou3d [2] [.posInf] 1 [r0] = .error "AssertionError" := by
  refine ⟨.cons (by simp [looserE, Mode.isDistance, EThr.le]) .nil, ?_, ?_, ?_⟩ <;> decide +kernel

/-! ## the same for the CODE's decision tables (decision-table translator, `PEval.KernelBetter`, `PEval.KernelStatus`) -/

theorem ofBool_ret {x : Except Err Bool} {b : Bool} (h : MatchKernels.ofBool x = .ret b) : x = .ok b := by
  cases x with
  | error e => simp [MatchKernels.ofBool] at h
  | ok c => simp only [MatchKernels.ofBool, DT.Res.ret.injEq] at h; rw [h]

/-- a TP stays a TP, read off the code's decision table of `is_result_correct`: if the table answers `True` at `t`
(ordinary ground truth, `t` on the mode's scale: the in-quantifier predicate `thrValid`), it answers `True` at every
looser `t'` on the scale; what the kernels do with an IoU threshold outside [0, 1] is left open by C08's text -/
theorem table_isResultCorrect_mono {tr : DT.DTree} (ht : Gen.K.resultCorrect.tree = some tr) (m : Mode) (r : Res)
    (t t' : Rat) (hord : ∀ g, r.gt = some g → g.label ≠ fpLabel) (hl : looser m t t')
    (hvt : thrValid m t = true) (hv : thrValid m t' = true)
    (h : DT.eval tr (MatchKernels.valAP m (some t) r) = .ret true) :
    DT.eval tr (MatchKernels.valAP m (some t') r) = .ret true := by
  rw [KernelStatus.resultCorrect_code_table_eq_isResultCorrect tr ht _ _ _ (MatchKernels.thrOk_some hvt)] at h
  rw [KernelStatus.resultCorrect_code_table_eq_isResultCorrect tr ht _ _ _ (MatchKernels.thrOk_some hv)]
  rw [isResultCorrect_mono m r t t' hord hl hv (ofBool_ret h)]
  rfl

/-- the status pair of the code's table of `get_status`: (TP, TP) at `t` stays (TP, TP) at every looser valid `t'` -/
theorem table_status_tp_mono {tr : DT.DTree} (ht : Gen.K.status.tree = some tr) (m : Mode) (r : Res)
    (t t' : Rat) (hord : ∀ g, r.gt = some g → g.label ≠ fpLabel) (hl : looser m t t')
    (hvt : thrValid m t = true) (hv : thrValid m t' = true)
    (h : DT.eval tr (MatchKernels.valAP m (some t) r) = .other MatchKernels.sTpTp) :
    DT.eval tr (MatchKernels.valAP m (some t') r) = .other MatchKernels.sTpTp := by
  rw [KernelStatus.status_code_table_eq_getStatus tr ht _ _ _ (MatchKernels.thrOk_some hvt)] at h
  rw [KernelStatus.status_code_table_eq_getStatus tr ht _ _ _ (MatchKernels.thrOk_some hv)]
  unfold getStatus at h ⊢
  cases hg : r.gt with
  | none => simp [hg, MatchKernels.ofStatusAP, MatchKernels.statusCodeAP, MatchKernels.sFpNone, MatchKernels.sTpTp] at h
  | some g =>
    rw [hg] at h
    simp only [] at h ⊢
    have hne : (g.label == fpLabel) = false := by simpa using hord g hg
    cases hc : isResultCorrect m (some t) r with
    | error e => simp [hc, MatchKernels.ofStatusAP] at h
    | ok b =>
      cases b
      · simp [hc, hne, MatchKernels.ofStatusAP, MatchKernels.statusCodeAP, MatchKernels.sFpFn, MatchKernels.sTpTp] at h
      · rw [isResultCorrect_mono m r t t' hord hl hv hc]
        simp [hne, MatchKernels.ofStatusAP, MatchKernels.statusCodeAP]

end PEval.C08

/-! # Appended: definedness of the looser run, the pass/fail pipeline, `ALLOW_ANY`, defective variants
(audit C08 F1, F3; stored changes C08_J, C08_G)

* F1: every theorem above assumes that BOTH runs return.  `*_total` below: if every entry of the looser list is valid for
  the mode (the IoU modes' assertion `0 ≤ t ≤ 1`; always true for the distance modes), the looser run returns whenever
  the tighter one does — and the conclusion of the monotonicity theorem holds for what it returns.  "Loosening an IoU
  threshold from 0.1 to −0.1" stays outside: the looser run raises `AssertionError` (`looser_iou_invalid_raises`).
* F3: TP / FN monotonicity for the pass/fail accounting of C03 (`PassFail.evaluate`, the model `PassFailResult.evaluate`
  is checked against) and for the composed pipeline `Pipeline.detectFrame` under two pass/fail threshold lists.
* every theorem of this file quantifies over the result's `policy`; `allow_any_instance` instantiates the hypotheses with
  an `ALLOW_ANY` cross-label pair, and `mono_fails_C08J` shows that the TP statement is violated by the stored change
  C08_J (inverted branch under `ALLOW_ANY`), `apMono_fails_C08G` that the AP statement is violated by C08_G (`break`). -/

namespace PEval.C08
open PEval.AP

/-! ## F1: the looser run returns -/

/-- AP / APH: tight run returns, looser list valid ⇒ the loose run returns, a value not smaller, defined iff it was -/
theorem ap_mono_threshold_total (tm : TpMetric) (m : Mode) (T : List Label) (th th' : List Rat) (G : Nat)
    (rs : List Res) (hth : List.Forall₂ (looser m) th th') (hv : ∀ t ∈ th', thrValid m t = true)
    (hfp : fpLabel ∉ T ∨ ∀ r ∈ rs, ∀ g, r.gt = some g → g.label ≠ fpLabel)
    (hw : ∀ r ∈ rs, 0 ≤ r.hw) (a : ApOut) (h : apOf tm m T th G rs = .ok a) :
    ∃ a', apOf tm m T th' G rs = .ok a' ∧ optLe a.ap a'.ap := by
  obtain ⟨a', h'⟩ := apOf_ok_of_looser hth hv h
  exact ⟨a', h', apOf_thr_mono hth hfp hw h h'⟩

/-- `Map` (frame or scene level: any nested buckets) -/
theorem map_mono_threshold_total (m : Mode) (is2d : Bool) (T : List Label) (th th' : List Rat)
    (buckets : List (Label × List (List Res))) (nums : List (Label × Nat))
    (hth : List.Forall₂ (looser m) th th') (hv : ∀ t ∈ th', thrValid m t = true) (hfp : fpLabel ∉ T)
    (hw : ∀ l rss, lookupKey l buckets = .ok rss → ∀ r ∈ rss.flatten, 0 ≤ r.hw) (o : MapOut)
    (h : mapOf m is2d T th buckets nums = .ok o) :
    ∃ o', mapOf m is2d T th' buckets nums = .ok o' ∧ optLe o.map o'.map ∧ optLe o.maph o'.maph
      ∧ List.Forall₂ (fun a a' => optLe a.ap a'.ap) o.aps o'.aps
      ∧ List.Forall₂ (fun a a' => optLe a.ap a'.ap) o.aphs o'.aphs := by
  obtain ⟨o', h'⟩ := mapOf_ok_of_looser hth hv h
  exact ⟨o', h', mapOf_mono hth hfp hw h h'⟩

/-- frame level -/
theorem frame_map_mono_threshold_total (m : Mode) (is2d : Bool) (T : List Label) (th th' : List Rat)
    (rs : List Res) (gtLabels : List Label) (hth : List.Forall₂ (looser m) th th')
    (hv : ∀ t ∈ th', thrValid m t = true) (hfp : fpLabel ∉ T) (hw : ∀ r ∈ rs, 0 ≤ r.hw) (o : MapOut)
    (h : frameMap m is2d T th rs gtLabels = .ok o) :
    ∃ o', frameMap m is2d T th' rs gtLabels = .ok o' ∧ optLe o.map o'.map ∧ optLe o.maph o'.maph
      ∧ List.Forall₂ (fun a a' => optLe a.ap a'.ap) o.aps o'.aps
      ∧ List.Forall₂ (fun a a' => optLe a.ap a'.ap) o.aphs o'.aphs := by
  obtain ⟨o', h'⟩ := mapOf_ok_of_looser (T := T) hth hv h
  exact ⟨o', h', frameMap_mono hth hfp hw h h'⟩

/-- `get_positive_objects` / `get_negative_objects` -/
theorem tp_fn_mono_total (m : Mode) (T : List Label) (th th' : List Rat)
    (hth : List.Forall₂ (looser m) th th') (hv : ∀ t ∈ th', thrValid m t = true) (gts : List Gt) (rs : List Res)
    (p n : List Nat × List Nat) (h : getPositive m T (some th) rs = .ok p)
    (hn : getNegative m T (some th) gts rs = .ok n) :
    ∃ p' n', getPositive m T (some th') rs = .ok p' ∧ getNegative m T (some th') gts rs = .ok n'
      ∧ p.1.Sublist p'.1 ∧ p'.2.Sublist p.2 ∧ n'.2.Sublist n.2 := by
  obtain ⟨p', hp'⟩ := getPositive_ok_of_looser hth hv h
  obtain ⟨n', hn'⟩ := getNegative_ok_of_looser hth hv hn
  obtain ⟨i1, i2⟩ := getPositive_mono hth h hp'
  exact ⟨p', n', hp', hn', i1, i2, getNegative_mono hth hn hn'⟩

/-- the hypothesis is needed: an IoU threshold "loosened" below 0 makes the looser run raise -/
theorem looser_iou_invalid_raises :
    looser .iou3d (1/10) (-1/10)
      ∧ apOf .ap .iou3d [2] [1/10] 1 [{ r0 with score := .val (some (1/2)) }]
          = .ok { ap := some 1, tpList := [1], fpList := [0] }
      ∧ apOf .ap .iou3d [2] [-1/10] 1 [{ r0 with score := .val (some (1/2)) }] = .error "AssertionError" := by
  refine ⟨by simp [looser, Mode.isDistance]; norm_num, by decide +kernel, by decide +kernel⟩

/-- non-vacuity of the `*_total` hypotheses (distance mode: every threshold is valid) -/
example : (∀ t ∈ [(2 : Rat)], thrValid .centerDistance t = true)
    ∧ apOf .ap .centerDistance [2] [1] 1 [r0] = .ok { ap := some 0, tpList := [0], fpList := [1] } :=
  ⟨by decide +kernel, by decide +kernel⟩

/-! ## F3: the pass/fail accounting and the composed pipeline -/

/-- `PassFailResult.evaluate` (model of C03) on the same object results under pointwise looser thresholds: the TP list
(estimate ids, order kept) only grows and the FN list only shrinks -/
theorem passfail_tp_fn_mono (rs rs' : List PassFail.Res) (gts : List PassFail.GT)
    (h : List.Forall₂ PassFail.ThrLooser rs rs') :
    ((PassFail.evaluate rs gts).tp.map (·.est)).Sublist ((PassFail.evaluate rs' gts).tp.map (·.est))
      ∧ (PassFail.evaluate rs' gts).fn.Sublist (PassFail.evaluate rs gts).fn
      ∧ (PassFail.evaluate rs gts).tp.length ≤ (PassFail.evaluate rs' gts).tp.length
      ∧ (PassFail.evaluate rs' gts).fn.length ≤ (PassFail.evaluate rs gts).fn.length := by
  obtain ⟨h1, h2⟩ := PassFail.evaluate_mono gts h
  refine ⟨h1, h2, ?_, h2.length_le⟩
  simpa using h1.length_le

/-- `evaluate_frame` (critical filter first) -/
theorem passfail_frame_tp_fn_mono (f f' : PassFail.Frame) (hg : f'.gts = f.gts)
    (h : List.Forall₂ PassFail.ThrLooser f.results f'.results) :
    ((PassFail.evaluateFrame f).tp.map (·.est)).Sublist ((PassFail.evaluateFrame f').tp.map (·.est))
      ∧ (PassFail.evaluateFrame f').fn.Sublist (PassFail.evaluateFrame f).fn := by
  unfold PassFail.evaluateFrame
  rw [hg]
  exact PassFail.evaluate_mono _ (PassFail.criticalResults_rel h)

/-- The composed pipeline (matcher → critical filter → pass/fail) run on the same frame with a pointwise larger
pass/fail (plane-distance) threshold list: same matching, TP estimates a sub-list, FN ground truths a super-list;
TP count non-decreasing, FN count non-increasing. -/
theorem pipeline_tp_fn_mono (f : Pipeline.Frame) (th th' : List Rat) (hf : f.pfThrs = some th)
    (hth : List.Forall₂ (· ≤ ·) th th') (o o' : Pipeline.Out) (h : Pipeline.detectFrame f = .ok o)
    (h' : Pipeline.detectFrame (Pipeline.withPfThrs f th') = .ok o') :
    o'.matched = o.matched
      ∧ (o.pf.tp.map (·.est)).Sublist (o'.pf.tp.map (·.est)) ∧ o'.pf.fn.Sublist o.pf.fn
      ∧ o.pf.tp.length ≤ o'.pf.tp.length ∧ o'.pf.fn.length ≤ o.pf.fn.length := by
  obtain ⟨rs, hr, hm, hpf, _⟩ := Pipeline.detectFrame_ok h
  obtain ⟨rs', hr', hm', hpf', _⟩ := Pipeline.detectFrame_ok h'
  have hrs : rs' = rs := by
    have : Matching.getObjectResults f.cfg f.scene = .ok rs' := hr'
    rw [hr] at this
    cases this; rfl
  subst hrs
  have hmono := passfail_frame_tp_fn_mono (Pipeline.pfFrame f rs') (Pipeline.pfFrame (Pipeline.withPfThrs f th') rs')
    rfl (Pipeline.map_toPFRes_rel f hf hth rs')
  rw [hpf, hpf']
  refine ⟨by rw [hm, hm'], hmono.1, hmono.2, ?_, hmono.2.length_le⟩
  simpa using hmono.1.length_le

/-- non-vacuity, on a frame on which the inequality is strict: one car estimate at plane distance 3 from its ground truth is FP /
its ground truth FN at threshold 2, TP / no FN at threshold 4 -/
def exLoose : Pipeline.Frame :=
  { cfg := { policy := .default, mode := .centerDistance, targets := some ["car"],
             thresholds := some [5], fpValidation := false },
    scene := { ests := [⟨"car", "base_link"⟩], gts := [⟨"car", "base_link"⟩], val := fun _ _ => 1 },
    est := fun i => ⟨1 + i, 2, 1, true⟩,
    gt := fun j => ⟨101 + j, 2, true, 101 + j⟩,
    pfTargets := [2], pfThrs := some [2],
    pfScore := fun _ _ => some 3,
    apScore := fun _ _ _ => some 1,
    hw := fun _ _ => 1,
    critTargets := [2], mapTargets := [2], maps := [] }

example : exLoose.pfThrs = some [2] ∧ List.Forall₂ (· ≤ ·) [(2 : Rat)] [4] :=
  ⟨rfl, .cons (by norm_num) .nil⟩

example :
    (Pipeline.detectFrame exLoose).toOption.map (fun o => (o.pf.tp.map (·.est), o.pf.fn.map (·.id))) = some ([], [101])
      ∧ (Pipeline.detectFrame (Pipeline.withPfThrs exLoose [4])).toOption.map
          (fun o => (o.pf.tp.map (·.est), o.pf.fn.map (·.id))) = some ([1], []) := by
  decide +kernel

/-! ## `ALLOW_ANY`, and the stored changes C08_J / C08_G as defective variants -/

/-- a car estimate paired with a PEDESTRIAN ground truth under `ALLOW_ANY`, center distance 3/2 -/
def rAny : Res :=
  { id := 0, conf := 1/2, label := 2, gt := some { id := 0, label := 4 }, score := .val (some (3/2)),
    hw := 1, policy := .allowAny }

/-- the hypotheses of the theorems above instantiated with an `ALLOW_ANY` cross-label pair: FP at threshold 1, TP at 2
(pedestrian AP 0 → 1; TP list [] → [0]; FN list [0] → []) -/
theorem allow_any_instance :
    (∀ g, rAny.gt = some g → g.label ≠ fpLabel)
      ∧ isResultCorrect .centerDistance (some 1) rAny = .ok false
      ∧ isResultCorrect .centerDistance (some 2) rAny = .ok true
      ∧ (apOf .ap .centerDistance [4] [1] 1 [rAny]).toOption.map (·.ap) = some (some 0)
      ∧ (apOf .ap .centerDistance [4] [2] 1 [rAny]).toOption.map (·.ap) = some (some 1)
      ∧ getPositive .centerDistance [4] (some [1]) [rAny] = .ok ([], [0])
      ∧ getPositive .centerDistance [4] (some [2]) [rAny] = .ok ([0], [])
      ∧ getNegative .centerDistance [4] (some [1]) [⟨0, 4⟩] [rAny] = .ok ([], [0])
      ∧ getNegative .centerDistance [4] (some [2]) [⟨0, 4⟩] [rAny] = .ok ([], []) := by
  refine ⟨?_, ?_⟩
  · intro g hg; simp [rAny] at hg; subst hg; decide
  · decide +kernel

/-- "a TP stays a TP" for an arbitrary `is_result_correct` -/
def TpMonoStmt (irc : Mode → Option Rat → Res → Except Err Bool) : Prop :=
  ∀ (m : Mode) (r : Res) (t t' : Rat), (∀ g, r.gt = some g → g.label ≠ fpLabel) → looser m t t' →
    thrValid m t' = true → irc m (some t) r = .ok true → irc m (some t') r = .ok true

theorem tpMono_isResultCorrect : TpMonoStmt isResultCorrect :=
  fun m r t t' hord hl hv h => isResultCorrect_mono m r t t' hord hl hv h

/-- stored change C08_J: under `ALLOW_ANY` the inverted branch makes a result "correct" iff it does NOT beat the
threshold — `rAny` is correct at 1 and no longer at 2 -/
theorem mono_fails_C08J : ¬ TpMonoStmt isResultCorrectC08J := by
  intro h
  have := h .centerDistance rAny 1 2 (by intro g hg; simp [rAny] at hg; subst hg; decide)
    (by simp [looser, Mode.isDistance]) (by decide +kernel) (by decide +kernel)
  revert this
  decide +kernel

/-- "pointwise larger TP weights never lower the AP" for an arbitrary ranking → `Ap` step -/
def ApMonoStmt (K : Nat → List Kind → ApOut) : Prop :=
  ∀ (G : Nat) (ks ks' : List Kind), List.Forall₂ (fun k k' => 0 ≤ k.tpw ∧ k.tpw ≤ k'.tpw) ks ks' →
    optLe (K G ks).ap (K G ks').ap

theorem apMono_apOfKinds : ApMonoStmt apOfKinds := fun G _ _ h => apOfKinds_mono G h

/-- stored change C08_G (`break` in the interpolation scan): ranking [TP, FP, FP, FP, x] with 5 ground truths — turning
the last FP into a TP lowers the "AP" from 1/5 to 4/25 (the real value is 7/25) -/
theorem apMono_fails_C08G : ¬ ApMonoStmt apOfKindsC08G := by
  intro h
  have hF : List.Forall₂ (fun k k' : Kind => 0 ≤ k.tpw ∧ k.tpw ≤ k'.tpw)
      [.tp 1, .fp, .fp, .fp, .fp] [.tp 1, .fp, .fp, .fp, .tp 1] := by
    refine .cons ?_ (.cons ?_ (.cons ?_ (.cons ?_ (.cons ?_ .nil)))) <;> simp [Kind.tpw]
  have := h 5 _ _ hF
  have e1 : (apOfKindsC08G 5 [.tp 1, .fp, .fp, .fp, .fp]).ap = some (1/5) := by decide +kernel
  have e2 : (apOfKindsC08G 5 [.tp 1, .fp, .fp, .fp, .tp 1]).ap = some (4/25) := by decide +kernel
  rw [e1, e2] at this
  simp only [optLe] at this
  norm_num at this

/-- the unchanged scan on the same two rankings: 1/5 → 7/25 -/
example : (apOfKinds 5 [.tp 1, .fp, .fp, .fp, .fp]).ap = some (1/5)
    ∧ (apOfKinds 5 [.tp 1, .fp, .fp, .fp, .tp 1]).ap = some (7/25) := by decide +kernel

end PEval.C08
