import PEval.Gen.CallSites
import PEval.Gen.IsTarget
import PEval.Model.FilterTable
import PEval.Lemmas.FilterTable
import PEval.Lemmas.FilterMono
import PEval.Lemmas.FilterResults
/-!
# C10 — object filtering keeps exactly the objects satisfying the configured criteria

Model: `PEval.Model.Filter` (`isTarget` = `_is_target_object`, `filterObjects` = `filter_objects`,
`filterResults` = `filter_object_results`). The criteria of the property text are the separately
written declarative predicate `PEval.Filter.Criteria` (`Lemmas/FilterSpec.lean`).

All theorems quantify over every object list, every configuration (label sets, per-label bound lists
of any length, uuid and attribute lists, either role, with or without transforms) and every
rational position; there is no size bound. Theorems about a *returned* list carry the hypothesis
`… = .ok ks` ("the real call returned"); `no_exception_in_contract` shows the hypothesis is met on the
whole documented domain.

"Filtering never mutates its input" holds of the model by construction (the functions are pure);
on the real code it is checked by the harness on every executed case.
-/
namespace PEval.C10
open PEval PEval.Filter

/-- object level: whenever `_is_target_object` returns, it returns `True` exactly on the criteria -/
theorem isTarget_iff_criteria {P : Params} {o : Obj} {b : Bool} (h : isTarget P o = .ok b) :
    b = true ↔ Criteria P o :=
  isTarget_ok_iff h

/-- the result is an order-preserving sub-list of the input -/
theorem filter_sublist {P : Params} {os ks : List Obj} (h : filterObjects P os = .ok ks) :
    ks.Sublist os := by
  rw [(filterE_ok h).2]; exact List.filter_sublist

/-- kept ⇔ in the input and satisfying the criteria -/
theorem mem_filter_iff {P : Params} {os ks : List Obj} (h : filterObjects P os = .ok ks) (o : Obj) :
    o ∈ ks ↔ o ∈ os ∧ Criteria P o := by
  obtain ⟨hall, hks⟩ := filterE_ok h
  rw [hks, List.mem_filter]
  constructor
  · rintro ⟨hm, hd⟩
    exact ⟨hm, (isTarget_ok_iff (of_decide_eq_true hd)).1 rfl⟩
  · rintro ⟨hm, hc⟩
    obtain ⟨b, hb⟩ := hall o hm
    have : b = true := (isTarget_ok_iff hb).2 hc
    subst this
    exact ⟨hm, decide_eq_true hb⟩

open Classical in
/-- exactly (order and multiplicity included): the result IS the input filtered by the criteria -/
theorem filter_exact {P : Params} {os ks : List Obj} (h : filterObjects P os = .ok ks) :
    ks = os.filter (fun o => decide (Criteria P o)) := by
  obtain ⟨hall, hks⟩ := filterE_ok h
  rw [hks]
  apply List.filter_congr
  intro o ho
  obtain ⟨b, hb⟩ := hall o ho
  have hiff := isTarget_ok_iff hb
  cases b with
  | true => rw [hb]; simp [hiff.1 rfl]
  | false =>
    have : ¬ Criteria P o := fun c => by have := hiff.2 c; cases this
    rw [hb]; simp [this]

/-- filtering the result again changes nothing -/
theorem filter_idem {P : Params} {os ks : List Obj} (h : filterObjects P os = .ok ks) :
    filterObjects P ks = .ok ks := by
  apply filterE_all_true
  intro o ho
  rw [(filterE_ok h).2, List.mem_filter] at ho
  exact of_decide_eq_true ho.2

/-- widening any bound (same labels, attributes, uuids) never removes a kept object: the narrower
result is an order-preserving sub-list of the wider one -/
theorem filter_mono {P P' : Params} (w : Wider P P') {os ks ks' : List Obj}
    (h : filterObjects P os = .ok ks) (h' : filterObjects P' os = .ok ks') : ks.Sublist ks' := by
  classical
  rw [filter_exact h, filter_exact h']
  apply List.monotone_filter_right
  intro o ho
  simp only [decide_eq_true_eq] at ho ⊢
  exact criteria_wider w ho

/-- an FP-labelled object passes whatever the configuration (and nothing can raise) -/
theorem fp_label_passes (P : Params) (o : Obj) (h : IsFP o.label) : isTarget P o = .ok true := by
  unfold isTarget; rw [if_pos ((isFP_iff _).2 h)]

/-- an unknown-labelled estimate, unknown not being a target, is judged ONLY against confidence 0 and
the MEAN of each range list: label, attributes, point count and uuid play no role -/
theorem unknown_uses_mean {P : Params} {o : Obj} {b : Bool} (hu : IsUnknown o.label)
    (hg : P.isGt = false) (hT : ∀ ts, P.targets = some ts → ∀ t ∈ ts, ¬ IsUnknown t)
    (h : isTarget P o = .ok b) :
    b = true ↔ (P.conf ≠ none → 0 < o.score) ∧ ∀ p, EgoPos P o p →
      (∀ l, P.maxX = some l → ∃ m, IsMean l m ∧ -m < p.x ∧ p.x < m) ∧
      (∀ l, P.maxY = some l → ∃ m, IsMean l m ∧ -m < p.y ∧ p.y < m) ∧
      (∀ l, P.maxDist = some l → ∃ m, IsMean l m ∧ 0 < m ∧ p.x * p.x + p.y * p.y < m * m) ∧
      (∀ l, P.minDist = some l → ∃ m, IsMean l m ∧ (m < 0 ∨ m * m < p.x * p.x + p.y * p.y)) := by
  have hR : Relaxed P o := ⟨hu, hg, hT⟩
  have hnfp : ¬ IsFP o.label := by
    rcases hu with e | e <;> rw [e] <;> simp [IsFP]
  rw [isTarget_ok_iff h]
  simp only [Criteria, hnfp, false_or, LabelOK, AttrOK, hR, true_or, true_and, ConfOK, not_true_eq_false,
    false_and, or_false, RangeOK, XOK, YOK, MaxDistOK, MinDistOK, JudgedBy, PtsOK, UuidOK, hg,
    Bool.false_eq_true, false_implies, and_true]
  constructor
  · rintro ⟨hc, hr⟩
    refine ⟨?_, hr⟩
    intro hne
    obtain ⟨l, hl⟩ := Option.ne_none_iff_exists'.1 hne
    exact hc l hl
  · rintro ⟨hc, hr⟩
    exact ⟨fun l hl => hc (by rw [hl]; simp), hr⟩

/-- the per-result predicate of `filter_object_results`, whenever it returns -/
theorem resultTarget_iff {P : Params} {r : Res} {b : Bool} (h : resultTarget P r = .ok b) :
    b = true ↔ Criteria (estParams P) r.est ∧ (∀ g, r.gt = some g → Criteria (gtParams P) g) ∧
      (r.gt = none → ∀ us, P.uuids = some us → us = []) := by
  unfold resultTarget at h
  cases he : isTarget (estParams P) r.est with
  | error e => rw [he] at h; cases h
  | ok e =>
    rw [he] at h
    have hE := isTarget_ok_iff he
    cases hg : r.gt with
    | none =>
      rw [hg] at h
      simp only at h
      cases h
      have htr : truthy P.uuids = true ↔ ¬ ∀ us, P.uuids = some us → us = [] := by
        cases hU : P.uuids with
        | none => simp [truthy]
        | some us => cases us <;> simp [truthy]
      by_cases ht : truthy P.uuids = true
      · simp only [ht, if_true, Bool.false_eq_true, false_iff]
        rintro ⟨_, _, h3⟩
        exact (htr.1 ht) (h3 trivial)
      · have : ∀ us, P.uuids = some us → us = [] := by
          by_contra c; exact ht (htr.2 c)
        simp only [ht, Bool.false_eq_true, if_false, hE, reduceCtorEq, false_implies, implies_true,
          true_and, forall_const]
        exact ⟨fun hc => ⟨hc, this⟩, fun hc => hc.1⟩
    | some g =>
      rw [hg] at h
      cases e with
      | false =>
        cases h
        have : ¬ Criteria (estParams P) r.est := fun c => by have := hE.2 c; cases this
        simp [this]
      | true =>
        simp only at h
        have hG := isTarget_ok_iff h
        simp only [hG, hE.1 rfl, Option.some.injEq, forall_eq', reduceCtorEq, false_implies, and_true,
          true_and]

/-- a result is kept iff its estimate passes and, when present, its ground truth passes (a
ground-truth-less result is dropped when target uuids are configured); order is preserved -/
theorem filterResults_both {P : Params} {rs ks : List Res} (h : filterResults P rs = .ok ks) :
    ks.Sublist rs ∧ ∀ r, r ∈ ks ↔ r ∈ rs ∧ Criteria (estParams P) r.est ∧
      (∀ g, r.gt = some g → Criteria (gtParams P) g) ∧
      (r.gt = none → ∀ us, P.uuids = some us → us = []) := by
  obtain ⟨hall, hks⟩ := filterE_ok h
  refine ⟨by rw [hks]; exact List.filter_sublist, fun r => ?_⟩
  rw [hks, List.mem_filter]
  constructor
  · rintro ⟨hm, hd⟩
    exact ⟨hm, (resultTarget_iff (of_decide_eq_true hd)).1 rfl⟩
  · rintro ⟨hm, hc⟩
    obtain ⟨b, hb⟩ := hall r hm
    have : b = true := (resultTarget_iff hb).2 hc
    subst this
    exact ⟨hm, decide_eq_true hb⟩

/-- filtering results is idempotent too -/
theorem filterResults_idem {P : Params} {rs ks : List Res} (h : filterResults P rs = .ok ks) :
    filterResults P ks = .ok ks := by
  apply filterE_all_true
  intro r hr
  rw [(filterE_ok h).2, List.mem_filter] at hr
  exact of_decide_eq_true hr.2

/-- inside the documented contract (non-empty target list, per-label lists of its length, complete
objects) no exception is reachable: the filter returns -/
theorem no_exception_in_contract {P : Params} {os : List Obj} (hP : WFParams P)
    (hO : ∀ o ∈ os, WFObj P o) : ∃ ks, filterObjects P os = .ok ks :=
  filterE_total (fun o ho => isTarget_total hP (hO o ho))

/-- the squared-distance encoding decides `√d2 < t` and `√d2 > t`: for every rational bracket
`lo ≤ √d2 ≤ hi` (i.e. `lo² ≤ d2 ≤ hi²`, `0 ≤ lo`, `0 ≤ hi`) the model's answer lies between comparing
`hi` and comparing `lo` with `t` -/
theorem dist_encoding_sound (d2 t lo hi : Rat) (hlo : 0 ≤ lo) (hhi : 0 ≤ hi) (h1 : lo * lo ≤ d2)
    (h2 : d2 ≤ hi * hi) :
    (hi < t → distLt d2 t = true) ∧ (distLt d2 t = true → lo < t) ∧
    (t < lo → distGt d2 t = true) ∧ (distGt d2 t = true → t < hi) := by
  simp only [distLt_iff, distGt_iff]
  refine ⟨?_, ?_, ?_, ?_⟩
  · intro h; exact ⟨by linarith, by nlinarith⟩
  · rintro ⟨h3, h4⟩
    by_contra c
    have : t ≤ lo := not_lt.1 c
    nlinarith
  · intro h
    by_cases hn : t < 0
    · exact Or.inl hn
    · right; have : 0 ≤ t := not_lt.1 hn; nlinarith
  · rintro (h | h)
    · linarith
    · by_contra c
      have : hi ≤ t := not_lt.1 c
      nlinarith

/-- frame invariance (with C07): a BASE_LINK object and its MAP-frame rendering under any ego pose
(yaw given by a unit complex number, any translation), filtered with the transform supplied, are
judged alike -/
theorem frame_invariant (P : Params) (o : Obj) (e : Pose) (he : e.c * e.c + e.s * e.s = 1)
    (hf : o.frame = "base_link") (hp : o.pos ≠ none) :
    isTarget { P with hasTransforms := true } (renderMap e o) = isTarget P o := by
  have hpos := position_renderMap (P := P) he hf hp
  unfold isTarget
  rw [hpos]
  rfl

/-- … hence the whole filter commutes with rendering a BASE_LINK scene into the MAP frame: the same
objects are kept, in the same order, and the same exception (if any) is raised -/
theorem filter_frame_invariant (P : Params) (os : List Obj) (e : Pose) (he : e.c * e.c + e.s * e.s = 1)
    (h : ∀ o ∈ os, o.frame = "base_link" ∧ o.pos ≠ none) :
    filterObjects { P with hasTransforms := true } (os.map (renderMap e)) =
      (filterObjects P os).map (List.map (renderMap e)) :=
  filterE_map (fun o ho => frame_invariant P o e he (h o ho).1 (h o ho).2)

/-! ## non-vacuity: concrete instances of the hypotheses -/

def exP : Params :=
  { isGt := true, targets := some ["AutowareLabel.CAR", "AutowareLabel.BICYCLE"], ignoreAttrs := some ["parked"],
    maxX := some [10, 20], maxY := some [10, 20], maxDist := none, minDist := none, conf := none,
    minPts := some [1, 0], uuids := none, hasTransforms := false }
def exWide : Params := { exP with maxX := some [15, 20], maxY := none, minPts := some [0, 0] }
def exObj (i : Nat) (l : String) (x y : Rat) (attrs : List String := []) : Obj :=
  { id := i, label := l, name := "n", attributes := attrs, score := 1/2, pcNum := some 1, uuid := some "u",
    is2d := false, frame := "base_link", pos := some ⟨x, y⟩, egoPos := none }
def exObjs : List Obj :=
  [exObj 0 "AutowareLabel.CAR" 5 5, exObj 1 "AutowareLabel.CAR" 12 0, exObj 2 "AutowareLabel.BICYCLE" (-19) 3,
   exObj 3 "AutowareLabel.FP" 100 100, exObj 4 "AutowareLabel.CAR" 1 1 ["parked"], exObj 5 "AutowareLabel.BUS" 1 1]

example : filterObjects exP exObjs = .ok [exObjs[0], exObjs[2], exObjs[3]] := by decide +kernel
example : filterObjects exWide exObjs = .ok [exObjs[0], exObjs[1], exObjs[2], exObjs[3]] := by decide +kernel
example : Wider exP exWide := by
  constructor <;> simp [exP, exWide, OptRel, Pointwise]
  norm_num
example : WFParams exP := ⟨⟨_, rfl, by simp, by simp [exP], by simp [exP], by simp [exP], by simp [exP],
  by simp [exP], by simp [exP]⟩⟩
example : ∀ o ∈ exObjs, WFObj exP o := by
  intro o ho
  simp only [exObjs, List.mem_cons, List.not_mem_nil, or_false] at ho
  rcases ho with rfl | rfl | rfl | rfl | rfl | rfl <;>
    exact ⟨by simp [exObj], by simp [exP], by simp [exObj]⟩
/-- the relaxation is reachable: an unknown-labelled estimate judged against the mean (15) -/
example : isTarget { exP with isGt := false } (exObj 6 "AutowareLabel.UNKNOWN" 14 14) = .ok true := by decide +kernel
example : isTarget { exP with isGt := false } (exObj 6 "AutowareLabel.UNKNOWN" 16 0) = .ok false := by decide +kernel
/-- outside the contract the Python exceptions are reproduced -/
example : isTarget { exP with targets := none, ignoreAttrs := none } (exObj 7 "AutowareLabel.CAR" 1 1) = .error "TypeError" := by
  decide +kernel
example : isTarget { exP with maxX := some [10] } (exObj 8 "AutowareLabel.BICYCLE" 1 1) = .error "IndexError" := by
  decide +kernel
/-- a unit rational yaw for `frame_invariant` -/
example : (3/5 : Rat) * (3/5) + (4/5) * (4/5) = 1 := by decide +kernel

/-! ## tie to the source: call sites inside the package (regenerated from the AST on every run)

`filter_objects` / `filter_object_results` accept `*args, **kwargs`, so a misspelt keyword at a call
site is swallowed silently and the corresponding criterion is simply not applied (defect F2:
`transform=` for `transforms=` in `evaluate_frame`). The translator lists every keyword used at the
package's own call sites of the filter / matcher / divide functions and the functions' declared
parameters; the statements below are re-decided against the current source on every run. -/

/-- every keyword written at a call site of these functions is a declared parameter of the callee -/
theorem call_site_keywords_declared :
    ∀ kw ∈ Gen.callSiteKeywords, ∃ ps ∈ Gen.calleeParams, ps.1 = kw.1 ∧ kw.2 ∈ ps.2 := by decide +kernel

/-- every key of the critical filter's `filtering_params` (splatted with `**` into both filter functions)
is a declared parameter of both -/
theorem critical_params_declared :
    ∀ k ∈ Gen.criticalFilteringParamKeys, ∀ f ∈ ["filter_objects", "filter_object_results"],
      ∃ ps ∈ Gen.calleeParams, ps.1 = f ∧ k ∈ ps.2 := by decide +kernel

/-! ## tie to the source: the decision table of `_is_target_object` (regenerated on every run)

`Gen.IsTarget.tree` is the decision tree obtained by running the REAL `_is_target_object` on symbolic inputs over every
assignment of the decision atoms it queries (`harness/dt_c10.py`); `FilterTable.isTargetTreeR r` is the hand-written
skeleton of the model over the same atoms under reading `r` of the three points the property text leaves open
(`FilterTable.Reading`: is a ground truth's own confidence thresholded; does `target_labels == []` target everything or
nothing; is the relaxed unknown estimate's confidence bound 0 or the mean). `DT.agree` decides — completely, for the
finite decision space, by kernel evaluation — that the code's tree and the skeleton of the reading named by
`Gen.IsTarget.readingHint` give the same result under EVERY valuation of the atoms, exception classes not compared (every
exception is the one result `raise eRejected`). A change of the source that alters a decision the text states (an
operator, a bound, a guard, a criterion, raising instead of returning) changes the generated tree so that it equals no
reading's skeleton and the evaluation below yields `false`; a rewrite that keeps the decisions, or moves between readings,
regenerates a tree for which it still yields `true`, with no edit here. When the translator cannot follow the source
(`tree = none`) the statements hold vacuously and the check relies on the correspondence runs (the evidence says so). -/
section Table
open PEval.DT PEval.FilterTable

/-- atoms a tree may ask again further down a path (the model re-reads `is_gt`, `target_labels is None` and
`label in target_labels` at every stage): the checker records their decisions -/
def tableSticky : List Nat := [aIsGt, aTargetsNone, aLabelIn]

/-- the reading the translator found to fit the current source (today's reading when the index is out of range) -/
def tableReading : Reading := readings.getD Gen.IsTarget.readingHint today

def isTargetTableOk : Bool :=
  match Gen.IsTarget.tree with
  | some t => agree forbidden tableSticky t (mapRes canonRes (isTargetTreeR tableReading)) PA.empty
  | none => true

/-- THE per-run obligation: the checker accepts the regenerated table (kernel evaluation over all paths) -/
theorem isTarget_table_check : isTargetTableOk = true := by decide +kernel

/-- no valuation is excluded from the per-run comparison: the list of forbidden conjunctions is empty -/
theorem isTarget_all_valuations_consistent (v : Val) : consistent forbidden v = true := by
  simp [consistent, forbidden]

/-- the code's decision table equals the skeleton of ONE reading of the open points under every valuation of the atoms
(exception classes merged) -/
theorem isTarget_code_table_eq_model :
    ∀ t, Gen.IsTarget.tree = some t → ∃ r ∈ readings, ∀ v : Val, eval t v = canonRes (eval (isTargetTreeR r) v) := by
  intro t ht
  have h := isTarget_table_check
  unfold isTargetTableOk at h
  rw [ht] at h
  refine ⟨tableReading, mem_readings _, fun v => ?_⟩
  rw [agree_sound h v (isTarget_all_valuations_consistent v), eval_mapRes]

/-- INSIDE the property's quantifier: the atoms of the input avoid the valuations on which the readings of the text part
ways (`FilterTable.openValuations`: a ground truth whose own confidence fails the threshold or has no entry, an empty
target list, a relaxed unknown estimate for which 0 and the mean confidence decide differently) -/
def InQuantifier (P : Params) (o : Obj) : Prop := consistent openValuations (valuationOf P o) = true

instance (P : Params) (o : Obj) : Decidable (InQuantifier P o) := by unfold InQuantifier; infer_instance

/-- the bridge: the model `isTarget` is its decision skeleton applied to the atoms of the input (all inputs) -/
theorem isTarget_eq_skeleton (P : Params) (o : Obj) :
    isTargetAtoms (valuationOf P o) = ofExcept (isTarget P o) :=
  isTarget_eq_tree P o

/-- the CODE's decision table, read at the atoms of a concrete input inside the quantifier, gives the model's verdict: the
same Boolean, or both reject -/
theorem isTarget_code_table_eq_isTarget :
    ∀ t, Gen.IsTarget.tree = some t → ∀ (P : Params) (o : Obj), InQuantifier P o →
      eval t (valuationOf P o) = canonRes (ofExcept (isTarget P o)) := by
  intro t ht P o hq
  obtain ⟨r, hr, h⟩ := isTarget_code_table_eq_model t ht
  rw [h, readings_agree_outside_open hr _ hq]
  exact congrArg canonRes (isTarget_eq_tree P o)

/-- C10 for the code's table: whenever the table returns on an input inside the quantifier, it returns `True` exactly on
the criteria -/
theorem table_iff_criteria {t : DTree} (ht : Gen.IsTarget.tree = some t) {P : Params} {o : Obj} {b : Bool}
    (hq : InQuantifier P o) (h : eval t (valuationOf P o) = .ret b) : b = true ↔ Criteria P o := by
  rw [isTarget_code_table_eq_isTarget t ht P o hq] at h
  exact isTarget_iff_criteria (ofExcept_ret (canonRes_ret h))

/-- for the code's table: an FP-labelled object passes whatever the configuration (every reading, every input) -/
theorem table_fp_label_passes {t : DTree} (ht : Gen.IsTarget.tree = some t) (P : Params) (o : Obj) (h : IsFP o.label) :
    eval t (valuationOf P o) = .ret true := by
  obtain ⟨r, _, hr⟩ := isTarget_code_table_eq_model t ht
  rw [hr, eval_isTargetTreeR_fp r _ (show (valuationOf P o).b aFp = true from (isFP_iff _).2 h)]
  rfl

/-- for the code's table: an unknown-labelled estimate (unknown not a target) inside the quantifier is judged only
against confidence 0 and the mean of each range list (inside the quantifier 0 and the mean confidence decide alike) -/
theorem table_unknown_uses_mean {t : DTree} (ht : Gen.IsTarget.tree = some t) {P : Params} {o : Obj} {b : Bool}
    (hq : InQuantifier P o)
    (hu : IsUnknown o.label) (hg : P.isGt = false) (hT : ∀ ts, P.targets = some ts → ∀ t ∈ ts, ¬ IsUnknown t)
    (h : eval t (valuationOf P o) = .ret b) :
    b = true ↔ (P.conf ≠ none → 0 < o.score) ∧ ∀ p, EgoPos P o p →
      (∀ l, P.maxX = some l → ∃ m, IsMean l m ∧ -m < p.x ∧ p.x < m) ∧
      (∀ l, P.maxY = some l → ∃ m, IsMean l m ∧ -m < p.y ∧ p.y < m) ∧
      (∀ l, P.maxDist = some l → ∃ m, IsMean l m ∧ 0 < m ∧ p.x * p.x + p.y * p.y < m * m) ∧
      (∀ l, P.minDist = some l → ∃ m, IsMean l m ∧ (m < 0 ∨ m * m < p.x * p.x + p.y * p.y)) := by
  rw [isTarget_code_table_eq_isTarget t ht P o hq] at h
  exact unknown_uses_mean hu hg hT (ofExcept_ret (canonRes_ret h))

/-- for the code's table: inside the documented contract (and the quantifier) the table never answers with an exception -/
theorem table_no_exception_in_contract {t : DTree} (ht : Gen.IsTarget.tree = some t) {P : Params} {o : Obj}
    (hq : InQuantifier P o) (hP : WFParams P) (hO : WFObj P o) : ∃ b, eval t (valuationOf P o) = .ret b := by
  obtain ⟨b, hb⟩ := isTarget_total hP hO
  exact ⟨b, by rw [isTarget_code_table_eq_isTarget t ht P o hq, hb]; rfl⟩

/-- non-vacuity of `InQuantifier`: an estimate and a ground truth with a confidence list it passes, a relaxed unknown
estimate whose score exceeds both 0 and the mean; and the open inputs are outside -/
example : InQuantifier exP (exObj 1 "AutowareLabel.CAR" 12 0) := by decide +kernel
example : InQuantifier { exP with conf := some [1/4, 1/4] } (exObj 1 "AutowareLabel.CAR" 12 0) := by decide +kernel
example : InQuantifier { exP with isGt := false, conf := some [1/4, 1/4] } (exObj 6 "AutowareLabel.UNKNOWN" 14 14) := by
  decide +kernel
example : ¬ InQuantifier { exP with conf := some [3/4, 3/4] } (exObj 1 "AutowareLabel.CAR" 12 0) := by decide +kernel
example : ¬ InQuantifier { exP with targets := some [] } (exObj 1 "AutowareLabel.CAR" 12 0) := by decide +kernel
example : ¬ InQuantifier { exP with isGt := false, conf := some [3/4, 3/4] } (exObj 6 "AutowareLabel.UNKNOWN" 14 14) := by
  decide +kernel

/-- non-vacuity: the table of the current source exists, and on a concrete input it gives the expected verdicts -/
example : ∀ t, Gen.IsTarget.tree = some t → eval t (valuationOf exP (exObj 1 "AutowareLabel.CAR" 12 0)) = .ret false := by
  intro t ht; rw [isTarget_code_table_eq_isTarget t ht _ _ (by decide +kernel)]; decide +kernel

end Table

/-! ## the RESULT level (`filter_object_results`): totality, monotonicity, frame invariance

`filterResults_both` / `filterResults_idem` are stated on `filterResults P rs = .ok ks`.  Here: the filter RETURNS inside
the contract (`filterResults_total`), widening a bound never removes a kept result (`filterResults_mono`, lifts
`filter_mono`), and filtering commutes with rendering the whole scene (estimates AND ground truths) into the map frame
(`filterResults_frame_invariant`, lifts `filter_frame_invariant`). -/
section Results

/-- inside the documented contract (`WFParams`; every estimate complete for the estimate-side arguments, every ground
truth for the ground-truth-side arguments) `filter_object_results` returns -/
theorem filterResults_total {P : Params} {rs : List Res} (hP : WFParams P) (hO : ∀ r ∈ rs, WFRes P r) :
    ∃ ks, filterResults P rs = .ok ks := filterResults_total' hP hO

/-- widening any bound (same labels, attributes, uuids) never removes a kept RESULT: the narrower answer is an
order-preserving sub-list of the wider one -/
theorem filterResults_mono {P P' : Params} (w : Wider P P') {rs ks ks' : List Res}
    (h : filterResults P rs = .ok ks) (h' : filterResults P' rs = .ok ks') : ks.Sublist ks' := by
  obtain ⟨_, hks⟩ := filterE_ok h
  obtain ⟨hall', hks'⟩ := filterE_ok h'
  rw [hks, hks']
  apply filter_sublist_of_imp_mem
  intro r hr hd
  have hb := of_decide_eq_true hd
  obtain ⟨h1, h2, h3⟩ := (resultTarget_iff hb).1 rfl
  obtain ⟨b, hb'⟩ := hall' r hr
  have : b = true := (resultTarget_iff hb').2
    ⟨criteria_wider (wider_est w) h1, fun g hg => criteria_wider (wider_gt w) (h2 g hg),
      fun hn us hu => h3 hn us (by rw [← w.uuids]; exact hu)⟩
  subst this
  exact decide_eq_true hb'

/-- one result: rendering estimate and ground truth into the map frame under any ego pose (unit yaw, any translation)
and filtering with the transform supplied gives the same verdict, the same exception included -/
theorem resultTarget_frame_invariant (P : Params) (r : Res) (e : Pose) (he : e.c * e.c + e.s * e.s = 1)
    (hE : r.est.frame = "base_link" ∧ r.est.pos ≠ none)
    (hG : ∀ g, r.gt = some g → g.frame = "base_link" ∧ g.pos ≠ none) :
    resultTarget { P with hasTransforms := true } (Res.renderMap e r) = resultTarget P r := by
  have h1 : isTarget (estParams { P with hasTransforms := true }) (renderMap e r.est) = isTarget (estParams P) r.est :=
    frame_invariant (estParams P) r.est e he hE.1 hE.2
  unfold resultTarget
  simp only [Res.renderMap]
  rw [h1]
  cases he' : isTarget (estParams P) r.est with
  | error k => rfl
  | ok b =>
    cases hg : r.gt with
    | none => cases b <;> rfl
    | some g =>
      have h2 : isTarget (gtParams { P with hasTransforms := true }) (renderMap e g) = isTarget (gtParams P) g :=
        frame_invariant (gtParams P) g e he (hG g hg).1 (hG g hg).2
      cases b
      · rfl
      · simp only [Option.map_some]; exact h2

/-- the whole result filter commutes with rendering a BASE_LINK scene into the MAP frame: the same results are kept, in
the same order, and the same exception (if any) is raised -/
theorem filterResults_frame_invariant (P : Params) (rs : List Res) (e : Pose) (he : e.c * e.c + e.s * e.s = 1)
    (h : ∀ r ∈ rs, (r.est.frame = "base_link" ∧ r.est.pos ≠ none) ∧
      ∀ g, r.gt = some g → g.frame = "base_link" ∧ g.pos ≠ none) :
    filterResults { P with hasTransforms := true } (rs.map (Res.renderMap e)) =
      (filterResults P rs).map (List.map (Res.renderMap e)) :=
  filterE_map (fun r hr => resultTarget_frame_invariant P r e he (h r hr).1 (h r hr).2)

/-! ### non-vacuity and defective variants -/

def exRP : Params := { exP with isGt := false, uuids := some ["u"], conf := some [1/4, 1/4] }
def exRWide : Params := { exRP with maxX := some [15, 20], maxY := none, minPts := some [0, 0] }
def exG (i : Nat) (l : String) (x y : Rat) (u : String) : Obj := { exObj i l x y with uuid := some u }
/-- results: paired and kept; paired, estimate beyond max_x; GT-less (dropped because target uuids are configured);
paired, ground truth with a foreign uuid; FP-labelled pair far away -/
def exRs : List Res :=
  [⟨0, exObj 0 "AutowareLabel.CAR" 5 5, some (exG 10 "AutowareLabel.CAR" 5 6 "u")⟩,
   ⟨1, exObj 1 "AutowareLabel.CAR" 12 0, some (exG 11 "AutowareLabel.CAR" 9 0 "u")⟩,
   ⟨2, exObj 2 "AutowareLabel.CAR" 1 1, none⟩,
   ⟨3, exObj 3 "AutowareLabel.BICYCLE" 2 2, some (exG 12 "AutowareLabel.BICYCLE" 2 2 "other")⟩,
   ⟨4, exObj 4 "AutowareLabel.FP" 100 100, some (exG 13 "AutowareLabel.FP" 100 100 "zz")⟩]

example : (filterResults exRP exRs).map (List.map (·.id)) = .ok [0, 4] := by decide +kernel
example : (filterResults exRWide exRs).map (List.map (·.id)) = .ok [0, 1, 4] := by decide +kernel
example : (filterResults { exRP with uuids := none } exRs).map (List.map (·.id)) = .ok [0, 2, 3, 4] := by decide +kernel

example : Wider exRP exRWide := by
  constructor <;> simp [exRP, exRWide, exP, OptRel, Pointwise]
  norm_num

example : WFParams exRP := ⟨⟨_, rfl, by simp, by simp [exRP, exP], by simp [exRP, exP], by simp [exRP, exP],
  by simp [exRP, exP], by simp [exRP, exP], by simp [exRP, exP]⟩⟩

example : ∀ r ∈ exRs, WFRes exRP r := by
  intro r hr
  simp only [exRs, List.mem_cons, List.not_mem_nil, or_false] at hr
  rcases hr with rfl | rfl | rfl | rfl | rfl <;>
    exact ⟨⟨by simp [exObj], by simp [exRP, exP, estParams], by simp [estParams]⟩,
      fun g hg => by
        simp only [Option.some.injEq, reduceCtorEq] at hg
        try subst hg
        all_goals exact ⟨by simp [exG, exObj], by simp [exRP, exP, gtParams], by simp [exG, exObj]⟩⟩

/-- the hypotheses of `filterResults_frame_invariant` on the example, and both sides evaluated for the pose
`(3/5, 4/5)` + `(7, −2)` -/
example : (∀ r ∈ exRs, (r.est.frame = "base_link" ∧ r.est.pos ≠ none) ∧
      ∀ g, r.gt = some g → g.frame = "base_link" ∧ g.pos ≠ none) ∧
    (filterResults { exRP with hasTransforms := true } (exRs.map (Res.renderMap ⟨3/5, 4/5, 7, -2⟩))).map (List.map (·.id))
      = .ok [0, 4] := by
  refine ⟨?_, by decide +kernel⟩
  intro r hr
  simp only [exRs, List.mem_cons, List.not_mem_nil, or_false] at hr
  rcases hr with rfl | rfl | rfl | rfl | rfl <;>
    exact ⟨⟨rfl, by simp [exObj]⟩, fun g hg => by
      simp only [Option.some.injEq, reduceCtorEq] at hg
      try subst hg
      all_goals exact ⟨rfl, by simp [exG, exObj]⟩⟩

/-- A DEFECTIVE variant: the ground truth is judged by the coordinates of its OWN frame (as if it were a `base_link`
object), i.e. the transform is not applied on the ground-truth side.  Frame invariance fails for it on the example
(pose `(3/5, 4/5)` + `(100, −2)`): in the map rendering result 0 is lost. -/
def resultTarget_gtRaw (P : Params) (r : Res) : Except Err Bool :=
  match isTarget (estParams P) r.est with
  | .error e => .error e
  | .ok e =>
    match e, r.gt with
    | true, some g => isTarget (gtParams P) { g with frame := "base_link" }
    | false, some _ => .ok false
    | e, none => .ok (if truthy P.uuids then false else e)

example :
    (filterE (resultTarget_gtRaw { exRP with hasTransforms := true }) (exRs.map (Res.renderMap ⟨3/5, 4/5, 100, -2⟩))).map
        (List.map (·.id)) = .ok [4] ∧
      ((filterE (resultTarget_gtRaw exRP) exRs).map (List.map (Res.renderMap ⟨3/5, 4/5, 100, -2⟩))).map (List.map (·.id))
        = .ok [0, 4] ∧
      (filterResults { exRP with hasTransforms := true } (exRs.map (Res.renderMap ⟨3/5, 4/5, 100, -2⟩))).map
        (List.map (·.id)) = .ok [0, 4] := by
  decide +kernel

/-- A DEFECTIVE variant that forgets the ground truth (keeps a result whenever its estimate passes): `filterResults_mono`
still holds for it, `filterResults_both` does not — result 3 (foreign ground-truth uuid) is kept -/
def resultTarget_estOnly (P : Params) (r : Res) : Except Err Bool := isTarget (estParams P) r.est

example : (filterE (resultTarget_estOnly exRP) exRs).map (List.map (·.id)) = .ok [0, 2, 3, 4] := by decide +kernel

end Results

/-! ## locality: every element is judged on its own -/

/-- the loop judges every element on its own: the answer on a concatenation is the concatenation of the answers
(`for x in xs: if f(x): out.append(x)` carries no state from one element to the next) -/
theorem filterE_append {α} (f : α → Except Err Bool) (as bs ka kb : List α)
    (ha : filterE f as = .ok ka) (hb : filterE f bs = .ok kb) : filterE f (as ++ bs) = .ok (ka ++ kb) := by
  induction as generalizing ka with
  | nil => simp [filterE] at ha; subst ha; simpa using hb
  | cons a as ih =>
    unfold filterE at ha
    rw [List.cons_append]; unfold filterE
    cases hf : f a with
    | error e => rw [hf] at ha; cases ha
    | ok b =>
      rw [hf] at ha
      cases hr : filterE f as with
      | error e => rw [hr] at ha; cases ha
      | ok ks =>
        rw [hr] at ha
        simp only [Except.ok.injEq] at ha
        rw [ih ks hr]
        subst ha
        cases b <;> simp

/-- `filter_objects` on a concatenation = concatenation of the two answers -/
theorem filter_append {P : Params} {os₁ os₂ ks₁ ks₂ : List Obj}
    (h₁ : filterObjects P os₁ = .ok ks₁) (h₂ : filterObjects P os₂ = .ok ks₂) :
    filterObjects P (os₁ ++ os₂) = .ok (ks₁ ++ ks₂) :=
  filterE_append _ _ _ _ _ h₁ h₂

/-- `filter_object_results` on a concatenation = concatenation of the two answers -/
theorem filterResults_append {P : Params} {rs₁ rs₂ ks₁ ks₂ : List Res}
    (h₁ : filterResults P rs₁ = .ok ks₁) (h₂ : filterResults P rs₂ = .ok ks₂) :
    filterResults P (rs₁ ++ rs₂) = .ok (ks₁ ++ ks₂) :=
  filterE_append _ _ _ _ _ h₁ h₂

/-- a single object is kept iff it meets the criteria — whatever else is in the list (with `filter_append`: the fate of an
object does not depend on its neighbours or on its position) -/
theorem filter_singleton {P : Params} {o : Obj} {ks : List Obj} (h : filterObjects P [o] = .ok ks) :
    (Criteria P o → ks = [o]) ∧ (¬ Criteria P o → ks = []) := by
  have hm := mem_filter_iff h o
  have hs := filter_sublist h
  constructor
  · intro hc
    have : o ∈ ks := hm.2 ⟨by simp, hc⟩
    have hl := hs.length_le
    match ks, this, hl, hs with
    | [x], hx, _, hs' => simp at hx; rw [hx]
    | x :: y :: zs, _, hl', _ => simp at hl'
  · intro hc
    match ks, hm, hs with
    | [], _, _ => rfl
    | x :: zs, hm', hs' =>
      have hx : x = o := by
        have := hs'.subset (List.mem_cons_self)
        simpa using this
      exact absurd (hm'.1 (by rw [hx]; simp)).2 hc

/-- the kept list never is longer than the input, and is the whole input iff every object meets the criteria -/
theorem filter_length {P : Params} {os ks : List Obj} (h : filterObjects P os = .ok ks) :
    ks.length ≤ os.length ∧ (ks = os ↔ ∀ o ∈ os, Criteria P o) := by
  refine ⟨(filter_sublist h).length_le, ?_, ?_⟩
  · intro e o ho
    rw [← e] at ho
    exact ((mem_filter_iff h o).1 ho).2
  · intro hall
    obtain ⟨hex, hks⟩ := filterE_ok h
    rw [hks]
    apply List.filter_eq_self.2
    intro o ho
    obtain ⟨b, hb⟩ := hex o ho
    have hb' := (isTarget_iff_criteria hb).2 (hall o ho)
    subst hb'
    simp [hb]

end PEval.C10
