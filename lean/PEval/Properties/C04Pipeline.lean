import PEval.Properties.Pipeline
import PEval.Properties.C04Perfect
/-!
# C04 on the composed pipeline: the 2-D `Map`, and the "AP = 1" clause with its one-to-one hypotheses discharged
(audit C04 F7 and F3 "nor is it discharged for `Pipeline.detectFrame`")

`pipeline_ap_in_unit` (Properties/Pipeline.lean) already covers every per-label AP **and APH**, mAP **and mAPH** of every
`Map` of a 3-D pipeline frame (`Pipeline.mapFor` passes `is_detection_2d = False`).  Here:

* `pipeline_frameMap2_in_unit`: the same bounds for the frame-level `Map` with `is_detection_2d` FREE (2-D detection:
  no APH list) and the two label lists of `evaluate_frame` free, on the result list of the geometric matcher (which is
  also the matcher of 2-D objects that carry a ROI; the identity-based matchers of ROI-less 2-D objects are C11's).
* `pipeline_bucket_ap_one_of_perfect`, `pipeline_ap_one_of_perfect`: the clause "AP is 1 when every ground truth is
  matched by a correct estimate and no wrong estimate outranks one" for the `Ap` of every label of every `Map` of a
  pipeline frame; the hypotheses "no ground truth used twice", "ground truths of the results are ground truths of the
  frame", "ground truths pairwise different" of `C04.ap_one_of_all_matched` are DISCHARGED by C01's theorems about the
  matcher (`apResults_one_to_one`) and by `GtIdsDistinct`.
-/
namespace PEval.PipelineProps
open PEval PEval.Pipeline

/-- [0,1] for every defined AP / APH / mAP / mAPH of the frame-level `Map` in BOTH dimensions (`is2d` free) and with the
critical filter's and the metrics' label lists free, on the geometric matcher's result list -/
theorem pipeline_frameMap2_in_unit (f : Frame) (rs : List Matching.Res)
    (hr : Matching.getObjectResults f.cfg f.scene = .ok rs) (hid : GtIdsDistinct f)
    (hw : ∀ i j, 0 ≤ f.hw i j ∧ f.hw i j ≤ 1) (m : AP.Mode) (is2d : Bool) (divT mapT : List AP.Label)
    (thrs : List Rat) (mo : AP.MapOut)
    (h : frameMap2 m is2d divT mapT thrs (apResults f m rs) ((apGts f).map (·.label)) = .ok mo) :
    (∀ a ∈ mo.aps, ∀ x, a.ap = some x → 0 ≤ x ∧ x ≤ 1) ∧
    (∀ a ∈ mo.aphs, ∀ x, a.ap = some x → 0 ≤ x ∧ x ≤ 1) ∧
    (∀ x, mo.map = some x → 0 ≤ x ∧ x ≤ 1) ∧ (∀ x, mo.maph = some x → 0 ≤ x ∧ x ≤ 1) := by
  obtain ⟨hnd, hsub⟩ := apResults_one_to_one hr hid m
  exact frameMap2_in_unit hnd hsub (apResults_hw hw m rs) h

/-- the 2-D `Map` has no APH entries and an undefined mAPH -/
theorem map2d_has_no_aph (m : AP.Mode) (T : List AP.Label) (th : List Rat)
    (buckets : List (AP.Label × List (List AP.Res))) (nums : List (AP.Label × Nat)) (o : AP.MapOut)
    (h : AP.mapOf m true T th buckets nums = .ok o) : o.aphs = [] ∧ o.maph = none := by
  obtain ⟨hloop, _, hmaph⟩ := AP.mapOf_ok h
  have key : ∀ (zs : List (AP.Label × Rat)) (q : List AP.ApOut × List AP.ApOut),
      AP.mapLoop m true buckets nums zs = .ok q → q.2 = [] := by
    intro zs
    induction zs with
    | nil => intro q hq; simp only [AP.mapLoop, Except.ok.injEq] at hq; subst hq; rfl
    | cons z t ih =>
      intro q hq
      obtain ⟨l, thr⟩ := z
      unfold AP.mapLoop at hq
      cases hb : AP.lookupKey l buckets with
      | error e => simp [hb] at hq
      | ok rss =>
        cases hn : AP.lookupKey l nums with
        | error e => simp [hb, hn] at hq
        | ok G =>
          simp only [hb, hn] at hq
          cases ha : AP.apOfNested .ap m [l] [thr] G rss with
          | error e => simp [ha] at hq
          | ok a1 =>
            simp only [ha, if_true] at hq
            cases hrr : AP.mapLoop m true buckets nums t with
            | error e => simp [hrr] at hq
            | ok q1 =>
              obtain ⟨q11, q12⟩ := q1
              simp only [hrr, Except.ok.injEq] at hq
              subst hq
              exact ih (q11, q12) hrr
  have h2 : o.aphs = [] := key _ _ hloop
  refine ⟨h2, ?_⟩
  rw [hmaph, h2]
  rfl

theorem apGts_nodup {f : Frame} (hid : GtIdsDistinct f) : (apGts f).Nodup := by
  unfold apGts
  refine nodup_map_on ?_ ((List.nodup_range).filter _)
  intro x hx y hy hxy
  have hx' := (List.mem_filter.1 hx).1
  have hy' := (List.mem_filter.1 hy).1
  exact inj_on_of_nodup_map hid x hx' y hy' (congrArg AP.Gt.id hxy)

/-- The "AP = 1" clause for the `Ap` of label `L` on any sub-list `v` of the frame's AP result list (in particular the
`divide_objects` bucket of `L`): the frame has a critical ground truth of label `L`, each of them is the ground truth of
a result of `v` counted correct at `t`, and no result of `v` that is not counted correct outranks a correct one.  The
one-to-one hypotheses are discharged from the matcher. -/
theorem pipeline_bucket_ap_one_of_perfect (f : Frame) (rs : List Matching.Res)
    (hr : Matching.getObjectResults f.cfg f.scene = .ok rs) (hid : GtIdsDistinct f) (m : AP.Mode) (L : AP.Label)
    (t : Rat) (v : List AP.Res) (hv : v.Sublist (apResults f m rs))
    (hex : ∃ g ∈ apGts f, g.label = L)
    (hall : ∀ g ∈ apGts f, g.label = L → ∃ r ∈ v, r.gt = some g ∧ AP.isCorrectAt m [L] [t] r = true)
    (hrank : v.Pairwise (AP.RankOK AP.Res.conf (AP.isCorrectAt m [L] [t]))) {a : AP.ApOut}
    (h : AP.apOf .ap m [L] [t] ((apGts f).filter (fun g => g.label == L)).length v = .ok a) : a.ap = some 1 := by
  obtain ⟨hnd, hsub⟩ := apResults_one_to_one hr hid m
  exact C04.ap_one_of_all_matched m L t v (apGts f) (apGts_nodup hid) (hnd.sublist (hv.filterMap _))
    (fun g hg => hsub g ((hv.filterMap _).subset hg)) hex hall hrank h

/-- … and for the `Map`s the pipeline actually builds: every element of `Map.aps` of every `Map` of the frame is the `Ap`
of some (label, threshold) pair on that label's `divide_objects` bucket, and it is 1 under the clause's hypotheses on
that bucket. -/
theorem pipeline_ap_one_of_perfect (f : Frame) (o : Out) (h : detectFrame f = .ok o) (hid : GtIdsDistinct f) :
    ∀ mo ∈ o.maps, ∃ mc ∈ f.maps, ∀ a ∈ mo.aps, ∃ l t v,
      (l, t) ∈ f.mapTargets.zip mc.thrs ∧
      (l, v) ∈ AP.divideObjects (some f.critTargets) (apResults f mc.mode o.matched) ∧
      ((∃ g ∈ apGts f, g.label = l) →
       (∀ g ∈ apGts f, g.label = l → ∃ r ∈ v, r.gt = some g ∧ AP.isCorrectAt mc.mode [l] [t] r = true) →
       v.Pairwise (AP.RankOK AP.Res.conf (AP.isCorrectAt mc.mode [l] [t])) → a.ap = some 1) := by
  obtain ⟨rs, hr, hm, _, hmaps⟩ := detectFrame_ok h
  intro mo hmo
  obtain ⟨mc, hmc, hmf⟩ := mapsFor_mem hmaps mo hmo
  refine ⟨mc, hmc, ?_⟩
  intro a ha
  unfold mapFor frameMap2 at hmf
  obtain ⟨hloop, _, _⟩ := AP.mapOf_ok hmf
  obtain ⟨l, t, rss, G, hz, hb, hn, hap⟩ := (AP.mapLoop_mem hloop).1 a ha
  obtain ⟨v, hv, rfl⟩ := frame_bucket hb
  have hG := AP.lookup_divideObjectsToNum hn
  rw [filter_label_length] at hG
  subst hG
  have hap' : AP.apOf .ap mc.mode [l] [t] ((apGts f).filter (fun g => g.label == l)).length v = .ok a := by
    simpa [AP.apOfNested] using hap
  rw [hm]
  refine ⟨l, t, v, hz, hv, ?_⟩
  intro hex hall hrank
  exact pipeline_bucket_ap_one_of_perfect f rs hr hid mc.mode l t v (AP.divideObjects_sublist _ _ hv) hex hall
    hrank hap'

/-! ## non-vacuity: a frame with two cars, both found, and a phantom of lower confidence -/

def exPerfect : Frame :=
  { cfg := { policy := .default, mode := .centerDistance, targets := some ["car"],
             thresholds := some [3], fpValidation := false },
    scene := { ests := [⟨"car", "base_link"⟩, ⟨"car", "base_link"⟩, ⟨"car", "base_link"⟩],
               gts := [⟨"car", "base_link"⟩, ⟨"car", "base_link"⟩],
               val := fun i j => if i == j then 1 / 2 else 5 },
    est := fun i => ⟨1 + i, 2, 9 - (i : Rat), true⟩,
    gt := fun j => ⟨101 + j, 2, true, 101 + j⟩,
    pfTargets := [2], pfThrs := some [2],
    pfScore := fun i j => some (if i == j then 1 / 2 else 5),
    apScore := fun _ i j => some (if i == j then 1 / 2 else 5),
    hw := fun _ _ => 1,
    critTargets := [2], mapTargets := [2],
    maps := [⟨.centerDistance, [1]⟩] }

example : GtIdsDistinct exPerfect := by decide +kernel

/-- estimates 1, 2 matched to the two cars, estimate 3 unmatched with the lowest confidence; AP(car) = mAP = 1 -/
example :
    (detectFrame exPerfect).toOption.map (fun o => (o.matched, o.maps.map (fun mo => (mo.aps.map (·.ap), mo.map))))
    = some ([(0, some 0), (1, some 1), (2, none)], [([some 1], some 1)]) := by
  decide +kernel

/-- the hypotheses of `pipeline_bucket_ap_one_of_perfect` hold on the car bucket (= the whole result list) -/
example :
    let v := apResults exPerfect .centerDistance [(0, some 0), (1, some 1), (2, none)]
    (∃ g ∈ apGts exPerfect, g.label = 2)
      ∧ (∀ g ∈ apGts exPerfect, g.label = 2 →
          ∃ r ∈ v, r.gt = some g ∧ AP.isCorrectAt .centerDistance [2] [1] r = true)
      ∧ v.Pairwise (AP.RankOK AP.Res.conf (AP.isCorrectAt .centerDistance [2] [1])) := by
  decide +kernel

end PEval.PipelineProps
