import PEval.Lemmas.PipelineMap
import PEval.Properties.C03Core
/-!
# Composition: the frame evaluation as one pipeline (C01 ⇒ hypotheses of C03 and C04)

`Pipeline.detectFrame` (`PEval/Model/Pipeline.lean`) = matcher (`Matching.getObjectResults`) →
critical filter + pass/fail (`PassFail.evaluateFrame`) → per-label metrics (`AP.mapOf` over
`divide_objects` buckets), mirroring `PerceptionEvaluationManager.add_frame_result` →
`PerceptionFrameResult.evaluate_frame`.

C03's conservation theorems assume `MatcherWF` (the ground truths of the object results are distinct
members of the ground-truth list); C04's bounds assume that each ground truth is the ground truth of
at most one result.  Both are what C01 proves of the matcher's output.  The theorems below discharge
them: for EVERY configuration (policy, mode, thresholds, task), every scene of any size, every scoring
function, every critical region, every pass/fail and metric threshold.  The only hypotheses left are
about the input data: the ground truths handed to the matcher are a *set* (pairwise different
objects, pairwise different under `DynamicObject.__eq__` — the quantifier's word "set", C03), and the
heading weights lie in [0,1] (C09's subject).
-/
namespace PEval.PipelineProps
open PEval PEval.Pipeline

/-! ## (i) the matcher's output is well-formed input of the pass/fail accounting -/

/-- For every matcher configuration and scene: the translated output of `get_object_results`
satisfies C03's well-formedness predicate `MatcherWF`, provided the ground truths are a set. -/
theorem matcher_output_wf (f : Frame) (rs : List Matching.Res)
    (h : Matching.getObjectResults f.cfg f.scene = .ok rs)
    (hset : PassFail.GtsDistinct (pfGts f)) : PassFail.MatcherWF (pfFrame f rs) :=
  matcherWF_of_matched h hset

/-- the pass/fail stage and the metrics stage see the same filtered lists: the stored
`object_results` are the translated surviving matcher results, the stored ground truths the
translated critical ground truths -/
theorem pipeline_same_lists (f : Frame) (o : Out) (h : detectFrame f = .ok o) :
    o.pf.results = (critResults f o.matched).map (toPFRes f) ∧
    o.pf.gts = (critGtIdx f).map (toGT f) ∧
    ∀ m, (apResults f m o.matched).map (·.id) = o.pf.results.map (·.est) := by
  obtain ⟨rs, _, hm, hpf, _⟩ := detectFrame_ok h
  subst hm
  rw [hpf]
  refine ⟨criticalResults_map f _, criticalGts_pfGts f, ?_⟩
  intro m
  show _ = (PassFail.criticalResults ((o.matched).map (toPFRes f))).map (·.est)
  rw [criticalResults_map]
  unfold apResults
  rw [List.map_map, List.map_map]
  apply List.map_congr_left
  intro r _
  exact (toPFRes_est f r).symm

/-- the two later stages agree on label compatibility: for every pair the matcher made,
`is_label_correct` as the pass/fail accounting reads it (computed on the matcher's objects) equals
`is_label_correct` as the metrics compute it from their label numbers — provided the harness-supplied
label encodings are coherent (`labelsCoherent`, a Boolean the driver evaluates on every frame) -/
theorem pipeline_label_ok_agrees (f : Frame) (rs : List Matching.Res)
    (h : Matching.getObjectResults f.cfg f.scene = .ok rs) (hc : labelsCoherent f = true)
    (m : AP.Mode) (i j : Nat) (hp : (i, some j) ∈ rs) :
    (toPFRes f (i, some j)).labelOk = AP.isLabelCorrect (toAPRes f m (i, some j)) := by
  have hi := (C01.results_est_nodup h).2 _ hp
  have hj := (C01.results_gt_nodup h).2 j (List.mem_filterMap.2 ⟨(i, some j), hp, rfl⟩)
  exact labelOk_eq_isMatchable hc hi hj

/-! ## (ii) conservation with no well-formedness hypothesis -/

/-- Every frame the pipeline produces conserves objects: ordinary critical ground truths = TP + FN,
FP-labelled critical ground truths = TN + matched FP, surviving results = TP + FP. -/
theorem pipeline_conservation (f : Frame) (o : Out) (h : detectFrame f = .ok o)
    (hset : PassFail.GtsDistinct (pfGts f)) :
    (o.pf.gts.filter (fun g => !g.isFP)).length = o.pf.tp.length + o.pf.fn.length ∧
    (o.pf.gts.filter (fun g => g.isFP)).length
        = o.pf.tn.length + (PassFail.matchedFP o.pf.fp).length ∧
    o.pf.tp.length + o.pf.fp.length = o.pf.results.length := by
  obtain ⟨rs, hr, _, hpf, _⟩ := detectFrame_ok h
  rw [hpf]
  exact C03.frame_conservation _ (matcher_output_wf f rs hr hset)

/-- exactly-once accounting: the ground truths of the TP results, the FN list, the TN list and the
ground truths of the matched-FP results are together a permutation of the critical ground truths -/
theorem pipeline_accounting_perm (f : Frame) (o : Out) (h : detectFrame f = .ok o)
    (hset : PassFail.GtsDistinct (pfGts f)) :
    (PassFail.gtsOf o.pf.tp ++ (o.pf.fn ++ (o.pf.tn ++
      PassFail.gtsOf (PassFail.matchedFP o.pf.fp)))).Perm o.pf.gts := by
  obtain ⟨rs, hr, _, hpf, _⟩ := detectFrame_ok h
  rw [hpf]
  exact C03.gt_accounting_perm _ _ (C03.pipeline_wf _ (matcher_output_wf f rs hr hset))

/-- success + fail counters of a pipeline frame -/
theorem pipeline_num_total (f : Frame) (o : Out) (h : detectFrame f = .ok o)
    (hset : PassFail.GtsDistinct (pfGts f)) :
    PassFail.numSuccess o.pf + PassFail.numFail o.pf + o.pf.tp.length
        + (PassFail.matchedFP o.pf.fp).length
      = o.pf.results.length + o.pf.gts.length := by
  obtain ⟨rs, hr, _, hpf, _⟩ := detectFrame_ok h
  rw [hpf]
  exact C03.num_total _ (matcher_output_wf f rs hr hset)

/-- each surviving estimate is in exactly one of TP / FP (estimates are pairwise different objects) -/
theorem pipeline_tp_fp_exactly_one (f : Frame) (o : Out) (h : detectFrame f = .ok o)
    (hid : ((List.range f.scene.ests.length).map (fun i => (f.est i).id)).Nodup) :
    ∀ r ∈ o.pf.results,
      (r.est ∈ o.pf.tp.map (·.est) ∧ r.est ∉ o.pf.fp.map (·.est)) ∨
      (r.est ∉ o.pf.tp.map (·.est) ∧ r.est ∈ o.pf.fp.map (·.est)) := by
  obtain ⟨rs, hr, _, hpf, _⟩ := detectFrame_ok h
  rw [hpf]
  have hn := ests_nodup_of_matched hr hid
  have hsub : ((PassFail.criticalResults (rs.map (toPFRes f))).map (·.est)).Sublist
      ((rs.map (toPFRes f)).map (·.est)) := (List.filter_sublist).map _
  exact C03.tp_fp_exactly_one _ (hn.sublist hsub)

/-- sequences of frames (`add_frame_result` evaluates every frame on its own) -/
theorem pipeline_history_conservation (fs : List Frame)
    (hset : ∀ f ∈ fs, PassFail.GtsDistinct (pfGts f)) :
    ∀ f ∈ fs, ∀ o, detectFrame f = .ok o →
      (o.pf.gts.filter (fun g => !g.isFP)).length = o.pf.tp.length + o.pf.fn.length ∧
      (o.pf.gts.filter (fun g => g.isFP)).length
          = o.pf.tn.length + (PassFail.matchedFP o.pf.fp).length ∧
      o.pf.tp.length + o.pf.fp.length = o.pf.results.length :=
  fun f hf o h => pipeline_conservation f o h (hset f hf)

/-! ## (iii) every AP / APH / mAP / mAPH of a pipeline frame lies in [0,1] -/

/-- For every `Map` of the frame (any mode, any threshold list, any target labels): each defined
per-label AP and APH and the mAP / mAPH lie in [0,1].  Hypotheses: ground-truth ids pairwise
different (implied by `GtsDistinct`), heading weights in [0,1]. -/
theorem pipeline_ap_in_unit (f : Frame) (o : Out) (h : detectFrame f = .ok o)
    (hid : GtIdsDistinct f) (hw : ∀ i j, 0 ≤ f.hw i j ∧ f.hw i j ≤ 1) :
    ∀ mo ∈ o.maps,
      (∀ a ∈ mo.aps, ∀ x, a.ap = some x → 0 ≤ x ∧ x ≤ 1) ∧
      (∀ a ∈ mo.aphs, ∀ x, a.ap = some x → 0 ≤ x ∧ x ≤ 1) ∧
      (∀ x, mo.map = some x → 0 ≤ x ∧ x ≤ 1) ∧ (∀ x, mo.maph = some x → 0 ≤ x ∧ x ≤ 1) := by
  obtain ⟨rs, hr, _, _, hmaps⟩ := detectFrame_ok h
  intro mo hmo
  obtain ⟨mc, _, hmc⟩ := mapsFor_mem hmaps mo hmo
  obtain ⟨hnd, hsub⟩ := apResults_one_to_one hr hid mc.mode
  exact frameMap2_in_unit hnd hsub (apResults_hw hw mc.mode rs) hmc

/-- the same for the frame-level `Map` as the AP model states it (`AP.frameMap`: one target-label
list), on the pipeline's result list: every defined AP / APH / mAP / mAPH lies in [0,1] -/
theorem pipeline_frameMap_in_unit (f : Frame) (rs : List Matching.Res)
    (hr : Matching.getObjectResults f.cfg f.scene = .ok rs) (hid : GtIdsDistinct f)
    (hw : ∀ i j, 0 ≤ f.hw i j ∧ f.hw i j ≤ 1) (m : AP.Mode) (is2d : Bool) (T : List AP.Label)
    (thrs : List Rat) (mo : AP.MapOut)
    (h : AP.frameMap m is2d T thrs (apResults f m rs) ((apGts f).map (·.label)) = .ok mo) :
    (∀ a ∈ mo.aps, ∀ x, a.ap = some x → 0 ≤ x ∧ x ≤ 1) ∧
    (∀ a ∈ mo.aphs, ∀ x, a.ap = some x → 0 ≤ x ∧ x ≤ 1) ∧
    (∀ x, mo.map = some x → 0 ≤ x ∧ x ≤ 1) ∧ (∀ x, mo.maph = some x → 0 ≤ x ∧ x ≤ 1) := by
  obtain ⟨hnd, hsub⟩ := apResults_one_to_one hr hid m
  rw [← frameMap2_same] at h
  exact frameMap2_in_unit hnd hsub (apResults_hw hw m rs) h

/-- `GtsDistinct` (hypothesis of the conservation part) implies the id hypothesis of the AP part -/
theorem gt_ids_distinct_of_set (f : Frame) (hset : PassFail.GtsDistinct (pfGts f)) :
    GtIdsDistinct f := gtIdsDistinct_of_gtsDistinct hset

/-! ## (iv) APH ≤ AP on every pipeline frame -/

/-- In every `Map` of the frame the APHs and APs correspond pairwise (same label, same threshold),
APH is defined exactly when AP is and never exceeds it; likewise mAPH ≤ mAP. -/
theorem pipeline_aph_le_ap (f : Frame) (o : Out) (h : detectFrame f = .ok o)
    (hw : ∀ i j, 0 ≤ f.hw i j ∧ f.hw i j ≤ 1) :
    ∀ mo ∈ o.maps,
      List.Forall₂ (fun hh a => AP.optLe hh.ap a.ap) mo.aphs mo.aps ∧ AP.optLe mo.maph mo.map := by
  obtain ⟨rs, _, _, _, hmaps⟩ := detectFrame_ok h
  intro mo hmo
  obtain ⟨mc, _, hmc⟩ := mapsFor_mem hmaps mo hmo
  exact frameMap2_aph_le_ap (apResults_hw hw mc.mode rs) hmc

/-! ## non-vacuity: a concrete frame

Three estimates (car, unknown, car) and three ground truths (car; FP-labelled; pedestrian outside the
critical region), center-distance matcher with radius 3, pass/fail threshold 2, one `Map` (center
distance, thresholds 1 / 1 for car / pedestrian).  Estimate 3 is farther than the radius from every
ground truth. -/

section Example

def exFrame : Frame :=
  { cfg := { policy := .default, mode := .centerDistance, targets := some ["car", "pedestrian"],
             thresholds := some [3, 3], fpValidation := false },
    scene := { ests := [⟨"car", "base_link"⟩, ⟨"unknown", "base_link"⟩, ⟨"car", "base_link"⟩],
               gts := [⟨"car", "base_link"⟩, ⟨"false_positive", "base_link"⟩, ⟨"pedestrian", "base_link"⟩],
               val := fun i j => if i == j && i != 2 then 1 / 2 else 5 },
    est := fun i => ⟨1 + i, if i == 1 then 0 else 2, 1 / 2 + (i : Rat) / 8, true⟩,
    gt := fun j => ⟨101 + j, if j == 0 then 2 else if j == 1 then 1 else 4, j != 2, 101 + j⟩,
    pfTargets := [2, 4], pfThrs := some [2, 2],
    pfScore := fun i j => some (if i == j then 1 / 2 else 5),
    apScore := fun _ i j => some (if i == j then 1 / 2 else 5),
    hw := fun _ _ => 1 / 2,
    critTargets := [2, 4], mapTargets := [2, 4],
    maps := [⟨.centerDistance, [1, 1]⟩] }

example : PassFail.GtsDistinct (pfGts exFrame) := by decide +kernel
example : GtIdsDistinct exFrame := by decide +kernel
example : labelsCoherent exFrame = true := by decide +kernel
example : ∀ i j, 0 ≤ exFrame.hw i j ∧ exFrame.hw i j ≤ 1 := by
  intro i j
  show (0 : Rat) ≤ 1 / 2 ∧ (1 / 2 : Rat) ≤ 1
  decide +kernel

/-- the frame evaluates: pairs (0,0) and (1,1), estimate 2 unmatched; TP = {estimate 1},
FP = {2 (re-wrapped: its FP-labelled ground truth is TN), 3}, TN = {102}, FN = {} … -/
example : (detectFrame exFrame).toOption.map (fun o =>
    (o.matched, o.pf.tp.map (·.est), o.pf.fp.map (·.est), o.pf.tn.map (·.id), o.pf.fn.map (·.id)))
    = some ([(0, some 0), (1, some 1), (2, none)], [1], [2, 3], [102], []) := by
  decide +kernel

/-- … car bucket = [estimate 3 (conf 3/4, no ground truth: FP), estimate 1 (conf 1/2, TP, heading weight 1/2)]:
AP(car) = 1/2, APH(car) = 1/8; no pedestrian result (undefined); mAP = 1/2, mAPH = 1/8 -/
example : (detectFrame exFrame).toOption.map (fun o =>
    o.maps.map (fun mo => (mo.aps.map (·.ap), mo.aphs.map (·.ap), mo.map, mo.maph)))
    = some [([some (1 / 2), none], [some (1 / 8), none], some (1 / 2), some (1 / 8))] := by
  decide +kernel

end Example

end PEval.PipelineProps

/-! ## (v) TP soundness of the composed pipeline (appended)

`C03.tp_sound` speaks about the fields `labelOk`, `thr`, `score` of a `PassFail.Res`.  Below the same clause is
stated for the pipeline's INPUTS: the estimates and ground truths handed to the matcher, the label policy, the
pass/fail target-label list and threshold list, the plane-distance table.  `TpSound key` is the statement about
the pipeline whose threshold lookup is keyed as `key` says; it is proved for `.gtLabel` (= `detectFrame`, the code)
and refuted for `.estLabel` on a concrete frame. -/

namespace PEval.PipelineProps
open PEval PEval.Pipeline

/-- `k` is `target_labels.index(l)`: the first position at which `l` occurs in the target list -/
def IsIndexOf (l : AP.Label) (ts : List AP.Label) (k : Nat) : Prop :=
  ts[k]? = some l ∧ ∀ k', k' < k → ts[k']? ≠ some l

/-- Every TP of the pipeline is a pair `(i, j)` the matcher made, both objects inside the critical region, the
ground truth not FP-labelled and label-compatible with the estimate under the configured policy, and — whenever a
pass/fail threshold list is configured and the GROUND TRUTH's label occurs in the pass/fail target list — the
plane distance of the pair is strictly below the entry of the threshold list at the index of the ground truth's
label in the target list. -/
def TpSound (key : ThrKey) : Prop :=
  ∀ (f : Frame) (o : Out), detectFrameWith key f = .ok o → ∀ r ∈ o.pf.tp,
    ∃ i j e g, (i, some j) ∈ o.matched ∧ r.est = (f.est i).id ∧ r.gt = some (toGT f j) ∧
      f.scene.ests[i]? = some e ∧ f.scene.gts[j]? = some g ∧
      Matching.isMatchable f.cfg.policy e g = true ∧ (f.gt j).label ≠ AP.fpLabel ∧
      (f.est i).crit = true ∧ (f.gt j).crit = true ∧
      ∀ thrs k, f.pfThrs = some thrs → IsIndexOf (f.gt j).label f.pfTargets k →
        ∃ t v, thrs[k]? = some t ∧ f.pfScore i j = some v ∧ v < t

/-- the code is the `.gtLabel` instance -/
theorem detectFrameWith_gtLabel (f : Frame) : detectFrameWith .gtLabel f = detectFrame f := rfl

theorem detectFrameWith_ok {k : ThrKey} {f : Frame} {o : Out} (h : detectFrameWith k f = .ok o) :
    ∃ rs, Matching.getObjectResults f.cfg f.scene = .ok rs ∧ o.matched = rs ∧
      o.pf = PassFail.evaluateFrame (pfFrameWith k f rs) ∧ pfThrErrorWith k f (critResults f rs) = none := by
  unfold detectFrameWith at h
  cases hr : Matching.getObjectResults f.cfg f.scene with
  | error e => simp [hr] at h
  | ok rs =>
    simp only [hr] at h
    cases hm : mapsFor f rs f.maps with
    | error e => simp [hm] at h
    | ok maps =>
      simp only [hm] at h
      cases ht : pfThrErrorWith k f (critResults f rs) with
      | some e => simp [ht] at h
      | none =>
        simp only [ht, Except.ok.injEq] at h
        subst h
        exact ⟨rs, rfl, rfl, rfl, ht⟩

theorem getLabelThreshold_index {l : AP.Label} {ts : List AP.Label} {thrs : List Rat} {k : Nat}
    (hk : IsIndexOf l ts k) :
    AP.getLabelThreshold l ts (some thrs) =
      (match thrs[k]? with
       | some t => .ok (some t)
       | none => .error "IndexError") := by
  obtain ⟨h1, h2⟩ := hk
  obtain ⟨hlt, hget⟩ := List.getElem?_eq_some_iff.1 h1
  have hidx : ts.findIdx? (· == l) = some k := by
    rw [List.findIdx?_eq_some_iff_getElem]
    refine ⟨hlt, by simp [hget], ?_⟩
    intro j hj hb
    have hjl : j < ts.length := Nat.lt_trans hj hlt
    have : ts[j] = l := by simpa using hb
    exact h2 j hj (by rw [List.getElem?_eq_getElem hjl, this])
  unfold AP.getLabelThreshold
  simp only [hidx]
  cases thrs[k]? <;> rfl

/-- every TP of the pipeline (any keying) is a surviving pair of the matcher, judged TP on its translated
record, and its threshold lookup returned -/
theorem tp_is_matched_pair {k : ThrKey} {f : Frame} {o : Out} (h : detectFrameWith k f = .ok o)
    (r : PassFail.Res) (hr : r ∈ o.pf.tp) :
    ∃ i j, (i, some j) ∈ o.matched ∧ survives f (i, some j) = true ∧ r = toPFResWith k f (i, some j) ∧
      r ∈ (PassFail.getPositive (PassFail.criticalResults (o.matched.map (toPFResWith k f)))).1 ∧
      ∃ t, pfThrOfWith k f i j = .ok t := by
  obtain ⟨rs, _, hm, hpf, herr⟩ := detectFrameWith_ok h
  subst hm
  rw [hpf] at hr
  have hr' : r ∈ (PassFail.getPositive (PassFail.criticalResults (o.matched.map (toPFResWith k f)))).1 := hr
  have hr2 := hr'
  rw [PassFail.getPositive_fst] at hr2
  obtain ⟨hmem, htp⟩ := List.mem_filter.1 hr2
  obtain ⟨hmem2, hsurv⟩ := List.mem_filter.1 hmem
  obtain ⟨m, hmm, rfl⟩ := List.mem_map.1 hmem2
  obtain ⟨i, o2⟩ := m
  cases o2 with
  | none =>
    obtain ⟨g, hg, _⟩ := (PassFail.isTP_iff _).1 htp
    cases hg
  | some j =>
    have hs : survives f (i, some j) = true := hsurv
    refine ⟨i, j, hmm, hs, rfl, hr', ?_⟩
    have hin : (i, some j) ∈ critResults f o.matched := List.mem_filter.2 ⟨hmm, hs⟩
    have := (List.findSome?_eq_none_iff.1 herr) (i, some j) hin
    simp only at this
    cases hx : pfThrOfWith k f i j with
    | ok t => exact ⟨t, rfl⟩
    | error e => rw [hx] at this; cases this

/-- **TP soundness of the composed pipeline**, from (estimates, ground truths, configuration) -/
theorem pipeline_tp_sound : TpSound .gtLabel := by
  intro f o h r hr
  obtain ⟨i, j, hmem, hs, rfl, hpos, t0, ht0⟩ := tp_is_matched_pair h r hr
  obtain ⟨g, hg, hfp, hlab, hthr⟩ := C03.tp_sound _ _ hpos
  have hg' : g = toGT f j := by
    have : (toPFResWith .gtLabel f (i, some j)).gt = some (toGT f j) := rfl
    rw [this] at hg; exact (Option.some.inj hg).symm
  subst hg'
  have hlab' : labelOk f i j = true := hlab
  unfold labelOk at hlab'
  cases he : f.scene.ests[i]? with
  | none => rw [he] at hlab'; cases hlab'
  | some e =>
    cases hgg : f.scene.gts[j]? with
    | none => rw [he, hgg] at hlab'; cases hlab'
    | some g =>
      rw [he, hgg] at hlab'
      have hsurv : (f.est i).crit = true ∧ (f.gt j).crit = true := by
        have : ((f.est i).crit && (f.gt j).crit) = true := hs
        exact Bool.and_eq_true_iff.1 this
      have hnfp : (f.gt j).label ≠ AP.fpLabel := by
        have : ((f.gt j).label == AP.fpLabel) = false := hfp
        simpa using this
      refine ⟨i, j, e, g, hmem, rfl, rfl, he, hgg, hlab', hnfp, hsurv.1, hsurv.2, ?_⟩
      intro thrs k hthrs hk
      have hlook : pfThrOfWith .gtLabel f i j = (match thrs[k]? with
          | some t => .ok (some t)
          | none => .error "IndexError") := by
        show AP.getLabelThreshold (f.gt j).label f.pfTargets f.pfThrs = _
        rw [hthrs]; exact getLabelThreshold_index hk
      cases htk : thrs[k]? with
      | none => rw [htk] at hlook; rw [hlook] at ht0; cases ht0
      | some t =>
        rw [htk] at hlook
        have hrthr : (toPFResWith .gtLabel f (i, some j)).thr = some t := by
          show pfThrWith .gtLabel f i j = some t
          unfold pfThrWith; rw [hlook]
        rcases hthr with hnone | ⟨t', v, ht', hv, hlt⟩
        · rw [hrthr] at hnone; cases hnone
        · rw [hrthr] at ht'; cases ht'
          exact ⟨t, v, rfl, hv, hlt⟩

/-- the same statement for `detectFrame` itself -/
theorem pipeline_tp_sound_detectFrame (f : Frame) (o : Out) (h : detectFrame f = .ok o) :
    ∀ r ∈ o.pf.tp,
    ∃ i j e g, (i, some j) ∈ o.matched ∧ r.est = (f.est i).id ∧ r.gt = some (toGT f j) ∧
      f.scene.ests[i]? = some e ∧ f.scene.gts[j]? = some g ∧
      Matching.isMatchable f.cfg.policy e g = true ∧ (f.gt j).label ≠ AP.fpLabel ∧
      (f.est i).crit = true ∧ (f.gt j).crit = true ∧
      ∀ thrs k, f.pfThrs = some thrs → IsIndexOf (f.gt j).label f.pfTargets k →
        ∃ t v, thrs[k]? = some t ∧ f.pfScore i j = some v ∧ v < t :=
  pipeline_tp_sound f o h

/-! ### non-vacuity, and the variant keyed on the estimate's label

Policy ALLOW_ANY; one estimate `car`, one ground truth `pedestrian`, centre distance 1/2 (matched), plane
distance 1; pass/fail targets [car, pedestrian] with thresholds [2, 1/2]. Keyed on the ground truth's label the
pair fails (1 < 1/2 is false): no TP. Keyed on the estimate's label it passes (1 < 2): a TP whose score does not
beat the threshold of its ground truth's label. -/
section TpExample

def exKey : Frame :=
  { cfg := { policy := .allowAny, mode := .centerDistance, targets := some ["car", "pedestrian"],
             thresholds := some [3, 3], fpValidation := false },
    scene := { ests := [⟨"car", "base_link"⟩], gts := [⟨"pedestrian", "base_link"⟩], val := fun _ _ => 1 / 2 },
    est := fun _ => ⟨1, 2, 1 / 2, true⟩,
    gt := fun _ => ⟨101, 4, true, 101⟩,
    pfTargets := [2, 4], pfThrs := some [2, 1 / 2],
    pfScore := fun _ _ => some 1,
    apScore := fun _ _ _ => some (1 / 2),
    hw := fun _ _ => 1,
    critTargets := [2, 4], mapTargets := [2, 4], maps := [] }

/-- the code: no TP, the estimate is an FP and the ground truth an FN -/
example : (detectFrame exKey).toOption.map (fun o => (o.matched, o.pf.tp.map (·.est), o.pf.fp.map (·.est), o.pf.fn.map (·.id)))
    = some ([(0, some 0)], [], [1], [101]) := by decide +kernel

/-- the hypotheses of `pipeline_tp_sound` are met with a TP present (the frame of section (ii)): estimate 1 on
ground truth 101, score 1/2 < 2 = the `car` entry -/
example : (detectFrame exFrame).toOption.map (fun o => o.pf.tp.map (fun r => (r.est, r.gt.map (·.id), r.thr, r.score)))
    = some [(1, some 101, some 2, some (1 / 2))] := by decide +kernel
example : IsIndexOf (exFrame.gt 0).label exFrame.pfTargets 0 := ⟨rfl, fun _ hk' => absurd hk' (Nat.not_lt_zero _)⟩

/-- **keyed on the estimate's label the statement fails** -/
theorem estLabel_not_tp_sound : ¬ TpSound .estLabel := by
  intro h
  have hok : (detectFrameWith .estLabel exKey).toOption.map (fun o => o.pf.tp.length) = some 1 := by decide +kernel
  cases hd : detectFrameWith .estLabel exKey with
  | error e => rw [hd] at hok; cases hok
  | ok o =>
    rw [hd] at hok
    have hlen : o.pf.tp.length = 1 := by simpa [Except.toOption] using hok
    cases htp : o.pf.tp with
    | nil => rw [htp] at hlen; cases hlen
    | cons r rest =>
      obtain ⟨i, j, e, g, _, _, _, _, _, _, _, _, _, hthr⟩ := h exKey o hd r (by rw [htp]; exact List.mem_cons_self)
      have hidx : IsIndexOf (exKey.gt j).label exKey.pfTargets 1 := by
        refine ⟨rfl, ?_⟩
        intro k' hk'
        have : k' = 0 := by omega
        subst this
        show ([2, 4] : List AP.Label)[0]? ≠ some 4
        decide
      obtain ⟨t, v, ht, hv, hlt⟩ := hthr [2, 1 / 2] 1 rfl hidx
      have ht' : t = 1 / 2 := by
        have : ([2, 1 / 2] : List Rat)[1]? = some (1 / 2) := rfl
        rw [this] at ht; exact (Option.some.inj ht).symm
      have hv' : v = 1 := by
        have : exKey.pfScore i j = some 1 := rfl
        rw [this] at hv; exact (Option.some.inj hv).symm
      subst ht' hv'
      revert hlt
      norm_num

end TpExample

/-! ### the label choice of `get_negative_objects`

Its first loop looks the threshold up for EVERY result: under the ground truth's label if there is one, else under
the estimate's (`toPFResNeg`).  For a paired result that is the record `get_positive_objects` uses; for an unpaired
one the threshold is looked up but never read (`get_status` answers `(FP, None)` before looking at it).  Hence the
TN / FN lists do not depend on the estimate-label lookups, and the single record `toPFRes` (threshold keyed on the
ground truth's label, none for unpaired results) is a faithful input of both functions. -/

theorem toPFResNeg_paired (f : Frame) (i j : Nat) : toPFResNeg f (i, some j) = toPFRes f (i, some j) := rfl

theorem toPFResNeg_status (f : Frame) (r : Matching.Res) :
    (toPFResNeg f r).gt = (toPFRes f r).gt ∧ PassFail.getStatus (toPFResNeg f r) = PassFail.getStatus (toPFRes f r) := by
  obtain ⟨i, o⟩ := r
  cases o with
  | some j => exact ⟨rfl, rfl⟩
  | none => exact ⟨rfl, rfl⟩

theorem negative_label_choice (f : Frame) (gts : List PassFail.GT) (rs : List Matching.Res) :
    PassFail.getNegative gts (rs.map (toPFResNeg f)) = PassFail.getNegative gts (rs.map (toPFRes f)) := by
  have h : PassFail.negFromResults (rs.map (toPFResNeg f)) = PassFail.negFromResults (rs.map (toPFRes f)) := by
    induction rs with
    | nil => rfl
    | cons r rs ih =>
      obtain ⟨hg, hs⟩ := toPFResNeg_status f r
      simp only [List.map_cons, PassFail.negFromResults, hg, hs, ih]
  unfold PassFail.getNegative
  rw [h]

/-- the estimate's label IS read by the real lookup of an unpaired result (it can even raise): the model keeps the
lookup, and this is the record with the looked-up threshold — different from `toPFRes`, same status -/
example : (toPFResNeg exFrame (2, none)).thr = some 2 ∧ (toPFRes exFrame (2, none)).thr = none := by decide +kernel

end PEval.PipelineProps
