import PEval.Lemmas.PipelineMap
import PEval.Properties.C03Core
/-!
# Composition: the frame evaluation as one pipeline (C01 ⇒ hypotheses of C03 and C04)

`Pipeline.detectFrame` (`PEval/Model/Pipeline.lean`) = matcher (`Matching.getObjectResults`) →
critical filter + pass/fail (`PassFail.evaluateFrame`) → per-label metrics (`AP.mapOf` over
`divide_objects` buckets), mirroring `PerceptionEvaluationManager.add_frame_result` →
`PerceptionFrameResult.evaluate_frame`.

C03's conservation theorems assume `MatcherWF` (the ground truths of the object results are distinct
members of the ground-truth list); C04's bounds assume that each ground truth is the ground truth of
at most one result.  Both are what C01 proves of the matcher's output.  The theorems below discharge
them: for EVERY configuration (policy, mode, thresholds, task), every scene of any size, every scoring
function, every critical region, every pass/fail and metric threshold.  The only hypotheses left are
about the input data: the ground truths handed to the matcher are a *set* (pairwise different
objects, pairwise different under `DynamicObject.__eq__` — the quantifier's word "set", C03), and the
heading weights lie in [0,1] (C09's subject).
-/
namespace PEval.PipelineProps
open PEval PEval.Pipeline

/-! ## (i) the matcher's output is well-formed input of the pass/fail accounting -/

/-- For every matcher configuration and scene: the translated output of `get_object_results`
satisfies C03's well-formedness predicate `MatcherWF`, provided the ground truths are a set. -/
theorem matcher_output_wf (f : Frame) (rs : List Matching.Res)
    (h : Matching.getObjectResults f.cfg f.scene = .ok rs)
    (hset : PassFail.GtsDistinct (pfGts f)) : PassFail.MatcherWF (pfFrame f rs) :=
  matcherWF_of_matched h hset

/-- the pass/fail stage and the metrics stage see the same filtered lists: the stored
`object_results` are the translated surviving matcher results, the stored ground truths the
translated critical ground truths -/
theorem pipeline_same_lists (f : Frame) (o : Out) (h : detectFrame f = .ok o) :
    o.pf.results = (critResults f o.matched).map (toPFRes f) ∧
    o.pf.gts = (critGtIdx f).map (toGT f) ∧
    ∀ m, (apResults f m o.matched).map (·.id) = o.pf.results.map (·.est) := by
  obtain ⟨rs, _, hm, hpf, _⟩ := detectFrame_ok h
  subst hm
  rw [hpf]
  refine ⟨criticalResults_map f _, criticalGts_pfGts f, ?_⟩
  intro m
  show _ = (PassFail.criticalResults ((o.matched).map (toPFRes f))).map (·.est)
  rw [criticalResults_map]
  unfold apResults
  rw [List.map_map, List.map_map]
  apply List.map_congr_left
  intro r _
  exact (toPFRes_est f r).symm

/-- the two later stages agree on label compatibility: for every pair the matcher made,
`is_label_correct` as the pass/fail accounting reads it (computed on the matcher's objects) equals
`is_label_correct` as the metrics compute it from their label numbers — provided the harness-supplied
label encodings are coherent (`labelsCoherent`, a Boolean the driver evaluates on every frame) -/
theorem pipeline_label_ok_agrees (f : Frame) (rs : List Matching.Res)
    (h : Matching.getObjectResults f.cfg f.scene = .ok rs) (hc : labelsCoherent f = true)
    (m : AP.Mode) (i j : Nat) (hp : (i, some j) ∈ rs) :
    (toPFRes f (i, some j)).labelOk = AP.isLabelCorrect (toAPRes f m (i, some j)) := by
  have hi := (C01.results_est_nodup h).2 _ hp
  have hj := (C01.results_gt_nodup h).2 j (List.mem_filterMap.2 ⟨(i, some j), hp, rfl⟩)
  exact labelOk_eq_isMatchable hc hi hj

/-! ## (ii) conservation with no well-formedness hypothesis -/

/-- Every frame the pipeline produces conserves objects: ordinary critical ground truths = TP + FN,
FP-labelled critical ground truths = TN + matched FP, surviving results = TP + FP. -/
theorem pipeline_conservation (f : Frame) (o : Out) (h : detectFrame f = .ok o)
    (hset : PassFail.GtsDistinct (pfGts f)) :
    (o.pf.gts.filter (fun g => !g.isFP)).length = o.pf.tp.length + o.pf.fn.length ∧
    (o.pf.gts.filter (fun g => g.isFP)).length
        = o.pf.tn.length + (PassFail.matchedFP o.pf.fp).length ∧
    o.pf.tp.length + o.pf.fp.length = o.pf.results.length := by
  obtain ⟨rs, hr, _, hpf, _⟩ := detectFrame_ok h
  rw [hpf]
  exact C03.frame_conservation _ (matcher_output_wf f rs hr hset)

/-- exactly-once accounting: the ground truths of the TP results, the FN list, the TN list and the
ground truths of the matched-FP results are together a permutation of the critical ground truths -/
theorem pipeline_accounting_perm (f : Frame) (o : Out) (h : detectFrame f = .ok o)
    (hset : PassFail.GtsDistinct (pfGts f)) :
    (PassFail.gtsOf o.pf.tp ++ (o.pf.fn ++ (o.pf.tn ++
      PassFail.gtsOf (PassFail.matchedFP o.pf.fp)))).Perm o.pf.gts := by
  obtain ⟨rs, hr, _, hpf, _⟩ := detectFrame_ok h
  rw [hpf]
  exact C03.gt_accounting_perm _ _ (C03.pipeline_wf _ (matcher_output_wf f rs hr hset))

/-- success + fail counters of a pipeline frame -/
theorem pipeline_num_total (f : Frame) (o : Out) (h : detectFrame f = .ok o)
    (hset : PassFail.GtsDistinct (pfGts f)) :
    PassFail.numSuccess o.pf + PassFail.numFail o.pf + o.pf.tp.length
        + (PassFail.matchedFP o.pf.fp).length
      = o.pf.results.length + o.pf.gts.length := by
  obtain ⟨rs, hr, _, hpf, _⟩ := detectFrame_ok h
  rw [hpf]
  exact C03.num_total _ (matcher_output_wf f rs hr hset)

/-- each surviving estimate is in exactly one of TP / FP (estimates are pairwise different objects) -/
theorem pipeline_tp_fp_exactly_one (f : Frame) (o : Out) (h : detectFrame f = .ok o)
    (hid : ((List.range f.scene.ests.length).map (fun i => (f.est i).id)).Nodup) :
    ∀ r ∈ o.pf.results,
      (r.est ∈ o.pf.tp.map (·.est) ∧ r.est ∉ o.pf.fp.map (·.est)) ∨
      (r.est ∉ o.pf.tp.map (·.est) ∧ r.est ∈ o.pf.fp.map (·.est)) := by
  obtain ⟨rs, hr, _, hpf, _⟩ := detectFrame_ok h
  rw [hpf]
  have hn := ests_nodup_of_matched hr hid
  have hsub : ((PassFail.criticalResults (rs.map (toPFRes f))).map (·.est)).Sublist
      ((rs.map (toPFRes f)).map (·.est)) := (List.filter_sublist).map _
  exact C03.tp_fp_exactly_one _ (hn.sublist hsub)

/-- sequences of frames (`add_frame_result` evaluates every frame on its own) -/
theorem pipeline_history_conservation (fs : List Frame)
    (hset : ∀ f ∈ fs, PassFail.GtsDistinct (pfGts f)) :
    ∀ f ∈ fs, ∀ o, detectFrame f = .ok o →
      (o.pf.gts.filter (fun g => !g.isFP)).length = o.pf.tp.length + o.pf.fn.length ∧
      (o.pf.gts.filter (fun g => g.isFP)).length
          = o.pf.tn.length + (PassFail.matchedFP o.pf.fp).length ∧
      o.pf.tp.length + o.pf.fp.length = o.pf.results.length :=
  fun f hf o h => pipeline_conservation f o h (hset f hf)

/-! ## (iii) every AP / APH / mAP / mAPH of a pipeline frame lies in [0,1] -/

/-- For every `Map` of the frame (any mode, any threshold list, any target labels): each defined
per-label AP and APH and the mAP / mAPH lie in [0,1].  Hypotheses: ground-truth ids pairwise
different (implied by `GtsDistinct`), heading weights in [0,1]. -/
theorem pipeline_ap_in_unit (f : Frame) (o : Out) (h : detectFrame f = .ok o)
    (hid : GtIdsDistinct f) (hw : ∀ i j, 0 ≤ f.hw i j ∧ f.hw i j ≤ 1) :
    ∀ mo ∈ o.maps,
      (∀ a ∈ mo.aps, ∀ x, a.ap = some x → 0 ≤ x ∧ x ≤ 1) ∧
      (∀ a ∈ mo.aphs, ∀ x, a.ap = some x → 0 ≤ x ∧ x ≤ 1) ∧
      (∀ x, mo.map = some x → 0 ≤ x ∧ x ≤ 1) ∧ (∀ x, mo.maph = some x → 0 ≤ x ∧ x ≤ 1) := by
  obtain ⟨rs, hr, _, _, hmaps⟩ := detectFrame_ok h
  intro mo hmo
  obtain ⟨mc, _, hmc⟩ := mapsFor_mem hmaps mo hmo
  obtain ⟨hnd, hsub⟩ := apResults_one_to_one hr hid mc.mode
  exact frameMap2_in_unit hnd hsub (apResults_hw hw mc.mode rs) hmc

/-- the same for the frame-level `Map` as the AP model states it (`AP.frameMap`: one target-label
list), on the pipeline's result list: every defined AP / APH / mAP / mAPH lies in [0,1] -/
theorem pipeline_frameMap_in_unit (f : Frame) (rs : List Matching.Res)
    (hr : Matching.getObjectResults f.cfg f.scene = .ok rs) (hid : GtIdsDistinct f)
    (hw : ∀ i j, 0 ≤ f.hw i j ∧ f.hw i j ≤ 1) (m : AP.Mode) (is2d : Bool) (T : List AP.Label)
    (thrs : List Rat) (mo : AP.MapOut)
    (h : AP.frameMap m is2d T thrs (apResults f m rs) ((apGts f).map (·.label)) = .ok mo) :
    (∀ a ∈ mo.aps, ∀ x, a.ap = some x → 0 ≤ x ∧ x ≤ 1) ∧
    (∀ a ∈ mo.aphs, ∀ x, a.ap = some x → 0 ≤ x ∧ x ≤ 1) ∧
    (∀ x, mo.map = some x → 0 ≤ x ∧ x ≤ 1) ∧ (∀ x, mo.maph = some x → 0 ≤ x ∧ x ≤ 1) := by
  obtain ⟨hnd, hsub⟩ := apResults_one_to_one hr hid m
  rw [← frameMap2_same] at h
  exact frameMap2_in_unit hnd hsub (apResults_hw hw m rs) h

/-- `GtsDistinct` (hypothesis of the conservation part) implies the id hypothesis of the AP part -/
theorem gt_ids_distinct_of_set (f : Frame) (hset : PassFail.GtsDistinct (pfGts f)) :
    GtIdsDistinct f := gtIdsDistinct_of_gtsDistinct hset

/-! ## (iv) APH ≤ AP on every pipeline frame -/

/-- In every `Map` of the frame the APHs and APs correspond pairwise (same label, same threshold),
APH is defined exactly when AP is and never exceeds it; likewise mAPH ≤ mAP. -/
theorem pipeline_aph_le_ap (f : Frame) (o : Out) (h : detectFrame f = .ok o)
    (hw : ∀ i j, 0 ≤ f.hw i j ∧ f.hw i j ≤ 1) :
    ∀ mo ∈ o.maps,
      List.Forall₂ (fun hh a => AP.optLe hh.ap a.ap) mo.aphs mo.aps ∧ AP.optLe mo.maph mo.map := by
  obtain ⟨rs, _, _, _, hmaps⟩ := detectFrame_ok h
  intro mo hmo
  obtain ⟨mc, _, hmc⟩ := mapsFor_mem hmaps mo hmo
  exact frameMap2_aph_le_ap (apResults_hw hw mc.mode rs) hmc

/-! ## non-vacuity: a concrete frame

Three estimates (car, unknown, car) and three ground truths (car; FP-labelled; pedestrian outside the
critical region), center-distance matcher with radius 3, pass/fail threshold 2, one `Map` (center
distance, thresholds 1 / 1 for car / pedestrian).  Estimate 3 is farther than the radius from every
ground truth. -/

section Example

def exFrame : Frame :=
  { cfg := { policy := .default, mode := .centerDistance, targets := some ["car", "pedestrian"],
             thresholds := some [3, 3], fpValidation := false },
    scene := { ests := [⟨"car", "base_link"⟩, ⟨"unknown", "base_link"⟩, ⟨"car", "base_link"⟩],
               gts := [⟨"car", "base_link"⟩, ⟨"false_positive", "base_link"⟩, ⟨"pedestrian", "base_link"⟩],
               val := fun i j => if i == j && i != 2 then 1 / 2 else 5 },
    est := fun i => ⟨1 + i, if i == 1 then 0 else 2, 1 / 2 + (i : Rat) / 8, true⟩,
    gt := fun j => ⟨101 + j, if j == 0 then 2 else if j == 1 then 1 else 4, j != 2, 101 + j⟩,
    pfTargets := [2, 4], pfThrs := some [2, 2],
    pfScore := fun i j => some (if i == j then 1 / 2 else 5),
    apScore := fun _ i j => some (if i == j then 1 / 2 else 5),
    hw := fun _ _ => 1 / 2,
    critTargets := [2, 4], mapTargets := [2, 4],
    maps := [⟨.centerDistance, [1, 1]⟩] }

example : PassFail.GtsDistinct (pfGts exFrame) := by decide +kernel
example : GtIdsDistinct exFrame := by decide +kernel
example : labelsCoherent exFrame = true := by decide +kernel
example : ∀ i j, 0 ≤ exFrame.hw i j ∧ exFrame.hw i j ≤ 1 := by
  intro i j
  show (0 : Rat) ≤ 1 / 2 ∧ (1 / 2 : Rat) ≤ 1
  decide +kernel

/-- the frame evaluates: pairs (0,0) and (1,1), estimate 2 unmatched; TP = {estimate 1},
FP = {2 (re-wrapped: its FP-labelled ground truth is TN), 3}, TN = {102}, FN = {} … -/
example : (detectFrame exFrame).toOption.map (fun o =>
    (o.matched, o.pf.tp.map (·.est), o.pf.fp.map (·.est), o.pf.tn.map (·.id), o.pf.fn.map (·.id)))
    = some ([(0, some 0), (1, some 1), (2, none)], [1], [2, 3], [102], []) := by
  decide +kernel

/-- … car bucket = [estimate 3 (conf 3/4, no ground truth: FP), estimate 1 (conf 1/2, TP, heading weight 1/2)]:
AP(car) = 1/2, APH(car) = 1/8; no pedestrian result (undefined); mAP = 1/2, mAPH = 1/8 -/
example : (detectFrame exFrame).toOption.map (fun o =>
    o.maps.map (fun mo => (mo.aps.map (·.ap), mo.aphs.map (·.ap), mo.map, mo.maph)))
    = some [([some (1 / 2), none], [some (1 / 8), none], some (1 / 2), some (1 / 8))] := by
  decide +kernel

end Example

end PEval.PipelineProps
