import PEval.Lemmas.ManagerHeap
/-!
# C13 on the heap model — non-mutation and history-independence as statements that can fail

`PEval/Model/ManagerHeap.lean`: the manager's store holds a cell per `FrameGroundTruth` instance and per
estimate list; `add_frame_result` receives REFERENCES and performs the assignments of
`_filter_objects` / `evaluate_frame` as writes into the store.  `hrun` is the repaired code of /repo
(`copy(frame_ground_truth)` before the first assignment), `hrunV .f5` the code before `ccf10e1`
(defect F5: the assignments go into the frame that was handed in), `hrunV .estInPlace` a variant that
writes the filtered estimates back into the caller's list.

The theorems below are about `hrun` and hold for EVERY start state (any store, any dataset
references, any history), every operation list (adds with arbitrary — also dangling — references,
scene queries, look-ups) and every choice of the pure parts `sem`.  The `example`s at the end show
that each of them is FALSE for the defective variants on a concrete two-add instance, i.e. that the
model can express the defect class the property is about.
-/
namespace PEval.C13
open PEval.Manager PEval.ManagerHeap PEval

variable {Est OR C T : Type}

/-! ## the loaded dataset and the caller's estimate lists are not modified -/

/-- No run of the repaired code changes a cell that existed before the run: every frame cell keeps its
content (all fields, in particular `.objects`), the estimate-list cells are the same, and
`ground_truth_frames` holds the same references.  (New cells — the private copies — are appended.) -/
theorem heap_cells_unchanged (sem : HSem Est OR C T) (s : HState Est OR T) (ops : List (HOp C)) :
    (∀ r, r < s.heap.frames.length → (hrun sem s ops).1.heap.frames[r]? = s.heap.frames[r]?) ∧
    (hrun sem s ops).1.heap.ests = s.heap.ests ∧
    (hrun sem s ops).1.dataset = s.dataset :=
  ⟨fun _ hr => (hrun_ext sem s ops).getElem? hr, (hrun_ext sem s ops).2, hrunV_dataset _ sem s ops⟩

/-- … hence `deref` of every dataset reference is unchanged after any run: the loaded dataset, read
through the manager's references, is what it was. -/
theorem dataset_deref_unchanged (sem : HSem Est OR C T) (s : HState Est OR T) (ops : List (HOp C))
    (hv : DatasetValid s.heap s.dataset) :
    (∀ r ∈ s.dataset, (hrun sem s ops).1.heap.frame r = s.heap.frame r) ∧
    (hrun sem s ops).1.dataset.map (hrun sem s ops).1.heap.frame = s.dataset.map s.heap.frame := by
  have hx := hrun_ext sem s ops
  refine ⟨fun r hr => hx.frame (hv r hr), ?_⟩
  rw [hrunV_dataset]
  exact List.map_congr_left (fun r hr => hx.frame (hv r hr))

/-- `deref` of every estimate-list reference the caller holds is unchanged after any run -/
theorem estimates_deref_unchanged (sem : HSem Est OR C T) (s : HState Est OR T) (ops : List (HOp C)) (er : Ref) :
    (hrun sem s ops).1.heap.est er = s.heap.est er :=
  (hrun_ext sem s ops).est er

/-- the ground-truth frame a stored result holds is never written after its `add`: in a good state
(`Good`: every stored result's cell holds the ground truths it was scored with) every run of valid
operations ends in a good state — this is what makes `get_scene_result`, which dereferences those
frames at query time, add up the counts of add time -/
theorem stored_results_stay_good (sem : HSem Est OR C T) (hl : LabelsAgree sem) (s : HState Est OR T)
    (ops : List (HOp C)) (hg : Good sem s) (hv : DatasetValid s.heap s.dataset)
    (hops : ∀ op ∈ ops, op.validIn s.heap) : Good sem (hrun sem s ops).1 :=
  (hrun_sim sem hl s.heap s ops (Ext.refl _) hg hv hops).2.2

/-! ## frame evaluation is history-independent -/

/-- what the detection side of an `add` answers: frame name, filtered object results, detection view -/
def viewOf (o : HOut OR T) : Option (Nat × List OR × Det) :=
  o.added?.map (fun r => (r.frameName, r.objectResults, r.det))

/-- The result of `add(<fr>, <er>, c)` issued after ANY operations `pre` on a manager in ANY state `s`
is the pure evaluation of the values the two references held before `pre` — and therefore equals what a
fresh manager over the same dataset (same store, no history) answers to the same call. -/
theorem add_detection_history_free_heap (sem : HSem Est OR C T) (s : HState Est OR T) (pre : List (HOp C))
    (fr er : Ref) (c : C) (h1 : fr < s.heap.frames.length) (h2 : er < s.heap.ests.length) :
    (hlastOut sem s (pre ++ [.add fr er c])).bind viewOf
      = some ((s.heap.frame fr).name, pureORs sem c (s.heap.frame fr) (s.heap.est er),
              pureDet sem c (s.heap.frame fr) (s.heap.est er)) ∧
    (hlastOut sem s (pre ++ [.add fr er c])).bind viewOf
      = (hlastOut sem (hfresh s.heap s.dataset) [.add fr er c]).bind viewOf := by
  have key : ∀ (s' : HState Est OR T) (p : List (HOp C)), s'.heap = s.heap →
      (hlastOut sem s' (p ++ [.add fr er c])).bind viewOf
        = some ((s.heap.frame fr).name, pureORs sem c (s.heap.frame fr) (s.heap.est er),
                pureDet sem c (s.heap.frame fr) (s.heap.est er)) := by
    intro s' p hs
    obtain ⟨e1, e2, e3⟩ := hstep_add_after_run sem s' p fr er c (by rw [hs]; exact h1) (by rw [hs]; exact h2)
    rw [hlastOut, hlastOutV_append_one]
    simp only [hrun, hstep] at e1 e2 e3
    rw [e1]
    simp only [Option.bind_some, viewOf, HOut.added?, Option.map_some, addResult, e2, e3, hs]
  exact ⟨key s pre rfl, by rw [key s pre rfl]; exact (key (hfresh s.heap s.dataset) [] rfl).symm⟩

/-- "a deterministic function of that frame's ground truth, estimates and configurations": two calls on
two managers (different stores, different histories) whose references hold the same VALUES answer the
same -/
theorem add_same_values_same_result (sem : HSem Est OR C T) (s₁ s₂ : HState Est OR T) (pre₁ pre₂ : List (HOp C))
    (fr₁ er₁ fr₂ er₂ : Ref) (c : C)
    (h1 : fr₁ < s₁.heap.frames.length) (h2 : er₁ < s₁.heap.ests.length)
    (h3 : fr₂ < s₂.heap.frames.length) (h4 : er₂ < s₂.heap.ests.length)
    (hf : s₁.heap.frame fr₁ = s₂.heap.frame fr₂) (he : s₁.heap.est er₁ = s₂.heap.est er₂) :
    (hlastOut sem s₁ (pre₁ ++ [.add fr₁ er₁ c])).bind viewOf
      = (hlastOut sem s₂ (pre₂ ++ [.add fr₂ er₂ c])).bind viewOf := by
  rw [(add_detection_history_free_heap sem s₁ pre₁ fr₁ er₁ c h1 h2).1,
    (add_detection_history_free_heap sem s₂ pre₂ fr₂ er₂ c h3 h4).1, hf, he]

/-- The tracking part depends on the history only through the object results of the LAST stored
result (`frame_results[-1].object_results`). -/
theorem add_tracking_last_only_heap (sem : HSem Est OR C T) (s : HState Est OR T) (pre : List (HOp C))
    (fr er : Ref) (c : C) (h1 : fr < s.heap.frames.length) (h2 : er < s.heap.ests.length) :
    (hlastOut sem s (pre ++ [.add fr er c])).bind HOut.track?
      = some (sem.trackOf c (pureORs sem c (s.heap.frame fr) (s.heap.est er)) (pureGts sem c (s.heap.frame fr))
          ((hrun sem s pre).1.frameResults.getLast?.map (·.objectResults))) := by
  obtain ⟨e1, e2, e3⟩ := hstep_add_after_run sem s pre fr er c h1 h2
  rw [hlastOut, hlastOutV_append_one]
  simp only [hrun, hstep] at e1 e2 e3 ⊢
  rw [e1]
  simp only [Option.bind_some, HOut.track?, HOut.added?, Option.map_some, addResult, e2, e3]

/-- two managers whose last stored results hold the same object results give the same tracking part -/
theorem add_tracking_same_last_heap (sem : HSem Est OR C T) (s₁ s₂ : HState Est OR T) (pre₁ pre₂ : List (HOp C))
    (fr₁ er₁ fr₂ er₂ : Ref) (c : C)
    (h1 : fr₁ < s₁.heap.frames.length) (h2 : er₁ < s₁.heap.ests.length)
    (h3 : fr₂ < s₂.heap.frames.length) (h4 : er₂ < s₂.heap.ests.length)
    (hf : s₁.heap.frame fr₁ = s₂.heap.frame fr₂) (he : s₁.heap.est er₁ = s₂.heap.est er₂)
    (hlast : (hrun sem s₁ pre₁).1.frameResults.getLast?.map (·.objectResults)
      = (hrun sem s₂ pre₂).1.frameResults.getLast?.map (·.objectResults)) :
    (hlastOut sem s₁ (pre₁ ++ [.add fr₁ er₁ c])).bind HOut.track?
      = (hlastOut sem s₂ (pre₂ ++ [.add fr₂ er₂ c])).bind HOut.track? := by
  rw [add_tracking_last_only_heap sem s₁ pre₁ fr₁ er₁ c h1 h2, add_tracking_last_only_heap sem s₂ pre₂ fr₂ er₂ c h3 h4,
    hf, he, hlast]

/-- the object results of the last stored result after `… add(fr, er, c), queries` -/
theorem last_object_results_after_add (sem : HSem Est OR C T) (s : HState Est OR T) (pre qs : List (HOp C))
    (hq : ∀ op ∈ qs, op.isQuery = true) (fr er : Ref) (c : C)
    (h1 : fr < s.heap.frames.length) (h2 : er < s.heap.ests.length) :
    (hrun sem s (pre ++ [.add fr er c] ++ qs)).1.frameResults.getLast?.map (·.objectResults)
      = some (pureORs sem c (s.heap.frame fr) (s.heap.est er)) := by
  have hx := hrun_ext sem s pre
  simp only [hrun] at hx ⊢
  rw [hrunV_append, hrunV_append]
  simp only [hrunV_queries _ sem _ qs hq]
  simp only [hrunV]
  have := hstep_add sem (hrunV Variant.fixed sem s pre).1 fr er c (Nat.lt_of_lt_of_le h1 hx.length_le)
    (by rw [hx.ests_length]; exact h2)
  simp only [hstep] at this
  rw [this]
  simp [addState, addResult, hx.frame h1, hx.est er]

/-- … hence: whatever happened before the previous `add`, and whatever queries were interleaved, the
tracking part equals the one a fresh manager over the same dataset computes from the two calls alone -/
theorem add_tracking_two_step_heap (sem : HSem Est OR C T) (s : HState Est OR T) (pre qs : List (HOp C))
    (hq : ∀ op ∈ qs, op.isQuery = true) (fr₁ er₁ fr₂ er₂ : Ref) (c₁ c₂ : C)
    (h1 : fr₁ < s.heap.frames.length) (h2 : er₁ < s.heap.ests.length)
    (h3 : fr₂ < s.heap.frames.length) (h4 : er₂ < s.heap.ests.length) :
    (hlastOut sem s ((pre ++ [.add fr₁ er₁ c₁] ++ qs) ++ [.add fr₂ er₂ c₂])).bind HOut.track?
      = (hlastOut sem (hfresh s.heap s.dataset) (([] ++ [.add fr₁ er₁ c₁] ++ []) ++ [.add fr₂ er₂ c₂])).bind HOut.track? := by
  apply add_tracking_same_last_heap sem s (hfresh s.heap s.dataset) _ _ fr₂ er₂ fr₂ er₂ c₂ h3 h4 h3 h4 rfl rfl
  rw [last_object_results_after_add sem s pre qs hq fr₁ er₁ c₁ h1 h2,
    last_object_results_after_add sem (hfresh s.heap s.dataset) [] [] (by simp) fr₁ er₁ c₁ h1 h2]
  rfl

/-- the first `add` of a manager without history sees no predecessor -/
theorem add_tracking_first_heap (sem : HSem Est OR C T) (h : Heap Est) (ds : List Ref) (qs : List (HOp C))
    (hq : ∀ op ∈ qs, op.isQuery = true) (fr er : Ref) (c : C)
    (h1 : fr < h.frames.length) (h2 : er < h.ests.length) :
    (hlastOut sem (hfresh h ds) (qs ++ [.add fr er c])).bind HOut.track?
      = some (sem.trackOf c (pureORs sem c (h.frame fr) (h.est er)) (pureGts sem c (h.frame fr)) none) := by
  rw [add_tracking_last_only_heap sem (hfresh h ds) qs fr er c h1 h2]
  simp only [hrun, hrunV_queries _ sem _ qs hq]
  rfl

/-! ## refinement: the heap machine of /repo IS the state-free machine `PEval.Manager` -/

/-- Dereferencing commutes with running: on a store `h` whose dataset references exist, every list of
operations naming existing cells drives the heap machine and the state-free machine (`Manager.run` with
`toSem sem`, started on the dereferenced dataset, fed the operations with their references replaced by
the values `h` holds) through corresponding states and answers.  (`LabelsAgree`: frame-level and
scene-level divisions use the same target labels.)  All theorems of `Properties/C13.lean` about
`Manager.run` therefore hold of the heap machine. -/
theorem heap_refines_manager (sem : HSem Est OR C T) (hl : LabelsAgree sem) (h : Heap Est) (ds : List Ref)
    (hv : DatasetValid h ds) (ops : List (HOp C)) (hops : ∀ op ∈ ops, op.validIn h) :
    absState (hrun sem (hfresh h ds) ops).1
      = (run (toSem sem) (fresh (ds.map h.frame)) (ops.map (absOp h))).1 ∧
    (hrun sem (hfresh h ds) ops).2.map (absOut h)
      = (run (toSem sem) (fresh (ds.map h.frame)) (ops.map (absOp h))).2 := by
  obtain ⟨e1, e2, _⟩ := hrun_sim sem hl h (hfresh h ds) ops (Ext.refl _)
    (fun r hr => by cases hr) hv hops
  exact ⟨e1, e2⟩

/-- the same from any good state (a manager with history) -/
theorem heap_refines_manager_from (sem : HSem Est OR C T) (hl : LabelsAgree sem) (s : HState Est OR T)
    (hg : Good sem s) (hv : DatasetValid s.heap s.dataset) (ops : List (HOp C))
    (hops : ∀ op ∈ ops, op.validIn s.heap) :
    absState (hrun sem s ops).1 = (run (toSem sem) (absState s) (ops.map (absOp s.heap))).1 ∧
    (hrun sem s ops).2.map (absOut s.heap) = (run (toSem sem) (absState s) (ops.map (absOp s.heap))).2 := by
  obtain ⟨e1, e2, _⟩ := hrun_sim sem hl s.heap s ops (Ext.refl _) hg hv hops
  exact ⟨e1, e2⟩

/-- the scene accumulators of the heap machine (ground-truth frames dereferenced at query time) after
any valid run on a fresh manager are those of the state-free machine -/
theorem heap_scene_eq_manager_scene (sem : HSem Est OR C T) (hl : LabelsAgree sem) (h : Heap Est) (ds : List Ref)
    (hv : DatasetValid h ds) (ops : List (HOp C)) (hops : ∀ op ∈ ops, op.validIn h) :
    hlastOut sem (hfresh h ds) (ops ++ [.scene])
      = some (.scene (getSceneResult sem.nLabels (run (toSem sem) (fresh (ds.map h.frame)) (ops.map (absOp h))).1)) := by
  obtain ⟨e1, _, e3⟩ := hrun_sim sem hl h (hfresh h ds) ops (Ext.refl _) (fun r hr => by cases hr) hv hops
  rw [hlastOut, hlastOutV_append_one]
  simp only [hstepV]
  rw [hscene_eq sem _ e3, e1]
  rfl

/-! ## non-vacuity, and the defective variants

Store: two dataset frames (`[11, 13]` at time 100, `[12]` at time 200) and one estimate list
`[1, 2, 150]`.  The manager filter drops estimate ids ≥ 100; the critical filter `true` ("narrow") drops
ground truth 13 and the results matched with it, `false` ("wide") keeps everything; the matcher pairs
the i-th estimate with the i-th ground truth; one label; tracking "score" = number of current results
+ 10 × number of results of the predecessor. -/

section Examples

def toRes (o : Nat × Option Nat) : Res := ⟨o.1, o.2, (o.1 : Rat), [if o.2.isSome then 1 else 0]⟩

def exSem : HSem Nat (Nat × Option Nat) Bool Nat where
  nLabels := 1
  filterEst := fun _ es => es.filter (· < 100)
  filterGt := fun _ gs => gs
  matchObjs := fun _ es gs => es.zipIdx.map (fun ei => (ei.1, gs[ei.2]?))
  critRes := fun c _ ors => if c then ors.filter (fun o => o.2 != some 13) else ors
  critGt := fun c _ gs => if c then gs.filter (· != 13) else gs
  detOf := fun _ ors gs => ⟨[ors.map toRes], [gs.length]⟩
  bucketsOf := fun ors => [ors.map toRes]
  numGtOf := fun gs => [gs.length]
  trackOf := fun _ ors _ prev => ors.length + 10 * (prev.map List.length).getD 0

def exHeap : Heap Nat := { frames := [⟨100, 0, [11, 13]⟩, ⟨200, 1, [12]⟩], ests := [[1, 2, 150]] }
def exS0 : HState Nat (Nat × Option Nat) Nat := hfresh exHeap [0, 1]
def exOps : List (HOp Bool) := [.lookup 100 75, .add 0 0 true, .scene, .add 1 0 false, .add 0 0 false, .scene]

-- the hypotheses of the theorems above hold on this instance
example : LabelsAgree exSem := fun _ _ _ => rfl
theorem exValid : DatasetValid exHeap [0, 1] := by
  intro r hr
  simp only [List.mem_cons, List.not_mem_nil, or_false] at hr
  rcases hr with rfl | rfl <;> decide
example : ∀ op ∈ exOps, op.validIn exHeap := by
  intro op hop
  simp only [exOps, List.mem_cons, List.not_mem_nil, or_false] at hop
  rcases hop with rfl | rfl | rfl | rfl | rfl | rfl <;> simp [HOp.validIn, exHeap]

-- REPAIRED code: the run allocates three private copies, the dataset cells keep their objects …
example : (hrun exSem exS0 exOps).1.heap.frames
    = [⟨100, 0, [11, 13]⟩, ⟨200, 1, [12]⟩, ⟨100, 0, [11]⟩, ⟨200, 1, [12]⟩, ⟨100, 0, [11, 13]⟩] := by decide +kernel
example : (hrun exSem exS0 exOps).1.heap.ests = [[1, 2, 150]] := by decide +kernel
-- … the wide evaluation of frame 0 after the narrow one sees both ground truths, as on a fresh manager
example : (hlastOut exSem exS0 [.add 0 0 true, .add 0 0 false]).bind viewOf
    = (hlastOut exSem exS0 [.add 0 0 false]).bind viewOf := by decide +kernel
example : ((hlastOut exSem exS0 [.add 0 0 true, .add 0 0 false]).bind HOut.det?).map (·.numGt) = some [2] := by
  decide +kernel
-- … and the scene after narrow + wide counts 1 + 2 ground truths
example : ((hlastOut exSem exS0 [.add 0 0 true, .add 0 0 false, .scene]).map
    (fun o => match o with | .scene sc => sc.numGt | _ => [])) = some [3] := by decide +kernel
-- the tracking part sees the predecessor only: 2 current results + 10 × 1 result of the narrow add
example : (hlastOut exSem exS0 [.add 1 0 false, .add 0 0 true, .scene, .add 0 0 false]).bind HOut.track? = some 12 := by
  decide +kernel
-- a dangling reference is rejected and changes nothing
example : (hrun exSem exS0 [.add 7 0 true]).1 = exS0 := by decide +kernel

/-! ### defect F5 re-introduced: every clause fails -/

-- `heap_cells_unchanged` / `dataset_deref_unchanged` FAIL: one narrow add removes object 13 from the dataset
example : (hrunV .f5 exSem exS0 [.add 0 0 true]).1.heap.frame 0 = ⟨100, 0, [11]⟩ := by decide +kernel
example : ¬ (∀ (s : HState Nat (Nat × Option Nat) Nat) (ops : List (HOp Bool)), DatasetValid s.heap s.dataset →
    (hrunV .f5 exSem s ops).1.dataset.map (hrunV .f5 exSem s ops).1.heap.frame = s.dataset.map s.heap.frame) := by
  intro h
  have := h exS0 [.add 0 0 true] exValid
  revert this
  decide +kernel
-- … a later look-up hands out the narrowed frame
example : ((hlastOutV .f5 exSem exS0 [.add 0 0 true, .lookup 100 75]).map
    (fun o => match o with
      | .frame (.ok (some r)) => ((hrunV .f5 exSem exS0 [.add 0 0 true, .lookup 100 75]).1.heap.frame r).objects
      | _ => [])) = some [11] := by decide +kernel
-- `add_detection_history_free_heap` FAILS: the same wide call answers differently after a narrow one
example : (hlastOutV .f5 exSem exS0 [.add 0 0 true, .add 0 0 false]).bind viewOf
    ≠ (hlastOutV .f5 exSem exS0 [.add 0 0 false]).bind viewOf := by decide +kernel
example : ¬ (∀ (s : HState Nat (Nat × Option Nat) Nat) (pre : List (HOp Bool)) (fr er : Ref) (c : Bool),
    fr < s.heap.frames.length → er < s.heap.ests.length →
    (hlastOutV .f5 exSem s (pre ++ [.add fr er c])).bind viewOf
      = (hlastOutV .f5 exSem (hfresh s.heap s.dataset) [.add fr er c]).bind viewOf) := by
  intro h
  have := h exS0 [.add 0 0 true] 0 0 false (by decide) (by decide)
  revert this
  decide +kernel
-- adding the SAME frame twice with the narrow filter, then wide: the second result differs from the fresh one
example : ((hlastOutV .f5 exSem exS0 [.add 0 0 true, .add 0 0 false]).bind HOut.det?).map (·.numGt) = some [1] := by
  decide +kernel
-- `stored_results_stay_good` / scene pooling FAIL: the stored WIDE result shares its frame with the
-- dataset, the later narrow add shrinks it, the scene counts 1 + 1 instead of 2 + 1
example : ((hlastOutV .f5 exSem exS0 [.add 0 0 false, .add 0 0 true, .scene]).map
    (fun o => match o with | .scene sc => sc.numGt | _ => [])) = some [2] := by decide +kernel
example : ((hlastOut exSem exS0 [.add 0 0 false, .add 0 0 true, .scene]).map
    (fun o => match o with | .scene sc => sc.numGt | _ => [])) = some [3] := by decide +kernel
example : ¬ Good exSem (hrunV .f5 exSem exS0 [.add 0 0 false, .add 0 0 true]).1 := by
  intro h
  have := (h ⟨0, 0, [(1, some 11), (2, some 13)], ⟨[[toRes (1, some 11), toRes (2, some 13)]], [2]⟩, 2⟩ (by decide +kernel)).2
  revert this
  decide +kernel

/-! ### the estimate filter written back into the caller's list: `estimates_deref_unchanged` fails -/

example : (hrunV .estInPlace exSem exS0 [.add 0 0 false]).1.heap.est 0 = [1, 2] := by decide +kernel
example : ¬ (∀ (s : HState Nat (Nat × Option Nat) Nat) (ops : List (HOp Bool)) (er : Ref),
    (hrunV .estInPlace exSem s ops).1.heap.est er = s.heap.est er) := by
  intro h
  have := h exS0 [.add 0 0 false] 0
  revert this
  decide +kernel

end Examples

end PEval.C13
