import PEval.Lemmas.APDict
/-!
# C04, continued: the dicts handed to `Map`, the label lists of `evaluate_frame`, `float("inf")`

Namespace `PEval.C04`; imported by the root `PEval/Properties/C04.lean`. Model: `PEval/Model/APExt.lean`
(`mapOfE`, `frameMapE`, `apOfE`: the functions of `PEval/Model/AP.lean` with threshold values in `EThr`,
a number or `float("inf")`).

* `Map.__init__` reads its two per-label dicts BY KEY, once per target label: only the entries of the
  target labels matter (`map_reads_dicts_by_key`), the insertion order of the keys does not
  (`map_dict_order_irrelevant`), so each label's AP is computed from that label's results, that label's
  ground-truth count and that label's threshold however the dicts were built.
* At frame level the dicts are keyed by the label list of the critical-object filter while `Map` walks the
  evaluation config's list: any listing of the same labels gives the same `Map` (`frame_map_label_order_irrelevant`).
* A threshold `float("inf")` behaves like any number above 1 and above every matching score
  (`ap_inf_as_large_number`, `map_inf_as_large_number`), and on numbers the extended functions are the
  functions every other theorem of C04 is about (`map_ext_agrees_on_numbers`) — so AP = interpolated area,
  the bounds and the extreme cases hold for thresholds at the ends of the scale as well.
-/

namespace PEval.C04
open PEval.AP

/-- `Map` depends on its dicts only through the entries found under the target labels -/
theorem map_reads_dicts_by_key (m : Mode) (is2d : Bool) (T : List Label) (th : List EThr)
    (b b' : List (Label × List (List Res))) (n n' : List (Label × Nat))
    (hb : ∀ l ∈ T, lookupKey l b = lookupKey l b') (hn : ∀ l ∈ T, lookupKey l n = lookupKey l n') :
    mapOfE m is2d T th b n = mapOfE m is2d T th b' n' := mapOfE_congr hb hn

/-- the same dicts with their keys inserted in another order give the same `Map` (each per-label AP, in
target-label order, mAP and mAPH) -/
theorem map_dict_order_irrelevant (m : Mode) (is2d : Bool) (T : List Label) (th : List EThr)
    (b b' : List (Label × List (List Res))) (n n' : List (Label × Nat))
    (hb : b.Perm b') (hn : n.Perm n') (ndb : (b.map Prod.fst).Nodup) (ndn : (n.map Prod.fst).Nodup) :
    mapOfE m is2d T th b n = mapOfE m is2d T th b' n' :=
  mapOfE_congr (fun l _ => lookupKey_perm hb ndb l) (fun l _ => lookupKey_perm hn ndn l)

/-- frame level: the critical-object filter may list the labels of the evaluation config in any order
(even repeatedly); on numbers the result is `frameMap`, the frame-level `Map` of every other theorem -/
theorem frame_map_label_order_irrelevant (m : Mode) (is2d : Bool) (divT T : List Label) (rs : List Res)
    (gtLabels : List Label) (h : ∀ l, l ∈ divT ↔ l ∈ T) :
    (∀ th : List EThr, frameMapE m is2d divT T th rs gtLabels = frameMapE m is2d T T th rs gtLabels)
      ∧ ∀ th : List Rat, frameMapE m is2d divT T (th.map .fin) rs gtLabels = frameMap m is2d T th rs gtLabels := by
  have hc : ∀ l, divT.contains l = T.contains l := by
    intro l
    have := h l
    by_cases h1 : l ∈ T
    · simp [h1, this.2 h1]
    · have h2 : l ∉ divT := fun h2 => h1 (this.1 h2)
      simp [h1, h2]
  refine ⟨fun th => frameMapE_label_order th rs gtLabels hc, fun th => ?_⟩
  rw [frameMapE_label_order _ rs gtLabels hc]
  unfold frameMapE frameMap
  obtain ⟨hB, hs, _, _⟩ := boundFor_spec
    (allRes ((divideObjects (some T) rs).map (fun kv => (kv.1, [kv.2])))) [] []
  rw [mapOfE_real _ hB (bucketsLt_of_all hs), map_real_fin]

/-- `Ap` under thresholds with `inf` among them = `Ap` with `inf` read as any number above 1 and above
every matching score of the results -/
theorem ap_inf_as_large_number (tm : TpMetric) (m : Mode) (T : List Label) (th : List EThr) (G : Nat)
    (rs : List Res) (B : Rat) (hB : 1 < B)
    (hs : ∀ r ∈ rs, ∀ x, r.score = .val (some x) → x < B) :
    apOfE tm m T th G rs = apOf tm m T (th.map (EThr.real B)) G rs := apOfE_real th G hB hs

theorem map_inf_as_large_number (m : Mode) (is2d : Bool) (T : List Label) (th : List EThr)
    (b : List (Label × List (List Res))) (n : List (Label × Nat)) (B : Rat) (hB : 1 < B)
    (hs : ∀ l rss, lookupKey l b = .ok rss → ∀ r ∈ rss.flatten, ∀ x, r.score = .val (some x) → x < B) :
    mapOfE m is2d T th b n = mapOf m is2d T (th.map (EThr.real B)) b n := mapOfE_real th hB hs

/-- on numbers the extended `Ap` / `Map` are the model's -/
theorem map_ext_agrees_on_numbers (tm : TpMetric) (m : Mode) (is2d : Bool) (T : List Label) (th : List Rat)
    (G : Nat) (rs : List Res) (b : List (Label × List (List Res))) (n : List (Label × Nat)) :
    apOfE tm m T (th.map .fin) G rs = apOf tm m T th G rs
      ∧ mapOfE m is2d T (th.map .fin) b n = mapOf m is2d T th b n := by
  obtain ⟨hB, hs, _, _⟩ := boundFor_spec rs [] []
  obtain ⟨hB', hs', _, _⟩ := boundFor_spec (allRes b) [] []
  exact ⟨by rw [apOfE_real _ G hB hs, map_real_fin],
    by rw [mapOfE_real _ hB' (bucketsLt_of_all hs'), map_real_fin]⟩

/-! ## concrete instances -/

/-- car (label 2) 3/2 m off at confidence 1/2, pedestrian (label 4) 1/4 m off at confidence 3/4 -/
def rc : Res :=
  { id := 0, conf := 1/2, label := 2, gt := some { id := 0, label := 2 }, score := .val (some (3/2)),
    hw := 1, policy := .default }
def rp : Res :=
  { id := 1, conf := 3/4, label := 4, gt := some { id := 1, label := 4 }, score := .val (some (1/4)),
    hw := 1, policy := .default }

/-- thresholds car 2, pedestrian 1/8: AP(car) = 1, AP(pedestrian) = 0 whichever way the dicts are keyed
(a pairing of thresholds with labels by dict position would give 0 and 1 for the second keying) -/
example :
    mapOfE .centerDistance false [2, 4] [.fin 2, .fin (1/8)] [(2, [[rc]]), (4, [[rp]])] [(2, 1), (4, 1)]
      = mapOfE .centerDistance false [2, 4] [.fin 2, .fin (1/8)] [(4, [[rp]]), (2, [[rc]])] [(4, 1), (2, 1)]
    ∧ (mapOfE .centerDistance false [2, 4] [.fin 2, .fin (1/8)] [(4, [[rp]]), (2, [[rc]])] [(4, 1), (2, 1)]).map
        (fun o => o.aps.map (·.ap)) = .ok [some 1, some 0] := by
  constructor <;> decide +kernel

/-- the filter lists pedestrian before car: the frame-level `Map` is that of the evaluation config's order;
with `inf` for the cars every car result with a car ground truth is a TP -/
example :
    frameMapE .centerDistance false [4, 2] [2, 4] [.posInf, .fin (1/8)] [rc, rp] [2, 4]
      = frameMapE .centerDistance false [2, 4] [2, 4] [.posInf, .fin (1/8)] [rc, rp] [2, 4]
    ∧ (frameMapE .centerDistance false [4, 2] [2, 4] [.posInf, .fin (1/8)] [rc, rp] [2, 4]).map
        (fun o => o.aps.map (·.ap)) = .ok [some 1, some 0] := by
  constructor <;> decide +kernel

end PEval.C04
