import PEval.Lemmas.APPerfect
import PEval.Properties.C04Core
/-!
# C04 — the two extreme cases, stated on RESULTS and GROUND TRUTHS  (audit C04 F3, F4, F8)

`ap_one_of_perfect` / `ap_zero_of_no_tp` (`C04Core.lean`) are facts about a list of `Kind`s.  Here the two clauses

  "AP is 1 when every ground truth is matched by a correct estimate and no wrong estimate outranks one,
   and 0 when no estimate is correct"

are stated and proved for the whole constructor `AP.apOf` (= `Ap.__init__`: stable descending sort by confidence,
per-result threshold lookup and `is_result_correct`, cumulative sums, interpolation, area), with hypotheses about
the results (confidence, labels, ground truth, matching score, policy), the thresholds and the ground truths.

Vocabulary.
* `isCorrectAt m T th r` ("counted correct"): the label of `r` (its ground truth's, else its own) is a target with
  threshold `t` and `is_result_correct(mode, t)` is `True`.  For the per-label call of `Map` (`T = [L]`, `L` ordinary)
  `isCorrectAt_iff` / `classify_tp_iff` spell this out: ground truth of label `L`, label-compatible under the policy,
  score strictly better than `t`.
* "wrong estimate" = every result that is NOT counted correct: an FP (threshold found, test failed) or an IGNORED
  result (no threshold: the ground truth's label is not the evaluated label — e.g. an `ALLOW_ANY` / `ALLOW_UNKNOWN`
  cross-label pair filed under the estimate's label — which keeps its rank: precision is `cumTP_i / (i + 1)`).
  An ignored result ranked above a correct one DOES lower the AP (`ignored_outranking_lowers_ap`, AP = 1/2), so the
  hypothesis cannot be weakened to "FP results only"; ranked below all correct results it is harmless.
* "outranks", exactly as the stable sort behaves (`RankOK`): a wrong estimate must not have a larger confidence than a
  correct one, and where the confidences are EQUAL the wrong estimate must not stand earlier in the input list.
  `strictly below` is the simple sufficient form (`ap_one_of_all_matched_strict`).

Defective variants refuted: ranking ascending (`reverse=True` forgotten) and no ranking at all
(`perfect_fails_ascending`, `perfect_fails_unsorted`); AP undefined without ground truth (stored change C04_G,
`zero_fails_C04G`).
-/

namespace PEval.C04
open PEval.AP

/-! ## clause 3: TP iff label-compatible and beats the threshold (per-label call, ordinary label) -/

/-- `_calculate_tp_fp` of the per-label evaluation counts `r` as TP exactly when `r` has a ground truth of the
evaluated label, `is_label_correct` holds under the result's policy, and the matching score beats the threshold
(strictly, direction per mode; threshold valid for the mode); a result without matching method is judged by its label. -/
theorem classify_tp_iff (tm : TpMetric) (m : Mode) (L : Label) (t : Rat) (r : Res) (k : Kind) (hL : L ≠ fpLabel)
    (h : classify tm m [L] [t] r = .ok k) :
    k.isTp = true ↔
      ∃ g, r.gt = some g ∧ g.label = L ∧ isLabelCorrect r = true ∧
        (r.score = .noMethod ∨
          ∃ v, r.score = .val (some v) ∧ thrValid m t = true ∧ isBetter m v t = true) := by
  rw [(classify_isTp h).1]
  exact isCorrectAt_iff m L t r hL

/-- the weight of a TP is `tp_metrics.get_value`, every other result weighs 0 -/
theorem classify_weight (tm : TpMetric) (m : Mode) (T : List Label) (th : List Rat) (r : Res) (k : Kind)
    (h : classify tm m T th r = .ok k) :
    k.isTp = isCorrectAt m T th r ∧ k.tpw = if isCorrectAt m T th r = true then tpValue tm r else 0 :=
  classify_isTp h

/-- documented exception (why `L ≠ fpLabel`): when the false-positive label itself is a target, a result whose
FP-labelled ground truth it does NOT reach is the one counted "correct" -/
example :
    classify .ap .centerDistance [fpLabel] [1]
      { id := 0, conf := 1, label := 2, gt := some { id := 0, label := fpLabel }, score := .val (some 5), hw := 1,
        policy := .default } = .ok (.tp 1) := by decide +kernel

/-! ## AP = 1 -/

/-- General form (any target list): `G ≥ 1`, exactly `G` results are counted correct, and no other result outranks
one of them (`RankOK` on the input order) ⇒ AP = 1. -/
theorem ap_one_of_perfect_results (m : Mode) (T : List Label) (th : List Rat) (G : Nat) (rs : List Res)
    (hG : 0 < G) (hcount : (rs.filter (isCorrectAt m T th)).length = G)
    (hrank : rs.Pairwise (RankOK Res.conf (isCorrectAt m T th))) {a : ApOut}
    (h : apOf .ap m T th G rs = .ok a) : a.ap = some 1 := by
  obtain ⟨ks, hk, rfl⟩ := apOf_ok h
  have hlen : ks.length = rs.length := by
    rw [classifyAll_length hk, (sortDesc_perm Res.conf rs).length_eq]
  have hne : ks ≠ [] := by
    intro he
    rw [he] at hlen
    have : rs = [] := List.length_eq_zero_iff.1 hlen.symm
    rw [this] at hcount
    simp at hcount
    omega
  rw [apOfKinds_ap hne, classifyAll_tpw hk,
    map_weights_of_split (isCorrectAt m T th) (tpValue .ap) (sortDesc_split Res.conf _ hrank)]
  have hone : ((sortDesc Res.conf rs).filter (isCorrectAt m T th)).map (tpValue .ap) = List.replicate G 1 := by
    rw [← hcount, ← (sortDesc_filter_perm Res.conf (isCorrectAt m T th) rs).length_eq]
    show List.map (fun _ => (1 : Rat)) _ = _
    exact List.map_const' ..
  rw [hone, apW_perfect G hG]

/-- the statement of the clause for an arbitrary constructor `F` (used to refute defective variants) -/
def PerfectStmt (F : Mode → List Label → List Rat → Nat → List Res → Except Err ApOut) : Prop :=
  ∀ (m : Mode) (T : List Label) (th : List Rat) (G : Nat) (rs : List Res) (a : ApOut),
    0 < G → (rs.filter (isCorrectAt m T th)).length = G →
    rs.Pairwise (RankOK Res.conf (isCorrectAt m T th)) → F m T th G rs = .ok a → a.ap = some 1

theorem perfect_apOf : PerfectStmt (apOf .ap) :=
  fun m T th G rs _ hG hc hr h => ap_one_of_perfect_results m T th G rs hG hc hr h

/-- two car results on two car ground truths … -/
def pTp (id : Nat) (c : Rat) : Res :=
  { id := id, conf := c, label := 2, gt := some { id := id, label := 2 }, score := .val (some 0), hw := 1,
    policy := .default }
/-- … a car result without ground truth … -/
def pFp (id : Nat) (c : Rat) : Res :=
  { id := id, conf := c, label := 2, gt := none, score := .val none, hw := 0, policy := .default }
/-- … and a car result paired with a pedestrian ground truth under `ALLOW_ANY` (ignored by the car AP) -/
def pIg (id : Nat) (c : Rat) : Res :=
  { id := id, conf := c, label := 2, gt := some { id := id, label := 4 }, score := .val (some 0), hw := 1,
    policy := .allowAny }

/-- non-vacuity: the hypotheses hold on a 5-result list given in scrambled order, with a confidence tie between a
correct and a wrong result resolved by the input order, an ignored and an FP result below; AP = 1 -/
example :
    let rs := [pFp 10 1, pTp 0 7, pIg 11 3, pTp 1 5, pFp 12 5]
    (rs.filter (isCorrectAt .centerDistance [2] [1])).length = 2
      ∧ rs.Pairwise (RankOK Res.conf (isCorrectAt .centerDistance [2] [1]))
      ∧ (apOf .ap .centerDistance [2] [1] 2 rs).toOption.map (·.ap) = some (some 1) := by
  decide +kernel

/-- `reverse=True` forgotten (ascending stable sort): the clause fails — one correct result (confidence 9), one wrong
result below it (confidence 1), one ground truth; the ascending ranking is [FP, TP] and AP = 1/2 -/
theorem perfect_fails_ascending : ¬ PerfectStmt (apOfWith sortAsc .ap) := by
  intro h
  have := h .centerDistance [2] [1] 1 [pTp 0 9, pFp 1 1]
    { ap := some (1/2), tpList := [0, 1], fpList := [1, 1] } (by decide) (by decide +kernel) (by decide +kernel)
    (by decide +kernel)
  revert this
  decide +kernel

/-- no ranking at all (results evaluated in input order): the clause fails on the same two results given as [FP, TP] -/
theorem perfect_fails_unsorted : ¬ PerfectStmt (apOfWith id .ap) := by
  intro h
  have := h .centerDistance [2] [1] 1 [pFp 1 1, pTp 0 9]
    { ap := some (1/2), tpList := [0, 1], fpList := [1, 1] } (by decide) (by decide +kernel) (by decide +kernel)
    (by decide +kernel)
  revert this
  decide +kernel

/-- the hypothesis speaks about EVERY result that is not counted correct: an ignored result (not an FP: it has no
threshold) ranked above the only correct result gives AP = 1/2 although every ground truth is matched by a correct
estimate and no FP outranks one -/
theorem ignored_outranking_lowers_ap :
    apOf .ap .centerDistance [2] [1] 1 [pIg 11 9, pTp 0 5]
      = .ok { ap := some (1/2), tpList := [0, 1], fpList := [0, 0] } := by
  decide +kernel

/-- … and `G ≥ 1` is needed: with no ground truth the code's recall is `0.0` and AP = 0 (see `ap_zero_of_no_gt`) -/
example : (apOf .ap .centerDistance [2] [1] 0 [pFp 1 1]).toOption.map (·.ap) = some (some 0) := by decide +kernel

/-- The clause in the property's words, for the per-label call `Ap(…, target_labels=[L], thresholds=[t])` with
`G` = number of ground truths of label `L` (as `Map` calls it):
* the ground truths are pairwise different and there is at least one of label `L`;
* no ground truth is the ground truth of two results, and the results' ground truths are among `gts` (C01);
* every ground truth of label `L` is the ground truth of a result counted correct at `t`;
* no result that is not counted correct outranks a correct one (`RankOK`: not a larger confidence, and at equal
  confidence not earlier in the input).
Then AP = 1. -/
theorem ap_one_of_all_matched (m : Mode) (L : Label) (t : Rat) (rs : List Res) (gts : List Gt)
    (hgn : gts.Nodup) (hnd : (rs.filterMap (·.gt)).Nodup) (hsub : ∀ g ∈ rs.filterMap (·.gt), g ∈ gts)
    (hex : ∃ g ∈ gts, g.label = L)
    (hall : ∀ g ∈ gts, g.label = L → ∃ r ∈ rs, r.gt = some g ∧ isCorrectAt m [L] [t] r = true)
    (hrank : rs.Pairwise (RankOK Res.conf (isCorrectAt m [L] [t]))) {a : ApOut}
    (h : apOf .ap m [L] [t] (gts.filter (fun g => g.label == L)).length rs = .ok a) : a.ap = some 1 := by
  have hcount : (rs.filter (isCorrectAt m [L] [t])).length = (gts.filter (fun g => g.label == L)).length := by
    apply correct_count_eq _ (hgn.sublist List.filter_sublist) hnd
    · intro r hr hP
      obtain ⟨g, hg, hl⟩ := isCorrectAt_gt_label hP
      refine ⟨g, List.mem_filter.2 ⟨hsub g (List.mem_filterMap.2 ⟨r, hr, hg⟩), by simp [hl]⟩, hg⟩
    · intro g hg
      obtain ⟨hg1, hg2⟩ := List.mem_filter.1 hg
      exact hall g hg1 (by simpa using hg2)
  have hG : 0 < (gts.filter (fun g => g.label == L)).length := by
    obtain ⟨g, hg, hl⟩ := hex
    exact List.length_pos_of_mem (List.mem_filter.2 ⟨hg, by simp [hl]⟩)
  exact ap_one_of_perfect_results m [L] [t] _ rs hG hcount hrank h

/-- the same with the simple ranking hypothesis: every result that is not counted correct has a confidence strictly
below every correct one -/
theorem ap_one_of_all_matched_strict (m : Mode) (L : Label) (t : Rat) (rs : List Res) (gts : List Gt)
    (hgn : gts.Nodup) (hnd : (rs.filterMap (·.gt)).Nodup) (hsub : ∀ g ∈ rs.filterMap (·.gt), g ∈ gts)
    (hex : ∃ g ∈ gts, g.label = L)
    (hall : ∀ g ∈ gts, g.label = L → ∃ r ∈ rs, r.gt = some g ∧ isCorrectAt m [L] [t] r = true)
    (hbelow : ∀ r ∈ rs, ∀ r' ∈ rs, isCorrectAt m [L] [t] r = true → isCorrectAt m [L] [t] r' = false →
      r'.conf < r.conf) {a : ApOut}
    (h : apOf .ap m [L] [t] (gts.filter (fun g => g.label == L)).length rs = .ok a) : a.ap = some 1 :=
  ap_one_of_all_matched m L t rs gts hgn hnd hsub hex hall (rankOK_of_strict Res.conf _ hbelow) h

/-- non-vacuity of `ap_one_of_all_matched_strict`: two car ground truths and a pedestrian, results in scrambled order -/
example :
    let rs := [pFp 10 1, pTp 0 7, pIg 11 3, pTp 1 5, pFp 12 4]
    let gts : List Gt := [⟨0, 2⟩, ⟨11, 4⟩, ⟨1, 2⟩]
    gts.Nodup ∧ (rs.filterMap (·.gt)).Nodup ∧ (∀ g ∈ rs.filterMap (·.gt), g ∈ gts) ∧ (∃ g ∈ gts, g.label = 2)
      ∧ (∀ g ∈ gts, g.label = 2 → ∃ r ∈ rs, r.gt = some g ∧ isCorrectAt .centerDistance [2] [1] r = true)
      ∧ (∀ r ∈ rs, ∀ r' ∈ rs, isCorrectAt .centerDistance [2] [1] r = true →
          isCorrectAt .centerDistance [2] [1] r' = false → r'.conf < r.conf) := by
  decide +kernel

/-! ## APH in the perfect case -/

/-- Same hypotheses, heading weights in `[0,1]`: APH is defined, lies between 0 and the mean heading weight of the
correct results `(Σ hw) / G`, and equals 1 (= AP) exactly when every correct result has heading weight 1. -/
theorem aph_of_perfect_results (m : Mode) (T : List Label) (th : List Rat) (G : Nat) (rs : List Res)
    (hG : 0 < G) (hcount : (rs.filter (isCorrectAt m T th)).length = G)
    (hrank : rs.Pairwise (RankOK Res.conf (isCorrectAt m T th)))
    (hw : ∀ r ∈ rs, 0 ≤ r.hw ∧ r.hw ≤ 1) {a : ApOut} (h : apOf .aph m T th G rs = .ok a) :
    ∃ x, a.ap = some x ∧ 0 ≤ x ∧ x ≤ ((rs.filter (isCorrectAt m T th)).map Res.hw).sum / (G : Rat)
      ∧ (x = 1 ↔ ∀ r ∈ rs, isCorrectAt m T th r = true → r.hw = 1) := by
  obtain ⟨ks, hk, rfl⟩ := apOf_ok h
  have hlen : ks.length = rs.length := by
    rw [classifyAll_length hk, (sortDesc_perm Res.conf rs).length_eq]
  have hne : ks ≠ [] := by
    intro he
    rw [he] at hlen
    have : rs = [] := List.length_eq_zero_iff.1 hlen.symm
    rw [this] at hcount
    simp at hcount
    omega
  have hGq : (0 : Rat) < (G : Rat) := by exact_mod_cast hG
  set P := isCorrectAt m T th with hPdef
  set S := (sortDesc Res.conf rs).filter P with hSdef
  have hperm : S.Perm (rs.filter P) := sortDesc_filter_perm Res.conf P rs
  have hSmem : ∀ r ∈ S, r ∈ rs ∧ P r = true := by
    intro r hr
    have := hperm.mem_iff.1 hr
    exact List.mem_filter.1 this
  have hmapw : S.map (tpValue .aph) = S.map Res.hw :=
    List.map_congr_left (fun r hr => tpValue_aph_of_correct (hSmem r hr).2)
  have hws : ks.map Kind.tpw
      = S.map Res.hw ++ List.replicate ((sortDesc Res.conf rs).filter (fun a => !P a)).length 0 := by
    rw [classifyAll_tpw hk, map_weights_of_split P (tpValue .aph) (sortDesc_split Res.conf _ hrank), hmapw]
  have hSlen : S.length = G := by rw [hperm.length_eq, hcount]
  have hsum : (S.map Res.hw).sum = ((rs.filter P).map Res.hw).sum := perm_sum_eq (hperm.map Res.hw)
  have hbnd : ∀ w ∈ S.map Res.hw ++ List.replicate ((sortDesc Res.conf rs).filter (fun a => !P a)).length 0,
      0 ≤ w ∧ w ≤ 1 := by
    intro w hw'
    rcases List.mem_append.1 hw' with h1 | h1
    · obtain ⟨r, hr, rfl⟩ := List.mem_map.1 h1
      exact hw r (hSmem r hr).1
    · rw [(List.mem_replicate.1 h1).2]; exact ⟨le_refl 0, zero_le_one⟩
  refine ⟨_, apOfKinds_ap hne, ?_, ?_, ?_⟩
  · rw [hws]
    exact apW_nonneg G (le_refl 0) (fun w hw' => (hbnd w hw').1)
  · rw [hws]
    have h1 := apW_le_recall_total G (i := 0) (c := 0) (le_refl 0) (by simp) hbnd
    rw [sum_append_zeros, hsum] at h1
    simpa [recallOf, hG] using h1
  · constructor
    · intro hx r hr hPr
      by_contra hne1
      have hlt : r.hw < 1 := lt_of_le_of_ne (hw r hr).2 hne1
      have hrS : r ∈ S := hperm.mem_iff.2 (List.mem_filter.2 ⟨hr, hPr⟩)
      have hslt : (S.map Res.hw).sum < ((S.map Res.hw).length : Rat) :=
        sum_lt_length (fun w hw' => by
          obtain ⟨r', hr', rfl⟩ := List.mem_map.1 hw'
          exact (hw r' (hSmem r' hr').1).2) ⟨r.hw, List.mem_map.2 ⟨r, hrS, rfl⟩, hlt⟩
      rw [List.length_map, hSlen] at hslt
      have h1 := apW_le_recall_total G (i := 0) (c := 0) (le_refl 0) (by simp) hbnd
      rw [sum_append_zeros] at h1
      rw [hws] at hx
      rw [hx] at h1
      have h2 : recallOf G (S.map Res.hw).sum < 1 := by
        simp only [recallOf, hG, if_true]
        exact (div_lt_one hGq).2 hslt
      linarith
    · intro hall
      rw [hws]
      have : S.map Res.hw = List.replicate G 1 := by
        rw [← hSlen]
        rw [List.map_congr_left (g := fun _ => (1 : Rat)) (fun r hr => hall r (hSmem r hr).1 (hSmem r hr).2)]
        exact List.map_const' ..
      rw [this, apW_perfect G hG]

/-- non-vacuity: heading weights 1/2 and 1 on two correct results, 2 ground truths: APH = 9/16 ≤ 3/4 = mean weight < 1 = AP -/
example :
    let rs : List Res := [{ pTp 0 7 with hw := 1/2 }, pTp 1 5, pFp 12 4]
    (apOf .aph .centerDistance [2] [1] 2 rs).toOption.map (·.ap) = some (some (9/16))
      ∧ (apOf .ap .centerDistance [2] [1] 2 rs).toOption.map (·.ap) = some (some 1) := by
  decide +kernel

/-! ## AP = 0 and the undefined case -/

/-- No result counted correct (at least one result, any ground-truth count, AP or APH) ⇒ the score is 0. -/
theorem ap_zero_of_none_correct (tm : TpMetric) (m : Mode) (T : List Label) (th : List Rat) (G : Nat)
    (rs : List Res) (hne : rs ≠ []) (hno : ∀ r ∈ rs, isCorrectAt m T th r = false) {a : ApOut}
    (h : apOf tm m T th G rs = .ok a) : a.ap = some 0 := by
  obtain ⟨ks, hk, rfl⟩ := apOf_ok h
  have hlen : ks.length = rs.length := by
    rw [classifyAll_length hk, (sortDesc_perm Res.conf rs).length_eq]
  have hkne : ks ≠ [] := by
    intro he
    rw [he] at hlen
    exact hne (List.length_eq_zero_iff.1 hlen.symm)
  apply ap_zero_of_no_tp G ks hkne
  apply classifyAll_forall (P := fun k => k.tpw = 0) _ hk
  intro r hr k hk'
  rw [(classify_isTp hk').2, hno r (mem_sortDesc.1 hr)]
  simp

/-- the statement of the zero clause for an arbitrary "ranking → Ap" step (used to refute stored change C04_G) -/
def ZeroStmt (K : Nat → List Kind → ApOut) : Prop :=
  ∀ (G : Nat) (ks : List Kind), ks ≠ [] → (∀ k ∈ ks, k.tpw = 0) → (K G ks).ap = some 0

theorem zero_apOfKinds : ZeroStmt apOfKinds := fun G ks h1 h2 => ap_zero_of_no_tp G ks h1 h2

/-- stored change C04_G (AP undefined as soon as there is no ground truth): the zero clause fails for one FP and `G = 0` -/
theorem zero_fails_C04G : ¬ ZeroStmt apOfKindsC04G := by
  intro h
  have := h 0 [Kind.fp] (by decide) (by decide)
  revert this
  decide +kernel

/-- No ground truth at all (`num_ground_truth = 0`) but at least one result: every recall is the code's `0.0`
branch and the score is 0 whatever the results are (in particular never 1, never undefined). -/
theorem ap_zero_of_no_gt (tm : TpMetric) (m : Mode) (T : List Label) (th : List Rat) (rs : List Res)
    (hne : rs ≠ []) {a : ApOut} (h : apOf tm m T th 0 rs = .ok a) : a.ap = some 0 := by
  obtain ⟨ks, hk, rfl⟩ := apOf_ok h
  have hlen : ks.length = rs.length := by
    rw [classifyAll_length hk, (sortDesc_perm Res.conf rs).length_eq]
  have hkne : ks ≠ [] := by
    intro he
    rw [he] at hlen
    exact hne (List.length_eq_zero_iff.1 hlen.symm)
  rw [apOfKinds_ap hkne, apW_no_gt]

/-- No result: the constructor returns AP = `inf` (`none`), `tp_list = [0.0] * G` and `fp_list = [1, …, G]`
(both empty for `G = 0`), for every metric, mode, target list and threshold list — never an exception. -/
theorem ap_no_results (tm : TpMetric) (m : Mode) (T : List Label) (th : List Rat) (G : Nat) :
    apOf tm m T th G [] = .ok { ap := none, tpList := List.replicate G 0,
                                 fpList := (List.range G).map (fun (i : Nat) => ((i : Rat) + 1)) } := by
  cases G with
  | zero => rfl
  | succ n => simp [apOf, sortDesc, classifyAll, apOfKinds, tpFpLists]

/-- non-vacuity of `ap_zero_of_none_correct`: an FP, an ignored and a too-far result, two ground truths -/
example :
    let rs : List Res := [pFp 10 1, pIg 11 3, { pTp 0 7 with score := .val (some 2) }]
    rs ≠ [] ∧ (∀ r ∈ rs, isCorrectAt .centerDistance [2] [1] r = false)
      ∧ (apOf .ap .centerDistance [2] [1] 2 rs).toOption.map (·.ap) = some (some 0) := by
  decide +kernel

/-! ## totality: when does `Ap.__init__` return (audit C04 F8) -/

/-- `Ap.__init__` raises nothing when the threshold list is at least as long as the target list, every threshold is valid
for the mode (IoU: in `[0,1]`) and every result has a matching method for the mode. -/
theorem apOf_total (tm : TpMetric) (m : Mode) (T : List Label) (th : List Rat) (G : Nat) (rs : List Res)
    (hlen : T.length ≤ th.length) (hv : ∀ t ∈ th, thrValid m t = true)
    (hs : ∀ r ∈ rs, r.score ≠ .noMethod) : ∃ a, apOf tm m T th G rs = .ok a := by
  have hcl : ∀ r, ∃ k, classify tm m T th r = .ok k := by
    intro r
    unfold classify getLabelThreshold
    cases hf : T.findIdx? (· == keyLabel r) with
    | none => exact ⟨_, rfl⟩
    | some i =>
      have hi : i < T.length := by
        have := List.findIdx?_eq_some_iff_findIdx_eq.1 hf
        exact this.1
      have hi' : i < th.length := lt_of_lt_of_le hi hlen
      simp only [List.getElem?_eq_getElem hi']
      have hvt := hv th[i] (List.getElem_mem hi')
      obtain ⟨b, hb⟩ := isResultCorrect_total r hvt
      simp only [hb]
      cases b <;> exact ⟨_, rfl⟩
  have hall : ∀ L : List Res, ∃ ks, classifyAll tm m T th L = .ok ks := by
    intro L
    induction L with
    | nil => exact ⟨[], rfl⟩
    | cons r t ih =>
      obtain ⟨k, hk⟩ := hcl r
      obtain ⟨ks, hks⟩ := ih
      exact ⟨k :: ks, by simp [classifyAll, hk, hks]⟩
  obtain ⟨ks, hks⟩ := hall (sortDesc Res.conf rs)
  have hany : rs.any (fun r => r.score == Score.noMethod) = false := by
    rw [List.any_eq_false]
    intro r hr
    simpa using hs r hr
  exact ⟨apOfKinds G ks, by simp [apOf, hks, hany]⟩

example : (∀ t ∈ [(1 : Rat), 2], thrValid .centerDistance t = true) ∧ [2, 4].length ≤ [(1 : Rat), 2].length
    ∧ ∀ r ∈ [pTp 0 7, pFp 1 1], r.score ≠ .noMethod := by decide +kernel

end PEval.C04
