import PEval.Lemmas.APDict
import PEval.Lemmas.PipelineAP
import PEval.Properties.Pipeline
/-!
# C13 — what the code does when the hypotheses `LabelsAgree` / `TracksBy` fail

`ManagerHeap.LabelsAgree` (hypothesis of `stored_results_stay_good`, `heap_refines_manager(_from)`,
`heap_scene_eq_manager_scene`, `heap_scene_eq_pooled_ops`, `heap_scene_is_AP_sceneMap_of_reached_state`) and
`ManagerHeap.TracksBy` (hypothesis of `heap_refines_tracking_machine`) say that `evaluate_frame` divides the object
results and ground truths by the SAME target labels as `get_scene_result` does.  The code does not guarantee it:
`evaluate_frame` divides by `critical_object_filter_config.target_labels` (an argument of every `add_frame_result`
call, `perception_frame_config.py: CriticalObjectFilterConfig.__init__`), the metrics and `get_scene_result` iterate over
the manager's `target_labels`.  What happens in the code, case by case (run against /repo, detection and tracking task):

* critical labels a PERMUTATION or a SUPERSET of the manager's labels: the dicts are read by key
  (`Map.__init__`: `object_results_dict[target_label]`; C04 `map_reads_dicts_by_key`), extra keys are ignored, the
  frame-level and the scene-level buckets of every manager label coincide — the hypothesis holds of the code's dicts
  (in the list-indexed `Det` of the model: after re-indexing by the manager's label order).
* critical labels NOT covering a manager label `l`: `divide_objects(…, critical labels)` has no key `l`;
  `MetricsScore.evaluate_detection` → `Map.__init__` (`map.py`: `object_results_dict[target_label]`), resp.
  `evaluate_tracking` → `TrackingMetricsScore.__init__` (`tracking_metrics_score.py`, same line), resp. the classification
  score raise `KeyError(l)` INSIDE `evaluate_frame`, i.e. inside `add_frame_result` before
  `self.frame_results.append(result)`: the call raises, nothing is stored, the caller's ground-truth frame and estimate
  list are untouched (the writes go to the private copy).  Observation O2 of DESIGN §7.  The one exception: an object
  result filed under `l` through its ground truth's label creates the key (`divide_objects` files a result whose estimate
  label is no target under its ground truth's label) — then only `num_ground_truth_dict[l]` raises the `KeyError`.

The theorems below are the model's statement of the error outcome: `Pipeline.frameMap2` (the frame-level `Map` with the
two label lists of `evaluate_frame`) and `Pipeline.detectFrame` return an error — `"KeyError"` when the first metrics
label is the uncovered one — so no `HResult` exists for such a call and the theorems about the heap machine (`HSem` is
total) are about calls that return.
-/
namespace PEval.C13
open PEval PEval.AP

theorem lookupKey_foldl_missing {divT : List Label} {l : Label} :
    ∀ (xs : List Res) (acc : List (Label × List Res)), lookupKey l acc = .error "KeyError" →
      (∀ r ∈ xs, bucketLabel (some divT) r ≠ some l) →
      lookupKey l (xs.foldl (fun acc r =>
        match bucketLabel (some divT) r with
        | some l' => bucketAdd l' r acc
        | none => acc) acc) = .error "KeyError" := by
  intro xs
  induction xs with
  | nil => intro acc h _; exact h
  | cons r xs ih =>
    intro acc h hno
    simp only [List.foldl_cons]
    apply ih
    · cases hb : bucketLabel (some divT) r with
      | none => exact h
      | some l' =>
        have hne : l' ≠ l := by
          intro e; subst e
          exact hno r List.mem_cons_self hb
        simp only
        rw [lookupKey_bucketAdd_ne hne]
        exact h
    · intro r' hr'
      exact hno r' (List.mem_cons_of_mem _ hr')

/-- `divide_objects(object_results, critical labels)` has no key `l` when `l` is no critical label and no object result
is filed under `l` -/
theorem lookupKey_divideObjects_missing {divT : List Label} {rs : List Res} {l : Label}
    (hl : l ∉ divT) (hno : ∀ r ∈ rs, bucketLabel (some divT) r ≠ some l) :
    lookupKey l (divideObjects (some divT) rs) = .error "KeyError" := by
  unfold divideObjects
  apply lookupKey_foldl_missing rs _ _ hno
  rw [Option.getD_some, lookupKey_init]
  have : divT.contains l = false := by simpa using hl
  rw [this]
  rfl

/-- the per-label loop of `Map.__init__` raises as soon as one of its labels has no bucket -/
theorem mapLoop_error_of_missing {m : Mode} {is2d : Bool} {buckets : List (Label × List (List Res))}
    {nums : List (Label × Nat)} {l : Label} (hmiss : lookupKey l buckets = .error "KeyError") :
    ∀ {lts : List (Label × Rat)} {t : Rat}, (l, t) ∈ lts → ∃ e, mapLoop m is2d buckets nums lts = .error e := by
  intro lts
  induction lts with
  | nil => intro t h; cases h
  | cons lt rest ih =>
    intro t h
    obtain ⟨l0, t0⟩ := lt
    unfold mapLoop
    rcases List.mem_cons.1 h with h | h
    · cases h
      rw [hmiss]
      exact ⟨_, rfl⟩
    · cases h1 : lookupKey l0 buckets with
      | error e => exact ⟨e, rfl⟩
      | ok rs =>
        dsimp only
        cases h2 : lookupKey l0 nums with
        | error e => exact ⟨e, rfl⟩
        | ok G =>
          dsimp only
          cases h3 : apOfNested .ap m [l0] [t0] G rs with
          | error e => exact ⟨e, rfl⟩
          | ok a =>
            dsimp only
            cases h4 : (if is2d then (.ok none : Except Err (Option ApOut)) else (apOfNested .aph m [l0] [t0] G rs).map some) with
            | error e => exact ⟨e, rfl⟩
            | ok hh =>
              dsimp only
              obtain ⟨e, he⟩ := ih h
              exact ⟨e, by rw [he]⟩

/-- **critical labels not covering a metrics label: the frame-level `Map` raises** (any error of an earlier label's
`Ap` may come first; with the uncovered label first it is the `KeyError`) -/
theorem frameMap2_error_of_uncovered_label {m : Mode} {is2d : Bool} {divT mapT : List Label} {thrs : List Rat}
    {rs : List Res} {gl : List Label} {l : Label} {t : Rat} (hmem : (l, t) ∈ mapT.zip thrs) (hl : l ∉ divT)
    (hno : ∀ r ∈ rs, bucketLabel (some divT) r ≠ some l) :
    ∃ e, Pipeline.frameMap2 m is2d divT mapT thrs rs gl = .error e := by
  unfold Pipeline.frameMap2 mapOf
  have hmiss : lookupKey l ((divideObjects (some divT) rs).map (fun kv => (kv.1, [kv.2]))) = .error "KeyError" := by
    rw [lookupKey_map (fun v : List Res => [v]) l, lookupKey_divideObjects_missing hl hno]
    rfl
  obtain ⟨e, he⟩ := mapLoop_error_of_missing (m := m) (is2d := is2d)
    (nums := divideObjectsToNum (some divT) gl) hmiss hmem
  exact ⟨e, by rw [he]⟩

theorem frameMap2_keyError_first {m : Mode} {is2d : Bool} {divT mapT : List Label} {thrs : List Rat}
    {rs : List Res} {gl : List Label} {l : Label} {t : Rat} (hl : l ∉ divT)
    (hno : ∀ r ∈ rs, bucketLabel (some divT) r ≠ some l) :
    Pipeline.frameMap2 m is2d divT (l :: mapT) (t :: thrs) rs gl = .error "KeyError" := by
  unfold Pipeline.frameMap2 mapOf
  have hmiss : lookupKey l ((divideObjects (some divT) rs).map (fun kv => (kv.1, [kv.2]))) = .error "KeyError" := by
    rw [lookupKey_map (fun v : List Res => [v]) l, lookupKey_divideObjects_missing hl hno]
    rfl
  simp only [List.zip_cons_cons, mapLoop, hmiss]

/-- … hence `add_frame_result` → `evaluate_frame` raises and stores nothing: `Pipeline.detectFrame` returns an error
whenever the first `Map` of the frame has a label (with a threshold) that the critical filter's target labels do not
cover and under which no surviving object result is filed -/
theorem detectFrame_error_of_uncovered_label (f : Pipeline.Frame) (rs : List Matching.Res)
    (hr : Matching.getObjectResults f.cfg f.scene = .ok rs) (mc : Pipeline.MapCfg) (rest : List Pipeline.MapCfg)
    (hm : f.maps = mc :: rest) {l : Label} {t : Rat} (hmem : (l, t) ∈ f.mapTargets.zip mc.thrs)
    (hl : l ∉ f.critTargets)
    (hno : ∀ r ∈ Pipeline.apResults f mc.mode rs, bucketLabel (some f.critTargets) r ≠ some l) :
    ∃ e, Pipeline.detectFrame f = .error e := by
  obtain ⟨e, he⟩ := frameMap2_error_of_uncovered_label (m := mc.mode) (is2d := false) (thrs := mc.thrs)
    (gl := (Pipeline.apGts f).map (·.label)) hmem hl hno
  refine ⟨e, ?_⟩
  unfold Pipeline.detectFrame
  rw [hr, hm]
  simp only [Pipeline.mapsFor, Pipeline.mapFor, he]

/-! ### the instance: the frame of `Properties/Pipeline.lean` with the critical filter's labels `[car]` only, metrics
labels `[car, pedestrian]` — `KeyError`, as the real code (`add_frame_result` raises `KeyError(<AutowareLabel.PEDESTRIAN>)`,
`len(manager.frame_results)` stays 0) -/

example : (match Pipeline.detectFrame { PipelineProps.exFrame with critTargets := [2] } with
    | .error e => some e
    | .ok _ => none) = some "KeyError" := by decide +kernel
/-- a permutation or a superset of the labels changes no score (dicts are read by key) -/
example : (Pipeline.detectFrame { PipelineProps.exFrame with critTargets := [4, 2] }).toOption.map (·.maps)
      = (Pipeline.detectFrame PipelineProps.exFrame).toOption.map (·.maps) ∧
    (Pipeline.detectFrame { PipelineProps.exFrame with critTargets := [2, 4, 7] }).toOption.map (·.maps)
      = (Pipeline.detectFrame PipelineProps.exFrame).toOption.map (·.maps) := by decide +kernel

end PEval.C13
