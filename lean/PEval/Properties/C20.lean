import PEval.Lemmas.Table
/-!
# C20 — configuration strings parse to the enum member they name

The `(name, value)` tables `PEval.Gen.*` are regenerated from /repo on every run, so the `decide`
side conditions below (values pairwise distinct, already lower-case, names = upper-cased values …)
are re-checked against what the code says now; the parsers' control flow is hand-modelled in
`PEval.Model.Enums` and tied to the code by the exhaustive correspondence run of the check.
-/
namespace PEval.C20
open PEval.Enums PEval

/-! ## side conditions on the regenerated tables -/

theorem task_values_nodup : (values Gen.evaluationTask).Nodup := by decide
theorem frame_values_nodup : (values Gen.frameID).Nodup := by decide
theorem frame_values_lower : ∀ p ∈ Gen.frameID, p.2.toLower = p.2 := by decide +kernel
theorem visibility_values_nodup : (values Gen.visibility).Nodup := by decide
theorem sensor_values_nodup : (values Gen.sensorModality).Nodup := by decide
theorem shape_values_nodup : (values Gen.shapeType).Nodup := by decide
theorem policy_names_upper : ∀ p ∈ Gen.matchingLabelPolicy, p.2.toUpper = p.1 := by decide +kernel
theorem alias_disjoint_values : ∀ a ∈ Gen.visibilityAlias, a.1 ∉ values Gen.visibility := by decide
theorem alias_keys_nodup : (Gen.visibilityAlias.map (·.1)).Nodup := by decide
theorem alias_targets_members : ∀ a ∈ Gen.visibilityAlias, a.2 ∈ names Gen.visibility := by decide
theorem alias_fallback_member : Gen.visibilityAliasFallback ∈ names Gen.visibility := by decide

/-! ## round trips: every member is returned for its own string value -/

theorem roundtrip_task : ∀ p ∈ Gen.evaluationTask, taskFromValue p.2 = .ok p.1 := by
  intro p hp; simp [taskFromValue, firstByValue_mem task_values_nodup hp]

theorem roundtrip_setTask : ∀ p ∈ Gen.evaluationTask, setTask p.2 = some p.1 := by
  intro p hp; simp [setTask, firstByValue_mem task_values_nodup hp]

theorem roundtrip_frame : ∀ p ∈ Gen.frameID, frameFromValue p.2 = .ok p.1 := by
  intro p hp
  simp [frameFromValue, frame_values_lower p hp, firstByValue_mem frame_values_nodup hp]

/-- the documented upper-case spelling is accepted too -/
theorem roundtrip_frame_upper : ∀ p ∈ Gen.frameID, frameFromValue p.2.toUpper = .ok p.1 := by decide +kernel

theorem roundtrip_visibility : ∀ p ∈ Gen.visibility, visibilityFromValue p.2 = .ok p.1 := by
  intro p hp; simp [visibilityFromValue, firstByValue_mem visibility_values_nodup hp]

theorem roundtrip_sensor : ∀ p ∈ Gen.sensorModality, sensorFromValue p.2 = .ok p.1 := by
  intro p hp; simp [sensorFromValue, firstByValue_mem sensor_values_nodup hp]

theorem roundtrip_shapeType : ∀ p ∈ Gen.shapeType, shapeTypeFromValue p.2 = .ok p.1 := by
  intro p hp; simp [shapeTypeFromValue, firstByValue_mem shape_values_nodup hp]

theorem roundtrip_policy : ∀ p ∈ Gen.matchingLabelPolicy, policyFromStr p.2 = .ok p.1 := by decide +kernel

/-- lower-case spelling of a policy (documented: `from_str` upper-cases) -/
theorem roundtrip_policy_lower : ∀ p ∈ Gen.matchingLabelPolicy, policyFromStr p.2.toLower = .ok p.1 := by
  decide +kernel

/-! ## any other string: rejected, or mapped to the documented fallback -/

theorem nonmember_task (s : String) (h : s ∉ values Gen.evaluationTask) :
    taskFromValue s = .error "ValueError" := by
  simp [taskFromValue, firstByValue_none h]

theorem nonmember_setTask (s : String) (h : s ∉ values Gen.evaluationTask) : setTask s = none := by
  simp [setTask, firstByValue_none h]

theorem nonmember_frame (s : String) (h : s.toLower ∉ values Gen.frameID) :
    frameFromValue s = .error "ValueError" := by
  simp [frameFromValue, firstByValue_none h]

theorem nonmember_sensor (s : String) (h : s ∉ values Gen.sensorModality) :
    sensorFromValue s = .error "ValueError" := by
  simp [sensorFromValue, firstByValue_none h]

theorem nonmember_shapeType (s : String) (h : s ∉ values Gen.shapeType) :
    shapeTypeFromValue s = .error "ValueError" := by
  simp [shapeTypeFromValue, firstByValue_none h]

theorem nonmember_policy (s : String) (h : s.toUpper ∉ names Gen.matchingLabelPolicy) :
    policyFromStr s = .error "AssertionError" := by
  simp only [policyFromStr]
  have : (names Gen.matchingLabelPolicy).contains s.toUpper = false := by
    rw [List.contains_eq_mem]; exact decide_eq_false h
  rw [this]; rfl

/-- Visibility: a documented alias gives the documented member … -/
theorem visibility_alias : ∀ a ∈ Gen.visibilityAlias, visibilityFromValue a.1 = .ok a.2 := by decide

/-- … and every other non-member string gives the documented fallback member -/
theorem visibility_fallback (s : String) (h : s ∉ values Gen.visibility)
    (ha : s ∉ Gen.visibilityAlias.map (·.1)) :
    visibilityFromValue s = .ok Gen.visibilityAliasFallback := by
  have hnone : Gen.visibilityAlias.find? (fun p => p.1 == s) = none := by
    rw [List.find?_eq_none]
    intro p hp hps
    exact ha (List.mem_map.2 ⟨p, hp, by simpa using hps⟩)
  simp [visibilityFromValue, firstByValue_none h, visibilityFromAlias, hnone]

/-- whatever the string, `Visibility.from_value` answers with a member -/
theorem visibility_total (s : String) : ∃ m ∈ names Gen.visibility, visibilityFromValue s = .ok m := by
  unfold visibilityFromValue
  cases h : firstByValue Gen.visibility s with
  | some m =>
    exact ⟨m, List.mem_map.2 ⟨(m, s), firstByValue_some_mem h, rfl⟩, rfl⟩
  | none =>
    refine ⟨visibilityFromAlias s, ?_, rfl⟩
    unfold visibilityFromAlias
    cases hf : Gen.visibilityAlias.find? (fun p => p.1 == s) with
    | none => exact alias_fallback_member
    | some p => exact alias_targets_members p (List.mem_of_find?_eq_some hf)

/-! ## string-or-enum call sites behave identically for both spellings -/

theorem shape_str_eq_enum : ∀ p ∈ Gen.shapeType, shapeTypeOfArg (.str p.2) = shapeTypeOfArg (.member p.1) := by
  intro p hp; simp [shapeTypeOfArg, roundtrip_shapeType p hp]

theorem frameArg_str_eq_enum : ∀ p ∈ Gen.frameID, frameOfArg (.str p.2) = frameOfArg (.member p.1) := by
  intro p hp; simp [frameOfArg, roundtrip_frame p hp]

theorem frameArg_upper_eq_enum : ∀ p ∈ Gen.frameID, frameOfArg (.str p.2.toUpper) = frameOfArg (.member p.1) := by
  intro p hp; simp [frameOfArg, roundtrip_frame_upper p hp]

theorem transformKey_str_eq_enum : ∀ p ∈ Gen.frameID, ∀ r ∈ Gen.frameID,
    transformKey (.str p.2) (.str r.2) = transformKey (.member p.1) (.member r.1) ∧
    transformKey (.str p.2.toUpper) (.member r.1) = transformKey (.member p.1) (.member r.1) := by
  intro p hp r hr
  simp [transformKey, frameOfArg, roundtrip_frame p hp, roundtrip_frame r hr, roundtrip_frame_upper p hp]

/-! ## non-vacuity: the hypotheses are met by concrete strings -/
example : "detection " ∉ values Gen.evaluationTask := by decide
example : ("bogus" : String).toLower ∉ values Gen.frameID := by decide +kernel
example : taskFromValue "tracking" = .ok "TRACKING" := by decide
example : frameFromValue "MAP" = .ok "MAP" := by decide +kernel
example : visibilityFromValue "v0-40" = .ok "NONE" := by decide
example : visibilityFromValue "whatever" = .ok "UNAVAILABLE" := by decide

end PEval.C20
