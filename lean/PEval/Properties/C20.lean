import PEval.Lemmas.Table
/-!
# C20 — configuration strings parse to the enum member they name

The `(name, value)` tables `PEval.Gen.*` are regenerated from /repo on every run, so the `decide`
side conditions below (values pairwise distinct, already lower-case, names = upper-cased values …)
are re-checked against what the code says now; the parsers' control flow is hand-modelled in
`PEval.Model.Enums` and tied to the code by the exhaustive correspondence run of the check.
-/
namespace PEval.C20
open PEval.Enums PEval

/-! ## side conditions on the regenerated tables -/

theorem task_values_nodup : (values Gen.evaluationTask).Nodup := by decide
theorem frame_values_nodup : (values Gen.frameID).Nodup := by decide
theorem frame_values_lower : ∀ p ∈ Gen.frameID, p.2.toLower = p.2 := by decide +kernel
theorem visibility_values_nodup : (values Gen.visibility).Nodup := by decide
theorem sensor_values_nodup : (values Gen.sensorModality).Nodup := by decide
theorem shape_values_nodup : (values Gen.shapeType).Nodup := by decide
theorem policy_names_upper : ∀ p ∈ Gen.matchingLabelPolicy, p.2.toUpper = p.1 := by decide +kernel
theorem alias_disjoint_values : ∀ a ∈ Gen.visibilityAlias, a.1 ∉ values Gen.visibility := by decide
theorem alias_keys_nodup : (Gen.visibilityAlias.map (·.1)).Nodup := by decide
theorem alias_targets_members : ∀ a ∈ Gen.visibilityAlias, a.2 ∈ names Gen.visibility := by decide
theorem alias_fallback_member : Gen.visibilityAliasFallback ∈ names Gen.visibility := by decide

/-! ## round trips: every member is returned for its own string value -/

theorem roundtrip_task : ∀ p ∈ Gen.evaluationTask, taskFromValue p.2 = .ok p.1 := by
  intro p hp; simp [taskFromValue, firstByValue_mem task_values_nodup hp]

theorem roundtrip_setTask : ∀ p ∈ Gen.evaluationTask, setTask p.2 = some p.1 := by
  intro p hp; simp [setTask, firstByValue_mem task_values_nodup hp]

theorem roundtrip_frame : ∀ p ∈ Gen.frameID, frameFromValue p.2 = .ok p.1 := by
  intro p hp
  simp [frameFromValue, frame_values_lower p hp, firstByValue_mem frame_values_nodup hp]

/-- the documented upper-case spelling is accepted too -/
theorem roundtrip_frame_upper : ∀ p ∈ Gen.frameID, frameFromValue p.2.toUpper = .ok p.1 := by decide +kernel

theorem roundtrip_visibility : ∀ p ∈ Gen.visibility, visibilityFromValue p.2 = .ok p.1 := by
  intro p hp; simp [visibilityFromValue, firstByValue_mem visibility_values_nodup hp]

theorem roundtrip_sensor : ∀ p ∈ Gen.sensorModality, sensorFromValue p.2 = .ok p.1 := by
  intro p hp; simp [sensorFromValue, firstByValue_mem sensor_values_nodup hp]

theorem roundtrip_shapeType : ∀ p ∈ Gen.shapeType, shapeTypeFromValue p.2 = .ok p.1 := by
  intro p hp; simp [shapeTypeFromValue, firstByValue_mem shape_values_nodup hp]

theorem roundtrip_policy : ∀ p ∈ Gen.matchingLabelPolicy, policyFromStr p.2 = .ok p.1 := by decide +kernel

/-- lower-case spelling of a policy (documented: `from_str` upper-cases) -/
theorem roundtrip_policy_lower : ∀ p ∈ Gen.matchingLabelPolicy, policyFromStr p.2.toLower = .ok p.1 := by
  decide +kernel

/-! ## any other string: rejected, or mapped to the documented fallback -/

theorem nonmember_task (s : String) (h : s ∉ values Gen.evaluationTask) :
    taskFromValue s = .error "ValueError" := by
  simp [taskFromValue, firstByValue_none h]

theorem nonmember_setTask (s : String) (h : s ∉ values Gen.evaluationTask) : setTask s = none := by
  simp [setTask, firstByValue_none h]

theorem nonmember_frame (s : String) (h : s.toLower ∉ values Gen.frameID) :
    frameFromValue s = .error "ValueError" := by
  simp [frameFromValue, firstByValue_none h]

theorem nonmember_sensor (s : String) (h : s ∉ values Gen.sensorModality) :
    sensorFromValue s = .error "ValueError" := by
  simp [sensorFromValue, firstByValue_none h]

theorem nonmember_shapeType (s : String) (h : s ∉ values Gen.shapeType) :
    shapeTypeFromValue s = .error "ValueError" := by
  simp [shapeTypeFromValue, firstByValue_none h]

theorem nonmember_policy (s : String) (h : s.toUpper ∉ names Gen.matchingLabelPolicy) :
    policyFromStr s = .error "AssertionError" := by
  simp only [policyFromStr]
  have : (names Gen.matchingLabelPolicy).contains s.toUpper = false := by
    rw [List.contains_eq_mem]; exact decide_eq_false h
  rw [this]; rfl

/-- Visibility: a documented alias gives the documented member … -/
theorem visibility_alias : ∀ a ∈ Gen.visibilityAlias, visibilityFromValue a.1 = .ok a.2 := by decide

/-- … and every other non-member string gives the documented fallback member -/
theorem visibility_fallback (s : String) (h : s ∉ values Gen.visibility)
    (ha : s ∉ Gen.visibilityAlias.map (·.1)) :
    visibilityFromValue s = .ok Gen.visibilityAliasFallback := by
  have hnone : Gen.visibilityAlias.find? (fun p => p.1 == s) = none := by
    rw [List.find?_eq_none]
    intro p hp hps
    exact ha (List.mem_map.2 ⟨p, hp, by simpa using hps⟩)
  simp [visibilityFromValue, firstByValue_none h, visibilityFromAlias, hnone]

/-- whatever the string, `Visibility.from_value` answers with a member -/
theorem visibility_total (s : String) : ∃ m ∈ names Gen.visibility, visibilityFromValue s = .ok m := by
  unfold visibilityFromValue
  cases h : firstByValue Gen.visibility s with
  | some m =>
    exact ⟨m, List.mem_map.2 ⟨(m, s), firstByValue_some_mem h, rfl⟩, rfl⟩
  | none =>
    refine ⟨visibilityFromAlias s, ?_, rfl⟩
    unfold visibilityFromAlias
    cases hf : Gen.visibilityAlias.find? (fun p => p.1 == s) with
    | none => exact alias_fallback_member
    | some p => exact alias_targets_members p (List.mem_of_find?_eq_some hf)

/-! ## string-or-enum call sites behave identically for both spellings -/

theorem shape_str_eq_enum : ∀ p ∈ Gen.shapeType, shapeTypeOfArg (.str p.2) = shapeTypeOfArg (.member p.1) := by
  intro p hp; simp [shapeTypeOfArg, roundtrip_shapeType p hp]

theorem frameArg_str_eq_enum : ∀ p ∈ Gen.frameID, frameOfArg (.str p.2) = frameOfArg (.member p.1) := by
  intro p hp; simp [frameOfArg, roundtrip_frame p hp]

theorem frameArg_upper_eq_enum : ∀ p ∈ Gen.frameID, frameOfArg (.str p.2.toUpper) = frameOfArg (.member p.1) := by
  intro p hp; simp [frameOfArg, roundtrip_frame_upper p hp]

theorem transformKey_str_eq_enum : ∀ p ∈ Gen.frameID, ∀ r ∈ Gen.frameID,
    transformKey (.str p.2) (.str r.2) = transformKey (.member p.1) (.member r.1) ∧
    transformKey (.str p.2.toUpper) (.member r.1) = transformKey (.member p.1) (.member r.1) := by
  intro p hp r hr
  simp [transformKey, frameOfArg, roundtrip_frame p hp, roundtrip_frame r hr, roundtrip_frame_upper p hp]

/-! ## parse sites taking several strings: `set_task_lists`, `set_task_dict`, the `frame_id` of a config -/

theorem task_names_functional : ∀ p ∈ Gen.evaluationTask, ∀ r ∈ Gen.evaluationTask, p.1 = r.1 → p.2 = r.2 := by
  decide

/-- a member value names exactly its member (the inner loop has no `break`, the values are distinct) -/
theorem membersNamed_member : ∀ p ∈ Gen.evaluationTask, membersNamed Gen.evaluationTask p.2 = [p.1] := by decide

theorem membersNamed_nonmember (s : String) (h : s ∉ values Gen.evaluationTask) :
    membersNamed Gen.evaluationTask s = [] := by
  unfold membersNamed
  have : Gen.evaluationTask.filter (fun p => p.2 == s) = [] := by
    rw [List.filter_eq_nil_iff]
    intro p hp hps
    exact h (List.mem_map.2 ⟨p, hp, by simpa using hps⟩)
  rw [this]; rfl

/-- one string of the list is read exactly as `set_task` reads it -/
theorem membersNamed_eq_setTask (s : String) : membersNamed Gen.evaluationTask s = (setTask s).toList := by
  by_cases h : s ∈ values Gen.evaluationTask
  · obtain ⟨p, hp, rfl⟩ := List.mem_map.1 h
    rw [membersNamed_member p hp, roundtrip_setTask p hp]; rfl
  · rw [membersNamed_nonmember s h, nonmember_setTask s h]; rfl

/-- `set_task_lists` = `set_task` on every string, the answers that are members kept in order -/
theorem setTaskLists_eq_filterMap (l : List String) : setTaskLists l = l.filterMap setTask := by
  induction l with
  | nil => rfl
  | cons s l ih =>
    have hc : setTaskLists (s :: l) = membersNamed Gen.evaluationTask s ++ setTaskLists l := by
      simp [setTaskLists]
    rw [hc, ih, membersNamed_eq_setTask, List.filterMap_cons]
    cases setTask s <;> rfl

/-- every member value maps to its member, order and repetitions preserved -/
theorem roundtrip_setTaskLists (ps : List (String × String)) (h : ∀ p ∈ ps, p ∈ Gen.evaluationTask) :
    setTaskLists (ps.map (·.2)) = ps.map (·.1) := by
  induction ps with
  | nil => rfl
  | cons p ps ih =>
    have hc : setTaskLists ((p :: ps).map (·.2)) = membersNamed Gen.evaluationTask p.2 ++ setTaskLists (ps.map (·.2)) := by
      simp [setTaskLists]
    rw [hc, membersNamed_member p (h p (List.mem_cons_self ..)), ih (fun q hq => h q (List.mem_cons_of_mem _ hq))]
    rfl

/-- the whole enum, spelled by its values, comes back as the whole enum -/
theorem setTaskLists_all_members : setTaskLists (values Gen.evaluationTask) = names Gen.evaluationTask := by decide

/-- nothing but members comes back -/
theorem setTaskLists_members (l : List String) : ∀ m ∈ setTaskLists l, m ∈ names Gen.evaluationTask := by
  intro m hm
  rw [setTaskLists_eq_filterMap, List.mem_filterMap] at hm
  obtain ⟨s, _, hs⟩ := hm
  exact List.mem_map.2 ⟨(m, s), firstByValue_some_mem hs, rfl⟩

/-- a member comes back only for its own value -/
theorem setTaskLists_sound (l : List String) : ∀ m ∈ setTaskLists l, ∃ s ∈ l, (m, s) ∈ Gen.evaluationTask := by
  intro m hm
  rw [setTaskLists_eq_filterMap, List.mem_filterMap] at hm
  obtain ⟨s, hsl, hs⟩ := hm
  exact ⟨s, hsl, firstByValue_some_mem hs⟩

theorem setTaskLists_append (a b : List String) : setTaskLists (a ++ b) = setTaskLists a ++ setTaskLists b := by
  simp [setTaskLists]

/-- what the code does with a string that names no member: it contributes nothing (no exception, no placeholder) -/
theorem setTaskLists_nonmember_dropped (a b : List String) (s : String) (h : s ∉ values Gen.evaluationTask) :
    setTaskLists (a ++ s :: b) = setTaskLists (a ++ b) := by
  have hs : setTaskLists (s :: b) = setTaskLists b := by
    have hc : setTaskLists (s :: b) = membersNamed Gen.evaluationTask s ++ setTaskLists b := by simp [setTaskLists]
    rw [hc, membersNamed_nonmember s h]; rfl
  rw [setTaskLists_append, hs, ← setTaskLists_append]

/-- the keys `set_task_dict` produces are those `set_task_lists` produces for the given keys -/
theorem setTaskDict_keys {α : Type} (kv : List (String × α)) :
    (setTaskDict kv).map (·.1) = setTaskLists (kv.map (·.1)) := by
  induction kv with
  | nil => rfl
  | cons e kv ih =>
    have h1 : setTaskDict (e :: kv) = (membersNamed Gen.evaluationTask e.1).map (fun m => (m, e.2)) ++ setTaskDict kv := by
      simp [setTaskDict]
    have h2 : setTaskLists ((e :: kv).map (·.1)) = membersNamed Gen.evaluationTask e.1 ++ setTaskLists (kv.map (·.1)) := by
      simp [setTaskLists]
    rw [h1, h2, List.map_append, ih]
    simp [Function.comp_def]

/-- every member value used as a key becomes its member and keeps its item, in insertion order -/
theorem roundtrip_setTaskDict {α : Type} (ps : List ((String × String) × α)) (h : ∀ e ∈ ps, e.1 ∈ Gen.evaluationTask) :
    setTaskDict (ps.map fun e => (e.1.2, e.2)) = ps.map fun e => (e.1.1, e.2) := by
  induction ps with
  | nil => rfl
  | cons e ps ih =>
    have h1 : setTaskDict ((e :: ps).map fun e => (e.1.2, e.2)) =
        (membersNamed Gen.evaluationTask e.1.2).map (fun m => (m, e.2)) ++ setTaskDict (ps.map fun e => (e.1.2, e.2)) := by
      simp [setTaskDict]
    rw [h1, membersNamed_member e.1 (h e (List.mem_cons_self ..)), ih (fun q hq => h q (List.mem_cons_of_mem _ hq))]
    rfl

theorem nodup_filterMap_of_inj {α β : Type} {f : α → Option β}
    (H : ∀ a a' b, f a = some b → f a' = some b → a = a') {l : List α} (h : l.Nodup) : (l.filterMap f).Nodup := by
  induction l with
  | nil => simp
  | cons a l ih =>
    rw [List.nodup_cons] at h
    rw [List.filterMap_cons]
    cases hfa : f a with
    | none => exact ih h.2
    | some b =>
      refine List.nodup_cons.2 ⟨?_, ih h.2⟩
      intro hb
      obtain ⟨a', ha', hfa'⟩ := List.mem_filterMap.1 hb
      exact h.1 (H a a' b hfa hfa' ▸ ha')

/-- distinct keys (a Python dict) never produce the same member twice: `task_dict[task] = item` always appends -/
theorem setTaskDict_keys_nodup {α : Type} (kv : List (String × α)) (h : (kv.map (·.1)).Nodup) :
    ((setTaskDict kv).map (·.1)).Nodup := by
  rw [setTaskDict_keys, setTaskLists_eq_filterMap]
  refine nodup_filterMap_of_inj ?_ h
  intro s s' m hs hs'
  have h1 := firstByValue_some_mem (t := Gen.evaluationTask) hs
  have h2 := firstByValue_some_mem (t := Gen.evaluationTask) hs'
  exact task_names_functional _ h1 _ h2 rfl

theorem frameFromValue_cases (s : String) : (∃ m, frameFromValue s = .ok m) ∨ frameFromValue s = .error "ValueError" := by
  unfold frameFromValue
  cases firstByValue Gen.frameID s.toLower with
  | some m => exact Or.inl ⟨m, rfl⟩
  | none => exact Or.inr rfl

/-- `frame_id` given as one string: the value or its upper-case spelling gives the one-element list of the member -/
theorem roundtrip_frameIds_one : ∀ p ∈ Gen.frameID,
    frameIds (.one p.2) = .ok [p.1] ∧ frameIds (.one p.2.toUpper) = .ok [p.1] := by
  intro p hp
  simp [frameIds, roundtrip_frame p hp, roundtrip_frame_upper p hp, Except.map]

/-- `frame_id` given as a sequence of member values: the members, in order -/
theorem roundtrip_frameIds_many (ps : List (String × String)) (h : ∀ p ∈ ps, p ∈ Gen.frameID) :
    frameIds (.many (ps.map (·.2))) = .ok (ps.map (·.1)) := by
  unfold frameIds
  induction ps with
  | nil => rfl
  | cons p ps ih =>
    have := ih (fun q hq => h q (List.mem_cons_of_mem _ hq))
    simp only [List.map_cons, List.mapM_cons, roundtrip_frame p (h p (List.mem_cons_self ..)), this]
    rfl

/-- one string that is no frame makes the whole `frame_id` argument rejected -/
theorem nonmember_frameIds (l : List String) (h : ∃ s ∈ l, s.toLower ∉ values Gen.frameID) :
    frameIds (.many l) = .error "ValueError" := by
  unfold frameIds
  induction l with
  | nil => obtain ⟨s, hs, _⟩ := h; cases hs
  | cons x l ih =>
    rcases frameFromValue_cases x with ⟨m, hm⟩ | he
    · have hl : ∃ s ∈ l, s.toLower ∉ values Gen.frameID := by
        obtain ⟨s, hs, hn⟩ := h
        rcases List.mem_cons.1 hs with rfl | hs'
        · rw [nonmember_frame s hn] at hm; cases hm
        · exact ⟨s, hs', hn⟩
      simp only [List.mapM_cons, hm, ih hl]
      rfl
    · simp only [List.mapM_cons, he]
      rfl

theorem nonmember_frameIds_one (s : String) (h : s.toLower ∉ values Gen.frameID) :
    frameIds (.one s) = .error "ValueError" := by
  simp [frameIds, nonmember_frame s h, Except.map]

/-- the task of a config: a supported member value gives its member, anything unsupported is rejected -/
theorem roundtrip_checkTask (support : List String) : ∀ p ∈ Gen.evaluationTask, p.2 ∈ support →
    checkTask support p.2 = .ok (some p.1) := by
  intro p hp hs
  simp [checkTask, hs, roundtrip_setTask p hp]

theorem nonmember_checkTask (support : List String) (s : String) (h : s ∉ support) :
    checkTask support s = .error "ValueError" := by
  simp [checkTask, h]

/-! ## non-vacuity: the hypotheses are met by concrete strings -/
example : "detection " ∉ values Gen.evaluationTask := by decide
example : ("bogus" : String).toLower ∉ values Gen.frameID := by decide +kernel
example : taskFromValue "tracking" = .ok "TRACKING" := by decide
example : frameFromValue "MAP" = .ok "MAP" := by decide +kernel
example : visibilityFromValue "v0-40" = .ok "NONE" := by decide
example : visibilityFromValue "whatever" = .ok "UNAVAILABLE" := by decide
example : setTaskLists ["tracking", "Detection", "x", "detection", "tracking"] = ["TRACKING", "DETECTION", "TRACKING"] := by decide
example : setTaskDict [("sensing", 1), ("nope", 2), ("detection2d", 3)] = [("SENSING", 1), ("DETECTION2D", 3)] := by decide
example : frameIds (.many ["cam_front", "CAM_BACK"]) = .ok ["CAM_FRONT", "CAM_BACK"] := by decide +kernel
example : frameIds (.many ["cam_front", "cam_rear"]) = .error "ValueError" := by decide +kernel
example : checkTask ["sensing"] "detection" = .error "ValueError" ∧ checkTask ["sensing"] "sensing" = .ok (some "SENSING") := by decide

end PEval.C20
