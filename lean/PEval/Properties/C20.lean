import PEval.Lemmas.Table
/-!
# C20 — configuration strings parse to the enum member they name

The `(name, value)` tables `PEval.Gen.*` are regenerated from /repo on every run, so the `decide`
side conditions below (values pairwise distinct, already lower-case, names = upper-cased values …)
are re-checked against what the code says now; the parsers' control flow is hand-modelled in
`PEval.Model.Enums` and tied to the code by the exhaustive correspondence run of the check.
-/
namespace PEval.C20
open PEval.Enums PEval

/-! ## side conditions on the regenerated tables -/

theorem task_values_nodup : (values Gen.evaluationTask).Nodup := by decide
theorem frame_values_nodup : (values Gen.frameID).Nodup := by decide
theorem frame_values_lower : ∀ p ∈ Gen.frameID, p.2.toLower = p.2 := by decide +kernel
theorem visibility_values_nodup : (values Gen.visibility).Nodup := by decide
theorem sensor_values_nodup : (values Gen.sensorModality).Nodup := by decide
theorem shape_values_nodup : (values Gen.shapeType).Nodup := by decide
theorem policy_names_upper : ∀ p ∈ Gen.matchingLabelPolicy, p.2.toUpper = p.1 := by decide +kernel
theorem alias_disjoint_values : ∀ a ∈ Gen.visibilityAlias, a.1 ∉ values Gen.visibility := by decide
theorem alias_keys_nodup : (Gen.visibilityAlias.map (·.1)).Nodup := by decide
theorem alias_targets_members : ∀ a ∈ Gen.visibilityAlias, a.2 ∈ names Gen.visibility := by decide
theorem alias_fallback_member : Gen.visibilityAliasFallback ∈ names Gen.visibility := by decide

/-! ## round trips: every member is returned for its own string value -/

theorem roundtrip_task : ∀ p ∈ Gen.evaluationTask, taskFromValue p.2 = .ok p.1 := by
  intro p hp; simp [taskFromValue, firstByValue_mem task_values_nodup hp]

theorem roundtrip_setTask : ∀ p ∈ Gen.evaluationTask, setTask p.2 = some p.1 := by
  intro p hp; simp [setTask, firstByValue_mem task_values_nodup hp]

theorem roundtrip_frame : ∀ p ∈ Gen.frameID, frameFromValue p.2 = .ok p.1 := by
  intro p hp
  simp [frameFromValue, frame_values_lower p hp, firstByValue_mem frame_values_nodup hp]

/-- the documented upper-case spelling is accepted too -/
theorem roundtrip_frame_upper : ∀ p ∈ Gen.frameID, frameFromValue p.2.toUpper = .ok p.1 := by decide +kernel

theorem roundtrip_visibility : ∀ p ∈ Gen.visibility, visibilityFromValue p.2 = .ok p.1 := by
  intro p hp; simp [visibilityFromValue, firstByValue_mem visibility_values_nodup hp]

theorem roundtrip_sensor : ∀ p ∈ Gen.sensorModality, sensorFromValue p.2 = .ok p.1 := by
  intro p hp; simp [sensorFromValue, firstByValue_mem sensor_values_nodup hp]

theorem roundtrip_shapeType : ∀ p ∈ Gen.shapeType, shapeTypeFromValue p.2 = .ok p.1 := by
  intro p hp; simp [shapeTypeFromValue, firstByValue_mem shape_values_nodup hp]

theorem roundtrip_policy : ∀ p ∈ Gen.matchingLabelPolicy, policyFromStr p.2 = .ok p.1 := by decide +kernel

/-- lower-case spelling of a policy (documented: `from_str` upper-cases) -/
theorem roundtrip_policy_lower : ∀ p ∈ Gen.matchingLabelPolicy, policyFromStr p.2.toLower = .ok p.1 := by
  decide +kernel

/-! ## any other string: rejected, or mapped to the documented fallback -/

theorem nonmember_task (s : String) (h : s ∉ values Gen.evaluationTask) :
    taskFromValue s = .error "ValueError" := by
  simp [taskFromValue, firstByValue_none h]

theorem nonmember_setTask (s : String) (h : s ∉ values Gen.evaluationTask) : setTask s = none := by
  simp [setTask, firstByValue_none h]

theorem nonmember_frame (s : String) (h : s.toLower ∉ values Gen.frameID) :
    frameFromValue s = .error "ValueError" := by
  simp [frameFromValue, firstByValue_none h]

theorem nonmember_sensor (s : String) (h : s ∉ values Gen.sensorModality) :
    sensorFromValue s = .error "ValueError" := by
  simp [sensorFromValue, firstByValue_none h]

theorem nonmember_shapeType (s : String) (h : s ∉ values Gen.shapeType) :
    shapeTypeFromValue s = .error "ValueError" := by
  simp [shapeTypeFromValue, firstByValue_none h]

theorem nonmember_policy (s : String) (h : s.toUpper ∉ names Gen.matchingLabelPolicy) :
    policyFromStr s = .error "AssertionError" := by
  simp only [policyFromStr]
  have : (names Gen.matchingLabelPolicy).contains s.toUpper = false := by
    rw [List.contains_eq_mem]; exact decide_eq_false h
  rw [this]; rfl

/-- Visibility: a documented alias gives the documented member … -/
theorem visibility_alias : ∀ a ∈ Gen.visibilityAlias, visibilityFromValue a.1 = .ok a.2 := by decide

/-- … and every other non-member string gives the documented fallback member -/
theorem visibility_fallback (s : String) (h : s ∉ values Gen.visibility)
    (ha : s ∉ Gen.visibilityAlias.map (·.1)) :
    visibilityFromValue s = .ok Gen.visibilityAliasFallback := by
  have hnone : Gen.visibilityAlias.find? (fun p => p.1 == s) = none := by
    rw [List.find?_eq_none]
    intro p hp hps
    exact ha (List.mem_map.2 ⟨p, hp, by simpa using hps⟩)
  simp [visibilityFromValue, firstByValue_none h, visibilityFromAlias, hnone]

/-- whatever the string, `Visibility.from_value` answers with a member -/
theorem visibility_total (s : String) : ∃ m ∈ names Gen.visibility, visibilityFromValue s = .ok m := by
  unfold visibilityFromValue
  cases h : firstByValue Gen.visibility s with
  | some m =>
    exact ⟨m, List.mem_map.2 ⟨(m, s), firstByValue_some_mem h, rfl⟩, rfl⟩
  | none =>
    refine ⟨visibilityFromAlias s, ?_, rfl⟩
    unfold visibilityFromAlias
    cases hf : Gen.visibilityAlias.find? (fun p => p.1 == s) with
    | none => exact alias_fallback_member
    | some p => exact alias_targets_members p (List.mem_of_find?_eq_some hf)

/-! ## string-or-enum call sites behave identically for both spellings -/

theorem shape_str_eq_enum : ∀ p ∈ Gen.shapeType, shapeTypeOfArg (.str p.2) = shapeTypeOfArg (.member p.1) := by
  intro p hp; simp [shapeTypeOfArg, roundtrip_shapeType p hp]

theorem frameArg_str_eq_enum : ∀ p ∈ Gen.frameID, frameOfArg (.str p.2) = frameOfArg (.member p.1) := by
  intro p hp; simp [frameOfArg, roundtrip_frame p hp]

theorem frameArg_upper_eq_enum : ∀ p ∈ Gen.frameID, frameOfArg (.str p.2.toUpper) = frameOfArg (.member p.1) := by
  intro p hp; simp [frameOfArg, roundtrip_frame_upper p hp]

theorem transformKey_str_eq_enum : ∀ p ∈ Gen.frameID, ∀ r ∈ Gen.frameID,
    transformKey (.str p.2) (.str r.2) = transformKey (.member p.1) (.member r.1) ∧
    transformKey (.str p.2.toUpper) (.member r.1) = transformKey (.member p.1) (.member r.1) := by
  intro p hp r hr
  simp [transformKey, frameOfArg, roundtrip_frame p hp, roundtrip_frame r hr, roundtrip_frame_upper p hp]

/-! ## parse sites taking several strings: `set_task_lists`, `set_task_dict`, the `frame_id` of a config -/

theorem task_names_functional : ∀ p ∈ Gen.evaluationTask, ∀ r ∈ Gen.evaluationTask, p.1 = r.1 → p.2 = r.2 := by
  decide

/-- a member value names exactly its member (the inner loop has no `break`, the values are distinct) -/
theorem membersNamed_member : ∀ p ∈ Gen.evaluationTask, membersNamed Gen.evaluationTask p.2 = [p.1] := by decide

theorem membersNamed_nonmember (s : String) (h : s ∉ values Gen.evaluationTask) :
    membersNamed Gen.evaluationTask s = [] := by
  unfold membersNamed
  have : Gen.evaluationTask.filter (fun p => p.2 == s) = [] := by
    rw [List.filter_eq_nil_iff]
    intro p hp hps
    exact h (List.mem_map.2 ⟨p, hp, by simpa using hps⟩)
  rw [this]; rfl

/-- one string of the list is read exactly as `set_task` reads it -/
theorem membersNamed_eq_setTask (s : String) : membersNamed Gen.evaluationTask s = (setTask s).toList := by
  by_cases h : s ∈ values Gen.evaluationTask
  · obtain ⟨p, hp, rfl⟩ := List.mem_map.1 h
    rw [membersNamed_member p hp, roundtrip_setTask p hp]; rfl
  · rw [membersNamed_nonmember s h, nonmember_setTask s h]; rfl

/-- `set_task_lists` = `set_task` on every string, the answers that are members kept in order -/
theorem setTaskLists_eq_filterMap (l : List String) : setTaskLists l = l.filterMap setTask := by
  induction l with
  | nil => rfl
  | cons s l ih =>
    have hc : setTaskLists (s :: l) = membersNamed Gen.evaluationTask s ++ setTaskLists l := by
      simp [setTaskLists]
    rw [hc, ih, membersNamed_eq_setTask, List.filterMap_cons]
    cases setTask s <;> rfl

/-- every member value maps to its member, order and repetitions preserved -/
theorem roundtrip_setTaskLists (ps : List (String × String)) (h : ∀ p ∈ ps, p ∈ Gen.evaluationTask) :
    setTaskLists (ps.map (·.2)) = ps.map (·.1) := by
  induction ps with
  | nil => rfl
  | cons p ps ih =>
    have hc : setTaskLists ((p :: ps).map (·.2)) = membersNamed Gen.evaluationTask p.2 ++ setTaskLists (ps.map (·.2)) := by
      simp [setTaskLists]
    rw [hc, membersNamed_member p (h p (List.mem_cons_self ..)), ih (fun q hq => h q (List.mem_cons_of_mem _ hq))]
    rfl

/-- the whole enum, spelled by its values, comes back as the whole enum -/
theorem setTaskLists_all_members : setTaskLists (values Gen.evaluationTask) = names Gen.evaluationTask := by decide

/-- nothing but members comes back -/
theorem setTaskLists_members (l : List String) : ∀ m ∈ setTaskLists l, m ∈ names Gen.evaluationTask := by
  intro m hm
  rw [setTaskLists_eq_filterMap, List.mem_filterMap] at hm
  obtain ⟨s, _, hs⟩ := hm
  exact List.mem_map.2 ⟨(m, s), firstByValue_some_mem hs, rfl⟩

/-- a member comes back only for its own value -/
theorem setTaskLists_sound (l : List String) : ∀ m ∈ setTaskLists l, ∃ s ∈ l, (m, s) ∈ Gen.evaluationTask := by
  intro m hm
  rw [setTaskLists_eq_filterMap, List.mem_filterMap] at hm
  obtain ⟨s, hsl, hs⟩ := hm
  exact ⟨s, hsl, firstByValue_some_mem hs⟩

theorem setTaskLists_append (a b : List String) : setTaskLists (a ++ b) = setTaskLists a ++ setTaskLists b := by
  simp [setTaskLists]

/-- what the code does with a string that names no member: it contributes nothing (no exception, no placeholder) -/
theorem setTaskLists_nonmember_dropped (a b : List String) (s : String) (h : s ∉ values Gen.evaluationTask) :
    setTaskLists (a ++ s :: b) = setTaskLists (a ++ b) := by
  have hs : setTaskLists (s :: b) = setTaskLists b := by
    have hc : setTaskLists (s :: b) = membersNamed Gen.evaluationTask s ++ setTaskLists b := by simp [setTaskLists]
    rw [hc, membersNamed_nonmember s h]; rfl
  rw [setTaskLists_append, hs, ← setTaskLists_append]

/-- the keys `set_task_dict` produces are those `set_task_lists` produces for the given keys -/
theorem setTaskDict_keys {α : Type} (kv : List (String × α)) :
    (setTaskDict kv).map (·.1) = setTaskLists (kv.map (·.1)) := by
  induction kv with
  | nil => rfl
  | cons e kv ih =>
    have h1 : setTaskDict (e :: kv) = (membersNamed Gen.evaluationTask e.1).map (fun m => (m, e.2)) ++ setTaskDict kv := by
      simp [setTaskDict]
    have h2 : setTaskLists ((e :: kv).map (·.1)) = membersNamed Gen.evaluationTask e.1 ++ setTaskLists (kv.map (·.1)) := by
      simp [setTaskLists]
    rw [h1, h2, List.map_append, ih]
    simp [Function.comp_def]

/-- every member value used as a key becomes its member and keeps its item, in insertion order -/
theorem roundtrip_setTaskDict {α : Type} (ps : List ((String × String) × α)) (h : ∀ e ∈ ps, e.1 ∈ Gen.evaluationTask) :
    setTaskDict (ps.map fun e => (e.1.2, e.2)) = ps.map fun e => (e.1.1, e.2) := by
  induction ps with
  | nil => rfl
  | cons e ps ih =>
    have h1 : setTaskDict ((e :: ps).map fun e => (e.1.2, e.2)) =
        (membersNamed Gen.evaluationTask e.1.2).map (fun m => (m, e.2)) ++ setTaskDict (ps.map fun e => (e.1.2, e.2)) := by
      simp [setTaskDict]
    rw [h1, membersNamed_member e.1 (h e (List.mem_cons_self ..)), ih (fun q hq => h q (List.mem_cons_of_mem _ hq))]
    rfl

theorem nodup_filterMap_of_inj {α β : Type} {f : α → Option β}
    (H : ∀ a a' b, f a = some b → f a' = some b → a = a') {l : List α} (h : l.Nodup) : (l.filterMap f).Nodup := by
  induction l with
  | nil => simp
  | cons a l ih =>
    rw [List.nodup_cons] at h
    rw [List.filterMap_cons]
    cases hfa : f a with
    | none => exact ih h.2
    | some b =>
      refine List.nodup_cons.2 ⟨?_, ih h.2⟩
      intro hb
      obtain ⟨a', ha', hfa'⟩ := List.mem_filterMap.1 hb
      exact h.1 (H a a' b hfa hfa' ▸ ha')

/-- distinct keys (a Python dict) never produce the same member twice: `task_dict[task] = item` always appends -/
theorem setTaskDict_keys_nodup {α : Type} (kv : List (String × α)) (h : (kv.map (·.1)).Nodup) :
    ((setTaskDict kv).map (·.1)).Nodup := by
  rw [setTaskDict_keys, setTaskLists_eq_filterMap]
  refine nodup_filterMap_of_inj ?_ h
  intro s s' m hs hs'
  have h1 := firstByValue_some_mem (t := Gen.evaluationTask) hs
  have h2 := firstByValue_some_mem (t := Gen.evaluationTask) hs'
  exact task_names_functional _ h1 _ h2 rfl

theorem frameFromValue_cases (s : String) : (∃ m, frameFromValue s = .ok m) ∨ frameFromValue s = .error "ValueError" := by
  unfold frameFromValue
  cases firstByValue Gen.frameID s.toLower with
  | some m => exact Or.inl ⟨m, rfl⟩
  | none => exact Or.inr rfl

/-- `frame_id` given as one string: the value or its upper-case spelling gives the one-element list of the member -/
theorem roundtrip_frameIds_one : ∀ p ∈ Gen.frameID,
    frameIds (.one p.2) = .ok [p.1] ∧ frameIds (.one p.2.toUpper) = .ok [p.1] := by
  intro p hp
  simp [frameIds, roundtrip_frame p hp, roundtrip_frame_upper p hp, Except.map]

/-- `frame_id` given as a sequence of member values: the members, in order -/
theorem roundtrip_frameIds_many (ps : List (String × String)) (h : ∀ p ∈ ps, p ∈ Gen.frameID) :
    frameIds (.many (ps.map (·.2))) = .ok (ps.map (·.1)) := by
  unfold frameIds
  induction ps with
  | nil => rfl
  | cons p ps ih =>
    have := ih (fun q hq => h q (List.mem_cons_of_mem _ hq))
    simp only [List.map_cons, List.mapM_cons, roundtrip_frame p (h p (List.mem_cons_self ..)), this]
    rfl

/-- one string that is no frame makes the whole `frame_id` argument rejected -/
theorem nonmember_frameIds (l : List String) (h : ∃ s ∈ l, s.toLower ∉ values Gen.frameID) :
    frameIds (.many l) = .error "ValueError" := by
  unfold frameIds
  induction l with
  | nil => obtain ⟨s, hs, _⟩ := h; cases hs
  | cons x l ih =>
    rcases frameFromValue_cases x with ⟨m, hm⟩ | he
    · have hl : ∃ s ∈ l, s.toLower ∉ values Gen.frameID := by
        obtain ⟨s, hs, hn⟩ := h
        rcases List.mem_cons.1 hs with rfl | hs'
        · rw [nonmember_frame s hn] at hm; cases hm
        · exact ⟨s, hs', hn⟩
      simp only [List.mapM_cons, hm, ih hl]
      rfl
    · simp only [List.mapM_cons, he]
      rfl

theorem nonmember_frameIds_one (s : String) (h : s.toLower ∉ values Gen.frameID) :
    frameIds (.one s) = .error "ValueError" := by
  simp [frameIds, nonmember_frame s h, Except.map]

/-- the task of a config: a supported member value gives its member, anything unsupported is rejected -/
theorem roundtrip_checkTask (support : List String) : ∀ p ∈ Gen.evaluationTask, p.2 ∈ support →
    checkTask support p.2 = .ok (some p.1) := by
  intro p hp hs
  simp [checkTask, hs, roundtrip_setTask p hp]

theorem nonmember_checkTask (support : List String) (s : String) (h : s ∉ support) :
    checkTask support s = .error "ValueError" := by
  simp [checkTask, h]

/-! ## non-vacuity: the hypotheses are met by concrete strings -/
example : "detection " ∉ values Gen.evaluationTask := by decide
example : ("bogus" : String).toLower ∉ values Gen.frameID := by decide +kernel
example : taskFromValue "tracking" = .ok "TRACKING" := by decide
example : frameFromValue "MAP" = .ok "MAP" := by decide +kernel
example : visibilityFromValue "v0-40" = .ok "NONE" := by decide
example : visibilityFromValue "whatever" = .ok "UNAVAILABLE" := by decide
example : setTaskLists ["tracking", "Detection", "x", "detection", "tracking"] = ["TRACKING", "DETECTION", "TRACKING"] := by decide
example : setTaskDict [("sensing", 1), ("nope", 2), ("detection2d", 3)] = [("SENSING", 1), ("DETECTION2D", 3)] := by decide
example : frameIds (.many ["cam_front", "CAM_BACK"]) = .ok ["CAM_FRONT", "CAM_BACK"] := by decide +kernel
example : frameIds (.many ["cam_front", "cam_rear"]) = .error "ValueError" := by decide +kernel
example : checkTask ["sensing"] "detection" = .error "ValueError" ∧ checkTask ["sensing"] "sensing" = .ok (some "SENSING") := by decide

end PEval.C20

/-!
# Value level (audit round 1, item 6): the parsers hand back the MEMBER, not its name

`PEval.Enums.PyRet` tells a member of an enum class, a `str` and `None` apart.  The theorems below restate the
property on that type for the parsers as they are now (`…V`); each is REFUTED for the F12-defective variant next to the
model (`…_F12`: `return k` instead of `return v`) — which the string-level theorems above are not (`…_erase`).
-/
namespace PEval.C20
open PEval.Enums PEval

/-! ## every regenerated table is present (an empty table would make every `∀ p ∈ Gen.x` statement vacuous) -/

theorem evaluationTask_nonempty : Gen.evaluationTask ≠ [] := by decide
theorem frameID_nonempty : Gen.frameID ≠ [] := by decide
theorem visibility_nonempty : Gen.visibility ≠ [] := by decide
theorem sensorModality_nonempty : Gen.sensorModality ≠ [] := by decide
theorem shapeType_nonempty : Gen.shapeType ≠ [] := by decide
theorem matchingLabelPolicy_nonempty : Gen.matchingLabelPolicy ≠ [] := by decide
theorem visibilityAlias_nonempty : Gen.visibilityAlias ≠ [] := by decide
theorem taskIs3d_nonempty : Gen.taskIs3d ≠ [] := by decide
/-- `is_3d()` was recorded for exactly the members of `EvaluationTask`, in definition order -/
theorem taskIs3d_names : Gen.taskIs3d.map (·.1) = names Gen.evaluationTask := by decide
/-- both kinds of task exist (the 2-D rejection and the 3-D answers of `from_task` are not vacuous) -/
theorem taskIs3d_both : (∃ p ∈ Gen.taskIs3d, p.2 = "true") ∧ (∃ p ∈ Gen.taskIs3d, p.2 = "false") := by decide
/-- member names are pairwise distinct in every table (a value-level result `.member enum name` names ONE member) -/
theorem names_nodup : (names Gen.evaluationTask).Nodup ∧ (names Gen.frameID).Nodup ∧ (names Gen.visibility).Nodup ∧
    (names Gen.sensorModality).Nodup ∧ (names Gen.shapeType).Nodup ∧ (names Gen.matchingLabelPolicy).Nodup := by decide

/-! ## projection: erasing the kind of the value gives the string-level model back -/

theorem firstMemberV_eq (enum : String) (t : Table) (s : String) :
    firstMemberV enum t s = (firstByValue t s).map (PyRet.member enum) := by
  unfold firstMemberV firstByValue; cases t.find? (fun p => p.2 == s) <;> rfl

theorem firstKey_F12_eq (t : Table) (s : String) : firstKey_F12 t s = (firstByValue t s).map PyRet.str := by
  unfold firstKey_F12 firstByValue; cases t.find? (fun p => p.2 == s) <;> rfl

theorem taskFromValueV_eq (s : String) : taskFromValueV s = (taskFromValue s).map (PyRet.member "EvaluationTask") := by
  unfold taskFromValueV taskFromValue; rw [firstMemberV_eq]; cases firstByValue Gen.evaluationTask s <;> rfl

theorem setTaskV_eq (s : String) : setTaskV s = ((setTask s).map (PyRet.member "EvaluationTask")).getD .none := by
  unfold setTaskV setTask; rw [firstMemberV_eq]; cases firstByValue Gen.evaluationTask s <;> rfl

theorem frameFromValueV_eq (s : String) : frameFromValueV s = (frameFromValue s).map (PyRet.member "FrameID") := by
  unfold frameFromValueV frameFromValue; rw [firstMemberV_eq]; cases firstByValue Gen.frameID s.toLower <;> rfl

theorem visibilityFromValueV_eq (s : String) :
    visibilityFromValueV s = (visibilityFromValue s).map (PyRet.member "Visibility") := by
  unfold visibilityFromValueV visibilityFromValue; rw [firstMemberV_eq]; cases firstByValue Gen.visibility s <;> rfl

theorem sensorFromValueV_eq (s : String) : sensorFromValueV s = (sensorFromValue s).map (PyRet.member "SensorModality") := by
  unfold sensorFromValueV sensorFromValue; rw [firstMemberV_eq]; cases firstByValue Gen.sensorModality s <;> rfl

theorem shapeTypeFromValueV_eq (s : String) : shapeTypeFromValueV s = (shapeTypeFromValue s).map (PyRet.member "ShapeType") := by
  unfold shapeTypeFromValueV shapeTypeFromValue; rw [firstMemberV_eq]; cases firstByValue Gen.shapeType s <;> rfl

theorem policyFromStrV_eq (s : String) : policyFromStrV s = (policyFromStr s).map (PyRet.member "MatchingLabelPolicy") := by
  unfold policyFromStrV policyFromStr; simp only []; split <;> rfl

/-- the string-level model cannot tell the repaired parsers from the F12 ones: both erase to the same `Res` -/
theorem F12_same_erasure (s : String) :
    (visibilityFromValue_F12 s).erase = (visibilityFromValueV s).erase ∧
    (shapeTypeFromValue_F12 s).erase = (shapeTypeFromValueV s).erase ∧
    (s ∈ values Gen.sensorModality → (sensorFromValue_F12 s).erase = (sensorFromValueV s).erase) := by
  refine ⟨?_, ?_, ?_⟩
  · unfold visibilityFromValue_F12 visibilityFromValueV
    rw [firstKey_F12_eq, firstMemberV_eq]; cases firstByValue Gen.visibility s <;> rfl
  · unfold shapeTypeFromValue_F12 shapeTypeFromValueV
    rw [firstKey_F12_eq, firstMemberV_eq]; cases firstByValue Gen.shapeType s <;> rfl
  · intro h
    obtain ⟨p, hp, rfl⟩ := List.mem_map.1 h
    unfold sensorFromValue_F12 sensorFromValueV
    rw [firstKey_F12_eq, firstMemberV_eq, firstByValue_mem sensor_values_nodup hp]; rfl

/-! ## round trips at value level: the member itself comes back -/

theorem roundtripV_task : ∀ p ∈ Gen.evaluationTask, taskFromValueV p.2 = .ok (.member "EvaluationTask" p.1) := by
  intro p hp; rw [taskFromValueV_eq, roundtrip_task p hp]; rfl

theorem roundtripV_setTask : ∀ p ∈ Gen.evaluationTask, setTaskV p.2 = .member "EvaluationTask" p.1 := by
  intro p hp; rw [setTaskV_eq, roundtrip_setTask p hp]; rfl

theorem roundtripV_frame : ∀ p ∈ Gen.frameID,
    frameFromValueV p.2 = .ok (.member "FrameID" p.1) ∧ frameFromValueV p.2.toUpper = .ok (.member "FrameID" p.1) := by
  intro p hp; rw [frameFromValueV_eq, frameFromValueV_eq, roundtrip_frame p hp, roundtrip_frame_upper p hp]; exact ⟨rfl, rfl⟩

theorem roundtripV_visibility : ∀ p ∈ Gen.visibility, visibilityFromValueV p.2 = .ok (.member "Visibility" p.1) := by
  intro p hp; rw [visibilityFromValueV_eq, roundtrip_visibility p hp]; rfl

theorem roundtripV_sensor : ∀ p ∈ Gen.sensorModality, sensorFromValueV p.2 = .ok (.member "SensorModality" p.1) := by
  intro p hp; rw [sensorFromValueV_eq, roundtrip_sensor p hp]; rfl

theorem roundtripV_shapeType : ∀ p ∈ Gen.shapeType, shapeTypeFromValueV p.2 = .ok (.member "ShapeType" p.1) := by
  intro p hp; rw [shapeTypeFromValueV_eq, roundtrip_shapeType p hp]; rfl

theorem roundtripV_policy : ∀ p ∈ Gen.matchingLabelPolicy,
    policyFromStrV p.2 = .ok (.member "MatchingLabelPolicy" p.1) ∧
    policyFromStrV p.2.toLower = .ok (.member "MatchingLabelPolicy" p.1) := by
  intro p hp; rw [policyFromStrV_eq, policyFromStrV_eq, roundtrip_policy p hp, roundtrip_policy_lower p hp]; exact ⟨rfl, rfl⟩

/-- a documented alias and every other non-member string give a MEMBER of `Visibility` -/
theorem visibilityV_alias : ∀ a ∈ Gen.visibilityAlias, visibilityFromValueV a.1 = .ok (.member "Visibility" a.2) := by
  intro a ha; rw [visibilityFromValueV_eq, visibility_alias a ha]; rfl

theorem visibilityV_fallback (s : String) (h : s ∉ values Gen.visibility) (ha : s ∉ Gen.visibilityAlias.map (·.1)) :
    visibilityFromValueV s = .ok (.member "Visibility" Gen.visibilityAliasFallback) := by
  rw [visibilityFromValueV_eq, visibility_fallback s h ha]; rfl

/-! ## whatever the string: a parser answers with a member of ITS enum or raises — never a `str`, never `None` -/

theorem map_member_ok {enum : String} {r : Res} {v : PyRet} (h : r.map (PyRet.member enum) = .ok v) :
    ∃ m, r = .ok m ∧ v = .member enum m := by
  cases r with
  | error k => cases h
  | ok m => exact ⟨m, rfl, by cases h; rfl⟩

theorem taskV_sound (s : String) (v : PyRet) (h : taskFromValueV s = .ok v) :
    ∃ m, (m, s) ∈ Gen.evaluationTask ∧ v = .member "EvaluationTask" m := by
  rw [taskFromValueV_eq] at h
  obtain ⟨m, hm, rfl⟩ := map_member_ok h
  refine ⟨m, ?_, rfl⟩
  unfold taskFromValue at hm
  cases hf : firstByValue Gen.evaluationTask s with
  | none => rw [hf] at hm; cases hm
  | some m' => rw [hf] at hm; cases hm; exact firstByValue_some_mem hf

theorem setTaskV_sound (s : String) :
    setTaskV s = .none ∨ ∃ m, (m, s) ∈ Gen.evaluationTask ∧ setTaskV s = .member "EvaluationTask" m := by
  rw [setTaskV_eq]; unfold setTask
  cases hf : firstByValue Gen.evaluationTask s with
  | none => exact Or.inl rfl
  | some m => exact Or.inr ⟨m, firstByValue_some_mem hf, rfl⟩

theorem frameV_sound (s : String) (v : PyRet) (h : frameFromValueV s = .ok v) :
    ∃ m, (m, s.toLower) ∈ Gen.frameID ∧ v = .member "FrameID" m := by
  rw [frameFromValueV_eq] at h
  obtain ⟨m, hm, rfl⟩ := map_member_ok h
  refine ⟨m, ?_, rfl⟩
  unfold frameFromValue at hm
  cases hf : firstByValue Gen.frameID s.toLower with
  | none => rw [hf] at hm; cases hm
  | some m' => rw [hf] at hm; cases hm; exact firstByValue_some_mem hf

/-- `Visibility.from_value` is total and always answers with a member of `Visibility` -/
theorem visibilityV_total (s : String) : ∃ m ∈ names Gen.visibility, visibilityFromValueV s = .ok (.member "Visibility" m) := by
  obtain ⟨m, hm, h⟩ := visibility_total s
  exact ⟨m, hm, by rw [visibilityFromValueV_eq, h]; rfl⟩

theorem sensorV_sound (s : String) (v : PyRet) (h : sensorFromValueV s = .ok v) :
    ∃ m, (m, s) ∈ Gen.sensorModality ∧ v = .member "SensorModality" m := by
  rw [sensorFromValueV_eq] at h
  obtain ⟨m, hm, rfl⟩ := map_member_ok h
  refine ⟨m, ?_, rfl⟩
  unfold sensorFromValue at hm
  cases hf : firstByValue Gen.sensorModality s with
  | none => rw [hf] at hm; cases hm
  | some m' => rw [hf] at hm; cases hm; exact firstByValue_some_mem hf

theorem shapeTypeV_sound (s : String) (v : PyRet) (h : shapeTypeFromValueV s = .ok v) :
    ∃ m, (m, s) ∈ Gen.shapeType ∧ v = .member "ShapeType" m := by
  rw [shapeTypeFromValueV_eq] at h
  obtain ⟨m, hm, rfl⟩ := map_member_ok h
  refine ⟨m, ?_, rfl⟩
  unfold shapeTypeFromValue at hm
  cases hf : firstByValue Gen.shapeType s with
  | none => rw [hf] at hm; cases hm
  | some m' => rw [hf] at hm; cases hm; exact firstByValue_some_mem hf

theorem policyV_sound (s : String) (v : PyRet) (h : policyFromStrV s = .ok v) :
    s.toUpper ∈ names Gen.matchingLabelPolicy ∧ v = .member "MatchingLabelPolicy" s.toUpper := by
  unfold policyFromStrV at h
  simp only [] at h
  split at h
  · rename_i hc
    exact ⟨by simpa using hc, by cases h; rfl⟩
  · cases h

/-! ### the F12 variants violate the value-level round trips (and the soundness statements) -/

example : ¬ (∀ p ∈ Gen.visibility, visibilityFromValue_F12 p.2 = .ok (.member "Visibility" p.1)) := by decide
example : ¬ (∀ p ∈ Gen.sensorModality, sensorFromValue_F12 p.2 = .ok (.member "SensorModality" p.1)) := by decide
example : ¬ (∀ p ∈ Gen.shapeType, shapeTypeFromValue_F12 p.2 = .ok (.member "ShapeType" p.1)) := by decide
example : ¬ (∀ p ∈ Gen.matchingLabelPolicy, policyFromStr_S p.2 = .ok (.member "MatchingLabelPolicy" p.1)) := by decide +kernel
example : visibilityFromValue_F12 "full" = .ok (.str "FULL") ∧ visibilityFromValueV "full" = .ok (.member "Visibility" "FULL") := by decide
example : sensorFromValue_F12 "sonar" = .ok .none ∧ sensorFromValueV "sonar" = .error "ValueError" := by decide
example : ¬ (∀ s v, sensorFromValue_F12 s = .ok v → ∃ m, (m, s) ∈ Gen.sensorModality ∧ v = .member "SensorModality" m) := by
  intro h
  obtain ⟨m, _, hv⟩ := h "sonar" .none (by decide)
  cases hv
/-- … while the old string-level round trips hold of the F12 variants too (this is the audit's point) -/
example : ∀ p ∈ Gen.visibility, (visibilityFromValue_F12 p.2).erase = .ok (some p.1) := by decide

end PEval.C20

/-! # Value level, string-or-enum call sites: `Shape`, `TransformKey`, `FrameID.from_task`, the multi-string sites -/
namespace PEval.C20
open PEval.Enums PEval

/-! ## `Shape(shape_type, size, footprint)`: `Shape.type` holds the member for both spellings -/

theorem shapeInitV_str (s : String) (fp : Bool) :
    shapeInitV (.str s) fp = (shapeTypeFromValueV s).bind fun t =>
      if fp then .ok t else if neBoundingBox t then .error "ValueError" else .ok t := rfl

theorem shapeInitV_member (e m : String) (fp : Bool) :
    shapeInitV (.member e m) fp =
      if fp then .ok (.member e m) else if neBoundingBox (.member e m) then .error "ValueError" else .ok (.member e m) := rfl

/-- both spellings of a shape type build the same `Shape.type`, with and without an explicit footprint -/
theorem shapeV_str_eq_enum : ∀ p ∈ Gen.shapeType, ∀ fp,
    shapeInitV (.str p.2) fp = shapeInitV (.member "ShapeType" p.1) fp := by
  intro p hp fp
  rw [shapeInitV_str, shapeInitV_member, roundtripV_shapeType p hp]; rfl

/-- with an explicit footprint `Shape.type` is THE MEMBER, whichever spelling was given (seed C20_G stored the string) -/
theorem shapeV_stored_member : ∀ p ∈ Gen.shapeType, ∀ a ∈ [PyRet.str p.2, PyRet.member "ShapeType" p.1],
    shapeInitV a true = .ok (.member "ShapeType" p.1) := by
  intro p hp a ha
  have h := shapeV_str_eq_enum p hp true
  simp only [List.mem_cons, List.not_mem_nil, or_false] at ha
  rcases ha with rfl | rfl
  · rw [h]; rfl
  · rfl

/-- without a footprint: the member for BOUNDING_BOX, `ValueError` for every other type, the same for both spellings -/
theorem shapeV_no_footprint : ∀ p ∈ Gen.shapeType, ∀ a ∈ [PyRet.str p.2, PyRet.member "ShapeType" p.1],
    shapeInitV a false = if p.1 = "BOUNDING_BOX" then .ok (.member "ShapeType" p.1) else .error "ValueError" := by decide

/-- a string argument never survives as a string: `Shape.type` is a member of `ShapeType` whose value is that string -/
theorem shapeV_sound (s : String) (fp : Bool) (v : PyRet) (h : shapeInitV (.str s) fp = .ok v) :
    ∃ m, (m, s) ∈ Gen.shapeType ∧ v = .member "ShapeType" m := by
  rw [shapeInitV_str] at h
  cases hs : shapeTypeFromValueV s with
  | error k => rw [hs] at h; cases h
  | ok t =>
    rw [hs] at h
    obtain ⟨m, hm, rfl⟩ := shapeTypeV_sound s t hs
    refine ⟨m, hm, ?_⟩
    simp only [Except.bind] at h
    split at h
    · cases h; rfl
    · split at h
      · cases h
      · cases h; rfl

theorem shapeV_nonmember (s : String) (fp : Bool) (h : s ∉ values Gen.shapeType) :
    shapeInitV (.str s) fp = .error "ValueError" := by
  rw [shapeInitV_str, shapeTypeFromValueV_eq, nonmember_shapeType s h]; rfl

/-- link with the string-level argument model -/
theorem shapeInitV_eq (a : Arg) : shapeInitV (argV "ShapeType" a) true = (shapeTypeOfArg a).map (PyRet.member "ShapeType") := by
  cases a with
  | str s =>
    show shapeInitV (.str s) true = _
    rw [shapeInitV_str, shapeTypeFromValueV_eq]
    show _ = (shapeTypeFromValue s).map (PyRet.member "ShapeType")
    cases shapeTypeFromValue s <;> rfl
  | member m => rfl

/-- C20_G (string stored verbatim next to an explicit footprint) and the F12 parser under `Shape` violate all of this -/
example : ¬ (∀ p ∈ Gen.shapeType, ∀ fp, shapeInitV_G (.str p.2) fp = shapeInitV_G (.member "ShapeType" p.1) fp) := by decide
example : ¬ (∀ p ∈ Gen.shapeType, ∀ a ∈ [PyRet.str p.2, PyRet.member "ShapeType" p.1],
    shapeInitV_G a true = .ok (.member "ShapeType" p.1)) := by decide
example : shapeInitV_G (.str "polygon") true = .ok (.str "polygon") ∧ shapeInitV_G (.str "circle") true = .ok (.str "circle") := by
  decide
example : ¬ (∀ p ∈ Gen.shapeType, ∀ fp, shapeInitV_F12 (.str p.2) fp = shapeInitV_F12 (.member "ShapeType" p.1) fp) := by decide
/-- the F12 symptom: `Shape("bounding_box", size)` raised, `Shape("polygon", size, footprint).type` was `'POLYGON'` -/
example : shapeInitV_F12 (.str "bounding_box") false = .error "ValueError" ∧
    shapeInitV_F12 (.str "polygon") true = .ok (.str "POLYGON") := by decide
example : shapeInitV (.str "bounding_box") false = .ok (.member "ShapeType" "BOUNDING_BOX") ∧
    shapeInitV (.str "polygon") true = .ok (.member "ShapeType" "POLYGON") ∧
    shapeInitV (.str "polygon") false = .error "ValueError" ∧ shapeInitV (.str "BOUNDING_BOX") true = .error "ValueError" := by decide

/-! ## `TransformKey(src, dst)` / `HomogeneousMatrix(…, src, dst)`: both fields hold members for every spelling -/

theorem frameArgV_spellings : ∀ p ∈ Gen.frameID, ∀ a ∈ spellingsV "FrameID" p, frameOfArgV a = .ok (.member "FrameID" p.1) := by
  intro p hp a ha
  simp only [spellingsV, List.mem_cons, List.not_mem_nil, or_false] at ha
  rcases ha with rfl | rfl | rfl
  · exact (roundtripV_frame p hp).1
  · exact (roundtripV_frame p hp).2
  · rfl

/-- value, upper-case value and member, independently for source and destination (9 combinations): the key holds the two
members -/
theorem transformKeyV_spellings : ∀ p ∈ Gen.frameID, ∀ r ∈ Gen.frameID,
    ∀ a ∈ spellingsV "FrameID" p, ∀ b ∈ spellingsV "FrameID" r,
    transformKeyV a b = .ok (.member "FrameID" p.1, .member "FrameID" r.1) := by
  intro p hp r hr a ha b hb
  unfold transformKeyV
  rw [frameArgV_spellings p hp a ha, frameArgV_spellings r hr b hb]; rfl

/-- a string argument never survives as a string in `key.src` / `key.dst` -/
theorem transformKeyV_sound (a b x y : PyRet) (h : transformKeyV a b = .ok (x, y)) :
    (∀ s, a = .str s → ∃ m, (m, s.toLower) ∈ Gen.frameID ∧ x = .member "FrameID" m) ∧
    (∀ d, b = .str d → ∃ m, (m, d.toLower) ∈ Gen.frameID ∧ y = .member "FrameID" m) ∧
    ((∀ s, a ≠ .str s) → x = a) ∧ ((∀ d, b ≠ .str d) → y = b) := by
  unfold transformKeyV at h
  cases ha : frameOfArgV a with
  | error k => rw [ha] at h; cases h
  | ok x' =>
    cases hb : frameOfArgV b with
    | error k => rw [ha, hb] at h; cases h
    | ok y' =>
      rw [ha, hb] at h
      have hx : x' = x := by cases h; rfl
      have hy : y' = y := by cases h; rfl
      subst hx; subst hy
      refine ⟨?_, ?_, ?_, ?_⟩
      · intro s hs; subst hs; exact frameV_sound s _ ha
      · intro d hd; subst hd; exact frameV_sound d _ hb
      · intro hn; cases a with
        | str s => exact absurd rfl (hn s)
        | member e m => cases ha; rfl
        | none => cases ha; rfl
      · intro hn; cases b with
        | str s => exact absurd rfl (hn s)
        | member e m => cases hb; rfl
        | none => cases hb; rfl

/-- link with the string-level `transformKey` -/
theorem transformKeyV_eq (a b : Arg) :
    transformKeyV (argV "FrameID" a) (argV "FrameID" b) =
      (transformKey a b).map fun k => (PyRet.member "FrameID" k.1, PyRet.member "FrameID" k.2) := by
  have hA : ∀ a : Arg, frameOfArgV (argV "FrameID" a) = (frameOfArg a).map (PyRet.member "FrameID") := by
    intro a; cases a with
    | str s => exact frameFromValueV_eq s
    | member m => rfl
  unfold transformKeyV transformKey
  rw [hA a, hA b]
  cases frameOfArg a with
  | error k => rfl
  | ok x => cases frameOfArg b <;> rfl

/-- seeded C20_B (`dst` parsed when `src` is a string) and C20_J (parsed only when both are strings) violate it in a mixed
spelling -/
example : ¬ (∀ p ∈ Gen.frameID, ∀ r ∈ Gen.frameID, ∀ a ∈ spellingsV "FrameID" p, ∀ b ∈ spellingsV "FrameID" r,
    transformKeyV_B a b = .ok (.member "FrameID" p.1, .member "FrameID" r.1)) := by
  intro h
  have := h ("MAP", "map") (by decide) ("BASE_LINK", "base_link") (by decide) (.member "FrameID" "MAP") (by decide +kernel)
    (.str "base_link") (by decide +kernel)
  revert this; decide +kernel
example : ¬ (∀ p ∈ Gen.frameID, ∀ r ∈ Gen.frameID, ∀ a ∈ spellingsV "FrameID" p, ∀ b ∈ spellingsV "FrameID" r,
    transformKeyV_J a b = .ok (.member "FrameID" p.1, .member "FrameID" r.1)) := by
  intro h
  have := h ("MAP", "map") (by decide) ("BASE_LINK", "base_link") (by decide) (.str "map") (by decide +kernel)
    (.member "FrameID" "BASE_LINK") (by decide +kernel)
  revert this; decide +kernel
example : transformKeyV_B (.member "FrameID" "MAP") (.str "base_link") = .ok (.member "FrameID" "MAP", .str "base_link") ∧
    transformKeyV_J (.str "map") (.member "FrameID" "BASE_LINK") = .ok (.str "map", .member "FrameID" "BASE_LINK") ∧
    transformKeyV (.str "MAP") (.member "FrameID" "BASE_LINK") = .ok (.member "FrameID" "MAP", .member "FrameID" "BASE_LINK") := by
  decide +kernel

/-! ## `FrameID.from_task(task)`: the task as string value and as member -/

/-- both spellings of a task give the same answer (the same frame member, or the same rejection) -/
theorem fromTask_str_eq_enum : ∀ p ∈ Gen.evaluationTask,
    frameFromTaskV (.str p.2) = frameFromTaskV (.member "EvaluationTask" p.1) := by
  intro p hp
  show (taskFromValueV p.2).bind frameOfTaskMember = _
  rw [roundtripV_task p hp]; rfl

/-- whatever the argument, an answer of `from_task` is a member of `FrameID` -/
theorem fromTask_sound (a v : PyRet) (h : frameFromTaskV a = .ok v) : ∃ f ∈ names Gen.frameID, v = .member "FrameID" f := by
  have hm : ∀ t, frameOfTaskMember t = .ok v → ∃ f ∈ names Gen.frameID, v = .member "FrameID" f := by
    intro t ht
    unfold frameOfTaskMember at ht
    split at ht
    · split at ht
      · cases ht
      · split at ht
        · cases ht
        · split at ht
          · cases ht; exact ⟨"BASE_LINK", by decide, rfl⟩
          · split at ht
            · cases ht; exact ⟨"MAP", by decide, rfl⟩
            · cases ht
    · cases ht
  cases a with
  | str s =>
    have : frameFromTaskV (.str s) = (taskFromValueV s).bind frameOfTaskMember := rfl
    rw [this] at h
    cases ht : taskFromValueV s with
    | error k => rw [ht] at h; cases h
    | ok t => rw [ht] at h; exact hm t h
  | member e m => exact hm (.member e m) h
  | none => exact hm .none h

/-- a 2-D task is rejected in both spellings -/
theorem fromTask_2d_rejected : ∀ p ∈ Gen.evaluationTask, taskIs3d p.1 = false →
    frameFromTaskV (.str p.2) = .error "ValueError" ∧ frameFromTaskV (.member "EvaluationTask" p.1) = .error "ValueError" := by
  decide

/-- a string that is no task value is rejected -/
theorem fromTask_nonmember (s : String) (h : s ∉ values Gen.evaluationTask) : frameFromTaskV (.str s) = .error "ValueError" := by
  show (taskFromValueV s).bind frameOfTaskMember = _
  rw [taskFromValueV_eq, nonmember_task s h]; rfl

/-- the members the branches of `from_task` name exist: the four tasks are 3-D members of `EvaluationTask`, the two frames
are members of `FrameID` (a renamed member breaks this) -/
theorem fromTask_names_present :
    (∀ m ∈ ["DETECTION", "SENSING", "TRACKING", "PREDICTION"], m ∈ names Gen.evaluationTask ∧ taskIs3d m = true) ∧
    "BASE_LINK" ∈ names Gen.frameID ∧ "MAP" ∈ names Gen.frameID := by decide

/-- the documented answers, in both spellings -/
theorem fromTask_documented : ∀ p ∈ Gen.evaluationTask, ∀ a ∈ [PyRet.str p.2, PyRet.member "EvaluationTask" p.1],
    ((p.1 = "DETECTION" ∨ p.1 = "SENSING") → frameFromTaskV a = .ok (.member "FrameID" "BASE_LINK")) ∧
    ((p.1 = "TRACKING" ∨ p.1 = "PREDICTION") → frameFromTaskV a = .ok (.member "FrameID" "MAP")) := by decide

/-- without the conversion of the string the two spellings differ -/
example : ¬ (∀ p ∈ Gen.evaluationTask, frameFromTaskV_noconv (.str p.2) = frameFromTaskV_noconv (.member "EvaluationTask" p.1)) := by
  decide
example : frameFromTaskV (.str "tracking") = .ok (.member "FrameID" "MAP") ∧
    frameFromTaskV (.member "EvaluationTask" "SENSING") = .ok (.member "FrameID" "BASE_LINK") ∧
    frameFromTaskV (.str "fp_validation") = .error "ValueError" ∧
    frameFromTaskV (.member "FrameID" "MAP") = .error "AttributeError" ∧
    frameFromTaskV_noconv (.str "tracking") = .error "AttributeError" := by decide
example : ∃ p ∈ Gen.evaluationTask, taskIs3d p.1 = false := by decide
example : "Tracking" ∉ values Gen.evaluationTask := by decide

/-! ## the parse sites taking several strings hand back members -/

theorem membersNamedV_eq (enum : String) (t : Table) (s : String) :
    membersNamedV enum t s = (membersNamed t s).map (PyRet.member enum) := by
  simp [membersNamedV, membersNamed, List.map_map, Function.comp_def]

theorem setTaskListsV_eq (l : List String) : setTaskListsV l = (setTaskLists l).map (PyRet.member "EvaluationTask") := by
  induction l with
  | nil => rfl
  | cons s l ih =>
    have h1 : setTaskListsV (s :: l) = membersNamedV "EvaluationTask" Gen.evaluationTask s ++ setTaskListsV l := by
      simp [setTaskListsV]
    have h2 : setTaskLists (s :: l) = membersNamed Gen.evaluationTask s ++ setTaskLists l := by simp [setTaskLists]
    rw [h1, h2, ih, membersNamedV_eq, List.map_append]

theorem setTaskDictV_eq {α : Type} (kv : List (String × α)) :
    setTaskDictV kv = (setTaskDict kv).map fun e => (PyRet.member "EvaluationTask" e.1, e.2) := by
  induction kv with
  | nil => rfl
  | cons e kv ih =>
    have h1 : setTaskDictV (e :: kv) =
        (membersNamedV "EvaluationTask" Gen.evaluationTask e.1).map (fun m => (m, e.2)) ++ setTaskDictV kv := by
      simp [setTaskDictV]
    have h2 : setTaskDict (e :: kv) = (membersNamed Gen.evaluationTask e.1).map (fun m => (m, e.2)) ++ setTaskDict kv := by
      simp [setTaskDict]
    rw [h1, h2, ih, membersNamedV_eq, List.map_append]
    simp [List.map_map, Function.comp_def]

theorem mapM_frameFromValueV_eq (l : List String) :
    l.mapM frameFromValueV = (l.mapM frameFromValue).map (List.map (PyRet.member "FrameID")) := by
  induction l with
  | nil => rfl
  | cons s l ih =>
    simp only [List.mapM_cons, ih, frameFromValueV_eq]
    cases frameFromValue s with
    | error k => rfl
    | ok m => cases l.mapM frameFromValue <;> rfl

theorem frameIdsV_eq (a : FrameIdArg) : frameIdsV a = (frameIds a).map (List.map (PyRet.member "FrameID")) := by
  cases a with
  | one s =>
    show (frameFromValueV s).map (fun m => [m]) = ((frameFromValue s).map fun m => [m]).map (List.map (PyRet.member "FrameID"))
    rw [frameFromValueV_eq]; cases frameFromValue s <;> rfl
  | many l => exact mapM_frameFromValueV_eq l

theorem checkTaskV_eq (support : List String) (s : String) :
    checkTaskV support s = (checkTask support s).map fun o => (o.map (PyRet.member "EvaluationTask")).getD .none := by
  unfold checkTaskV checkTask
  split
  · rw [setTaskV_eq]; rfl
  · rfl

/-- every member value maps to its MEMBER, order and repetitions preserved; nothing but members of `EvaluationTask` comes back -/
theorem roundtripV_setTaskLists (ps : List (String × String)) (h : ∀ p ∈ ps, p ∈ Gen.evaluationTask) :
    setTaskListsV (ps.map (·.2)) = ps.map fun p => PyRet.member "EvaluationTask" p.1 := by
  rw [setTaskListsV_eq, roundtrip_setTaskLists ps h, List.map_map]; rfl

theorem setTaskListsV_sound (l : List String) :
    ∀ v ∈ setTaskListsV l, ∃ m s, s ∈ l ∧ (m, s) ∈ Gen.evaluationTask ∧ v = .member "EvaluationTask" m := by
  intro v hv
  rw [setTaskListsV_eq, List.mem_map] at hv
  obtain ⟨m, hm, rfl⟩ := hv
  obtain ⟨s, hs, hms⟩ := setTaskLists_sound l m hm
  exact ⟨m, s, hs, hms, rfl⟩

theorem roundtripV_setTaskDict {α : Type} (ps : List ((String × String) × α)) (h : ∀ e ∈ ps, e.1 ∈ Gen.evaluationTask) :
    setTaskDictV (ps.map fun e => (e.1.2, e.2)) = ps.map fun e => (PyRet.member "EvaluationTask" e.1.1, e.2) := by
  rw [setTaskDictV_eq, roundtrip_setTaskDict ps h, List.map_map]; rfl

theorem roundtripV_frameIds (ps : List (String × String)) (h : ∀ p ∈ ps, p ∈ Gen.frameID) :
    frameIdsV (.many (ps.map (·.2))) = .ok (ps.map fun p => PyRet.member "FrameID" p.1) := by
  rw [frameIdsV_eq, roundtrip_frameIds_many ps h]
  show Except.ok _ = _
  rw [List.map_map]; rfl

theorem roundtripV_frameIds_one : ∀ p ∈ Gen.frameID,
    frameIdsV (.one p.2) = .ok [.member "FrameID" p.1] ∧ frameIdsV (.one p.2.toUpper) = .ok [.member "FrameID" p.1] := by
  intro p hp
  rw [frameIdsV_eq, frameIdsV_eq, (roundtrip_frameIds_one p hp).1, (roundtrip_frameIds_one p hp).2]; exact ⟨rfl, rfl⟩

theorem roundtripV_checkTask (support : List String) : ∀ p ∈ Gen.evaluationTask, p.2 ∈ support →
    checkTaskV support p.2 = .ok (.member "EvaluationTask" p.1) := by
  intro p hp hs
  rw [checkTaskV_eq, roundtrip_checkTask support p hp hs]; rfl

/-- a `set_task_lists` that appended `task.name` violates it -/
example : ¬ (∀ ps : List (String × String), (∀ p ∈ ps, p ∈ Gen.evaluationTask) →
    setTaskListsV_N (ps.map (·.2)) = ps.map fun p => PyRet.member "EvaluationTask" p.1) := by
  intro h
  have := h [("TRACKING", "tracking")] (by decide)
  revert this; decide
example : setTaskListsV ["tracking", "x", "detection"] = [.member "EvaluationTask" "TRACKING", .member "EvaluationTask" "DETECTION"] := by
  decide
example : frameIdsV (.many ["cam_front", "CAM_BACK"]) = .ok [.member "FrameID" "CAM_FRONT", .member "FrameID" "CAM_BACK"] := by
  decide +kernel

end PEval.C20

/-! # Value level: remaining clauses and non-vacuity witnesses -/
namespace PEval.C20
open PEval.Enums PEval

/-- the two further tables of `Gen.Enums` (read by other properties' models) are present too -/
theorem matchingMode_nonempty : Gen.matchingMode ≠ [] := by decide
theorem taskIsFpValidation_nonempty : Gen.taskIsFpValidation ≠ [] := by decide

/-- every case spelling of a frame value is read alike (`FrameID.from_value` lower-cases first): e.g. `"Base_Link"` -/
theorem frameV_case_irrelevant (s t : String) (h : s.toLower = t.toLower) : frameFromValueV s = frameFromValueV t := by
  unfold frameFromValueV; rw [h]

/-- every case spelling of a policy name is read alike (`from_str` upper-cases first) -/
theorem policyV_case_irrelevant (s t : String) (h : s.toUpper = t.toUpper) : policyFromStrV s = policyFromStrV t := by
  unfold policyFromStrV; simp only [h]

/-- mixed-case spellings of every frame (first letter of every word upper-case is one of them) reach the member -/
theorem roundtripV_frame_anycase (s : String) : ∀ p ∈ Gen.frameID, s.toLower = p.2 → frameFromValueV s = .ok (.member "FrameID" p.1) := by
  intro p hp h
  rw [frameV_case_irrelevant s p.2 (by rw [h, frame_values_lower p hp])]
  exact (roundtripV_frame p hp).1

/-! ## non-vacuity of the hypotheses used above -/
example : ("Base_Link" : String).toLower = "base_link" ∧ ("BASE_LINK", "base_link") ∈ Gen.frameID := by decide +kernel
example : frameFromValueV "Base_Link" = .ok (.member "FrameID" "BASE_LINK") := by decide +kernel
example : ("Allow_Any" : String).toUpper = "ALLOW_ANY" ∧ ("allow_any" : String).toUpper = "ALLOW_ANY" := by decide +kernel
example : "circle" ∉ values Gen.shapeType ∧ "BOUNDING_BOX" ∉ values Gen.shapeType := by decide
example : "lidar" ∈ values Gen.sensorModality := by decide
example : "whatever" ∉ values Gen.visibility ∧ "whatever" ∉ Gen.visibilityAlias.map (·.1) := by decide
example : taskFromValueV "sensing" = .ok (.member "EvaluationTask" "SENSING") ∧ setTaskV "nope" = .none ∧
    sensorFromValueV "camera" = .ok (.member "SensorModality" "CAMERA") ∧
    shapeTypeFromValueV "bounding_box" = .ok (.member "ShapeType" "BOUNDING_BOX") ∧
    visibilityFromValueV "most" = .ok (.member "Visibility" "MOST") := by decide
example : policyFromStrV "allow_any" = .ok (.member "MatchingLabelPolicy" "ALLOW_ANY") := by decide +kernel
example : checkTaskV ["sensing"] "sensing" = .ok (.member "EvaluationTask" "SENSING") ∧
    checkTaskV ["sensing", "x"] "x" = .ok .none ∧ checkTaskV ["sensing"] "detection" = .error "ValueError" := by decide

end PEval.C20

/-! ## ties to two more regenerated tables: `FrameID.from_task` per member, and the printed form of every member -/
namespace PEval.C20
open PEval.Enums

/-- the hand-written branch structure of `FrameID.from_task` answers, for EVERY task member, what the running code
answers (tables `Gen.taskFrameOk` / `Gen.taskFrameRaise` are produced by calling the real `from_task` on every run),
and the two tables together cover every member exactly once -/
theorem fromTask_agrees_with_source :
    (∀ p ∈ Gen.taskFrameOk, frameFromTaskV (.member "EvaluationTask" p.1) = .ok (.member "FrameID" p.2)) ∧
    (∀ p ∈ Gen.taskFrameRaise, frameFromTaskV (.member "EvaluationTask" p.1) = .error p.2) ∧
    (Gen.taskFrameOk.map (·.1) ++ Gen.taskFrameRaise.map (·.1)).Perm (Gen.evaluationTask.map (·.1)) := by
  refine ⟨by decide +kernel, by decide +kernel, by decide +kernel⟩

/-- "parsing the printed form of a member gives the member back": `str(member)` (regenerated on every run) parses to
that very member, for every member of every configuration enum that prints its value -/
theorem printed_form_parses_back :
    (∀ p ∈ Gen.evaluationTaskPrinted, taskFromValueV p.2 = .ok (.member "EvaluationTask" p.1)) ∧
    (∀ p ∈ Gen.frameIDPrinted, frameFromValueV p.2 = .ok (.member "FrameID" p.1)) ∧
    (∀ p ∈ Gen.visibilityPrinted, visibilityFromValueV p.2 = .ok (.member "Visibility" p.1)) ∧
    (∀ p ∈ Gen.sensorModalityPrinted, sensorFromValueV p.2 = .ok (.member "SensorModality" p.1)) ∧
    (∀ p ∈ Gen.shapeTypePrinted, shapeTypeFromValueV p.2 = .ok (.member "ShapeType" p.1)) := by
  refine ⟨by decide +kernel, by decide +kernel, by decide +kernel, by decide +kernel, by decide +kernel⟩

/-- the printed-form tables list every member (so the theorem above is about all of them) -/
theorem printed_tables_complete :
    Gen.evaluationTaskPrinted.map (·.1) = Gen.evaluationTask.map (·.1) ∧
    Gen.frameIDPrinted.map (·.1) = Gen.frameID.map (·.1) ∧
    Gen.visibilityPrinted.map (·.1) = Gen.visibility.map (·.1) ∧
    Gen.sensorModalityPrinted.map (·.1) = Gen.sensorModality.map (·.1) ∧
    Gen.shapeTypePrinted.map (·.1) = Gen.shapeType.map (·.1) := by
  refine ⟨by decide +kernel, by decide +kernel, by decide +kernel, by decide +kernel, by decide +kernel⟩

end PEval.C20

/-! ## a regenerated table that sees the defect class F12 -/
namespace PEval.C20

/-- On the running code, every string constructor of a configuration enum returns, for every member's own string
value, THAT VERY MEMBER (the table `Gen.parserReturnKinds` is produced on every run by calling the real constructors
and classifying the returned object: member of the enum by identity / str / None / other / raise). A constructor that
returns the member's name string (defect F12) makes a row read `"str"` and breaks this obligation. -/
theorem parsers_return_members_in_source :
    ∀ r ∈ Gen.parserReturnKinds, r.2.2 = "member:" ++ r.2.1 := by decide +kernel

/-- the table covers every member of the five enums for `from_value`, and `set_task` for the tasks -/
theorem parserReturnKinds_complete :
    (Gen.parserReturnKinds.filter (fun r => r.1 == "EvaluationTask.from_value")).map (·.2.1) = Gen.evaluationTask.map (·.1) ∧
    (Gen.parserReturnKinds.filter (fun r => r.1 == "FrameID.from_value")).map (·.2.1) = Gen.frameID.map (·.1) ∧
    (Gen.parserReturnKinds.filter (fun r => r.1 == "Visibility.from_value")).map (·.2.1) = Gen.visibility.map (·.1) ∧
    (Gen.parserReturnKinds.filter (fun r => r.1 == "SensorModality.from_value")).map (·.2.1) = Gen.sensorModality.map (·.1) ∧
    (Gen.parserReturnKinds.filter (fun r => r.1 == "ShapeType.from_value")).map (·.2.1) = Gen.shapeType.map (·.1) := by
  refine ⟨by decide +kernel, by decide +kernel, by decide +kernel, by decide +kernel, by decide +kernel⟩

end PEval.C20
