import PEval.Properties.C13Heap
import PEval.Properties.C13Scene
/-!
# C13 × C04 — the scene score of a REACHED manager state is `AP.sceneMap` of the frames that were added

`C13.manager_scene_eq_AP_sceneMap` (`Properties/C13Scene.lean`) links the pooling machine's scene score to the C04
model of `get_scene_result → Map → Ap` on a hand-built state (`stateOfAP`: the frames written directly into
`frameResults`).  Here the state is one REACHED by the heap manager (`Model/ManagerHeap.lean`: references, explicit
writes, `get_scene_result` dereferencing every stored result's ground-truth frame at query time): start from ANY store
and dataset, run ANY list of operations (adds with any references that exist, scene queries and look-ups interleaved),
then ask for the scene.  The pure parts of the manager (`HSem`: both filters, matcher, critical filter) are arbitrary;
its two divisions and TP columns are those of `Model/AP.lean` (`IsAPSem`).  The frames of the scene are the pure
evaluations of the `add`s in call order (`addsFrames`: `pureORs` — the critical object results —, labels of `pureGts`).

Composition: `heap_scene_eq_manager_scene` (heap machine = state-free machine, needs `LabelsAgree`) →
`run_frameResults_det` (the stored detection views are the fresh evaluations of the adds) →
`manager_scene_eq_AP_sceneMap` (pooled `Manager.apOf` = `Ap.ap` of `AP.sceneMap`).
-/
namespace PEval.C13
open PEval.Manager PEval.ManagerHeap PEval

variable {Est C T : Type}

/-- the heap manager's divisions and TP column are those of the detection-metrics model: per `(label, threshold)` of
`zip(target_labels, thresholds)` the `divide_objects` bucket with the TP weight of metric `tm` under mode `m`, and the
number of ground truths of the label (`lab` = label of a ground-truth id); the frame level uses the same target labels
(`LabelsAgree`: see its doc comment for what the code does otherwise) -/
def IsAPSem (sem : HSem Est AP.Res C T) (tm : AP.TpMetric) (m : AP.Mode) (Tl : List AP.Label) (th : List Rat)
    (lab : Nat → AP.Label) : Prop :=
  sem.nLabels = (Tl.zip th).length ∧ LabelsAgree sem ∧
  ∀ ors gts, (⟨sem.bucketsOf ors, sem.numGtOf gts⟩ : Det) = detOfAP tm m Tl th (ors, gts.map lab)

/-- the frames `get_scene_result` pools after a run: for every `add` (in call order; queries skipped) the critical
object results and the labels of the critical ground truths, computed from the VALUES the references held in the
original store `h` -/
def addsFrames (sem : HSem Est AP.Res C T) (lab : Nat → AP.Label) (h : Heap Est) :
    List (HOp C) → List (List AP.Res × List AP.Label)
  | [] => []
  | .add fr er c :: ops =>
    (pureORs sem c (h.frame fr) (h.est er), (pureGts sem c (h.frame fr)).map lab) :: addsFrames sem lab h ops
  | _ :: ops => addsFrames sem lab h ops

theorem addsDet_eq_addsFrames {sem : HSem Est AP.Res C T} {tm : AP.TpMetric} {m : AP.Mode} {Tl : List AP.Label}
    {th : List Rat} {lab : Nat → AP.Label} (hs : IsAPSem sem tm m Tl th lab) (h : Heap Est) (ops : List (HOp C)) :
    addsDet (toSem sem) (ops.map (absOp h)) = (addsFrames sem lab h ops).map (detOfAP tm m Tl th) := by
  induction ops with
  | nil => rfl
  | cons op ops ih =>
    cases op with
    | add fr er c =>
      simp only [List.map_cons, absOp, addsDet, addsFrames, ih]
      congr 1
      show pureDet sem c (h.frame fr) (h.est er) = _
      unfold pureDet
      rw [hs.2.1, hs.2.2]
    | scene => simpa [absOp, addsDet, addsFrames] using ih
    | lookup t thr => simpa [absOp, addsDet, addsFrames] using ih

/-- the score of the pooling machine depends on a state only through the detection views of its stored results -/
theorem scene_score_congr {T₁ T₂ : Type} (nl : Nat) (s₁ : State T₁) (s₂ : State T₂)
    (h : s₁.frameResults.map (·.det) = s₂.frameResults.map (·.det)) (ap : List Res → Nat → Option Rat) (l : Nat)
    (hl : l < nl) : (getSceneResult nl s₁).score ap l = (getSceneResult nl s₂).score ap l := by
  unfold Scene.score
  rw [scene_pooled nl s₁ l hl, scene_pooled nl s₂ l hl, scene_gt nl s₁ l hl, scene_gt nl s₂ l hl]
  have e1 : ∀ {T' : Type} (s : State T'), s.frameResults.map (fun r => r.det.bucket l) = (s.frameResults.map (·.det)).map (·.bucket l) := by
    intro T' s; rw [List.map_map]; rfl
  have e2 : ∀ {T' : Type} (s : State T'), s.frameResults.map (fun r => r.det.gt l) = (s.frameResults.map (·.det)).map (·.gt l) := by
    intro T' s; rw [List.map_map]; rfl
  rw [e1 s₁, e1 s₂, e2 s₁, e2 s₂, h]

/-- **the scene score of a reached state is `AP.sceneMap` of the added frames.**  Heap manager with the AP model's
divisions; ANY store `h` and dataset `ds` (references valid), ANY operation list naming existing cells.  The answer to a
`scene` query issued after the run is `hgetSceneResult` of the state the run reached, and whenever the C04 model of
`get_scene_result → Map` evaluates on the frames of the adds, the score the manager computes for the `i`-th label from its
stored results and the ground-truth frames it dereferences at query time (`Manager.apOf` = `Ap` of
`Lemmas/ManagerAPLink.lean`) is the `i`-th AP (`tm = .ap`), resp. in 3-D the `i`-th APH (`tm = .aph`), of that `Map`. -/
theorem heap_scene_is_AP_sceneMap_of_reached_state (sem : HSem Est AP.Res C T) {tm : AP.TpMetric} {m : AP.Mode}
    {Tl : List AP.Label} {th : List Rat} {lab : Nat → AP.Label} (hs : IsAPSem sem tm m Tl th lab)
    (h : Heap Est) (ds : List Ref) (hv : DatasetValid h ds) (ops : List (HOp C)) (hops : ∀ op ∈ ops, op.validIn h)
    {is2d : Bool} {o : AP.MapOut} (ho : AP.sceneMap m is2d Tl th (addsFrames sem lab h ops) = .ok o) :
    hlastOut sem (hfresh h ds) (ops ++ [.scene])
      = some (.scene (hgetSceneResult sem (hrun sem (hfresh h ds) ops).1)) ∧
    ∀ i lt, (Tl.zip th)[i]? = some lt →
      (tm = .ap → ∃ a, o.aps[i]? = some a ∧
        (hgetSceneResult sem (hrun sem (hfresh h ds) ops).1).score (Manager.apOf 0) i = a.ap) ∧
      (tm = .aph → is2d = false → ∃ a, o.aphs[i]? = some a ∧
        (hgetSceneResult sem (hrun sem (hfresh h ds) ops).1).score (Manager.apOf 0) i = a.ap) := by
  have hq : hlastOut sem (hfresh h ds) (ops ++ [.scene])
      = some (.scene (hgetSceneResult sem (hrun sem (hfresh h ds) ops).1)) := by
    rw [hlastOut, hlastOutV_append_one]
    rfl
  refine ⟨hq, ?_⟩
  have hm := heap_scene_eq_manager_scene sem hs.2.1 h ds hv ops hops
  rw [hq] at hm
  have hsc : hgetSceneResult sem (hrun sem (hfresh h ds) ops).1
      = getSceneResult sem.nLabels (run (toSem sem) (fresh (ds.map h.frame)) (ops.map (absOp h))).1 := by
    have h1 := Option.some.inj hm
    injection h1
  intro i lt hi
  have hil : i < sem.nLabels := by rw [hs.1]; exact (List.getElem?_eq_some_iff.1 hi).1
  have hdet : ∀ tm', tm' = tm →
      (run (toSem sem) (fresh (ds.map h.frame)) (ops.map (absOp h))).1.frameResults.map (·.det)
        = (stateOfAP tm' m Tl th (addsFrames sem lab h ops)).frameResults.map (·.det) := by
    intro tm' htm
    subst htm
    rw [run_frameResults_det, addsDet_eq_addsFrames hs]
    simp [fresh, stateOfAP, List.map_map, Function.comp_def]
  rw [hsc, hs.1]
  obtain ⟨k1, k2⟩ := manager_scene_eq_AP_sceneMap ho hi
  constructor
  · intro htm
    obtain ⟨a, ha, hsa⟩ := k1
    refine ⟨a, ha, ?_⟩
    rw [← hsa]
    exact scene_score_congr _ _ _ (hdet .ap htm.symm) _ i (List.getElem?_eq_some_iff.1 hi).1
  · intro htm h2d
    obtain ⟨a, ha, hsa⟩ := k2 h2d
    refine ⟨a, ha, ?_⟩
    rw [← hsa]
    exact scene_score_congr _ _ _ (hdet .aph htm.symm) _ i (List.getElem?_eq_some_iff.1 hi).1

/-- a one-frame scene on a reached state reproduces that frame's detection score — the FRAME-level `Map` of the C04
model (`AP.frameMap`) on the frame's critical object results and ground truths; queries may be interleaved -/
theorem heap_single_frame_is_AP_frameMap (sem : HSem Est AP.Res C T) {m : AP.Mode}
    {Tl : List AP.Label} {th : List Rat} {lab : Nat → AP.Label} (hs : IsAPSem sem .ap m Tl th lab)
    (h : Heap Est) (ds : List Ref) (hv : DatasetValid h ds) (qs₁ qs₂ : List (HOp C))
    (hq₁ : ∀ op ∈ qs₁, op.isQuery = true) (hq₂ : ∀ op ∈ qs₂, op.isQuery = true)
    (fr er : Ref) (c : C) (h1 : fr < h.frames.length) (h2 : er < h.ests.length)
    {is2d : Bool} {o : AP.MapOut}
    (ho : AP.frameMap m is2d Tl th (pureORs sem c (h.frame fr) (h.est er)) ((pureGts sem c (h.frame fr)).map lab) = .ok o)
    {i : Nat} {lt : AP.Label × Rat} (hi : (Tl.zip th)[i]? = some lt) :
    ∃ a, o.aps[i]? = some a ∧
      (hgetSceneResult sem (hrun sem (hfresh h ds) (qs₁ ++ [.add fr er c] ++ qs₂)).1).score (Manager.apOf 0) i = a.ap := by
  have hfr : ∀ qs : List (HOp C), (∀ op ∈ qs, op.isQuery = true) → addsFrames sem lab h qs = [] := by
    intro qs hq
    induction qs with
    | nil => rfl
    | cons op qs ih =>
      have h0 := hq op List.mem_cons_self
      have ht := ih (fun o ho => hq o (List.mem_cons_of_mem _ ho))
      cases op with
      | add fr er c => simp [HOp.isQuery] at h0
      | scene => simpa [addsFrames] using ht
      | lookup t thr => simpa [addsFrames] using ht
  have happ : ∀ a b : List (HOp C), addsFrames sem lab h (a ++ b) = addsFrames sem lab h a ++ addsFrames sem lab h b := by
    intro a b
    induction a with
    | nil => rfl
    | cons op a ih => cases op <;> simp [addsFrames, ih]
  have hframes : addsFrames sem lab h (qs₁ ++ [.add fr er c] ++ qs₂)
      = [(pureORs sem c (h.frame fr) (h.est er), (pureGts sem c (h.frame fr)).map lab)] := by
    rw [happ, happ, hfr qs₁ hq₁, hfr qs₂ hq₂]
    simp [addsFrames]
  have hvalid : ∀ op ∈ qs₁ ++ [.add fr er c] ++ qs₂, op.validIn h := by
    intro op hop
    simp only [List.mem_append, List.mem_cons, List.not_mem_nil, or_false] at hop
    rcases hop with (hop | rfl) | hop
    · have := hq₁ op hop
      cases op with
      | add _ _ _ => simp [HOp.isQuery] at this
      | scene => trivial
      | lookup _ _ => trivial
    · exact ⟨h1, h2⟩
    · have := hq₂ op hop
      cases op with
      | add _ _ _ => simp [HOp.isQuery] at this
      | scene => trivial
      | lookup _ _ => trivial
  rw [← C04.scene_single_frame_eq_frame, ← hframes] at ho
  exact ((heap_scene_is_AP_sceneMap_of_reached_state sem hs h ds hv _ hvalid ho).2 i lt hi).1 rfl

/-! ### non-vacuity: a heap manager with the AP model's divisions on a concrete store

Ground truths 7 (car = 2), 8, 9 (pedestrian = 4); two dataset frames; the estimate lists ARE lists of `AP.Res` (the
matcher is the identity here, the filters drop nothing; the critical filter `true` drops results of label 4). -/
section Example

def exLab (g : Nat) : AP.Label := if g == 7 then 2 else 4

def exAPSem (tm : AP.TpMetric) : HSem AP.Res AP.Res Bool Unit where
  nLabels := 2
  filterEst := fun _ es => es
  filterGt := fun _ gs => gs
  matchObjs := fun _ es _ => es
  critRes := fun c _ ors => if c then ors.filter (fun r => r.label != 4) else ors
  critGt := fun c _ gs => if c then gs.filter (fun g => exLab g != 4) else gs
  detOf := fun _ ors gs => detOfAP tm .centerDistance [2, 4] [1, 1] (ors, gs.map exLab)
  bucketsOf := fun ors => (detOfAP tm .centerDistance [2, 4] [1, 1] (ors, [])).results
  numGtOf := fun gs => (detOfAP tm .centerDistance [2, 4] [1, 1] ([], gs.map exLab)).numGt
  trackOf := fun _ _ _ _ => ()

theorem exAPSem_isAPSem (tm : AP.TpMetric) : IsAPSem (exAPSem tm) tm .centerDistance [2, 4] [1, 1] exLab :=
  ⟨rfl, fun _ _ _ => rfl, fun _ _ => rfl⟩

def exAPHeap : Heap AP.Res :=
  { frames := [⟨100, 0, [7, 8]⟩, ⟨200, 1, [7, 9]⟩], ests := [[C04.s1, C04.s2, C04.s3], [C04.s4]] }
def exAPOps : List (HOp Bool) := [.lookup 100 75, .add 0 0 false, .scene, .add 1 1 false, .lookup 200 75]

example : DatasetValid exAPHeap [0, 1] := by
  intro r hr
  simp only [List.mem_cons, List.not_mem_nil, or_false] at hr
  rcases hr with rfl | rfl <;> decide
example : ∀ op ∈ exAPOps, op.validIn exAPHeap := by
  intro op hop
  simp only [exAPOps, List.mem_cons, List.not_mem_nil, or_false] at hop
  rcases hop with rfl | rfl | rfl | rfl | rfl <;> simp [HOp.validIn, exAPHeap]
/-- the frames of the run are the two-frame scene of `C04Scene.lean` -/
example : addsFrames (exAPSem .ap) exLab exAPHeap exAPOps = C04.exFrames := by decide +kernel
/-- … and the reached state's scene scores are its APs (2/3 for label 2) and APHs -/
example : (AP.sceneMap .centerDistance false [2, 4] [1, 1] (addsFrames (exAPSem .ap) exLab exAPHeap exAPOps)).toOption.map
      (fun o => (o.aps.map (·.ap), o.aphs.map (·.ap)))
    = some ([(hgetSceneResult (exAPSem .ap) (hrun (exAPSem .ap) (hfresh exAPHeap [0, 1]) exAPOps).1).score (Manager.apOf 0) 0,
             (hgetSceneResult (exAPSem .ap) (hrun (exAPSem .ap) (hfresh exAPHeap [0, 1]) exAPOps).1).score (Manager.apOf 0) 1],
            [(hgetSceneResult (exAPSem .aph) (hrun (exAPSem .aph) (hfresh exAPHeap [0, 1]) exAPOps).1).score (Manager.apOf 0) 0,
             (hgetSceneResult (exAPSem .aph) (hrun (exAPSem .aph) (hfresh exAPHeap [0, 1]) exAPOps).1).score (Manager.apOf 0) 1]) := by
  decide +kernel
example : (hgetSceneResult (exAPSem .ap) (hrun (exAPSem .ap) (hfresh exAPHeap [0, 1]) exAPOps).1).score (Manager.apOf 0) 0
    = some (2 / 3) := by decide +kernel

/-- the statement FAILS for the F5 variant of the heap manager (no private copy of the ground-truth frame): after a
wide add of frame 0 and a narrow one (critical filter `true` drops the pedestrian ground truth 8 from the SHARED frame),
the scene counts 0 + 0 pedestrians where the frames of the adds have 1 + 0 — the pooled score of label 4 is computed
with the wrong ground-truth count -/
example : ((hgetSceneResult (exAPSem .ap) (hrunV .f5 (exAPSem .ap) (hfresh exAPHeap [0, 1]) [.add 0 0 false, .add 0 0 true]).1).numGt,
           (hgetSceneResult (exAPSem .ap) (hrun (exAPSem .ap) (hfresh exAPHeap [0, 1]) [.add 0 0 false, .add 0 0 true]).1).numGt,
           (addsFrames (exAPSem .ap) exLab exAPHeap [.add 0 0 false, .add 0 0 true]).map (fun f => AP.cnt 4 f.2))
    = ([2, 0], [2, 1], [1, 0]) := by decide +kernel

end Example

end PEval.C13
