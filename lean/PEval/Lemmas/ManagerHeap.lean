import PEval.Model.ManagerHeap
import PEval.Lemmas.Manager
/-!
Helper lemmas for the heap model of the evaluation manager (`PEval/Model/ManagerHeap.lean`):
the closed form of the repaired `add_frame_result` (it only APPENDS one cell to the store), the frame
condition over runs (`Ext`), and the simulation of the state-free machine `PEval.Manager`.
-/

namespace PEval.ManagerHeap
open PEval.Manager PEval

variable {Est OR C T : Type}

/-! ### store algebra -/

theorem frame_append_last (l : List Frame) (e : List (List Est)) (f : Frame) :
    (Heap.mk (l ++ [f]) e).frame l.length = f := by
  simp [Heap.frame]

theorem setObjects_append_last (l : List Frame) (e : List (List Est)) (f : Frame) (objs : List Nat) :
    (Heap.mk (l ++ [f]) e).setObjects l.length objs = Heap.mk (l ++ [{ f with objects := objs }]) e := by
  simp [Heap.setObjects, Heap.frame]

theorem Ext.refl (h : Heap Est) : Ext h h := ⟨List.prefix_refl _, rfl⟩

theorem Ext.trans {a b c : Heap Est} (h1 : Ext a b) (h2 : Ext b c) : Ext a c :=
  ⟨h1.1.trans h2.1, h2.2.trans h1.2⟩

theorem Ext.length_le {h h' : Heap Est} (hx : Ext h h') : h.frames.length ≤ h'.frames.length :=
  hx.1.length_le

theorem Ext.getElem? {h h' : Heap Est} (hx : Ext h h') {r : Ref} (hr : r < h.frames.length) :
    h'.frames[r]? = h.frames[r]? := by
  obtain ⟨t, ht⟩ := hx.1
  rw [← ht, List.getElem?_append_left hr]

theorem Ext.frame {h h' : Heap Est} (hx : Ext h h') {r : Ref} (hr : r < h.frames.length) :
    h'.frame r = h.frame r := by
  unfold Heap.frame
  rw [List.getD_eq_getElem?_getD, List.getD_eq_getElem?_getD, hx.getElem? hr]

theorem Ext.est {h h' : Heap Est} (hx : Ext h h') (r : Ref) : h'.est r = h.est r := by
  unfold Heap.est; rw [hx.2]

theorem Ext.ests_length {h h' : Heap Est} (hx : Ext h h') : h'.ests.length = h.ests.length := by
  rw [hx.2]

/-! ### the repaired `add_frame_result` in closed form -/

/-- the private cell the repaired add allocates: the copy, holding the twice filtered ground truths -/
def addCell (sem : HSem Est OR C T) (c : C) (f : Frame) : Frame := { f with objects := pureGts sem c f }

/-- the result record of the repaired add -/
def addResult (sem : HSem Est OR C T) (s : HState Est OR T) (fr er : Ref) (c : C) : HResult OR T :=
  { frameName := (s.heap.frame fr).name, frame := s.heap.frames.length
    objectResults := pureORs sem c (s.heap.frame fr) (s.heap.est er)
    det := pureDet sem c (s.heap.frame fr) (s.heap.est er)
    track := sem.trackOf c (pureORs sem c (s.heap.frame fr) (s.heap.est er)) (pureGts sem c (s.heap.frame fr))
      (s.frameResults.getLast?.map (·.objectResults)) }

/-- the successor state of the repaired add -/
def addState (sem : HSem Est OR C T) (s : HState Est OR T) (fr er : Ref) (c : C) : HState Est OR T :=
  { heap := { frames := s.heap.frames ++ [addCell sem c (s.heap.frame fr)], ests := s.heap.ests }
    dataset := s.dataset, frameResults := s.frameResults ++ [addResult sem s fr er c] }

theorem hadd_eq (sem : HSem Est OR C T) (s : HState Est OR T) (fr er : Ref) (c : C)
    (h1 : fr < s.heap.frames.length) (h2 : er < s.heap.ests.length) :
    hadd sem s fr er c = some (addState sem s fr er c, addResult sem s fr er c) := by
  obtain ⟨⟨fs, es⟩, ds, rs⟩ := s
  simp only [hadd, haddV, h1, h2, and_self, if_true, Heap.allocFrame, reduceCtorEq, if_false]
  simp only [frame_append_last, setObjects_append_last]
  simp [addState, addResult, addCell, pureORs, pureGts, pureDet, metaOf]

theorem haddV_none (v : Variant) (sem : HSem Est OR C T) (s : HState Est OR T) (fr er : Ref) (c : C)
    (h : ¬ (fr < s.heap.frames.length ∧ er < s.heap.ests.length)) : haddV v sem s fr er c = none := by
  simp only [haddV, h, if_false]

theorem hstep_add (sem : HSem Est OR C T) (s : HState Est OR T) (fr er : Ref) (c : C)
    (h1 : fr < s.heap.frames.length) (h2 : er < s.heap.ests.length) :
    hstep sem s (.add fr er c) = (addState sem s fr er c, .added (addResult sem s fr er c)) := by
  have := hadd_eq sem s fr er c h1 h2
  simp only [hadd] at this
  simp only [hstep, hstepV, this]

theorem hstep_add_invalid (v : Variant) (sem : HSem Est OR C T) (s : HState Est OR T) (fr er : Ref) (c : C)
    (h : ¬ (fr < s.heap.frames.length ∧ er < s.heap.ests.length)) :
    hstepV v sem s (.add fr er c) = (s, .rejected) := by
  simp only [hstepV, haddV_none v sem s fr er c h]

theorem addState_ext (sem : HSem Est OR C T) (s : HState Est OR T) (fr er : Ref) (c : C) :
    Ext s.heap (addState sem s fr er c).heap :=
  ⟨List.prefix_append _ _, rfl⟩

/-! ### the frame condition: a step of the repaired code only extends the store -/

theorem hstep_ext (sem : HSem Est OR C T) (s : HState Est OR T) (op : HOp C) :
    Ext s.heap (hstep sem s op).1.heap := by
  cases op with
  | add fr er c =>
    by_cases h : fr < s.heap.frames.length ∧ er < s.heap.ests.length
    · rw [hstep_add sem s fr er c h.1 h.2]; exact addState_ext sem s fr er c
    · rw [hstep, hstep_add_invalid _ sem s fr er c h]; exact Ext.refl _
  | scene => exact Ext.refl _
  | lookup t thr => exact Ext.refl _

theorem hstepV_dataset (v : Variant) (sem : HSem Est OR C T) (s : HState Est OR T) (op : HOp C) :
    (hstepV v sem s op).1.dataset = s.dataset := by
  cases op with
  | add fr er c =>
    simp only [hstepV]
    cases h : haddV v sem s fr er c with
    | none => rfl
    | some p =>
      obtain ⟨s', r⟩ := p
      simp only [haddV] at h
      split at h
      · simp only [Option.some.injEq, Prod.mk.injEq] at h
        rw [← h.1]
      · cases h
  | scene => rfl
  | lookup t thr => rfl

theorem hrunV_dataset (v : Variant) (sem : HSem Est OR C T) (s : HState Est OR T) (ops : List (HOp C)) :
    (hrunV v sem s ops).1.dataset = s.dataset := by
  induction ops generalizing s with
  | nil => rfl
  | cons op ops ih => simp only [hrunV]; rw [ih, hstepV_dataset]

theorem hrun_ext (sem : HSem Est OR C T) (s : HState Est OR T) (ops : List (HOp C)) :
    Ext s.heap (hrun sem s ops).1.heap := by
  induction ops generalizing s with
  | nil => exact Ext.refl _
  | cons op ops ih =>
    simp only [hrun, hrunV]
    exact (hstep_ext sem s op).trans (ih _)

theorem hstepV_query (v : Variant) (sem : HSem Est OR C T) (s : HState Est OR T) (op : HOp C)
    (h : op.isQuery = true) : (hstepV v sem s op).1 = s := by
  cases op <;> first | rfl | (simp [HOp.isQuery] at h)

theorem hrunV_queries (v : Variant) (sem : HSem Est OR C T) (s : HState Est OR T) (ops : List (HOp C))
    (h : ∀ op ∈ ops, op.isQuery = true) : (hrunV v sem s ops).1 = s := by
  induction ops generalizing s with
  | nil => rfl
  | cons op ops ih =>
    simp only [hrunV]
    rw [hstepV_query v sem s op (h op List.mem_cons_self)]
    exact ih s (fun o ho => h o (List.mem_cons_of_mem _ ho))

theorem hrunV_append (v : Variant) (sem : HSem Est OR C T) (s : HState Est OR T) (a b : List (HOp C)) :
    hrunV v sem s (a ++ b)
      = ((hrunV v sem (hrunV v sem s a).1 b).1, (hrunV v sem s a).2 ++ (hrunV v sem (hrunV v sem s a).1 b).2) := by
  induction a generalizing s with
  | nil => simp [hrunV]
  | cons op ops ih => simp only [List.cons_append, hrunV]; rw [ih]

theorem hlastOutV_append_one (v : Variant) (sem : HSem Est OR C T) (s : HState Est OR T) (pre : List (HOp C))
    (op : HOp C) : hlastOutV v sem s (pre ++ [op]) = some (hstepV v sem (hrunV v sem s pre).1 op).2 := by
  unfold hlastOutV
  rw [hrunV_append]
  simp [hrunV]

/-- an `add` issued after any run names the same VALUES as before the run, and answers with the closed
form -/
theorem hstep_add_after_run (sem : HSem Est OR C T) (s : HState Est OR T) (pre : List (HOp C)) (fr er : Ref)
    (c : C) (h1 : fr < s.heap.frames.length) (h2 : er < s.heap.ests.length) :
    (hstep sem (hrun sem s pre).1 (.add fr er c)).2 = .added (addResult sem (hrun sem s pre).1 fr er c) ∧
    (hrun sem s pre).1.heap.frame fr = s.heap.frame fr ∧ (hrun sem s pre).1.heap.est er = s.heap.est er := by
  have hx := hrun_ext sem s pre
  refine ⟨?_, hx.frame h1, hx.est er⟩
  rw [hstep_add sem _ fr er c (Nat.lt_of_lt_of_le h1 hx.length_le) (by rw [hx.ests_length]; exact h2)]

/-! ### `get_scene_result`, `get_now_frame` against the state-free machine -/

theorem hsceneAdd_eq (sem : HSem Est OR C T) (h : Heap Est) (sc : Scene) (r : HResult OR T)
    (hr : ResOK sem h r) : hsceneAdd sem h sc r = sceneAdd sc (absRes r) := by
  simp only [hsceneAdd, sceneAdd, absRes, Det.bucket, Det.gt, hr.2]

theorem foldl_hsceneAdd (sem : HSem Est OR C T) (h : Heap Est) (rs : List (HResult OR T)) (sc : Scene)
    (hr : ∀ r ∈ rs, ResOK sem h r) : rs.foldl (hsceneAdd sem h) sc = (rs.map absRes).foldl sceneAdd sc := by
  induction rs generalizing sc with
  | nil => rfl
  | cons r rs ih =>
    simp only [List.foldl_cons, List.map_cons]
    rw [hsceneAdd_eq sem h sc r (hr r List.mem_cons_self)]
    exact ih _ (fun x hx => hr x (List.mem_cons_of_mem _ hx))

/-- in a good state the scene accumulators (ground truths dereferenced at query time) are those of the
state-free machine (ground-truth counts stored at add time) -/
theorem hscene_eq (sem : HSem Est OR C T) (s : HState Est OR T) (hg : Good sem s) :
    hgetSceneResult sem s = getSceneResult sem.nLabels (absState s) := by
  unfold hgetSceneResult getSceneResult absState
  exact foldl_hsceneAdd sem s.heap s.frameResults _ hg

theorem foldl_best_abs (h : Heap Est) (t : Int) (ds : List Ref) (b : Ref × Nat) :
    (h.frame (ds.foldl (fun (b : Ref × Nat) r =>
        if (t - (h.frame r).time).natAbs < b.2 then (r, (t - (h.frame r).time).natAbs) else b) b).1,
      (ds.foldl (fun (b : Ref × Nat) r =>
        if (t - (h.frame r).time).natAbs < b.2 then (r, (t - (h.frame r).time).natAbs) else b) b).2)
    = (ds.map h.frame).foldl
        (fun (b : Frame × Nat) f => if (t - f.time).natAbs < b.2 then (f, (t - f.time).natAbs) else b)
        (h.frame b.1, b.2) := by
  induction ds generalizing b with
  | nil => rfl
  | cons r rs ih =>
    simp only [List.foldl_cons, List.map_cons]
    rw [ih]
    split <;> rfl

/-- the look-up hands out the reference of the frame the state-free machine hands out as a value -/
theorem hgetGT_abs (s : HState Est OR T) (t thr : Int) :
    (hgetGT s t thr).map (Option.map s.heap.frame) = getGT (absState s) t thr := by
  unfold hgetGT getGT absState
  split
  · rfl
  · cases hd : s.dataset with
    | nil => rfl
    | cons r0 rest =>
      simp only [List.map_cons]
      have := foldl_best_abs s.heap t (r0 :: rest) (r0, (t - (s.heap.frame r0).time).natAbs)
      simp only [List.map_cons] at this
      rw [← this]
      simp only []
      split <;> rfl

/-! ### the simulation -/

theorem absState_addState (sem : HSem Est OR C T) (s : HState Est OR T) (fr er : Ref) (c : C)
    (hv : DatasetValid s.heap s.dataset) :
    absState (addState sem s fr er c)
      = (addFrameResult (toSem sem) (absState s) (s.heap.frame fr) (s.heap.est er) c).1 := by
  have hx := addState_ext sem s fr er c
  simp only [absState, addFrameResult, evalFrame, toSem]
  congr 1
  · apply List.map_congr_left
    intro r hr
    exact hx.frame (hv r hr)
  · simp [addState, absRes, addResult]

theorem good_addState (sem : HSem Est OR C T) (hl : LabelsAgree sem) (s : HState Est OR T) (fr er : Ref) (c : C)
    (hg : Good sem s) : Good sem (addState sem s fr er c) := by
  have hx := addState_ext sem s fr er c
  intro r hr
  simp only [addState, List.mem_append, List.mem_singleton] at hr
  rcases hr with hr | rfl
  · obtain ⟨h1, h2⟩ := hg r hr
    refine ⟨Nat.lt_of_lt_of_le h1 hx.length_le, ?_⟩
    rw [hx.frame h1]; exact h2
  · refine ⟨by simp [addState, addResult], ?_⟩
    have : (addState sem s fr er c).heap.frame (addResult sem s fr er c).frame = addCell sem c (s.heap.frame fr) := by
      simp only [addState, addResult]
      exact frame_append_last _ _ _
    rw [this]
    simp only [addResult, pureDet, addCell, hl c]

/-- one step of the heap machine on a good state is one step of the state-free machine on the
dereferenced state, for an operation whose references exist in the ORIGINAL store `h0` -/
theorem hstep_sim (sem : HSem Est OR C T) (hl : LabelsAgree sem) (h0 : Heap Est) (s : HState Est OR T)
    (op : HOp C) (hx : Ext h0 s.heap) (hg : Good sem s) (hv : DatasetValid h0 s.dataset)
    (hop : op.validIn h0) :
    absState (hstep sem s op).1 = (step (toSem sem) (absState s) (absOp h0 op)).1 ∧
    absOut h0 (hstep sem s op).2 = (step (toSem sem) (absState s) (absOp h0 op)).2 ∧
    Good sem (hstep sem s op).1 := by
  have hv' : DatasetValid s.heap s.dataset := fun r hr => Nat.lt_of_lt_of_le (hv r hr) hx.length_le
  cases op with
  | add fr er c =>
    obtain ⟨h1, h2⟩ := hop
    have h1' : fr < s.heap.frames.length := Nat.lt_of_lt_of_le h1 hx.length_le
    have h2' : er < s.heap.ests.length := by rw [hx.ests_length]; exact h2
    rw [hstep_add sem s fr er c h1' h2']
    simp only [absOp, step, ← hx.frame h1, ← hx.est er]
    refine ⟨absState_addState sem s fr er c hv', ?_, good_addState sem hl s fr er c hg⟩
    simp [absOut, absRes, addFrameResult, evalFrame, toSem, addResult, absState]
  | scene =>
    refine ⟨rfl, ?_, hg⟩
    simp only [hstep, hstepV, absOut, absOp, step, hscene_eq sem s hg]
    rfl
  | lookup t thr =>
    refine ⟨rfl, ?_, hg⟩
    simp only [hstep, hstepV, absOut, absOp, step, ← hgetGT_abs]
    congr 1
    cases hq : hgetGT s t thr with
    | error e => rfl
    | ok o =>
      cases o with
      | none => rfl
      | some r =>
        simp only [Except.map, Option.map]
        have hr : r ∈ s.dataset := by
          unfold hgetGT at hq
          split at hq
          · cases hq
          · split at hq
            · cases hq
            · rename_i r0 rest hds
              simp only at hq
              split at hq
              · cases hq
              · injection hq with hq; injection hq with hq
                rw [← hq, hds]
                have gen : ∀ (ds : List Ref) (b : Ref × Nat) (S : List Ref), b.1 ∈ S → (∀ x ∈ ds, x ∈ S) →
                    (ds.foldl (fun (b : Ref × Nat) r =>
                      if (t - (s.heap.frame r).time).natAbs < b.2 then (r, (t - (s.heap.frame r).time).natAbs) else b) b).1 ∈ S := by
                  intro ds
                  induction ds with
                  | nil => intro b S hb _; exact hb
                  | cons x xs ih =>
                    intro b S hb hds
                    simp only [List.foldl_cons]
                    apply ih
                    · split
                      · exact hds x List.mem_cons_self
                      · exact hb
                    · exact fun y hy => hds y (List.mem_cons_of_mem _ hy)
                exact gen _ _ _ List.mem_cons_self (fun x hx => hx)
        rw [hx.frame (hv r hr)]

theorem hrun_sim (sem : HSem Est OR C T) (hl : LabelsAgree sem) (h0 : Heap Est) (s : HState Est OR T)
    (ops : List (HOp C)) (hx : Ext h0 s.heap) (hg : Good sem s) (hv : DatasetValid h0 s.dataset)
    (hops : ∀ op ∈ ops, op.validIn h0) :
    absState (hrun sem s ops).1 = (run (toSem sem) (absState s) (ops.map (absOp h0))).1 ∧
    (hrun sem s ops).2.map (absOut h0) = (run (toSem sem) (absState s) (ops.map (absOp h0))).2 ∧
    Good sem (hrun sem s ops).1 := by
  induction ops generalizing s with
  | nil => exact ⟨rfl, rfl, hg⟩
  | cons op ops ih =>
    obtain ⟨e1, e2, e3⟩ := hstep_sim sem hl h0 s op hx hg hv (hops op List.mem_cons_self)
    have hx' : Ext h0 (hstep sem s op).1.heap := hx.trans (hstep_ext sem s op)
    have hv'' : DatasetValid h0 (hstep sem s op).1.dataset := by
      rw [hstep, hstepV_dataset]; exact hv
    obtain ⟨i1, i2, i3⟩ := ih (hstep sem s op).1 hx' e3 hv'' (fun o ho => hops o (List.mem_cons_of_mem _ ho))
    simp only [hrun, hrunV, List.map_cons, run]
    simp only [hrun, hstep] at i1 i2 i3 e1 e2
    rw [← e1, ← e2]
    exact ⟨i1, by rw [i2], i3⟩

end PEval.ManagerHeap
