import PEval.Model.HeadingQuat
import PEval.Lemmas.Heading
import PEval.Lemmas.Transform
import Mathlib.Tactic.Linarith
import Mathlib.Tactic.Ring
import Mathlib.Tactic.LinearCombination
/-!
Algebra of heading directions (`PEval.Model.HeadingQuat`): the polynomial identities behind "the yaw of `q` and of `−q`",
"the yaw of a composed rotation", and the dot / cross product of two directions on the circle.
-/
namespace PEval.Heading
open PEval.Transform

/-! ## `yawDir`: even in `q`, a function of the rotation matrix -/

/-- `q` and `−q` hand the same two numbers to `arctan2` — for every quaternion (3-D, unit or not) -/
theorem yawDir_neg (q : Quat) : yawDir (-q) = yawDir q := by
  simp [yawDir]

/-- for a unit quaternion the two numbers are the entries `R[0,0]`, `−R[0,1]` of its rotation matrix (pyquaternion's
convention `R = R_x(roll) R_y(pitch) R_z(yaw)`): the yaw is a function of the rotation, not of the representative -/
theorem yawDir_eq_rotMat (q : Quat) (h : q.normSq = 1) : yawDir q = ⟨(rotMat q).r0.x, -(rotMat q).r0.y⟩ := by
  simp only [Quat.normSq] at h
  simp only [yawDir, rotMat, Dir.mk.injEq]
  constructor
  · linear_combination (-1 : Rat) * h
  · ring

theorem yawDir_yawOnly {q : Quat} (h : YawOnly q) :
    yawDir q = ⟨q.w * q.w - q.z * q.z, 2 * (q.w * q.z)⟩ ∧ (yawDir q).OnCircle := by
  obtain ⟨hx, hy, hn⟩ := h
  simp only [Quat.normSq, hx, hy] at hn
  simp only [yawDir, Dir.OnCircle, hx, hy, Dir.mk.injEq]
  refine ⟨⟨?_, ?_⟩, ?_⟩
  · linear_combination (-1 : Rat) * hn
  · ring
  · linear_combination (4 * q.z * q.z) * hn

theorem YawOnly.neg {q : Quat} (h : YawOnly q) : YawOnly (-q) := by
  obtain ⟨hx, hy, hn⟩ := h
  exact ⟨by simp [hx], by simp [hy], by rw [Quat.normSq_neg]; exact hn⟩

theorem YawOnly.mul {p q : Quat} (hp : YawOnly p) (hq : YawOnly q) : YawOnly (p * q) := by
  obtain ⟨px, py, pn⟩ := hp
  obtain ⟨qx, qy, qn⟩ := hq
  refine ⟨?_, ?_, ?_⟩
  · simp [px, py, qx, qy]
  · simp [px, py, qx, qy]
  · rw [Quat.normSq_mul, pn, qn]; norm_num

/-- the heading direction of a composed planar rotation is the product of the directions (angle addition, as a
polynomial identity) -/
theorem yawDir_mul {p q : Quat} (hp : YawOnly p) (hq : YawOnly q) :
    yawDir (p * q) = (yawDir p).mul (yawDir q) := by
  obtain ⟨pw, px, py, pz⟩ := p
  obtain ⟨qw, qx, qy, qz⟩ := q
  obtain ⟨hpx, hpy, pn⟩ := hp
  obtain ⟨hqx, hqy, qn⟩ := hq
  simp only at hpx hpy hqx hqy
  subst hpx hpy hqx hqy
  simp only [Quat.normSq] at pn qn
  simp only [yawDir, Dir.mul, Quat.mul_w, Quat.mul_x, Quat.mul_y, Quat.mul_z, Dir.mk.injEq]
  constructor
  · linear_combination (-2 * qz * qz) * pn + (-2 * pz * pz) * qn
  · linear_combination (2 * qw * qz) * pn + (2 * pw * pz) * qn

/-! ## dot and cross product of directions -/

theorem cosDiff_comm (a b : Dir) : cosDiff a b = cosDiff b a := by
  simp only [cosDiff]; ring

theorem sinDiff_antisymm (a b : Dir) : sinDiff b a = -sinDiff a b := by
  simp only [sinDiff]; ring

/-- a common rotation `r` of both directions scales dot and cross product by `|r|²`: nothing for `r` on the circle -/
theorem cosDiff_mul_left (r a b : Dir) (hr : r.OnCircle) : cosDiff (r.mul a) (r.mul b) = cosDiff a b := by
  simp only [Dir.OnCircle] at hr
  simp only [cosDiff, Dir.mul]
  linear_combination (a.c * b.c + a.s * b.s) * hr

theorem sinDiff_mul_left (r a b : Dir) (hr : r.OnCircle) : sinDiff (r.mul a) (r.mul b) = sinDiff a b := by
  simp only [Dir.OnCircle] at hr
  simp only [sinDiff, Dir.mul]
  linear_combination (a.c * b.s - a.s * b.c) * hr

theorem Dir.mul_onCircle {a b : Dir} (ha : a.OnCircle) (hb : b.OnCircle) : (a.mul b).OnCircle := by
  simp only [Dir.OnCircle] at ha hb ⊢
  simp only [Dir.mul]
  linear_combination (b.c * b.c + b.s * b.s) * ha + hb

theorem Dir.opp_onCircle {a : Dir} (ha : a.OnCircle) : a.opp.OnCircle := by
  simp only [Dir.OnCircle, Dir.opp] at ha ⊢
  linear_combination ha

/-- `|a − b|² = 2 − 2 a·b` on the circle -/
theorem chord_sq {a b : Dir} (ha : a.OnCircle) (hb : b.OnCircle) :
    (a.c - b.c) * (a.c - b.c) + (a.s - b.s) * (a.s - b.s) = 2 - 2 * cosDiff a b := by
  simp only [Dir.OnCircle] at ha hb
  simp only [cosDiff]
  linear_combination ha + hb

theorem cosDiff_le_one {a b : Dir} (ha : a.OnCircle) (hb : b.OnCircle) : cosDiff a b ≤ 1 := by
  have := chord_sq ha hb
  nlinarith [mul_self_nonneg (a.c - b.c), mul_self_nonneg (a.s - b.s)]

theorem neg_one_le_cosDiff {a b : Dir} (ha : a.OnCircle) (hb : b.OnCircle) : -1 ≤ cosDiff a b := by
  have h := cosDiff_le_one ha (Dir.opp_onCircle hb)
  simp only [cosDiff, Dir.opp] at h ⊢
  linarith

/-- dot product 1 ⇔ same direction -/
theorem cosDiff_eq_one_iff {a b : Dir} (ha : a.OnCircle) (hb : b.OnCircle) : cosDiff a b = 1 ↔ a = b := by
  constructor
  · intro h
    have hc := chord_sq ha hb
    rw [h] at hc
    have h1 : (a.c - b.c) * (a.c - b.c) = 0 := by
      nlinarith [mul_self_nonneg (a.c - b.c), mul_self_nonneg (a.s - b.s)]
    have h2 : (a.s - b.s) * (a.s - b.s) = 0 := by
      nlinarith [mul_self_nonneg (a.c - b.c), mul_self_nonneg (a.s - b.s)]
    have e1 : a.c = b.c := by
      have := mul_self_eq_zero.1 h1; linarith
    have e2 : a.s = b.s := by
      have := mul_self_eq_zero.1 h2; linarith
    cases a; cases b; simp_all
  · rintro rfl
    simpa [cosDiff, Dir.OnCircle] using ha

/-- dot product −1 ⇔ opposite directions -/
theorem cosDiff_eq_neg_one_iff {a b : Dir} (ha : a.OnCircle) (hb : b.OnCircle) : cosDiff a b = -1 ↔ a = b.opp := by
  have key := cosDiff_eq_one_iff ha (Dir.opp_onCircle hb)
  rw [← key]
  simp only [cosDiff, Dir.opp]
  constructor <;> intro h <;> linarith

/-! ## representatives -/

theorem Quat.neg_mul' (p q : Quat) : (-p) * q = -(p * q) := by
  ext <;> simp <;> ring

theorem Quat.mul_neg' (p q : Quat) : p * (-q) = -(p * q) := by
  ext <;> simp <;> ring

theorem yawDir_withSign (b : Bool) (q : Quat) : yawDir (withSign b q) = yawDir q := by
  cases b
  · rfl
  · exact yawDir_neg q

theorem yawDir_withSign_mul (b0 b : Bool) (q0 q : Quat) : yawDir (withSign b0 q0 * withSign b q) = yawDir (q0 * q) := by
  cases b0 <;> cases b <;>
    simp only [withSign, if_true, Bool.false_eq_true, if_false, Quat.neg_mul', Quat.mul_neg', yawDir_neg]

theorem YawOnly.withSign {q : Quat} (h : YawOnly q) (b : Bool) : YawOnly (withSign b q) := by
  cases b
  · exact h
  · exact h.neg

/-- on `[−1, 1]` a strictly decreasing function reflects and preserves `≤` -/
theorem anti_le_iff {ac : Rat → Rat} (hanti : ∀ x y, -1 ≤ x → x < y → y ≤ 1 → ac y < ac x) {x y : Rat}
    (hx : -1 ≤ x ∧ x ≤ 1) (hy : -1 ≤ y ∧ y ≤ 1) : ac x ≤ ac y ↔ y ≤ x := by
  constructor
  · intro h
    by_contra hc
    have := hanti x y hx.1 (lt_of_not_ge hc) hy.2
    linarith
  · intro h
    rcases lt_or_eq_of_le h with h' | h'
    · exact le_of_lt (hanti y x hy.1 h' hx.2)
    · rw [h']

theorem anti_eq_iff {ac : Rat → Rat} (hanti : ∀ x y, -1 ≤ x → x < y → y ≤ 1 → ac y < ac x) {x y : Rat}
    (hx : -1 ≤ x ∧ x ≤ 1) (hy : -1 ≤ y ∧ y ≤ 1) : ac x = ac y ↔ x = y := by
  constructor
  · intro h
    have h1 := (anti_le_iff hanti hx hy).1 (le_of_eq h)
    have h2 := (anti_le_iff hanti hy hx).1 (le_of_eq h.symm)
    linarith
  · rintro rfl; rfl

end PEval.Heading
