import PEval.Lemmas.AnalyzerTable
import PEval.Lemmas.FrameChange
import Mathlib.Tactic.Linarith
/-!
# C19 lemmas (8): rows are tabulated in the ego frame, whatever frame the objects are given in

* `addAllRaw_eq`: the table built from raw objects (`format2dict` + `get_area_idx` with their own
  `transform(… BASE_LINK)` steps) is the table the older model builds from the ego-frame view `RawFrame.toFrame`;
  so every theorem about `addAll` transfers.
* `toRow_renderMap`: the map rendering of a physical object tabulates to the same row as its base_link rendering:
  the ego-frame `x`, `y`, `yaw` (unit ego rotation, yaws in `(-1, 1]` half-turns), whatever the heights.
-/

namespace PEval.Analyzer
open PEval.Geometry PEval.FrameChange

theorem format2df_map {α β : Type} (mk : β → Option Cell × Option Cell) (g : α → β) :
    ∀ (l : List α) (i : Nat), format2df (fun a => mk (g a)) l i = format2df mk (l.map g) i := by
  intro l
  induction l with
  | nil => intro i; rfl
  | cons a l ih => intro i; simp [format2df, ih]

theorem areaOfRaw_eq (a : Areas) (e : Pose) (o : RawObj) :
    areaOfRaw a e o = areaOf a (o.toRow e).x (o.toRow e).y := rfl

theorem resultCellsRaw_eq (a : Areas) (e : Pose) (k n : Nat) (st : Status) (p : RawPair) :
    resultCellsRaw a e k n st p = resultCells (areaOf a) k n st (p.toPair e) := by
  cases p with
  | mk est gt => cases gt <;> rfl

theorem objectCellsRaw_eq (a : Areas) (e : Pose) (k n : Nat) (st : Status) (o : RawObj) :
    objectCellsRaw a e k n st o = objectCells (areaOf a) k n st (o.toRow e) := rfl

theorem addFrameRaw_eq (a : Areas) (k : Nat) (t : Table) (f : RawFrame) :
    addFrameRaw a k t f = addFrame (areaOf a) k t f.toFrame := by
  have h1 : ∀ st, resultCellsRaw a f.ego k f.frameNum st =
      fun p => resultCells (areaOf a) k f.frameNum st (RawPair.toPair f.ego p) :=
    fun st => funext fun p => resultCellsRaw_eq a f.ego k f.frameNum st p
  have h2 : ∀ st, objectCellsRaw a f.ego k f.frameNum st =
      fun o => objectCells (areaOf a) k f.frameNum st (RawObj.toRow f.ego o) :=
    fun st => funext fun o => objectCellsRaw_eq a f.ego k f.frameNum st o
  unfold addFrameRaw addFrame RawFrame.toFrame
  simp only [h1, h2, format2df_map]

theorem foldl_addFrameRaw_eq (a : Areas) (k : Nat) (fs : List RawFrame) :
    ∀ t : Table, fs.foldl (addFrameRaw a k) t = (fs.map RawFrame.toFrame).foldl (addFrame (areaOf a) k) t := by
  induction fs with
  | nil => intro t; rfl
  | cons f fs ih => intro t; simp [List.foldl_cons, addFrameRaw_eq, ih]

theorem foldl_addRaw_eq (a : Areas) (scenes : List (List RawFrame)) :
    ∀ an : Analyzer, scenes.foldl (Analyzer.addRaw a) an =
      (scenes.map (·.map RawFrame.toFrame)).foldl (Analyzer.add (areaOf a)) an := by
  induction scenes with
  | nil => intro an; rfl
  | cons fs rest ih =>
    intro an
    simp only [List.foldl_cons, List.map_cons]
    rw [ih]
    congr 1
    simp [Analyzer.addRaw, Analyzer.add, foldl_addFrameRaw_eq]

/-- the raw model refines the ego-frame model -/
theorem addAllRaw_eq (a : Areas) (scenes : List (List RawFrame)) :
    addAllRaw a scenes = addAll (areaOf a) (scenes.map (·.map RawFrame.toFrame)) :=
  foldl_addRaw_eq a scenes {}

/-! ### the two renderings of one physical object -/

theorem toEgoYaw_wrapYaw {τ0 τ : Rat} (h0 : Heading.InDom τ0) (h : Heading.InDom τ) :
    Heading.toEgoYaw τ0 (Heading.wrapYaw (τ + τ0)) = τ := by
  obtain ⟨a0, b0⟩ := h0
  obtain ⟨a, b⟩ := h
  unfold Heading.toEgoYaw Heading.wrapYaw
  by_cases h1 : τ + τ0 > 1
  · rw [if_pos h1]
    have n1 : ¬ (τ + τ0 - 2 - τ0 > 1) := by linarith
    have n2 : τ + τ0 - 2 - τ0 ≤ -1 := by linarith
    rw [if_neg n1, if_pos n2]; ring
  · rw [if_neg h1]
    by_cases h2 : τ + τ0 ≤ -1
    · rw [if_pos h2]
      have p1 : τ + τ0 + 2 - τ0 > 1 := by linarith
      rw [if_pos p1]; ring
    · rw [if_neg h2]
      have n1 : ¬ (τ + τ0 - τ0 > 1) := by linarith
      have n2 : ¬ (τ + τ0 - τ0 ≤ -1) := by linarith
      rw [if_neg n1, if_neg n2]; ring

/-- **the map rendering tabulates to the ego-frame row.** -/
theorem toRow_renderMap (e : Pose) (o : RawObj) (hu : e.rot.IsUnit) (he : Heading.InDom e.tau)
    (ho : Heading.InDom o.yaw) :
    (o.renderMap e).toRow e =
      { uuid := o.uuid, label := o.label, x := o.pos.x, y := o.pos.y, yaw := o.yaw, width := o.width,
        length := o.length, vx := o.vx, vy := o.vy } := by
  have hp : egoPosition e (o.renderMap e) = o.pos := by
    simp only [egoPosition, RawObj.renderMap]
    exact toEgo3_apply3 e hu o.pos
  have hy : egoYaw e (o.renderMap e) = o.yaw := by
    simp only [egoYaw, RawObj.renderMap]
    exact toEgoYaw_wrapYaw he ho
  simp only [RawObj.toRow, hp, hy]
  rfl

/-- … and so does the base_link rendering, for ANY transform registered with the frame -/
theorem toRow_baseLink (e : Pose) (o : RawObj) (hf : o.frame = .baseLink) :
    o.toRow e =
      { uuid := o.uuid, label := o.label, x := o.pos.x, y := o.pos.y, yaw := o.yaw, width := o.width,
        length := o.length, vx := o.vx, vy := o.vy } := by
  simp [RawObj.toRow, egoPosition, egoYaw, hf]

/-- a frame whose objects are all given in `base_link` with yaws in `(-1, 1]` -/
def RawFrame.EgoGiven (f : RawFrame) : Prop :=
  (∀ p ∈ f.tp ++ f.fp, (p.est.frame = .baseLink ∧ Heading.InDom p.est.yaw) ∧
      ∀ g, p.gt = some g → g.frame = .baseLink ∧ Heading.InDom g.yaw) ∧
  (∀ o ∈ f.tn ++ f.fn ++ f.critical, o.frame = .baseLink ∧ Heading.InDom o.yaw)

theorem toPair_renderMap (e : Pose) (p : RawPair) (hu : e.rot.IsUnit) (he : Heading.InDom e.tau)
    (hp : (p.est.frame = .baseLink ∧ Heading.InDom p.est.yaw) ∧
      ∀ g, p.gt = some g → g.frame = .baseLink ∧ Heading.InDom g.yaw) :
    (p.renderMap e).toPair e = p.toPair e := by
  cases p with
  | mk est gt =>
    simp only [RawPair.renderMap, RawPair.toPair]
    rw [toRow_renderMap e est hu he hp.1.2, toRow_baseLink e est hp.1.1]
    cases gt with
    | none => rfl
    | some g =>
      have := hp.2 g rfl
      simp only [Option.map_some]
      rw [toRow_renderMap e g hu he this.2, toRow_baseLink e g this.1]

theorem toFrame_renderMap (f : RawFrame) (hu : f.ego.rot.IsUnit) (he : Heading.InDom f.ego.tau) (hf : f.EgoGiven) :
    f.renderMap.toFrame = f.toFrame := by
  obtain ⟨hp, ho⟩ := hf
  have hobj : ∀ l : List RawObj, (∀ o ∈ l, o ∈ f.tn ++ f.fn ++ f.critical) →
      (l.map (·.renderMap f.ego)).map (·.toRow f.ego) = l.map (·.toRow f.ego) := by
    intro l hl
    rw [List.map_map]
    apply List.map_congr_left
    intro o hom
    have := ho o (hl o hom)
    simp only [Function.comp_apply]
    rw [toRow_renderMap f.ego o hu he this.2, toRow_baseLink f.ego o this.1]
  have hpair : ∀ l : List RawPair, (∀ p ∈ l, p ∈ f.tp ++ f.fp) →
      (l.map (·.renderMap f.ego)).map (·.toPair f.ego) = l.map (·.toPair f.ego) := by
    intro l hl
    rw [List.map_map]
    apply List.map_congr_left
    intro p hpm
    exact toPair_renderMap f.ego p hu he (hp p (hl p hpm))
  simp only [RawFrame.toFrame, RawFrame.renderMap]
  rw [hpair f.tp (by intro p h; simp [h]), hpair f.fp (by intro p h; simp [h]),
    hobj f.tn (by intro o h; simp [h]), hobj f.fn (by intro o h; simp [h]), hobj f.critical (by intro o h; simp [h])]

end PEval.Analyzer
