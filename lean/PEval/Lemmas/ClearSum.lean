import PEval.Lemmas.ClearArith
/-!
Helper lemmas for C05, part 8: `_sum_clear`.
-/

namespace PEval.Clear

theorem intTp_natCast (n : Nat) : intTp (n : Rat) = (n : Int) := by
  unfold intTp
  simp

theorem sumClear_single' (cfg : Cfg) (g : Nat) (hist : List (List Res)) (n : Nat)
    (hn : (clear cfg hist).tp = (n : Rat)) :
    sumClear [evalClear cfg g hist] =
      ((evalClear cfg g hist).mota, (evalClear cfg g hist).motp, (clear cfg hist).sw) := by
  unfold sumClear evalClear
  simp only [List.foldl_cons, List.foldl_nil, hn, intTp_natCast, Nat.zero_add, Int.zero_add]
  refine Prod.ext ?_ (Prod.ext ?_ rfl)
  · -- MOTA
    simp only
    unfold mota
    by_cases hg : g = 0
    · simp [hg]
    · simp only [hg, if_false, Option.some.injEq]
      have hgne : (g : Rat) ≠ 0 := by exact_mod_cast hg
      rw [zero_add, mul_div_assoc, div_self hgne, mul_one]
      exact max_eq_right (le_max_left _ _)
  · -- MOTP
    simp only
    unfold motp
    simp only [hn]
    by_cases h0 : n = 0
    · simp [h0]
    · have hne : (n : Rat) ≠ 0 := by exact_mod_cast h0
      have hni : (n : Int) ≠ 0 := by exact_mod_cast h0
      simp only [hne, hni, if_false, Option.some.injEq]
      rw [zero_add, Int.cast_natCast, div_mul_cancel₀ _ hne]

end PEval.Clear

namespace PEval.Clear

/-! ### pooled totals over several labels -/

/-- the unclamped MOTA numerator of one label -/
def Out.num (o : Out) : Rat := o.acc.tp - (o.acc.fp : Rat) - (o.acc.sw : Rat)

/-- a per-label output in the regime where nothing is clamped or undefined on the MOTA side:
some ground truth, TP − FP − IDsw ≥ 0, a whole number of TPs, and a zero score when there is no TP -/
structure Regular (o : Out) : Prop where
  gpos : o.g ≠ 0
  numNonneg : 0 ≤ o.num
  motaEq : o.mota = mota o.g o.acc
  motpEq : o.motp = motp o.acc
  tpNat : ∃ n : Nat, o.acc.tp = (n : Rat)
  scoreZero : o.acc.tp = 0 → o.acc.score = 0

theorem foldl_rat (cs : List Out) (F : Out → Rat) (step : Rat → Out → Rat)
    (h : ∀ s c, c ∈ cs → step s c = s + F c) (s : Rat) :
    cs.foldl step s = s + ratSum (cs.map F) := by
  induction cs generalizing s with
  | nil => simp [ratSum]
  | cons c cs ih =>
    simp only [List.foldl_cons, List.map_cons, ratSum]
    rw [ih (fun s c hc => h s c (List.mem_cons_of_mem _ hc)), h s c (by simp)]
    ring

theorem foldl_nat (cs : List Out) (F : Out → Nat) (s : Nat) :
    cs.foldl (fun s c => s + F c) s = s + (cs.map F).sum := by
  induction cs generalizing s with
  | nil => simp
  | cons c cs ih => simp only [List.foldl_cons, List.map_cons, List.sum_cons, ih]; omega

theorem foldl_int (cs : List Out) (F : Out → Int) (s : Int) :
    cs.foldl (fun s c => s + F c) s = s + (cs.map F).sum := by
  induction cs generalizing s with
  | nil => simp
  | cons c cs ih => simp only [List.foldl_cons, List.map_cons, List.sum_cons, ih]; omega

theorem ratSum_nonneg (l : List Rat) (h : ∀ x ∈ l, 0 ≤ x) : 0 ≤ ratSum l := by
  induction l with
  | nil => simp [ratSum]
  | cons x l ih =>
    simp only [ratSum]
    have := h x (by simp)
    have := ih (fun y hy => h y (List.mem_cons_of_mem _ hy))
    linarith

theorem intTp_sum_cast (cs : List Out) (h : ∀ o ∈ cs, ∃ n : Nat, o.acc.tp = (n : Rat)) :
    (((cs.map (fun o => intTp o.acc.tp)).sum : Int) : Rat) = ratSum (cs.map (fun o => o.acc.tp)) := by
  induction cs with
  | nil => simp [ratSum]
  | cons c cs ih =>
    obtain ⟨n, hn⟩ := h c (by simp)
    simp only [List.map_cons, List.sum_cons, ratSum, Int.cast_add, ih (fun o ho => h o (List.mem_cons_of_mem _ ho))]
    rw [hn, intTp_natCast]
    simp

theorem natSum_pos (cs : List Out) (hne : cs ≠ []) (h : ∀ o ∈ cs, o.g ≠ 0) : (cs.map (·.g)).sum ≠ 0 := by
  cases cs with
  | nil => exact absurd rfl hne
  | cons c cs =>
    have := h c (by simp)
    simp only [List.map_cons, List.sum_cons]
    omega

/-- `_sum_clear` in the regular regime: the total MOTA is the POOLED (TP − FP − IDsw) / G, the total MOTP is the pooled
matching score / pooled TP (undefined iff there is no TP at all), the switches add up -/
theorem sumClear_regular (cs : List Out) (hne : cs ≠ []) (hr : ∀ o ∈ cs, Regular o) :
    sumClear cs =
      (some (ratSum (cs.map Out.num) / (((cs.map (·.g)).sum : Nat) : Rat)),
       (if ratSum (cs.map (fun o => o.acc.tp)) = 0 then none
        else some (ratSum (cs.map (fun o => o.acc.score)) / ratSum (cs.map (fun o => o.acc.tp)))),
       (cs.map (fun o => o.acc.sw)).sum) := by
  unfold sumClear
  dsimp only
  rw [foldl_rat cs Out.num]
  rotate_left
  · intro s c hc
    have R := hr c hc
    have hgne : (c.g : Rat) ≠ 0 := by exact_mod_cast R.gpos
    have hgpos : (0 : Rat) < (c.g : Rat) := by exact_mod_cast Nat.pos_of_ne_zero R.gpos
    have : c.mota = some (c.num / (c.g : Rat)) := by
      rw [R.motaEq]; unfold mota
      simp only [R.gpos, if_false, Option.some.injEq]
      exact max_eq_right (div_nonneg R.numNonneg (le_of_lt hgpos))
    rw [this]
    simp only
    rw [div_mul_cancel₀ _ hgne]
  rw [foldl_rat cs (fun o => o.acc.score)]
  rotate_left
  · intro s c hc
    have R := hr c hc
    rw [R.motpEq]; unfold motp
    by_cases h0 : c.acc.tp = 0
    · simp [h0, R.scoreZero h0]
    · simp only [h0, if_false]
      rw [div_mul_cancel₀ _ h0]
  rw [foldl_nat cs (fun c => c.g) 0, foldl_int cs (fun c => intTp c.acc.tp) 0,
    foldl_nat cs (fun c => c.acc.sw) 0]
  simp only [zero_add]
  have hG := natSum_pos cs hne (fun o ho => (hr o ho).gpos)
  have hGpos : (0 : Rat) < (((cs.map (·.g)).sum : Nat) : Rat) := by exact_mod_cast Nat.pos_of_ne_zero hG
  have hnum : 0 ≤ ratSum (cs.map Out.num) := by
    apply ratSum_nonneg
    intro x hx
    obtain ⟨o, ho, rfl⟩ := List.mem_map.mp hx
    exact (hr o ho).numNonneg
  have hcast := intTp_sum_cast cs (fun o ho => (hr o ho).tpNat)
  refine Prod.ext ?_ (Prod.ext ?_ rfl)
  · simp only [hG, if_false, Option.some.injEq]
    exact max_eq_right (div_nonneg hnum (le_of_lt hGpos))
  · simp only
    by_cases hz : (cs.map (fun o => intTp o.acc.tp)).sum = 0
    · have : ratSum (cs.map (fun o => o.acc.tp)) = 0 := by rw [← hcast, hz]; simp
      simp [hz, this]
    · have : ratSum (cs.map (fun o => o.acc.tp)) ≠ 0 := by
        rw [← hcast]; exact_mod_cast hz
      simp only [hz, this, if_false, hcast]

end PEval.Clear
