import PEval.Model.Filter
/-!
# C10 — the property's criteria, written declaratively

`Criteria P o` states, without following the control flow of `_is_target_object`, which objects the
property text says are kept: label targeted, no ignored attribute, ego-relative x/y strictly inside
the bound configured for the label, planar distance strictly inside the min/max bounds, confidence
(estimates) or point count and uuid (ground truth) satisfying the label's thresholds — with the two
documented relaxations (FP-labelled objects always pass; an unknown-labelled estimate is judged
against the mean bounds when unknown is not a target).  Nothing here mentions `Except`, stages,
short-circuiting or lookup functions: bounds are described relationally (`LabelBound`, `IsMean`).
`Lemmas/Filter.lean` proves that the transcribed code decides exactly this predicate.
-/
namespace PEval.Filter

/-- the label is `false_positive` of either label family (`CommonLabel.FP`) -/
def IsFP (l : String) : Prop := l = "AutowareLabel.FP" ∨ l = "TrafficLightLabel.FP"
/-- the label is `unknown` of either label family (`CommonLabel.UNKNOWN`) -/
def IsUnknown (l : String) : Prop := l = "AutowareLabel.UNKNOWN" ∨ l = "TrafficLightLabel.UNKNOWN"

/-- `k` occurs in `s` as a contiguous block (Python `k in s` on strings) -/
def Occurs (k s : List Char) : Prop := ∃ a b, s = a ++ k ++ b

/-- the object "carries" the attribute key: in its original name or among its attributes -/
def HasKey (o : Obj) (k : String) : Prop := Occurs k.toList o.name.toList ∨ k ∈ o.attributes

/-- the documented relaxation applies: an unknown-labelled ESTIMATE and unknown is not a target -/
def Relaxed (P : Params) (o : Obj) : Prop :=
  IsUnknown o.label ∧ P.isGt = false ∧ ∀ ts, P.targets = some ts → ∀ t ∈ ts, ¬ IsUnknown t

/-- `t` is the entry of the per-label list `l` configured for the object's label: the entry at the
first position at which the label occurs among the targets -/
def LabelBound {α} (P : Params) (o : Obj) (l : List α) (t : α) : Prop :=
  ∃ (ts : List String) (i : Nat), P.targets = some ts ∧ ts[i]? = some o.label ∧ (∀ j, j < i → ts[j]? ≠ some o.label) ∧
    l[i]? = some t

/-- `m` is the arithmetic mean of the non-empty list `l` -/
def IsMean (l : List Rat) (m : Rat) : Prop := l ≠ [] ∧ m * (l.length : Rat) = l.sum

/-- the range bound the object is judged against in list `l` -/
def JudgedBy (P : Params) (o : Obj) (l : List Rat) (t : Rat) : Prop :=
  (Relaxed P o ∧ IsMean l t) ∨ (¬ Relaxed P o ∧ LabelBound P o l t)

/-- the label is targeted (no non-empty target list = every label is a target) -/
def LabelOK (P : Params) (o : Obj) : Prop :=
  Relaxed P o ∨ ∀ ts, P.targets = some ts → ts ≠ [] → o.label ∈ ts

/-- the label carries no ignored attribute -/
def AttrOK (P : Params) (o : Obj) : Prop :=
  Relaxed P o ∨ ∀ ks, P.ignoreAttrs = some ks → ∀ k ∈ ks, ¬ HasKey o k

/-- confidence strictly above the label's threshold (0 under the relaxation) -/
def ConfOK (P : Params) (o : Obj) : Prop :=
  ∀ l, P.conf = some l →
    (Relaxed P o ∧ 0 < o.score) ∨ (¬ Relaxed P o ∧ ∃ t, LabelBound P o l t ∧ t < o.score)

/-- `p` is the object's ego-relative planar position: its own position when it is given in
BASE_LINK, its position carried through the supplied transform otherwise -/
def EgoPos (P : Params) (o : Obj) (p : Pos) : Prop :=
  (o.frame = "base_link" ∧ o.pos = some p) ∨
  (o.frame ≠ "base_link" ∧ P.hasTransforms = true ∧ o.pos ≠ none ∧ o.egoPos = some p)

/-- ego-relative x strictly inside `(-t, t)` -/
def XOK (P : Params) (o : Obj) (p : Pos) : Prop :=
  ∀ l, P.maxX = some l → ∃ t, JudgedBy P o l t ∧ -t < p.x ∧ p.x < t
/-- ego-relative y strictly inside `(-t, t)` -/
def YOK (P : Params) (o : Obj) (p : Pos) : Prop :=
  ∀ l, P.maxY = some l → ∃ t, JudgedBy P o l t ∧ -t < p.y ∧ p.y < t
/-- planar distance `√(x²+y²)` strictly below the maximum (stated on squares; `0 < t` because a
distance is never below a non-positive bound) -/
def MaxDistOK (P : Params) (o : Obj) (p : Pos) : Prop :=
  ∀ l, P.maxDist = some l → ∃ t, JudgedBy P o l t ∧ 0 < t ∧ p.x * p.x + p.y * p.y < t * t
/-- planar distance strictly above the minimum (a negative minimum is always exceeded) -/
def MinDistOK (P : Params) (o : Obj) (p : Pos) : Prop :=
  ∀ l, P.minDist = some l → ∃ t, JudgedBy P o l t ∧ (t < 0 ∨ t * t < p.x * p.x + p.y * p.y)
/-- ground truth: at least the label's minimum number of points -/
def PtsOK (P : Params) (o : Obj) : Prop :=
  P.isGt = true → ∀ l, P.minPts = some l → ∃ n c, LabelBound P o l n ∧ o.pcNum = some c ∧ n ≤ c
/-- ground truth: its uuid is one of the target uuids -/
def UuidOK (P : Params) (o : Obj) : Prop :=
  P.isGt = true → ∀ us, P.uuids = some us → ∃ u, o.uuid = some u ∧ u ∈ us

/-- the range criteria, for an object whose ego-relative position is `p` -/
def RangeOK (P : Params) (o : Obj) (p : Pos) : Prop :=
  XOK P o p ∧ YOK P o p ∧ MaxDistOK P o p ∧ MinDistOK P o p ∧ PtsOK P o

/-- **the criteria of property C10.** (The range and point-count criteria apply to objects whose
ego-relative position is available; an object given in another frame with no transform supplied
cannot be range-tested and is not rejected on range — the code's documented behaviour.) -/
def Criteria (P : Params) (o : Obj) : Prop :=
  IsFP o.label ∨
    (LabelOK P o ∧ AttrOK P o ∧ ConfOK P o ∧ (∀ p, EgoPos P o p → RangeOK P o p) ∧ UuidOK P o)

/-! ## "wider" configurations (for monotonicity) -/

/-- two lists of the same length whose entries are pairwise related by `R` -/
def Pointwise {α} (R : α → α → Prop) : List α → List α → Prop
  | [], [] => True
  | a :: as, b :: bs => R a b ∧ Pointwise R as bs
  | _, _ => False

/-- `b` is at least as permissive as `a` for an optional per-label list: dropping the bound, or
a list of the same length that is pointwise related by `R` -/
def OptRel {α} (R : α → α → Prop) : Option (List α) → Option (List α) → Prop
  | _, none => True
  | some l, some l' => Pointwise R l l'
  | none, some _ => False

/-- `P'` widens `P`: same labels, attributes, uuids, role and transforms; every maximum bound
larger or dropped, every minimum bound / confidence / point threshold smaller or dropped -/
structure Wider (P P' : Params) : Prop where
  isGt : P'.isGt = P.isGt
  targets : P'.targets = P.targets
  ignoreAttrs : P'.ignoreAttrs = P.ignoreAttrs
  uuids : P'.uuids = P.uuids
  hasTransforms : P'.hasTransforms = P.hasTransforms
  maxX : OptRel (· ≤ ·) P.maxX P'.maxX
  maxY : OptRel (· ≤ ·) P.maxY P'.maxY
  maxDist : OptRel (· ≤ ·) P.maxDist P'.maxDist
  minDist : OptRel (· ≥ ·) P.minDist P'.minDist
  conf : OptRel (· ≥ ·) P.conf P'.conf
  minPts : OptRel (· ≥ ·) P.minPts P'.minPts

/-! ## well-formed inputs (the documented contract: no exception is reachable) -/

/-- the configuration follows the documented contract: a non-empty target list and every per-label
list of the same length -/
structure WFParams (P : Params) : Prop where
  targets : ∃ ts, P.targets = some ts ∧ ts ≠ [] ∧
    (∀ l, P.maxX = some l → l.length = ts.length) ∧ (∀ l, P.maxY = some l → l.length = ts.length) ∧
    (∀ l, P.maxDist = some l → l.length = ts.length) ∧ (∀ l, P.minDist = some l → l.length = ts.length) ∧
    (∀ l, P.conf = some l → l.length = ts.length) ∧ (∀ l, P.minPts = some l → l.length = ts.length)

/-- the object is complete for the configuration: it has a position, a registered transform when it
lives in another frame and transforms are supplied, and (3-D ground truth) a point count -/
structure WFObj (P : Params) (o : Obj) : Prop where
  pos : o.pos ≠ none
  ego : P.hasTransforms = true → o.frame ≠ "base_link" → o.egoPos ≠ none
  pts : P.isGt = true → P.minPts ≠ none → o.is2d = false ∧ o.pcNum ≠ none

end PEval.Filter
