import PEval.Lemmas.APMono
import PEval.Lemmas.APPerfect
/-!
Lemmas about the AP model, part 7: definedness of the LOOSER run (audit C08 F1).

Every monotonicity theorem of C08 has the form "tight run = ok x → loose run = ok x' → …".  The only exception that
depends on the threshold VALUES is the IoU modes' assertion `0 ≤ t ≤ 1` (`thrValid`); `IndexError` depends on the
lengths only (equal for pointwise related lists), `AttributeError` / `KeyError` not on the thresholds at all.  Hence:
if every entry of the looser list is valid for the mode, the looser run returns whenever the tighter one does.
-/

namespace PEval.AP

theorem getLabelThreshold_mem {l : Label} {T : List Label} {th : List Rat} {t : Rat}
    (h : getLabelThreshold l T (some th) = .ok (some t)) : t ∈ th := by
  unfold getLabelThreshold at h
  cases hi : T.findIdx? (· == l) with
  | none => simp [hi] at h
  | some i =>
    simp only [hi] at h
    cases hg : th[i]? with
    | none => simp [hg] at h
    | some x =>
      simp only [hg, Except.ok.injEq, Option.some.injEq] at h
      subst h
      exact List.mem_of_getElem? hg

/-- the looser lookup returns whenever the tighter one does, with a related threshold out of the looser list -/
theorem getLabelThreshold_ok_of_rel {m : Mode} (l : Label) (T : List Label) {th th' : List Rat}
    (hth : List.Forall₂ (looser m) th th') {o : Option Rat} (h : getLabelThreshold l T (some th) = .ok o) :
    ∃ o', getLabelThreshold l T (some th') = .ok o' ∧ optLooser m o o' ∧ ∀ t, o' = some t → t ∈ th' := by
  rcases getLabelThreshold_rel (m := m) l T hth with ⟨e, he, _⟩ | ⟨o1, o', ho, ho', hoo⟩
  · rw [he] at h; cases h
  · rw [ho] at h
    cases h
    exact ⟨o', ho', hoo, fun t ht => getLabelThreshold_mem (ht ▸ ho')⟩

/-- `is_result_correct` returns for every valid (or absent) threshold -/
theorem isResultCorrect_total_opt {m : Mode} (o : Option Rat) (r : Res)
    (hv : ∀ t, o = some t → thrValid m t = true) : ∃ b, isResultCorrect m o r = .ok b := by
  cases o with
  | some t => exact isResultCorrect_total r (hv t rfl)
  | none =>
    unfold isResultCorrect
    cases r.gt with
    | none => exact ⟨_, rfl⟩
    | some g => exact ⟨_, rfl⟩

theorem getStatus_total {m : Mode} (o : Option Rat) (r : Res)
    (hv : ∀ t, o = some t → thrValid m t = true) : ∃ s, getStatus m o r = .ok s := by
  unfold getStatus
  cases r.gt with
  | none => exact ⟨_, rfl⟩
  | some g =>
    obtain ⟨b, hb⟩ := isResultCorrect_total_opt o r hv
    simp only [hb]
    cases b <;> exact ⟨_, rfl⟩

theorem classify_ok_of_looser {tm : TpMetric} {m : Mode} {T : List Label} {th th' : List Rat} {r : Res}
    (hth : List.Forall₂ (looser m) th th') (hv : ∀ t ∈ th', thrValid m t = true) {k : Kind}
    (h : classify tm m T th r = .ok k) : ∃ k', classify tm m T th' r = .ok k' := by
  unfold classify at h ⊢
  cases hg : getLabelThreshold (keyLabel r) T (some th) with
  | error e => simp [hg] at h
  | ok o =>
    obtain ⟨o', ho', _, hmem⟩ := getLabelThreshold_ok_of_rel (keyLabel r) T hth hg
    rw [ho']
    cases o' with
    | none => exact ⟨_, rfl⟩
    | some t' =>
      obtain ⟨b, hb⟩ := isResultCorrect_total r (hv t' (hmem t' rfl))
      simp only [hb]
      cases b <;> exact ⟨_, rfl⟩

theorem classifyAll_ok_of_looser {tm : TpMetric} {m : Mode} {T : List Label} {th th' : List Rat}
    (hth : List.Forall₂ (looser m) th th') (hv : ∀ t ∈ th', thrValid m t = true) {L : List Res} {ks : List Kind}
    (h : classifyAll tm m T th L = .ok ks) : ∃ ks', classifyAll tm m T th' L = .ok ks' := by
  induction L generalizing ks with
  | nil => exact ⟨[], rfl⟩
  | cons r t ih =>
    obtain ⟨k, ks0, hk, hks, _⟩ := classifyAll_cons_ok h
    obtain ⟨k', hk'⟩ := classify_ok_of_looser hth hv hk
    obtain ⟨ks', hks'⟩ := ih hks
    exact ⟨k' :: ks', by simp [classifyAll, hk', hks']⟩

/-- `Ap.__init__` under the looser list returns whenever it does under the tighter list -/
theorem apOf_ok_of_looser {tm : TpMetric} {m : Mode} {T : List Label} {th th' : List Rat} {G : Nat}
    {rs : List Res} (hth : List.Forall₂ (looser m) th th') (hv : ∀ t ∈ th', thrValid m t = true) {a : ApOut}
    (h : apOf tm m T th G rs = .ok a) : ∃ a', apOf tm m T th' G rs = .ok a' := by
  unfold apOf at h ⊢
  cases hk : classifyAll tm m T th (sortDesc Res.conf rs) with
  | error e => simp [hk] at h
  | ok ks =>
    obtain ⟨ks', hk'⟩ := classifyAll_ok_of_looser hth hv hk
    simp only [hk] at h
    simp only [hk']
    split at h
    · cases h
    · next hany => simp only [hany]; exact ⟨_, rfl⟩

theorem mapLoop_ok_of_looser {m : Mode} {is2d : Bool} {buckets : List (Label × List (List Res))}
    {nums : List (Label × Nat)} {zs zs' : List (Label × Rat)}
    (hz : List.Forall₂ (fun a b => a.1 = b.1 ∧ looser m a.2 b.2) zs zs')
    (hv : ∀ b ∈ zs', thrValid m b.2 = true) {o : List ApOut × List ApOut}
    (h : mapLoop m is2d buckets nums zs = .ok o) : ∃ o', mapLoop m is2d buckets nums zs' = .ok o' := by
  induction hz generalizing o with
  | nil => exact ⟨_, rfl⟩
  | @cons a b t t' hab _ ih =>
    obtain ⟨l, thr⟩ := a
    obtain ⟨l', thr'⟩ := b
    obtain ⟨hl, hlo⟩ := hab
    simp only at hl hlo
    subst hl
    have hvb : thrValid m thr' = true := hv (l, thr') List.mem_cons_self
    have hone : List.Forall₂ (looser m) [thr] [thr'] := .cons hlo .nil
    have hvone : ∀ x ∈ [thr'], thrValid m x = true := by
      intro x hx; rw [List.mem_singleton.1 hx]; exact hvb
    unfold mapLoop at h ⊢
    cases hb : lookupKey l buckets with
    | error e => simp [hb] at h
    | ok rss =>
      cases hn : lookupKey l nums with
      | error e => simp [hb, hn] at h
      | ok G =>
        simp only [hb, hn] at h ⊢
        cases ha : apOfNested .ap m [l] [thr] G rss with
        | error e => simp [ha] at h
        | ok a1 =>
          obtain ⟨a1', ha'⟩ := apOf_ok_of_looser (G := G) (rs := rss.flatten) hone hvone ha
          have ha'' : apOfNested .ap m [l] [thr'] G rss = .ok a1' := ha'
          simp only [ha] at h
          simp only [ha'']
          cases is2d with
          | true =>
            simp only [if_true] at h ⊢
            cases hr : mapLoop m true buckets nums t with
            | error e => simp [hr] at h
            | ok q =>
              obtain ⟨q', hq'⟩ := ih (fun x hx => hv x (List.mem_cons_of_mem _ hx)) hr
              simp only [hq']
              exact ⟨_, rfl⟩
          | false =>
            simp only [Bool.false_eq_true, if_false] at h ⊢
            cases hh : apOfNested .aph m [l] [thr] G rss with
            | error e => simp [hh, Except.map] at h
            | ok h1 =>
              obtain ⟨h1', hh'⟩ := apOf_ok_of_looser (G := G) (rs := rss.flatten) hone hvone hh
              have hh'' : apOfNested .aph m [l] [thr'] G rss = .ok h1' := hh'
              simp only [hh, Except.map] at h
              simp only [hh'', Except.map]
              cases hr : mapLoop m false buckets nums t with
              | error e => simp [hr] at h
              | ok q =>
                obtain ⟨q', hq'⟩ := ih (fun x hx => hv x (List.mem_cons_of_mem _ hx)) hr
                simp only [hq']
                exact ⟨_, rfl⟩

/-- `Map.__init__` under the looser list returns whenever it does under the tighter list -/
theorem mapOf_ok_of_looser {m : Mode} {is2d : Bool} {T : List Label} {th th' : List Rat}
    {buckets : List (Label × List (List Res))} {nums : List (Label × Nat)}
    (hth : List.Forall₂ (looser m) th th') (hv : ∀ t ∈ th', thrValid m t = true) {o : MapOut}
    (h : mapOf m is2d T th buckets nums = .ok o) : ∃ o', mapOf m is2d T th' buckets nums = .ok o' := by
  unfold mapOf at h ⊢
  cases hl : mapLoop m is2d buckets nums (T.zip th) with
  | error e => simp [hl] at h
  | ok q =>
    obtain ⟨q', hq'⟩ := mapLoop_ok_of_looser (zip_looser T hth)
      (fun b hb => hv b.2 (List.of_mem_zip (a := b.1) (b := b.2) hb).2) hl
    obtain ⟨q1, q2⟩ := q'
    simp only [hq']
    exact ⟨_, rfl⟩

theorem isPositive_ok_of_looser {m : Mode} {T : List Label} {th th' : List Rat} {r : Res}
    (hth : List.Forall₂ (looser m) th th') (hv : ∀ t ∈ th', thrValid m t = true) {b : Bool}
    (h : isPositive m T (some th) r = .ok b) : ∃ b', isPositive m T (some th') r = .ok b' := by
  unfold isPositive at h ⊢
  cases hg : r.gt with
  | none => exact ⟨_, rfl⟩
  | some g =>
    simp only [hg] at h ⊢
    cases hgl : getLabelThreshold g.label T (some th) with
    | error e => simp [hgl] at h
    | ok o =>
      obtain ⟨o', ho', _, hmem⟩ := getLabelThreshold_ok_of_rel g.label T hth hgl
      obtain ⟨s, hs⟩ := getStatus_total (m := m) o' r (fun t ht => hv t (hmem t ht))
      simp only [ho', hs]
      split <;> first | exact ⟨_, rfl⟩ | simp_all

/-- `get_positive_objects` under the looser list returns whenever it does under the tighter list -/
theorem getPositive_ok_of_looser {m : Mode} {T : List Label} {th th' : List Rat}
    (hth : List.Forall₂ (looser m) th th') (hv : ∀ t ∈ th', thrValid m t = true) {rs : List Res}
    {p : List Nat × List Nat} (h : getPositive m T (some th) rs = .ok p) :
    ∃ p', getPositive m T (some th') rs = .ok p' := by
  induction rs generalizing p with
  | nil => exact ⟨_, rfl⟩
  | cons r t ih =>
    unfold getPositive at h ⊢
    cases hb : isPositive m T (some th) r with
    | error e => simp [hb] at h
    | ok b =>
      obtain ⟨b', hb'⟩ := isPositive_ok_of_looser hth hv hb
      cases hp : getPositive m T (some th) t with
      | error e => simp [hb, hp] at h
      | ok q =>
        obtain ⟨q', hq'⟩ := ih hp
        simp only [hb', hq']
        exact ⟨_, rfl⟩

theorem gtStatuses_ok_of_looser {m : Mode} {T : List Label} {th th' : List Rat}
    (hth : List.Forall₂ (looser m) th th') (hv : ∀ t ∈ th', thrValid m t = true) {rs : List Res}
    {l : List (Option (Gt × Status))} (h : gtStatuses m T (some th) rs = .ok l) :
    ∃ l', gtStatuses m T (some th') rs = .ok l' := by
  induction rs generalizing l with
  | nil => exact ⟨_, rfl⟩
  | cons r t ih =>
    unfold gtStatuses at h ⊢
    cases hgl : getLabelThreshold (keyLabel r) T (some th) with
    | error e => simp [hgl] at h
    | ok o =>
      obtain ⟨o', ho', _, hmem⟩ := getLabelThreshold_ok_of_rel (keyLabel r) T hth hgl
      obtain ⟨s, hs⟩ := getStatus_total (m := m) o' r (fun t ht => hv t (hmem t ht))
      simp only [hgl] at h
      cases hs0 : getStatus m o r with
      | error e => simp [hs0] at h
      | ok s0 =>
        simp only [hs0] at h
        cases hq : gtStatuses m T (some th) t with
        | error e => simp [hq] at h
        | ok q =>
          obtain ⟨q', hq'⟩ := ih hq
          simp only [ho', hs, hq']
          exact ⟨_, rfl⟩

/-- `get_negative_objects` under the looser list returns whenever it does under the tighter list -/
theorem getNegative_ok_of_looser {m : Mode} {T : List Label} {th th' : List Rat}
    (hth : List.Forall₂ (looser m) th th') (hv : ∀ t ∈ th', thrValid m t = true) {gts : List Gt}
    {rs : List Res} {n : List Nat × List Nat} (h : getNegative m T (some th) gts rs = .ok n) :
    ∃ n', getNegative m T (some th') gts rs = .ok n' := by
  unfold getNegative at h ⊢
  cases hq : gtStatuses m T (some th) rs with
  | error e => simp [hq] at h
  | ok l =>
    obtain ⟨l', hl'⟩ := gtStatuses_ok_of_looser hth hv hq
    simp only [hl']
    exact ⟨_, rfl⟩

end PEval.AP
