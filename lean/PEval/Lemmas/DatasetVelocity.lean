import PEval.Lemmas.DatasetTotal
/-!
# Velocities with Python's outcome for a zero time difference (C16, audit round 2)

`velocityPy` (Model/Dataset.lean) refines `velocityOf`: the two differ only in how the outcome of a division by a zero
time difference is REPRESENTED (`Vel.div0 d` vs Lean's `d / 0 = 0`).  Under `TimeOrdered` (the schema's meaning of
`prev` / `next`) the `div0` outcome cannot occur.  Core Lean only.
-/
namespace PEval.Dataset
open PEval

/-- for ALL tables: the total-division model is the Lean view of the Python outcome -/
theorem velocityOf_eq_leanView (T : Tables) (fr : Bool) (a : Annotation) :
    velocityOf T fr a =
      (match velocityPy T fr a with
       | .ok v => .ok v.leanView
       | .error e => .error e) := by
  unfold velocityOf velocityPy
  by_cases h0 : (a.prev == "" && a.next == "") = true
  · simp only [h0, if_true]; rfl
  · simp only [h0, Bool.false_eq_true, if_false]
    cases h1 : (if a.prev == "" then Except.ok a else lookup Annotation.token T.annotations a.prev) with
    | error e => rfl
    | ok first =>
      simp only
      cases h2 : (if a.next == "" then Except.ok a else lookup Annotation.token T.annotations a.next) with
      | error e => rfl
      | ok last =>
        simp only
        cases h3 : secsOf T last.sampleToken with
        | error e => rfl
        | ok tl =>
          simp only
          cases h4 : secsOf T first.sampleToken with
          | error e => rfl
          | ok tf =>
            simp only
            by_cases hb : tl - tf ≤ maxTimeDiff a
            · simp only [hb, if_true]
              by_cases hz : tl - tf = 0
              · simp only [hz, if_true, Vel.leanView]
              · simp only [hz, if_false, Vel.leanView]
            · simp only [hb, if_false, Vel.leanView]

theorem velocityPy_ok {T : Tables} (wf : WellFormed T) (fr : Bool) {a : Annotation} (ha : a ∈ T.annotations) :
    ∃ v, velocityPy T fr a = .ok v := by
  obtain ⟨v', hv'⟩ := velocityOf_ok wf fr ha
  rw [velocityOf_eq_leanView] at hv'
  cases h : velocityPy T fr a with
  | ok v => exact ⟨v, rfl⟩
  | error e => rw [h] at hv'; cases hv'

/-- the closed form of `velocityPy` (same hypotheses as `C16.velocity_formula`) -/
theorem velocityPy_formula (T : Tables) (objectFrame : Bool) (a first last : Annotation) (tf tl : Rat)
    (hsome : a.prev ≠ "" ∨ a.next ≠ "")
    (hfirst : if a.prev = "" then first = a else lookup Annotation.token T.annotations a.prev = .ok first)
    (hlast : if a.next = "" then last = a else lookup Annotation.token T.annotations a.next = .ok last)
    (htf : secsOf T first.sampleToken = .ok tf) (htl : secsOf T last.sampleToken = .ok tl) :
    velocityPy T objectFrame a = .ok
      (if tl - tf ≤ (if a.prev ≠ "" ∧ a.next ≠ "" then 3 else 3 / 2) then
        (if tl - tf = 0 then
          .div0 (if objectFrame then rotate first.rotation.conj (last.translation.sub first.translation)
                 else last.translation.sub first.translation)
         else .finite (((if objectFrame then rotate first.rotation.conj (last.translation.sub first.translation)
                else last.translation.sub first.translation)).divBy (tl - tf)))
       else .none) := by
  have h0 : (a.prev == "" && a.next == "") = false := by
    rcases hsome with h | h <;> simp [h]
  have h1 : (if a.prev == "" then Except.ok a else lookup Annotation.token T.annotations a.prev) = .ok first := by
    by_cases hp : a.prev = ""
    · simp only [hp, if_true] at hfirst; simp [hp, hfirst]
    · simp only [hp, if_false] at hfirst; simp [hp, hfirst]
  have h2 : (if a.next == "" then Except.ok a else lookup Annotation.token T.annotations a.next) = .ok last := by
    by_cases hn : a.next = ""
    · simp only [hn, if_true] at hlast; simp [hn, hlast]
    · simp only [hn, if_false] at hlast; simp [hn, hlast]
  have h3 : maxTimeDiff a = (if a.prev ≠ "" ∧ a.next ≠ "" then 3 else 3 / 2) := by
    unfold maxTimeDiff
    by_cases hp : a.prev = "" <;> by_cases hn : a.next = "" <;> simp [hp, hn]
  simp only [velocityPy, h0, Bool.false_eq_true, if_false, h1, h2, htf, htl, h3]

theorem isDiv0_if {c : Prop} [Decidable c] {dt : Rat} (hne : ¬ dt = 0) (d x : Vec3) :
    (if c then (if dt = 0 then Vel.div0 d else Vel.finite x) else Vel.none).isDiv0 = false := by
  simp only [hne, if_false]
  split <;> rfl

/-- with `prev` strictly earlier and `next` strictly later (the schema), no velocity is a division by zero -/
theorem velocityPy_no_div0 {T : Tables} (wf : WellFormed T) (ord : TimeOrdered T) (fr : Bool) {a : Annotation}
    (ha : a ∈ T.annotations) {v : Vel} (h : velocityPy T fr a = .ok v) : v.isDiv0 = false := by
  obtain ⟨sa, hsa⟩ := wf.ann_sample a ha
  have hta := secsOf_ok hsa
  by_cases hp : a.prev = "" <;> by_cases hn : a.next = ""
  · simp [velocityPy, hp, hn] at h; subst h; rfl
  · -- first = a, last = next
    obtain ⟨b, hb⟩ := wf.ann_next a ha hn
    obtain ⟨sb, hsb⟩ := wf.ann_sample b (lookup_ok_mem hb).1
    have htb := secsOf_ok hsb
    have hlt := ord.next_later a ha hn b hb _ _ hta htb
    rw [velocityPy_formula T fr a a b sa.secs sb.secs (Or.inr hn) (by simp [hp]) (by simp [hn, hb]) hta htb] at h
    have hne : ¬ (sb.secs - sa.secs = 0) := by grind
    simp only [Except.ok.injEq] at h
    subst h
    exact isDiv0_if hne _ _
  · obtain ⟨b, hb⟩ := wf.ann_prev a ha hp
    obtain ⟨sb, hsb⟩ := wf.ann_sample b (lookup_ok_mem hb).1
    have htb := secsOf_ok hsb
    have hlt := ord.prev_earlier a ha hp b hb _ _ hta htb
    rw [velocityPy_formula T fr a b a sb.secs sa.secs (Or.inl hp) (by simp [hp, hb]) (by simp [hn]) htb hta] at h
    have hne : ¬ (sa.secs - sb.secs = 0) := by grind
    simp only [Except.ok.injEq] at h
    subst h
    exact isDiv0_if hne _ _
  · obtain ⟨b, hb⟩ := wf.ann_prev a ha hp
    obtain ⟨sb, hsb⟩ := wf.ann_sample b (lookup_ok_mem hb).1
    obtain ⟨c, hc⟩ := wf.ann_next a ha hn
    obtain ⟨sc, hsc⟩ := wf.ann_sample c (lookup_ok_mem hc).1
    have htb := secsOf_ok hsb
    have htc := secsOf_ok hsc
    have hlt1 := ord.prev_earlier a ha hp b hb _ _ hta htb
    have hlt2 := ord.next_later a ha hn c hc _ _ hta htc
    rw [velocityPy_formula T fr a b c sb.secs sc.secs (Or.inl hp) (by simp [hp, hb]) (by simp [hn, hc]) htb htc] at h
    have hne : ¬ (sc.secs - sb.secs = 0) := by grind
    simp only [Except.ok.injEq] at h
    subst h
    exact isDiv0_if hne _ _

/-- an outcome that is not a division by zero is represented faithfully by the total-division model -/
theorem leanView_of_not_div0 {v : Vel} (h : v.isDiv0 = false) : v.leanView = v.toOption ∧ v = Vel.ofOption v.toOption := by
  cases v with
  | none => exact ⟨rfl, rfl⟩
  | finite w => exact ⟨rfl, rfl⟩
  | div0 d => cases h

theorem timeOrderedB_sound {T : Tables} (h : timeOrderedB T = true) : TimeOrdered T := by
  unfold timeOrderedB at h
  rw [List.all_eq_true] at h
  constructor
  · intro a ha hp b hb ta tb hta htb
    have := h a ha
    simp only [Bool.and_eq_true, Bool.or_eq_true, beq_iff_eq] at this
    rcases this.1 with e | e
    · exact absurd e hp
    · simp only [hb, hta, htb, decide_eq_true_eq] at e; exact e
  · intro a ha hn b hb ta tb hta htb
    have := h a ha
    simp only [Bool.and_eq_true, Bool.or_eq_true, beq_iff_eq] at this
    rcases this.2 with e | e
    · exact absurd e hn
    · simp only [hb, hta, htb, decide_eq_true_eq] at e; exact e

/-! ## non-unit quaternions: the normalising variants -/

theorem rotateN_of_unit (q : Quat) (hq : q.normSq = 1) (v : Vec3) : rotateN q v = rotate q v := by
  simp [rotateN, hq, Vec3.divBy]

theorem moveInvN_of_unit (t : Vec3) (q : Quat) (hq : q.normSq = 1) (p : Pose) : moveInvN t q p = moveInv t q p := by
  simp [moveInvN, moveInv, rotateN, normSq_conj, hq, Vec3.divBy]

theorem applyPoseN_of_unit (t p : Pose) (hq : t.rot.normSq = 1) : applyPoseN t p = applyPose t p := by
  simp [applyPoseN, applyPose, rotateN, hq, Vec3.divBy]

theorem rotate_divBy (q : Quat) (v : Vec3) (k : Rat) : rotate q (v.divBy k) = (rotate q v).divBy k := by
  simp only [rotate, Vec3.divBy, Vec3.mk.injEq, Rat.div_def]
  refine ⟨?_, ?_, ?_⟩ <;> grind

/-- for EVERY non-zero quaternion: moving a pose into the frame `(t, q)` and back gives the same position, and the same
orientation up to the positive factor `|q|²` (the same rotation) -/
theorem applyPoseN_moveInvN (t : Vec3) (q : Quat) (hq : q.normSq ≠ 0) (p : Pose) :
    (applyPoseN ⟨t, q⟩ (moveInvN t q p)).pos = p.pos ∧
    (applyPoseN ⟨t, q⟩ (moveInvN t q p)).rot =
      ⟨q.normSq * p.rot.w, q.normSq * p.rot.x, q.normSq * p.rot.y, q.normSq * p.rot.z⟩ ∧ 0 < q.normSq := by
  obtain ⟨⟨px, py, pz⟩, ⟨rw, rx, ry, rz⟩⟩ := p
  obtain ⟨tx, ty, tz⟩ := t
  have hpos : 0 < q.normSq := by
    have h0 : 0 ≤ q.normSq := by
      simp only [Quat.normSq]
      have := mul_self_nonneg q.w; have := mul_self_nonneg q.x
      have := mul_self_nonneg q.y; have := mul_self_nonneg q.z
      grind
    grind
  have key : ∀ x : Rat, q.normSq * q.normSq * x / q.normSq / q.normSq = x := by
    intro x; grind
  refine ⟨?_, ?_, hpos⟩
  · simp only [applyPoseN, moveInvN, rotateN]
    rw [rotate_divBy, rotate_conj_rotate, normSq_conj]
    simp only [Vec3.add, Vec3.sub, Vec3.divBy, key, Vec3.mk.injEq]
    refine ⟨?_, ?_, ?_⟩ <;> grind
  · simp only [applyPoseN, moveInvN]
    rw [mul_conj_mul]

end PEval.Dataset
