import PEval.Lemmas.Heading
/-!
The closed yaw domain `[−1, 1]` (audit C09-2): `np.arctan2(-0.0, -x)` returns `−π`, so `yaw_pitch_roll[0]` can be `−π` in
floats although the mathematical range is `(−π, π]`.  The closed forms of `PEval.Lemmas.Heading` hold on `[−1, 1]` as well;
only "weight 1 ⇔ equal yaws" changes (`−1` and `1` are the same heading).
-/
namespace PEval.Heading

/-- closed yaw domain `[−π, π]` in half-turns -/
def InDomC (τ : Rat) : Prop := -1 ≤ τ ∧ τ ≤ 1

instance (τ : Rat) : Decidable (InDomC τ) := by unfold InDomC; infer_instance

theorem InDom.closed {τ : Rat} (h : InDom τ) : InDomC τ := ⟨le_of_lt h.1, h.2⟩

theorem headingBev_eq_closed {τ : Rat} (h : InDomC τ) :
    headingBev τ = if τ > 1/2 then 3/2 - τ else -τ - 1/2 := by
  obtain ⟨h1, h2⟩ := h
  unfold headingBev
  simp only
  have : ¬ (-τ - 1/2 > 1) := by linarith
  rw [if_neg this]
  by_cases c : τ > 1/2
  · rw [if_pos c, if_pos (by linarith)]; ring
  · rw [if_neg c, if_neg (by linarith)]

theorem circDist_nonneg_closed {a b : Rat} (ha : InDomC a) (hb : InDomC b) : 0 ≤ circDist a b := by
  unfold circDist; simp only
  have := absR_nonneg (a - b)
  have := absR_le (x := a - b) (c := 2) (by have := ha.1; have := hb.2; linarith)
    (by have := ha.2; have := hb.1; linarith)
  split <;> linarith

theorem foldAbs_heading_closed {a b : Rat} (ha : InDomC a) (hb : InDomC b) :
    foldAbs (headingBev a - headingBev b) = circDist a b := by
  rw [headingBev_eq_closed ha, headingBev_eq_closed hb]
  obtain ⟨a1, a2⟩ := ha
  obtain ⟨b1, b2⟩ := hb
  unfold foldAbs circDist absR
  simp only
  by_cases ca : a > 1/2 <;> by_cases cb : b > 1/2 <;> simp only [ca, cb, if_true, if_false] <;>
    split_ifs <;> linarith

theorem clip_range_closed {x : Rat} (h1 : -2 ≤ x) (h2 : x ≤ 2) : -1 ≤ clip x ∧ clip x ≤ 1 := by
  unfold clip
  split_ifs <;> constructor <;> linarith

theorem absR_clip_closed {a b : Rat} (ha : InDomC a) (hb : InDomC b) : absR (clip (b - a)) = circDist a b := by
  obtain ⟨a1, a2⟩ := ha
  obtain ⟨b1, b2⟩ := hb
  unfold clip circDist absR
  simp only
  split_ifs <;> linarith

/-- the circular distance vanishes for equal yaws and for the two names `−1`, `1` of the yaw π -/
theorem circDist_eq_zero_iff_closed {a b : Rat} (ha : InDomC a) (hb : InDomC b) :
    circDist a b = 0 ↔ (a = b ∨ absR (a - b) = 2) := by
  obtain ⟨a1, a2⟩ := ha
  obtain ⟨b1, b2⟩ := hb
  unfold circDist absR
  simp only
  constructor
  · intro h
    split_ifs at h with c1 c2 c2
    · left; linarith
    · right; rw [if_pos c1]; linarith
    · left; linarith
    · right; rw [if_neg c1]; linarith
  · rintro (rfl | h)
    · simp
    · split_ifs at h ⊢ <;> linarith

theorem wrapYaw_inDom_closed {t : Rat} (h1 : -2 ≤ t) (h2 : t ≤ 2) : InDom (wrapYaw t) := by
  unfold wrapYaw InDom
  split
  · constructor <;> linarith
  · split <;> constructor <;> linarith

theorem circDist_wrapYaw_closed {t a b : Rat} (ht : InDomC t) (ha : InDomC a) (hb : InDomC b) :
    circDist (wrapYaw (a + t)) (wrapYaw (b + t)) = circDist a b := by
  obtain ⟨t1, t2⟩ := ht
  obtain ⟨a1, a2⟩ := ha
  obtain ⟨b1, b2⟩ := hb
  unfold circDist absR wrapYaw
  simp only
  split_ifs <;> linarith

end PEval.Heading
