import PEval.Model.Lookup
/-!
Helper lemmas for C17 that need no arithmetic library: the arg-min loop of `get_now_frame`, the
scan of `get_interpolated_now_frame`, the two loops of `interpolate_object_list`, the conversion to
the map frame, and the shape of a successful `interpolate_ground_truth_frames`.
-/
namespace PEval.Lookup

/-! ## arg-min loop -/

theorem argminLoop_le_best (t : Int) :
    ∀ (fs : List Frame) (best : Frame), absDt t (argminLoop t best fs) ≤ absDt t best := by
  intro fs
  induction fs with
  | nil => intro best; simp [argminLoop]
  | cons f fs ih =>
    intro best
    simp only [argminLoop]
    split
    · have := ih f; omega
    · exact ih best

theorem argminLoop_le (t : Int) :
    ∀ (fs : List Frame) (best : Frame), ∀ g ∈ fs, absDt t (argminLoop t best fs) ≤ absDt t g := by
  intro fs
  induction fs with
  | nil => intro best g hg; cases hg
  | cons f fs ih =>
    intro best g hg
    simp only [argminLoop]
    rcases List.mem_cons.1 hg with rfl | hg'
    · split
      · exact argminLoop_le_best t fs g
      · have := argminLoop_le_best t fs best; omega
    · split
      · exact ih f g hg'
      · exact ih best g hg'

theorem argminLoop_mem (t : Int) :
    ∀ (fs : List Frame) (best : Frame), argminLoop t best fs = best ∨ argminLoop t best fs ∈ fs := by
  intro fs
  induction fs with
  | nil => intro best; simp [argminLoop]
  | cons f fs ih =>
    intro best
    simp only [argminLoop]
    split
    · rcases ih f with h | h
      · right; rw [h]; exact List.mem_cons_self
      · right; exact List.mem_cons_of_mem _ h
    · rcases ih best with h | h
      · left; exact h
      · right; exact List.mem_cons_of_mem _ h

/-- the loop's result is either the initial best, or sits at a position of the list where it is
strictly closer than the initial best and than everything before it -/
theorem argminLoop_first (t : Int) :
    ∀ (fs : List Frame) (best : Frame),
      argminLoop t best fs = best ∨
      ∃ pre post, fs = pre ++ argminLoop t best fs :: post ∧
        absDt t (argminLoop t best fs) < absDt t best ∧
        ∀ g ∈ pre, absDt t (argminLoop t best fs) < absDt t g := by
  intro fs
  induction fs with
  | nil => intro best; simp [argminLoop]
  | cons f fs ih =>
    intro best
    simp only [argminLoop]
    split
    · rename_i hlt
      right
      rcases ih f with h | ⟨pre, post, hfs, hlt', hpre⟩
      · refine ⟨[], fs, ?_, ?_, ?_⟩
        · rw [h]; rfl
        · rw [h]; exact hlt
        · intro g hg; cases hg
      · refine ⟨f :: pre, post, ?_, ?_, ?_⟩
        · rw [List.cons_append, ← hfs]
        · omega
        · intro g hg
          rcases List.mem_cons.1 hg with rfl | hg'
          · exact hlt'
          · exact hpre g hg'
    · rename_i hnlt
      rcases ih best with h | ⟨pre, post, hfs, hlt', hpre⟩
      · left; exact h
      · right
        refine ⟨f :: pre, post, ?_, hlt', ?_⟩
        · rw [List.cons_append, ← hfs]
        · intro g hg
          rcases List.mem_cons.1 hg with rfl | hg'
          · omega
          · exact hpre g hg'

/-! ## the scan -/

theorem getLast?_cons_or {α} (f : α) (pre : List α) :
    (f :: pre).getLast? = (pre.getLast?).or (some f) := by
  cases pre with
  | nil => rfl
  | cons p ps =>
    rw [List.getLast?_cons_cons]
    cases h : (p :: ps).getLast? with
    | none => simp at h
    | some x => rfl

theorem scan_split (t : Int) :
    ∀ (fs : List Frame) (b : Option Frame) (db : Int),
      ∃ pre post, fs = pre ++ post ∧ (∀ g ∈ pre, g.time ≤ t) ∧
        (∀ a, post.head? = some a → t < a.time) ∧
        (scan t fs b db).before = (pre.getLast?).or b ∧
        (scan t fs b db).dtBefore = ((pre.getLast?).map (fun f => t - f.time)).getD db ∧
        (scan t fs b db).after = post.head? ∧
        (scan t fs b db).dtAfter = ((post.head?).map (fun a => a.time - t)).getD 0 := by
  intro fs
  induction fs with
  | nil =>
    intro b db
    exact ⟨[], [], rfl, by simp, by simp, by simp [scan], by simp [scan], by simp [scan], by simp [scan]⟩
  | cons f fs ih =>
    intro b db
    by_cases hd : t - f.time ≥ 0
    · obtain ⟨pre, post, hfs, hpre, hpost, hb, hdb, ha, hda⟩ := ih (some f) (t - f.time)
      refine ⟨f :: pre, post, by rw [hfs]; rfl, ?_, hpost, ?_, ?_, ?_, ?_⟩
      · intro g hg
        rcases List.mem_cons.1 hg with rfl | hg'
        · omega
        · exact hpre g hg'
      · simp only [scan, hd, if_true]
        rw [hb, getLast?_cons_or]
        cases pre.getLast? <;> rfl
      · simp only [scan, hd, if_true]
        rw [hdb, getLast?_cons_or]
        cases pre.getLast? <;> rfl
      · simp only [scan, hd, if_true]; exact ha
      · simp only [scan, hd, if_true]; exact hda
    · refine ⟨[], f :: fs, rfl, by simp, ?_, ?_, ?_, ?_, ?_⟩
      · intro a ha
        simp only [List.head?_cons, Option.some.injEq] at ha
        subst ha; omega
      · simp only [scan, if_neg hd]; rfl
      · simp only [scan, if_neg hd]; rfl
      · simp only [scan, if_neg hd]; rfl
      · simp only [scan, if_neg hd, List.head?_cons, Option.map_some, Option.getD_some]; omega

/-! ## `interpolate_object_list` -/

theorem interpObj_uuid (o1 o2 : Obj) (t1 t2 t : Int) : (interpObj o1 o2 t1 t2 t).uuid = o1.uuid := rfl

theorem stepFirst_uuid (l2 : List Obj) (t1 t2 t : Int) (o1 : Obj) :
    (stepFirst l2 t1 t2 t o1).uuid = o1.uuid := by
  unfold stepFirst
  split <;> rfl

theorem stepFirst_found {l2 : List Obj} {t1 t2 t : Int} {o1 o2 : Obj}
    (h : l2.find? (fun o => o1.uuid == o.uuid) = some o2) :
    stepFirst l2 t1 t2 t o1 = interpObj o1 o2 t1 t2 t := by
  unfold stepFirst; rw [h]

theorem stepFirst_not_found {l2 : List Obj} {t1 t2 t : Int} {o1 : Obj}
    (h : ∀ o ∈ l2, o.uuid ≠ o1.uuid) : stepFirst l2 t1 t2 t o1 = o1 := by
  unfold stepFirst
  have : l2.find? (fun o => o1.uuid == o.uuid) = none := by
    rw [List.find?_eq_none]
    intro o ho hb
    have he : o1.uuid = o.uuid := by simpa using hb
    exact h o ho he.symm
  rw [this]

theorem firstPass_uuids (l1 l2 : List Obj) (t1 t2 t : Int) :
    (l1.map (stepFirst l2 t1 t2 t)).map (·.uuid) = l1.map (·.uuid) := by
  rw [List.map_map]
  apply List.map_congr_left
  intro o _
  exact stepFirst_uuid l2 t1 t2 t o

theorem secondPass_sublist : ∀ (l : List Obj) (ids : List Nat), (secondPass ids l).Sublist l := by
  intro l
  induction l with
  | nil => intro ids; simp [secondPass]
  | cons o rest ih =>
    intro ids
    simp only [secondPass]
    split
    · exact (ih ids).cons o
    · exact (ih _).cons_cons o

theorem secondPass_not_in : ∀ (l : List Obj) (ids : List Nat), ∀ o ∈ secondPass ids l, o.uuid ∉ ids := by
  intro l
  induction l with
  | nil => intro ids o ho; simp [secondPass] at ho
  | cons o2 rest ih =>
    intro ids o ho
    simp only [secondPass] at ho
    split at ho
    · exact ih ids o ho
    · rename_i hnot
      rcases List.mem_cons.1 ho with rfl | ho'
      · exact hnot
      · intro hin
        exact ih _ o ho' (List.mem_append_left _ hin)

/-- every uuid of the second list that is not in `ids` is represented in the second pass, by an
object of the second list carrying that uuid -/
theorem secondPass_covers : ∀ (l : List Obj) (ids : List Nat), ∀ o ∈ l, o.uuid ∉ ids →
    ∃ o' ∈ secondPass ids l, o'.uuid = o.uuid := by
  intro l
  induction l with
  | nil => intro ids o ho; cases ho
  | cons o2 rest ih =>
    intro ids o ho hnot
    simp only [secondPass]
    rcases List.mem_cons.1 ho with rfl | ho'
    · rw [if_neg hnot]
      exact ⟨o, List.mem_cons_self, rfl⟩
    · split
      · exact ih ids o ho' hnot
      · by_cases he : o.uuid = o2.uuid
        · exact ⟨o2, List.mem_cons_self, he.symm⟩
        · have hn : o.uuid ∉ ids ++ [o2.uuid] := by
            simp only [List.mem_append, List.mem_singleton, not_or]
            exact ⟨hnot, he⟩
          obtain ⟨o', ho', hu⟩ := ih _ o ho' hn
          exact ⟨o', List.mem_cons_of_mem _ ho', hu⟩

theorem secondPass_eq_filter : ∀ (l : List Obj) (ids : List Nat), (l.map (·.uuid)).Nodup →
    secondPass ids l = l.filter (fun o => decide (o.uuid ∉ ids)) := by
  intro l
  induction l with
  | nil => intro ids _; simp [secondPass]
  | cons o2 rest ih =>
    intro ids hnd
    simp only [List.map_cons, List.nodup_cons] at hnd
    simp only [secondPass]
    split
    · rename_i hin
      rw [List.filter_cons_of_neg (by simpa using hin)]
      exact ih ids hnd.2
    · rename_i hnot
      rw [List.filter_cons_of_pos (by simpa using hnot), ih _ hnd.2]
      congr 1
      apply List.filter_congr
      intro o ho
      have hne : o.uuid ≠ o2.uuid := by
        intro he
        exact hnd.1 (he ▸ List.mem_map.2 ⟨o, ho, rfl⟩)
      simp [hne]

theorem secondPass_uuids_nodup : ∀ (l : List Obj) (ids : List Nat),
    ((secondPass ids l).map (·.uuid)).Nodup := by
  intro l
  induction l with
  | nil => intro ids; simp [secondPass]
  | cons o2 rest ih =>
    intro ids
    simp only [secondPass]
    split
    · exact ih ids
    · simp only [List.map_cons, List.nodup_cons]
      refine ⟨?_, ih _⟩
      intro hin
      obtain ⟨o, ho, hu⟩ := List.mem_map.1 hin
      exact secondPass_not_in rest _ o ho (by rw [hu]; simp)

/-! ## conversion to the map frame -/

theorem toGlobalList_ok (e : Pose) : ∀ (l g : List Obj), toGlobalList e l = .ok g →
    g = l.map (globalOf e) ∧ ∀ o ∈ l, o.frame ≠ .other := by
  intro l
  induction l with
  | nil =>
    intro g h
    simp only [toGlobalList, Except.ok.injEq] at h
    subst h
    exact ⟨rfl, by simp⟩
  | cons o os ih =>
    intro g h
    simp only [toGlobalList] at h
    cases ho : toGlobal e o with
    | error k => rw [ho] at h; cases h
    | ok go =>
      rw [ho] at h
      cases hos : toGlobalList e os with
      | error k => rw [hos] at h; cases h
      | ok gs =>
        rw [hos] at h
        simp only [Except.ok.injEq] at h
        subst h
        obtain ⟨hg, hfr⟩ := ih gs hos
        have hof : o.frame ≠ .other ∧ go = globalOf e o := by
          unfold toGlobal at ho
          split at ho
          · cases ho
          · rename_i hne
            simp only [Except.ok.injEq] at ho
            exact ⟨fun h => hne h, ho.symm⟩
        refine ⟨by rw [List.map_cons, hof.2, hg], ?_⟩
        intro x hx
        rcases List.mem_cons.1 hx with rfl | hx'
        · exact hof.1
        · exact hfr x hx'

theorem toGlobalList_of_frames (e : Pose) : ∀ (l : List Obj), (∀ o ∈ l, o.frame ≠ .other) →
    toGlobalList e l = .ok (l.map (globalOf e)) := by
  intro l
  induction l with
  | nil => intro _; rfl
  | cons o os ih =>
    intro h
    have ho : toGlobal e o = .ok (globalOf e o) := by
      have := h o List.mem_cons_self
      unfold toGlobal
      split
      · rename_i hf; exact absurd hf this
      · rfl
    simp only [toGlobalList, ho, ih (fun x hx => h x (List.mem_cons_of_mem _ hx)), List.map_cons]

/-! ## successful `interpolate_ground_truth_frames` -/

theorem interpolateFrames_ok {b a : Frame} {t : Int} {f : InterpFrame}
    (h : interpolateFrames b a t = .ok f) :
    ∃ eb ea, b.ego = some eb ∧ a.ego = some ea ∧ b.time ≤ t ∧ t ≤ a.time ∧ a.time ≠ b.time ∧
      (∀ o ∈ b.objs, o.frame ≠ .other) ∧ (∀ o ∈ a.objs, o.frame ≠ .other) ∧
      f = { baseId := b.id, time := t,
            egoTrans := Vec3.lerp eb.trans ea.trans (alpha b.time a.time t),
            egoTau := eb.tau + alpha b.time a.time t * arc eb.tau ea.tau,
            objs := interpolateObjectList (b.objs.map (globalOf eb)) (a.objs.map (globalOf ea))
                      b.time a.time t } := by
  unfold interpolateFrames at h
  cases hb : b.ego with
  | none => rw [hb] at h; cases h
  | some eb =>
    cases ha : a.ego with
    | none => rw [hb, ha] at h; cases h
    | some ea =>
      rw [hb, ha] at h
      simp only at h
      by_cases hr : b.time ≤ t ∧ t ≤ a.time
      · rw [if_neg (fun hn => hn hr)] at h
        by_cases he : a.time = b.time
        · rw [if_pos he] at h; cases h
        · rw [if_neg he] at h
          cases hgb : toGlobalList eb b.objs with
          | error k => rw [hgb] at h; cases h
          | ok gb =>
            cases hga : toGlobalList ea a.objs with
            | error k => rw [hgb, hga] at h; cases h
            | ok ga =>
              rw [hgb, hga] at h
              simp only [Except.ok.injEq] at h
              obtain ⟨hgb1, hgb2⟩ := toGlobalList_ok eb _ _ hgb
              obtain ⟨hga1, hga2⟩ := toGlobalList_ok ea _ _ hga
              exact ⟨eb, ea, rfl, rfl, hr.1, hr.2, he, hgb2, hga2, by rw [← h, hgb1, hga1]⟩
      · rw [if_pos hr] at h; cases h

/-! ## gating -/

theorem gate_some {thr dt : Int} {f : Option Frame} {g : Frame} (h : gate thr dt f = some g) :
    f = some g ∧ dt ≤ thr := by
  unfold gate at h
  split at h
  · cases h
  · exact ⟨h, by omega⟩

theorem gate_none {thr dt : Int} {f : Option Frame} (h : gate thr dt f = none) :
    f = none ∨ thr < dt := by
  unfold gate at h
  split at h
  · right; omega
  · left; exact h

theorem getInterpolated_interp {fs : List Frame} {t thr : Int} {f : InterpFrame}
    (h : getInterpolated fs t thr = .ok (.interp f)) :
    ∃ b a, (neighbours fs t).before = some b ∧ (neighbours fs t).after = some a ∧
      (neighbours fs t).dtBefore ≤ thr ∧ (neighbours fs t).dtAfter ≤ thr ∧
      interpolateFrames b a t = .ok f := by
  unfold getInterpolated at h
  simp only at h
  cases hb : gate thr (neighbours fs t).dtBefore (neighbours fs t).before with
  | none =>
    rw [hb] at h
    cases ha : gate thr (neighbours fs t).dtAfter (neighbours fs t).after with
    | none => rw [ha] at h; cases h
    | some a => rw [ha] at h; cases h
  | some b =>
    rw [hb] at h
    cases ha : gate thr (neighbours fs t).dtAfter (neighbours fs t).after with
    | none => rw [ha] at h; cases h
    | some a =>
      rw [ha] at h
      simp only at h
      cases hi : interpolateFrames b a t with
      | error k => rw [hi] at h; cases h
      | ok g =>
        rw [hi] at h
        simp only [Except.ok.injEq, Outcome.interp.injEq] at h
        obtain ⟨hb1, hb2⟩ := gate_some hb
        obtain ⟨ha1, ha2⟩ := gate_some ha
        exact ⟨b, a, hb1, ha1, hb2, ha2, by rw [hi, h]⟩

end PEval.Lookup
