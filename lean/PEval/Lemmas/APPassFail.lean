import PEval.Lemmas.Pipeline
import PEval.Lemmas.APMono
/-!
Threshold monotonicity of the PASS/FAIL accounting (audit C08 F3): the model of C03 (`PEval/Model/PassFail.lean`:
`get_positive_objects` / `get_negative_objects` as `PassFailResult.evaluate` calls them, plane distance, `value < t`)
and the composed pipeline (`Pipeline.detectFrame`), next to the AP-model versions `AP.getPositive_mono` /
`AP.getNegative_mono`.

`ThrLooser r r'`: `r'` is the same object result as `r` (estimate, critical flag, ground truth, label compatibility,
plane distance) looked at under a pass/fail threshold that is at least as large, or under no threshold in both.
-/
namespace PEval.PassFail

def ThrLooser (r r' : Res) : Prop :=
  r'.est = r.est ∧ r'.estCrit = r.estCrit ∧ r'.gt = r.gt ∧ r'.labelOk = r.labelOk ∧ r'.score = r.score ∧
  (match r.thr, r'.thr with
   | none, none => True
   | some t, some t' => t ≤ t'
   | _, _ => False)

theorem isBetterThan_mono {s : Option Rat} {t t' : Rat} (h : t ≤ t') (hb : isBetterThan s t = true) :
    isBetterThan s t' = true := by
  cases s with
  | none => simp [isBetterThan] at hb
  | some v =>
    simp only [isBetterThan, decide_eq_true_eq] at hb ⊢
    exact lt_of_lt_of_le hb h

/-- ordinary ground truth: correct under the tighter threshold ⇒ correct under the looser one -/
theorem isResultCorrect_mono {r r' : Res} (h : ThrLooser r r') {g : GT} (hg : r.gt = some g)
    (hord : g.isFP = false) (hc : isResultCorrect r = true) : isResultCorrect r' = true := by
  obtain ⟨_, _, hgt, hlab, hsc, hthr⟩ := h
  unfold isResultCorrect at hc ⊢
  rw [hgt, hg]
  rw [hg] at hc
  simp only [hord, Bool.false_eq_true, if_false] at hc ⊢
  cases ht : r.thr with
  | none =>
    cases ht' : r'.thr with
    | none => simpa [ht, hlab] using hc
    | some t' => simp [ht, ht'] at hthr
  | some t =>
    cases ht' : r'.thr with
    | none => simp [ht, ht'] at hthr
    | some t' =>
      simp only [ht, ht'] at hthr
      simp only [ht, Bool.and_eq_true] at hc
      simp only [Bool.and_eq_true, hlab, hsc]
      exact ⟨isBetterThan_mono hthr hc.1, hc.2⟩

theorem isTP_mono {r r' : Res} (h : ThrLooser r r') (ht : isTP r = true) : isTP r' = true := by
  obtain ⟨g, hg, hord, hc⟩ := (isTP_iff r).1 ht
  exact (isTP_iff r').2 ⟨g, h.2.2.1 ▸ hg, hord, isResultCorrect_mono h hg hord hc⟩

theorem gtStatusIs_fn_iff (r : Res) :
    gtStatusIs .FN r = true ↔ ∃ g, r.gt = some g ∧ g.isFP = false ∧ isResultCorrect r = false := by
  unfold gtStatusIs
  cases hg : r.gt with
  | none => simp [getStatus_none r hg]
  | some g =>
    rw [getStatus_some r g hg]
    cases hc : isResultCorrect r <;> cases hf : g.isFP <;> simp [hf]

/-- an FN under the looser threshold was an FN under the tighter one -/
theorem gtStatusIs_fn_anti {r r' : Res} (h : ThrLooser r r') (hf : gtStatusIs .FN r' = true) :
    gtStatusIs .FN r = true := by
  obtain ⟨g, hg, hord, hc⟩ := (gtStatusIs_fn_iff r').1 hf
  have hg0 : r.gt = some g := h.2.2.1 ▸ hg
  refine (gtStatusIs_fn_iff r).2 ⟨g, hg0, hord, ?_⟩
  cases hc0 : isResultCorrect r with
  | false => rfl
  | true => rw [isResultCorrect_mono h hg0 hord hc0] at hc; cases hc

theorem resSurvives_eq {r r' : Res} (h : ThrLooser r r') : resSurvives r' = resSurvives r := by
  unfold resSurvives
  rw [h.2.1, h.2.2.1]

section Lists
variable {rs rs' : List Res}

theorem criticalResults_rel (h : List.Forall₂ ThrLooser rs rs') :
    List.Forall₂ ThrLooser (criticalResults rs) (criticalResults rs') := by
  unfold criticalResults
  induction h with
  | nil => exact .nil
  | @cons a b t t' hab _ ih =>
    simp only [List.filter_cons, resSurvives_eq hab]
    split
    · exact .cons hab ih
    · exact ih

theorem gtsOf_rel (h : List.Forall₂ ThrLooser rs rs') : gtsOf rs' = gtsOf rs := by
  unfold gtsOf
  induction h with
  | nil => rfl
  | @cons a b t t' hab _ ih => simp only [List.filterMap_cons, hab.2.2.1, ih]

/-- TP list: estimate ids under the tighter thresholds are a sub-list of those under the looser ones -/
theorem tp_rel (h : List.Forall₂ ThrLooser rs rs') :
    ((rs.filter isTP).map (·.est)).Sublist ((rs'.filter isTP).map (·.est)) := by
  induction h with
  | nil => exact List.Sublist.refl _
  | @cons a b t t' hab _ ih =>
    simp only [List.filter_cons]
    cases ha : isTP a with
    | true =>
      simp only [isTP_mono hab ha, if_true, List.map_cons, hab.1]
      exact List.Sublist.cons_cons _ ih
    | false =>
      cases hb : isTP b with
      | true =>
        simp only [Bool.false_eq_true, if_false, if_true, List.map_cons]
        exact List.Sublist.cons _ ih
      | false => simpa using ih

/-- FN ground truths attached to results: under the looser thresholds a sub-list of those under the tighter ones -/
theorem fn_rel (h : List.Forall₂ ThrLooser rs rs') :
    (gtsOf (rs'.filter (gtStatusIs .FN))).Sublist (gtsOf (rs.filter (gtStatusIs .FN))) := by
  unfold gtsOf
  induction h with
  | nil => exact List.Sublist.refl _
  | @cons a b t t' hab _ ih =>
    simp only [List.filter_cons]
    cases hb : gtStatusIs .FN b with
    | true =>
      obtain ⟨g, hg, _, _⟩ := (gtStatusIs_fn_iff b).1 hb
      have hga : a.gt = some g := hab.2.2.1 ▸ hg
      simp only [gtStatusIs_fn_anti hab hb, if_true, List.filterMap_cons, hg, hga]
      exact List.Sublist.cons_cons _ ih
    | false =>
      cases ha : gtStatusIs .FN a with
      | true =>
        simp only [Bool.false_eq_true, if_false, if_true, List.filterMap_cons]
        cases a.gt with
        | none => exact ih
        | some g => exact List.Sublist.cons _ ih
      | false => simpa using ih

/-- `PassFailResult.evaluate` on the same results under looser thresholds: TP (estimate ids) only grows, FN only shrinks -/
theorem evaluate_mono (gts : List GT) (h : List.Forall₂ ThrLooser rs rs') :
    ((evaluate rs gts).tp.map (·.est)).Sublist ((evaluate rs' gts).tp.map (·.est))
      ∧ (evaluate rs' gts).fn.Sublist (evaluate rs gts).fn := by
  unfold evaluate
  simp only [getPositive_fst, getNegative_eq, gtsOf_rel h]
  exact ⟨tp_rel h, List.Sublist.append (fn_rel h) (List.Sublist.refl _)⟩

end Lists

end PEval.PassFail

namespace PEval.Pipeline
open PEval

/-- the frame with another pass/fail threshold list (everything else untouched) -/
def withPfThrs (f : Frame) (th' : List Rat) : Frame := { f with pfThrs := some th' }

theorem looser_plane_of_le {th th' : List Rat} (h : List.Forall₂ (· ≤ ·) th th') :
    List.Forall₂ (AP.looser .planeDistance) th th' := by
  induction h with
  | nil => exact .nil
  | cons hab _ ih => exact .cons (by simpa [AP.looser, AP.Mode.isDistance] using hab) ih

theorem pfThr_rel (f : Frame) {th th' : List Rat} (hf : f.pfThrs = some th)
    (hth : List.Forall₂ (· ≤ ·) th th') (j : Nat) :
    match pfThr f j, pfThr (withPfThrs f th') j with
    | none, none => True
    | some t, some t' => t ≤ t'
    | _, _ => False := by
  unfold pfThr pfThrOf
  show (match (match AP.getLabelThreshold (f.gt j).label f.pfTargets f.pfThrs with
      | .ok t => t | .error _ => none),
    (match AP.getLabelThreshold (f.gt j).label f.pfTargets (some th') with
      | .ok t => t | .error _ => none) with
    | none, none => True
    | some t, some t' => t ≤ t'
    | _, _ => False)
  rw [hf]
  rcases AP.getLabelThreshold_rel (m := .planeDistance) (f.gt j).label f.pfTargets (looser_plane_of_le hth)
    with ⟨e, he, he'⟩ | ⟨o, o', ho, ho', hoo⟩
  · simp [he, he']
  · rw [ho, ho']
    cases o <;> cases o' <;> simp_all [AP.optLooser, AP.looser, AP.Mode.isDistance]

theorem toPFRes_thrLooser (f : Frame) {th th' : List Rat} (hf : f.pfThrs = some th)
    (hth : List.Forall₂ (· ≤ ·) th th') (r : Matching.Res) :
    PassFail.ThrLooser (toPFRes f r) (toPFRes (withPfThrs f th') r) := by
  obtain ⟨i, o⟩ := r
  cases o with
  | none => exact ⟨rfl, rfl, rfl, rfl, rfl, trivial⟩
  | some j => exact ⟨rfl, rfl, rfl, rfl, rfl, pfThr_rel f hf hth j⟩

theorem map_toPFRes_rel (f : Frame) {th th' : List Rat} (hf : f.pfThrs = some th)
    (hth : List.Forall₂ (· ≤ ·) th th') (rs : List Matching.Res) :
    List.Forall₂ PassFail.ThrLooser (rs.map (toPFRes f)) (rs.map (toPFRes (withPfThrs f th'))) := by
  induction rs with
  | nil => exact .nil
  | cons r t ih => exact .cons (toPFRes_thrLooser f hf hth r) ih

end PEval.Pipeline
