import PEval.Lemmas.GeometryPlane
/-!
Helper lemmas for C06, clipper part (extension): the exact Sutherland–Hodgman reference clipper
`clipConvex` / `interArea` commutes with rigid motions, returns a subject lying inside the clip polygon
unchanged (nested boxes), gives `I(P,P) = A(P)` for every rotated box; the two GT corners selected
by the plane distance are always adjacent corners (a side of the box).
-/
namespace PEval.Geometry


/-! ## the exact clipper commutes with rigid motions -/

theorem isect_motion (m : Motion) (p q : V2) (dp dq : Rat) :
    isect (m.apply2 p) (m.apply2 q) dp dq = m.apply2 (isect p q dp dq) := by
  simp only [isect, Motion.apply2, Rot2.apply, V2.add, V2.mk.injEq]
  constructor <;> ring

/-- lifting of a motion to the state of the clipping loop -/
def Motion.applySt (m : Motion) (st : V2 × List V2) : V2 × List V2 := (m.apply2 st.1, st.2.map m.apply2)

theorem clipStep_motion {m : Motion} (h : m.rot.IsUnit) (a b : V2) (st : V2 × List V2) (cur : V2) :
    clipStep (m.apply2 a) (m.apply2 b) (m.applySt st) (m.apply2 cur) = m.applySt (clipStep a b st cur) := by
  unfold clipStep
  simp only [Motion.applySt, cross_motion h]
  split
  · split <;> simp [isect_motion]
  · split <;> simp [isect_motion]

theorem foldl_clipStep_motion {m : Motion} (h : m.rot.IsUnit) (a b : V2) (poly : List V2) (st : V2 × List V2) :
    (poly.map m.apply2).foldl (clipStep (m.apply2 a) (m.apply2 b)) (m.applySt st)
      = m.applySt (poly.foldl (clipStep a b) st) := by
  induction poly generalizing st with
  | nil => rfl
  | cons p ps ih =>
    simp only [List.map_cons, List.foldl_cons]
    rw [clipStep_motion h, ih]

theorem clipEdge_motion {m : Motion} (h : m.rot.IsUnit) (a b : V2) (poly : List V2) :
    clipEdge (m.apply2 a) (m.apply2 b) (poly.map m.apply2) = (clipEdge a b poly).map m.apply2 := by
  unfold clipEdge
  rw [List.getLast?_map]
  cases hl : poly.getLast? with
  | none => simp
  | some last =>
    simp only [Option.map_some]
    have := foldl_clipStep_motion h a b poly (last, [])
    simp only [Motion.applySt, List.map_nil] at this
    rw [this]
    simp [List.map_reverse]

theorem fan2_motion {m : Motion} (h : m.rot.IsUnit) (p0 : V2) (ps : List V2) :
    fan2 (m.apply2 p0) (ps.map m.apply2) = fan2 p0 ps := by
  induction ps with
  | nil => rfl
  | cons p rest ih =>
    cases rest with
    | nil => rfl
    | cons q rest =>
      simp only [List.map_cons, fan2] at ih ⊢
      rw [cross_motion h, ih]

theorem signed2_motion {m : Motion} (h : m.rot.IsUnit) (ps : List V2) :
    signed2 (ps.map m.apply2) = signed2 ps := by
  cases ps with
  | nil => rfl
  | cons p0 rest => simp only [List.map_cons, signed2]; exact fan2_motion h p0 rest

theorem polyArea_motion {m : Motion} (h : m.rot.IsUnit) (ps : List V2) :
    polyArea (ps.map m.apply2) = polyArea ps := by
  unfold polyArea; rw [signed2_motion h]

theorem ccw_motion {m : Motion} (h : m.rot.IsUnit) (ps : List V2) :
    ccw (ps.map m.apply2) = (ccw ps).map m.apply2 := by
  unfold ccw; rw [signed2_motion h]; split <;> simp [List.map_reverse]

theorem edges_motion (m : Motion) (ps : List V2) :
    edges (ps.map m.apply2) = (edges ps).map (fun e => (m.apply2 e.1, m.apply2 e.2)) := by
  cases ps with
  | nil => rfl
  | cons p0 rest =>
    simp only [edges, List.map_cons]
    have : List.map m.apply2 rest ++ [m.apply2 p0] = (rest ++ [p0]).map m.apply2 := by simp
    rw [this, ← List.map_cons, List.zip_map]
    apply List.map_congr_left
    intro e _; rfl

theorem clipConvex_motion {m : Motion} (h : m.rot.IsUnit) (subject clip : List V2) :
    clipConvex (subject.map m.apply2) (clip.map m.apply2) = (clipConvex subject clip).map m.apply2 := by
  unfold clipConvex
  rw [ccw_motion h, edges_motion, List.foldl_map]
  generalize edges (ccw clip) = es
  induction es generalizing subject with
  | nil => rfl
  | cons e es ih =>
    simp only [List.foldl_cons]
    rw [clipEdge_motion h, ih]

/-- the exact intersection area is invariant under a common rigid motion of both polygons -/
theorem interArea_motion {m : Motion} (h : m.rot.IsUnit) (p q : List V2) :
    interArea (p.map m.apply2) (q.map m.apply2) = interArea p q := by
  unfold interArea
  rw [signed2_motion h, signed2_motion h, clipConvex_motion h, polyArea_motion h]

theorem interArea_nonneg (p q : List V2) : 0 ≤ interArea p q := by
  unfold interArea polyArea
  split
  · exact le_refl _
  · exact div_nonneg (rabs_nonneg _) (by norm_num)



/-! ## a subject lying inside the clip polygon is returned unchanged -/

theorem foldl_clipStep_inside (a b : V2) (poly : List V2) (prev : V2) (out : List V2)
    (hprev : 0 ≤ cross a b prev) (hall : ∀ p ∈ poly, 0 ≤ cross a b p) :
    (poly.foldl (clipStep a b) (prev, out)).2 = poly.reverse ++ out := by
  induction poly generalizing prev out with
  | nil => rfl
  | cons p ps ih =>
    have hp : 0 ≤ cross a b p := hall p (by simp)
    have hstep : clipStep a b (prev, out) p = (p, p :: out) := by
      unfold clipStep
      simp only [if_pos hp, if_neg (not_lt.2 hprev)]
    simp only [List.foldl_cons, hstep]
    rw [ih p (p :: out) hp (fun q hq => hall q (by simp [hq]))]
    simp

theorem clipEdge_inside (a b : V2) (poly : List V2) (hall : ∀ p ∈ poly, 0 ≤ cross a b p) :
    clipEdge a b poly = poly := by
  unfold clipEdge
  cases hl : poly.getLast? with
  | none => simpa using hl
  | some last =>
    have hmem : last ∈ poly := List.mem_of_getLast? hl
    simp only [foldl_clipStep_inside a b poly last [] (hall last hmem) hall]
    simp

/-- `subject` lies in every closed half-plane of the (counter-clockwise) clip polygon -/
def InsideOf (subject clip : List V2) : Prop :=
  ∀ e ∈ edges (ccw clip), ∀ p ∈ subject, 0 ≤ cross e.1 e.2 p

theorem clipConvex_inside (subject clip : List V2) (h : InsideOf subject clip) :
    clipConvex subject clip = subject := by
  unfold clipConvex
  unfold InsideOf at h
  generalize edges (ccw clip) = es at h
  induction es with
  | nil => rfl
  | cons e es ih =>
    simp only [List.foldl_cons]
    rw [clipEdge_inside e.1 e.2 subject (h e (by simp))]
    exact ih (fun e' he' => h e' (by simp [he']))

/-- nested polygons: the exact intersection area is the area of the inner one -/
theorem interArea_inside (subject clip : List V2) (h : InsideOf subject clip)
    (hs : signed2 subject ≠ 0) (hc : signed2 clip ≠ 0) : interArea subject clip = polyArea subject := by
  unfold interArea
  rw [if_neg (by simp [hs, hc]), clipConvex_inside subject clip h]

/-! ## identical boxes: `I(P, P) = A(P)` for the exact clipper -/

theorem localCorners_inside_self {b : Box} (hw : 0 < b.w) (hl : 0 < b.l) :
    InsideOf (localCorners b) (localCorners b) := by
  have hs : ¬ signed2 (localCorners b) < 0 := by
    rw [signed2_localCorners]; have := mul_pos hw hl; linarith
  unfold InsideOf ccw
  rw [if_neg hs]
  have hwl := mul_pos hw hl
  simp only [localCorners, edges, List.cons_append, List.nil_append, List.zip_cons_cons, List.zip_nil_right,
    List.mem_cons, List.not_mem_nil, or_false, forall_eq_or_imp, forall_eq, cross]
  refine ⟨⟨?_, ?_, ?_, ?_⟩, ⟨?_, ?_, ?_, ?_⟩, ⟨?_, ?_, ?_, ?_⟩, ⟨?_, ?_, ?_, ?_⟩⟩ <;> nlinarith

theorem footprint_eq_map_local (b : Box) :
    footprint b = (localCorners b).map (Motion.apply2 ⟨b.rot, ⟨b.center.x, b.center.y, 0⟩⟩) := rfl



theorem argsort4 (k0 k1 k2 k3 : Rat) :
    argsort [k0, k1, k2, k3] =
      insertBy (fun k => [k0, k1, k2, k3].getD k 0) 3
        (insertBy (fun k => [k0, k1, k2, k3].getD k 0) 2
          (insertBy (fun k => [k0, k1, k2, k3].getD k 0) 1 [0])) := by
  simp [argsort, List.range_succ, insertBy]

theorem insertBy_ite (key : Nat → Rat) (i : Nat) (c : Prop) [Decidable c] (l1 l2 : List Nat) :
    insertBy key i (if c then l1 else l2) = if c then insertBy key i l1 else insertBy key i l2 := by
  split <;> rfl

/-- the first two entries of a 4-key argsort, as a decision tree -/
def firstTwo (l : List Nat) : Nat × Nat := (l.getD 0 0, l.getD 1 0)

theorem firstTwo_ite (c : Prop) [Decidable c] (l1 l2 : List Nat) :
    firstTwo (if c then l1 else l2) = if c then firstTwo l1 else firstTwo l2 := by
  split <;> rfl

theorem nearestTwo_adjacent (k0 k1 k2 k3 : Rat) (h : k0 + k2 = k1 + k3) :
    firstTwo (argsort [k0, k1, k2, k3]) ∈
      [(0, 1), (1, 0), (1, 2), (2, 1), (2, 3), (3, 2), (3, 0), (0, 3)] := by
  rw [argsort4]
  simp only [insertBy, insertBy_ite, firstTwo_ite, List.getD_cons_zero, List.getD_cons_succ]
  simp only [firstTwo, List.getD_cons_zero, List.getD_cons_succ]
  split_ifs <;> first | (simp; done) | (exfalso; linarith)


/-! ## identical rotated boxes, nested boxes -/

theorem signed2_footprint {b : Box} (hr : b.rot.IsUnit) : signed2 (footprint b) = 2 * (b.w * b.l) := by
  rw [footprint_eq_map_local, signed2_motion (m := ⟨b.rot, ⟨b.center.x, b.center.y, 0⟩⟩) hr, signed2_localCorners]

theorem polyArea_footprint {b : Box} (hr : b.rot.IsUnit) : polyArea (footprint b) = areaBev b := by
  rw [footprint_eq_map_local, polyArea_motion (m := ⟨b.rot, ⟨b.center.x, b.center.y, 0⟩⟩) hr]; rfl

theorem interArea_footprint_self_eq {b : Box} (hb : b.PosSize) (hr : b.rot.IsUnit) :
    interArea (footprint b) (footprint b) = areaBev b := by
  have hne : signed2 (localCorners b) ≠ 0 := by
    rw [signed2_localCorners]; have := mul_pos hb.1 hb.2.1; intro h; linarith
  rw [footprint_eq_map_local, interArea_motion (m := ⟨b.rot, ⟨b.center.x, b.center.y, 0⟩⟩) hr,
    interArea_inside _ _ (localCorners_inside_self hb.1 hb.2.1) hne hne]
  rfl

theorem interArea_footprint_inside {e g : Box} (he : e.PosSize) (hg : g.PosSize) (hre : e.rot.IsUnit)
    (hrg : g.rot.IsUnit) (h : InsideOf (footprint e) (footprint g)) :
    interArea (footprint e) (footprint g) = areaBev e := by
  have h1 : signed2 (footprint e) ≠ 0 := by
    rw [signed2_footprint hre]; have := mul_pos he.1 he.2.1; intro h; linarith
  have h2 : signed2 (footprint g) ≠ 0 := by
    rw [signed2_footprint hrg]; have := mul_pos hg.1 hg.2.1; intro h; linarith
  rw [interArea_inside _ _ h h1 h2, polyArea_footprint hre]

/-- British flag theorem for the footprint: opposite corners have equal sums of squared distances from
any point (here: the ego origin) -/
theorem footprint_british_flag (b : Box) :
    ((footprint b).getD 0 V2.zero).norm2 + ((footprint b).getD 2 V2.zero).norm2
      = ((footprint b).getD 1 V2.zero).norm2 + ((footprint b).getD 3 V2.zero).norm2 := by
  simp only [footprint, localCorners, List.map_cons, List.map_nil, List.getD_cons_zero, List.getD_cons_succ,
    V2.norm2, V2.add, Rot2.apply, Box.center2]
  ring

theorem nearestTwo_footprint_adjacent (b : Box) :
    nearestTwo (footprint b) ∈ [(0, 1), (1, 0), (1, 2), (2, 1), (2, 3), (3, 2), (3, 0), (0, 3)] := by
  have h := footprint_british_flag b
  have e : footprint b = [(footprint b).getD 0 V2.zero, (footprint b).getD 1 V2.zero,
      (footprint b).getD 2 V2.zero, (footprint b).getD 3 V2.zero] := by
    simp [footprint, localCorners]
  have := nearestTwo_adjacent _ _ _ _ h
  unfold nearestTwo
  rw [e]
  simpa [firstTwo] using this

end PEval.Geometry
