import PEval.Lemmas.ClassificationMax
import Mathlib.Algebra.Order.Field.Basic
import Mathlib.Algebra.Order.Ring.Rat
import Mathlib.Tactic.Linarith
/-!
Counting definitions, ranges and the all-correct case of `ClassificationAccuracy` and `_summarize`.
-/
namespace PEval.Classification

/-- a defined (finite) score lies in [0,1]; `inf` / `nan` are "undefined" -/
def Score.inUnit : Score → Prop
  | .val r => 0 ≤ r ∧ r ≤ 1
  | _ => True

theorem ratio_inUnit {a b : Nat} (h : a ≤ b) : (ratio a b).inUnit := by
  unfold ratio
  split
  · trivial
  · rename_i hb
    have hb' : (0 : Rat) < (b : Rat) := by exact_mod_cast Nat.pos_of_ne_zero hb
    have ha : (0 : Rat) ≤ (a : Rat) := by exact_mod_cast Nat.zero_le a
    have hab : (a : Rat) ≤ (b : Rat) := by exact_mod_cast h
    exact ⟨div_nonneg ha hb'.le, (div_le_one hb').2 hab⟩

theorem f1_val_inUnit {p r : Rat} (hp : 0 ≤ p ∧ p ≤ 1) (hr : 0 ≤ r ∧ r ≤ 1) (h : p + r ≠ 0) :
    0 ≤ 2 * p * r / (p + r) ∧ 2 * p * r / (p + r) ≤ 1 := by
  have hpos : 0 < p + r := lt_of_le_of_ne (by linarith [hp.1, hr.1]) (Ne.symm h)
  refine ⟨div_nonneg (by nlinarith [mul_nonneg hp.1 hr.1]) hpos.le, (div_le_one hpos).2 ?_⟩
  nlinarith [mul_le_mul_of_nonneg_left hr.2 hp.1, mul_le_mul_of_nonneg_right hp.2 hr.1]

theorem f1Acc_inUnit {p r : Score} (hp : p.inUnit) (hr : r.inUnit) : (f1Acc p r).inUnit := by
  cases p <;> cases r <;> simp only [f1Acc] <;> try trivial
  split
  · trivial
  · rename_i h; exact f1_val_inUnit hp hr h

theorem f1Sum_inUnit {p r : Score} (hp : p.inUnit) (hr : r.inUnit) : (f1Sum p r).inUnit := by
  cases p <;> cases r <;> simp only [f1Sum] <;> try trivial
  split
  · trivial
  · rename_i h; exact f1_val_inUnit hp hr h

theorem countTp_le_length (rs : List Res) : countTp rs ≤ rs.length := List.countP_le_length

theorem ratio_self {n : Nat} (h : 0 < n) : ratio n n = .val 1 := by
  unfold ratio
  have hn : n ≠ 0 := Nat.pos_iff_ne_zero.1 h
  have : ((n : Nat) : Rat) ≠ 0 := by exact_mod_cast hn
  simp [hn]

theorem f1_one : f1Acc (.val 1) (.val 1) = .val 1 ∧ f1Sum (.val 1) (.val 1) = .val 1 := by
  constructor <;> simp only [f1Acc, f1Sum] <;> norm_num

/-! ## `ClassificationAccuracy` -/

theorem accuracy_inUnit {rs : List Res} {n : Nat} (h : countTp rs ≤ n) :
    (accuracy rs n).accuracy.inUnit ∧ (accuracy rs n).precision.inUnit ∧ (accuracy rs n).recall.inUnit ∧
      (accuracy rs n).f1.inUnit := by
  have hl := countTp_le_length rs
  have hp : (ratio (countTp rs) rs.length).inUnit := ratio_inUnit hl
  have hr : (ratio (countTp rs) n).inUnit := ratio_inUnit h
  exact ⟨ratio_inUnit (by omega), hp, hr, f1Acc_inUnit hp hr⟩

theorem countTp_all {rs : List Res} (h : ∀ r ∈ rs, labelCorrect r = true) : countTp rs = rs.length := by
  unfold countTp
  rw [List.countP_eq_length]
  exact h

theorem accuracy_all_one {rs : List Res} {n : Nat} (hall : ∀ r ∈ rs, labelCorrect r = true)
    (hlen : rs.length = n) (hpos : 0 < n) :
    accuracy rs n = { numGT := n, num := n, tp := n, fp := 0, accuracy := .val 1, precision := .val 1,
                      recall := .val 1, f1 := .val 1 } := by
  have htp : countTp rs = n := (countTp_all hall).trans hlen
  simp only [accuracy, htp, hlen, ratio_self hpos, f1_one.1, Nat.sub_self, Nat.add_sub_cancel]

/-- label-correct results carry distinct ground truths: their number is bounded by the pairs -/
theorem countTp_results (ps : List (Obj × Obj)) (tail : List Obj) :
    countTp (paired ps ++ fpResults tail) ≤ ps.length := by
  unfold countTp
  rw [List.countP_append]
  have h1 : (paired ps).countP labelCorrect ≤ ps.length := by
    have := List.countP_le_length (p := labelCorrect) (l := paired ps)
    simpa [paired] using this
  have h2 : (fpResults tail).countP labelCorrect = 0 := by
    rw [List.countP_eq_zero]
    intro r hr
    simp only [fpResults, List.mem_map] at hr
    obtain ⟨e, _, rfl⟩ := hr
    simp [labelCorrect]
  omega

theorem Shape.tp_le {ests gts : List Obj} {rs : List Res} {ps : List (Obj × Obj)} {left gleft tail : List Obj}
    (S : Shape ests gts rs ps left gleft tail) : countTp rs ≤ gts.length := by
  have h := S.gs.length_eq
  simp only [List.length_append, List.length_map] at h
  have := countTp_results ps tail
  rw [← S.eq] at this
  omega

/-! ## `_summarize` -/

/-- the per-label accuracies a `ClassificationMetricsScore` holds: one `(frames, num_gt)` per target label -/
def bucketAccs (bs : List (List (List Res) × Nat)) : List Acc := bs.map fun b => accuracyNested b.1 b.2

theorem sums_buckets (bs : List (List (List Res) × Nat)) :
    ((bucketAccs bs).map (·.tp)).sum ≤ ((bucketAccs bs).map (·.num)).sum ∧
    ((bucketAccs bs).map (·.tp)).sum + ((bucketAccs bs).map (·.fp)).sum = ((bucketAccs bs).map (·.num)).sum ∧
    ((∀ b ∈ bs, countTp b.1.flatten ≤ b.2) →
      ((bucketAccs bs).map (·.tp)).sum ≤ ((bucketAccs bs).map (·.numGT)).sum) := by
  induction bs with
  | nil => simp [bucketAccs]
  | cons b t ih =>
    have hl := countTp_le_length b.1.flatten
    simp only [bucketAccs, List.map_cons, List.sum_cons, accuracyNested, accuracy] at *
    refine ⟨by omega, by omega, ?_⟩
    intro h
    have h1 := h b List.mem_cons_self
    have h2 := ih.2.2 (fun b' hb' => h b' (List.mem_cons_of_mem _ hb'))
    omega

theorem summarize_inUnit_of {bs : List (List (List Res) × Nat)} (h : ∀ b ∈ bs, countTp b.1.flatten ≤ b.2) :
    (summarize (bucketAccs bs)).1.inUnit ∧ (summarize (bucketAccs bs)).2.1.inUnit ∧
    (summarize (bucketAccs bs)).2.2.1.inUnit ∧ (summarize (bucketAccs bs)).2.2.2.inUnit := by
  obtain ⟨h1, h2, h3⟩ := sums_buckets bs
  have h3 := h3 h
  simp only [summarize]
  have hp : (ratio ((bucketAccs bs).map (·.tp)).sum
      (((bucketAccs bs).map (·.tp)).sum + ((bucketAccs bs).map (·.fp)).sum)).inUnit := ratio_inUnit (by omega)
  have hr : (ratio ((bucketAccs bs).map (·.tp)).sum ((bucketAccs bs).map (·.numGT)).sum).inUnit := ratio_inUnit h3
  exact ⟨ratio_inUnit (by omega), hp, hr, f1Sum_inUnit hp hr⟩

theorem sums_all_one {bs : List (List (List Res) × Nat)}
    (hall : ∀ b ∈ bs, (∀ r ∈ b.1.flatten, labelCorrect r = true) ∧ b.1.flatten.length = b.2) :
    ((bucketAccs bs).map (·.tp)).sum = ((bucketAccs bs).map (·.numGT)).sum ∧
    ((bucketAccs bs).map (·.num)).sum = ((bucketAccs bs).map (·.numGT)).sum ∧
    ((bucketAccs bs).map (·.fp)).sum = 0 := by
  induction bs with
  | nil => simp [bucketAccs]
  | cons b t ih =>
    have hb := hall b List.mem_cons_self
    have ht := ih (fun b' hb' => hall b' (List.mem_cons_of_mem _ hb'))
    have htp : countTp b.1.flatten = b.2 := (countTp_all hb.1).trans hb.2
    simp only [bucketAccs, List.map_cons, List.sum_cons, accuracyNested, accuracy] at *
    rw [htp, hb.2]
    omega

end PEval.Classification
