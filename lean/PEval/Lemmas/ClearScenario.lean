import PEval.Lemmas.ClearRename
/-!
Helper lemmas for C05, part 4: the scenario families (perfect tracker; track identities exchanged or
replaced from some frame on).
-/

namespace PEval.Clear

open Function

theorem labelThreshold_mem {cfg : Cfg} {l : Nat} {t : Rat} (h : labelThreshold cfg l = some t) :
    ∃ lt ∈ cfg.thresholds, lt.2 = t := by
  unfold labelThreshold at h
  cases hf : cfg.thresholds.find? (fun p => p.1 == l) with
  | none => simp [hf] at h
  | some p =>
    simp only [hf, Option.some.injEq] at h
    exact ⟨p, List.mem_of_find?_eq_some hf, h⟩

/-! ### the two decisive situations of the scan -/

theorem outcome_no_conflict (cfg : Cfg) (prev : List Res) (c : Res) (t : Rat)
    (ht : labelThreshold cfg (keyLabel c) = some t) (hc : isTp cfg t c = true)
    (hno : ∀ p ∈ prev, isTp cfg t p = true → conflict c p = false) :
    (∃ p, outcome cfg prev c = .carried p) ∨ outcome cfg prev c = .tp false := by
  unfold outcome
  simp only [ht]
  cases hs : scan cfg t c prev with
  | nothing => right; simp [hc]
  | same p => left; exact ⟨p, rfl⟩
  | switched =>
    exfalso
    obtain ⟨pre, p, post, he, hp, hsw, _⟩ := (scan_switched_iff cfg t c prev).mp hs
    have hmem : p ∈ prev := by rw [he]; simp
    have := hno p hmem hp
    rw [isIdSwitched_eq_conflict] at hsw
    rw [this] at hsw; cases hsw

theorem outcome_conflict (cfg : Cfg) (prev : List Res) (c : Res) (t : Rat)
    (ht : labelThreshold cfg (keyLabel c) = some t) (hc : isTp cfg t c = true)
    (hns : ∀ p ∈ prev, isTp cfg t p = true → samePair c p = false)
    (hex : ∃ p ∈ prev, isTp cfg t p = true ∧ conflict c p = true) :
    outcome cfg prev c = .tp true := by
  unfold outcome
  simp only [ht]
  cases hs : scan cfg t c prev with
  | nothing =>
    exfalso
    obtain ⟨p, hp, htp, hcf⟩ := hex
    have := ((scan_nothing_iff cfg t c prev).mp hs p hp htp).1
    rw [isIdSwitched_eq_conflict, hcf] at this; cases this
  | same q =>
    exfalso
    obtain ⟨hq, htq, hsm⟩ := scan_same cfg t c prev q hs
    rw [isSameMatch_eq_samePair, hns q hq htq] at hsm; cases hsm
  | switched => simp [hc]

/-! ### consequences for a perfectly tracked current result -/

theorem good_threshold {cfg : Cfg} {c : Res} (h : Good cfg c) :
    ∃ t, labelThreshold cfg (keyLabel c) = some t := by
  have := h.2.1
  unfold evaluated at this
  exact Option.isSome_iff_exists.mp this

theorem good_tp {cfg : Cfg} {r : Res} (h : Good cfg r) {l : Nat} {t : Rat}
    (ht : labelThreshold cfg l = some t) : isTp cfg t r = true := by
  obtain ⟨lt, hm, rfl⟩ := labelThreshold_mem ht
  exact h.2.2.1 lt hm

theorem conflict_eq (c p : Res) (h : sameEst c p = sameGt c p) : conflict c p = false := by
  unfold conflict; rw [h]; simp

/-- a good result whose pairing is consistent with the whole previous frame: counted TP, no switch, no FP -/
theorem good_consistent_counts (cfg : Cfg) (prev : List Res) (c : Res) (hc : Good cfg c)
    (hcons : ∀ p ∈ prev, sameEst c p = sameGt c p) :
    countsTp cfg prev c = true ∧ countsSwitch cfg prev c = false ∧ countsFp cfg prev c = false := by
  obtain ⟨t, ht⟩ := good_threshold hc
  have h := outcome_no_conflict cfg prev c t ht (good_tp hc ht) (fun p hp _ => conflict_eq c p (hcons p hp))
  unfold countsTp countsSwitch countsFp
  rcases h with ⟨p, h⟩ | h <;> simp [h]

/-- a good result that conflicts with a good result of the previous frame and has the pairing of none:
counted TP with a switch -/
theorem good_conflict_counts (cfg : Cfg) (prev : List Res) (c : Res) (hc : Good cfg c)
    (hprev : ∀ p ∈ prev, Good cfg p)
    (hns : ∀ p ∈ prev, samePair c p = false) (hex : ∃ p ∈ prev, conflict c p = true) :
    countsTp cfg prev c = true ∧ countsSwitch cfg prev c = true ∧ countsFp cfg prev c = false := by
  obtain ⟨t, ht⟩ := good_threshold hc
  obtain ⟨p, hp, hcf⟩ := hex
  have h := outcome_conflict cfg prev c t ht (good_tp hc ht) (fun p hp _ => hns p hp)
    ⟨p, hp, good_tp (hprev p hp) ht, hcf⟩
  unfold countsTp countsSwitch countsFp
  simp [h]

/-! ### totals of a list of events all of which are TP -/

theorem total_all_tp (cfg : Cfg) (l : List (List Res × Res)) (hu : UnitEvents l)
    (h : ∀ e ∈ l, countsTp cfg e.1 e.2 = true ∧ countsFp cfg e.1 e.2 = false) :
    (total cfg l).tp = (l.length : Rat) ∧ (total cfg l).fp = 0 := by
  rw [total_tp_unit cfg l hu, total_fp]
  constructor
  · congr 1
    rw [List.countP_eq_length]
    intro e he; exact (h e he).1
  · rw [List.countP_eq_zero]
    intro e he; simp [(h e he).2]

theorem total_no_switch (cfg : Cfg) (l : List (List Res × Res))
    (h : ∀ e ∈ l, countsSwitch cfg e.1 e.2 = false) : (total cfg l).sw = 0 := by
  rw [total_sw, List.countP_eq_zero]
  intro e he; simp [h e he]

/-! ### perfect histories -/

theorem Perfect.unit {cfg : Cfg} {hist : List (List Res)} (h : Perfect cfg hist) : UnitWeights hist :=
  fun f hf r hr => (h.good f hf r hr).2.2.2

theorem perfect_events (cfg : Cfg) (hist : List (List Res)) (hP : Perfect cfg hist) :
    ∀ e ∈ events hist, countsTp cfg e.1 e.2 = true ∧ countsSwitch cfg e.1 e.2 = false ∧ countsFp cfg e.1 e.2 = false := by
  intro e he
  obtain ⟨h1, f, hf, h2⟩ := events_mem he
  exact good_consistent_counts cfg e.1 e.2 (hP.good f hf _ h2) (fun p hp => hP.consistent f hf _ h2 _ h1 p hp)

theorem perfect_totals (cfg : Cfg) (hist : List (List Res)) (hP : Perfect cfg hist) :
    (clear cfg hist).tp = (resultCount hist : Rat) ∧ (clear cfg hist).fp = 0 ∧ (clear cfg hist).sw = 0 := by
  rw [clear_eq_total]
  have hev := perfect_events cfg hist hP
  have h1 := total_all_tp cfg (events hist) (unitEvents_of_unitWeights hP.unit) (fun e he => ⟨(hev e he).1, (hev e he).2.2⟩)
  rw [events_length] at h1
  exact ⟨h1.1, h1.2, total_no_switch cfg _ (fun e he => (hev e he).2.1)⟩

theorem Perfect.sublist {cfg : Cfg} {hist hist' : List (List Res)} (h : Perfect cfg hist)
    (hsub : ∀ f ∈ hist', f ∈ hist) : Perfect cfg hist' :=
  ⟨fun f hf => h.good f (hsub f hf), fun f hf r hr f' hf' => h.consistent f (hsub f hf) r hr f' (hsub f' hf')⟩

/-! ### decomposition of the events at a frame boundary -/

theorem events_cons_cons (p c : List Res) (rest : List (List Res)) :
    events (p :: c :: rest) = c.map (fun x => (p, x)) ++ events (c :: rest) := rfl

theorem events_split (pre : List (List Res)) (p c : List Res) (rest : List (List Res)) :
    events (pre ++ p :: c :: rest) = events (pre ++ [p]) ++ (c.map (fun x => (p, x)) ++ events (c :: rest)) := by
  induction pre with
  | nil => simp [events]
  | cons x pre ih =>
    cases pre with
    | nil =>
      simp only [List.cons_append, List.nil_append, events_cons_cons, List.append_assoc]
      simp [events]
    | cons y pre =>
      simp only [List.cons_append] at ih ⊢
      rw [events_cons_cons, events_cons_cons, ih, List.append_assoc]

theorem resultCount_split (pre : List (List Res)) (p c : List Res) (rest : List (List Res)) :
    resultCount (pre ++ p :: c :: rest) = resultCount (pre ++ [p]) + (c.length + resultCount (c :: rest)) := by
  rw [← events_length, ← events_length, ← events_length, events_split]
  simp

/-! ### renaming of estimate ids only -/

theorem gt_rename_id (x : Gt) : Gt.rename id x = x := rfl

theorem rename_id_gt (ρ : Nat → Nat) (r : Res) : (r.rename ρ id).gt = r.gt := by
  simp only [rename_gt]
  cases r.gt <;> rfl

theorem good_rename (cfg : Cfg) (ρ : Nat → Nat) (r : Res) (h : Good cfg r) : Good cfg (r.rename ρ id) := by
  obtain ⟨h1, h2, h3, h4⟩ := h
  refine ⟨by rw [rename_id_gt]; exact h1, by simpa using h2, fun lt hlt => by simpa using h3 lt hlt, by simpa using h4⟩

theorem sameGt_rename_left (ρ : Nat → Nat) (c p : Res) : sameGt (c.rename ρ id) p = sameGt c p := by
  unfold sameGt; rw [rename_id_gt]

theorem bothGt_rename_left (ρ : Nat → Nat) (c p : Res) : bothGt (c.rename ρ id) p = bothGt c p := by
  unfold bothGt; rw [rename_id_gt]

theorem sameGt_bothGt {c p : Res} (h : sameGt c p = true) : bothGt c p = true := by
  unfold sameGt at h; unfold bothGt
  cases hc : c.gt <;> cases hp : p.gt <;> simp_all

/-- boundary step: the current frame's estimate ids are renamed by `ρ`, the previous frame's are not -/
theorem boundary_counts (cfg : Cfg) (ρ : Nat → Nat) (prev : List Res) (c : Res) (hc : Good cfg c)
    (hprev : ∀ p ∈ prev, Good cfg p) (hcons : ∀ p ∈ prev, sameEst c p = sameGt c p)
    (hcont : ρ c.est ≠ c.est → ∃ p ∈ prev, sameGt c p = true) :
    countsTp cfg prev (c.rename ρ id) = true ∧ countsFp cfg prev (c.rename ρ id) = false ∧
      countsSwitch cfg prev (c.rename ρ id) = decide (ρ c.est ≠ c.est) := by
  by_cases hρ : ρ c.est = c.est
  · have hsame : ∀ p ∈ prev, sameEst (c.rename ρ id) p = sameGt (c.rename ρ id) p := by
      intro p hp
      rw [sameGt_rename_left, ← hcons p hp]
      unfold sameEst; simp [hρ]
    have := good_consistent_counts cfg prev _ (good_rename cfg ρ c hc) hsame
    simp [this, hρ]
  · obtain ⟨p0, hp0, hg0⟩ := hcont hρ
    have hns : ∀ p ∈ prev, samePair (c.rename ρ id) p = false := by
      intro p hp
      unfold samePair
      cases hse : sameEst (c.rename ρ id) p
      · simp
      · cases hsg : sameGt (c.rename ρ id) p
        · simp
        · exfalso
          rw [sameGt_rename_left, ← hcons p hp] at hsg
          unfold sameEst at hse hsg
          simp only [rename_est, rename_estLabel, Bool.and_eq_true, beq_iff_eq] at hse hsg
          exact hρ (hse.1.trans hsg.1.symm)
    have hex : ∃ p ∈ prev, conflict (c.rename ρ id) p = true := by
      refine ⟨p0, hp0, ?_⟩
      unfold conflict
      rw [bothGt_rename_left, sameGt_rename_left, sameGt_bothGt hg0, hg0]
      have : sameEst (c.rename ρ id) p0 = false := by
        have h1 : sameEst c p0 = true := by rw [hcons p0 hp0]; exact hg0
        unfold sameEst at h1 ⊢
        simp only [Bool.and_eq_true, beq_iff_eq] at h1
        simp only [rename_est, rename_estLabel, Bool.and_eq_false_iff, beq_eq_false_iff_ne]
        left; rw [← h1.1]; exact hρ
      simp [this]
    have := good_conflict_counts cfg prev _ (good_rename cfg ρ c hc) hprev hns hex
    simp [this, hρ]

end PEval.Clear
