import PEval.Model.FrameChange
import PEval.Lemmas.GeometryPlane
/-! Helper lemmas for C07: the inverse law of the ego pose, plane distance with explicit ranking keys. -/
namespace PEval.FrameChange
open PEval.Geometry

/-- map → ego undoes ego → map (unit rotation) -/
theorem toEgo2_apply2 (e : Pose) (h : e.rot.IsUnit) (p : V2) : toEgo2 e (e.motion.apply2 p) = p := by
  unfold Rot2.IsUnit at h
  cases p with
  | mk x y =>
    simp only [toEgo2, Pose.motion, Motion.apply2, Rot2.apply, V2.add]
    congr 1
    · linear_combination x * h
    · linear_combination y * h

/-- ego → map undoes map → ego -/
theorem apply2_toEgo2 (e : Pose) (h : e.rot.IsUnit) (p : V2) : e.motion.apply2 (toEgo2 e p) = p := by
  unfold Rot2.IsUnit at h
  cases p with
  | mk x y =>
    simp only [toEgo2, Pose.motion, Motion.apply2, Rot2.apply, V2.add]
    congr 1
    · linear_combination (x - e.t.x) * h
    · linear_combination (y - e.t.y) * h

theorem planeDist2Of_eq_keys (est gt : List V2) :
    planeDist2Of est gt = planeDist2Keys (gt.map V2.norm2) est gt := rfl

/-- the value does not depend on which of the two selected corners is called left -/
theorem planeDist2Keys_eq (keys : List Rat) (est gt : List V2) :
    planeDist2Keys keys est gt =
      (dist2 (est.getD ((argsort keys).getD 0 0) V2.zero) (gt.getD ((argsort keys).getD 0 0) V2.zero)
        + dist2 (est.getD ((argsort keys).getD 1 0) V2.zero) (gt.getD ((argsort keys).getD 1 0) V2.zero)) / 2 := by
  unfold planeDist2Keys leftRightIndex
  simp only []
  split
  · simp
  · simp [add_comm]

theorem getD_map_lt {f : V2 → V2} (l : List V2) (i : Nat) (hi : i < l.length) (d d' : V2) :
    (l.map f).getD i d' = f (l.getD i d) := by
  simp only [List.getD_eq_getElem?_getD, List.getElem?_map]
  rw [List.getElem?_eq_getElem hi]
  rfl

/-- moving both corner lists by a rigid motion, with ranking keys of full length, leaves the value
unchanged -/
theorem planeDist2Keys_motion {m : Motion} (hm : m.rot.IsUnit) (keys : List Rat) (est gt : List V2)
    (hk : 2 ≤ keys.length) (he : est.length = keys.length) (hg : gt.length = keys.length) :
    planeDist2Keys keys (est.map m.apply2) (gt.map m.apply2) = planeDist2Keys keys est gt := by
  rw [planeDist2Keys_eq, planeDist2Keys_eq]
  obtain ⟨hi, hj, _⟩ := argsort_first_two keys hk
  rw [getD_map_lt est _ (he ▸ hi) V2.zero, getD_map_lt gt _ (hg ▸ hi) V2.zero,
    getD_map_lt est _ (he ▸ hj) V2.zero, getD_map_lt gt _ (hg ▸ hj) V2.zero,
    dist2_motion hm, dist2_motion hm]

end PEval.FrameChange
