import PEval.Model.FrameChange
import PEval.Lemmas.GeometryPlane
/-! Helper lemmas for C07: the inverse law of the ego pose, plane distance with explicit ranking keys. -/
namespace PEval.FrameChange
open PEval.Geometry

/-- map → ego undoes ego → map (unit rotation) -/
theorem toEgo2_apply2 (e : Pose) (h : e.rot.IsUnit) (p : V2) : toEgo2 e (e.motion.apply2 p) = p := by
  unfold Rot2.IsUnit at h
  cases p with
  | mk x y =>
    simp only [toEgo2, Pose.motion, Motion.apply2, Rot2.apply, V2.add]
    congr 1
    · linear_combination x * h
    · linear_combination y * h

/-- ego → map undoes map → ego -/
theorem apply2_toEgo2 (e : Pose) (h : e.rot.IsUnit) (p : V2) : e.motion.apply2 (toEgo2 e p) = p := by
  unfold Rot2.IsUnit at h
  cases p with
  | mk x y =>
    simp only [toEgo2, Pose.motion, Motion.apply2, Rot2.apply, V2.add]
    congr 1
    · linear_combination (x - e.t.x) * h
    · linear_combination (y - e.t.y) * h

theorem planeDist2Of_eq_keys (est gt : List V2) :
    planeDist2Of est gt = planeDist2Keys (gt.map V2.norm2) est gt := rfl

/-- the value does not depend on which of the two selected corners is called left -/
theorem planeDist2Keys_eq (keys : List Rat) (est gt : List V2) :
    planeDist2Keys keys est gt =
      (dist2 (est.getD ((argsort keys).getD 0 0) V2.zero) (gt.getD ((argsort keys).getD 0 0) V2.zero)
        + dist2 (est.getD ((argsort keys).getD 1 0) V2.zero) (gt.getD ((argsort keys).getD 1 0) V2.zero)) / 2 := by
  unfold planeDist2Keys leftRightIndex
  simp only []
  split
  · simp
  · simp [add_comm]

theorem getD_map_lt {f : V2 → V2} (l : List V2) (i : Nat) (hi : i < l.length) (d d' : V2) :
    (l.map f).getD i d' = f (l.getD i d) := by
  simp only [List.getD_eq_getElem?_getD, List.getElem?_map]
  rw [List.getElem?_eq_getElem hi]
  rfl

/-- moving both corner lists by a rigid motion, with ranking keys of full length, leaves the value
unchanged -/
theorem planeDist2Keys_motion {m : Motion} (hm : m.rot.IsUnit) (keys : List Rat) (est gt : List V2)
    (hk : 2 ≤ keys.length) (he : est.length = keys.length) (hg : gt.length = keys.length) :
    planeDist2Keys keys (est.map m.apply2) (gt.map m.apply2) = planeDist2Keys keys est gt := by
  rw [planeDist2Keys_eq, planeDist2Keys_eq]
  obtain ⟨hi, hj, _⟩ := argsort_first_two keys hk
  rw [getD_map_lt est _ (he ▸ hi) V2.zero, getD_map_lt gt _ (hg ▸ hi) V2.zero,
    getD_map_lt est _ (he ▸ hj) V2.zero, getD_map_lt gt _ (hg ▸ hj) V2.zero,
    dist2_motion hm, dist2_motion hm]

/-! ### object identity is frame-free: a rigid motion is injective on positions and on orientations -/

theorem apply2_injective (e : Pose) (h : e.rot.IsUnit) {p q : V2}
    (hpq : e.motion.apply2 p = e.motion.apply2 q) : p = q := by
  have := congrArg (toEgo2 e) hpq
  rwa [toEgo2_apply2 e h, toEgo2_apply2 e h] at this

theorem apply3_injective (e : Pose) (h : e.rot.IsUnit) {p q : V3}
    (hpq : e.motion.apply3 p = e.motion.apply3 q) : p = q := by
  cases p with
  | mk px py pz =>
  cases q with
  | mk qx qy qz =>
    simp only [Motion.apply3, V3.mk.injEq] at hpq
    obtain ⟨hx, hy, hz⟩ := hpq
    have h2 : e.motion.apply2 ⟨px, py⟩ = e.motion.apply2 ⟨qx, qy⟩ := by
      cases hA : e.motion.apply2 ⟨px, py⟩ with
      | mk ax ay =>
      cases hB : e.motion.apply2 ⟨qx, qy⟩ with
      | mk bx b_y =>
        rw [hA, hB] at hx hy
        simp only at hx hy
        rw [hx, hy]
    have := apply2_injective e h h2
    simp only [V2.mk.injEq] at this
    obtain ⟨h1, h2'⟩ := this
    have hz' : pz = qz := by linarith
    rw [h1, h2', hz']

/-- left-multiplying orientations by a unit rotation is injective -/
theorem rot_mul_injective (r : Rot2) (h : r.IsUnit) {a b : Rot2} (hab : r.mul a = r.mul b) : a = b := by
  unfold Rot2.IsUnit at h
  cases a with
  | mk ac as_ =>
  cases b with
  | mk bc bs =>
    simp only [Rot2.mul, Rot2.mk.injEq] at hab
    obtain ⟨h1, h2⟩ := hab
    have hc : ac = bc := by linear_combination (ac - bc) * (-h) + r.c * h1 + r.s * h2
    have hs : as_ = bs := by linear_combination (as_ - bs) * (-h) - r.s * h1 + r.c * h2
    rw [hc, hs]

theorem samePose_iff (a b : Obj) :
    a.samePose b = true ↔ (a.box.center = b.box.center ∧ a.box.rot = b.box.rot) := by
  simp [Obj.samePose]

/-- two objects are equal in the map rendering exactly when they are equal in the ego rendering -/
theorem samePose_toMap' (e : Pose) (h : e.rot.IsUnit) (a b : Obj) :
    (a.toMap e).samePose (b.toMap e) = a.samePose b := by
  rw [Bool.eq_iff_iff, samePose_iff, samePose_iff]
  simp only [Obj.toMap, Box.move]
  constructor
  · rintro ⟨hc, hr⟩
    exact ⟨apply3_injective e h hc, rot_mul_injective e.rot h hr⟩
  · rintro ⟨hc, hr⟩
    rw [hc, hr]
    exact ⟨rfl, rfl⟩

/-! ### 3-D content: heights of objects and ego -/

/-- map → ego undoes ego → map in 3-D, whatever the heights of the object and of the ego -/
theorem toEgo3_apply3 (e : Pose) (h : e.rot.IsUnit) (p : V3) : toEgo3 e (e.motion.apply3 p) = p := by
  cases p with
  | mk x y z =>
    have h2 := toEgo2_apply2 e h ⟨x, y⟩
    unfold toEgo3 Motion.apply3
    simp only
    rw [h2]
    congr 1
    simp only [Pose.motion]
    ring

/-- what the filter reads from the map rendering of a 3-D object is the planar rendering of C10's filter
model applied to what it reads from the ego rendering: neither the object's nor the ego's height is seen -/
theorem filterView_toMap (e : Pose) (t : Tagged) :
    filterViewMap e (t.toMap e) = Filter.renderMap e.planar (filterViewEgo t) := by
  simp only [filterViewMap, filterViewEgo, Filter.renderMap, Tagged.toMap, Obj.toMap, Box.move, Motion.apply3,
    Motion.apply2, Rot2.apply, V2.add, Pose.motion, Pose.planar, toEgo3, toEgo2, Filter.toMap, Filter.toEgo,
    Option.map_some]

end PEval.FrameChange
