import PEval.Model.LookupTable
/-!
Lemmas for the decision tables of C17 (core Lean only):

* soundness of the tree equivalence check `equiv` (for EVERY valuation);
* the reified skeletons evaluate to the skeleton functions (`getNowSkel`, `getInterpSkel`, any `n`);
* the bridge: the existing model functions `getNowFrame` / `getInterpolated` equal the skeletons
  applied to the valuation of the concrete input, for ALL frame lists (any length).
-/
namespace PEval.LookupDT
open PEval PEval.Lookup

/-! ## soundness of `equiv` -/

def Agrees (v : Valuation) (path : List (Atom × Sign)) : Prop := ∀ p ∈ path, v p.1 = p.2

theorem agrees_nil (v : Valuation) : Agrees v [] := by intro p hp; cases hp

theorem agrees_cons {v : Valuation} {path : List (Atom × Sign)} (h : Agrees v path) (a : Atom) :
    Agrees v ((a, v a) :: path) := by
  intro p hp
  rcases List.mem_cons.1 hp with rfl | hp'
  · rfl
  · exact h p hp'

theorem lookupA_agrees {v : Valuation} {path : List (Atom × Sign)} (h : Agrees v path) {a : Atom} {s : Sign}
    (hl : lookupA a path = some s) : v a = s := by
  induction path with
  | nil => cases hl
  | cons p r ih =>
    obtain ⟨b, s'⟩ := p
    unfold lookupA at hl
    split at hl
    · rename_i hab
      cases hl
      have := h (b, s) List.mem_cons_self
      rw [hab]; exact this
    · exact ih (fun p hp => h p (List.mem_cons_of_mem _ hp)) hl

theorem pick_and {s : Sign} {x y z : Bool} (h : (x && y && z) = true) : s.pick x y z = true := by
  simp only [Bool.and_eq_true] at h
  cases s
  · exact h.1.1
  · exact h.1.2
  · exact h.2

theorem checkLeaf_sound (r : Res) (t : DTree) : ∀ (path : List (Atom × Sign)) (v : Valuation),
    Agrees v path → checkLeaf r path t = true → evalTree t v = r := by
  induction t with
  | leaf r' =>
    intro path v _ h
    simp only [checkLeaf, decide_eq_true_eq] at h
    simp [evalTree, h]
  | node a l e g ihl ihe ihg =>
    intro path v hv h
    unfold checkLeaf at h
    unfold evalTree
    split at h
    · rename_i s hs
      have hva := lookupA_agrees hv hs
      rw [hva]
      cases s
      · exact ihl path v hv h
      · exact ihe path v hv h
      · exact ihg path v hv h
    · simp only [Bool.and_eq_true] at h
      have hv' := agrees_cons hv a
      cases hva : v a
      · rw [hva] at hv'; exact ihl _ v hv' h.1.1
      · rw [hva] at hv'; exact ihe _ v hv' h.1.2
      · rw [hva] at hv'; exact ihg _ v hv' h.2

theorem equiv_sound_aux (t1 t2 : DTree) : ∀ (path : List (Atom × Sign)) (v : Valuation),
    Agrees v path → equiv path t1 t2 = true → evalTree t1 v = evalTree t2 v := by
  induction t1 with
  | leaf r =>
    intro path v hv h
    unfold equiv at h
    rw [checkLeaf_sound r t2 path v hv h]; rfl
  | node a l e g ihl ihe ihg =>
    intro path v hv h
    unfold equiv at h
    rw [evalTree]
    split at h
    · rename_i s hs
      have hva := lookupA_agrees hv hs
      rw [hva]
      cases s
      · exact ihl path v hv h
      · exact ihe path v hv h
      · exact ihg path v hv h
    · simp only [Bool.and_eq_true] at h
      have hv' := agrees_cons hv a
      cases hva : v a
      · rw [hva] at hv'; exact ihl _ v hv' h.1.1
      · rw [hva] at hv'; exact ihe _ v hv' h.1.2
      · rw [hva] at hv'; exact ihg _ v hv' h.2

/-- if the check succeeds the two trees agree on EVERY valuation -/
theorem equiv_sound {t1 t2 : DTree} (h : equiv [] t1 t2 = true) (v : Valuation) :
    evalTree t1 v = evalTree t2 v := equiv_sound_aux t1 t2 [] v (agrees_nil v) h

theorem tableOk_sound {rows : List (Nat × DTree)} {skel : Nat → DTree} (h : tableOk rows skel = true) :
    ∀ p ∈ rows, ∀ v : Valuation, evalTree p.2 v = evalTree (skel p.1) v := by
  intro p hp v
  unfold tableOk at h
  exact equiv_sound (List.all_eq_true.1 h p hp) v

/-! ## the reified skeletons evaluate to the skeleton functions -/

theorem evalTree_argminSkel (v : Valuation) (k : Nat → DTree) : ∀ (m best i : Nat),
    evalTree (argminSkel best i m k) v = evalTree (k (argminIdx v best i m)) v := by
  intro m
  induction m with
  | zero => intro best i; rfl
  | succ m ih =>
    intro best i
    simp only [argminSkel, evalTree, argminIdx]
    cases h : v (aCmp best i) <;> simp [Sign.pick, ih]

theorem evalTree_nowTailSkel (v : Valuation) (best : Nat) :
    evalTree (nowTailSkel best) v = nowTail v best := by
  simp only [nowTailSkel, evalTree, nowTail]
  cases h : v (aTolAbs best) <;> simp [Sign.pick]

/-- `getNowSkel n` is `getNowAtoms n` as a tree (any `n`) -/
theorem evalTree_getNowSkel (n : Nat) (v : Valuation) : evalTree (getNowSkel n) v = getNowAtoms n v := by
  unfold getNowSkel getNowAtoms
  simp only [evalTree]
  cases n with
  | zero => cases h : v aGuard <;> simp [Sign.pick, evalTree]
  | succ m =>
    cases h : v aGuard <;>
      simp [Sign.pick, evalTree_argminSkel, evalTree_nowTailSkel]

theorem evalTree_gateAfterSkel (v : Valuation) (b a : Option Nat) :
    evalTree (gateAfterSkel b a) v = outcomeOf b (gateAfter v a) := by
  cases a with
  | none => rfl
  | some a =>
    simp only [gateAfterSkel, evalTree, gateAfter]
    cases h : v (aAfter a) <;> simp [Sign.pick]

theorem evalTree_gateBeforeSkel (v : Valuation) (a b : Option Nat) :
    evalTree (gateBeforeSkel a b) v = outcomeOf (gateBefore v b) (gateAfter v a) := by
  cases b with
  | none => simp [gateBeforeSkel, gateBefore, evalTree_gateAfterSkel]
  | some b =>
    simp only [gateBeforeSkel, evalTree, gateBefore]
    cases h : v (aBefore b) <;> simp [Sign.pick, evalTree_gateAfterSkel]

theorem evalTree_scanSkel (v : Valuation) : ∀ (m i : Nat) (b : Option Nat),
    evalTree (scanSkel i m b) v =
      outcomeOf (gateBefore v (scanIdx v i m b).1) (gateAfter v (scanIdx v i m b).2) := by
  intro m
  induction m with
  | zero => intro i b; simp [scanSkel, scanIdx, evalTree_gateBeforeSkel]
  | succ m ih =>
    intro i b
    simp only [scanSkel, evalTree, scanIdx]
    cases h : v (aGe i) <;> simp [Sign.pick, ih, evalTree_gateBeforeSkel]

/-- `getInterpSkel n` is `getInterpAtoms n` as a tree (any `n`) -/
theorem evalTree_getInterpSkel (n : Nat) (v : Valuation) :
    evalTree (getInterpSkel n) v = getInterpAtoms n v := by
  unfold getInterpSkel getInterpAtoms
  exact evalTree_scanSkel v n 0 none

/-! ## the bridge to the model: valuations of concrete inputs -/

theorem signOf_gt {x : Int} : signOf x = .gt ↔ 0 < x := by
  unfold signOf
  by_cases h1 : x < 0
  · simp [h1]; omega
  · by_cases h2 : x = 0
    · simp [h2]
    · simp [h1, h2]; omega

theorem signOf_lt {x : Int} : signOf x = .lt ↔ x < 0 := by
  unfold signOf
  by_cases h1 : x < 0
  · simp [h1]
  · by_cases h2 : x = 0
    · simp [h2]
    · simp [h1, h2]

def times (fs : List Frame) : List Int := fs.map (·.time)

theorem times_getD (fs : List Frame) (i : Nat) (f : Frame) (h : fs[i]? = some f) :
    (times fs).getD i 0 = f.time := by
  simp [times, List.getD, List.getElem?_map, h]

theorem val_guard (ts : List Int) (q tol : Int) :
    valuationOf ts q tol aGuard = .gt ↔ q > maxTime := by
  simp only [valuationOf, signOf_gt, Atom.eval, aGuard, evalTerms, Leaf.eval, maxTime]
  omega

theorem val_cmp (fs : List Frame) (q tol : Int) (b i : Nat) (fb fi : Frame)
    (hb : fs[b]? = some fb) (hi : fs[i]? = some fi) :
    valuationOf (times fs) q tol (aCmp b i) = .gt ↔ absDt q fi < absDt q fb := by
  simp only [valuationOf, signOf_gt, Atom.eval, aCmp, evalTerms, Leaf.eval, times_getD fs b fb hb,
    times_getD fs i fi hi, absDt]
  omega

theorem val_tolabs (fs : List Frame) (q tol : Int) (b : Nat) (fb : Frame) (hb : fs[b]? = some fb) :
    valuationOf (times fs) q tol (aTolAbs b) = .lt ↔ (absDt q fb : Int) > tol := by
  simp only [valuationOf, signOf_lt, Atom.eval, aTolAbs, evalTerms, Leaf.eval, times_getD fs b fb hb, absDt]
  omega

theorem val_ge (fs : List Frame) (q tol : Int) (i : Nat) (fi : Frame) (hi : fs[i]? = some fi) :
    valuationOf (times fs) q tol (aGe i) = .lt ↔ ¬ (q - fi.time ≥ 0) := by
  simp only [valuationOf, signOf_lt, Atom.eval, aGe, evalTerms, Leaf.eval, times_getD fs i fi hi]
  omega

theorem val_before (fs : List Frame) (q tol : Int) (i : Nat) (fi : Frame) (hi : fs[i]? = some fi) :
    valuationOf (times fs) q tol (aBefore i) = .gt ↔ q - fi.time > tol := by
  simp only [valuationOf, signOf_gt, Atom.eval, aBefore, evalTerms, Leaf.eval, times_getD fs i fi hi]
  omega

theorem val_after (fs : List Frame) (q tol : Int) (j : Nat) (fj : Frame) (hj : fs[j]? = some fj) :
    valuationOf (times fs) q tol (aAfter j) = .lt ↔ -(q - fj.time) > tol := by
  simp only [valuationOf, signOf_lt, Atom.eval, aAfter, evalTerms, Leaf.eval, times_getD fs j fj hj]
  omega

/-- the arg-min loop over the tail `rest` of `fs = pre ++ rest`, started with best = `fs[b]`, ends at
the frame whose index the skeleton's loop computes -/
theorem argminLoop_idx (fs : List Frame) (q tol : Int) : ∀ (rest pre : List Frame) (b : Nat) (fb : Frame),
    fs = pre ++ rest → fs[b]? = some fb →
    fs[argminIdx (valuationOf (times fs) q tol) b pre.length rest.length]? = some (argminLoop q fb rest) := by
  intro rest
  induction rest with
  | nil => intro pre b fb _ hb; simpa [argminIdx, argminLoop] using hb
  | cons f rest ih =>
    intro pre b fb hfs hb
    have hi : fs[pre.length]? = some f := by rw [hfs]; simp
    have hfs' : fs = (pre ++ [f]) ++ rest := by rw [hfs]; simp
    have hlen : (pre ++ [f]).length = pre.length + 1 := by simp
    simp only [List.length_cons, argminIdx, argminLoop]
    by_cases hc : absDt q f < absDt q fb
    · rw [if_pos ((val_cmp fs q tol b pre.length fb f hb hi).2 hc), if_pos hc]
      have := ih (pre ++ [f]) pre.length f hfs' hi
      rw [hlen] at this; exact this
    · rw [if_neg (fun h => hc ((val_cmp fs q tol b pre.length fb f hb hi).1 h)), if_neg hc]
      have := ih (pre ++ [f]) b fb hfs' hb
      rw [hlen] at this; exact this

/-- BRIDGE (all frame lists): the model's `get_now_frame` is the skeleton on the input's valuation -/
theorem getNowFrame_eq_atoms (fs : List Frame) (q tol : Int) :
    getNowFrame fs q tol = decodeNow fs (getNowAtoms fs.length (valuationOf (times fs) q tol)) := by
  unfold getNowFrame getNowAtoms
  by_cases hg : q > maxTime
  · rw [if_pos hg, if_pos ((val_guard _ q tol).2 hg)]; rfl
  · rw [if_neg hg, if_neg (fun h => hg ((val_guard _ q tol).1 h))]
    cases fs with
    | nil => rfl
    | cons f0 rest =>
      have h0 : (f0 :: rest)[0]? = some f0 := rfl
      have hidx := argminLoop_idx (f0 :: rest) q tol rest [f0] 0 f0 rfl h0
      have hstep : argminLoop q f0 (f0 :: rest) = argminLoop q f0 rest := by simp [argminLoop]
      simp only [List.length_cons, List.length_nil, Nat.zero_add] at hidx
      simp only [List.length_cons, hstep, nowTail]
      by_cases ht : (absDt q (argminLoop q f0 rest) : Int) > tol
      · rw [if_pos ht, if_pos ((val_tolabs _ q tol _ _ hidx).2 ht)]; rfl
      · rw [if_neg ht, if_neg (fun h => ht ((val_tolabs _ q tol _ _ hidx).1 h))]
        simp only [decodeNow, hidx]

/-- what the scan's index pair decodes to -/
def idxFrame (fs : List Frame) : Option Nat → Option Frame
  | none => none
  | some i => fs[i]?

theorem scan_idx (fs : List Frame) (q tol : Int) : ∀ (rest pre : List Frame) (b : Option Nat) (db : Int),
    fs = pre ++ rest → (∀ i, b = some i → i < fs.length) →
    (∀ i fi, b = some i → fs[i]? = some fi → db = q - fi.time) →
    (scan q rest (idxFrame fs b) db).before =
        idxFrame fs (scanIdx (valuationOf (times fs) q tol) pre.length rest.length b).1 ∧
    (scan q rest (idxFrame fs b) db).after =
        idxFrame fs (scanIdx (valuationOf (times fs) q tol) pre.length rest.length b).2 ∧
    (∀ i, (scanIdx (valuationOf (times fs) q tol) pre.length rest.length b).1 = some i → i < fs.length) ∧
    (∀ j, (scanIdx (valuationOf (times fs) q tol) pre.length rest.length b).2 = some j → j < fs.length) ∧
    (∀ i fi, (scanIdx (valuationOf (times fs) q tol) pre.length rest.length b).1 = some i → fs[i]? = some fi →
        (scan q rest (idxFrame fs b) db).dtBefore = q - fi.time) ∧
    (∀ j fj, (scanIdx (valuationOf (times fs) q tol) pre.length rest.length b).2 = some j → fs[j]? = some fj →
        (scan q rest (idxFrame fs b) db).dtAfter = -(q - fj.time)) := by
  intro rest
  induction rest with
  | nil =>
    intro pre b db _ hb hdb
    refine ⟨rfl, rfl, hb, ?_, hdb, ?_⟩
    · intro j h; cases h
    · intro j fj h; cases h
  | cons f rest ih =>
    intro pre b db hfs hb hdb
    have hi : fs[pre.length]? = some f := by rw [hfs]; simp
    have hilt : pre.length < fs.length := by rw [hfs]; simp
    have hfs' : fs = (pre ++ [f]) ++ rest := by rw [hfs]; simp
    have hlen : (pre ++ [f]).length = pre.length + 1 := by simp
    simp only [List.length_cons, scanIdx, scan]
    by_cases hc : q - f.time ≥ 0
    · rw [if_neg (fun h => ((val_ge fs q tol pre.length f hi).1 h) hc), if_pos hc]
      have := ih (pre ++ [f]) (some pre.length) (q - f.time) hfs' (by intro i h; cases h; exact hilt)
        (by intro i fi h hfi; cases h; rw [hi] at hfi; cases hfi; rfl)
      rw [hlen] at this
      simp only [idxFrame, hi] at this
      exact this
    · rw [if_pos ((val_ge fs q tol pre.length f hi).2 hc), if_neg hc]
      refine ⟨rfl, by simp [idxFrame, hi], hb, by intro j h; cases h; exact hilt, hdb, ?_⟩
      intro j fj hj hfj
      cases hj
      rw [hi] at hfj; cases hfj; rfl

theorem idxFrame_none (fs : List Frame) : idxFrame fs none = none := rfl

theorem idxFrame_some {fs : List Frame} {i : Nat} (h : i < fs.length) : idxFrame fs (some i) = some fs[i] := by
  simp [idxFrame, h]

/-- BRIDGE (all frame lists): the model's `get_interpolated_now_frame` is the skeleton on the
input's valuation -/
theorem getInterpolated_eq_atoms (fs : List Frame) (q tol : Int) :
    getInterpolated fs q tol = decodeInterp fs q (getInterpAtoms fs.length (valuationOf (times fs) q tol)) := by
  obtain ⟨h1, h2, h3, h4, h5, h6⟩ := scan_idx fs q tol fs [] none 0 rfl (by intro i h; cases h) (by intro i fi h; cases h)
  simp only [List.length_nil, idxFrame_none] at h1 h2 h3 h4 h5 h6
  unfold getInterpolated getInterpAtoms neighbours
  generalize scanIdx (valuationOf (times fs) q tol) 0 fs.length none = s at *
  generalize scan q fs none 0 = n at *
  obtain ⟨sb, sa⟩ := s
  simp only at h1 h2 h3 h4 h5 h6 ⊢
  -- the two gates
  have hgb : gate tol n.dtBefore n.before = idxFrame fs (gateBefore (valuationOf (times fs) q tol) sb) := by
    cases sb with
    | none => rw [h1]; simp [gate, gateBefore, idxFrame]
    | some i =>
      have hlt := h3 i rfl
      have hfi : fs[i]? = some fs[i] := by simp [hlt]
      rw [h1, h5 i fs[i] rfl hfi, idxFrame_some hlt]
      simp only [gate, gateBefore]
      by_cases hc : q - fs[i].time > tol
      · rw [if_pos hc, if_pos ((val_before fs q tol i _ hfi).2 hc)]; rfl
      · rw [if_neg hc, if_neg (fun h => hc ((val_before fs q tol i _ hfi).1 h)), idxFrame_some hlt]
  have hga : gate tol n.dtAfter n.after = idxFrame fs (gateAfter (valuationOf (times fs) q tol) sa) := by
    cases sa with
    | none => rw [h2]; simp [gate, gateAfter, idxFrame]
    | some j =>
      have hlt := h4 j rfl
      have hfj : fs[j]? = some fs[j] := by simp [hlt]
      rw [h2, h6 j fs[j] rfl hfj, idxFrame_some hlt]
      simp only [gate, gateAfter]
      by_cases hc : -(q - fs[j].time) > tol
      · rw [if_pos hc, if_pos ((val_after fs q tol j _ hfj).2 hc)]; rfl
      · rw [if_neg hc, if_neg (fun h => hc ((val_after fs q tol j _ hfj).1 h)), idxFrame_some hlt]
  have hvb : ∀ i, gateBefore (valuationOf (times fs) q tol) sb = some i → i < fs.length := by
    intro i h
    cases sb with
    | none => cases h
    | some b =>
      simp only [gateBefore] at h
      split at h
      · cases h
      · cases h; exact h3 _ rfl
  have hva : ∀ j, gateAfter (valuationOf (times fs) q tol) sa = some j → j < fs.length := by
    intro j h
    cases sa with
    | none => cases h
    | some a =>
      simp only [gateAfter] at h
      split at h
      · cases h
      · cases h; exact h4 _ rfl
  rw [hgb, hga]
  generalize gateBefore (valuationOf (times fs) q tol) sb = gb at *
  generalize gateAfter (valuationOf (times fs) q tol) sa = ga at *
  cases gb with
  | none =>
    cases ga with
    | none => rfl
    | some j => have := hva j rfl; simp [idxFrame, outcomeOf, decodeInterp, this]
  | some i =>
    have hi := hvb i rfl
    cases ga with
    | none => simp [idxFrame, outcomeOf, decodeInterp, hi]
    | some j =>
      have hj := hva j rfl
      simp only [idxFrame, outcomeOf, decodeInterp, hi, hj, List.getElem?_eq_getElem]
      cases interpolateFrames fs[i] fs[j] q <;> rfl

end PEval.LookupDT
