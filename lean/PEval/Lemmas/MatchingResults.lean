import PEval.Lemmas.MatchingTable
/-!
From `getObjectResults` to the final matcher state: every successful call returns the pairs of
`matchAll` followed (outside FP validation) by the remaining estimates; the early returns for empty
inputs are special cases of the same formula.
-/
namespace PEval.Matching

/-! observations on a result list -/

/-- estimates that were paired with a ground truth, in result order -/
def pairedEsts (rs : List Res) : List Nat := (rs.filter (fun r => r.2.isSome)).map (·.1)
/-- estimates of the results without ground truth, in result order -/
def unpairedEsts (rs : List Res) : List Nat := (rs.filter (fun r => r.2.isNone)).map (·.1)
/-- ground truths used by the results, in result order -/
def usedGts (rs : List Res) : List Nat := rs.filterMap (·.2)

theorem cands_nil_es (t : Tbl) (s1 : Bool) (gs : List Nat) : cands t s1 [] gs = [] := by simp [cands]

theorem cands_nil_gs (t : Tbl) (s1 : Bool) (es : List Nat) : cands t s1 es [] = [] := by simp [cands]

theorem stage_of_cands_nil {t : Tbl} {s1 : Bool} {st : St} (h : cands t s1 st.es st.gs = []) (fuel : Nat) :
    stage t s1 fuel st = st := by
  cases fuel with
  | zero => rfl
  | succ n => exact stage_succ_none (by rw [h]; rfl)

theorem matchFrom_nil_es (t : Tbl) (gs : List Nat) : matchFrom t [] gs = { es := [], gs := gs, pairs := [] } := by
  simp [matchFrom, stage]

theorem matchFrom_nil_gs (t : Tbl) (es : List Nat) : matchFrom t es [] = { es := es, gs := [], pairs := [] } := by
  unfold matchFrom
  have h1 : stage t true es.length { es := es, gs := [], pairs := [] } = { es := es, gs := [], pairs := [] } :=
    stage_of_cands_nil (cands_nil_gs _ _ _) _
  simp only [h1]
  exact stage_of_cands_nil (cands_nil_gs _ _ _) _

/-- the formula of the general branch, valid for every successful call -/
def resultsOf (fpVal : Bool) (st : St) : List Res :=
  pairResults st.pairs ++ (if fpVal then [] else fpResults st.es)

theorem getObjectResults_ok {c : Cfg} {sc : Scene} {rs : List Res} (h : getObjectResults c sc = .ok rs) :
    rs = resultsOf c.fpValidation (matchAll (mkTbl c sc) sc.ests.length sc.gts.length) := by
  unfold getObjectResults at h
  split at h
  · rename_i he
    have he' : sc.ests = [] := by simpa using he
    simp at h; subst h
    simp [he', matchAll, matchFrom_nil_es, resultsOf, pairResults, fpResults]
  · split at h
    · rename_i hg
      have hg' : sc.gts = [] := by simpa using hg
      simp at h; subst h
      simp [hg', matchAll, matchFrom_nil_gs, resultsOf, pairResults]
    · split at h
      · simp at h
      · simp at h; subst h; rfl

/-- the table does not depend on the task -/
theorem mkTbl_fpVal (c : Cfg) (sc : Scene) (b : Bool) : mkTbl { c with fpValidation := b } sc = mkTbl c sc := rfl

theorem tableError_fpVal (c : Cfg) (sc : Scene) (b : Bool) :
    tableError { c with fpValidation := b } sc = tableError c sc := rfl

theorem matchAll_inv (t : Tbl) (nE nG : Nat) : MInv t (List.range nE) (List.range nG) (matchAll t nE nG) :=
  matchFrom_inv t List.nodup_range List.nodup_range

/-! projections of `resultsOf` -/

theorem filter_const_true {α} (l : List α) : l.filter (fun _ => true) = l :=
  List.filter_eq_self.2 (by simp)

theorem filter_const_false {α} (l : List α) : l.filter (fun _ => false) = [] :=
  List.filter_eq_nil_iff.2 (by simp)

theorem resultsOf_map_fst (b : Bool) (st : St) :
    (resultsOf b st).map (·.1) = st.pairs.map (·.1) ++ (if b then [] else st.es) := by
  cases b <;> simp [resultsOf, pairResults, fpResults, Function.comp_def]

theorem usedGts_resultsOf (b : Bool) (st : St) : usedGts (resultsOf b st) = st.pairs.map (·.2) := by
  cases b <;> simp [usedGts, resultsOf, pairResults, fpResults, List.filterMap_append, List.filterMap_map,
    Function.comp_def]

theorem filter_isSome_resultsOf (b : Bool) (st : St) :
    (resultsOf b st).filter (fun r => r.2.isSome) = pairResults st.pairs := by
  cases b <;> simp [resultsOf, pairResults, fpResults, List.filter_map, Function.comp_def,
    filter_const_true, filter_const_false]

theorem filter_isNone_resultsOf (b : Bool) (st : St) :
    (resultsOf b st).filter (fun r => r.2.isNone) = if b then [] else fpResults st.es := by
  cases b <;> simp [resultsOf, pairResults, fpResults, List.filter_map, Function.comp_def,
    filter_const_true, filter_const_false]

theorem pairedEsts_resultsOf (b : Bool) (st : St) : pairedEsts (resultsOf b st) = st.pairs.map (·.1) := by
  simp [pairedEsts, filter_isSome_resultsOf, pairResults, Function.comp_def]

theorem unpairedEsts_resultsOf (b : Bool) (st : St) :
    unpairedEsts (resultsOf b st) = if b then [] else st.es := by
  cases b <;> simp [unpairedEsts, filter_isNone_resultsOf, fpResults, Function.comp_def]

theorem mem_resultsOf_some {b : Bool} {st : St} {i j : Nat} :
    (i, some j) ∈ resultsOf b st ↔ (i, j) ∈ st.pairs := by
  cases b <;> simp [resultsOf, pairResults, fpResults]
  all_goals
    constructor
    · rintro ⟨a, b', h, rfl, rfl⟩; exact h
    · intro h; exact ⟨i, j, h, rfl, rfl⟩

theorem mem_resultsOf_none {b : Bool} {st : St} {i : Nat} :
    (i, none) ∈ resultsOf b st ↔ b = false ∧ i ∈ st.es := by
  cases b <;> simp [resultsOf, pairResults, fpResults]

end PEval.Matching
