import PEval.Lemmas.ClassificationLoop
import Mathlib.Data.List.Nodup
/-!
Facts about the id-based matchers: where result pairs come from, maximality of a guarded stage,
totality, completeness under unique keys.
-/
namespace PEval.Classification

/-- identity of an object for matching purposes: uuid and camera frame -/
def key (o : Obj) : Option String × String := (o.uuid, o.frame)

/-- label class within a camera -/
def cls (o : Obj) : String × Label := (o.frame, o.label)

theorem sameKey_iff {e g : Obj} : sameKey e g = true ↔ key e = key g := by
  simp [sameKey, key, Prod.ext_iff]

theorem sameKey_uuid {e g : Obj} (h : sameKey e g = true) : e.uuid = g.uuid := by
  simp [sameKey] at h; exact h.1

theorem sameKey_frame {e g : Obj} (h : sameKey e g = true) : e.frame = g.frame := by
  simp [sameKey] at h; exact h.2

theorem cond1_label {uf : Bool} {e g : Obj} (h : cond1 uf e g = true) : e.label = g.label := by
  simp [cond1] at h; exact h.1.1

theorem cond1_frame {uf : Bool} {e g : Obj} (h : cond1 uf e g = true) : e.frame = g.frame := by
  simp [cond1] at h; exact h.2

theorem cond1_true_sameKey {e g : Obj} (h : cond1 true e g = true) : sameKey e g = true := by
  simp [cond1] at h; simp [sameKey, h.1.2, h.2]

theorem cond1_false_iff {e g : Obj} : cond1 false e g = true ↔ cls e = cls g := by
  simp [cond1, cls, Prod.ext_iff, and_comm]

theorem cond1_true_iff {e g : Obj} : cond1 true e g = true ↔ e.label = g.label ∧ sameKey e g = true := by
  simp [cond1, sameKey, and_assoc]

theorem key_inj {l : List Obj} (h : (l.map key).Nodup) {a b : Obj} (ha : a ∈ l) (hb : b ∈ l)
    (hk : key a = key b) : a = b := List.inj_on_of_nodup_map h ha hb hk

/-! ## the pairs a loop appends -/

theorem outer_res_from {step : Obj → Obj → St → Except Err St} {c : Obj → Obj → Bool}
    (hstep : ∀ e g s s', step e g s = .ok s' → Move c e g s s') (gs es : List Obj) {s s' : St}
    (h : outer step gs es s = .ok s') :
    ∃ t, s'.res = s.res ++ t ∧ ∀ p ∈ t, c p.1 p.2 = true ∧ p.1 ∈ es ∧ p.2 ∈ gs := by
  refine outer_moves (P := fun x => ∃ t, x.res = s.res ++ t ∧ ∀ p ∈ t, c p.1 p.2 = true ∧ p.1 ∈ es ∧ p.2 ∈ gs)
    hstep gs es ?_ ⟨[], by simp⟩ h
  intro e he g hg a b ⟨t, ht, hall⟩ hm
  cases hm with
  | take hc _ _ =>
    refine ⟨t ++ [(e, g)], by simp [Classification.take, ht], ?_⟩
    intro p hp
    rcases List.mem_append.1 hp with hp | hp
    · exact hall p hp
    · simp only [List.mem_singleton] at hp; subst hp; exact ⟨hc, he, hg⟩
  | skip => exact ⟨t, ht, hall⟩

/-! ## a guarded stage is maximal: no pair satisfying the condition stays unused -/

theorem stage_maximal {c : Obj → Obj → Bool} (gs es : List Obj) {s s' : St}
    (hnd : s.es.Nodup) (h : outer (stepG c) gs es s = .ok s') :
    ∀ e ∈ es, ∀ g ∈ gs, ¬(c e g = true ∧ e ∈ s'.es ∧ g ∈ s'.gs) := by
  have := outer_visited (step := stepG c) (P := fun x => x.es.Nodup)
    (Q := fun e g x => ¬(c e g = true ∧ e ∈ x.es ∧ g ∈ x.gs)) gs es
    (fun e _ g _ a b ha hs => (stepG_move hs).shrinks.es.nodup ha)
    (fun e _ g _ a b ha hs => by
      rcases (stepG_ok hs).2 with ⟨_, _, _, rfl⟩ | ⟨hn, rfl⟩
      · intro hh
        exact ha.not_mem_erase hh.2.1
      · exact hn)
    (fun e _ g _ e' _ g' _ a b _ hq hs hh => by
      have sh := (stepG_move hs).shrinks
      exact hq ⟨hh.1, sh.es.subset hh.2.1, sh.gs.subset hh.2.2⟩)
    s s' hnd h
  exact this.2

/-! ## totality of the guarded loops -/

theorem stepG_total {c : Obj → Obj → Bool} {e g : Obj} (s : St) (h : nullUuid e g = false) :
    ∃ s', stepG c e g s = .ok s' := by
  unfold stepG
  simp only [h, Bool.false_eq_true, if_false]
  split
  · exact ⟨_, rfl⟩
  · exact ⟨_, rfl⟩

theorem inner_stepG_total {c : Obj → Obj → Bool} {e : Obj} :
    ∀ (gs : List Obj) (s : St), (∀ g ∈ gs, nullUuid e g = false) → ∃ s', inner (stepG c) e gs s = .ok s' := by
  intro gs
  induction gs with
  | nil => intro s _; exact ⟨s, rfl⟩
  | cons g t ih =>
    intro s hn
    obtain ⟨s1, h1⟩ := stepG_total (c := c) s (hn g List.mem_cons_self)
    simp only [inner, h1]
    exact ih s1 (fun g' hg' => hn g' (List.mem_cons_of_mem _ hg'))

theorem outer_stepG_total {c : Obj → Obj → Bool} {gs : List Obj} :
    ∀ (es : List Obj) (s : St), (∀ e ∈ es, ∀ g ∈ gs, nullUuid e g = false) →
      ∃ s', outer (stepG c) gs es s = .ok s' := by
  intro es
  induction es with
  | nil => intro s _; exact ⟨s, rfl⟩
  | cons e t ih =>
    intro s hn
    obtain ⟨s1, h1⟩ := inner_stepG_total (c := c) gs s (hn e List.mem_cons_self)
    simp only [outer, h1]
    exact ih s1 (fun e' he' => hn e' (List.mem_cons_of_mem _ he'))

/-- a successful loop has seen a non-null uuid on both sides of every pair -/
theorem outer_ok_nonnull {step : Obj → Obj → St → Except Err St}
    (hstep : ∀ e g s s', step e g s = .ok s' → nullUuid e g = false) (gs es : List Obj) {s s' : St}
    (h : outer step gs es s = .ok s') : ∀ e ∈ es, ∀ g ∈ gs, nullUuid e g = false :=
  (outer_visited (step := step) (P := fun _ => True) (Q := fun e g _ => nullUuid e g = false) gs es
    (fun _ _ _ _ _ _ _ _ => trivial) (fun e _ g _ a b _ hs => hstep e g a b hs)
    (fun _ _ _ _ _ _ _ _ _ _ _ hq _ => hq) s s' trivial h).2

/-- the guarded loops can only fail with `RuntimeError` -/
theorem inner_stepG_error {c : Obj → Obj → Bool} {e : Obj} :
    ∀ (gs : List Obj) (s : St) (x : Err), inner (stepG c) e gs s = .error x → x = "RuntimeError" := by
  intro gs
  induction gs with
  | nil => intro s x h; simp [inner] at h
  | cons g t ih =>
    intro s x h
    simp only [inner] at h
    split at h
    · exact ih _ x h
    · rename_i y hy
      simp only [Except.error.injEq] at h
      subst h
      unfold stepG at hy
      split at hy
      · simpa using hy.symm
      · split at hy <;> simp at hy

theorem outer_stepG_error {c : Obj → Obj → Bool} {gs : List Obj} :
    ∀ (es : List Obj) (s : St) (x : Err), outer (stepG c) gs es s = .error x → x = "RuntimeError" := by
  intro es
  induction es with
  | nil => intro s x h; simp [outer] at h
  | cons e t ih =>
    intro s x h
    simp only [outer] at h
    split at h
    · exact ih _ x h
    · rename_i y hy
      simp only [Except.error.injEq] at h
      subst h
      exact inner_stepG_error gs s y hy

/-! ## totality of the unguarded loop under unique keys -/

theorem inner_stepU_noMatch {c : Obj → Obj → Bool} {e : Obj} :
    ∀ (gs : List Obj) (s : St), (∀ g ∈ gs, nullUuid e g = false) → (∀ g ∈ gs, c e g = false) →
      inner (stepU c) e gs s = .ok s := by
  intro gs
  induction gs with
  | nil => intro s _ _; rfl
  | cons g t ih =>
    intro s hn hc
    simp only [inner, stepU, hn g List.mem_cons_self, hc g List.mem_cons_self]
    exact ih s (fun g' hg' => hn g' (List.mem_cons_of_mem _ hg')) (fun g' hg' => hc g' (List.mem_cons_of_mem _ hg'))

theorem inner_stepU_total {c : Obj → Obj → Bool} {e : Obj} :
    ∀ (gs : List Obj) (s : St), gs.Nodup → (∀ g ∈ gs, nullUuid e g = false) →
      (∀ g ∈ gs, ∀ g' ∈ gs, c e g = true → c e g' = true → g = g') →
      e ∈ s.es → (∀ g ∈ gs, c e g = true → g ∈ s.gs) →
      inner (stepU c) e gs s = .ok s ∨ ∃ g ∈ gs, c e g = true ∧ inner (stepU c) e gs s = .ok (take e g s) := by
  intro gs
  induction gs with
  | nil => intro s _ _ _ _ _; exact Or.inl rfl
  | cons g t ih =>
    intro s hnd hn hu he hg
    have hnd' := List.nodup_cons.1 hnd
    by_cases hc : c e g = true
    · right
      refine ⟨g, List.mem_cons_self, hc, ?_⟩
      have hgs : g ∈ s.gs := hg g List.mem_cons_self hc
      simp only [inner, stepU, hn g List.mem_cons_self, hc, he, hgs, if_true]
      apply inner_stepU_noMatch t _ (fun g' hg' => hn g' (List.mem_cons_of_mem _ hg'))
      intro g' hg'
      by_contra hcc
      have : g = g' := hu g List.mem_cons_self g' (List.mem_cons_of_mem _ hg') hc (by simpa using hcc)
      exact hnd'.1 (this ▸ hg')
    · have hc' : c e g = false := by simpa using hc
      have hstep : inner (stepU c) e (g :: t) s = inner (stepU c) e t s := by
        simp only [inner, stepU, hn g List.mem_cons_self, hc']
        rfl
      rw [hstep]
      rcases ih s hnd'.2 (fun g' hg' => hn g' (List.mem_cons_of_mem _ hg'))
        (fun a ha b hb => hu a (List.mem_cons_of_mem _ ha) b (List.mem_cons_of_mem _ hb)) he
        (fun g' hg' => hg g' (List.mem_cons_of_mem _ hg')) with h | ⟨g', hg', hcg, h⟩
      · exact Or.inl h
      · exact Or.inr ⟨g', List.mem_cons_of_mem _ hg', hcg, h⟩

theorem outer_stepU_total {c : Obj → Obj → Bool} {gs : List Obj} (hgnd : gs.Nodup) :
    ∀ (es : List Obj) (s : St), es.Nodup → (∀ e ∈ es, ∀ g ∈ gs, nullUuid e g = false) →
      (∀ e ∈ es, ∀ g ∈ gs, ∀ g' ∈ gs, c e g = true → c e g' = true → g = g') →
      (∀ e ∈ es, ∀ e' ∈ es, ∀ g ∈ gs, c e g = true → c e' g = true → e = e') →
      (∀ e ∈ es, e ∈ s.es) → (∀ e ∈ es, ∀ g ∈ gs, c e g = true → g ∈ s.gs) →
      ∃ s', outer (stepU c) gs es s = .ok s' := by
  intro es
  induction es with
  | nil => intro s _ _ _ _ _ _; exact ⟨s, rfl⟩
  | cons e t ih =>
    intro s hnd hn hu1 hu2 he hg
    have hnd' := List.nodup_cons.1 hnd
    have tl {P : Obj → Prop} (h : ∀ x ∈ e :: t, P x) : ∀ x ∈ t, P x := fun x hx => h x (List.mem_cons_of_mem _ hx)
    rcases inner_stepU_total (c := c) gs s hgnd (hn e List.mem_cons_self) (hu1 e List.mem_cons_self)
      (he e List.mem_cons_self) (hg e List.mem_cons_self) with h | ⟨g, hgm, hcg, h⟩
    · simp only [outer, h]
      exact ih s hnd'.2 (tl hn) (tl hu1)
        (fun a ha b hb => hu2 a (List.mem_cons_of_mem _ ha) b (List.mem_cons_of_mem _ hb)) (tl he) (tl hg)
    · simp only [outer, h]
      refine ih _ hnd'.2 (tl hn) (tl hu1)
        (fun a ha b hb => hu2 a (List.mem_cons_of_mem _ ha) b (List.mem_cons_of_mem _ hb)) ?_ ?_
      · intro e' he'
        have hne : e' ≠ e := fun hh => hnd'.1 (hh ▸ he')
        exact (List.mem_erase_of_ne hne).2 (he e' (List.mem_cons_of_mem _ he'))
      · intro e' he' g' hg' hc'
        have hne : g' ≠ g := by
          intro hh
          subst hh
          have : e = e' := hu2 e List.mem_cons_self e' (List.mem_cons_of_mem _ he') g' hg' hcg hc'
          exact hnd'.1 (this ▸ he')
        exact (List.mem_erase_of_ne hne).2 (hg e' (List.mem_cons_of_mem _ he') g' hg' hc')

/-- the unguarded loop appends every pair that satisfies the condition -/
theorem outer_stepU_complete {c : Obj → Obj → Bool} (gs es : List Obj) {s s' : St}
    (h : outer (stepU c) gs es s = .ok s') : ∀ e ∈ es, ∀ g ∈ gs, c e g = true → (e, g) ∈ s'.res :=
  (outer_visited (step := stepU c) (P := fun _ => True) (Q := fun e g x => c e g = true → (e, g) ∈ x.res) gs es
    (fun _ _ _ _ _ _ _ _ => trivial)
    (fun e _ g _ a b _ hs hc => by
      rcases (stepU_ok hs).2 with ⟨_, _, _, rfl⟩ | ⟨hn, _⟩
      · simp [Classification.take]
      · simp [hn] at hc)
    (fun e _ g _ e' _ g' _ a b _ hq hs hc => by
      obtain ⟨t, ht⟩ := (stepU_move hs).shrinks.res
      rw [ht]; exact List.mem_append_left _ (hq hc))
    s s' trivial h).2

/-! ## membership bookkeeping under `WF` and duplicate-free inputs -/

theorem WF.es_iff {ests gts : List Obj} {s : St} (w : WF ests gts s) (hnd : ests.Nodup) (x : Obj) :
    x ∈ s.es ↔ x ∈ ests ∧ x ∉ s.res.map Prod.fst := by
  have hn := w.nodup_es hnd
  rw [List.nodup_append] at hn
  constructor
  · intro hx
    exact ⟨(w.mem_es x).2 (Or.inl hx), fun hr => hn.2.2 x hx x hr rfl⟩
  · rintro ⟨hx, hr⟩
    rcases (w.mem_es x).1 hx with h | h
    · exact h
    · exact absurd h hr

theorem WF.gs_iff {ests gts : List Obj} {s : St} (w : WF ests gts s) (hnd : gts.Nodup) (x : Obj) :
    x ∈ s.gs ↔ x ∈ gts ∧ x ∉ s.res.map Prod.snd := by
  have hn := w.nodup_gs hnd
  rw [List.nodup_append] at hn
  constructor
  · intro hx
    exact ⟨(w.mem_gs x).2 (Or.inl hx), fun hr => hn.2.2 x hx x hr rfl⟩
  · rintro ⟨hx, hr⟩
    rcases (w.mem_gs x).1 hx with h | h
    · exact h
    · exact absurd h hr

theorem WF.res_fst_nodup {ests gts : List Obj} {s : St} (w : WF ests gts s) (hnd : ests.Nodup) :
    (s.res.map Prod.fst).Nodup := ((List.nodup_append.1 (w.nodup_es hnd)).2.1)

theorem WF.res_snd_nodup {ests gts : List Obj} {s : St} (w : WF ests gts s) (hnd : gts.Nodup) :
    (s.res.map Prod.snd).Nodup := ((List.nodup_append.1 (w.nodup_gs hnd)).2.1)

theorem mem_map_fst {l : List (Obj × Obj)} {x : Obj} (h : x ∈ l.map Prod.fst) : ∃ y, (x, y) ∈ l := by
  obtain ⟨p, hp, rfl⟩ := List.mem_map.1 h
  exact ⟨p.2, hp⟩

theorem mem_map_snd {l : List (Obj × Obj)} {y : Obj} (h : y ∈ l.map Prod.snd) : ∃ x, (x, y) ∈ l := by
  obtain ⟨p, hp, rfl⟩ := List.mem_map.1 h
  exact ⟨p.1, hp⟩

end PEval.Classification
