import PEval.Lemmas.DatasetTlr
/-!
Totality of the loader model on well-formed tables: the referential-integrity predicate
`WellFormed` (what "well-formed dataset" means for C16) and the proof that no lookup of the
pipeline can fail under it.
-/
namespace PEval.Dataset
open PEval

/-- Referential integrity of a table set: every token that the loader follows resolves, every
sample has a lidar key frame (`LIDAR_TOP` or `LIDAR_CONCAT`), every calibrated sensor's sensor resolves
and its channel is a `FrameID` value (`sensors`), and no calibrated rotation is the zero quaternion
(`rotations`; pose tables hold unit quaternions). Nothing is assumed about the SIGNS of the rotations:
since the repair of finding C16-N1 two traffic-light cameras calibrated `q` and `-q` load. -/
structure WellFormed (T : Tables) : Prop where
  samples_ne : T.samples ≠ []
  lidar : ∀ s ∈ T.samples, ∃ sd, lidarOf T s.token = .ok sd
  ego : ∀ sd ∈ T.sampleData, ∃ e, lookup EgoPose.token T.egoPoses sd.egoPoseToken = .ok e
  calib : ∀ sd ∈ T.sampleData, ∃ c, lookup CalibratedSensor.token T.calibratedSensors sd.calibratedSensorToken = .ok c
  ann_sample : ∀ a ∈ T.annotations, ∃ s, lookup Sample.token T.samples a.sampleToken = .ok s
  ann_instance : ∀ a ∈ T.annotations, ∃ i, lookup Instance.token T.instances a.instanceToken = .ok i
  inst_category : ∀ i ∈ T.instances, ∃ c, lookup Named.token T.categories i.categoryToken = .ok c
  ann_attributes : ∀ a ∈ T.annotations, ∀ t ∈ a.attributeTokens, ∃ x, lookup Named.token T.attributes t = .ok x
  ann_visibility : T.visibility ≠ [] → ∀ a ∈ T.annotations, ∃ v, lookup Named.token T.visibility a.visibilityToken = .ok v
  ann_prev : ∀ a ∈ T.annotations, a.prev ≠ "" → ∃ b, lookup Annotation.token T.annotations a.prev = .ok b
  ann_next : ∀ a ∈ T.annotations, a.next ≠ "" → ∃ b, lookup Annotation.token T.annotations a.next = .ok b
  sensors : ∀ cs ∈ T.calibratedSensors, ∃ sen m, lookup Sensor.token T.sensors cs.sensorToken = .ok sen ∧
    Enums.frameFromValue sen.channel = .ok m
  rotations : ∀ cs ∈ T.calibratedSensors, cs.rotation ≠ Quat.zero

/-- `_get_transforms` succeeds when every channel converts and no calibrated rotation is the zero
quaternion — whatever the signs of the traffic-light cameras' quaternions -/
theorem sensorFrames_total {T : Tables}
    (hs : ∀ cs ∈ T.calibratedSensors, ∃ sen m, lookup Sensor.token T.sensors cs.sensorToken = .ok sen ∧
      Enums.frameFromValue sen.channel = .ok m)
    (hr : ∀ cs ∈ T.calibratedSensors, cs.rotation ≠ Quat.zero) : ∃ frs, sensorFrames T = .ok frs := by
  obtain ⟨frs, hm⟩ := mapE_ok_of_forall (f := fun cs =>
      match lookup Sensor.token T.sensors cs.sensorToken with
      | .error e => .error e
      | .ok s => Enums.frameFromValue s.channel) (l := T.calibratedSensors) (by
    intro cs hcs
    obtain ⟨sen, m, h1, h2⟩ := hs cs hcs
    exact ⟨m, by simp [h1, h2]⟩)
  refine ⟨frs, sensorFrames_of_channels hm ?_⟩
  intro q hq
  obtain ⟨cs, hcs, rfl⟩ := tlrRawRotations_mem (List.mem_of_mem_head? hq)
  exact hr cs hcs

theorem dataOf_mem {T : Tables} {tok ch : String} {sd : SampleData} (h : dataOf T tok ch = some sd) :
    sd ∈ T.sampleData := by
  unfold dataOf at h
  have := List.mem_of_find?_eq_some h
  simpa using this

theorem lidarOf_mem {T : Tables} {tok : String} {sd : SampleData} (h : lidarOf T tok = .ok sd) :
    sd ∈ T.sampleData := by
  unfold lidarOf at h
  split at h
  · rename_i sd' h1; cases h; exact dataOf_mem h1
  · split at h
    · rename_i sd' h2; cases h; exact dataOf_mem h2
    · cases h

theorem annsOf_mem {T : Tables} {tok : String} {a : Annotation} (h : a ∈ annsOf T tok) :
    a ∈ T.annotations ∧ a.sampleToken = tok := by
  unfold annsOf at h
  have := List.mem_filter.1 h
  exact ⟨this.1, by simpa using this.2⟩

theorem timeOf_ok {T : Tables} {tok : String} {s : Sample}
    (h : lookup Sample.token T.samples tok = .ok s) : timeOf T tok = .ok s.timestamp := by
  simp [timeOf, h, Except.map]

theorem secsOf_ok {T : Tables} {tok : String} {s : Sample}
    (h : lookup Sample.token T.samples tok = .ok s) : secsOf T tok = .ok s.secs := by
  simp [secsOf, h, Except.map]

theorem startOf_ok {T : Tables} {a : Annotation} (ha : a ∈ T.annotations) :
    ∃ st, startOf T a = .ok st ∧ st ∈ T.annotations ∧ st.sampleToken = a.sampleToken ∧
      st.instanceToken = a.instanceToken := by
  unfold startOf
  cases hf : T.annotations.reverse.find?
      (fun b => b.sampleToken == a.sampleToken && b.instanceToken == a.instanceToken) with
  | some st =>
    have hm : st ∈ T.annotations := by simpa using List.mem_of_find?_eq_some hf
    have hp := List.find?_some hf
    simp only [Bool.and_eq_true, beq_iff_eq] at hp
    exact ⟨st, rfl, hm, hp.1, hp.2⟩
  | none =>
    have := List.find?_eq_none.1 hf a (by simpa using ha)
    simp at this

theorem startOf_inv {T : Tables} {a st : Annotation} (h : startOf T a = .ok st) :
    st ∈ T.annotations ∧ st.sampleToken = a.sampleToken ∧ st.instanceToken = a.instanceToken := by
  unfold startOf at h
  split at h
  · rename_i b hf
    cases h
    have hm : st ∈ T.annotations := by simpa using List.mem_of_find?_eq_some hf
    have hp := List.find?_some hf
    simp only [Bool.and_eq_true, beq_iff_eq] at hp
    exact ⟨hm, hp.1, hp.2⟩
  · cases h

/-- when the sample holds no second annotation of the instance, the walk starts at the annotation itself -/
theorem startOf_self {T : Tables} {a : Annotation} (ha : a ∈ T.annotations)
    (huniq : ∀ b ∈ T.annotations, b.sampleToken = a.sampleToken → b.instanceToken = a.instanceToken → b = a) :
    startOf T a = .ok a := by
  obtain ⟨st, hst, hm, h1, h2⟩ := startOf_ok ha
  rw [hst, huniq st hm h1 h2]

/-- inversion of `pastRecords`: the start record (same sample and instance), the sample's time, the walk -/
theorem pastRecords_inv {T : Tables} {a : Annotation} {recs : List Annotation} (h : pastRecords T a = .ok recs) :
    ∃ st t0, startOf T a = .ok st ∧ st ∈ T.annotations ∧ st.instanceToken = a.instanceToken ∧
      timeOf T a.sampleToken = .ok t0 ∧ iterate T t0 T.annotations.length st 0 [] = .ok recs := by
  unfold pastRecords at h
  split at h
  · cases h
  · rename_i st hst
    obtain ⟨hm, hs, hi⟩ := startOf_inv hst
    split at h
    · cases h
    · rename_i t0 ht0
      exact ⟨st, t0, hst, hm, hi, hs ▸ ht0, h⟩

theorem pastRecords_ok {T : Tables} (wf : WellFormed T) {a : Annotation} (ha : a ∈ T.annotations) :
    ∃ recs, pastRecords T a = .ok recs ∧ ∀ r ∈ recs, r ∈ T.annotations := by
  unfold pastRecords
  obtain ⟨st, hst, hm, _, _⟩ := startOf_ok ha
  obtain ⟨s, hs⟩ := wf.ann_sample st hm
  simp only [hst, timeOf_ok hs]
  obtain ⟨recs, hr⟩ := iterate_ok (T := T) (start := s.timestamp) (fun c => c ∈ T.annotations) (by
    intro cur hcur hne
    obtain ⟨b, hb⟩ := wf.ann_prev cur hcur hne
    have hbm := (lookup_ok_mem hb).1
    obtain ⟨s', hs'⟩ := wf.ann_sample b hbm
    exact ⟨b, s'.timestamp, hb, timeOf_ok hs', hbm⟩) T.annotations.length st 0 [] hm
  refine ⟨recs, hr, ?_⟩
  exact iterate_inv (fun r => r ∈ T.annotations) (fun r => r ∈ T.annotations)
    (fun cur nxt t _ hn _ => ⟨(lookup_ok_mem hn).1, fun _ => (lookup_ok_mem hn).1⟩) _ st 0 [] recs hm
    (fun r hr => by cases hr) hr

theorem velocityOf_ok {T : Tables} (wf : WellFormed T) (fr : Bool) {a : Annotation} (ha : a ∈ T.annotations) :
    ∃ v, velocityOf T fr a = .ok v := by
  unfold velocityOf
  split
  · exact ⟨none, rfl⟩
  · have h1 : ∃ first, (if a.prev == "" then Except.ok a else lookup Annotation.token T.annotations a.prev)
        = .ok first ∧ first ∈ T.annotations := by
      split
      · exact ⟨a, rfl, ha⟩
      · rename_i hne
        obtain ⟨b, hb⟩ := wf.ann_prev a ha (by simpa using hne)
        exact ⟨b, hb, (lookup_ok_mem hb).1⟩
    have h2 : ∃ last, (if a.next == "" then Except.ok a else lookup Annotation.token T.annotations a.next)
        = .ok last ∧ last ∈ T.annotations := by
      split
      · exact ⟨a, rfl, ha⟩
      · rename_i hne
        obtain ⟨b, hb⟩ := wf.ann_next a ha (by simpa using hne)
        exact ⟨b, hb, (lookup_ok_mem hb).1⟩
    obtain ⟨first, hf, hfm⟩ := h1
    obtain ⟨last, hl, hlm⟩ := h2
    obtain ⟨sf, hsf⟩ := wf.ann_sample first hfm
    obtain ⟨sl, hsl⟩ := wf.ann_sample last hlm
    simp only [hf, hl, secsOf_ok hsf, secsOf_ok hsl]
    exact ⟨_, rfl⟩

theorem objectOf_total {T : Tables} (wf : WellFormed T) {cfg : Config}
    (hfr : cfg.frame = "BASE_LINK" ∨ cfg.frame = "MAP") (hfp : cfg.fpValidation = false)
    (time : Nat) (ego : EgoPose) (cs : CalibratedSensor)
    {a : Annotation} (ha : a ∈ T.annotations) : ∃ o, objectOf T cfg time ego cs a = .ok o := by
  have h1 : ∃ p, boxPose cfg.frame ego cs a = .ok p := by
    unfold boxPose
    rcases hfr with h | h <;> simp [h]
  have h2 : ∃ v, visibilityOf T a = .ok v := by
    unfold visibilityOf
    split
    · exact ⟨none, rfl⟩
    · rename_i hne
      have hne' : T.visibility ≠ [] := by simpa using hne
      obtain ⟨v, hv⟩ := wf.ann_visibility hne' a ha
      simp [hv, Except.map]
  have h3 : ∃ l, attributeNamesOf T a = .ok l := by
    unfold attributeNamesOf attributeNamesOfTokens
    apply mapE_ok_of_forall
    intro t ht
    obtain ⟨x, hx⟩ := wf.ann_attributes a ha t ht
    exact ⟨x.name, by simp [hx, Except.map]⟩
  have h4 : ∃ n, categoryNameOf T a = .ok n := by
    unfold categoryNameOf
    obtain ⟨i, hi⟩ := wf.ann_instance a ha
    obtain ⟨c, hc⟩ := wf.inst_category i (lookup_ok_mem hi).1
    exact ⟨c.name, by simp [hi, hc, bind, Except.bind, pure, Except.pure]⟩
  have h5 : ∃ t, trackedOf T cfg a = .ok t := by
    unfold trackedOf
    split
    · obtain ⟨recs, hr, hmem⟩ := pastRecords_ok wf ha
      obtain ⟨sts, hsts⟩ := mapE_ok_of_forall (f := pastStateOf T) (l := recs) (by
        intro r hr'
        obtain ⟨v, hv⟩ := velocityOf_ok wf false (hmem r hr')
        exact ⟨⟨annPose r, r.size, v⟩, by simp [pastStateOf, hv, Except.map]⟩)
      simp [hr, hsts, Except.map]
    · exact ⟨none, rfl⟩
  obtain ⟨p, hp⟩ := h1
  obtain ⟨v, hv⟩ := h2
  obtain ⟨l, hl⟩ := h3
  obtain ⟨n, hn⟩ := h4
  obtain ⟨t, ht⟩ := h5
  obtain ⟨vel, hvel⟩ := velocityOf_ok wf true ha
  simp [objectOf, hp, hv, hl, hn, ht, hvel, fpCheck, hfp, bind, Except.bind, pure, Except.pure]

theorem sampleToFrame_total {T : Tables} (wf : WellFormed T) {cfg : Config}
    (hfr : cfg.frame = "BASE_LINK" ∨ cfg.frame = "MAP") (hfp : cfg.fpValidation = false) (n : Nat) {s : Sample} (hs : s ∈ T.samples) :
    ∃ f, sampleToFrame T cfg n s = .ok f := by
  obtain ⟨sd, hsd⟩ := wf.lidar s hs
  have hm := lidarOf_mem hsd
  obtain ⟨e, he⟩ := wf.ego sd hm
  obtain ⟨c, hc⟩ := wf.calib sd hm
  obtain ⟨objs, ho⟩ := mapE_ok_of_forall (f := objectOf T cfg s.timestamp e c) (l := annsOf T s.token)
    (fun a ha => objectOf_total wf hfr hfp _ e c (annsOf_mem ha).1)
  obtain ⟨frs, hfrs⟩ := sensorFrames_total wf.sensors wf.rotations
  simp [sampleToFrame, hsd, hfr, he, hc, hfrs, ho, bind, Except.bind, pure, Except.pure]

theorem loadFrom_total {T : Tables} (wf : WellFormed T) {cfg : Config}
    (hfr : cfg.frame = "BASE_LINK" ∨ cfg.frame = "MAP") (hfp : cfg.fpValidation = false) :
    ∀ (l : List Sample) (n : Nat), (∀ s ∈ l, s ∈ T.samples) → ∃ fs, loadFrom T cfg n l = .ok fs
  | [], n, _ => ⟨[], rfl⟩
  | s :: rest, n, h => by
    obtain ⟨f, hf⟩ := sampleToFrame_total wf hfr hfp n (h s List.mem_cons_self)
    obtain ⟨fs, hfs⟩ := loadFrom_total wf hfr hfp rest (n + 1) (fun x hx => h x (List.mem_cons_of_mem _ hx))
    exact ⟨f :: fs, by simp [loadFrom, hf, hfs]⟩

end PEval.Dataset
