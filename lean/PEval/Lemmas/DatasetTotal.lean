import PEval.Lemmas.Dataset
/-!
Totality of the loader model on well-formed tables: the referential-integrity predicate
`WellFormed` (what "well-formed dataset" means for C16) and the proof that no lookup of the
pipeline can fail under it.
-/
namespace PEval.Dataset
open PEval

/-- Referential integrity of a table set: every token that the loader follows resolves, and every
sample has a lidar key frame (`LIDAR_TOP` or `LIDAR_CONCAT`). -/
structure WellFormed (T : Tables) : Prop where
  samples_ne : T.samples ≠ []
  lidar : ∀ s ∈ T.samples, ∃ sd, lidarOf T s.token = .ok sd
  ego : ∀ sd ∈ T.sampleData, ∃ e, lookup EgoPose.token T.egoPoses sd.egoPoseToken = .ok e
  calib : ∀ sd ∈ T.sampleData, ∃ c, lookup CalibratedSensor.token T.calibratedSensors sd.calibratedSensorToken = .ok c
  ann_sample : ∀ a ∈ T.annotations, ∃ s, lookup Sample.token T.samples a.sampleToken = .ok s
  ann_instance : ∀ a ∈ T.annotations, ∃ i, lookup Instance.token T.instances a.instanceToken = .ok i
  inst_category : ∀ i ∈ T.instances, ∃ c, lookup Named.token T.categories i.categoryToken = .ok c
  ann_attributes : ∀ a ∈ T.annotations, ∀ t ∈ a.attributeTokens, ∃ x, lookup Named.token T.attributes t = .ok x
  ann_visibility : T.visibility ≠ [] → ∀ a ∈ T.annotations, ∃ v, lookup Named.token T.visibility a.visibilityToken = .ok v
  ann_prev : ∀ a ∈ T.annotations, a.prev ≠ "" → ∃ b, lookup Annotation.token T.annotations a.prev = .ok b

theorem dataOf_mem {T : Tables} {tok ch : String} {sd : SampleData} (h : dataOf T tok ch = some sd) :
    sd ∈ T.sampleData := by
  unfold dataOf at h
  have := List.mem_of_find?_eq_some h
  simpa using this

theorem lidarOf_mem {T : Tables} {tok : String} {sd : SampleData} (h : lidarOf T tok = .ok sd) :
    sd ∈ T.sampleData := by
  unfold lidarOf at h
  split at h
  · rename_i sd' h1; cases h; exact dataOf_mem h1
  · split at h
    · rename_i sd' h2; cases h; exact dataOf_mem h2
    · cases h

theorem annsOf_mem {T : Tables} {tok : String} {a : Annotation} (h : a ∈ annsOf T tok) :
    a ∈ T.annotations ∧ a.sampleToken = tok := by
  unfold annsOf at h
  have := List.mem_filter.1 h
  exact ⟨this.1, by simpa using this.2⟩

theorem timeOf_ok {T : Tables} {tok : String} {s : Sample}
    (h : lookup Sample.token T.samples tok = .ok s) : timeOf T tok = .ok s.timestamp := by
  simp [timeOf, h, Except.map]

theorem pastRecords_ok {T : Tables} (wf : WellFormed T) {a : Annotation} (ha : a ∈ T.annotations) :
    ∃ recs, pastRecords T a = .ok recs := by
  unfold pastRecords
  obtain ⟨s, hs⟩ := wf.ann_sample a ha
  simp only [timeOf_ok hs]
  refine iterate_ok (fun c => c ∈ T.annotations) ?_ _ a 0 [] ha
  intro cur hcur hne
  obtain ⟨b, hb⟩ := wf.ann_prev cur hcur hne
  have hbm := (lookup_ok_mem hb).1
  obtain ⟨s', hs'⟩ := wf.ann_sample b hbm
  exact ⟨b, s'.timestamp, hb, timeOf_ok hs', hbm⟩

theorem objectOf_total {T : Tables} (wf : WellFormed T) {cfg : Config}
    (hfr : cfg.frame = "BASE_LINK" ∨ cfg.frame = "MAP") (time : Nat) (ego : EgoPose) (cs : CalibratedSensor)
    {a : Annotation} (ha : a ∈ T.annotations) : ∃ o, objectOf T cfg time ego cs a = .ok o := by
  have h1 : ∃ p, boxPose cfg.frame ego cs a = .ok p := by
    unfold boxPose
    rcases hfr with h | h <;> simp [h]
  have h2 : ∃ v, visibilityOf T a = .ok v := by
    unfold visibilityOf
    split
    · exact ⟨none, rfl⟩
    · rename_i hne
      have hne' : T.visibility ≠ [] := by simpa using hne
      obtain ⟨v, hv⟩ := wf.ann_visibility hne' a ha
      simp [hv, Except.map]
  have h3 : ∃ l, attributeNamesOf T a = .ok l := by
    unfold attributeNamesOf
    apply mapE_ok_of_forall
    intro t ht
    obtain ⟨x, hx⟩ := wf.ann_attributes a ha t ht
    exact ⟨x.name, by simp [hx, Except.map]⟩
  have h4 : ∃ n, categoryNameOf T a = .ok n := by
    unfold categoryNameOf
    obtain ⟨i, hi⟩ := wf.ann_instance a ha
    obtain ⟨c, hc⟩ := wf.inst_category i (lookup_ok_mem hi).1
    exact ⟨c.name, by simp [hi, hc, bind, Except.bind, pure, Except.pure]⟩
  have h5 : ∃ t, trackedOf T cfg a = .ok t := by
    unfold trackedOf
    split
    · obtain ⟨recs, hr⟩ := pastRecords_ok wf ha
      simp [hr, Except.map]
    · exact ⟨none, rfl⟩
  obtain ⟨p, hp⟩ := h1
  obtain ⟨v, hv⟩ := h2
  obtain ⟨l, hl⟩ := h3
  obtain ⟨n, hn⟩ := h4
  obtain ⟨t, ht⟩ := h5
  simp [objectOf, hp, hv, hl, hn, ht, bind, Except.bind, pure, Except.pure]

theorem sampleToFrame_total {T : Tables} (wf : WellFormed T) {cfg : Config}
    (hfr : cfg.frame = "BASE_LINK" ∨ cfg.frame = "MAP") (n : Nat) {s : Sample} (hs : s ∈ T.samples) :
    ∃ f, sampleToFrame T cfg n s = .ok f := by
  obtain ⟨sd, hsd⟩ := wf.lidar s hs
  have hm := lidarOf_mem hsd
  obtain ⟨e, he⟩ := wf.ego sd hm
  obtain ⟨c, hc⟩ := wf.calib sd hm
  obtain ⟨objs, ho⟩ := mapE_ok_of_forall (f := objectOf T cfg s.timestamp e c) (l := annsOf T s.token)
    (fun a ha => objectOf_total wf hfr _ e c (annsOf_mem ha).1)
  simp [sampleToFrame, hsd, hfr, he, hc, ho, bind, Except.bind, pure, Except.pure]

theorem loadFrom_total {T : Tables} (wf : WellFormed T) {cfg : Config}
    (hfr : cfg.frame = "BASE_LINK" ∨ cfg.frame = "MAP") :
    ∀ (l : List Sample) (n : Nat), (∀ s ∈ l, s ∈ T.samples) → ∃ fs, loadFrom T cfg n l = .ok fs
  | [], n, _ => ⟨[], rfl⟩
  | s :: rest, n, h => by
    obtain ⟨f, hf⟩ := sampleToFrame_total wf hfr n (h s List.mem_cons_self)
    obtain ⟨fs, hfs⟩ := loadFrom_total wf hfr rest (n + 1) (fun x hx => h x (List.mem_cons_of_mem _ hx))
    exact ⟨f :: fs, by simp [loadFrom, hf, hfs]⟩

end PEval.Dataset
