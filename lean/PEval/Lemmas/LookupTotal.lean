import PEval.Lemmas.LookupArith
/-!
Success companions for the interpolating branch of the lookup: `interpolateFrames` returns `.ok` on
well-formed neighbours (`interpolateFrames_total`); what the scan guarantees of its two neighbours
(`neighbours_bounds`), so that the `AssertionError` / `ZeroDivisionError` exits are unreachable from
`get_interpolated_now_frame`.
-/
namespace PEval.Lookup

/-- what the loader guarantees of a frame: the ego→map transform is registered and every object is in
`base_link` or in `map` -/
def Frame.WellFormed (f : Frame) : Prop := f.ego.isSome = true ∧ ∀ o ∈ f.objs, o.frame ≠ .other

/-- the stronger guarantee of the loader: all objects of the frame carry ONE frame id (`base_link` for a
LiDAR/ego dataset, `map` for a map dataset) -/
def Frame.Loaded (f : Frame) : Prop :=
  f.ego.isSome = true ∧ ∃ fid : FrameId, fid ≠ .other ∧ ∀ o ∈ f.objs, o.frame = fid

theorem Frame.Loaded.wellFormed {f : Frame} (h : f.Loaded) : f.WellFormed := by
  obtain ⟨he, fid, hne, hall⟩ := h
  exact ⟨he, fun o ho hf => hne (by rw [← hall o ho, hf])⟩

/-- the frame `interpolate_ground_truth_frames` builds when nothing raises -/
def interpResult (b a : Frame) (eb ea : Pose) (t : Int) : InterpFrame :=
  { baseId := b.id, time := t,
    egoTrans := Vec3.lerp eb.trans ea.trans (alpha b.time a.time t),
    egoTau := eb.tau + alpha b.time a.time t * arc eb.tau ea.tau,
    objs := interpolateObjectList (b.objs.map (globalOf eb)) (a.objs.map (globalOf ea)) b.time a.time t }

/-- totality of a direct call: ego poses present, `b.time ≤ t ≤ a.time`, `b.time ≠ a.time`, no object outside
`base_link` / `map` -/
theorem interpolateFrames_total' {b a : Frame} {eb ea : Pose} {t : Int} (hb : b.ego = some eb) (ha : a.ego = some ea)
    (h1 : b.time ≤ t) (h2 : t ≤ a.time) (h3 : a.time ≠ b.time) (hbo : ∀ o ∈ b.objs, o.frame ≠ .other)
    (hao : ∀ o ∈ a.objs, o.frame ≠ .other) :
    interpolateFrames b a t = .ok (interpResult b a eb ea t) := by
  unfold interpolateFrames
  rw [hb, ha]
  simp only
  rw [if_neg (by omega), if_neg h3, toGlobalList_of_frames eb _ hbo, toGlobalList_of_frames ea _ hao]
  rfl

/-- totality as the lookup calls it: ego poses present, `b.time ≤ t < a.time`, no object outside `base_link` / `map` -/
theorem interpolateFrames_total {b a : Frame} {eb ea : Pose} {t : Int} (hb : b.ego = some eb) (ha : a.ego = some ea)
    (h1 : b.time ≤ t) (h2 : t < a.time) (hbo : ∀ o ∈ b.objs, o.frame ≠ .other)
    (hao : ∀ o ∈ a.objs, o.frame ≠ .other) :
    interpolateFrames b a t = .ok (interpResult b a eb ea t) :=
  interpolateFrames_total' hb ha h1 (by omega) (by omega) hbo hao

/-- the error exits, exactly (complement of `interpolateFrames_total`) -/
theorem interpolateFrames_error_iff {b a : Frame} {t : Int} :
    (∃ k, interpolateFrames b a t = .error k) ↔
      (b.ego = none ∨ a.ego = none ∨ ¬ (b.time ≤ t ∧ t ≤ a.time) ∨ a.time = b.time ∨
        (∃ o ∈ b.objs ++ a.objs, o.frame = .other)) := by
  constructor
  · rintro ⟨k, hk⟩
    by_contra hcon
    rw [not_or, not_or, not_or, not_or] at hcon
    obtain ⟨h1, h2, h3, h4, h5⟩ := hcon
    have h3' : b.time ≤ t ∧ t ≤ a.time := Classical.not_not.1 h3
    obtain ⟨eb, heb⟩ := Option.ne_none_iff_exists'.1 h1
    obtain ⟨ea, hea⟩ := Option.ne_none_iff_exists'.1 h2
    rw [interpolateFrames_total' heb hea h3'.1 h3'.2 h4 (fun o ho hf => h5 ⟨o, List.mem_append_left _ ho, hf⟩)
      (fun o ho hf => h5 ⟨o, List.mem_append_right _ ho, hf⟩)] at hk
    cases hk
  · intro h
    cases hr : interpolateFrames b a t with
    | error k => exact ⟨k, rfl⟩
    | ok f =>
      exfalso
      obtain ⟨eb, ea, heb, hea, h1, h2, h3, h4, h5, _⟩ := interpolateFrames_ok hr
      rcases h with h | h | h | h | ⟨o, ho, hf⟩
      · rw [heb] at h; cases h
      · rw [hea] at h; cases h
      · exact h ⟨h1, h2⟩
      · exact h3 h
      · rcases List.mem_append.1 ho with ho | ho
        · exact h4 o ho hf
        · exact h5 o ho hf

/-- the scan's neighbours bracket the query: `before.time ≤ t < after.time`, and both are frames of the list -/
theorem neighbours_bounds (fs : List Frame) (t : Int) :
    (∀ b, (neighbours fs t).before = some b → b ∈ fs ∧ b.time ≤ t ∧ (neighbours fs t).dtBefore = t - b.time) ∧
    (∀ a, (neighbours fs t).after = some a → a ∈ fs ∧ t < a.time ∧ (neighbours fs t).dtAfter = a.time - t) := by
  obtain ⟨pre, post, h1, h2, h3, h4, h5, h6, h7⟩ := scan_split t fs none 0
  have h4' : (neighbours fs t).before = pre.getLast? := by rw [neighbours, h4]; simp
  constructor
  · intro b hb
    rw [h4'] at hb
    have hm : b ∈ pre := List.mem_of_getLast? hb
    refine ⟨by rw [h1]; exact List.mem_append_left _ hm, h2 b hm, ?_⟩
    rw [neighbours, h5, hb]; rfl
  · intro a ha
    have ha' : post.head? = some a := by rw [← h6]; exact ha
    have hm : a ∈ post := List.mem_of_head? ha'
    refine ⟨by rw [h1]; exact List.mem_append_right _ hm, h3 a ha', ?_⟩
    rw [neighbours, h7, ha']; rfl

/-- the only error of the conversion is `NotImplementedError` -/
theorem toGlobalList_error_kind (e : Pose) : ∀ (l : List Obj) (k : Err), toGlobalList e l = .error k →
    k = "NotImplementedError" := by
  intro l
  induction l with
  | nil => intro k h; cases h
  | cons o os ih =>
    intro k h
    simp only [toGlobalList] at h
    cases ho : toGlobal e o with
    | error k' =>
      rw [ho] at h
      simp only [Except.error.injEq] at h
      subst h
      unfold toGlobal at ho
      split at ho
      · simp only [Except.error.injEq] at ho; exact ho.symm
      · cases ho
    | ok go =>
      rw [ho] at h
      cases hos : toGlobalList e os with
      | error k' =>
        rw [hos] at h
        simp only [Except.error.injEq] at h
        subst h
        exact ih k' hos
      | ok gs => rw [hos] at h; cases h

theorem globalOf_map_frame {e : Pose} {o : Obj} (h : o.frame = .map) : globalOf e o = o := by
  unfold globalOf; rw [h]

theorem globalOf_baseLink {e : Pose} {o : Obj} (h : o.frame = .baseLink) :
    globalOf e o = { o with frame := .map, pos := e.apply o.pos, tau := e.tau + o.tau } := by
  unfold globalOf; rw [h]

theorem globalOf_uuid (e : Pose) (o : Obj) : (globalOf e o).uuid = o.uuid := by
  unfold globalOf; cases o.frame <;> rfl

theorem globalOf_frame_map {e : Pose} {o : Obj} (h : o.frame ≠ .other) : (globalOf e o).frame = .map := by
  unfold globalOf
  cases hf : o.frame with
  | baseLink => rfl
  | map => simp [hf]
  | other => exact absurd hf h

end PEval.Lookup
