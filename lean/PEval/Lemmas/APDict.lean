import PEval.Lemmas.APExt
import PEval.Lemmas.PipelineAP
/-!
Lemmas about the extended AP model, part 2: the per-label dicts of `Map`.

`Map.__init__` reads `object_results_dict` and `num_ground_truth_dict` by key, once per target label
(`mapLoop`: `lookupKey`). Hence (i) only the entries of the target labels matter, (ii) the insertion order
of the keys does not (`lookupKey_perm`), and (iii) at frame level, where `evaluate_frame` keys the dicts
by the label list of the critical-object filter, the order (and multiplicity) of that list does not
matter either: the entry of a listed label is the sub-list of the results filed under it, in input order
(`lookup_divideObjects_target`), and its ground-truth count (`lookup_divideObjectsToNum_target`).
-/

namespace PEval.AP

/-! ### dicts are read by key -/

theorem lookupKey_perm {β : Type} {L L' : List (Label × β)} (h : L.Perm L')
    (nd : (L.map Prod.fst).Nodup) (l : Label) : lookupKey l L = lookupKey l L' := by
  induction h with
  | nil => rfl
  | cons x _ ih =>
    obtain ⟨k, v⟩ := x
    unfold lookupKey
    rw [ih (List.nodup_cons.1 nd).2]
  | swap x y t =>
    obtain ⟨k, v⟩ := x
    obtain ⟨k', v'⟩ := y
    have hne : k' ≠ k := by
      intro e
      simp only [List.map_cons, List.nodup_cons, List.mem_cons] at nd
      exact nd.1 (Or.inl e)
    simp only [lookupKey]
    by_cases h1 : (k == l) = true
    · by_cases h2 : (k' == l) = true
      · exfalso
        have e1 : k = l := by simpa using h1
        have e2 : k' = l := by simpa using h2
        exact hne (e2.trans e1.symm)
      · simp [h1, h2]
    · simp [h1]
  | trans h1 _ ih1 ih2 =>
    rw [ih1 nd]
    exact ih2 ((h1.map Prod.fst).nodup_iff.1 nd)

theorem mapLoop_congr {m : Mode} {is2d : Bool} {b b' : List (Label × List (List Res))}
    {n n' : List (Label × Nat)} : ∀ (tz : List (Label × Rat)),
    (∀ p ∈ tz, lookupKey p.1 b = lookupKey p.1 b') → (∀ p ∈ tz, lookupKey p.1 n = lookupKey p.1 n') →
    mapLoop m is2d b n tz = mapLoop m is2d b' n' tz
  | [], _, _ => rfl
  | (l, t) :: rest, hb, hn => by
    unfold mapLoop
    rw [hb (l, t) (List.mem_cons_self ..), hn (l, t) (List.mem_cons_self ..),
      mapLoop_congr rest (fun p hp => hb p (List.mem_cons_of_mem _ hp))
        (fun p hp => hn p (List.mem_cons_of_mem _ hp))]

theorem mapLoopE_congr {m : Mode} {is2d : Bool} {b b' : List (Label × List (List Res))}
    {n n' : List (Label × Nat)} : ∀ (tz : List (Label × EThr)),
    (∀ p ∈ tz, lookupKey p.1 b = lookupKey p.1 b') → (∀ p ∈ tz, lookupKey p.1 n = lookupKey p.1 n') →
    mapLoopE m is2d b n tz = mapLoopE m is2d b' n' tz
  | [], _, _ => rfl
  | (l, t) :: rest, hb, hn => by
    unfold mapLoopE
    rw [hb (l, t) (List.mem_cons_self ..), hn (l, t) (List.mem_cons_self ..),
      mapLoopE_congr rest (fun p hp => hb p (List.mem_cons_of_mem _ hp))
        (fun p hp => hn p (List.mem_cons_of_mem _ hp))]

theorem mapOf_congr {m : Mode} {is2d : Bool} {T : List Label} {th : List Rat}
    {b b' : List (Label × List (List Res))} {n n' : List (Label × Nat)}
    (hb : ∀ l ∈ T, lookupKey l b = lookupKey l b') (hn : ∀ l ∈ T, lookupKey l n = lookupKey l n') :
    mapOf m is2d T th b n = mapOf m is2d T th b' n' := by
  unfold mapOf
  rw [mapLoop_congr (T.zip th) (fun p hp => hb p.1 (List.of_mem_zip hp).1)
    (fun p hp => hn p.1 (List.of_mem_zip hp).1)]

theorem mapOfE_congr {m : Mode} {is2d : Bool} {T : List Label} {th : List EThr}
    {b b' : List (Label × List (List Res))} {n n' : List (Label × Nat)}
    (hb : ∀ l ∈ T, lookupKey l b = lookupKey l b') (hn : ∀ l ∈ T, lookupKey l n = lookupKey l n') :
    mapOfE m is2d T th b n = mapOfE m is2d T th b' n' := by
  unfold mapOfE
  rw [mapLoopE_congr (T.zip th) (fun p hp => hb p.1 (List.of_mem_zip hp).1)
    (fun p hp => hn p.1 (List.of_mem_zip hp).1)]

/-! ### the entry of a listed label in `divide_objects(results, labels)` -/

theorem lookupKey_bucketAdd_self {β : Type} {l : Label} {x : β} {acc : List (Label × List β)}
    {v : List β} (h : lookupKey l acc = .ok v) : lookupKey l (bucketAdd l x acc) = .ok (v ++ [x]) := by
  induction acc with
  | nil => simp [lookupKey] at h
  | cons kv t ih =>
    obtain ⟨k, w⟩ := kv
    unfold lookupKey at h
    by_cases hk : (k == l) = true
    · simp only [hk, if_true, Except.ok.injEq] at h
      simp [bucketAdd, hk, lookupKey, h]
    · simp only [hk, if_false, Bool.false_eq_true] at h
      simp only [bucketAdd, hk, if_false, Bool.false_eq_true, lookupKey]
      exact ih h

theorem lookupKey_bucketAdd_ne {β : Type} {l l' : Label} (hne : l' ≠ l) (x : β)
    (acc : List (Label × List β)) : lookupKey l (bucketAdd l' x acc) = lookupKey l acc := by
  have hb : (l' == l) = false := by simpa using hne
  induction acc with
  | nil => simp [bucketAdd, lookupKey, hb]
  | cons kv t ih =>
    obtain ⟨k, v⟩ := kv
    by_cases hk : (k == l') = true
    · have hkl : k = l' := by simpa using hk
      have hkb : (k == l) = false := by rw [hkl]; exact hb
      simp [bucketAdd, hk, lookupKey, hkb]
    · simp only [bucketAdd, hk, if_false, Bool.false_eq_true, lookupKey]
      by_cases hkl : (k == l) = true
      · simp [hkl]
      · simp only [hkl, if_false, Bool.false_eq_true]
        exact ih

/-- the bucket of a listed label: the results filed under it, in input order -/
theorem lookup_divideObjects_target {ts : List Label} (rs : List Res) {l : Label}
    (hl : ts.contains l = true) :
    lookupKey l (divideObjects (some ts) rs)
      = .ok (rs.filter (fun r => bucketLabel (some ts) r == some l)) := by
  unfold divideObjects
  simp only [Option.getD_some]
  have gen : ∀ (xs : List Res) (acc : List (Label × List Res)) (v : List Res), lookupKey l acc = .ok v →
      lookupKey l (xs.foldl (fun acc r =>
        match bucketLabel (some ts) r with
        | some l' => bucketAdd l' r acc
        | none => acc) acc)
        = .ok (v ++ xs.filter (fun r => bucketLabel (some ts) r == some l)) := by
    intro xs
    induction xs with
    | nil => intro acc v hv; simpa using hv
    | cons x t ih =>
      intro acc v hv
      simp only [List.foldl_cons, List.filter_cons]
      cases hb : bucketLabel (some ts) x with
      | none =>
        simp only [reduceCtorEq, beq_iff_eq, if_false]
        exact ih _ v hv
      | some l' =>
        by_cases e : l' = l
        · subst e
          simp only [beq_self_eq_true, if_true]
          rw [ih _ (v ++ [x]) (lookupKey_bucketAdd_self hv)]
          simp
        · have : (some l' == some l) = false := by simpa using e
          simp only [this, Bool.false_eq_true, if_false]
          exact ih _ v (by rw [lookupKey_bucketAdd_ne e]; exact hv)
  have h0 : lookupKey l (ts.map (fun k => (k, ([] : List Res)))) = .ok [] := by
    rw [lookupKey_init, hl]; rfl
  refine (gen rs _ [] h0).trans ?_
  simp

/-- the count of a listed label: the number of ground truths carrying it -/
theorem lookup_divideObjectsToNum_target {ts : List Label} (ls : List Label) {l : Label}
    (hl : ts.contains l = true) :
    lookupKey l (divideObjectsToNum (some ts) ls) = .ok (ls.filter (fun k => k == l)).length := by
  unfold divideObjectsToNum
  simp only [Option.getD_some]
  have gen : ∀ (xs : List Label) (acc : List (Label × Nat)) (n : Nat), lookupKey l acc = .ok n →
      lookupKey l (xs.foldl (fun acc l' => if ts.contains l' then countAdd l' acc else acc) acc)
        = .ok (n + (xs.filter (fun k => k == l)).length) := by
    intro xs
    induction xs with
    | nil => intro acc n hn; simpa using hn
    | cons x t ih =>
      intro acc n hn
      simp only [List.foldl_cons, List.filter_cons]
      by_cases hx : (x == l) = true
      · have e : x = l := by simpa using hx
        rw [e] at *
        simp only [hl, if_true, beq_self_eq_true, List.length_cons]
        rw [ih _ (n + 1) (lookupKey_countAdd_self hn)]
        congr 1
        omega
      · have e : x ≠ l := by simpa using hx
        simp only [hx, if_false, Bool.false_eq_true]
        by_cases hc : ts.contains x = true
        · simp only [hc, if_true]
          exact ih _ n (by rw [lookupKey_countAdd_ne e]; exact hn)
        · simp only [hc, if_false, Bool.false_eq_true]
          exact ih _ n hn
  have h0 : lookupKey l (ts.map (fun k => (k, 0))) = .ok 0 := by
    rw [lookupKey_init, hl]; rfl
  refine (gen ls _ 0 h0).trans ?_
  simp

theorem lookupKey_map {β γ : Type} (f : β → γ) (l : Label) (L : List (Label × β)) :
    lookupKey l (L.map (fun kv => (kv.1, f kv.2))) = (lookupKey l L).map f := by
  induction L with
  | nil => rfl
  | cons kv t ih =>
    obtain ⟨k, v⟩ := kv
    simp only [List.map_cons, lookupKey]
    by_cases hk : (k == l) = true
    · simp [hk, Except.map]
    · simp only [hk, Bool.false_eq_true, if_false]
      exact ih

/-- two label lists with the same members file every result under the same label -/
theorem bucketLabel_congr {ts ts' : List Label} (h : ∀ l, ts.contains l = ts'.contains l) (r : Res) :
    bucketLabel (some ts) r = bucketLabel (some ts') r := by
  unfold bucketLabel
  simp only [h]

/-- frame level: the dicts keyed by `divT`, another listing of the labels of `T`, give `Map` what the
dicts keyed by `T` give it -/
theorem frameMapE_label_order {m : Mode} {is2d : Bool} {divT T : List Label} (th : List EThr)
    (rs : List Res) (gtLabels : List Label) (h : ∀ l, divT.contains l = T.contains l) :
    frameMapE m is2d divT T th rs gtLabels = frameMapE m is2d T T th rs gtLabels := by
  unfold frameMapE
  apply mapOfE_congr
  · intro l hl
    have hT : T.contains l = true := by simpa using hl
    have hD : divT.contains l = true := by rw [h]; exact hT
    rw [lookupKey_map (fun v => [v]), lookupKey_map (fun v => [v]), lookup_divideObjects_target rs hT,
      lookup_divideObjects_target rs hD]
    simp only [bucketLabel_congr h]
  · intro l hl
    have hT : T.contains l = true := by simpa using hl
    have hD : divT.contains l = true := by rw [h]; exact hT
    rw [lookup_divideObjectsToNum_target gtLabels hT, lookup_divideObjectsToNum_target gtLabels hD]

end PEval.AP
