import PEval.Model.Label
/-! General facts about the two lookup loops of `LabelConverter` (core Lean only). -/
namespace PEval.Label

theorem convertLabel_congr (t : Table) {s s' : String} (h : s.toLower = s'.toLower) :
    convertLabel t s = convertLabel t s' := by
  unfold convertLabel; rw [h]

theorem convertName_congr (t : Table) {s s' : String} (h : s.toLower = s'.toLower) :
    convertName t s = convertName t s' := by
  unfold convertName; rw [h]

/-- lookup by an already lower-cased key -/
def lookupFirst (t : Table) (k : String) : Option String := (t.find? (fun p => p.2 == k)).map (·.1)
def lookupLast (t : Table) (k : String) : Option String :=
  t.foldl (fun acc p => if p.2 == k then some p.1 else acc) none

theorem convertLabel_eq (t : Table) (s : String) :
    convertLabel t s = (lookupFirst t s.toLower).getD "UNKNOWN" := by
  unfold convertLabel lookupFirst
  cases t.find? (fun p => p.2 == s.toLower) <;> rfl

theorem convertName_eq (t : Table) (s : String) :
    convertName t s = (lookupLast t s.toLower).getD "UNKNOWN" := rfl

theorem lookupFirst_none {t : Table} {k : String} (h : k ∉ regNames t) : lookupFirst t k = none := by
  unfold lookupFirst
  have : t.find? (fun p => p.2 == k) = none := by
    rw [List.find?_eq_none]
    intro p hp hpk
    exact h (List.mem_map.2 ⟨p, hp, by simpa using hpk⟩)
  simp [this]

theorem lookupFirst_mem {t : Table} {p : String × String} (hnd : (regNames t).Nodup) (hp : p ∈ t) :
    lookupFirst t p.2 = some p.1 := by
  induction t with
  | nil => cases hp
  | cons a t ih =>
    simp only [regNames, List.map_cons, List.nodup_cons] at hnd
    unfold lookupFirst
    simp only [List.find?_cons]
    by_cases h : a.2 = p.2
    · simp only [h, beq_self_eq_true, Option.map_some]
      rcases List.mem_cons.1 hp with rfl | hp'
      · rfl
      · exact absurd (h ▸ List.mem_map.2 ⟨p, hp', rfl⟩) hnd.1
    · have hne : (a.2 == p.2) = false := by simpa using h
      simp only [hne]
      rcases List.mem_cons.1 hp with rfl | hp'
      · exact absurd rfl h
      · exact ih hnd.2 hp'

theorem foldl_last_none (t : Table) (k : String) (acc : Option String) (h : k ∉ regNames t) :
    t.foldl (fun acc p => if p.2 == k then some p.1 else acc) acc = acc := by
  induction t generalizing acc with
  | nil => rfl
  | cons a t ih =>
    simp only [regNames, List.map_cons, List.mem_cons, not_or] at h
    have hne : (a.2 == k) = false := by
      simpa using fun e => h.1 e.symm
    simp only [List.foldl_cons, hne]
    exact ih acc h.2

/-- with pairwise distinct registered names the last match is the first match -/
theorem lookupLast_eq_first {t : Table} (hnd : (regNames t).Nodup) (k : String) :
    lookupLast t k = lookupFirst t k := by
  unfold lookupLast lookupFirst
  induction t with
  | nil => rfl
  | cons a t ih =>
    simp only [regNames, List.map_cons, List.nodup_cons] at hnd
    simp only [List.foldl_cons, List.find?_cons]
    by_cases h : a.2 = k
    · have hk : k ∉ regNames t := h ▸ hnd.1
      simp only [h, beq_self_eq_true, if_true, Option.map_some]
      exact foldl_last_none t k (some a.1) hk
    · have hne : (a.2 == k) = false := by simpa using h
      simp only [hne]
      exact ih hnd.2

theorem convertName_eq_convertLabel {t : Table} (hnd : (regNames t).Nodup) (s : String) :
    convertName t s = convertLabel t s := by
  rw [convertName_eq, convertLabel_eq, lookupLast_eq_first hnd]

/-- entrywise relabelling of a table commutes with the lookup -/
theorem lookupFirst_map (f : String → String) (t : Table) (k : String) :
    lookupFirst (t.map (fun p => (f p.1, p.2))) k = (lookupFirst t k).map f := by
  unfold lookupFirst
  induction t with
  | nil => rfl
  | cons a t ih =>
    simp only [List.map_cons, List.find?_cons]
    by_cases h : (a.2 == k) = true
    · simp [h]
    · have : (a.2 == k) = false := by simpa using h
      simp only [this]; exact ih

theorem convertLabel_map (f : String → String) (hf : f "UNKNOWN" = "UNKNOWN") (t : Table) (s : String) :
    convertLabel (t.map (fun p => (f p.1, p.2))) s = f (convertLabel t s) := by
  rw [convertLabel_eq, convertLabel_eq, lookupFirst_map]
  cases lookupFirst t s.toLower <;> simp [hf]

end PEval.Label
