import PEval.Lemmas.ClearScenario
/-!
Helper lemmas for C05, part 6: when the previous frame pairs tracks one-to-one, the switch booked by the scan does
not depend on the scan order: it is booked iff the current result is TP and some previous TP has a
conflicting pairing.
-/

namespace PEval.Clear

theorem no_conflict_of_samePair {c p q : Res} (h1 : samePair c q = true) (h2 : sameEst p q = sameGt p q) :
    conflict c p = false := by
  unfold samePair conflict bothGt sameEst sameGt at *
  cases hc : c.gt <;> cases hp : p.gt <;> cases hq : q.gt <;> simp_all
  grind

theorem countsSwitch_eq_switchedTp (cfg : Cfg) (prev : List Res) (c : Res)
    (h11 : ∀ t, labelThreshold cfg (keyLabel c) = some t → OneToOne cfg t prev) :
    countsSwitch cfg prev c = switchedTp cfg prev c := by
  unfold countsSwitch switchedTp outcome
  cases ht : labelThreshold cfg (keyLabel c) with
  | none => rfl
  | some t =>
    simp only
    have h1 := h11 t ht
    cases hc : isTp cfg t c with
    | false =>
      cases scan cfg t c prev <;> simp
    | true =>
      simp only [Bool.true_and]
      cases hs : scan cfg t c prev with
      | switched =>
        simp only [if_true]
        obtain ⟨pre, p, post, he, hp, hsw, _⟩ := (scan_switched_iff cfg t c prev).mp hs
        symm
        rw [List.any_eq_true]
        refine ⟨p, by rw [he]; simp, ?_⟩
        rw [← isIdSwitched_eq_conflict, hp, hsw]; rfl
      | nothing =>
        simp only [if_true]
        symm
        rw [List.any_eq_false]
        intro p hp
        have := (scan_nothing_iff cfg t c prev).mp hs p hp
        cases htp : isTp cfg t p with
        | false => simp
        | true =>
          have := (this htp).1
          rw [isIdSwitched_eq_conflict] at this
          simp [this]
      | same q =>
        simp only
        symm
        rw [List.any_eq_false]
        intro p hp
        obtain ⟨hq, htq, hsm⟩ := scan_same cfg t c prev q hs
        rw [isSameMatch_eq_samePair] at hsm
        cases htp : isTp cfg t p with
        | false => simp
        | true =>
          have := no_conflict_of_samePair hsm (h1 p hp q hq htp htq)
          simp [this]

theorem events_prev_oneToOne (cfg : Cfg) (hist : List (List Res)) (h : PrevOneToOne cfg hist) :
    ∀ e ∈ events hist, ∀ lt ∈ cfg.thresholds, OneToOne cfg lt.2 e.1 := by
  match hist with
  | [] => intro e he; simp [events] at he
  | [_] => intro e he; simp [events] at he
  | prev :: cur :: rest =>
    intro e he
    simp only [events, List.mem_append, List.mem_map] at he
    rcases he with ⟨c, _, rfl⟩ | he
    · exact h.1
    · exact events_prev_oneToOne cfg (cur :: rest) h.2 e he

end PEval.Clear
