import PEval.Model.Matching
/-!
Helper lemmas about the greedy matcher model (core Lean only): the strict order `better`, first
arg-best, the candidate list, and the bookkeeping invariant of one matching loop (`MInv`).
-/
namespace PEval.Matching

/-! ## the strict order -/

theorem better_irrefl (mx : Bool) (a : Rat) : better mx a a = false := by
  unfold better; cases mx <;> simp

theorem better_asymm (mx : Bool) (a b : Rat) (h : better mx a b = true) : better mx b a = false := by
  unfold better at *; cases mx <;> simp at * <;> grind

/-- `x` strictly better than `c`, and `c` at least as good as `d` (`d` not better than `c`): `x` is strictly
better than `d` -/
theorem better_of_better_of_not_better (mx : Bool) (x c d : Rat) (h1 : better mx x c = true)
    (h2 : better mx d c = false) : better mx x d = true := by
  unfold better at *; cases mx <;> simp at * <;> grind

theorem better_trans (mx : Bool) (a b c : Rat) (h1 : better mx a b = true) (h2 : better mx b c = true) :
    better mx a c = true := by
  unfold better at *; cases mx <;> simp at * <;> grind

/-- not better in either direction = equal scores -/
theorem eq_of_not_better (mx : Bool) (a b : Rat) (h1 : better mx a b = false) (h2 : better mx b a = false) :
    a = b := by
  unfold better at *; cases mx <;> simp at * <;> grind

/-! ## first arg-best -/

theorem argBest_none (mx : Bool) (l) (h : argBest mx l = none) : l = [] := by
  cases l with
  | nil => rfl
  | cons a as => simp only [argBest] at h; split at h <;> (try split at h) <;> simp at h

theorem argBest_nil_iff (mx : Bool) (l) : argBest mx l = none ↔ l = [] :=
  ⟨argBest_none mx l, fun h => by subst h; rfl⟩

theorem argBest_mem (mx : Bool) (l : List (Nat × Nat × Rat)) (c) (h : argBest mx l = some c) : c ∈ l := by
  induction l generalizing c with
  | nil => simp [argBest] at h
  | cons a as ih =>
    simp only [argBest] at h
    split at h
    · simp at h; simp [h]
    · rename_i d hd
      split at h
      · simp at h; subst h; exact List.mem_cons_of_mem _ (ih d hd)
      · simp at h; simp [h]

/-- no candidate is strictly better than the pick -/
theorem argBest_opt (mx : Bool) (l : List (Nat × Nat × Rat)) (c) (h : argBest mx l = some c) :
    ∀ x ∈ l, better mx x.2.2 c.2.2 = false := by
  induction l generalizing c with
  | nil => simp [argBest] at h
  | cons a as ih =>
    simp only [argBest] at h
    split at h
    · rename_i hn
      simp at h; subst h
      have := argBest_none mx as hn; subst this
      intro x hx; simp at hx; subst hx; exact better_irrefl _ _
    · rename_i d hd
      have ihd := ih d hd
      split at h
      · rename_i hb
        simp at h; subst h
        intro x hx
        simp at hx
        rcases hx with rfl | hx
        · exact better_asymm _ _ _ hb
        · exact ihd x hx
      · rename_i hb
        simp at h; subst h
        intro x hx
        simp at hx
        rcases hx with rfl | hx
        · exact better_irrefl _ _
        · have hxd := ihd x hx
          cases hxa : better mx x.2.2 a.2.2 with
          | false => rfl
          | true =>
            have hda : better mx d.2.2 a.2.2 = false := by simpa using hb
            have := better_of_better_of_not_better mx _ _ _ hxa hda
            rw [this] at hxd; cases hxd

/-! ## candidates -/

theorem mem_cands_iff {t : Tbl} {s1 : Bool} {es gs : List Nat} {i j : Nat} {s : Rat} :
    (i, j, s) ∈ cands t s1 es gs ↔
      i ∈ es ∧ j ∈ gs ∧ t.score i j = some s ∧ (s1 = true → t.valid i j = true) := by
  simp only [cands, List.mem_flatMap, List.mem_filterMap]
  constructor
  · rintro ⟨i', hi', j', hj', h⟩
    split at h
    · simp at h
    · rename_i s' hs'
      split at h
      · simp at h
      · rename_i hv
        simp at h
        obtain ⟨rfl, rfl, rfl⟩ := h
        refine ⟨hi', hj', hs', ?_⟩
        intro h1; subst h1; simpa using hv
  · rintro ⟨hi, hj, hs, hv⟩
    refine ⟨i, hi, j, hj, ?_⟩
    rw [hs]
    cases s1 with
    | false => simp
    | true => simp [hv rfl]

/-- what `stage` does when it picks: the pick is a candidate and optimal among the candidates -/
theorem pick_spec {t : Tbl} {s1 : Bool} {es gs : List Nat} {i j : Nat} {s : Rat}
    (h : argBest t.maximize (cands t s1 es gs) = some (i, j, s)) :
    i ∈ es ∧ j ∈ gs ∧ t.score i j = some s ∧ (s1 = true → t.valid i j = true) ∧
      ∀ i' j' s', i' ∈ es → j' ∈ gs → t.score i' j' = some s' → (s1 = true → t.valid i' j' = true) →
        better t.maximize s' s = false := by
  have hm := mem_cands_iff.1 (argBest_mem _ _ _ h)
  refine ⟨hm.1, hm.2.1, hm.2.2.1, hm.2.2.2, ?_⟩
  intro i' j' s' hi hj hs hv
  exact argBest_opt _ _ _ h (i', j', s') (mem_cands_iff.2 ⟨hi, hj, hs, hv⟩)

/-! ## unfolding one loop -/

theorem stage_zero (t : Tbl) (s1 : Bool) (st : St) : stage t s1 0 st = st := rfl

theorem stage_succ_none {t : Tbl} {s1 : Bool} {n : Nat} {st : St}
    (h : argBest t.maximize (cands t s1 st.es st.gs) = none) : stage t s1 (n + 1) st = st := by
  simp [stage, h]

theorem stage_succ_some {t : Tbl} {s1 : Bool} {n : Nat} {st : St} {i j : Nat} {s : Rat}
    (h : argBest t.maximize (cands t s1 st.es st.gs) = some (i, j, s)) :
    stage t s1 (n + 1) st =
      stage t s1 n { es := st.es.erase i, gs := st.gs.erase j, pairs := st.pairs ++ [(i, j)] } := by
  simp [stage, h]

/-- induction principle for `stage`: a predicate that holds initially and is preserved by every pick -/
theorem stage_induction {t : Tbl} {s1 : Bool} (P : St → Prop)
    (step : ∀ st i j s, P st → argBest t.maximize (cands t s1 st.es st.gs) = some (i, j, s) →
      P { es := st.es.erase i, gs := st.gs.erase j, pairs := st.pairs ++ [(i, j)] })
    (fuel : Nat) (st : St) (h : P st) : P (stage t s1 fuel st) := by
  induction fuel generalizing st with
  | zero => exact h
  | succ n ih =>
    cases hb : argBest t.maximize (cands t s1 st.es st.gs) with
    | none => rw [stage_succ_none hb]; exact h
    | some c =>
      obtain ⟨i, j, s⟩ := c
      rw [stage_succ_some hb]
      exact ih _ (step st i j s h hb)

/-! ## bookkeeping invariant -/

/-- invariant of the matching loops relative to the initial index lists `es0`, `gs0` -/
structure MInv (t : Tbl) (es0 gs0 : List Nat) (st : St) : Prop where
  esEq : st.es = es0.filter (fun i => !(st.pairs.map (·.1)).contains i)
  gsEq : st.gs = gs0.filter (fun j => !(st.pairs.map (·.2)).contains j)
  pE : (st.pairs.map (·.1)).Nodup
  pG : (st.pairs.map (·.2)).Nodup
  subE : ∀ p ∈ st.pairs, p.1 ∈ es0
  subG : ∀ p ∈ st.pairs, p.2 ∈ gs0
  sc : ∀ p ∈ st.pairs, ∃ s, t.score p.1 p.2 = some s

theorem MInv.init (t : Tbl) (es0 gs0 : List Nat) : MInv t es0 gs0 { es := es0, gs := gs0, pairs := [] } := by
  constructor
  · exact (List.filter_eq_self.2 (by simp)).symm
  · exact (List.filter_eq_self.2 (by simp)).symm
  all_goals simp

theorem mem_filter_not_contains {l0 seen : List Nat} {a : Nat} :
    a ∈ l0.filter (fun x => !seen.contains x) ↔ a ∈ l0 ∧ a ∉ seen := by
  rw [List.mem_filter]; simp

theorem erase_filter_step {l0 : List Nat} (hnd : l0.Nodup) (seen : List Nat) (i : Nat) :
    (l0.filter (fun a => !seen.contains a)).erase i = l0.filter (fun a => !(seen ++ [i]).contains a) := by
  rw [List.Nodup.erase_eq_filter (hnd.filter _), List.filter_filter]
  apply List.filter_congr
  intro a _
  by_cases h1 : a = i <;> by_cases h2 : a ∈ seen <;> simp [h1, h2]

theorem MInv.step {t : Tbl} {s1 : Bool} {es0 gs0 : List Nat} (hE : es0.Nodup) (hG : gs0.Nodup)
    {st : St} {i j : Nat} {s : Rat} (h : MInv t es0 gs0 st)
    (hb : argBest t.maximize (cands t s1 st.es st.gs) = some (i, j, s)) :
    MInv t es0 gs0 { es := st.es.erase i, gs := st.gs.erase j, pairs := st.pairs ++ [(i, j)] } := by
  obtain ⟨hi, hj, hs, _, _⟩ := pick_spec hb
  have hi' := hi; have hj' := hj
  rw [h.esEq, mem_filter_not_contains] at hi'
  rw [h.gsEq, mem_filter_not_contains] at hj'
  constructor
  · show st.es.erase i = _
    rw [h.esEq, erase_filter_step hE]; simp
  · show st.gs.erase j = _
    rw [h.gsEq, erase_filter_step hG]; simp
  · simp only [List.map_append, List.map_cons, List.map_nil]
    rw [List.nodup_append]
    refine ⟨h.pE, by simp, ?_⟩
    intro a ha b hb'
    simp at hb'; subst hb'
    intro heq; subst heq
    exact hi'.2 ha
  · simp only [List.map_append, List.map_cons, List.map_nil]
    rw [List.nodup_append]
    refine ⟨h.pG, by simp, ?_⟩
    intro a ha b hb'
    simp at hb'; subst hb'
    intro heq; subst heq
    exact hj'.2 ha
  · intro p hp
    simp only [List.mem_append, List.mem_singleton] at hp
    rcases hp with hp | rfl
    · exact h.subE p hp
    · exact hi'.1
  · intro p hp
    simp only [List.mem_append, List.mem_singleton] at hp
    rcases hp with hp | rfl
    · exact h.subG p hp
    · exact hj'.1
  · intro p hp
    simp only [List.mem_append, List.mem_singleton] at hp
    rcases hp with hp | rfl
    · exact h.sc p hp
    · exact ⟨s, hs⟩

theorem stage_inv {t : Tbl} {s1 : Bool} {es0 gs0 : List Nat} (hE : es0.Nodup) (hG : gs0.Nodup)
    (fuel : Nat) (st : St) (h : MInv t es0 gs0 st) : MInv t es0 gs0 (stage t s1 fuel st) :=
  stage_induction (MInv t es0 gs0) (fun _ _ _ _ hst hb => MInv.step hE hG hst hb) fuel st h

theorem matchFrom_inv (t : Tbl) {es0 gs0 : List Nat} (hE : es0.Nodup) (hG : gs0.Nodup) :
    MInv t es0 gs0 (matchFrom t es0 gs0) := by
  unfold matchFrom
  exact stage_inv hE hG _ _ (stage_inv hE hG _ _ (MInv.init t es0 gs0))

/-! consequences of the invariant -/

theorem MInv.es_nodup {t es0 gs0 st} (h : MInv t es0 gs0 st) (hE : es0.Nodup) : st.es.Nodup := by
  rw [h.esEq]; exact hE.filter _

theorem MInv.gs_nodup {t es0 gs0 st} (h : MInv t es0 gs0 st) (hG : gs0.Nodup) : st.gs.Nodup := by
  rw [h.gsEq]; exact hG.filter _

/-- estimates of the pairs together with the remaining estimates are a rearrangement of the input -/
theorem MInv.permE {t es0 gs0 st} (h : MInv t es0 gs0 st) (hE : es0.Nodup) :
    (st.pairs.map (·.1) ++ st.es).Perm es0 := by
  rw [List.perm_ext_iff_of_nodup _ hE]
  · intro a
    rw [List.mem_append, h.esEq, mem_filter_not_contains]
    constructor
    · rintro (ha | ha)
      · obtain ⟨p, hp, rfl⟩ := List.mem_map.1 ha
        exact h.subE p hp
      · exact ha.1
    · intro ha
      by_cases hm : a ∈ st.pairs.map (·.1)
      · exact Or.inl hm
      · exact Or.inr ⟨ha, hm⟩
  · rw [List.nodup_append]
    refine ⟨h.pE, h.es_nodup hE, ?_⟩
    intro a ha b hb hab
    subst hab
    rw [h.esEq, mem_filter_not_contains] at hb
    exact hb.2 ha

theorem MInv.permG {t es0 gs0 st} (h : MInv t es0 gs0 st) (hG : gs0.Nodup) :
    (st.pairs.map (·.2) ++ st.gs).Perm gs0 := by
  rw [List.perm_ext_iff_of_nodup _ hG]
  · intro a
    rw [List.mem_append, h.gsEq, mem_filter_not_contains]
    constructor
    · rintro (ha | ha)
      · obtain ⟨p, hp, rfl⟩ := List.mem_map.1 ha
        exact h.subG p hp
      · exact ha.1
    · intro ha
      by_cases hm : a ∈ st.pairs.map (·.2)
      · exact Or.inl hm
      · exact Or.inr ⟨ha, hm⟩
  · rw [List.nodup_append]
    refine ⟨h.pG, h.gs_nodup hG, ?_⟩
    intro a ha b hb hab
    subst hab
    rw [h.gsEq, mem_filter_not_contains] at hb
    exact hb.2 ha

/-! ## the pairs made by one loop -/

/-- a loop only appends: its result is the old pair list followed by candidates of that loop -/
theorem stage_pairs_append (t : Tbl) (s1 : Bool) (fuel : Nat) (st : St) :
    ∃ new, (stage t s1 fuel st).pairs = st.pairs ++ new ∧
      ∀ p ∈ new, p.1 ∈ st.es ∧ p.2 ∈ st.gs ∧ (∃ s, t.score p.1 p.2 = some s) ∧
        (s1 = true → t.valid p.1 p.2 = true) := by
  induction fuel generalizing st with
  | zero => exact ⟨[], by simp [stage], by simp⟩
  | succ n ih =>
    cases hb : argBest t.maximize (cands t s1 st.es st.gs) with
    | none => rw [stage_succ_none hb]; exact ⟨[], by simp, by simp⟩
    | some c =>
      obtain ⟨i, j, s⟩ := c
      rw [stage_succ_some hb]
      obtain ⟨hi, hj, hs, hv, _⟩ := pick_spec hb
      obtain ⟨new, hnew, hall⟩ := ih { es := st.es.erase i, gs := st.gs.erase j, pairs := st.pairs ++ [(i, j)] }
      refine ⟨(i, j) :: new, by simp [hnew], ?_⟩
      intro p hp
      simp only [List.mem_cons] at hp
      rcases hp with rfl | hp
      · exact ⟨hi, hj, ⟨s, hs⟩, hv⟩
      · obtain ⟨h1, h2, h3, h4⟩ := hall p hp
        exact ⟨List.mem_of_mem_erase h1, List.mem_of_mem_erase h2, h3, h4⟩

/-- with fuel for every remaining estimate the loop only stops when no candidate is left -/
theorem stage_done (t : Tbl) (s1 : Bool) (fuel : Nat) (st : St) (hf : st.es.length ≤ fuel) :
    cands t s1 (stage t s1 fuel st).es (stage t s1 fuel st).gs = [] := by
  induction fuel generalizing st with
  | zero =>
    have : st.es = [] := List.eq_nil_of_length_eq_zero (Nat.le_zero.1 hf)
    simp [stage, cands, this]
  | succ n ih =>
    cases hb : argBest t.maximize (cands t s1 st.es st.gs) with
    | none => rw [stage_succ_none hb]; exact argBest_none _ _ hb
    | some c =>
      obtain ⟨i, j, s⟩ := c
      rw [stage_succ_some hb]
      obtain ⟨hi, _⟩ := pick_spec hb
      apply ih
      simp only [List.length_erase_of_mem hi]
      have : 0 < st.es.length := List.length_pos_of_mem hi
      omega

/-- the remaining lists only shrink -/
theorem stage_es_sublist (t : Tbl) (s1 : Bool) (fuel : Nat) (st : St) :
    (stage t s1 fuel st).es.Sublist st.es ∧ (stage t s1 fuel st).gs.Sublist st.gs := by
  induction fuel generalizing st with
  | zero => exact ⟨List.Sublist.refl _, List.Sublist.refl _⟩
  | succ n ih =>
    cases hb : argBest t.maximize (cands t s1 st.es st.gs) with
    | none => rw [stage_succ_none hb]; exact ⟨List.Sublist.refl _, List.Sublist.refl _⟩
    | some c =>
      obtain ⟨i, j, s⟩ := c
      rw [stage_succ_some hb]
      obtain ⟨h1, h2⟩ := ih { es := st.es.erase i, gs := st.gs.erase j, pairs := st.pairs ++ [(i, j)] }
      exact ⟨h1.trans List.erase_sublist, h2.trans List.erase_sublist⟩

end PEval.Matching
