import PEval.Lemmas.Pipeline
import PEval.Lemmas.PipelineAP
import PEval.Properties.C04Core
/-!
Composition lemmas, part 3: the frame-level `Map` on a result list in which every ground truth is the
ground truth of at most one result (what C01 proves of the matcher) has every defined AP / APH and
mAP / mAPH in [0,1] (C04's `ap_in_unit_interval` applied bucket by bucket), and APH ≤ AP pairwise.
Then: the pipeline's AP result list is such a list.
-/
namespace PEval.Pipeline
open PEval

/-! ### generic: any result list with one-to-one ground truths -/

/-- the bucket and the count the per-label loop looks up under a label, at frame level -/
theorem frame_bucket {divT : List AP.Label} {rs : List AP.Res} {l : AP.Label}
    {rss : List (List AP.Res)}
    (hb : AP.lookupKey l ((AP.divideObjects (some divT) rs).map (fun kv => (kv.1, [kv.2]))) = .ok rss) :
    ∃ v, (l, v) ∈ AP.divideObjects (some divT) rs ∧ rss = [v] := by
  have hm := AP.lookupKey_mem_key hb
  obtain ⟨kv, hkv, he⟩ := List.mem_map.1 hm
  obtain ⟨k0, v0⟩ := kv
  simp only [Prod.mk.injEq] at he
  refine ⟨v0, ?_, he.2.symm⟩
  rw [← he.1]
  exact hkv

theorem filter_label_length (gts : List AP.Gt) (l : AP.Label) :
    ((gts.map (·.label)).filter (fun k => k == l)).length
      = (gts.filter (fun g => g.label == l)).length := by
  rw [List.filter_map, List.length_map]
  rfl

theorem frameMap2_in_unit {m : AP.Mode} {is2d : Bool} {divT mapT : List AP.Label} {thrs : List Rat}
    {rs : List AP.Res} {gts : List AP.Gt}
    (hnd : (rs.filterMap (·.gt)).Nodup) (hsub : ∀ g ∈ rs.filterMap (·.gt), g ∈ gts)
    (hw : ∀ r ∈ rs, 0 ≤ r.hw ∧ r.hw ≤ 1) {o : AP.MapOut}
    (h : frameMap2 m is2d divT mapT thrs rs (gts.map (·.label)) = .ok o) :
    (∀ a ∈ o.aps, ∀ x, a.ap = some x → 0 ≤ x ∧ x ≤ 1) ∧
    (∀ a ∈ o.aphs, ∀ x, a.ap = some x → 0 ≤ x ∧ x ≤ 1) ∧
    (∀ x, o.map = some x → 0 ≤ x ∧ x ≤ 1) ∧ (∀ x, o.maph = some x → 0 ≤ x ∧ x ≤ 1) := by
  unfold frameMap2 at h
  obtain ⟨hloop, hmap, hmaph⟩ := AP.mapOf_ok h
  obtain ⟨i1, i2⟩ := AP.mapLoop_mem hloop
  have key : ∀ (tm : AP.TpMetric) (a : AP.ApOut),
      AP.FromLabel tm m ((AP.divideObjects (some divT) rs).map (fun kv => (kv.1, [kv.2])))
        (AP.divideObjectsToNum (some divT) (gts.map (·.label))) (mapT.zip thrs) a →
      ∀ x, a.ap = some x → 0 ≤ x ∧ x ≤ 1 := by
    intro tm a hfa x hx
    obtain ⟨l, t, rss, G, _, hb, hn, ha⟩ := hfa
    obtain ⟨v, hv, rfl⟩ := frame_bucket hb
    have hG := AP.lookup_divideObjectsToNum hn
    rw [filter_label_length] at hG
    subst hG
    have hsl := AP.divideObjects_sublist (some divT) rs hv
    have ha' : AP.apOf tm m [l] [t] (gts.filter (fun g => g.label == l)).length v = .ok a := by
      simpa [AP.apOfNested] using ha
    exact C04.ap_in_unit_interval tm m l t v gts (AP.divideObjects_gt_nodup (some divT) rs hv hnd)
      (fun g hg => hsub g ((hsl.filterMap _).subset hg)) (fun r hr => hw r (hsl.subset hr)) ha' x hx
  have k1 : ∀ a ∈ o.aps, ∀ x, a.ap = some x → 0 ≤ x ∧ x ≤ 1 := fun a ha => key .ap a (i1 a ha)
  have k2 : ∀ a ∈ o.aphs, ∀ x, a.ap = some x → 0 ≤ x ∧ x ≤ 1 := fun a ha => key .aph a (i2 a ha)
  refine ⟨k1, k2, ?_, ?_⟩
  · intro x hx
    rw [hmap] at hx
    refine C04.map_bounds _ 0 1 ?_ x hx
    intro y hy
    obtain ⟨a, ha, hay⟩ := List.mem_map.1 hy
    exact k1 a ha y hay
  · intro x hx
    rw [hmaph] at hx
    refine C04.map_bounds _ 0 1 ?_ x hx
    intro y hy
    obtain ⟨a, ha, hay⟩ := List.mem_map.1 hy
    exact k2 a ha y hay

theorem forall₂_imp {α β : Type} {R S : α → β → Prop} (H : ∀ a b, R a b → S a b) {l₁ : List α}
    {l₂ : List β} (h : List.Forall₂ R l₁ l₂) : List.Forall₂ S l₁ l₂ := by
  induction h with
  | nil => exact .nil
  | cons hab _ ih => exact .cons (H _ _ hab) ih

theorem frameMap2_aph_le_ap {m : AP.Mode} {divT mapT : List AP.Label} {thrs : List Rat}
    {rs : List AP.Res} {gtLabels : List AP.Label} (hw : ∀ r ∈ rs, 0 ≤ r.hw ∧ r.hw ≤ 1)
    {o : AP.MapOut} (h : frameMap2 m false divT mapT thrs rs gtLabels = .ok o) :
    List.Forall₂ (fun hh a => AP.optLe hh.ap a.ap) o.aphs o.aps ∧ AP.optLe o.maph o.map := by
  unfold frameMap2 at h
  obtain ⟨hloop, hmap, hmaph⟩ := AP.mapOf_ok h
  have hp := AP.mapLoop_pairs hloop
  have hf : List.Forall₂ (fun hh a => AP.optLe hh.ap a.ap) o.aphs o.aps := by
    refine forall₂_imp ?_ hp
    intro hh a hex
    obtain ⟨l, t, rss, G, hb, h1, h2⟩ := hex
    obtain ⟨v, hv, rfl⟩ := frame_bucket hb
    have hsl := AP.divideObjects_sublist (some divT) rs hv
    have h1' : AP.apOf .aph m [l] [t] G v = .ok hh := by simpa [AP.apOfNested] using h1
    have h2' : AP.apOf .ap m [l] [t] G v = .ok a := by simpa [AP.apOfNested] using h2
    exact C04.aph_le_ap m [l] [t] G v (fun r hr => hw r (hsl.subset hr)) h1' h2'
  refine ⟨hf, ?_⟩
  rw [hmap, hmaph]
  exact AP.meanDefined_mono (AP.forall₂_map (R := AP.optLe) AP.ApOut.ap hf)

/-! ### the pipeline's AP result list is one-to-one -/

/-- harness ids of the ground truths handed to the matcher are pairwise different -/
def GtIdsDistinct (f : Frame) : Prop :=
  ((List.range f.scene.gts.length).map (fun j => (f.gt j).id)).Nodup

instance (f : Frame) : Decidable (GtIdsDistinct f) := by unfold GtIdsDistinct; infer_instance

theorem gtIdsDistinct_of_gtsDistinct {f : Frame} (hd : PassFail.GtsDistinct (pfGts f)) :
    GtIdsDistinct f := by
  unfold GtIdsDistinct
  unfold PassFail.GtsDistinct pfGts at hd
  rw [List.pairwise_map] at hd
  unfold List.Nodup
  rw [List.pairwise_map]
  exact hd.imp (fun h => h.1)

theorem toAPRes_gt (f : Frame) (m : AP.Mode) (r : Matching.Res) :
    (toAPRes f m r).gt = r.2.map (toAPGt f) := rfl

theorem apResults_gts (f : Frame) (m : AP.Mode) (rs : List Matching.Res) :
    (apResults f m rs).filterMap (·.gt) = (Matching.usedGts (critResults f rs)).map (toAPGt f) := by
  unfold apResults Matching.usedGts
  generalize critResults f rs = l
  induction l with
  | nil => rfl
  | cons r t ih =>
    obtain ⟨i, o⟩ := r
    cases o with
    | none => simpa [toAPRes] using ih
    | some j => simpa [toAPRes] using ih

theorem usedGts_critResults_sublist (f : Frame) (rs : List Matching.Res) :
    (Matching.usedGts (critResults f rs)).Sublist (Matching.usedGts rs) := by
  unfold Matching.usedGts critResults
  exact (List.filter_sublist).filterMap _

theorem mem_usedGts {rs : List Matching.Res} {j : Nat} :
    j ∈ Matching.usedGts rs ↔ ∃ r ∈ rs, r.2 = some j := by
  unfold Matching.usedGts
  simp [List.mem_filterMap]

/-- every ground truth attached to a surviving result is a critical ground truth of the frame, and
no ground truth is attached twice -/
theorem apResults_one_to_one {f : Frame} {rs : List Matching.Res}
    (h : Matching.getObjectResults f.cfg f.scene = .ok rs) (hid : GtIdsDistinct f) (m : AP.Mode) :
    ((apResults f m rs).filterMap (·.gt)).Nodup ∧
      ∀ g ∈ (apResults f m rs).filterMap (·.gt), g ∈ apGts f := by
  obtain ⟨hnd, hlt⟩ := C01.results_gt_nodup h
  have hsl := usedGts_critResults_sublist f rs
  rw [apResults_gts]
  constructor
  · refine nodup_map_on ?_ (hnd.sublist hsl)
    intro x hx y hy hxy
    have hx' := hlt x (hsl.subset hx)
    have hy' := hlt y (hsl.subset hy)
    have hidxy : (f.gt x).id = (f.gt y).id := congrArg AP.Gt.id hxy
    exact inj_on_of_nodup_map hid x (List.mem_range.2 hx') y (List.mem_range.2 hy') hidxy
  · intro g hg
    obtain ⟨j, hj, rfl⟩ := List.mem_map.1 hg
    obtain ⟨r, hr, hrj⟩ := mem_usedGts.1 hj
    have hs := (List.mem_filter.1 hr).2
    unfold survives at hs
    rw [hrj] at hs
    simp only [Bool.and_eq_true] at hs
    refine List.mem_map.2 ⟨j, ?_, rfl⟩
    exact List.mem_filter.2 ⟨List.mem_range.2 (hlt j (hsl.subset hj)), hs.2⟩

theorem apResults_hw {f : Frame} (hw : ∀ i j, 0 ≤ f.hw i j ∧ f.hw i j ≤ 1) (m : AP.Mode)
    (rs : List Matching.Res) : ∀ r ∈ apResults f m rs, 0 ≤ r.hw ∧ r.hw ≤ 1 := by
  intro r hr
  obtain ⟨r0, _, rfl⟩ := List.mem_map.1 hr
  obtain ⟨i, o⟩ := r0
  cases o with
  | none => exact ⟨le_refl 0, zero_le_one⟩
  | some j => exact hw i j

end PEval.Pipeline
