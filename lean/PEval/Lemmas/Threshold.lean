import PEval.Model.Threshold
/-!
# Lemmas about the threshold model (C15)

Specification predicates (normal forms, well-formed specifications) and the closed forms of
`setThresholds` from which the property theorems in `PEval/Properties/C15.lean` are derived.
Core Lean only.
-/
namespace PEval.Threshold

/-! ## specification predicates -/

/-- flat normal form for `n` labels: a list of exactly `n` numbers -/
def IsFlatNorm (n : Nat) (r : PyVal) : Prop :=
  ∃ xs, r = .list xs ∧ xs.length = n ∧ ∀ x ∈ xs, isReal x = true

/-- nested normal form for `n` labels: a non-empty list of flat normal forms -/
def IsNestedNorm (n : Nat) (r : PyVal) : Prop :=
  ∃ rows, r = .list rows ∧ rows ≠ [] ∧ ∀ row ∈ rows, IsFlatNorm n row

/-- `row` is the input row `t` unchanged, or the broadcast of the singleton `t = [x]` -/
def RowOf (n : Nat) (t row : PyVal) : Prop :=
  row = t ∨ ∃ x, t = .list [x] ∧ row = .list (List.replicate n x)

/-- well-formed flat specification: a number, or a non-empty list of numbers of length 1 or `n` -/
def FlatOK (v : PyVal) (n : Nat) : Prop :=
  isReal v = true ∨
    ∃ xs, v = .list xs ∧ xs ≠ [] ∧ (∀ x ∈ xs, isReal x = true) ∧ (xs.length = 1 ∨ xs.length = n)

/-- well-formed nested specification (for `n ≥ 1` labels): a number, a non-empty list of numbers, or a
non-empty list of rows, each a list of numbers of length 1 or `n` -/
def NestedOK (v : PyVal) (n : Nat) : Prop :=
  1 ≤ n ∧ (isReal v = true ∨
    ∃ xs, v = .list xs ∧ xs ≠ [] ∧
      ((∀ x ∈ xs, isReal x = true) ∨
       (∀ x ∈ xs, ∃ ys, x = .list ys ∧ (ys.length = 1 ∨ ys.length = n) ∧ ∀ y ∈ ys, isReal y = true)))

/-! ## closed forms -/

@[simp] theorem pyMul_singleton (x : PyVal) (n : Nat) : pyMul [x] n = List.replicate n x := by
  induction n with
  | zero => simp [pyMul]
  | succ k ih => simp [pyMul, List.replicate_succ] at ih ⊢

@[simp] theorem pyMul_one (xs : List PyVal) : pyMul xs 1 = xs := by simp [pyMul]

theorem isReal_cases {v : PyVal} (h : isReal v = true) : (∃ q, v = .num q) ∨ (∃ b, v = .bool b) := by
  cases v <;> simp_all [isReal]

/-- closed form of the flat normalisation of a list -/
theorem setThresholds_flat_list (xs : List PyVal) (n : Nat) :
    setThresholds (.list xs) n false =
      if xs = [] ∨ (∃ x ∈ xs, isReal x = false) ∨ (xs.length ≠ 1 ∧ xs.length ≠ n) then thresholdError
      else .ok (.list (if xs.length = 1 then pyMul xs n else xs)) := by
  unfold setThresholds getThresholds
  simp only [Bool.false_eq_true, if_false]
  by_cases h0 : xs = []
  · simp [h0, thresholdError]
  by_cases h1 : ∃ x ∈ xs, isReal x = false
  · have : xs.any (fun t => !isReal t) = true := by
      obtain ⟨x, hx, hr⟩ := h1
      simp only [List.any_eq_true]; exact ⟨x, hx, by simp [hr]⟩
    simp [h0, h1, this, thresholdError]
  have h1' : xs.any (fun t => !isReal t) = false := by
    simp only [List.any_eq_false]; intro x hx; simp at h1; simp [h1 x hx]
  by_cases h2 : xs.length ≠ 1 ∧ xs.length ≠ n
  · have : (xs.length != 1 && n != xs.length) = true := by
      simp; exact ⟨h2.1, fun h => h2.2 h.symm⟩
    simp [h0, h1, h1', h2, this, thresholdError]
  · have hlen : xs.length = 1 ∨ xs.length = n := by omega
    have hne : (xs.length != 1 && n != xs.length) = false := by
      rcases hlen with h | h <;> simp [h]
    have hl0 : (xs.length == 0) = false := by
      cases xs with
      | nil => exact absurd rfl h0
      | cons a t => simp
    simp only [hl0, h1', hne, h0, h1, h2, false_or, if_false, Bool.false_eq_true]
    by_cases hone : xs.length = 1
    · obtain ⟨x, rfl⟩ := List.length_eq_one_iff.mp hone
      have hx : isReal x = true := by
        simp at h1; exact h1
      simp [checkThresholds, hx]
    · obtain rfl : n = xs.length := by omega
      have hb : (xs.length == 1) = false := by simp [hone]
      simp [hone, hb, checkThresholds, h1']

/-- a well-formed row of a nested specification -/
def rowOK (n : Nat) (t : PyVal) : Bool :=
  isList t && (lenOf t == n || lenOf t == 1) && (itemsOf t).all isReal

/-- the row transformation of `__get_nested_thresholds` -/
def normRow (n : Nat) (t : PyVal) : PyVal := if lenOf t == 1 then mulVal t n else t

theorem normRow_props {n : Nat} {t : PyVal} (hl : isList t = true) (hlen : lenOf t = n ∨ lenOf t = 1) (hn : n ≠ 0) :
    isList (normRow n t) = true ∧ lenOf (normRow n t) = n ∧
      ((itemsOf (normRow n t)).any (fun x => !isReal x) = (itemsOf t).any (fun x => !isReal x)) := by
  cases t with
  | list ys =>
    by_cases h1 : ys.length = 1
    · obtain ⟨y, rfl⟩ := List.length_eq_one_iff.mp h1
      cases n with
      | zero => exact absurd rfl hn
      | succ k => simp [normRow, lenOf, mulVal, itemsOf, isList, List.replicate_succ]
    · obtain rfl : n = ys.length := by
        simp only [lenOf] at hlen; omega
      have hb : (ys.length == 1) = false := by simp [h1]
      simp [normRow, lenOf, hb, isList]
  | _ => simp [isList] at hl

/-- a row of a nested normal form -/
def normedRow (n : Nat) (t : PyVal) : Bool :=
  isList t && (lenOf t != 0 && lenOf t == n) && (itemsOf t).all isReal

theorem checkNested_eq (rows : List PyVal) (n : Nat) :
    checkNestedThresholds (.list rows) n =
      if rows.all (normedRow n) then .ok (.list rows) else thresholdError := by
  unfold checkNestedThresholds
  by_cases h1 : rows.any (fun t => !isList t) = true
  · have : rows.all (normedRow n) = false := by
      simp only [List.any_eq_true] at h1
      obtain ⟨t, ht, h⟩ := h1
      apply List.all_eq_false.mpr
      exact ⟨t, ht, by simp at h; simp [normedRow, h]⟩
    simp [h1, this]
  by_cases h2 : rows.any (fun t => lenOf t == 0 || lenOf t != n) = true
  · have : rows.all (normedRow n) = false := by
      simp only [List.any_eq_true] at h2
      obtain ⟨t, ht, h⟩ := h2
      apply List.all_eq_false.mpr
      refine ⟨t, ht, ?_⟩
      simp at h
      simp only [normedRow]
      rcases h with h | h <;> simp [h]
    simp [h1, h2, this]
  by_cases h3 : rows.any (fun t => (itemsOf t).any (fun x => !isReal x)) = true
  · have : rows.all (normedRow n) = false := by
      simp only [List.any_eq_true] at h3
      obtain ⟨t, ht, y, hy, h⟩ := h3
      apply List.all_eq_false.mpr
      refine ⟨t, ht, ?_⟩
      have : (itemsOf t).all isReal = false := List.all_eq_false.mpr ⟨y, hy, by simpa using h⟩
      simp [normedRow, this]
    simp [h1, h2, h3, this]
  · have : rows.all (normedRow n) = true := by
      apply List.all_eq_true.mpr
      intro t ht
      have a1 : isList t = true := by
        have := h1; simp only [List.any_eq_true, not_exists, not_and] at this
        have := this t ht; simpa using this
      have a2 : ¬ (lenOf t == 0 || lenOf t != n) = true := by
        have := h2; simp only [List.any_eq_true, not_exists, not_and] at this
        exact this t ht
      have a3 : (itemsOf t).all isReal = true := by
        have := h3; simp only [List.any_eq_true, not_exists, not_and] at this
        apply List.all_eq_true.mpr
        intro y hy
        have := this t ht y hy; simpa using this
      simp at a2
      have a4 : ¬ n = 0 := by omega
      simp [normedRow, a1, a2, a3, a4]
    simp [h1, h2, h3, this]

theorem getNested_cons (x : PyVal) (t : List PyVal) (n : Nat) :
    getNestedThresholds (.list (x :: t)) n =
      if isReal x then
        if (x :: t).any (fun t => !isReal t) then thresholdError
        else if (x :: t).length != n then
          .ok (.list ((x :: t).map fun t => .list (List.replicate n t)))
        else .ok (.list [.list (x :: t)])
      else
        if (x :: t).any (fun t => !isList t) then thresholdError
        else if (x :: t).any (fun t => lenOf t != n && lenOf t != 1) then thresholdError
        else .ok (.list ((x :: t).map (normRow n))) := by
  rfl

theorem setThresholds_nested_list (xs : List PyVal) (n : Nat) :
    setThresholds (.list xs) n true =
      if xs = [] then thresholdError
      else if xs.all isReal then
        (if n = 0 then thresholdError
         else .ok (if xs.length ≠ n then .list (xs.map fun t => .list (List.replicate n t)) else .list [.list xs]))
      else if xs.all (rowOK n) && n != 0 then .ok (.list (xs.map (normRow n)))
      else thresholdError := by
  unfold setThresholds
  simp only [if_true]
  cases xs with
  | nil => simp [getNestedThresholds, thresholdError]
  | cons x t =>
    rw [getNested_cons]
    have hmem : x ∈ x :: t := by simp
    have hne : x :: t ≠ [] := by simp
    generalize x :: t = L at *
    simp only [hne, if_false]
    by_cases hx : isReal x = true
    · by_cases hall : L.all isReal = true
      · have hany : L.any (fun t => !isReal t) = false := by
          apply List.any_eq_false.mpr
          intro y hy; simp [List.all_eq_true.mp hall y hy]
        simp only [hx, hany, hall, if_true, Bool.false_eq_true, if_false]
        by_cases hn : n = 0
        · subst hn
          have : L.length ≠ 0 := by
            intro h; exact hne (List.length_eq_zero_iff.mp h)
          have hb : (L.length != 0) = true := by simpa using this
          have hrows : (L.map fun t => PyVal.list (List.replicate 0 t)).all (normedRow 0) = false := by
            apply List.all_eq_false.mpr
            exact ⟨_, List.mem_map.mpr ⟨x, hmem, rfl⟩, by simp [normedRow, lenOf]⟩
          simp only [hb, if_true, checkNested_eq, hrows]
          simp
        · by_cases hlen : L.length = n
          · subst hlen
            have hall' : ∀ y ∈ L, isReal y = true := List.all_eq_true.mp hall
            simp [checkNested_eq, normedRow, isList, lenOf, itemsOf, hn]
            intro y hy hf; simp [hall' y hy] at hf
          · have hb : (L.length != n) = true := by simpa using hlen
            have hrows : (L.map fun t => PyVal.list (List.replicate n t)).all (normedRow n) = true := by
              apply List.all_eq_true.mpr
              intro r hr
              obtain ⟨y, hy, rfl⟩ := List.mem_map.mp hr
              have := List.all_eq_true.mp hall y hy
              simp [normedRow, isList, lenOf, itemsOf, hn, this]
            simp only [hb, if_true, checkNested_eq, hrows, hn]
            simp [hlen]
      · have hany : L.any (fun t => !isReal t) = true := by
          obtain ⟨y, hy, h⟩ := List.all_eq_false.mp (by simpa using hall : L.all isReal = false)
          exact List.any_eq_true.mpr ⟨y, hy, by simpa using h⟩
        have hrow : L.all (rowOK n) = false := by
          apply List.all_eq_false.mpr
          refine ⟨x, hmem, ?_⟩
          cases x <;> simp_all [rowOK, isList, isReal]
        simp only [hx, hany, if_true, hall, hrow]
        simp [thresholdError]
    · have hxf : isReal x = false := by simpa using hx
      have hall : L.all isReal = false := List.all_eq_false.mpr ⟨x, hmem, by simp [hxf]⟩
      simp only [hxf, Bool.false_eq_true, if_false, hall]
      by_cases hlist : L.any (fun t => !isList t) = true
      · have hrow : L.all (rowOK n) = false := by
          obtain ⟨y, hy, h⟩ := List.any_eq_true.mp hlist
          exact List.all_eq_false.mpr ⟨y, hy, by simp at h; simp [rowOK, h]⟩
        simp [hlist, hrow, thresholdError]
      by_cases hl : L.any (fun t => lenOf t != n && lenOf t != 1) = true
      · have hrow : L.all (rowOK n) = false := by
          obtain ⟨y, hy, h⟩ := List.any_eq_true.mp hl
          refine List.all_eq_false.mpr ⟨y, hy, ?_⟩
          simp at h
          simp [rowOK, h.1, h.2]
        simp [hlist, hl, hrow, thresholdError]
      have hlist' : ∀ y ∈ L, isList y = true := by
        intro y hy
        have := hlist; simp only [List.any_eq_true, not_exists, not_and] at this
        simpa using this y hy
      have hl' : ∀ y ∈ L, lenOf y = n ∨ lenOf y = 1 := by
        intro y hy
        have := hl; simp only [List.any_eq_true, not_exists, not_and] at this
        have := this y hy
        simp at this
        by_cases h : lenOf y = n
        · exact Or.inl h
        · exact Or.inr (this h)
      simp only [hlist, hl, Bool.false_eq_true, if_false, checkNested_eq]
      by_cases hn : n = 0
      · subst hn
        have hrows : (L.map (normRow 0)).all (normedRow 0) = false := by
          apply List.all_eq_false.mpr
          exact ⟨_, List.mem_map.mpr ⟨x, hmem, rfl⟩, by simp [normedRow]⟩
        simp [hrows, thresholdError]
      · have key : ∀ y ∈ L, normedRow n (normRow n y) = rowOK n y := by
          intro y hy
          obtain ⟨p1, p2, p3⟩ := normRow_props (hlist' y hy) (hl' y hy) hn
          have e : (itemsOf (normRow n y)).all isReal = (itemsOf y).all isReal := by
            have := congrArg (fun b => !b) p3
            simpa [List.all_eq_not_any_not] using this
          have hln : (lenOf y == n || lenOf y == 1) = true := by
            rcases hl' y hy with h | h <;> simp [h]
          simp [normedRow, rowOK, p1, p2, e, hlist' y hy, hln, hn]
        have hrows : (L.map (normRow n)).all (normedRow n) = L.all (rowOK n) := by
          rw [List.all_map, Bool.eq_iff_iff]
          simp only [List.all_eq_true, Function.comp]
          constructor
          · intro h y hy; rw [← key y hy]; exact h y hy
          · intro h y hy; rw [key y hy]; exact h y hy
        have hnb : (n != 0) = true := by simpa using hn
        rw [hrows]
        simp [hnb]


/-! ## scalars, bridges to the specification predicates, master characterisations -/

theorem replicate_all_real {v : PyVal} (h : isReal v = true) (n : Nat) :
    ∀ x ∈ List.replicate n v, isReal x = true := by
  intro x hx; rw [(List.mem_replicate.mp hx).2]; exact h

theorem setThresholds_scalar_flat {v : PyVal} (h : isReal v = true) (n : Nat) :
    setThresholds v n false = .ok (.list (List.replicate n v)) := by
  have hany : (List.replicate n v).any (fun t => !isReal t) = false := by
    apply List.any_eq_false.mpr; intro x hx; simp [replicate_all_real h n x hx]
  rcases isReal_cases h with ⟨q, rfl⟩ | ⟨b, rfl⟩ <;>
    simp [setThresholds, getThresholds, checkThresholds, hany]

theorem setThresholds_scalar_nested {v : PyVal} (h : isReal v = true) (n : Nat) :
    setThresholds v n true =
      if n = 0 then thresholdError else .ok (.list [.list (List.replicate n v)]) := by
  have hall : (List.replicate n v).all isReal = true :=
    List.all_eq_true.mpr (replicate_all_real h n)
  rcases isReal_cases h with ⟨q, rfl⟩ | ⟨b, rfl⟩ <;>
    by_cases hn : n = 0 <;>
    simp [setThresholds, getNestedThresholds, checkNested_eq, normedRow, isList, lenOf, itemsOf, hn, hall]

theorem setThresholds_none (n : Nat) (nest : Bool) : setThresholds .none n nest = typeError := by
  cases nest <;> simp [setThresholds, getThresholds, getNestedThresholds, typeError]

theorem setThresholds_opaque (t : String) (n : Nat) (nest : Bool) :
    setThresholds (.other t) n nest = typeError := by
  cases nest <;> simp [setThresholds, getThresholds, getNestedThresholds, typeError]

theorem setThresholds_str (s : String) (n : Nat) (nest : Bool) :
    setThresholds (.str s) n nest = thresholdError := by
  cases nest <;> simp [setThresholds, getThresholds, getNestedThresholds, thresholdError]

theorem rowOK_iff (n : Nat) (t : PyVal) :
    rowOK n t = true ↔
      ∃ ys, t = .list ys ∧ (ys.length = 1 ∨ ys.length = n) ∧ ∀ y ∈ ys, isReal y = true := by
  cases t with
  | list ys =>
    simp [rowOK, isList, lenOf, itemsOf]
    intro _; exact Or.comm
  | _ => simp [rowOK, isList]

theorem normRow_rowOf {n : Nat} (t : PyVal) (h : isList t = true) : RowOf n t (normRow n t) := by
  cases t with
  | list ys =>
    by_cases h1 : ys.length = 1
    · obtain ⟨y, rfl⟩ := List.length_eq_one_iff.mp h1
      right; exact ⟨y, rfl, by simp [normRow, lenOf, mulVal, itemsOf]⟩
    · left; simp [normRow, lenOf, h1]
  | _ => simp [isList] at h

theorem scalar_not_list {v : PyVal} (h : isReal v = true) (xs : List PyVal) : v ≠ .list xs := by
  intro e; subst e; simp [isReal] at h

/-- master characterisation of the flat normalisation -/
theorem flat_accept_iff (v : PyVal) (n : Nat) (r : PyVal) :
    setThresholds v n false = .ok r ↔
      (isReal v = true ∧ r = .list (List.replicate n v)) ∨
      (∃ xs, v = .list xs ∧ xs ≠ [] ∧ (∀ x ∈ xs, isReal x = true) ∧ (xs.length = 1 ∨ xs.length = n) ∧
        r = .list (if xs.length = 1 then pyMul xs n else xs)) := by
  by_cases hv : isReal v = true
  · rw [setThresholds_scalar_flat hv]
    constructor
    · intro h; left; exact ⟨hv, by cases h; rfl⟩
    · rintro (⟨_, h⟩ | ⟨xs, e, _⟩)
      · rw [h]
      · exact absurd e (scalar_not_list hv xs)
  cases v with
  | num q => simp [isReal] at hv
  | bool b => simp [isReal] at hv
  | none =>
    rw [setThresholds_none]
    constructor
    · intro h; cases h
    · rintro (⟨h, _⟩ | ⟨xs, e, _⟩)
      · exact absurd h hv
      · cases e
  | str s =>
    rw [setThresholds_str]
    constructor
    · intro h; cases h
    · rintro (⟨h, _⟩ | ⟨xs, e, _⟩)
      · exact absurd h hv
      · cases e
  | other t =>
    rw [setThresholds_opaque]
    constructor
    · intro h; cases h
    · rintro (⟨h, _⟩ | ⟨xs, e, _⟩)
      · exact absurd h hv
      · cases e
  | list xs =>
    rw [setThresholds_flat_list]
    by_cases hc : xs = [] ∨ (∃ x ∈ xs, isReal x = false) ∨ (xs.length ≠ 1 ∧ xs.length ≠ n)
    · rw [if_pos hc]
      constructor
      · intro h; cases h
      · rintro (⟨h, _⟩ | ⟨ys, e, h0, h1, h2, _⟩)
        · exact absurd h hv
        · cases e
          rcases hc with hc | ⟨x, hx, hr⟩ | hc
          · exact absurd hc h0
          · rw [h1 x hx] at hr; cases hr
          · omega
    · rw [if_neg hc]
      have h0 : xs ≠ [] := fun h => hc (Or.inl h)
      have h1 : ∀ x ∈ xs, isReal x = true := by
        intro x hx
        cases hr : isReal x
        · exact absurd (Or.inr (Or.inl ⟨x, hx, hr⟩)) hc
        · rfl
      have h2 : xs.length = 1 ∨ xs.length = n := by
        by_cases a : xs.length = 1
        · exact Or.inl a
        · by_cases b : xs.length = n
          · exact Or.inr b
          · exact absurd (Or.inr (Or.inr ⟨a, b⟩)) hc
      constructor
      · intro h
        right
        exact ⟨xs, rfl, h0, h1, h2, by cases h; rfl⟩
      · rintro (⟨h, _⟩ | ⟨ys, e, _, _, _, hr⟩)
        · exact absurd h hv
        · cases e; rw [hr]

/-- master characterisation of the nested normalisation -/
theorem nested_accept_iff (v : PyVal) (n : Nat) (r : PyVal) :
    setThresholds v n true = .ok r ↔
      n ≠ 0 ∧
      ((isReal v = true ∧ r = .list [.list (List.replicate n v)]) ∨
       (∃ xs, v = .list xs ∧ xs ≠ [] ∧ (∀ x ∈ xs, isReal x = true) ∧
          r = (if xs.length ≠ n then .list (xs.map fun t => .list (List.replicate n t))
               else .list [.list xs])) ∨
       (∃ xs, v = .list xs ∧ xs ≠ [] ∧ xs.all isReal = false ∧ xs.all (rowOK n) = true ∧
          r = .list (xs.map (normRow n)))) := by
  by_cases hv : isReal v = true
  · rw [setThresholds_scalar_nested hv]
    by_cases hn : n = 0
    · rw [if_pos hn]
      constructor
      · intro h; cases h
      · intro h; exact absurd hn h.1
    · rw [if_neg hn]
      constructor
      · intro h; exact ⟨hn, Or.inl ⟨hv, by cases h; rfl⟩⟩
      · rintro ⟨_, ⟨_, h⟩ | ⟨xs, e, _⟩ | ⟨xs, e, _⟩⟩
        · rw [h]
        · exact absurd e (scalar_not_list hv xs)
        · exact absurd e (scalar_not_list hv xs)
  cases v with
  | num q => simp [isReal] at hv
  | bool b => simp [isReal] at hv
  | none =>
    rw [setThresholds_none]
    constructor
    · intro h; cases h
    · rintro ⟨_, ⟨h, _⟩ | ⟨xs, e, _⟩ | ⟨xs, e, _⟩⟩
      · exact absurd h hv
      · cases e
      · cases e
  | str s =>
    rw [setThresholds_str]
    constructor
    · intro h; cases h
    · rintro ⟨_, ⟨h, _⟩ | ⟨xs, e, _⟩ | ⟨xs, e, _⟩⟩
      · exact absurd h hv
      · cases e
      · cases e
  | other t =>
    rw [setThresholds_opaque]
    constructor
    · intro h; cases h
    · rintro ⟨_, ⟨h, _⟩ | ⟨xs, e, _⟩ | ⟨xs, e, _⟩⟩
      · exact absurd h hv
      · cases e
      · cases e
  | list xs =>
    rw [setThresholds_nested_list]
    by_cases h0 : xs = []
    · rw [if_pos h0]
      constructor
      · intro h; cases h
      · rintro ⟨_, ⟨h, _⟩ | ⟨ys, e, h0', _⟩ | ⟨ys, e, h0', _⟩⟩
        · exact absurd h hv
        · cases e; exact absurd h0 h0'
        · cases e; exact absurd h0 h0'
    rw [if_neg h0]
    by_cases hall : xs.all isReal = true
    · rw [if_pos hall]
      have hall' : ∀ x ∈ xs, isReal x = true := List.all_eq_true.mp hall
      by_cases hn : n = 0
      · rw [if_pos hn]
        constructor
        · intro h; cases h
        · intro h; exact absurd hn h.1
      · rw [if_neg hn]
        constructor
        · intro h
          exact ⟨hn, Or.inr (Or.inl ⟨xs, rfl, h0, hall', by cases h; rfl⟩)⟩
        · rintro ⟨_, ⟨h, _⟩ | ⟨ys, e, _, _, hr⟩ | ⟨ys, e, _, hf, _⟩⟩
          · exact absurd h hv
          · cases e; rw [hr]
          · cases e; rw [hall] at hf; cases hf
    · rw [if_neg hall]
      have hallf : xs.all isReal = false := by simpa using hall
      by_cases hc : (xs.all (rowOK n) && n != 0) = true
      · rw [if_pos hc]
        simp only [Bool.and_eq_true, bne_iff_ne, ne_eq] at hc
        constructor
        · intro h
          exact ⟨hc.2, Or.inr (Or.inr ⟨xs, rfl, h0, hallf, hc.1, by cases h; rfl⟩)⟩
        · rintro ⟨_, ⟨h, _⟩ | ⟨ys, e, _, ha, _⟩ | ⟨ys, e, _, _, _, hr⟩⟩
          · exact absurd h hv
          · cases e; exact absurd (List.all_eq_true.mpr ha) hall
          · cases e; rw [hr]
      · rw [if_neg hc]
        constructor
        · intro h; cases h
        · rintro ⟨hn, ⟨h, _⟩ | ⟨ys, e, _, ha, _⟩ | ⟨ys, e, _, _, hr, _⟩⟩
          · exact absurd h hv
          · cases e; exact absurd (List.all_eq_true.mpr ha) hall
          · cases e
            exfalso; apply hc
            simp [hr, hn]


/-! ## accepted results are normal forms; normal forms are fixed points -/

theorem isFlatNorm_replicate {v : PyVal} (h : isReal v = true) (n : Nat) :
    IsFlatNorm n (.list (List.replicate n v)) :=
  ⟨_, rfl, by simp, replicate_all_real h n⟩

theorem normRow_list (n : Nat) (ys : List PyVal) :
    normRow n (.list ys) = if ys.length = 1 then .list (pyMul ys n) else .list ys := by
  by_cases h : ys.length = 1 <;> simp [normRow, lenOf, mulVal, itemsOf, h]

theorem normRow_flatNorm {n : Nat} {t : PyVal} (h : rowOK n t = true) : IsFlatNorm n (normRow n t) := by
  obtain ⟨ys, rfl, hl, hr⟩ := (rowOK_iff n t).mp h
  rw [normRow_list]
  by_cases h1 : ys.length = 1
  · rw [if_pos h1]
    obtain ⟨y, rfl⟩ := List.length_eq_one_iff.mp h1
    rw [pyMul_singleton]
    exact isFlatNorm_replicate (hr y (by simp)) n
  · rw [if_neg h1]
    exact ⟨ys, rfl, by omega, hr⟩

/-- an accepted flat result is a flat normal form -/
theorem flat_result_norm {v : PyVal} {n : Nat} {r : PyVal} (h : setThresholds v n false = .ok r) :
    IsFlatNorm n r := by
  rcases (flat_accept_iff v n r).mp h with ⟨hv, rfl⟩ | ⟨xs, rfl, h0, h1, h2, rfl⟩
  · exact isFlatNorm_replicate hv n
  · by_cases h3 : xs.length = 1
    · rw [if_pos h3]
      obtain ⟨y, rfl⟩ := List.length_eq_one_iff.mp h3
      rw [pyMul_singleton]
      exact isFlatNorm_replicate (h1 y (by simp)) n
    · rw [if_neg h3]
      exact ⟨xs, rfl, by omega, h1⟩

/-- an accepted nested result is a nested normal form -/
theorem nested_result_norm {v : PyVal} {n : Nat} {r : PyVal} (h : setThresholds v n true = .ok r) :
    IsNestedNorm n r := by
  rcases (nested_accept_iff v n r).mp h with
    ⟨hn, ⟨hv, rfl⟩ | ⟨xs, rfl, h0, h1, rfl⟩ | ⟨xs, rfl, h0, _, h2, rfl⟩⟩
  · exact ⟨_, rfl, by simp, by intro row hr; simp at hr; rw [hr]; exact isFlatNorm_replicate hv n⟩
  · by_cases h3 : xs.length = n
    · rw [if_neg (by simpa using h3)]
      exact ⟨_, rfl, by simp, by intro row hr; simp at hr; rw [hr]; exact ⟨xs, rfl, h3, h1⟩⟩
    · rw [if_pos h3]
      refine ⟨_, rfl, by simpa using h0, ?_⟩
      intro row hr
      obtain ⟨y, hy, rfl⟩ := List.mem_map.mp hr
      exact isFlatNorm_replicate (h1 y hy) n
  · refine ⟨_, rfl, by simpa using h0, ?_⟩
    intro row hr
    obtain ⟨y, hy, rfl⟩ := List.mem_map.mp hr
    exact normRow_flatNorm (List.all_eq_true.mp h2 y hy)

/-- a flat normal form (n ≥ 1) is a fixed point of the flat normalisation -/
theorem flat_norm_fixed {n : Nat} {r : PyVal} (hr : IsFlatNorm n r) (hn : 1 ≤ n) :
    setThresholds r n false = .ok r := by
  obtain ⟨xs, rfl, hl, hreal⟩ := hr
  apply (flat_accept_iff _ n _).mpr
  right
  refine ⟨xs, rfl, ?_, hreal, Or.inr hl, ?_⟩
  · intro h; subst h; simp at hl; omega
  · by_cases h1 : xs.length = 1
    · rw [if_pos h1]
      have : n = 1 := by omega
      subst this; simp
    · rw [if_neg h1]

theorem isFlatNorm_rowOK {n : Nat} {t : PyVal} (h : IsFlatNorm n t) : rowOK n t = true := by
  obtain ⟨ys, rfl, hl, hr⟩ := h
  exact (rowOK_iff n _).mpr ⟨ys, rfl, Or.inr hl, hr⟩

theorem isFlatNorm_normRow {n : Nat} {t : PyVal} (h : IsFlatNorm n t) : normRow n t = t := by
  obtain ⟨ys, rfl, hl, hr⟩ := h
  rw [normRow_list]
  by_cases h1 : ys.length = 1
  · rw [if_pos h1]
    have : n = 1 := by omega
    subst this; simp
  · rw [if_neg h1]

/-- a nested normal form (n ≥ 1) is a fixed point of the nested normalisation -/
theorem nested_norm_fixed {n : Nat} {r : PyVal} (hr : IsNestedNorm n r) (hn : 1 ≤ n) :
    setThresholds r n true = .ok r := by
  obtain ⟨rows, rfl, hne, hrows⟩ := hr
  apply (nested_accept_iff _ n _).mpr
  refine ⟨by omega, Or.inr (Or.inr ⟨rows, rfl, hne, ?_, ?_, ?_⟩)⟩
  · cases rows with
    | nil => exact absurd rfl hne
    | cons a t =>
      obtain ⟨ys, rfl, _, _⟩ := hrows a (by simp)
      simp [isReal]
  · exact List.all_eq_true.mpr fun t ht => isFlatNorm_rowOK (hrows t ht)
  · congr 1
    symm
    calc rows.map (normRow n) = rows.map id := List.map_congr_left fun t ht => isFlatNorm_normRow (hrows t ht)
      _ = rows := List.map_id rows


/-! ## acceptance ⇔ well-formedness; positional row correspondence -/

/-- a list specification is accepted or rejected with `ThresholdError` (never another error kind) -/
theorem setThresholds_list_cases (xs : List PyVal) (n : Nat) (nest : Bool) :
    (∃ r, setThresholds (.list xs) n nest = .ok r) ∨ setThresholds (.list xs) n nest = thresholdError := by
  cases nest
  · rw [setThresholds_flat_list]; split
    · exact Or.inr rfl
    · exact Or.inl ⟨_, rfl⟩
  · rw [setThresholds_nested_list]
    split
    · exact Or.inr rfl
    · split
      · split
        · exact Or.inr rfl
        · exact Or.inl ⟨_, rfl⟩
      · split
        · exact Or.inl ⟨_, rfl⟩
        · exact Or.inr rfl

theorem accepts_iff_flatOK (v : PyVal) (n : Nat) :
    (∃ r, setThresholds v n false = .ok r) ↔ FlatOK v n := by
  constructor
  · rintro ⟨r, h⟩
    rcases (flat_accept_iff v n r).mp h with ⟨hv, _⟩ | ⟨xs, e, h0, h1, h2, _⟩
    · exact Or.inl hv
    · exact Or.inr ⟨xs, e, h0, h1, h2⟩
  · rintro (hv | ⟨xs, e, h0, h1, h2⟩)
    · exact ⟨_, (flat_accept_iff v n _).mpr (Or.inl ⟨hv, rfl⟩)⟩
    · exact ⟨_, (flat_accept_iff v n _).mpr (Or.inr ⟨xs, e, h0, h1, h2, rfl⟩)⟩

theorem accepts_iff_nestedOK (v : PyVal) (n : Nat) :
    (∃ r, setThresholds v n true = .ok r) ↔ NestedOK v n := by
  constructor
  · rintro ⟨r, h⟩
    rcases (nested_accept_iff v n r).mp h with ⟨hn, ⟨hv, _⟩ | ⟨xs, e, h0, h1, _⟩ | ⟨xs, e, h0, _, h2, _⟩⟩
    · exact ⟨by omega, Or.inl hv⟩
    · exact ⟨by omega, Or.inr ⟨xs, e, h0, Or.inl h1⟩⟩
    · refine ⟨by omega, Or.inr ⟨xs, e, h0, Or.inr ?_⟩⟩
      intro x hx
      exact (rowOK_iff n x).mp (List.all_eq_true.mp h2 x hx)
  · rintro ⟨hn, hv | ⟨xs, e, h0, h1 | h1⟩⟩
    · exact ⟨_, (nested_accept_iff v n _).mpr ⟨by omega, Or.inl ⟨hv, rfl⟩⟩⟩
    · exact ⟨_, (nested_accept_iff v n _).mpr ⟨by omega, Or.inr (Or.inl ⟨xs, e, h0, h1, rfl⟩)⟩⟩
    · refine ⟨_, (nested_accept_iff v n _).mpr ⟨by omega, Or.inr (Or.inr ⟨xs, e, h0, ?_, ?_, rfl⟩)⟩⟩
      · cases xs with
        | nil => exact absurd rfl h0
        | cons a t =>
          obtain ⟨ys, rfl, _⟩ := h1 a (by simp)
          simp [isReal]
      · exact List.all_eq_true.mpr fun x hx => (rowOK_iff n x).mpr (h1 x hx)

/-- output rows correspond one to one, in order, to the input rows (`RowOf` position by position):
nothing is dropped, added, padded or truncated -/
inductive RowsOf (n : Nat) : List PyVal → List PyVal → Prop
  | nil : RowsOf n [] []
  | cons {t row : PyVal} {ts rows : List PyVal} :
      RowOf n t row → RowsOf n ts rows → RowsOf n (t :: ts) (row :: rows)

theorem normRows_rowsOf (n : Nat) (xs : List PyVal) (h : ∀ x ∈ xs, isList x = true) :
    RowsOf n xs (xs.map (normRow n)) := by
  induction xs with
  | nil => exact RowsOf.nil
  | cons a t ih =>
    exact RowsOf.cons (normRow_rowOf a (h a (by simp))) (ih fun x hx => h x (by simp [hx]))

theorem RowsOf.length_eq {n : Nat} {xs rows : List PyVal} (h : RowsOf n xs rows) : rows.length = xs.length := by
  induction h with
  | nil => rfl
  | cons _ _ ih => simp [ih]

theorem rowOK_isList {n : Nat} {t : PyVal} (h : rowOK n t = true) : isList t = true := by
  obtain ⟨ys, rfl, _⟩ := (rowOK_iff n t).mp h
  rfl


end PEval.Threshold
