import PEval.Lemmas.AnalyzerCounts
import Mathlib.Algebra.Order.Ring.Rat
import Mathlib.Tactic.Linarith
/-!
# C19 lemmas (7): selections (`get` / `filter`, `filter_by_distance`, `analyze(**kwargs, distance=…)`)

* `selectTable_ok` / `selectTable_err` / `analyze_eq_selectTable`: the table `analyze` computes on is the
  full table filtered by ONE pair predicate, `RowPair.selected` (order and indices kept);
* `keyKeep_iff`, `keep_iff`, `inDistance_iff`, `selected_iff`: what that predicate says in words — every
  given keyword is matched by some row of the pair, some row of the pair lies in `[d0, d1)`;
* `selection_counts_items`: counts read off a selected sub-table are the counts of the selected items of
  the frames' pass/fail lists (the filter lemma), for every index-blind pair predicate.
-/

set_option linter.unusedSimpArgs false
set_option linter.unnecessarySimpa false

namespace PEval.Analyzer

/-! ### the selected sub-table -/

theorem selectTable_ok (full : Table) (s : Sel) (d : Option (Rat × Rat))
    (hd : ∀ dd, d = some dd → dd.1 < dd.2) :
    selectTable full s d = .ok (full.filter (RowPair.selected s d)) := by
  cases d with
  | none =>
    simp only [selectTable, Table.select]
    congr 1
    apply List.filter_congr
    intro r _
    simp [RowPair.selected]
  | some dd =>
    have h := hd dd rfl
    simp only [selectTable, filterByDistance, h, if_true, Table.select, List.filter_filter, RowPair.selected]
    congr 1
    apply List.filter_congr
    intro r _
    exact Bool.and_comm _ _

theorem selectTable_err (full : Table) (s : Sel) (dd : Rat × Rat) (hd : ¬ dd.1 < dd.2) :
    selectTable full s (some dd) = .error "AssertionError" := by
  simp [selectTable, filterByDistance, hd]

/-- `analyze` computes its three outputs on exactly the selected sub-table -/
theorem analyze_eq_selectTable (labels : List String) (full : Table) (s : Sel) (d : Option (Rat × Rat)) :
    analyze labels full s d =
      (match selectTable full s d with
       | .error e => .error e
       | .ok df =>
         if df.isEmpty then .ok none else
         match getConfusionMatrix labels df with
         | .error e => .error e
         | .ok cm => .ok (some ⟨summarizeRatio labels df, summarizeError labels full df, cm⟩)) := by
  cases d <;> rfl

/-! ### the pair predicate in words -/

/-- the rows of a pair -/
def RowPair.HasRow (r : RowPair) (c : Cell) : Prop := r.gt = some c ∨ r.est = some c

theorem anySide_iff (r : RowPair) (p : Cell → Bool) :
    r.anySide p = true ↔ ∃ c, r.HasRow c ∧ p c = true := by
  unfold RowPair.anySide RowPair.HasRow
  constructor
  · intro h
    cases hg : r.gt with
    | some g =>
      cases hpg : p g with
      | true => exact ⟨g, Or.inl rfl, hpg⟩
      | false =>
        cases he : r.est with
        | some e => exact ⟨e, Or.inr rfl, by simpa [hg, he, hpg] using h⟩
        | none => simp [hg, he, hpg] at h
    | none =>
      cases he : r.est with
      | some e => exact ⟨e, Or.inr rfl, by simpa [hg, he] using h⟩
      | none => simp [hg, he] at h
  · rintro ⟨c, hc | hc, hp⟩
    · simp [hc, hp]
    · simp [hc, hp]

theorem keyMatch_iff {β : Type} [BEq β] [LawfulBEq β] (l : List β) (v : Option β) :
    keyMatch (some l) v = true ↔ ∃ b, v = some b ∧ b ∈ l := by
  cases v <;> simp [keyMatch]

/-- one keyword: absent, or some row of the pair carries one of the listed values -/
theorem keyKeep_iff {β : Type} [BEq β] [LawfulBEq β] (sel : Option (List β)) (get : Cell → Option β) (r : RowPair) :
    r.keyKeep sel get = true ↔ ∀ l, sel = some l → ∃ c, r.HasRow c ∧ ∃ b, get c = some b ∧ b ∈ l := by
  cases sel with
  | none => simp [RowPair.keyKeep]
  | some l =>
    simp only [RowPair.keyKeep, Option.isNone_some, Bool.false_or, anySide_iff, keyMatch_iff,
      Option.some.injEq, forall_eq']

/-- `get(**kwargs)` keeps a pair iff every given keyword is matched by some row of the pair (different
keywords may be matched by different rows) -/
theorem keep_iff (s : Sel) (r : RowPair) :
    r.keep s = true ↔
      (∀ l, s.labels = some l → ∃ c, r.HasRow c ∧ c.obj.label ∈ l) ∧
      (∀ l, s.scenes = some l → ∃ c, r.HasRow c ∧ c.scene ∈ l) ∧
      (∀ l, s.frames = some l → ∃ c, r.HasRow c ∧ c.frame ∈ l) ∧
      (∀ l, s.areas = some l → ∃ c, r.HasRow c ∧ ∃ a, c.area = some a ∧ a ∈ l) ∧
      (∀ l, s.statuses = some l → ∃ c, r.HasRow c ∧ c.status ∈ l) ∧
      (∀ l, s.uuids = some l → ∃ c, r.HasRow c ∧ c.obj.uuid ∈ l) := by
  simp only [RowPair.keep, Bool.and_eq_true, keyKeep_iff, Option.some.injEq, exists_eq_left', and_assoc]

/-- `d0 ≤ ‖(x, y)‖ < d1`, stated with the distance `ρ` itself -/
theorem inDistance_iff (d : Rat × Rat) (c : Cell) (ρ : Rat) (h0 : 0 ≤ ρ)
    (hρ : ρ * ρ = c.obj.x * c.obj.x + c.obj.y * c.obj.y) :
    inDistance d c = true ↔ d.1 ≤ ρ ∧ ρ < d.2 := by
  simp only [inDistance, Bool.and_eq_true, Bool.or_eq_true, decide_eq_true_eq, ← hρ]
  constructor
  · rintro ⟨h1, h2, h3⟩
    refine ⟨?_, ?_⟩
    · rcases h1 with h1 | h1
      · linarith
      · by_contra hlt
        have hlt : ρ < d.1 := not_le.mp hlt
        nlinarith
    · by_contra hge
      have hge : d.2 ≤ ρ := not_lt.mp hge
      nlinarith
  · rintro ⟨h1, h2⟩
    refine ⟨?_, by linarith, by nlinarith⟩
    by_cases hd : d.1 ≤ 0
    · exact Or.inl hd
    · right
      have : 0 < d.1 := not_le.mp hd
      nlinarith

/-- the whole predicate of `analyze(**kwargs, distance=d)` -/
theorem selected_iff (s : Sel) (d : Option (Rat × Rat)) (r : RowPair) :
    r.selected s d = true ↔
      r.keep s = true ∧ ∀ dd, d = some dd → ∃ c, r.HasRow c ∧ inDistance dd c = true := by
  cases d with
  | none => simp [RowPair.selected]
  | some dd => simp [RowPair.selected, anySide_iff]

/-! ### counts over a selection -/

/-- sums over the frames of the scenes numbered `k, k+1, …` of a count that may look at the scene number -/
def sumScenesFrom (c : Nat → Frame → Nat) : Nat → List (List Frame) → Nat
  | _, [] => 0
  | k, fs :: rest => sumN (fs.map (c k)) + sumScenesFrom c (k + 1) rest

theorem sumScenesFrom_const (c : Frame → Nat) (k : Nat) (scenes : List (List Frame)) :
    sumScenesFrom (fun _ => c) k scenes = sumN (scenes.flatten.map c) := by
  induction scenes generalizing k with
  | nil => rfl
  | cons fs rest ih => simp [sumScenesFrom, ih, sumN_append]

theorem measure_allItems_idx (area : Rat → Rat → Option Nat) (μ : List Item → Nat) (c : Nat → Frame → Nat)
    (h0 : μ [] = 0) (happ : ∀ a b, μ (a ++ b) = μ a + μ b)
    (hc : ∀ k f, μ (frameItems area k f) = c k f) :
    ∀ (k : Nat) (scenes : List (List Frame)), μ (allItemsFrom area k scenes) = sumScenesFrom c k scenes := by
  have hs : ∀ k (fs : List Frame), μ (sceneItems area k fs) = sumN (fs.map (c k)) := by
    intro k fs
    induction fs with
    | nil => simpa [sceneItems] using h0
    | cons f fs ih =>
      have : sceneItems area k (f :: fs) = frameItems area k f ++ sceneItems area k fs := by simp [sceneItems]
      rw [this, happ, hc, ih]; simp
  intro k scenes
  induction scenes generalizing k with
  | nil => simpa [allItemsFrom, sumScenesFrom] using h0
  | cons fs rest ih => simp only [allItemsFrom, happ, hs, ih, sumScenesFrom]

/-- a pair predicate that does not look at the index -/
theorem filter_strip (t : Table) (p : Item → Bool) :
    (t.filter fun r => p r.strip).map RowPair.strip = (t.map RowPair.strip).filter p := by
  induction t with
  | nil => rfl
  | cons r t ih =>
    by_cases h : p r.strip = true
    · simp [List.filter_cons, h, ih]
    · simp [List.filter_cons, h, ih]

theorem countStatus_filterMap (side : Item → Option Cell) (st : Status) (l : List Item) :
    countStatus st (l.filterMap side) = l.countP fun it => (side it).any (·.status == st) := by
  unfold countStatus
  induction l with
  | nil => rfl
  | cons it l ih =>
    cases h : side it with
    | none => simp [List.filterMap_cons, h, ih]
    | some c => simp [List.filterMap_cons, h, ih, List.countP_cons]

theorem length_filterMap (side : Item → Option Cell) (l : List Item) :
    (l.filterMap side).length = l.countP fun it => (side it).isSome := by
  induction l with
  | nil => rfl
  | cons it l ih =>
    cases h : side it with
    | none => simp [List.filterMap_cons, h, ih]
    | some c => simp [List.filterMap_cons, h, ih, List.countP_cons]

theorem getPairResults_length (t : Table) :
    (getPairResults t).length = (t.map RowPair.strip).countP fun it => it.1.isSome && it.2.isSome := by
  unfold getPairResults
  induction t with
  | nil => rfl
  | cons r t ih =>
    cases hg : r.gt <;> cases he : r.est <;>
      simp [List.filterMap_cons, hg, he, ih, List.countP_cons, RowPair.strip]

/-- the selected items of one frame, list by list -/
def tpSel (area : Rat → Rat → Option Nat) (p : Item → Bool) (k : Nat) (f : Frame) : Nat :=
  f.tp.countP fun pr => p (resultCells area k f.frameNum .TP pr)
def fpSel (area : Rat → Rat → Option Nat) (p : Item → Bool) (k : Nat) (f : Frame) : Nat :=
  f.fp.countP fun pr => p (resultCells area k f.frameNum .FP pr)
def tnSel (area : Rat → Rat → Option Nat) (p : Item → Bool) (k : Nat) (f : Frame) : Nat :=
  f.tn.countP fun o => p (objectCells area k f.frameNum .TN o)
def fnSel (area : Rat → Rat → Option Nat) (p : Item → Bool) (k : Nat) (f : Frame) : Nat :=
  f.fn.countP fun o => p (objectCells area k f.frameNum .FN o)
/-- selected TP / FP results that carry a ground truth (the paired rows of the selection) -/
def pairedSel (area : Rat → Rat → Option Nat) (p : Item → Bool) (k : Nat) (f : Frame) : Nat :=
  (f.tp.countP fun pr => pr.gt.isSome && p (resultCells area k f.frameNum .TP pr)) +
  (f.fp.countP fun pr => pr.gt.isSome && p (resultCells area k f.frameNum .FP pr))

theorem any_map_cell (st st' : Status) (o : Option Obj) (a : Option Nat) (n k : Nat) :
    Option.any (fun c : Cell => decide (c.status = st)) (o.map fun g => (⟨st', g, a, n, k⟩ : Cell)) =
      (o.isSome && decide (st' = st)) := by
  cases o <;> simp

section
variable (area : Rat → Rat → Option Nat) (scenes : List (List Frame)) (p : Item → Bool)

/-- additive measure of the selected part of the table = sum over scenes and frames -/
theorem selected_measure (Y : Item → Bool) (c : Nat → Frame → Nat)
    (hc : ∀ k f, (frameItems area k f).countP (fun it => Y it && p it) = c k f) :
    (((addAll area scenes).table.filter fun r => p r.strip).map RowPair.strip).countP Y =
      sumScenesFrom c 0 scenes := by
  rw [filter_strip, addAll_strip, List.countP_filter]
  exact measure_allItems_idx area (fun l => l.countP fun it => Y it && p it) c rfl
    (by intro a b; simp [List.countP_append]) hc 0 scenes

theorem selection_numTP :
    getNumTP ((addAll area scenes).table.filter fun r => p r.strip) = sumScenesFrom (tpSel area p) 0 scenes := by
  unfold getNumTP
  rw [getEstimation_empty, table_filterMap_est, countStatus_filterMap]
  apply selected_measure
  intro k f
  simp [frameItems, List.countP_append, List.countP_map, Function.comp_def, resultCells, objectCells, tpSel, Status.beq_decide]

theorem selection_numFP :
    getNumFP ((addAll area scenes).table.filter fun r => p r.strip) = sumScenesFrom (fpSel area p) 0 scenes := by
  unfold getNumFP
  rw [getEstimation_empty, table_filterMap_est, countStatus_filterMap]
  apply selected_measure
  intro k f
  simp [frameItems, List.countP_append, List.countP_map, Function.comp_def, resultCells, objectCells, fpSel, Status.beq_decide]

theorem selection_numTN :
    getNumTN ((addAll area scenes).table.filter fun r => p r.strip) = sumScenesFrom (tnSel area p) 0 scenes := by
  unfold getNumTN
  rw [getGroundTruth_empty, table_filterMap_gt, countStatus_filterMap]
  apply selected_measure
  intro k f
  simp [frameItems, List.countP_append, List.countP_map, Function.comp_def, resultCells, objectCells, tnSel,
    any_map_cell, Status.beq_decide]

theorem selection_numFN :
    getNumFN ((addAll area scenes).table.filter fun r => p r.strip) = sumScenesFrom (fnSel area p) 0 scenes := by
  unfold getNumFN
  rw [getGroundTruth_empty, table_filterMap_gt, countStatus_filterMap]
  apply selected_measure
  intro k f
  simp [frameItems, List.countP_append, List.countP_map, Function.comp_def, resultCells, objectCells, fnSel,
    any_map_cell, Status.beq_decide]

theorem selection_numEstimation :
    getNumEstimation ((addAll area scenes).table.filter fun r => p r.strip) =
      sumScenesFrom (fun k f => tpSel area p k f + fpSel area p k f) 0 scenes := by
  unfold getNumEstimation
  rw [getEstimation_empty, table_filterMap_est, length_filterMap]
  apply selected_measure
  intro k f
  simp [frameItems, List.countP_append, List.countP_map, Function.comp_def, resultCells, objectCells, tpSel, fpSel]

theorem selection_paired :
    (getPairResults ((addAll area scenes).table.filter fun r => p r.strip)).length =
      sumScenesFrom (pairedSel area p) 0 scenes := by
  rw [getPairResults_length]
  apply selected_measure
  intro k f
  simp [frameItems, List.countP_append, List.countP_map, Function.comp_def, resultCells, objectCells, pairedSel]

end

/-! ### `RowPair.selected` does not look at the index -/

/-- the selection predicate on the two cells of a pair -/
def Item.selected (s : Sel) (d : Option (Rat × Rat)) (it : Item) : Bool :=
  (⟨0, it.1, it.2⟩ : RowPair).selected s d

theorem selected_strip (s : Sel) (d : Option (Rat × Rat)) (r : RowPair) :
    r.selected s d = Item.selected s d r.strip := rfl

end PEval.Analyzer
