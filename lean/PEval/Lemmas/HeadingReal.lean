import PEval.Model.HeadingQuat
import Mathlib.Analysis.SpecialFunctions.Complex.Arg
/-!
The bridge hypothesis `PEval.Heading.YawBridge` over `ℝ`, where the angle function exists on the whole circle.

`at2R y x = Complex.arg (x + y i) / π` is `np.arctan2(y, x) / π` (the mathematical function; numpy's floats are trusted).
For the pure-yaw quaternion `±(cos(τπ/2), 0, 0, sin(τπ/2))` built from a yaw of `τ` half-turns, `τ ∈ (−1, 1]`:
* the two arguments of `arctan2` in `yaw_pitch_roll[0]` are `(cos τπ, sin τπ)` for BOTH signs (`yawDirR_of_yaw`);
* `arctan2` of them is `τπ` (`yaw_recovered`): the input `τ` of the τ-model IS the yaw the code computes from either
  representative — field `dom` of the bridge and the identification "τ ↔ quaternion";
* the dot product of two such directions is `cos((α − β)π)` and the cross product `sin((β − α)π)` (`cosDiffR_eq`, `sinDiffR_eq`):
  with `cos` strictly decreasing on `[0, π]` and `sin > 0` exactly on `(0, π)` (mod 2π) these are the fields `dist`/`ac_anti` and
  `sin_sign` (`dist_real`, `sin_sign_real`).
-/
namespace PEval.HeadingReal
open Real

/-- `np.arctan2(y, x) / π` -/
noncomputable def at2R (y x : ℝ) : ℝ := Complex.arg ⟨x, y⟩ / π

/-- the two arguments of `arctan2` in `yaw_pitch_roll[0]` for the quaternion `(w, 0, 0, z)`: `PEval.Heading.yawDir` over `ℝ` -/
def yawDirR (w z : ℝ) : ℝ × ℝ := (1 - 2 * (0 * 0 + z * z), 2 * (w * z - 0 * 0))

theorem yawDirR_neg (w z : ℝ) : yawDirR (-w) (-z) = yawDirR w z := by
  simp [yawDirR]

/-- double-angle formulas: the heading direction of the quaternion of yaw `τπ` is `(cos τπ, sin τπ)` -/
theorem yawDirR_of_yaw (τ : ℝ) : yawDirR (cos (τ * π / 2)) (sin (τ * π / 2)) = (cos (τ * π), sin (τ * π)) := by
  have h2 : τ * π = 2 * (τ * π / 2) := by ring
  simp only [yawDirR, Prod.mk.injEq]
  constructor
  · rw [h2, cos_two_mul, cos_sq']; ring_nf
  · rw [h2, sin_two_mul]; ring_nf

theorem at2R_cos_sin {θ : ℝ} (h1 : -π < θ) (h2 : θ ≤ π) : at2R (sin θ) (cos θ) = θ / π := by
  unfold at2R
  have : (⟨cos θ, sin θ⟩ : ℂ) = Complex.cos θ + Complex.sin θ * Complex.I := by
    apply Complex.ext <;> simp [← Complex.ofReal_cos, ← Complex.ofReal_sin]
  rw [this, Complex.arg_cos_add_sin_mul_I ⟨h1, h2⟩]

/-- the yaw the code computes from `q` and from `−q` is the yaw the quaternion was built from -/
theorem yaw_recovered (τ : ℝ) (h1 : -1 < τ) (h2 : τ ≤ 1) (neg : Bool) :
    let w := (if neg then -1 else 1) * cos (τ * π / 2)
    let z := (if neg then -1 else 1) * sin (τ * π / 2)
    at2R (yawDirR w z).2 (yawDirR w z).1 = τ := by
  intro w z
  have hd : yawDirR w z = (cos (τ * π), sin (τ * π)) := by
    cases neg
    · simp only [w, z, Bool.false_eq_true, if_false, one_mul]; exact yawDirR_of_yaw τ
    · simp only [w, z, if_true, neg_one_mul]; rw [yawDirR_neg]; exact yawDirR_of_yaw τ
  rw [hd]
  simp only
  rw [at2R_cos_sin (by nlinarith [pi_pos]) (by nlinarith [pi_pos])]
  field_simp

/-- dot product of two heading directions = cosine of the yaw difference -/
theorem cosDiffR_eq (α β : ℝ) : cos (α * π) * cos (β * π) + sin (α * π) * sin (β * π) = cos ((α - β) * π) := by
  rw [sub_mul, cos_sub]

/-- cross product = sine of the yaw difference -/
theorem sinDiffR_eq (α β : ℝ) : cos (α * π) * sin (β * π) - sin (α * π) * cos (β * π) = sin ((β - α) * π) := by
  rw [sub_mul, sin_sub]; ring

/-- field `dist` + `ac_anti` over `ℝ`: a minimal difference `d ∈ [0, 1]` congruent to `±(α − β)` mod 2 is `arccos` of the dot product
(divided by π), and `arccos` is strictly decreasing -/
theorem dist_real {α β d : ℝ} (h0 : 0 ≤ d) (h1 : d ≤ 1) (hd : ∃ k : ℤ, d = α - β + 2 * k ∨ d = -(α - β) + 2 * k) :
    d = arccos (cos ((α - β) * π)) / π := by
  obtain ⟨k, hk | hk⟩ := hd
  · have : cos ((α - β) * π) = cos (d * π) := by
      rw [hk, add_mul, show 2 * (k : ℝ) * π = (k : ℝ) * (2 * π) by ring, cos_add_int_mul_two_pi]
    rw [this, arccos_cos (by positivity) (by nlinarith [pi_pos])]
    field_simp
  · have : cos ((α - β) * π) = cos (d * π) := by
      rw [hk, add_mul, show 2 * (k : ℝ) * π = (k : ℝ) * (2 * π) by ring, cos_add_int_mul_two_pi, neg_mul, cos_neg]
    rw [this, arccos_cos (by positivity) (by nlinarith [pi_pos])]
    field_simp

theorem arccos_anti {x y : ℝ} (hx : -1 ≤ x) (hxy : x < y) (hy : y ≤ 1) : arccos y / π < arccos x / π := by
  have := Real.strictAntiOn_arccos ⟨hx, by linarith⟩ ⟨by linarith, hy⟩ hxy
  exact div_lt_div_of_pos_right this pi_pos

/-- field `sin_sign` over `ℝ`: for a wrapped difference `e ∈ [−1, 1]` congruent to `β − α` mod 2, `0 < e < 1` exactly when the cross
product is positive -/
theorem sin_sign_real {α β e : ℝ} (h0 : -1 ≤ e) (h1 : e ≤ 1) (he : ∃ k : ℤ, e = β - α + 2 * k) :
    (0 < e ∧ e < 1) ↔ 0 < sin ((β - α) * π) := by
  obtain ⟨k, hk⟩ := he
  have hs : sin ((β - α) * π) = sin (e * π) := by
    rw [hk, add_mul, show 2 * (k : ℝ) * π = (k : ℝ) * (2 * π) by ring, sin_add_int_mul_two_pi]
  rw [hs]
  constructor
  · rintro ⟨a, b⟩
    exact sin_pos_of_pos_of_lt_pi (by positivity) (by nlinarith [pi_pos])
  · intro h
    refine ⟨?_, ?_⟩
    · by_contra hc
      have hc := not_lt.1 hc
      have : sin (e * π) ≤ 0 := sin_nonpos_of_nonpos_of_neg_pi_le (by nlinarith [pi_pos]) (by nlinarith [pi_pos])
      linarith
    · by_contra hc
      have hc := not_lt.1 hc
      have : e = 1 := le_antisymm h1 hc
      rw [this, one_mul, sin_pi] at h
      exact lt_irrefl _ h

end PEval.HeadingReal
