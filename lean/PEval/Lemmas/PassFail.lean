import PEval.Model.PassFail
/-!
Helper lemmas for C03: closed forms of the four loops of `get_positive_objects` /
`get_negative_objects` as filters of their input (core Lean only).
-/
namespace PEval.PassFail

/-! ## `get_status` -/

/-- the ground-truth status of a result: `none` iff there is no ground truth; otherwise determined
by the label kind of the ground truth and `is_result_correct` -/
theorem getStatus_some (r : Res) (g : GT) (h : r.gt = some g) :
    getStatus r =
      (if isResultCorrect r then (if g.isFP then (.FP, some .TN) else (.TP, some .TP))
       else (if g.isFP then (.FP, some .FP) else (.FP, some .FN))) := by
  simp [getStatus, h]

theorem getStatus_none (r : Res) (h : r.gt = none) : getStatus r = (.FP, none) := by
  simp [getStatus, h]

/-- the estimate status is TP exactly when the ground-truth status is TP -/
theorem getStatus_fst_TP_iff (r : Res) : (getStatus r).1 = .TP ↔ (getStatus r).2 = some .TP := by
  cases hg : r.gt with
  | none => simp [getStatus_none r hg]
  | some g =>
    rw [getStatus_some r g hg]
    cases isResultCorrect r <;> cases g.isFP <;> simp

theorem isTP_iff (r : Res) :
    isTP r = true ↔ ∃ g, r.gt = some g ∧ g.isFP = false ∧ isResultCorrect r = true := by
  unfold isTP
  cases hg : r.gt with
  | none => simp [getStatus_none r hg]
  | some g =>
    rw [getStatus_some r g hg]
    cases hc : isResultCorrect r <;> cases hf : g.isFP <;> simp [hf]

theorem isTP_eq (r : Res) : isTP r = ((getStatus r).2 == some .TP) := by
  unfold isTP
  cases hg : r.gt with
  | none => simp [getStatus_none r hg]
  | some g =>
    rw [getStatus_some r g hg]
    cases isResultCorrect r <;> cases g.isFP <;> simp <;> decide

/-! ## `get_positive_objects` -/

theorem getPositive_eq (rs : List Res) :
    getPositive rs = (rs.filter isTP, (rs.filter (fun r => !isTP r)).map fpEntry) := by
  induction rs with
  | nil => simp [getPositive]
  | cons r rs ih =>
    cases hg : r.gt with
    | none =>
      have h1 : isTP r = false := by simp [isTP, getStatus_none r hg]
      have h2 : fpEntry r = r := by simp [fpEntry, getStatus_none r hg]
      simp [getPositive, hg, ih, h1, h2]
    | some g =>
      have hs := getStatus_some r g hg
      cases hc : isResultCorrect r <;> cases hf : g.isFP <;> simp [hc, hf] at hs <;>
        simp [getPositive, hg, ih, isTP, fpEntry, hs]

theorem getPositive_fst (rs : List Res) : (getPositive rs).1 = rs.filter isTP := by
  rw [getPositive_eq]

theorem getPositive_snd (rs : List Res) :
    (getPositive rs).2 = (rs.filter (fun r => !isTP r)).map fpEntry := by
  rw [getPositive_eq]

theorem fpEntry_est (r : Res) : (fpEntry r).est = r.est := by
  unfold fpEntry; split <;> simp [Res.unmatched]

theorem fpEntry_estCrit (r : Res) : (fpEntry r).estCrit = r.estCrit := by
  unfold fpEntry; split <;> simp [Res.unmatched]

/-- the re-wrap either keeps the ground truth or drops it -/
theorem fpEntry_gt (r : Res) : (fpEntry r).gt = r.gt ∨ (fpEntry r).gt = none := by
  unfold fpEntry; split <;> simp [Res.unmatched]

/-! ## `get_negative_objects`, first loop -/

/-- ground-truth status equals `s` -/
def gtStatusIs (s : Status) (r : Res) : Bool := (getStatus r).2 == some s

theorem negFromResults_nonCand (rs : List Res) : (negFromResults rs).nonCand = gtsOf rs := by
  induction rs with
  | nil => simp [negFromResults, gtsOf]
  | cons r rs ih =>
    cases hg : r.gt with
    | none => simp [negFromResults, gtsOf, hg, getStatus_none r hg] at ih ⊢; exact ih
    | some g =>
      have hs := getStatus_some r g hg
      cases hc : isResultCorrect r <;> cases hf : g.isFP <;> simp [hc, hf] at hs <;>
        simp [negFromResults, gtsOf, hg, hs] at ih ⊢ <;> exact ih

theorem negFromResults_tn (rs : List Res) :
    (negFromResults rs).tn = gtsOf (rs.filter (gtStatusIs .TN)) := by
  induction rs with
  | nil => simp [negFromResults, gtsOf]
  | cons r rs ih =>
    cases hg : r.gt with
    | none =>
      simp [negFromResults, gtsOf, hg, getStatus_none r hg, gtStatusIs] at ih ⊢; exact ih
    | some g =>
      have hs := getStatus_some r g hg
      cases hc : isResultCorrect r <;> cases hf : g.isFP <;> simp [hc, hf] at hs <;>
        simp [negFromResults, gtsOf, hg, hs, gtStatusIs] at ih ⊢ <;> exact ih

theorem negFromResults_fn (rs : List Res) :
    (negFromResults rs).fn = gtsOf (rs.filter (gtStatusIs .FN)) := by
  induction rs with
  | nil => simp [negFromResults, gtsOf]
  | cons r rs ih =>
    cases hg : r.gt with
    | none =>
      simp [negFromResults, gtsOf, hg, getStatus_none r hg, gtStatusIs] at ih ⊢; exact ih
    | some g =>
      have hs := getStatus_some r g hg
      cases hc : isResultCorrect r <;> cases hf : g.isFP <;> simp [hc, hf] at hs <;>
        simp [negFromResults, gtsOf, hg, hs, gtStatusIs] at ih ⊢ <;> exact ih

/-! ## `get_negative_objects`, second loop -/

theorem scanGts_eq (nc gts : List GT) :
    scanGts nc gts =
      (gts.filter (fun g => !inNonCand g nc && g.isFP),
       gts.filter (fun g => !inNonCand g nc && !g.isFP)) := by
  induction gts with
  | nil => simp [scanGts]
  | cons g gs ih =>
    cases hn : inNonCand g nc <;> cases hf : g.isFP <;> simp [scanGts, hn, hf, ih]

theorem getNegative_eq (gts : List GT) (rs : List Res) :
    getNegative gts rs =
      (gtsOf (rs.filter (gtStatusIs .TN)) ++ gts.filter (fun g => !inNonCand g (gtsOf rs) && g.isFP),
       gtsOf (rs.filter (gtStatusIs .FN)) ++ gts.filter (fun g => !inNonCand g (gtsOf rs) && !g.isFP)) := by
  simp [getNegative, scanGts_eq, negFromResults_nonCand, negFromResults_tn, negFromResults_fn]

end PEval.PassFail
