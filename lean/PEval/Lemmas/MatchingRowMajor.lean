import PEval.Lemmas.MatchingUnique
/-!
The tie-breaking of the greedy matcher, and the full functional characterisation of its result WITH ties
(audit C02 findings 1, 2, 5).

`np.nanargmin / np.nanargmax` return the FIRST occurrence of the optimum in the flattened (row-major) array and the
array is the table that REMAINS after the `np.delete`s, so the rule of the code is

  "take the first best cell in row-major order of the remaining table: the remaining estimate that is listed first
   wins, among its cells the remaining ground truth that is listed first".

This file states that rule *without* mentioning `cands` or `argBest` (predicates `Avail`, `RowMajorLe`, `SpecPick`,
relation `RowMajorRun`), proves that every step of the implementation is such a pick and conversely
(`argBest_cands_iff_specPick`), that the relation is FUNCTIONAL whatever ties the table has (`rowMajorRun_unique`) and
that the implementation is its unique run (`stage_refines_rowMajor`, `matchFrom_refines_rowMajor`).  No input is outside
these statements (no `NoTies` hypothesis).
-/
namespace PEval.Matching

/-! ## first arg-best, positionally -/

/-- `c` is the FIRST best element of `l`: it occurs in `l`, everything listed before it is strictly worse than it,
nothing listed after it is strictly better -/
def IsFirstBest (mx : Bool) (l : List (Nat × Nat × Rat)) (c : Nat × Nat × Rat) : Prop :=
  ∃ l1 l2, l = l1 ++ c :: l2 ∧ (∀ x ∈ l1, better mx c.2.2 x.2.2 = true) ∧
    (∀ x ∈ l2, better mx x.2.2 c.2.2 = false)

theorem argBest_isFirstBest (mx : Bool) (l : List (Nat × Nat × Rat)) (c) (h : argBest mx l = some c) :
    IsFirstBest mx l c := by
  induction l generalizing c with
  | nil => simp [argBest] at h
  | cons a as ih =>
    simp only [argBest] at h
    split at h
    · rename_i hn
      simp at h; subst h
      have := argBest_none mx as hn; subst this
      exact ⟨[], [], rfl, by simp, by simp⟩
    · rename_i d hd
      split at h
      · rename_i hb
        simp at h; subst h
        obtain ⟨l1, l2, hl, h1, h2⟩ := ih d hd
        refine ⟨a :: l1, l2, by simp [hl], ?_, h2⟩
        intro x hx
        simp only [List.mem_cons] at hx
        rcases hx with rfl | hx
        · exact hb
        · exact h1 x hx
      · rename_i hb
        simp at h; subst h
        refine ⟨[], as, rfl, by simp, ?_⟩
        intro x hx
        have hxd := argBest_opt mx as d hd x hx
        cases hxa : better mx x.2.2 a.2.2 with
        | false => rfl
        | true =>
          have hda : better mx d.2.2 a.2.2 = false := by simpa using hb
          have := better_of_better_of_not_better mx _ _ _ hxa hda
          rw [this] at hxd; cases hxd

theorem argBest_of_isFirstBest (mx : Bool) (l : List (Nat × Nat × Rat)) (c) (h : IsFirstBest mx l c) :
    argBest mx l = some c := by
  obtain ⟨l1, l2, hl, h1, h2⟩ := h
  subst hl
  induction l1 with
  | nil =>
    simp only [List.nil_append, argBest]
    cases hd : argBest mx l2 with
    | none => rfl
    | some d =>
      have := h2 d (argBest_mem mx l2 d hd)
      simp [this]
  | cons a l1 ih =>
    have ih' := ih (fun x hx => h1 x (List.mem_cons_of_mem _ hx))
    simp only [List.cons_append, argBest, ih']
    have := h1 a (by simp)
    simp [this]

/-- the first arg-best is characterised by its position: the pick of `np.nanargmin / nanargmax` -/
theorem argBest_eq_some_iff (mx : Bool) (l : List (Nat × Nat × Rat)) (c) :
    argBest mx l = some c ↔ IsFirstBest mx l c :=
  ⟨argBest_isFirstBest mx l c, argBest_of_isFirstBest mx l c⟩

theorem isFirstBest_unique {mx : Bool} {l : List (Nat × Nat × Rat)} {c c'} (h : IsFirstBest mx l c)
    (h' : IsFirstBest mx l c') : c = c' := by
  have a := argBest_of_isFirstBest mx l c h
  have b := argBest_of_isFirstBest mx l c' h'
  rw [a] at b; exact Option.some.inj b

/-! ## the candidate list is the row-major enumeration of the remaining table -/

/-- strict position order of the remaining table (rows `es`, columns `gs`): row first, then column -/
def RowMajorLt (es gs : List Nat) (x y : Nat × Nat × Rat) : Prop :=
  es.idxOf x.1 < es.idxOf y.1 ∨ (x.1 = y.1 ∧ gs.idxOf x.2.1 < gs.idxOf y.2.1)

theorem idxOf_cons_of_ne {a x : Nat} {l : List Nat} (h : x ≠ a) : (a :: l).idxOf x = l.idxOf x + 1 := by
  rw [List.idxOf_cons]
  have : (a == x) = false := by simpa using (fun e => h e.symm)
  simp [this]

theorem pairwise_idxOf {l : List Nat} (h : l.Nodup) : l.Pairwise (fun a b => l.idxOf a < l.idxOf b) := by
  induction l with
  | nil => exact List.Pairwise.nil
  | cons a l ih =>
    rw [List.nodup_cons] at h
    rw [List.pairwise_cons]
    constructor
    · intro b hb
      have hne : b ≠ a := fun e => h.1 (e ▸ hb)
      rw [List.idxOf_cons_self, idxOf_cons_of_ne hne]
      omega
    · refine List.Pairwise.imp_of_mem ?_ (ih h.2)
      intro x y hx hy hxy
      have hx' : x ≠ a := fun e => h.1 (e ▸ hx)
      have hy' : y ≠ a := fun e => h.1 (e ▸ hy)
      rw [idxOf_cons_of_ne hx', idxOf_cons_of_ne hy']
      omega

/-- members of a list are determined by their position -/
theorem eq_of_idxOf_eq {l : List Nat} {a b : Nat} (ha : a ∈ l) (hb : b ∈ l) (h : l.idxOf a = l.idxOf b) : a = b := by
  have h1 := List.getElem_idxOf (List.idxOf_lt_length_iff.2 ha)
  have h2 := List.getElem_idxOf (List.idxOf_lt_length_iff.2 hb)
  rw [← h1, ← h2]
  simp [h]

/-- `cands` lists the scored cells of the remaining table in row-major order -/
theorem cands_pairwise (t : Tbl) (s1 : Bool) {es gs : List Nat} (hE : es.Nodup) (hG : gs.Nodup) :
    (cands t s1 es gs).Pairwise (RowMajorLt es gs) := by
  unfold cands
  rw [List.pairwise_flatMap]
  constructor
  · intro i _
    refine List.Pairwise.filterMap _ ?_ (pairwise_idxOf hG)
    intro a a' haa b hb b' hb'
    split at hb
    · simp at hb
    · split at hb
      · simp at hb
      · split at hb'
        · simp at hb'
        · split at hb'
          · simp at hb'
          · simp at hb hb'
            subst hb; subst hb'
            exact Or.inr ⟨rfl, haa⟩
  · refine List.Pairwise.imp ?_ (pairwise_idxOf hE)
    intro i1 i2 hlt x hx y hy
    rw [List.mem_filterMap] at hx hy
    obtain ⟨j1, _, hx⟩ := hx
    obtain ⟨j2, _, hy⟩ := hy
    have hx1 : x.1 = i1 := by
      split at hx
      · simp at hx
      · split at hx
        · simp at hx
        · simp at hx; subst hx; rfl
    have hy1 : y.1 = i2 := by
      split at hy
      · simp at hy
      · split at hy
        · simp at hy
        · simp at hy; subst hy; rfl
    left; rw [hx1, hy1]; exact hlt

/-! ## the rule of the code, stated on the table alone -/

/-- the cell `(i, j)` with score `s` is available: both objects remain, the cell carries a score (same frame, within the
threshold), and in stage 1 the pair is label-compatible -/
def Avail (t : Tbl) (s1 : Bool) (es gs : List Nat) (i j : Nat) (s : Rat) : Prop :=
  i ∈ es ∧ j ∈ gs ∧ t.score i j = some s ∧ (s1 = true → t.valid i j = true)

/-- `(i, j)` is not after `(i', j')` in the row-major order of the remaining table -/
def RowMajorLe (es gs : List Nat) (i j i' j' : Nat) : Prop :=
  es.idxOf i < es.idxOf i' ∨ (i = i' ∧ gs.idxOf j ≤ gs.idxOf j')

/-- THE pick of one step: an available cell that no available cell beats, and that is first in row-major order among the
available cells scoring as well as it -/
def SpecPick (t : Tbl) (s1 : Bool) (es gs : List Nat) (i j : Nat) (s : Rat) : Prop :=
  Avail t s1 es gs i j s ∧
    ∀ i' j' s', Avail t s1 es gs i' j' s' →
      better t.maximize s' s = false ∧ (better t.maximize s s' = false → RowMajorLe es gs i j i' j')

theorem mem_cands_iff_avail {t : Tbl} {s1 : Bool} {es gs : List Nat} {i j : Nat} {s : Rat} :
    (i, j, s) ∈ cands t s1 es gs ↔ Avail t s1 es gs i j s := mem_cands_iff

theorem specPick_unique {t : Tbl} {s1 : Bool} {es gs : List Nat} {i j i' j' : Nat} {s s' : Rat}
    (h : SpecPick t s1 es gs i j s) (h' : SpecPick t s1 es gs i' j' s') : i = i' ∧ j = j' ∧ s = s' := by
  obtain ⟨ha, hall⟩ := h
  obtain ⟨ha', hall'⟩ := h'
  obtain ⟨n1, l1⟩ := hall i' j' s' ha'
  obtain ⟨n2, l2⟩ := hall' i j s ha
  have hle := l1 n2
  have hle' := l2 n1
  have hij : i = i' ∧ j = j' := by
    rcases hle with h1 | ⟨rfl, h1⟩
    · rcases hle' with h2 | ⟨rfl, _⟩
      · omega
      · omega
    · rcases hle' with h2 | ⟨_, h2⟩
      · omega
      · exact ⟨rfl, eq_of_idxOf_eq ha.2.1 ha'.2.1 (by omega)⟩
  obtain ⟨rfl, rfl⟩ := hij
  refine ⟨rfl, rfl, ?_⟩
  have := ha.2.2.1.symm.trans ha'.2.2.1
  exact Option.some.inj this

/-- a first-best element of the row-major candidate list is the pick of the rule -/
theorem specPick_of_isFirstBest {t : Tbl} {s1 : Bool} {es gs : List Nat} (hE : es.Nodup) (hG : gs.Nodup)
    {i j : Nat} {s : Rat} (h : IsFirstBest t.maximize (cands t s1 es gs) (i, j, s)) :
    SpecPick t s1 es gs i j s := by
  obtain ⟨l1, l2, hl, h1, h2⟩ := h
  have hpw := cands_pairwise t s1 hE hG
  rw [hl, List.pairwise_append, List.pairwise_cons] at hpw
  obtain ⟨_, ⟨hafter, _⟩, _⟩ := hpw
  have hmem : (i, j, s) ∈ cands t s1 es gs := by rw [hl]; simp
  refine ⟨mem_cands_iff.1 hmem, ?_⟩
  intro i' j' s' ha'
  have hx : (i', j', s') ∈ l1 ++ (i, j, s) :: l2 := hl ▸ mem_cands_iff.2 ha'
  rw [List.mem_append, List.mem_cons] at hx
  rcases hx with hx | hx | hx
  · have hb := h1 _ hx
    exact ⟨better_asymm _ _ _ hb, fun hn => by simp only at hb; rw [hb] at hn; cases hn⟩
  · cases hx
    exact ⟨better_irrefl _ _, fun _ => Or.inr ⟨rfl, Nat.le_refl _⟩⟩
  · refine ⟨h2 _ hx, fun _ => ?_⟩
    rcases hafter _ hx with h | ⟨h, h'⟩
    · exact Or.inl h
    · exact Or.inr ⟨h, Nat.le_of_lt h'⟩

/-- **the tie-breaking rule of the code.** A step picks `(i, j)` with score `s` exactly when the cell is available, no
available cell is strictly better, and every available cell scoring as well comes later in the row-major order of the
remaining table. -/
theorem argBest_cands_iff_specPick {t : Tbl} {s1 : Bool} {es gs : List Nat} (hE : es.Nodup) (hG : gs.Nodup)
    {i j : Nat} {s : Rat} :
    argBest t.maximize (cands t s1 es gs) = some (i, j, s) ↔ SpecPick t s1 es gs i j s := by
  constructor
  · intro h
    exact specPick_of_isFirstBest hE hG (argBest_isFirstBest _ _ _ h)
  · intro h
    cases hb : argBest t.maximize (cands t s1 es gs) with
    | none =>
      have := argBest_none _ _ hb
      have hm := mem_cands_iff.2 h.1
      rw [this] at hm; cases hm
    | some c =>
      obtain ⟨i', j', s'⟩ := c
      have h' := specPick_of_isFirstBest hE hG (argBest_isFirstBest _ _ _ hb)
      obtain ⟨rfl, rfl, rfl⟩ := specPick_unique h h'
      rfl

/-- a loop stops exactly when no cell is available -/
theorem argBest_cands_none_iff {t : Tbl} {s1 : Bool} {es gs : List Nat} :
    argBest t.maximize (cands t s1 es gs) = none ↔ ∀ i j s, ¬ Avail t s1 es gs i j s := by
  rw [argBest_nil_iff]
  constructor
  · intro h i j s ha
    have := mem_cands_iff.2 ha
    rw [h] at this; cases this
  · intro h
    apply List.eq_nil_iff_forall_not_mem.2
    rintro ⟨i, j, s⟩ hx
    exact h i j s (mem_cands_iff.1 hx)

/-! ## the documented loop as a relation that does not mention the implementation's candidate list -/

/-- "repeatedly take the first best available cell in row-major order of the remaining table, until no cell is
available" -/
inductive RowMajorRun (t : Tbl) (s1 : Bool) : St → St → Prop where
  | done (st : St) : (∀ i j s, ¬ Avail t s1 st.es st.gs i j s) → RowMajorRun t s1 st st
  | pick (st st' : St) (i j : Nat) (s : Rat) :
      SpecPick t s1 st.es st.gs i j s →
      RowMajorRun t s1 { es := st.es.erase i, gs := st.gs.erase j, pairs := st.pairs ++ [(i, j)] } st' →
      RowMajorRun t s1 st st'

/-- the loop of the implementation is a run of the rule (given fuel for every remaining estimate, as in the code) -/
theorem stage_refines_rowMajor (t : Tbl) (s1 : Bool) (fuel : Nat) (st : St) (hE : st.es.Nodup) (hG : st.gs.Nodup)
    (hf : st.es.length ≤ fuel) : RowMajorRun t s1 st (stage t s1 fuel st) := by
  induction fuel generalizing st with
  | zero =>
    have : st.es = [] := List.eq_nil_of_length_eq_zero (Nat.le_zero.1 hf)
    refine RowMajorRun.done st ?_
    intro i j s ha
    rw [this] at ha; exact absurd ha.1 (by simp)
  | succ n ih =>
    cases hb : argBest t.maximize (cands t s1 st.es st.gs) with
    | none => rw [stage_succ_none hb]; exact RowMajorRun.done st (argBest_cands_none_iff.1 hb)
    | some c =>
      obtain ⟨i, j, s⟩ := c
      rw [stage_succ_some hb]
      have hi := (pick_spec hb).1
      refine RowMajorRun.pick st _ i j s ((argBest_cands_iff_specPick hE hG).1 hb)
        (ih _ (hE.erase i) (hG.erase j) ?_)
      simp only [List.length_erase_of_mem hi]
      have : 0 < st.es.length := List.length_pos_of_mem hi
      omega

/-- **the rule determines the result, ties or not**: the relation has at most one run from every state -/
theorem rowMajorRun_unique {t : Tbl} {s1 : Bool} {st a b : St}
    (ha : RowMajorRun t s1 st a) (hb : RowMajorRun t s1 st b) : a = b := by
  induction ha generalizing b with
  | done st hnone =>
    cases hb with
    | done _ _ => rfl
    | pick _ _ i j s hp _ => exact absurd hp.1 (hnone i j s)
  | pick st st' i j s hp _ ih =>
    cases hb with
    | done _ hnone => exact absurd hp.1 (hnone i j s)
    | pick _ _ i' j' s' hp' hrun' =>
      obtain ⟨rfl, rfl, rfl⟩ := specPick_unique hp hp'
      exact ih hrun'

/-- every run of the row-major rule is a run of the weaker relation "take *a* best available pair" (`GreedyRun`) -/
theorem rowMajorRun_greedyRun {t : Tbl} {s1 : Bool} {st a : St} (h : RowMajorRun t s1 st a) :
    GreedyRun t s1 st a := by
  induction h with
  | done st hnone =>
    refine GreedyRun.done st (List.eq_nil_iff_forall_not_mem.2 ?_)
    rintro ⟨i, j, s⟩ hx
    exact hnone i j s (mem_cands_iff.1 hx)
  | pick st st' i j s hp _ ih =>
    refine GreedyRun.pick st st' i j s (mem_cands_iff.2 hp.1) ?_ ih
    rintro ⟨i', j', s'⟩ hx
    exact (hp.2 i' j' s' (mem_cands_iff.1 hx)).1

/-- the documented assignment WITH its tie-breaking: the compatible-only loop followed by the label-blind loop -/
def TwoStageRowMajor (t : Tbl) (es gs : List Nat) (st : St) : Prop :=
  ∃ s1, RowMajorRun t true { es := es, gs := gs, pairs := [] } s1 ∧ RowMajorRun t false s1 st

theorem stage1State_nodup (t : Tbl) {es gs : List Nat} (hE : es.Nodup) (hG : gs.Nodup) :
    (stage1State t es gs).es.Nodup ∧ (stage1State t es gs).gs.Nodup := by
  have := stage_es_sublist t true es.length { es := es, gs := gs, pairs := [] }
  exact ⟨List.Nodup.sublist this.1 hE, List.Nodup.sublist this.2 hG⟩

theorem matchFrom_refines_rowMajor (t : Tbl) {es gs : List Nat} (hE : es.Nodup) (hG : gs.Nodup) :
    TwoStageRowMajor t es gs (matchFrom t es gs) := by
  obtain ⟨h1, h2⟩ := stage1State_nodup t hE hG
  refine ⟨stage1State t es gs, stage_refines_rowMajor t true es.length _ hE hG (Nat.le_refl _), ?_⟩
  rw [matchFrom_eq]
  exact stage_refines_rowMajor t false _ _ h1 h2 (Nat.le_refl _)

theorem twoStageRowMajor_unique {t : Tbl} {es gs : List Nat} {a b : St}
    (ha : TwoStageRowMajor t es gs a) (hb : TwoStageRowMajor t es gs b) : a = b := by
  obtain ⟨sa, ha1, ha2⟩ := ha
  obtain ⟨sb, hb1, hb2⟩ := hb
  have := rowMajorRun_unique ha1 hb1
  subst this
  exact rowMajorRun_unique ha2 hb2

theorem twoStageRowMajor_twoStageRun {t : Tbl} {es gs : List Nat} {a : St} (h : TwoStageRowMajor t es gs a) :
    TwoStageRun t es gs a := by
  obtain ⟨s, h1, h2⟩ := h
  exact ⟨s, rowMajorRun_greedyRun h1, rowMajorRun_greedyRun h2⟩

/-! ## row-major order of the remaining table = order of the caller's indices

The matcher starts from `List.range n` and only deletes, so the remaining index lists stay increasing and "listed
first" means "smaller index in the caller's list". -/

theorem sorted_idxOf_lt_iff {l : List Nat} (h : l.Pairwise (· < ·)) {a b : Nat} (ha : a ∈ l) (hb : b ∈ l) :
    l.idxOf a < l.idxOf b ↔ a < b := by
  induction l with
  | nil => cases ha
  | cons x l ih =>
    rw [List.pairwise_cons] at h
    simp only [List.mem_cons] at ha hb
    rcases ha with rfl | ha <;> rcases hb with rfl | hb
    · simp
    · have hne : b ≠ a := fun e => by have := h.1 b hb; omega
      rw [List.idxOf_cons_self, idxOf_cons_of_ne hne]
      have := h.1 b hb
      constructor <;> intro _ <;> omega
    · have hne : a ≠ b := fun e => by have := h.1 a ha; omega
      rw [List.idxOf_cons_self, idxOf_cons_of_ne hne]
      have := h.1 a ha
      constructor <;> intro _ <;> omega
    · have hna : a ≠ x := fun e => by have := h.1 a ha; omega
      have hnb : b ≠ x := fun e => by have := h.1 b hb; omega
      rw [idxOf_cons_of_ne hna, idxOf_cons_of_ne hnb]
      have := ih h.2 ha hb
      omega

theorem sorted_nodup {l : List Nat} (h : l.Pairwise (· < ·)) : l.Nodup :=
  h.imp (fun hab => Nat.ne_of_lt hab)

theorem sorted_idxOf_le_iff {l : List Nat} (h : l.Pairwise (· < ·)) {a b : Nat} (ha : a ∈ l) (hb : b ∈ l) :
    l.idxOf a ≤ l.idxOf b ↔ a ≤ b := by
  have h1 := sorted_idxOf_lt_iff h hb ha
  constructor <;> intro _ <;> omega

/-- on increasing index lists the row-major order of the remaining table is the lexicographic order of the indices -/
theorem rowMajorLe_iff_lex {es gs : List Nat} (hE : es.Pairwise (· < ·)) (hG : gs.Pairwise (· < ·))
    {i j i' j' : Nat} (hi : i ∈ es) (hi' : i' ∈ es) (hj : j ∈ gs) (hj' : j' ∈ gs) :
    RowMajorLe es gs i j i' j' ↔ (i < i' ∨ (i = i' ∧ j ≤ j')) := by
  unfold RowMajorLe
  rw [sorted_idxOf_lt_iff hE hi hi', sorted_idxOf_le_iff hG hj hj']

/-- the remaining lists of a loop started on increasing lists stay increasing -/
theorem stage_sorted (t : Tbl) (s1 : Bool) (fuel : Nat) (st : St) (hE : st.es.Pairwise (· < ·))
    (hG : st.gs.Pairwise (· < ·)) :
    (stage t s1 fuel st).es.Pairwise (· < ·) ∧ (stage t s1 fuel st).gs.Pairwise (· < ·) := by
  have := stage_es_sublist t s1 fuel st
  exact ⟨hE.sublist this.1, hG.sublist this.2⟩

/-- the pick of one step in terms of the caller's indices: best score; among equal scores the smallest estimate index,
then the smallest ground-truth index -/
theorem argBest_cands_iff_lex {t : Tbl} {s1 : Bool} {es gs : List Nat} (hE : es.Pairwise (· < ·))
    (hG : gs.Pairwise (· < ·)) {i j : Nat} {s : Rat} :
    argBest t.maximize (cands t s1 es gs) = some (i, j, s) ↔
      Avail t s1 es gs i j s ∧ ∀ i' j' s', Avail t s1 es gs i' j' s' →
        better t.maximize s' s = false ∧ (better t.maximize s s' = false → (i < i' ∨ (i = i' ∧ j ≤ j'))) := by
  rw [argBest_cands_iff_specPick (sorted_nodup hE) (sorted_nodup hG)]
  unfold SpecPick
  constructor
  · rintro ⟨ha, hall⟩
    refine ⟨ha, fun i' j' s' ha' => ⟨(hall i' j' s' ha').1, fun hn => ?_⟩⟩
    exact (rowMajorLe_iff_lex hE hG ha.1 ha'.1 ha.2.1 ha'.2.1).1 ((hall i' j' s' ha').2 hn)
  · rintro ⟨ha, hall⟩
    refine ⟨ha, fun i' j' s' ha' => ⟨(hall i' j' s' ha').1, fun hn => ?_⟩⟩
    exact (rowMajorLe_iff_lex hE hG ha.1 ha'.1 ha.2.1 ha'.2.1).2 ((hall i' j' s' ha').2 hn)


/-! ## a weaker sufficient condition for "the any-best relation has one run" (audit C02 finding 2)

`NoTies` is global over the table and fails in the IoU modes as soon as two disjoint pairs both score 0.  What the
uniqueness argument needs is only that, at the steps the run actually goes through, the best score is carried by ONE
candidate. -/

/-- along the implementation's loop (fuel `n`, from `st`) the picked score is carried by no other candidate -/
def noBestTiesB (t : Tbl) (s1 : Bool) : Nat → St → Bool
  | 0, _ => true
  | fuel + 1, st =>
    match argBest t.maximize (cands t s1 st.es st.gs) with
    | none => true
    | some (i, j, s) =>
      (cands t s1 st.es st.gs).all (fun x => x.2.2 != s || x == (i, j, s)) &&
        noBestTiesB t s1 fuel { es := st.es.erase i, gs := st.gs.erase j, pairs := st.pairs ++ [(i, j)] }

def NoBestTiesFrom (t : Tbl) (s1 : Bool) (fuel : Nat) (st : St) : Prop := noBestTiesB t s1 fuel st = true

instance (t : Tbl) (s1 : Bool) (fuel : Nat) (st : St) : Decidable (NoBestTiesFrom t s1 fuel st) := by
  unfold NoBestTiesFrom; infer_instance

theorem noBestTiesFrom_succ_some {t : Tbl} {s1 : Bool} {n : Nat} {st : St} {i j : Nat} {s : Rat}
    (hb : argBest t.maximize (cands t s1 st.es st.gs) = some (i, j, s)) :
    NoBestTiesFrom t s1 (n + 1) st ↔
      (∀ x ∈ cands t s1 st.es st.gs, x.2.2 = s → x = (i, j, s)) ∧
        NoBestTiesFrom t s1 n { es := st.es.erase i, gs := st.gs.erase j, pairs := st.pairs ++ [(i, j)] } := by
  unfold NoBestTiesFrom
  rw [noBestTiesB, hb]
  simp only [Bool.and_eq_true, List.all_eq_true, Bool.or_eq_true, bne_iff_ne, ne_eq, beq_iff_eq]
  constructor
  · rintro ⟨h1, h2⟩
    refine ⟨fun x hx hs => ?_, h2⟩
    rcases h1 x hx with h | h
    · exact absurd hs h
    · exact h
  · rintro ⟨h1, h2⟩
    refine ⟨fun x hx => ?_, h2⟩
    by_cases hs : x.2.2 = s
    · exact Or.inr (h1 x hx hs)
    · exact Or.inl hs

/-- the global condition implies the local one -/
theorem noBestTiesFrom_of_noTies {t : Tbl} (hnt : NoTies t) (s1 : Bool) (fuel : Nat) (st : St) :
    NoBestTiesFrom t s1 fuel st := by
  induction fuel generalizing st with
  | zero => rfl
  | succ n ih =>
    cases hb : argBest t.maximize (cands t s1 st.es st.gs) with
    | none => unfold NoBestTiesFrom; rw [noBestTiesB, hb]
    | some c =>
      obtain ⟨i, j, s⟩ := c
      rw [noBestTiesFrom_succ_some hb]
      refine ⟨?_, ih _⟩
      rintro ⟨i', j', s'⟩ hx hs
      simp only at hs; subst hs
      have h1 := (mem_cands_iff.1 hx).2.2.1
      have h2 := (pick_spec hb).2.2.1
      obtain ⟨rfl, rfl⟩ := hnt _ _ _ _ _ h1 h2
      rfl

/-- under the local condition every run of "take *a* best available pair" is the implementation's loop -/
theorem greedyRun_eq_stage_of_noBestTies {t : Tbl} {s1 : Bool} (fuel : Nat) (st : St) {b : St}
    (hnt : NoBestTiesFrom t s1 fuel st) (hf : st.es.length ≤ fuel) (hrun : GreedyRun t s1 st b) :
    b = stage t s1 fuel st := by
  induction fuel generalizing st b with
  | zero =>
    have hnil : st.es = [] := List.eq_nil_of_length_eq_zero (Nat.le_zero.1 hf)
    cases hrun with
    | done _ _ => rfl
    | pick _ _ i j s hmem _ _ =>
      have := (mem_cands_iff.1 hmem).1
      rw [hnil] at this; cases this
  | succ n ih =>
    cases hb : argBest t.maximize (cands t s1 st.es st.gs) with
    | none =>
      rw [stage_succ_none hb]
      have hnil := argBest_none _ _ hb
      cases hrun with
      | done _ _ => rfl
      | pick _ _ i j s hmem _ _ => rw [hnil] at hmem; cases hmem
    | some c =>
      obtain ⟨i, j, s⟩ := c
      rw [stage_succ_some hb]
      rw [noBestTiesFrom_succ_some hb] at hnt
      have hi := (pick_spec hb).1
      cases hrun with
      | done _ hnil =>
        have := argBest_mem _ _ _ hb
        rw [hnil] at this; cases this
      | pick _ _ i' j' s' hmem' hopt' hrun' =>
        have h1 := hopt' (i, j, s) (argBest_mem _ _ _ hb)
        have h2 := argBest_opt _ _ _ hb (i', j', s') hmem'
        have heq : s' = s := eq_of_not_better t.maximize _ _ h2 h1
        have := hnt.1 (i', j', s') hmem' heq
        simp only [Prod.mk.injEq] at this
        obtain ⟨rfl, rfl, rfl⟩ := this
        apply ih _ hnt.2 _ hrun'
        simp only [List.length_erase_of_mem hi]
        have : 0 < st.es.length := List.length_pos_of_mem hi
        omega

/-- the local condition for both loops of a call -/
def NoBestTies2 (t : Tbl) (es gs : List Nat) : Prop :=
  NoBestTiesFrom t true es.length { es := es, gs := gs, pairs := [] } ∧
    NoBestTiesFrom t false (stage1State t es gs).es.length (stage1State t es gs)

instance (t : Tbl) (es gs : List Nat) : Decidable (NoBestTies2 t es gs) := by
  unfold NoBestTies2; infer_instance

theorem noBestTies2_of_noTies {t : Tbl} (hnt : NoTies t) (es gs : List Nat) : NoBestTies2 t es gs :=
  ⟨noBestTiesFrom_of_noTies hnt _ _ _, noBestTiesFrom_of_noTies hnt _ _ _⟩

theorem twoStageRun_eq_matchFrom_of_noBestTies {t : Tbl} {es gs : List Nat} (hnt : NoBestTies2 t es gs) {st : St}
    (hrun : TwoStageRun t es gs st) : st = matchFrom t es gs := by
  obtain ⟨s1, h1, h2⟩ := hrun
  have e1 : s1 = stage1State t es gs :=
    greedyRun_eq_stage_of_noBestTies es.length _ hnt.1 (Nat.le_refl _) h1
  subst e1
  rw [matchFrom_eq]
  exact greedyRun_eq_stage_of_noBestTies _ _ hnt.2 (Nat.le_refl _) h2

/-- runs of the any-best relation are carried along rearrangements of the remaining lists -/
theorem greedyRun_perm {t : Tbl} {s1 : Bool} {st a : St} (h : GreedyRun t s1 st a) :
    ∀ st' : St, st.es.Perm st'.es → st.gs.Perm st'.gs → st.pairs = st'.pairs →
      ∃ a', GreedyRun t s1 st' a' ∧ a.pairs = a'.pairs ∧ a.es.Perm a'.es ∧ a.gs.Perm a'.gs := by
  induction h with
  | done st hnil =>
    intro st' hE hG hP
    refine ⟨st', GreedyRun.done st' (List.eq_nil_iff_forall_not_mem.2 ?_), hP, hE, hG⟩
    intro x hx
    have := (cands_mem_congr t s1 hE hG x).2 hx
    rw [hnil] at this; cases this
  | pick st st'' i j s hmem hopt _ ih =>
    intro st' hE hG hP
    obtain ⟨a', hrun', hp, he, hg⟩ :=
      ih { es := st'.es.erase i, gs := st'.gs.erase j, pairs := st'.pairs ++ [(i, j)] }
        (hE.erase i) (hG.erase j) (by simp [hP])
    refine ⟨a', GreedyRun.pick st' a' i j s ((cands_mem_congr t s1 hE hG _).1 hmem) ?_ hrun', hp, he, hg⟩
    intro x hx
    exact hopt x ((cands_mem_congr t s1 hE hG x).2 hx)

/-- under the local condition (stated for ONE listing) the pairs do not depend on the listing order -/
theorem matchFrom_perm_of_noBestTies {t : Tbl} {es gs es' gs' : List Nat} (hnt : NoBestTies2 t es gs)
    (hE : es'.Perm es) (hG : gs'.Perm gs) : (matchFrom t es' gs').pairs = (matchFrom t es gs).pairs := by
  obtain ⟨s1, h1, h2⟩ := matchFrom_refines t es' gs'
  obtain ⟨s1', h1', hp1, he1, hg1⟩ := greedyRun_perm h1 { es := es, gs := gs, pairs := [] } hE hG rfl
  obtain ⟨fin', h2', hp2, _, _⟩ := greedyRun_perm h2 s1' he1 hg1 hp1
  have := twoStageRun_eq_matchFrom_of_noBestTies hnt ⟨s1', h1', h2'⟩
  rw [hp2, this]

end PEval.Matching
