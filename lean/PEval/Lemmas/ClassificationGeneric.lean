import PEval.Lemmas.ClassificationTlr
/-!
`_get_object_results_with_id`: structure of the result, totality and completeness under unique keys;
and the common shape of every `get_object_results` answer for ROI-less objects.
-/
namespace PEval.Classification

theorem pairById_ok {ests gts : List Obj} {rs : List Res} (h : pairById ests gts = .ok rs) :
    ∃ s, outer (stepU sameKey) gts ests (initSt ests gts) = .ok s ∧
      rs = paired s.res ++ fpResults (fpTail s.es) := by
  unfold pairById at h
  split at h
  · cases h
  · rename_i s hs
    simp only [Except.ok.injEq] at h
    exact ⟨s, hs, h.symm⟩

/-- what is known about the final state of the generic loop -/
structure GenFacts (ests gts : List Obj) (s : St) : Prop where
  wf : WF ests gts s
  res : ∀ p ∈ s.res, sameKey p.1 p.2 = true ∧ p.1 ∈ ests ∧ p.2 ∈ gts
  complete : ∀ e ∈ ests, ∀ g ∈ gts, sameKey e g = true → (e, g) ∈ s.res

theorem gen_facts {ests gts : List Obj} {s : St}
    (h : outer (stepU sameKey) gts ests (initSt ests gts) = .ok s) : GenFacts ests gts s := by
  obtain ⟨t, ht, hall⟩ := outer_res_from (stepU_is_move _) gts ests h
  refine ⟨outer_wf (stepU_is_move _) gts ests (wf_init ests gts) h, ?_, outer_stepU_complete gts ests h⟩
  intro p hp
  rw [ht] at hp
  simp only [initSt, List.nil_append] at hp
  exact hall p hp

theorem GenFacts.mem_res {ests gts : List Obj} {s : St} (F : GenFacts ests gts s) (e g : Obj) :
    (e, g) ∈ s.res ↔ e ∈ ests ∧ g ∈ gts ∧ sameKey e g = true :=
  ⟨fun h => let r := F.res _ h; ⟨r.2.1, r.2.2, r.1⟩, fun h => F.complete e h.1 g h.2.1 h.2.2⟩

/-- the estimates left in the working copy are exactly those without a same-key ground truth -/
theorem GenFacts.mem_es {ests gts : List Obj} {s : St} (F : GenFacts ests gts s) (hnd : ests.Nodup) (e : Obj) :
    e ∈ s.es ↔ e ∈ ests ∧ ∀ g ∈ gts, sameKey e g = false := by
  rw [F.wf.es_iff hnd]
  constructor
  · rintro ⟨he, hr⟩
    refine ⟨he, fun g hg => ?_⟩
    by_contra hk
    exact hr (List.mem_map.2 ⟨(e, g), F.complete e he g hg (by simpa using hk), rfl⟩)
  · rintro ⟨he, hno⟩
    refine ⟨he, fun hr => ?_⟩
    obtain ⟨g, hp⟩ := mem_map_fst hr
    have := F.res _ hp
    rw [hno g this.2.2] at this
    exact absurd this.1 (by simp)

theorem nullUuid_false {e g : Obj} (he : e.uuid ≠ none) (hg : g.uuid ≠ none) : nullUuid e g = false := by
  simp only [nullUuid, Bool.or_eq_false_iff, Option.isNone_eq_false_iff, Option.isSome_iff_ne_none]
  exact ⟨he, hg⟩

theorem nullUuid_true_left {e g : Obj} (he : e.uuid = none) : nullUuid e g = true := by
  simp [nullUuid, he]

theorem nullUuid_true_right {e g : Obj} (hg : g.uuid = none) : nullUuid e g = true := by
  simp [nullUuid, hg]

theorem generic_loop_total {ests gts : List Obj} (hn : ∀ o ∈ ests ++ gts, o.uuid ≠ none)
    (hke : (ests.map key).Nodup) (hkg : (gts.map key).Nodup) :
    ∃ s, outer (stepU sameKey) gts ests (initSt ests gts) = .ok s := by
  have hnde : ests.Nodup := List.Nodup.of_map _ hke
  have hndg : gts.Nodup := List.Nodup.of_map _ hkg
  refine outer_stepU_total hndg ests (initSt ests gts) hnde ?_ ?_ ?_ (fun e he => he) (fun _ _ g hg _ => hg)
  · intro e he g hg
    exact nullUuid_false (hn e (List.mem_append_left _ he)) (hn g (List.mem_append_right _ hg))
  · intro e _ g hg g' hg' h h'
    exact key_inj hkg hg hg' ((sameKey_iff.1 h).symm.trans (sameKey_iff.1 h'))
  · intro e he e' he' g _ h h'
    exact key_inj hke he he' ((sameKey_iff.1 h).trans (sameKey_iff.1 h').symm)

/-! ## membership in a result list -/

theorem mem_results_some {ps : List (Obj × Obj)} {tail : List Obj} {e g : Obj} :
    ({ est := e, gt := some g } : Res) ∈ paired ps ++ fpResults tail ↔ (e, g) ∈ ps := by
  rw [List.mem_append, mem_paired]
  constructor
  · rintro (h | h)
    · exact h
    · simp [fpResults] at h
  · exact Or.inl

theorem mem_results_none {ps : List (Obj × Obj)} {tail : List Obj} {e : Obj} :
    ({ est := e, gt := none } : Res) ∈ paired ps ++ fpResults tail ↔ e ∈ tail := by
  rw [List.mem_append]
  constructor
  · rintro (h | h)
    · obtain ⟨p, _, hp⟩ := paired_gt_some h
      simp at hp
    · simpa [fpResults] using h
  · intro h
    exact Or.inr (by simpa [fpResults] using h)

theorem mem_fpTail {es : List Obj} {e : Obj} :
    e ∈ fpTail es ↔ e ∈ es ∧ ∀ x ∈ es, x.frame ≠ camTrafficLight := by
  unfold fpTail
  split
  · rename_i h
    simp only [Bool.and_eq_true, Bool.not_eq_eq_eq_not, Bool.not_true, List.any_eq_false,
      beq_iff_eq] at h
    exact ⟨fun he => ⟨he, fun x hx => h.2 x hx⟩, fun he => he.1⟩
  · rename_i h
    constructor
    · intro he; cases he
    · rintro ⟨he, hall⟩
      exfalso
      apply h
      simp only [Bool.and_eq_true, Bool.not_eq_eq_eq_not, Bool.not_true, List.any_eq_false, beq_iff_eq]
      refine ⟨?_, fun x hx => hall x hx⟩
      cases es with
      | nil => cases he
      | cons _ _ => rfl

theorem fpTail_cases (es : List Obj) : fpTail es = es ∨ fpTail es = [] := by
  unfold fpTail; split <;> simp

/-! ## the shape of every answer of `get_object_results` -/

/-- pairs `ps`, unused estimates `left`, unused ground truths `gleft`, reported GT-less estimates `tail` -/
structure Shape (ests gts : List Obj) (rs : List Res) (ps : List (Obj × Obj)) (left gleft tail : List Obj) : Prop where
  eq : rs = paired ps ++ fpResults tail
  es : ests.Perm (left ++ ps.map Prod.fst)
  gs : gts.Perm (gleft ++ ps.map Prod.snd)
  tail : tail = left ∨ tail = []
  cam : ∀ p ∈ ps, p.1.frame = p.2.frame

theorem objectResults_shape {fpv uf : Bool} {ests gts : List Obj} {rs : List Res}
    (h : objectResults fpv uf ests gts = .ok rs) : ∃ ps left gleft tail, Shape ests gts rs ps left gleft tail := by
  unfold objectResults at h
  split at h
  · simp only [Except.ok.injEq] at h
    exact ⟨[], [], gts, [], by simp [← h, paired, fpResults], by simp, by simp, Or.inl rfl, by simp⟩
  · simp only [Except.ok.injEq] at h
    rename_i e0 et
    by_cases hf : fpv = true
    · exact ⟨[], e0 :: et, [], [], by simp [← h, hf, paired, fpResults], by simp, by simp, Or.inr rfl, by simp⟩
    · exact ⟨[], e0 :: et, [], e0 :: et, by simp [← h, hf, paired], by simp, by simp, Or.inl rfl, by simp⟩
  · split at h
    · obtain ⟨s1, s2, h1, h2, hrs⟩ := pairTlr_ok h
      obtain ⟨p2, F⟩ := tlr_facts h1 h2
      refine ⟨s2.res, s2.es, s2.gs, [], by simp [hrs, fpResults], F.wf2.es, F.wf2.gs, Or.inr rfl, ?_⟩
      intro p hp
      rw [F.res2] at hp
      rcases List.mem_append.1 hp with hp | hp
      · exact cond1_frame (F.res1 p hp).1
      · exact sameKey_frame (F.pairs2 p hp).1
    · obtain ⟨s, hs, hrs⟩ := pairById_ok h
      have F := gen_facts hs
      exact ⟨s.res, s.es, s.gs, fpTail s.es, hrs, F.wf.es, F.wf.gs, fpTail_cases _,
        fun p hp => sameKey_frame (F.res p hp).1⟩

end PEval.Classification
