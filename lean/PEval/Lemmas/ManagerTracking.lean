import PEval.Model.ManagerTracking
import PEval.Lemmas.Manager
import PEval.Lemmas.Clear
/-!
Helper lemmas for the tracking extension of C13 (core Lean only), part 1: runs of the extended state
machine, what the accumulation loop of `get_scene_result` hands to the tracking metrics, reading a
single `CLEAR` out of `MetricsScore.tracking_scores`, and the invariant "every stored tracking score was
computed from the stored predecessor".
-/

namespace PEval.ManagerTracking
open PEval.Manager PEval PEval.Clear

variable {E C : Type}

/-! ### single steps and runs -/

theorem tstep_dataset (sem : TSem E C) (s : TState) (op : Op E C) : (tstep sem s op).1.dataset = s.dataset := by
  cases op <;> rfl

theorem trun_dataset (sem : TSem E C) (s : TState) (ops : List (Op E C)) : (trun sem s ops).1.dataset = s.dataset := by
  induction ops generalizing s with
  | nil => rfl
  | cons op ops ih => simp only [trun]; rw [ih, tstep_dataset]

theorem tstep_query (sem : TSem E C) (s : TState) (op : Op E C) (h : op.isQuery = true) : (tstep sem s op).1 = s := by
  cases op <;> first | rfl | (simp [Op.isQuery] at h)

theorem trun_queries (sem : TSem E C) (s : TState) (ops : List (Op E C)) (h : ∀ op ∈ ops, op.isQuery = true) :
    (trun sem s ops).1 = s := by
  induction ops generalizing s with
  | nil => rfl
  | cons op ops ih =>
    simp only [trun]
    rw [tstep_query sem s op (h op List.mem_cons_self)]
    exact ih s (fun o ho => h o (List.mem_cons_of_mem _ ho))

theorem trun_append (sem : TSem E C) (s : TState) (a b : List (Op E C)) :
    trun sem s (a ++ b) = ((trun sem (trun sem s a).1 b).1, (trun sem s a).2 ++ (trun sem (trun sem s a).1 b).2) := by
  induction a generalizing s with
  | nil => simp [trun]
  | cons op ops ih => simp only [List.cons_append, trun]; rw [ih]

theorem tlastOut_append_one (sem : TSem E C) (s : TState) (pre : List (Op E C)) (op : Op E C) :
    tlastOut sem s (pre ++ [op]) = some (tstep sem (trun sem s pre).1 op).2 := by
  unfold tlastOut
  rw [trun_append]
  simp [trun]

/-- the stored tracking views are exactly the fresh evaluations of the `add`s, in order -/
theorem trun_frameResults_tb (sem : TSem E C) (s : TState) (ops : List (Op E C)) :
    (trun sem s ops).1.frameResults.map (·.tb) = s.frameResults.map (·.tb) ++ addsTB sem ops := by
  induction ops generalizing s with
  | nil => simp [trun, addsTB]
  | cons op ops ih =>
    simp only [trun]
    rw [ih]
    cases op with
    | add g e c => simp [tstep, taddFrameResult, tevalFrame, addsTB]
    | scene => simp [tstep, addsTB]
    | lookup t thr => simp [tstep, addsTB]

/-- … and so are the stored detection views -/
theorem trun_frameResults_det (sem : TSem E C) (s : TState) (ops : List (Op E C)) :
    (trun sem s ops).1.frameResults.map (·.det) = s.frameResults.map (·.det) ++ addsDetT sem ops := by
  induction ops generalizing s with
  | nil => simp [trun, addsDetT]
  | cons op ops ih =>
    simp only [trun]
    rw [ih]
    cases op with
    | add g e c => simp [tstep, taddFrameResult, tevalFrame, addsDetT]
    | scene => simp [tstep, addsDetT]
    | lookup t thr => simp [tstep, addsDetT]

theorem addsTB_append (sem : TSem E C) (a b : List (Op E C)) :
    addsTB sem (a ++ b) = addsTB sem a ++ addsTB sem b := by
  induction a with
  | nil => simp [addsTB]
  | cons op ops ih => cases op <;> simp [addsTB, ih]

theorem addsDetT_append (sem : TSem E C) (a b : List (Op E C)) :
    addsDetT sem (a ++ b) = addsDetT sem a ++ addsDetT sem b := by
  induction a with
  | nil => simp [addsDetT]
  | cons op ops ih => cases op <;> simp [addsDetT, ih]

theorem addsTB_queries (sem : TSem E C) (ops : List (Op E C)) (h : ∀ op ∈ ops, op.isQuery = true) :
    addsTB sem ops = [] := by
  induction ops with
  | nil => rfl
  | cons op ops ih =>
    have h0 := h op List.mem_cons_self
    have ht := ih (fun o ho => h o (List.mem_cons_of_mem _ ho))
    cases op with
    | add g e c => simp [Op.isQuery] at h0
    | scene => simpa [addsTB] using ht
    | lookup t thr => simpa [addsTB] using ht

theorem addsDetT_queries (sem : TSem E C) (ops : List (Op E C)) (h : ∀ op ∈ ops, op.isQuery = true) :
    addsDetT sem ops = [] := by
  induction ops with
  | nil => rfl
  | cons op ops ih =>
    have h0 := h op List.mem_cons_self
    have ht := ih (fun o ho => h o (List.mem_cons_of_mem _ ho))
    cases op with
    | add g e c => simp [Op.isQuery] at h0
    | scene => simpa [addsDetT] using ht
    | lookup t thr => simpa [addsDetT] using ht

/-- the tracking view of the last stored result after a run -/
theorem trun_last_tb (sem : TSem E C) (s : TState) (ops : List (Op E C)) :
    (trun sem s ops).1.frameResults.getLast?.map (·.tb)
      = (s.frameResults.map (·.tb) ++ addsTB sem ops).getLast? := by
  rw [← trun_frameResults_tb]; simp [List.getLast?_map]

/-! ### the extended machine is the machine of `Manager.lean` plus a tracking view -/

theorem tstep_forget (sem : TSem E C) (s : TState) (op : Op E C) :
    (tstep sem s op).1.forget = (step sem.forget s.forget op).1 ∧
    (tstep sem s op).2.forget = (step sem.forget s.forget op).2 := by
  cases op with
  | add g e c =>
    simp [tstep, step, taddFrameResult, addFrameResult, tevalFrame, evalFrame, TState.forget,
      TFrameResult.forget, TSem.forget, TOut.forget]
  | scene => exact ⟨rfl, rfl⟩
  | lookup t thr => exact ⟨rfl, rfl⟩

theorem trun_forget (sem : TSem E C) (s : TState) (ops : List (Op E C)) :
    (trun sem s ops).1.forget = (run sem.forget s.forget ops).1 ∧
    (trun sem s ops).2.map TOut.forget = (run sem.forget s.forget ops).2 := by
  induction ops generalizing s with
  | nil => exact ⟨rfl, rfl⟩
  | cons op ops ih =>
    simp only [trun, run, List.map_cons]
    obtain ⟨h1, h2⟩ := tstep_forget sem s op
    obtain ⟨i1, i2⟩ := ih (tstep sem s op).1
    rw [h1] at i1 i2
    exact ⟨i1, by rw [h2, i2]⟩

/-! ### `get_scene_result`: what the tracking metrics are handed -/

theorem foldl_tsceneAdd_results (frs : List TFrameResult) (sc : TScene) (l : Nat) :
    (frs.foldl tsceneAdd sc).results[l]? = sc.results[l]?.map (· ++ frs.map (·.bucket l)) := by
  induction frs generalizing sc with
  | nil => cases h : sc.results[l]? <;> simp_all
  | cons fr frs ih =>
    simp only [List.foldl_cons]
    rw [ih]
    simp only [tsceneAdd, List.getElem?_mapIdx]
    cases h : sc.results[l]? <;> simp

theorem foldl_tsceneAdd_numGt (frs : List TFrameResult) (sc : TScene) (l : Nat) :
    (frs.foldl tsceneAdd sc).numGt[l]? = sc.numGt[l]?.map (· + (frs.map (·.det.gt l)).sum) := by
  induction frs generalizing sc with
  | nil => cases h : sc.numGt[l]? <;> simp_all
  | cons fr frs ih =>
    simp only [List.foldl_cons]
    rw [ih]
    simp only [tsceneAdd, List.getElem?_mapIdx]
    cases h : sc.numGt[l]? <;> simp [Nat.add_assoc]

theorem foldl_tsceneAdd_usedFrame (frs : List TFrameResult) (sc : TScene) :
    (frs.foldl tsceneAdd sc).usedFrame = sc.usedFrame ++ frs.map (·.frameName) := by
  induction frs generalizing sc with
  | nil => simp
  | cons fr frs ih => simp only [List.foldl_cons]; rw [ih]; simp [tsceneAdd]

/-- the nested list of label `l`: the initial `[]`, then one bucket per stored frame -/
theorem tscene_hist (nl : Nat) (s : TState) (l : Nat) (hl : l < nl) :
    (tsceneAcc nl s).hist l = [] :: s.frameResults.map (·.bucket l) := by
  unfold TScene.hist tsceneAcc
  rw [List.getD_eq_getElem?_getD, foldl_tsceneAdd_results]
  simp [tsceneInit, hl]

theorem tscene_gt (nl : Nat) (s : TState) (l : Nat) (hl : l < nl) :
    (tsceneAcc nl s).gt l = (s.frameResults.map (·.det.gt l)).sum := by
  unfold TScene.gt tsceneAcc
  rw [List.getD_eq_getElem?_getD, foldl_tsceneAdd_numGt]
  simp [tsceneInit, hl]

theorem tscene_usedFrame (nl : Nat) (s : TState) :
    (tsceneAcc nl s).usedFrame = s.frameResults.map (·.frameName) := by
  unfold tsceneAcc
  rw [foldl_tsceneAdd_usedFrame]; simp [tsceneInit]

/-! ### reading `MetricsScore.tracking_scores` -/

/-- `evaluate_tracking` reads `num_ground_truth[label]` and `object_results[label]` for the target
labels only -/
theorem labelInputs_congr (labels : List Nat) (cfg : TCfg) (gt gt' : Nat → Nat)
    (hist hist' : Nat → List (List TRes))
    (h : ∀ l, l < labels.length → gt l = gt' l ∧ hist l = hist' l) :
    labelInputs labels cfg gt hist = labelInputs labels cfg gt' hist' := by
  unfold labelInputs
  apply List.map_congr_left
  intro ⟨lt, i⟩ hm
  have hi : i < labels.length := by
    have := List.mem_zipIdx hm
    simp at this
    omega
  simp [(h i hi).1, (h i hi).2]

theorem evaluateTracking_congr (labels : List Nat) (cfgs : List TCfg) (gt gt' : Nat → Nat)
    (hist hist' : Nat → List (List TRes))
    (h : ∀ l, l < labels.length → gt l = gt' l ∧ hist l = hist' l) :
    evaluateTracking labels cfgs gt hist = evaluateTracking labels cfgs gt' hist' := by
  unfold evaluateTracking
  apply List.map_congr_left
  intro cfg _
  rw [labelInputs_congr labels cfg gt gt' hist hist' h]

theorem getElem?_labelInputs (labels : List Nat) (cfg : TCfg) (gt : Nat → Nat)
    (hist : Nat → List (List TRes)) (l : Nat) :
    (labelInputs labels cfg gt hist)[l]?
      = (labels.zip cfg.thr)[l]?.map (fun lt => ⟨lt.1, lt.2, gt l, (hist l).map (viewBucket cfg.mode)⟩) := by
  unfold labelInputs
  rw [List.getElem?_map, List.getElem?_zipIdx]
  cases (labels.zip cfg.thr)[l]? <;> simp

/-- `tracking_scores[k].clears[l]` is the `CLEAR` of label `l`'s nested list with the singleton label and
threshold lists -/
theorem clearAt_evaluateTracking (labels : List Nat) (cfgs : List TCfg) (gt : Nat → Nat)
    (hist : Nat → List (List TRes)) (k l : Nat) (cfg : TCfg) (lab : Nat) (t : Rat)
    (hk : cfgs[k]? = some cfg) (hl : (labels.zip cfg.thr)[l]? = some (lab, t)) :
    clearAt (evaluateTracking labels cfgs gt hist) k l
      = some (evalClear ⟨cfg.maximize, [(lab, t)]⟩ (gt l) ((hist l).map (viewBucket cfg.mode))) := by
  unfold clearAt evaluateTracking
  rw [List.getElem?_map, hk]
  simp only [Option.map_some, Option.bind_some, trackingScore, trackingClears]
  rw [List.getElem?_map, getElem?_labelInputs, hl]
  rfl

/-- `_sum_clear()` of `tracking_scores[k]` sums the `CLEAR`s of that score -/
theorem totalAt_evaluateTracking (labels : List Nat) (cfgs : List TCfg) (gt : Nat → Nat)
    (hist : Nat → List (List TRes)) (k : Nat) (cfg : TCfg) (hk : cfgs[k]? = some cfg) :
    totalAt (evaluateTracking labels cfgs gt hist) k
      = some (sumClear (trackingClears cfg.maximize (labelInputs labels cfg gt hist))) := by
  unfold totalAt evaluateTracking
  rw [List.getElem?_map, hk]
  rfl

theorem zip_index_lt {labels : List Nat} {thr : List Rat} {l lab : Nat} {t : Rat}
    (hl : (labels.zip thr)[l]? = some (lab, t)) : l < labels.length := by
  have := (List.getElem?_eq_some_iff.mp hl).1
  simp at this
  omega

/-! ### every stored tracking score was computed from the stored predecessor -/

/-- the stored results with the predecessor each of them was evaluated against -/
def framePairs : Option (List (List TRes)) → List TFrameResult → List (Option (List (List TRes)) × TFrameResult)
  | _, [] => []
  | p, r :: rs => (p, r) :: framePairs (some r.tb) rs

/-- each stored `metrics_score.tracking_scores` is `evaluate_frame` against the stored predecessor -/
def Consistent (labels : List Nat) (cfgs : List TCfg) (p : Option (List (List TRes))) (rs : List TFrameResult) : Prop :=
  ∀ qr ∈ framePairs p rs, qr.2.track = frameTrack labels cfgs qr.1 qr.2.tb qr.2.det

theorem framePairs_append_one (p : Option (List (List TRes))) (rs : List TFrameResult) (r : TFrameResult) :
    framePairs p (rs ++ [r]) = framePairs p rs ++ [((rs.getLast?.map (·.tb)).or p, r)] := by
  induction rs generalizing p with
  | nil => simp [framePairs]
  | cons x xs ih =>
    simp only [List.cons_append, framePairs, ih]
    congr 3
    cases hx : xs.getLast? with
    | none =>
      have : xs = [] := List.getLast?_eq_none_iff.mp hx
      subst this; simp
    | some y => simp [List.getLast?_cons, hx]

theorem framePairs_map_snd (p : Option (List (List TRes))) (rs : List TFrameResult) :
    (framePairs p rs).map (·.2) = rs := by
  induction rs generalizing p with
  | nil => rfl
  | cons x xs ih => simp [framePairs, ih]

theorem consistent_tstep (sem : TSem E C) (s : TState) (op : Op E C)
    (h : Consistent sem.labels sem.cfgs none s.frameResults) :
    Consistent sem.labels sem.cfgs none (tstep sem s op).1.frameResults := by
  cases op with
  | add g e c =>
    simp only [tstep, taddFrameResult]
    intro qr hm
    rw [framePairs_append_one] at hm
    rcases List.mem_append.mp hm with hm | hm
    · exact h qr hm
    · simp only [List.mem_singleton] at hm
      subst hm
      simp [tevalFrame]
  | scene => exact h
  | lookup t thr => exact h

theorem consistent_trun (sem : TSem E C) (s : TState) (ops : List (Op E C))
    (h : Consistent sem.labels sem.cfgs none s.frameResults) :
    Consistent sem.labels sem.cfgs none (trun sem s ops).1.frameResults := by
  induction ops generalizing s with
  | nil => exact h
  | cons op ops ih => simp only [trun]; exact ih _ (consistent_tstep sem s op h)

theorem consistent_fresh (sem : TSem E C) (ds : List Frame) (ops : List (Op E C)) :
    Consistent sem.labels sem.cfgs none (trun sem (tfresh ds) ops).1.frameResults :=
  consistent_trun sem _ ops (by intro qr hm; simp [tfresh, framePairs] at hm)

/-! ### the CLEAR accumulation over `[[], f1, …, fn]` against the per-frame `[prev, cur]` evaluations -/

theorem clear_pair (cfg : Cfg) (p c : List Clear.Res) : clear cfg [p, c] = frameStep cfg p c := by
  rw [clear_cons]; simp [steps]

theorem predictNum_pair (p c : List Clear.Res) : predictNum [p, c] = c.length := by
  simp [predictNum]

theorem predictNum_cons (f0 : List Clear.Res) (fs : List (List Clear.Res)) :
    predictNum (f0 :: fs) = (fs.map List.length).sum := by
  unfold predictNum
  simp only [List.drop_one, List.tail_cons]
  have : ∀ (l : List (List Clear.Res)) (n : Nat), l.foldl (fun n f => n + f.length) n = n + (l.map List.length).sum := by
    intro l
    induction l with
    | nil => simp
    | cons a l ih => intro n; simp [ih, Nat.add_assoc]
  rw [this]; simp

/-- the increments of `CLEAR.__init__` over `prev :: buckets of the stored frames` are the increments
of the per-frame evaluations `[predecessor, frame]` -/
theorem steps_framePairs (cfg : Cfg) (m l : Nat) (p : Option (List (List TRes))) (rs : List TFrameResult) :
    steps cfg (viewBucket m (prevBucket p l)) (rs.map (fun r => viewBucket m (r.bucket l)))
      = (framePairs p rs).map (fun qr =>
          frameStep cfg (viewBucket m (prevBucket qr.1 l)) (viewBucket m (qr.2.bucket l))) := by
  induction rs generalizing p with
  | nil => rfl
  | cons r rs ih =>
    simp only [List.map_cons, steps, framePairs]
    congr 1
    exact ih (some r.tb)

end PEval.ManagerTracking
