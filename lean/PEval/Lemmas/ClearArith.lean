import PEval.Lemmas.ClearScenario2
import Mathlib.Tactic.Linarith
import Mathlib.Tactic.FieldSimp
import Mathlib.Tactic.Ring
import Mathlib.Algebra.Order.Field.Basic
import Mathlib.Algebra.Order.Ring.Rat
import Mathlib.Data.Rat.Defs
/-!
Helper lemmas for C05, part 7 (rational arithmetic of the scores; uses single Mathlib modules).
-/

namespace PEval.Clear

theorem mota_of_counts (g k : Nat) (a : Acc) (htp : a.tp = (g : Rat)) (hfp : a.fp = 0) (hsw : a.sw = k)
    (hk : k ≤ g) (hg : g ≠ 0) : mota g a = some (1 - (k : Rat) / (g : Rat)) := by
  unfold mota
  simp only [hg, if_false, htp, hfp, hsw, Option.some.injEq]
  have hgpos : (0 : Rat) < (g : Rat) := by exact_mod_cast Nat.pos_of_ne_zero hg
  have hkg : (k : Rat) ≤ (g : Rat) := by exact_mod_cast hk
  have h1 : ((g : Rat) - ((0 : Nat) : Rat) - (k : Rat)) / (g : Rat) = 1 - (k : Rat) / (g : Rat) := by
    field_simp
    push_cast
    ring
  rw [h1]
  apply max_eq_right
  have : (k : Rat) / (g : Rat) ≤ 1 := by
    rw [div_le_one hgpos]; exact hkg
  linarith

theorem mota_nonneg' (g : Nat) (a : Acc) (m : Rat) (h : mota g a = some m) : 0 ≤ m := by
  unfold mota at h
  split at h
  · cases h
  · cases h; exact le_max_left _ _

theorem mota_le_one' (g : Nat) (a : Acc) (m : Rat) (h : mota g a = some m) (htp : a.tp ≤ (g : Rat)) : m ≤ 1 := by
  unfold mota at h
  split at h
  · cases h
  · rename_i hg
    cases h
    have hgpos : (0 : Rat) < (g : Rat) := by exact_mod_cast Nat.pos_of_ne_zero hg
    apply max_le
    · norm_num
    · rw [div_le_one hgpos]
      have h1 : (0 : Rat) ≤ (a.fp : Rat) := by exact_mod_cast Nat.zero_le _
      have h2 : (0 : Rat) ≤ (a.sw : Rat) := by exact_mod_cast Nat.zero_le _
      linarith

end PEval.Clear
