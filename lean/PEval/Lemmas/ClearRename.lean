import PEval.Lemmas.ClearCount
/-!
Helper lemmas for C05, part 3: CLEAR only ever tests track ids for equality, so injective renamings of
the estimate ids and of the ground-truth ids commute with every step.
-/

namespace PEval.Clear

open Function

theorem beq_of_injective {f : Nat → Nat} (hf : Injective f) (a b : Nat) : (f a == f b) = (a == b) := by
  by_cases h : a = b
  · subst h; simp
  · have : f a ≠ f b := fun e => h (hf e)
    rw [beq_eq_false_iff_ne.mpr this, beq_eq_false_iff_ne.mpr h]

section
variable {f g : Nat → Nat}

@[simp] theorem rename_est (r : Res) : (r.rename f g).est = f r.est := rfl
@[simp] theorem rename_estLabel (r : Res) : (r.rename f g).estLabel = r.estLabel := rfl
@[simp] theorem rename_gt (r : Res) : (r.rename f g).gt = r.gt.map (Gt.rename g) := rfl
@[simp] theorem rename_value (r : Res) : (r.rename f g).value = r.value := rfl
@[simp] theorem rename_labelOk (r : Res) : (r.rename f g).labelOk = r.labelOk := rfl
@[simp] theorem rename_w (r : Res) : (r.rename f g).w = r.w := rfl
@[simp] theorem Gt.rename_id (x : Gt) : (x.rename g).id = g x.id := rfl
@[simp] theorem Gt.rename_label (x : Gt) : (x.rename g).label = x.label := rfl
@[simp] theorem Gt.rename_isFp (x : Gt) : (x.rename g).isFp = x.isFp := rfl

@[simp] theorem keyLabel_rename (r : Res) : keyLabel (r.rename f g) = keyLabel r := by
  unfold keyLabel
  cases h : r.gt <;> simp [h]

@[simp] theorem evaluated_rename (cfg : Cfg) (r : Res) : evaluated cfg (r.rename f g) = evaluated cfg r := by
  simp [evaluated]

@[simp] theorem isTp_rename (cfg : Cfg) (t : Rat) (r : Res) : isTp cfg t (r.rename f g) = isTp cfg t r := by
  unfold isTp
  simp only [rename_gt, rename_value, rename_labelOk]
  cases r.gt <;> rfl

theorem isIdSwitched_rename (hf : Injective f) (hg : Injective g) (c p : Res) :
    isIdSwitched (c.rename f g) (p.rename f g) = isIdSwitched c p := by
  unfold isIdSwitched
  cases hc : c.gt <;> cases hp : p.gt <;> simp [hc, hp, beq_of_injective hf, beq_of_injective hg]

theorem isSameMatch_rename (hf : Injective f) (hg : Injective g) (c p : Res) :
    isSameMatch (c.rename f g) (p.rename f g) = isSameMatch c p := by
  unfold isSameMatch
  cases hc : c.gt <;> cases hp : p.gt <;> simp [hc, hp, beq_of_injective hf, beq_of_injective hg]

/-- renaming of a scan result -/
def Scan.rename (f g : Nat → Nat) : Scan → Scan
  | .same p => .same (p.rename f g)
  | .switched => .switched
  | .nothing => .nothing

theorem scan_rename (hf : Injective f) (hg : Injective g) (cfg : Cfg) (t : Rat) (c : Res) (prev : List Res) :
    scan cfg t (c.rename f g) (prev.map (Res.rename f g)) = (scan cfg t c prev).rename f g := by
  induction prev with
  | nil => rfl
  | cons q qs ih =>
    simp only [List.map_cons, scan, isTp_rename, isIdSwitched_rename hf hg, isSameMatch_rename hf hg, ih]
    split
    · rfl
    · split
      · rfl
      · split <;> rfl

theorem resStep_rename (hf : Injective f) (hg : Injective g) (cfg : Cfg) (prev : List Res) (c : Res) :
    resStep cfg (renameFrame f g prev) (c.rename f g) = resStep cfg prev c := by
  unfold resStep renameFrame
  rw [keyLabel_rename]
  cases labelThreshold cfg (keyLabel c) with
  | none => rfl
  | some t =>
    simp only [scan_rename hf hg, isTp_rename]
    cases scan cfg t c prev <;> simp [Scan.rename]

theorem frameStep_rename (hf : Injective f) (hg : Injective g) (cfg : Cfg) (prev cur : List Res) :
    frameStep cfg (renameFrame f g prev) (renameFrame f g cur) = frameStep cfg prev cur := by
  rw [frameStep_eq, frameStep_eq]
  congr 1
  simp only [renameFrame, List.map_map]
  apply List.map_congr_left
  intro c _
  exact resStep_rename hf hg cfg prev c

theorem steps_rename (hf : Injective f) (hg : Injective g) (cfg : Cfg) (prev : List Res) (frames : List (List Res)) :
    steps cfg (renameFrame f g prev) (renameHist f g frames) = steps cfg prev frames := by
  induction frames generalizing prev with
  | nil => rfl
  | cons cur rest ih =>
    simp only [renameHist, List.map_cons, steps, frameStep_rename hf hg]
    congr 1
    exact ih cur

theorem clear_rename (hf : Injective f) (hg : Injective g) (cfg : Cfg) (hist : List (List Res)) :
    clear cfg (renameHist f g hist) = clear cfg hist := by
  cases hist with
  | nil => rfl
  | cons f0 rest =>
    have : renameHist f g (f0 :: rest) = renameFrame f g f0 :: renameHist f g rest := rfl
    rw [this, clear_cons, clear_cons, steps_rename hf hg]

theorem resultCount_rename (hist : List (List Res)) : resultCount (renameHist f g hist) = resultCount hist := by
  unfold resultCount renameHist renameFrame
  rw [← List.map_drop]
  generalize hist.drop 1 = l
  induction l with
  | nil => rfl
  | cons a l ih => simp only [List.map_cons, List.flatten_cons, List.length_append, List.length_map, ih]

end

theorem swapId_injective (a b : Nat) : Injective (swapId a b) := by
  intro x y h
  unfold swapId at h
  split at h <;> split at h <;> (try split at h) <;> (try split at h) <;> omega

theorem swapId_involutive (a b x : Nat) : swapId a b (swapId a b x) = x := by
  unfold swapId
  split <;> (try split) <;> (try split) <;> (try split) <;> omega

end PEval.Clear
