import PEval.Model.FrameEval
import PEval.Lemmas.FrameChange
import PEval.Lemmas.FilterList
/-!
# C07, joining layer: the whole-frame evaluation depends on a rendering only through its readings

`evalWith_congr`: two readers (`R` on objects `o`, `R'` on their images `r o`) that agree on
* every filter verdict (`_is_target_object`) of every object of the frame, for every parameter set,
* every (unsigned) score row of every estimate × ground-truth pair,
* every `__eq__` answer among the ground truths,
and whose images keep the frame-free attributes, give the same `FrameOut`: kept sets of both filters, score
table, matcher result, pass/fail lists, `Map`s and CLEAR inputs.  The downstream functions are the real stage
models (`Filter.filterE`, `Matching.getObjectResults`, `Pipeline.detectFrame`, …), not an arbitrary `F`.
The frame-id string the matcher compares (`"map"` vs `"base_link"`) differs between the renderings:
`finish_frame` shows that it is immaterial as long as both lists carry the same one.
-/
namespace PEval.FrameChange
open PEval.Geometry PEval

/-! ## loops that may raise -/

theorem flagsE_map {α β} {f : α → Except Err Bool} {g : β → Except Err Bool} {r : α → β} {l : List α}
    (h : ∀ a ∈ l, g (r a) = f a) : flagsE g (l.map r) = flagsE f l := by
  induction l with
  | nil => rfl
  | cons a as ih =>
    simp only [List.map_cons]
    unfold flagsE
    rw [h a (List.mem_cons_self), ih (fun x hx => h x (List.mem_cons_of_mem _ hx))]

theorem mapE_congr {α β} {f g : α → Except Err β} {l : List α} (h : ∀ a ∈ l, g a = f a) :
    mapE g l = mapE f l := by
  induction l with
  | nil => rfl
  | cons a as ih =>
    unfold mapE
    rw [h a (List.mem_cons_self), ih (fun x hx => h x (List.mem_cons_of_mem _ hx))]

theorem mapE_map {α β γ} {f : α → Except Err γ} {g : β → Except Err γ} {r : α → β} {l : List α}
    (h : ∀ a ∈ l, g (r a) = f a) : mapE g (l.map r) = mapE f l := by
  induction l with
  | nil => rfl
  | cons a as ih =>
    simp only [List.map_cons]
    unfold mapE
    rw [h a (List.mem_cons_self), ih (fun x hx => h x (List.mem_cons_of_mem _ hx))]

/-- what the manager filter keeps is part of what it was given -/
theorem mem_of_filterE {α} {f : α → Except Err Bool} {as ks : List α} (h : Filter.filterE f as = .ok ks)
    {a : α} (ha : a ∈ ks) : a ∈ as := by
  obtain ⟨_, hk⟩ := Filter.filterE_ok h
  rw [hk] at ha
  exact List.mem_of_mem_filter ha

/-! ## the frame-id string is immaterial when both lists carry the same one -/

section frame
variable {α : Type} (lab : α → String) (aE aG : List α) (val : Nat → Nat → Rat)

/-- the matcher's scene with frame id `fr` on every object -/
def sceneFr (fr : String) : Matching.Scene :=
  { ests := aE.map (fun a => ⟨lab a, fr⟩), gts := aG.map (fun a => ⟨lab a, fr⟩), val := val }

theorem cell_frame (c : Matching.Cfg) (l l' fr fr' : String) (v : Rat) :
    Matching.cell c ⟨l, fr⟩ ⟨l', fr⟩ v = Matching.cell c ⟨l, fr'⟩ ⟨l', fr'⟩ v := by
  simp [Matching.cell, Matching.isMatchable]

theorem cellAt_frame (c : Matching.Cfg) (fr fr' : String) (i j : Nat) :
    Matching.cellAt c (sceneFr lab aE aG val fr) i j = Matching.cellAt c (sceneFr lab aE aG val fr') i j := by
  unfold Matching.cellAt sceneFr
  simp only [List.getElem?_map]
  cases aE[i]? with
  | none => rfl
  | some a =>
    cases aG[j]? with
    | none => rfl
    | some g => exact cell_frame c _ _ fr fr' _

theorem getObjectResults_frame (c : Matching.Cfg) (fr fr' : String) :
    Matching.getObjectResults c (sceneFr lab aE aG val fr) =
      Matching.getObjectResults c (sceneFr lab aE aG val fr') := by
  have hc : Matching.cellAt c (sceneFr lab aE aG val fr) = Matching.cellAt c (sceneFr lab aE aG val fr') := by
    funext i j
    exact cellAt_frame lab aE aG val c fr fr' i j
  have ht : Matching.tableError c (sceneFr lab aE aG val fr) = Matching.tableError c (sceneFr lab aE aG val fr') := by
    unfold Matching.tableError
    rw [hc]
    simp [sceneFr]
  have hm : Matching.mkTbl c (sceneFr lab aE aG val fr) = Matching.mkTbl c (sceneFr lab aE aG val fr') := by
    unfold Matching.mkTbl
    rw [hc]
  unfold Matching.getObjectResults
  rw [ht, hm]
  simp [sceneFr]

end frame

/-- replacing the scene of a `Pipeline.Frame` by one the matcher, the label test and the ground-truth count
cannot tell apart changes nothing downstream -/
theorem pipeline_scene (f : Pipeline.Frame) (s : Matching.Scene)
    (hres : Matching.getObjectResults f.cfg s = Matching.getObjectResults f.cfg f.scene)
    (hlen : s.gts.length = f.scene.gts.length)
    (hlab : ∀ i j, Pipeline.labelOk { f with scene := s } i j = Pipeline.labelOk f i j) :
    Pipeline.detectFrame { f with scene := s } = Pipeline.detectFrame f ∧
    Pipeline.apGts { f with scene := s } = Pipeline.apGts f := by
  have hgts : Pipeline.apGts { f with scene := s } = Pipeline.apGts f := by
    unfold Pipeline.apGts Pipeline.critGtIdx
    show (List.filter (fun j => (f.gt j).crit) (List.range s.gts.length)).map _ = _
    rw [hlen]
    rfl
  refine ⟨?_, hgts⟩
  have hmap : ∀ rs mc, Pipeline.mapFor { f with scene := s } rs mc = Pipeline.mapFor f rs mc := by
    intro rs mc
    unfold Pipeline.mapFor
    rw [hgts]
    rfl
  have hmaps : ∀ rs ms, Pipeline.mapsFor { f with scene := s } rs ms = Pipeline.mapsFor f rs ms := by
    intro rs ms
    induction ms with
    | nil => rfl
    | cons mc rest ih =>
      unfold Pipeline.mapsFor
      rw [hmap, ih]
  have hpf : ∀ rs, Pipeline.pfFrame { f with scene := s } rs = Pipeline.pfFrame f rs := by
    intro rs
    unfold Pipeline.pfFrame
    congr 1
    · apply List.map_congr_left
      intro r _
      unfold Pipeline.toPFRes
      cases r.2 with
      | none => rfl
      | some j =>
        simp only [hlab]
        rfl
    · unfold Pipeline.pfGts
      show (List.range s.gts.length).map _ = _
      rw [hlen]
      rfl
  unfold Pipeline.detectFrame
  rw [show Matching.getObjectResults ({ f with scene := s } : Pipeline.Frame).cfg
        ({ f with scene := s } : Pipeline.Frame).scene = Matching.getObjectResults f.cfg f.scene from hres]
  cases Matching.getObjectResults f.cfg f.scene with
  | error e => rfl
  | ok rs =>
    simp only
    rw [show ({ f with scene := s } : Pipeline.Frame).maps = f.maps from rfl, hmaps]
    cases Pipeline.mapsFor f rs f.maps with
    | error e => rfl
    | ok maps =>
      simp only
      rw [hpf]
      rfl

theorem labelOk_frame (C : EvalCfg) (fr fr' : String) (aE aG : List Attr) (cE cG : List Bool)
    (T : List (List ScoreRow)) (keys : List Nat) (i j : Nat) :
    Pipeline.labelOk (mkFrame C fr' aE aG cE cG T keys) i j = Pipeline.labelOk (mkFrame C fr aE aG cE cG T keys) i j := by
  unfold Pipeline.labelOk mkFrame
  simp only [List.getElem?_map]
  cases aE[i]? with
  | none => rfl
  | some a =>
    cases aG[j]? with
    | none => rfl
    | some g => simp [Matching.isMatchable]

/-- the frame-id string handed to the matcher does not matter -/
theorem finish_frame (C : EvalCfg) (fr fr' : String) (aE aG : List Attr) (cE cG : List Bool)
    (T : List (List ScoreRow)) (tbl : List (List Bool)) :
    finish C fr' aE aG cE cG T tbl = finish C fr aE aG cE cG T tbl := by
  have hs := pipeline_scene (mkFrame C fr aE aG cE cG T (eqKeys tbl)) (mkFrame C fr' aE aG cE cG T (eqKeys tbl)).scene
    (getObjectResults_frame (fun a : Attr => a.mlabel) aE aG _ C.matcher fr' fr)
    (by simp [mkFrame])
    (labelOk_frame C fr fr' aE aG cE cG T (eqKeys tbl))
  have hl := labelOk_frame C fr fr' aE aG cE cG T (eqKeys tbl)
  unfold finish
  simp only
  rw [show Pipeline.detectFrame (mkFrame C fr' aE aG cE cG T (eqKeys tbl))
        = Pipeline.detectFrame (mkFrame C fr aE aG cE cG T (eqKeys tbl)) from hs.1,
      show Pipeline.apGts (mkFrame C fr' aE aG cE cG T (eqKeys tbl))
        = Pipeline.apGts (mkFrame C fr aE aG cE cG T (eqKeys tbl)) from hs.2]
  cases Pipeline.detectFrame (mkFrame C fr aE aG cE cG T (eqKeys tbl)) with
  | error e => rfl
  | ok out =>
    simp only
    congr 2
    apply List.map_congr_left
    intro r _
    unfold trackRes
    cases r.2 with
    | none => rfl
    | some j =>
      simp only [hl]
      rfl

/-! ## congruence of the whole-frame evaluation in the readings -/

theorem tableOf_congr (R R' : Reader) (r : SObj → SObj) (kE kG : List SObj)
    (hrow : ∀ a ∈ kE, ∀ g ∈ kG, (R'.row (r a).obj (r g).obj).unsigned = (R.row a.obj g.obj).unsigned) :
    tableOf R' (kE.map r) (kG.map r) = tableOf R kE kG := by
  unfold tableOf
  rw [List.map_map]
  apply List.map_congr_left
  intro a ha
  simp only [Function.comp, List.map_map]
  apply List.map_congr_left
  intro g hg
  exact hrow a ha g hg

theorem eqTable_congr (same same' : Obj → Obj → Bool) (r : SObj → SObj) (kG : List SObj)
    (hattr : ∀ o, (r o).attr = o.attr)
    (hsame : ∀ a ∈ kG, ∀ b ∈ kG, same' (r a).obj (r b).obj = same a.obj b.obj) :
    eqTable same' (kG.map r) = eqTable same kG := by
  unfold eqTable
  rw [List.map_map]
  apply List.map_congr_left
  intro a ha
  simp only [Function.comp, List.map_map]
  apply List.map_congr_left
  intro b hb
  simp only [Function.comp, SObj.sameAs, hattr, hsame a ha b hb]

theorem evalKept_congr (R R' : Reader) (C : EvalCfg) (r : SObj → SObj) (kE kG : List SObj)
    (hattr : ∀ o, (r o).attr = o.attr)
    (hv : ∀ P, ∀ o ∈ kE ++ kG, R'.verdict P (r o).tagged = R.verdict P o.tagged)
    (hrow : ∀ a ∈ kE, ∀ g ∈ kG, (R'.row (r a).obj (r g).obj).unsigned = (R.row a.obj g.obj).unsigned)
    (hsame : ∀ a ∈ kG, ∀ b ∈ kG, R'.same (r a).obj (r b).obj = R.same a.obj b.obj) :
    evalKept R' C (kE.map r) (kG.map r) = evalKept R C kE kG := by
  unfold evalKept
  rw [flagsE_map (f := fun o => R.verdict (Filter.estParams C.crit) o.tagged)
        (g := fun o => R'.verdict (Filter.estParams C.crit) o.tagged) (r := r)
        (fun o ho => hv _ o (List.mem_append_left _ ho)),
      flagsE_map (f := fun o => R.verdict (Filter.gtParams C.crit) o.tagged)
        (g := fun o => R'.verdict (Filter.gtParams C.crit) o.tagged) (r := r)
        (fun o ho => hv _ o (List.mem_append_right _ ho)),
      tableOf_congr R R' r kE kG hrow, eqTable_congr R.same R'.same r kG hattr hsame]
  have ha : ∀ l : List SObj, (l.map r).map (·.attr) = l.map (·.attr) := by
    intro l
    rw [List.map_map]
    apply List.map_congr_left
    intro o _
    exact hattr o
  rw [ha kE, ha kG]
  cases flagsE (fun o => R.verdict (Filter.estParams C.crit) o.tagged) kE with
  | error e => rfl
  | ok cE =>
    cases flagsE (fun o => R.verdict (Filter.gtParams C.crit) o.tagged) kG with
    | error e => rfl
    | ok cG => exact finish_frame C R.frame R'.frame _ _ _ _ _ _

/-- the joining theorem: two readers that agree on every reading of a frame evaluate it alike -/
theorem evalWith_congr (R R' : Reader) (C : EvalCfg) (r : SObj → SObj) (ests gts : List SObj)
    (hattr : ∀ o, (r o).attr = o.attr)
    (hv : ∀ P, ∀ o ∈ ests ++ gts, R'.verdict P (r o).tagged = R.verdict P o.tagged)
    (hrow : ∀ a ∈ ests, ∀ g ∈ gts, (R'.row (r a).obj (r g).obj).unsigned = (R.row a.obj g.obj).unsigned)
    (hsame : ∀ a ∈ gts, ∀ b ∈ gts, R'.same (r a).obj (r b).obj = R.same a.obj b.obj) :
    evalWith R' C (ests.map r) (gts.map r) = evalWith R C ests gts := by
  unfold evalWith
  rw [Filter.filterE_map (f := fun o => R.verdict { C.mgr with isGt := false } o.tagged)
        (g := fun o => R'.verdict { C.mgr with isGt := false } o.tagged) (r := r)
        (fun o ho => hv _ o (List.mem_append_left _ ho)),
      Filter.filterE_map (f := fun o => R.verdict { C.mgr with isGt := true } o.tagged)
        (g := fun o => R'.verdict { C.mgr with isGt := true } o.tagged) (r := r)
        (fun o ho => hv _ o (List.mem_append_right _ ho))]
  cases hE : Filter.filterE (fun o => R.verdict { C.mgr with isGt := false } o.tagged) ests with
  | error e => rfl
  | ok kE =>
    cases hG : Filter.filterE (fun o => R.verdict { C.mgr with isGt := true } o.tagged) gts with
    | error e => rfl
    | ok kG =>
      simp only [Except.map]
      apply evalKept_congr R R' C r kE kG hattr
      · intro P o ho
        rcases List.mem_append.1 ho with h | h
        · exact hv P o (List.mem_append_left _ (mem_of_filterE hE h))
        · exact hv P o (List.mem_append_right _ (mem_of_filterE hG h))
      · intro a ha g hg
        exact hrow a (mem_of_filterE hE ha) g (mem_of_filterE hG hg)
      · intro a ha b hb
        exact hsame a (mem_of_filterE hG ha) b (mem_of_filterE hG hb)

/-! ## the two real readers agree on the filter verdicts (any 3-D pose, any parameter set) -/

theorem verdict_toMap (e : Pose) (h : e.rot.IsUnit) (P : Filter.Params) (o : SObj) :
    (readerMap e).verdict P (o.toMap e).tagged = readerEgo.verdict P o.tagged := by
  show Filter.isTarget { P with hasTransforms := true } (filterViewMap e (o.tagged.toMap e)) =
    Filter.isTarget { P with hasTransforms := true } (filterViewEgo o.tagged)
  rw [filterView_toMap]
  have hpos := Filter.position_renderMap (P := { P with hasTransforms := true }) (o := filterViewEgo o.tagged)
    (e := e.planar) h rfl (by simp [filterViewEgo])
  unfold Filter.isTarget
  rw [show ({ P with hasTransforms := true } : Filter.Params) =
    { ({ P with hasTransforms := true } : Filter.Params) with hasTransforms := true } from rfl, hpos]
  rfl

end PEval.FrameChange
