import PEval.Model.Clear
/-!
Specification vocabulary for property C05 (used in the statements of `PEval/Properties/C05.lean`).
Nothing here is executed by the driver; these are the "definitions" the CLEAR scores are compared with.
-/

namespace PEval.Clear

/-- the events of a history: every result after the initial frame, together with the frame before it -/
def events : List (List Res) → List (List Res × Res)
  | [] => []
  | [_] => []
  | prev :: cur :: rest => cur.map (fun c => (prev, c)) ++ events (cur :: rest)

/-- a result is evaluated iff the label it is judged under has a threshold (is a target label) -/
def evaluated (cfg : Cfg) (c : Res) : Bool := (labelThreshold cfg (keyLabel c)).isSome

/-- same estimated track: same uuid and same label of the estimate -/
def sameEst (c p : Res) : Bool := c.est == p.est && c.estLabel == p.estLabel

/-- same ground-truth track (false if either has none) -/
def sameGt (c p : Res) : Bool :=
  match c.gt, p.gt with
  | some gc, some gp => gc.id == gp.id
  | _, _ => false

/-- both have a ground truth -/
def bothGt (c p : Res) : Bool := c.gt.isSome && p.gt.isSome

/-- the pairing of `c` differs from the pairing of `p`: same estimated track with another ground-truth
track, or same ground-truth track with another estimated track -/
def conflict (c p : Res) : Bool := bothGt c p && (sameEst c p != sameGt c p)

/-- `c` has the pairing of `p` -/
def samePair (c p : Res) : Bool := bothGt c p && sameEst c p && sameGt c p

/-- how a current result is booked (the loop body of `_calculate_tp_fp`, as a classification) -/
inductive Outcome where
  | skipped                     -- the key label is no target label
  | carried (p : Res)           -- same pairing as the previous-frame TP `p`: booked with p's value and score
  | tp (switched : Bool)        -- TP by its own test; `switched` = an id switch is booked with it
  | fp
deriving DecidableEq, Repr

def outcome (cfg : Cfg) (prev : List Res) (c : Res) : Outcome :=
  match labelThreshold cfg (keyLabel c) with
  | none => .skipped
  | some t =>
    match scan cfg t c prev with
    | .same p => .carried p
    | .switched => if isTp cfg t c then .tp true else .fp
    | .nothing => if isTp cfg t c then .tp false else .fp

/-- the result is counted as a TP (by carry-over or by its own test) -/
def countsTp (cfg : Cfg) (prev : List Res) (c : Res) : Bool :=
  match outcome cfg prev c with
  | .carried _ => true
  | .tp _ => true
  | _ => false

/-- the result is counted as an FP -/
def countsFp (cfg : Cfg) (prev : List Res) (c : Res) : Bool :=
  match outcome cfg prev c with
  | .fp => true
  | _ => false

/-- an id switch is booked with the result -/
def countsSwitch (cfg : Cfg) (prev : List Res) (c : Res) : Bool :=
  match outcome cfg prev c with
  | .tp true => true
  | _ => false

/-- the matching score booked for a result that counts as TP — with the carry-over convention:
the PREVIOUS result's score when the pairing is unchanged -/
def bookedScore (cfg : Cfg) (prev : List Res) (c : Res) : Option Rat :=
  match outcome cfg prev c with
  | .carried p => some p.value
  | .tp _ => some c.value
  | _ => none

/-- order-free reading of "a TP whose pairing differs from the pairing a TP had in the previous frame" -/
def switchedTp (cfg : Cfg) (prev : List Res) (c : Res) : Bool :=
  match labelThreshold cfg (keyLabel c) with
  | none => false
  | some t => isTp cfg t c && prev.any (fun p => isTp cfg t p && conflict c p)

/-- among the results of a frame that are TP under `t`, estimated tracks and ground-truth tracks are
paired one-to-one (what a one-to-one matcher with unique track ids produces) -/
def OneToOne (cfg : Cfg) (t : Rat) (frame : List Res) : Prop :=
  ∀ p ∈ frame, ∀ q ∈ frame, isTp cfg t p = true → isTp cfg t q = true → (sameEst p q = sameGt p q)

/-- every frame that serves as a "previous" frame is one-to-one under every threshold of the configuration -/
def PrevOneToOne (cfg : Cfg) : List (List Res) → Prop
  | [] => True
  | [_] => True
  | prev :: cur :: rest => (∀ lt ∈ cfg.thresholds, OneToOne cfg lt.2 prev) ∧ PrevOneToOne cfg (cur :: rest)

/-- unit TP weights (`TPMetricsAp`) -/
def UnitWeights (hist : List (List Res)) : Prop := ∀ f ∈ hist, ∀ r ∈ f, r.w = 1

/-! ### renaming of track ids -/

def Gt.rename (g : Nat → Nat) (x : Gt) : Gt := { x with id := g x.id }

/-- rename the estimate's uuid with `f` and the ground truth's uuid with `g` -/
def Res.rename (f g : Nat → Nat) (r : Res) : Res :=
  { r with est := f r.est, gt := r.gt.map (Gt.rename g) }

def renameFrame (f g : Nat → Nat) (fr : List Res) : List Res := fr.map (Res.rename f g)

def renameHist (f g : Nat → Nat) (hist : List (List Res)) : List (List Res) := hist.map (renameFrame f g)

/-- exchange the two ids `a` and `b` -/
def swapId (a b : Nat) (x : Nat) : Nat := if x = a then b else if x = b then a else x

/-! ### the scenario families -/

/-- a perfectly tracked result: it has a ground truth, is judged under a target label, is TP under every
threshold of the configuration, and has unit weight -/
def Good (cfg : Cfg) (r : Res) : Prop :=
  r.gt.isSome = true ∧ evaluated cfg r = true ∧ (∀ lt ∈ cfg.thresholds, isTp cfg lt.2 r = true) ∧ r.w = 1

/-- a perfect tracker's history: every result of every frame (the initial one included) is `Good`, and the
pairing of estimated tracks with ground-truth tracks is constant and one-to-one through the whole
history: any two results anywhere have the same estimated track iff they have the same ground-truth track -/
structure Perfect (cfg : Cfg) (hist : List (List Res)) : Prop where
  good : ∀ f ∈ hist, ∀ r ∈ f, Good cfg r
  consistent : ∀ f ∈ hist, ∀ r ∈ f, ∀ f' ∈ hist, ∀ r' ∈ f', sameEst r r' = sameGt r r'

/-- replace the id `a` by `b` -/
def replaceId (a b : Nat) (x : Nat) : Nat := if x = a then b else x

/-- number of results after the initial frame -/
def resultCount (hist : List (List Res)) : Nat := (hist.drop 1).flatten.length

end PEval.Clear
