import PEval.Model.Analyzer
/-!
# C19 lemmas (1): the table is the concatenation of one row pair per item

`addAll` (one `add` per scene, `add_frame` per frame, four `format2df` blocks per frame) is shown equal
to a flat specification `allItemsFrom`, with running indices `0, 1, 2, …`; additive measures of the
table are therefore sums over the frames (`measure_allItems`).  Core Lean only.
-/

set_option linter.unusedSimpArgs false
set_option linter.unnecessarySimpa false

namespace PEval.Analyzer

abbrev Item := Option Cell × Option Cell

/-- the two cells of a row pair (index forgotten) -/
def RowPair.strip (r : RowPair) : Item := (r.gt, r.est)

/-- the row pairs one frame contributes: TP results, FP results, TN objects, FN objects -/
def frameItems (area : Rat → Rat → Option Nat) (scene : Nat) (f : Frame) : List Item :=
  f.tp.map (resultCells area scene f.frameNum .TP) ++ f.fp.map (resultCells area scene f.frameNum .FP) ++
  f.tn.map (objectCells area scene f.frameNum .TN) ++ f.fn.map (objectCells area scene f.frameNum .FN)

def sceneItems (area : Rat → Rat → Option Nat) (scene : Nat) (frames : List Frame) : List Item :=
  frames.flatMap (frameItems area scene)

/-- all row pairs of the scenes numbered `k, k+1, …` -/
def allItemsFrom (area : Rat → Rat → Option Nat) : Nat → List (List Frame) → List Item
  | _, [] => []
  | k, fs :: rest => sceneItems area k fs ++ allItemsFrom area (k + 1) rest

/-! ### `format2df` -/

theorem format2df_length {α : Type} (mk : α → Item) (l : List α) (i : Nat) :
    (format2df mk l i).length = l.length := by
  induction l generalizing i with
  | nil => rfl
  | cons a l ih => simp [format2df, ih]

theorem format2df_strip {α : Type} (mk : α → Item) (l : List α) (i : Nat) :
    (format2df mk l i).map RowPair.strip = l.map mk := by
  induction l generalizing i with
  | nil => rfl
  | cons a l ih => simp [format2df, ih, RowPair.strip]

theorem format2df_index {α : Type} (mk : α → Item) (l : List α) (i : Nat) :
    (format2df mk l i).map (·.index) = List.range' i l.length := by
  induction l generalizing i with
  | nil => rfl
  | cons a l ih => simp [format2df, ih, List.range'_succ]

/-! ### `add_frame` -/

theorem addFrame_strip (area : Rat → Rat → Option Nat) (scene : Nat) (t : Table) (f : Frame) :
    (addFrame area scene t f).map RowPair.strip = t.map RowPair.strip ++ frameItems area scene f := by
  simp [addFrame, frameItems, format2df_strip, List.append_assoc]

theorem frameItems_length (area : Rat → Rat → Option Nat) (scene : Nat) (f : Frame) :
    (frameItems area scene f).length = f.tp.length + f.fp.length + f.tn.length + f.fn.length := by
  simp [frameItems]; omega

theorem addFrame_length (area : Rat → Rat → Option Nat) (scene : Nat) (t : Table) (f : Frame) :
    (addFrame area scene t f).length = t.length + (f.tp.length + f.fp.length + f.tn.length + f.fn.length) := by
  simp [addFrame, format2df_length]; omega

theorem addFrame_index (area : Rat → Rat → Option Nat) (scene : Nat) (t : Table) (f : Frame)
    (h : t.map (·.index) = List.range t.length) :
    (addFrame area scene t f).map (·.index) = List.range (addFrame area scene t f).length := by
  rw [addFrame_length]
  simp only [addFrame, List.map_append, format2df_index, format2df_length, h, List.range_eq_range']
  have e : ∀ (a b c s : Nat), s = a + b → List.range' a b ++ List.range' s c = List.range' a (b + c) := by
    intro a b c s hs
    subst hs
    simp
  rw [e _ _ _ _ (by omega), e _ _ _ _ (by omega), e _ _ _ _ (by omega), e _ _ _ _ (by omega)]
  congr 1
  omega

/-! ### `add`, and the whole analyzer -/

theorem foldl_addFrame_strip (area : Rat → Rat → Option Nat) (scene : Nat) (frames : List Frame) (t : Table) :
    (frames.foldl (addFrame area scene) t).map RowPair.strip = t.map RowPair.strip ++ sceneItems area scene frames := by
  induction frames generalizing t with
  | nil => simp [sceneItems]
  | cons f fs ih => simp [List.foldl_cons, ih, addFrame_strip, sceneItems, List.append_assoc]

theorem foldl_addFrame_index (area : Rat → Rat → Option Nat) (scene : Nat) (frames : List Frame) (t : Table)
    (h : t.map (·.index) = List.range t.length) :
    (frames.foldl (addFrame area scene) t).map (·.index) = List.range (frames.foldl (addFrame area scene) t).length := by
  induction frames generalizing t with
  | nil => simpa using h
  | cons f fs ih => exact ih _ (addFrame_index area scene t f h)

theorem foldl_add_strip (area : Rat → Rat → Option Nat) (scenes : List (List Frame)) (a : Analyzer) :
    (scenes.foldl (Analyzer.add area) a).table.map RowPair.strip =
      a.table.map RowPair.strip ++ allItemsFrom area a.numScene scenes := by
  induction scenes generalizing a with
  | nil => simp [allItemsFrom]
  | cons fs rest ih =>
    rw [List.foldl_cons, ih]
    simp [Analyzer.add, foldl_addFrame_strip, allItemsFrom, List.append_assoc]

theorem foldl_add_index (area : Rat → Rat → Option Nat) (scenes : List (List Frame)) (a : Analyzer)
    (h : a.table.map (·.index) = List.range a.table.length) :
    (scenes.foldl (Analyzer.add area) a).table.map (·.index) =
      List.range (scenes.foldl (Analyzer.add area) a).table.length := by
  induction scenes generalizing a with
  | nil => simpa using h
  | cons fs rest ih => exact ih _ (foldl_addFrame_index area a.numScene fs a.table h)

/-- the table is exactly one row pair per TP/FP/TN/FN item, scene by scene, frame by frame -/
theorem addAll_strip (area : Rat → Rat → Option Nat) (scenes : List (List Frame)) :
    (addAll area scenes).table.map RowPair.strip = allItemsFrom area 0 scenes := by
  have := foldl_add_strip area scenes {}
  simpa [addAll] using this

theorem addAll_index (area : Rat → Rat → Option Nat) (scenes : List (List Frame)) :
    (addAll area scenes).table.map (·.index) = List.range (addAll area scenes).table.length :=
  foldl_add_index area scenes {} (by simp)

theorem addAll_numScene (area : Rat → Rat → Option Nat) (scenes : List (List Frame)) :
    (addAll area scenes).numScene = scenes.length := by
  have h : ∀ (a : Analyzer), (scenes.foldl (Analyzer.add area) a).numScene = a.numScene + scenes.length := by
    induction scenes with
    | nil => intro a; simp
    | cons fs rest ih => intro a; rw [List.foldl_cons, ih]; simp [Analyzer.add]; omega
  simpa [addAll] using h {}

/-! ### additive measures of the table are sums over the frames -/

/-- number of items of a frame -/
def Frame.items (f : Frame) : Nat := f.tp.length + f.fp.length + f.tn.length + f.fn.length

def sumN (l : List Nat) : Nat := l.foldr (· + ·) 0

@[simp] theorem sumN_nil : sumN [] = 0 := rfl
@[simp] theorem sumN_cons (a : Nat) (l : List Nat) : sumN (a :: l) = a + sumN l := rfl
theorem sumN_append (a b : List Nat) : sumN (a ++ b) = sumN a + sumN b := by
  induction a with
  | nil => simp
  | cons x a ih => simp [ih]; omega

/-- an additive measure `μ` of item lists whose value on a frame's block is `c f` (whatever the scene
number) sums `c` over all frames -/
theorem measure_allItems (area : Rat → Rat → Option Nat) (μ : List Item → Nat) (c : Frame → Nat)
    (h0 : μ [] = 0) (happ : ∀ a b, μ (a ++ b) = μ a + μ b)
    (hc : ∀ k f, μ (frameItems area k f) = c f) :
    ∀ (k : Nat) (scenes : List (List Frame)), μ (allItemsFrom area k scenes) = sumN (scenes.flatten.map c) := by
  have hs : ∀ k (fs : List Frame), μ (sceneItems area k fs) = sumN (fs.map c) := by
    intro k fs
    induction fs with
    | nil => simpa [sceneItems] using h0
    | cons f fs ih =>
      have : sceneItems area k (f :: fs) = frameItems area k f ++ sceneItems area k fs := by simp [sceneItems]
      rw [this, happ, hc, ih]; simp
  intro k scenes
  induction scenes generalizing k with
  | nil => simpa [allItemsFrom] using h0
  | cons fs rest ih =>
    simp only [allItemsFrom, happ, hs, ih, List.flatten_cons, List.map_append, sumN_append]

theorem table_measure (area : Rat → Rat → Option Nat) (scenes : List (List Frame)) (μ : List Item → Nat)
    (c : Frame → Nat) (h0 : μ [] = 0) (happ : ∀ a b, μ (a ++ b) = μ a + μ b)
    (hc : ∀ k f, μ (frameItems area k f) = c f) :
    μ ((addAll area scenes).table.map RowPair.strip) = sumN (scenes.flatten.map c) := by
  rw [addAll_strip]; exact measure_allItems area μ c h0 happ hc 0 scenes

theorem table_length (area : Rat → Rat → Option Nat) (scenes : List (List Frame)) :
    (addAll area scenes).table.length = sumN (scenes.flatten.map Frame.items) := by
  have := table_measure area scenes List.length Frame.items rfl (by simp) (by
    intro k f; simp [frameItems_length, Frame.items])
  simpa using this

/-! ### cells of one frame's block -/

theorem frameItems_gt (area : Rat → Rat → Option Nat) (k : Nat) (f : Frame) :
    (frameItems area k f).filterMap (·.1) =
      (f.tp.filterMap fun p => p.gt.map fun g => (⟨.TP, g, area p.est.x p.est.y, f.frameNum, k⟩ : Cell)) ++
      (f.fp.filterMap fun p => p.gt.map fun g => (⟨.FP, g, area p.est.x p.est.y, f.frameNum, k⟩ : Cell)) ++
      f.tn.map (fun o => (⟨.TN, o, area o.x o.y, f.frameNum, k⟩ : Cell)) ++
      f.fn.map (fun o => (⟨.FN, o, area o.x o.y, f.frameNum, k⟩ : Cell)) := by
  simp [frameItems, List.filterMap_append, List.filterMap_map, resultCells, objectCells, Function.comp_def]

theorem frameItems_est (area : Rat → Rat → Option Nat) (k : Nat) (f : Frame) :
    (frameItems area k f).filterMap (·.2) =
      f.tp.map (fun p => (⟨.TP, p.est, area p.est.x p.est.y, f.frameNum, k⟩ : Cell)) ++
      f.fp.map (fun p => (⟨.FP, p.est, area p.est.x p.est.y, f.frameNum, k⟩ : Cell)) := by
  simp [frameItems, List.filterMap_append, List.filterMap_map, resultCells, objectCells, Function.comp_def]

theorem table_filterMap_gt (t : Table) : t.filterMap (·.gt) = (t.map RowPair.strip).filterMap (·.1) := by
  simp [List.filterMap_map, RowPair.strip, Function.comp_def]

theorem table_filterMap_est (t : Table) : t.filterMap (·.est) = (t.map RowPair.strip).filterMap (·.2) := by
  simp [List.filterMap_map, RowPair.strip, Function.comp_def]

end PEval.Analyzer
