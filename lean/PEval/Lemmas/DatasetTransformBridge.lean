import PEval.Model.Dataset
import PEval.Model.Transform
/-!
# Bridge between the two quaternion algebras (C16-4 / audit X4)

`PEval.Dataset` (loader model, C16) and `PEval.Transform` (`HomogeneousMatrix` / `TransformDict`, C18) each carry a
copy of the rational quaternion algebra.  This file maps the former into the latter and shows that the copies are the
same functions, so that the C16 statement "the ego→map transform stored with the frame maps the loaded pose onto the
annotated one" is a statement about the C18 `HomogeneousMatrix (BASE_LINK → MAP)` applied with `transformPose`.
Core Lean only.
-/
namespace PEval.Dataset
open PEval

def Vec3.toT (v : Vec3) : Transform.V3 := ⟨v.x, v.y, v.z⟩
def Quat.toT (q : Quat) : Transform.Quat := ⟨q.w, q.x, q.y, q.z⟩

/-- the frame's stored ego→map pose as the C18 transform object with the key `(BASE_LINK, MAP)` -/
def Pose.toHM (t : Pose) : Transform.HM := ⟨t.pos.toT, t.rot.toT, "BASE_LINK", "MAP"⟩

theorem rotate_toT (q : Quat) (v : Vec3) : (rotate q v).toT = Transform.rotate q.toT v.toT := by
  simp only [rotate, Vec3.toT, Quat.toT, Transform.rotate, Transform.rotMat, Transform.Mat3.mulVec, Transform.V3.dot]

theorem mul_toT (p q : Quat) : (p.mul q).toT = p.toT * q.toT := rfl

theorem conj_toT (q : Quat) : q.conj.toT = q.toT.conj := rfl

theorem normSq_toT (q : Quat) : q.toT.normSq = q.normSq := rfl

/-- `Dataset.applyPose` IS `HomogeneousMatrix.transform(position, rotation)` of the C18 model -/
theorem applyPose_toT (t p : Pose) :
    Transform.transformPose t.toHM (p.pos.toT, p.rot.toT) = ((applyPose t p).pos.toT, (applyPose t p).rot.toT) := by
  simp only [Transform.transformPose, Transform.transformPos, Pose.toHM, applyPose, ← rotate_toT, mul_toT]
  rfl

end PEval.Dataset
