import PEval.Model.Manager
/-!
Helper lemmas for C13: the stable descending sort of `Ap.__init__` (`sortDesc`) is a permutation,
is sorted, and — when the confidences are pairwise distinct — depends only on the multiset of its
input (sorting a permutation gives the same list).
-/

namespace PEval.Manager

/-- confidences pairwise distinct -/
def DistinctConf (l : List Res) : Prop := l.Pairwise (fun a b => a.conf ≠ b.conf)

instance (l : List Res) : Decidable (DistinctConf l) := by unfold DistinctConf; infer_instance

/-- sorted by descending confidence (ties allowed) -/
def SortedDesc (l : List Res) : Prop := l.Pairwise (fun a b => b.conf ≤ a.conf)

/-- strictly descending confidence -/
def StrictDesc (l : List Res) : Prop := l.Pairwise (fun a b => b.conf < a.conf)

theorem insertDesc_perm (r : Res) (l : List Res) : (insertDesc r l).Perm (r :: l) := by
  induction l with
  | nil => simp [insertDesc]
  | cons x xs ih =>
    unfold insertDesc
    split
    · exact List.Perm.refl _
    · exact (List.Perm.cons x ih).trans (List.Perm.swap r x xs)

theorem sortDesc_perm (l : List Res) : (sortDesc l).Perm l := by
  induction l with
  | nil => simp [sortDesc]
  | cons r rs ih =>
    unfold sortDesc
    exact (insertDesc_perm r _).trans (List.Perm.cons r ih)

theorem mem_insertDesc {r x : Res} {l : List Res} : x ∈ insertDesc r l ↔ x = r ∨ x ∈ l := by
  rw [(insertDesc_perm r l).mem_iff]; simp

theorem insertDesc_sorted (r : Res) (l : List Res) (h : SortedDesc l) : SortedDesc (insertDesc r l) := by
  induction l with
  | nil => simp [insertDesc, SortedDesc]
  | cons x xs ih =>
    unfold SortedDesc at h ih ⊢
    rw [List.pairwise_cons] at h
    unfold insertDesc
    split
    · rename_i hx
      rw [List.pairwise_cons]
      refine ⟨?_, List.pairwise_cons.mpr h⟩
      intro y hy
      rcases List.mem_cons.mp hy with rfl | hy
      · exact hx
      · exact Rat.le_trans (h.1 y hy) hx
    · rename_i hx
      rw [List.pairwise_cons]
      refine ⟨?_, ih h.2⟩
      intro y hy
      rcases mem_insertDesc.mp hy with rfl | hy
      · exact Rat.le_of_lt (Rat.not_le.mp hx)
      · exact h.1 y hy

theorem sortDesc_sorted (l : List Res) : SortedDesc (sortDesc l) := by
  induction l with
  | nil => simp [sortDesc, SortedDesc]
  | cons r rs ih => unfold sortDesc; exact insertDesc_sorted r _ ih

theorem DistinctConf.perm {l₁ l₂ : List Res} (p : l₁.Perm l₂) (h : DistinctConf l₁) : DistinctConf l₂ :=
  (p.pairwise_iff (fun {_ _} hxy => Ne.symm hxy)).mp h

theorem strict_of_sorted_distinct {l : List Res} (hs : SortedDesc l) (hd : DistinctConf l) : StrictDesc l := by
  induction l with
  | nil => simp [StrictDesc]
  | cons x xs ih =>
    unfold SortedDesc DistinctConf StrictDesc at *
    rw [List.pairwise_cons] at hs hd ⊢
    refine ⟨?_, ih hs.2 hd.2⟩
    intro y hy
    have h1 := hs.1 y hy
    have h2 := hd.1 y hy
    exact Rat.lt_of_le_of_ne h1 (Ne.symm h2)

/-- two strictly descending lists with the same elements are equal -/
theorem strict_perm_eq : ∀ {l₁ l₂ : List Res}, l₁.Perm l₂ → StrictDesc l₁ → StrictDesc l₂ → l₁ = l₂
  | [], l₂, p, _, _ => (List.Perm.nil_eq p)
  | a :: t, [], p, _, _ => absurd p.symm.nil_eq (by simp)
  | a :: t, b :: t₂, p, h₁, h₂ => by
    unfold StrictDesc at h₁ h₂
    rw [List.pairwise_cons] at h₁ h₂
    have hab : a = b := by
      by_cases hab : a = b
      · exact hab
      · have ha : a ∈ t₂ := by
          have : a ∈ b :: t₂ := p.mem_iff.mp (List.mem_cons_self)
          rcases List.mem_cons.mp this with h | h
          · exact absurd h hab
          · exact h
        have hb : b ∈ t := by
          have : b ∈ a :: t := p.mem_iff.mpr (List.mem_cons_self)
          rcases List.mem_cons.mp this with h | h
          · exact absurd h.symm hab
          · exact h
        have h3 := h₂.1 a ha
        have h4 := h₁.1 b hb
        exact absurd h4 (by grind)
    subst hab
    have pt : t.Perm t₂ := List.Perm.cons_inv p
    rw [strict_perm_eq pt h₁.2 h₂.2]

/-- sorting a permutation of a list with pairwise distinct keys gives the same list -/
theorem sortDesc_perm_eq {l₁ l₂ : List Res} (p : l₁.Perm l₂) (hd : DistinctConf l₁) :
    sortDesc l₁ = sortDesc l₂ := by
  have p' : (sortDesc l₁).Perm (sortDesc l₂) := (sortDesc_perm l₁).trans (p.trans (sortDesc_perm l₂).symm)
  have d₁ : DistinctConf (sortDesc l₁) := hd.perm (sortDesc_perm l₁).symm
  have d₂ : DistinctConf (sortDesc l₂) := d₁.perm p'
  exact strict_perm_eq p' (strict_of_sorted_distinct (sortDesc_sorted l₁) d₁)
    (strict_of_sorted_distinct (sortDesc_sorted l₂) d₂)

/-- the sort is stable: an already strictly descending list is left as it is -/
theorem sortDesc_of_strict {l : List Res} (h : StrictDesc l) : sortDesc l = l := by
  have hd : DistinctConf l := by
    unfold StrictDesc at h; unfold DistinctConf
    exact h.imp (fun hab => (Rat.ne_of_lt hab).symm)
  exact strict_perm_eq (sortDesc_perm l) (strict_of_sorted_distinct (sortDesc_sorted l) (hd.perm (sortDesc_perm l).symm)) h

end PEval.Manager
