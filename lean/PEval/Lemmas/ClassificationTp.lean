import PEval.Lemmas.ClassificationMax
/-!
Link between the count the optimality theorem maximises (`numEqual`: pairs with EQUAL labels) and the
count the metrics use (`countTp`: results with `is_label_correct`, which is also true when the ground
truth carries the FP label, whatever the estimate's label).

* `countTp rs = numCorrect (resPairs rs)`; `numCorrect P = numEqual P + numFpOnly P` (exact split);
* without FP-labelled ground truths `numCorrect = numEqual`;
* in general `numCorrect P ≤ numEqual P + #FP-labelled ground truths`.
-/
namespace PEval.Classification

/-- `is_label_correct` of the result built from the pair -/
def pairCorrect (p : Obj × Obj) : Bool := labelCorrect { est := p.1, gt := some p.2 }

/-- number of label-correct pairs = the TP count of `ClassificationAccuracy` on the pairs -/
def numCorrect (P : List (Obj × Obj)) : Nat := P.countP pairCorrect

/-- label-correct ONLY because the ground truth carries the FP label -/
def fpOnly (p : Obj × Obj) : Bool := p.2.label.isFP && !equalLabel p

def numFpOnly (P : List (Obj × Obj)) : Nat := P.countP fpOnly

theorem pairCorrect_eq (p : Obj × Obj) : pairCorrect p = (p.2.label.isFP || equalLabel p) := rfl

theorem numCorrect_eq_countTp_paired (P : List (Obj × Obj)) : numCorrect P = countTp (paired P) := by
  unfold numCorrect countTp paired
  rw [List.countP_map]
  rfl

/-- the metrics' TP count only sees the paired results -/
theorem countTp_eq_numCorrect (rs : List Res) : countTp rs = numCorrect (resPairs rs) := by
  induction rs with
  | nil => rfl
  | cons r t ih =>
    rcases r with ⟨e, g⟩
    cases g with
    | none =>
      have h1 : countTp (⟨e, none⟩ :: t) = countTp t := by
        simp [countTp, labelCorrect]
      have h2 : resPairs (⟨e, none⟩ :: t) = resPairs t := by simp [resPairs]
      rw [h1, h2, ih]
    | some g =>
      have h2 : resPairs (⟨e, some g⟩ :: t) = (e, g) :: resPairs t := by simp [resPairs]
      rw [h2]
      unfold numCorrect countTp at *
      rw [List.countP_cons, List.countP_cons, ih]
      rfl

/-- exact split of the label-correct pairs: equal label, or FP-labelled ground truth with another label -/
theorem numCorrect_split (P : List (Obj × Obj)) : numCorrect P = numEqual P + numFpOnly P := by
  induction P with
  | nil => rfl
  | cons p t ih =>
    unfold numCorrect numEqual numFpOnly at *
    rw [List.countP_cons, List.countP_cons, List.countP_cons, ih]
    rw [pairCorrect_eq]
    unfold fpOnly
    cases p.2.label.isFP <;> cases equalLabel p <;> simp <;> omega

/-- no FP-labelled ground truth among the pairs: label-correct = equal label -/
theorem pairCorrect_eq_equalLabel {p : Obj × Obj} (h : p.2.label.isFP = false) : pairCorrect p = equalLabel p := by
  rw [pairCorrect_eq, h]; rfl

theorem numCorrect_eq_numEqual {P : List (Obj × Obj)} (h : ∀ p ∈ P, p.2.label.isFP = false) :
    numCorrect P = numEqual P := by
  unfold numCorrect numEqual
  apply List.countP_congr
  intro p hp
  rw [pairCorrect_eq_equalLabel (h p hp)]

theorem numEqual_le_numCorrect (P : List (Obj × Obj)) : numEqual P ≤ numCorrect P := by
  rw [numCorrect_split]; omega

/-- the FP-only pairs use pairwise different FP-labelled ground truths -/
theorem numFpOnly_le {ests gts : List Obj} {P : List (Obj × Obj)} (hP : Pairing ests gts P) :
    numFpOnly P ≤ gts.countP fun g => g.label.isFP := by
  have h1 : numFpOnly P ≤ (P.map Prod.snd).countP fun g => g.label.isFP := by
    unfold numFpOnly
    rw [List.countP_map]
    apply List.countP_mono_left
    intro p _ hp
    unfold fpOnly at hp
    simp only [Bool.and_eq_true] at hp
    simpa using hp.1
  have hsub : (P.map Prod.snd).Subperm gts := by
    apply List.subperm_of_subset hP.gt_once
    intro g hg
    obtain ⟨p, hp, rfl⟩ := List.mem_map.1 hg
    exact hP.gt_mem p hp
  exact Nat.le_trans h1 (hsub.countP_le _)

/-- a duplicate-free list of pairs contained in another has at most as many pairs of any kind -/
theorem countP_le_of_subset {P Q : List (Obj × Obj)} (hnd : P.Nodup) (hsub : P ⊆ Q) (f : Obj × Obj → Bool) :
    P.countP f ≤ Q.countP f := (List.subperm_of_subset hnd hsub).countP_le f

end PEval.Classification
