import Mathlib.Tactic.Ring
import Mathlib.Tactic.Linarith
import PEval.Lemmas.AP
import PEval.Lemmas.APDT
import PEval.Lemmas.APSort
/-!
Bridges from the normal forms of `PEval/Model/APDT.lean` to the model `PEval/Model/AP.lean`, for ALL inputs
(any number of points): the area normal form of an ordering, read at concrete precisions / recalls that are ordered
that way, is `calculateAp`; the precision / recall normal forms read at a concrete tp list are `t i / (i+1)`, `recallOf`.
-/
namespace PEval.APDT
open PEval.AP PEval.ClearDT

/-- variables `P i`, `R i` read in two lists -/
def envPR (ps rs : List Rat) : Var → Rat := fun v =>
  if v.1 = "P" then ps.getD v.2 0 else if v.1 = "R" then rs.getD v.2 0 else 0

def evalTerms (ps rs : List Rat) : List ((Nat × Nat) × Int) → Rat
  | [] => 0
  | t :: r => (t.2 : Rat) * (ps.getD t.1.1 0 * rs.getD t.1.2 0) + evalTerms ps rs r

theorem evalNF_biNF (ps rs : List Rat) (l : List ((Nat × Nat) × Int)) :
    evalNF (envPR ps rs) (biNF l) = evalTerms ps rs l := by
  induction l with
  | nil => rfl
  | cons t r ih =>
    have : biNF (t :: r) = ([(("P", t.1.1), 1), (("R", t.1.2), 1)], (t.2, 1)) :: biNF r := rfl
    rw [this]
    simp only [evalNF, evalMono, evalTerms, ih, envPR]
    simp [npow]

theorem evalTerms_insTerm (ps rs : List Rat) (key : Nat × Nat) (c : Int) :
    ∀ l, evalTerms ps rs (insTerm key c l) = (c : Rat) * (ps.getD key.1 0 * rs.getD key.2 0) + evalTerms ps rs l := by
  intro l
  induction l with
  | nil => simp [insTerm, evalTerms]
  | cons t r ih =>
    obtain ⟨k', c'⟩ := t
    unfold insTerm
    by_cases h1 : key = k'
    · subst h1
      simp only [if_true, evalTerms]
      push_cast
      ring
    · by_cases h2 : keyLt key k' = true
      · simp [h1, h2, evalTerms]
      · have h3 : keyLt key k' = false := by simpa using h2
        simp only [h1, h3, if_false, Bool.false_eq_true, evalTerms, ih]
        ring

theorem evalTerms_filter (ps rs : List Rat) (l : List ((Nat × Nat) × Int)) :
    evalTerms ps rs (l.filter fun t => t.2 != 0) = evalTerms ps rs l := by
  induction l with
  | nil => rfl
  | cons t r ih =>
    by_cases h : t.2 = 0
    · simp [h, evalTerms, ih]
    · simp [h, evalTerms, ih]

theorem evalTerms_normTerms (ps rs : List Rat) (l : List ((Nat × Nat) × Int)) :
    evalTerms ps rs (normTerms l) = evalTerms ps rs l := by
  unfold normTerms
  rw [evalTerms_filter]
  induction l with
  | nil => rfl
  | cons t r ih => simp only [List.foldr_cons, evalTerms_insTerm, ih, evalTerms]

/-- point `i` of the precision / recall lists -/
def pt (ps rs : List Rat) (i : Nat) : Pt := (ps.getD i 0, rs.getD i 0)

theorem partialArea_map (ps rs : List Rat) :
    ∀ st : List Nat, partialArea (st.map (pt ps rs)) = evalTerms ps rs (partTerms st)
  | [] => rfl
  | [_] => rfl
  | k :: k' :: r => by
    have ih := partialArea_map ps rs (k' :: r)
    simp only [List.map_cons] at ih ⊢
    simp only [pt, partialArea, partTerms, evalTerms] at ih ⊢
    rw [ih]
    push_cast
    ring

theorem stackArea_map (ps rs : List Rat) (st : List Nat) :
    stackArea (st.map (pt ps rs)) = evalTerms ps rs (stackTerms st) := by
  cases st with
  | nil => rfl
  | cons k st =>
    have h := partialArea_map ps rs (k :: st)
    simp only [List.map_cons] at h ⊢
    simp only [pt, stackArea, stackTerms, evalTerms] at h ⊢
    rw [h]
    push_cast
    ring

/-- `AP.scan` on the points of an index list = `scanIdx` under a pattern ordered like the precisions -/
theorem scan_map (ps rs : List Rat) (pat : List Nat) (n : Nat)
    (hiso : ∀ i j, i < n → j < n → (pat.getD i 0 > pat.getD j 0 ↔ ps.getD i 0 > ps.getD j 0)) :
    ∀ (idxs st : List Nat), (∀ i ∈ idxs, i < n) → (∀ i ∈ st, i < n) →
      scan (idxs.map (pt ps rs)) (st.map (pt ps rs)) = (scanIdx pat idxs st).map (pt ps rs) := by
  intro idxs
  induction idxs with
  | nil => intro st _ _; simp [scan, scanIdx]
  | cons i rest ih =>
    intro st hi hs
    have hi' : i < n := hi i (by simp)
    have hrest : ∀ x ∈ rest, x < n := fun x hx => hi x (by simp [hx])
    cases st with
    | nil =>
      have := ih [i] hrest (by intro x hx; simp at hx; rw [hx]; exact hi')
      simpa [scan, scanIdx, pt] using this
    | cons m st' =>
      have hm : m < n := hs m (by simp)
      by_cases h : pat.getD i 0 > pat.getD m 0
      · have h' : ps.getD i 0 > ps.getD m 0 := (hiso i m hi' hm).1 h
        have := ih (i :: m :: st') hrest (by
          intro x hx
          simp only [List.mem_cons] at hx
          rcases hx with rfl | rfl | hx
          · exact hi'
          · exact hm
          · exact hs x (by simp [hx]))
        simp only [gt_iff_lt, List.getD_eq_getElem?_getD] at h h'
        simpa [scan, scanIdx, pt, h, h'] using this
      · have h' : ¬ ps.getD i 0 > ps.getD m 0 := fun hh => h ((hiso i m hi' hm).2 hh)
        have := ih (m :: st') hrest hs
        simp only [gt_iff_lt, List.getD_eq_getElem?_getD] at h h'
        simpa [scan, scanIdx, pt, h, h'] using this

theorem zip_eq_map_range (ps rs : List Rat) (h : rs.length = ps.length) :
    ps.zip rs = (List.range ps.length).map (pt ps rs) := by
  apply List.ext_getElem
  · simp [h]
  · intro i h1 h2
    have hp : i < ps.length := by simp at h1; omega
    have hr : i < rs.length := by omega
    simp [pt, List.getD_eq_getElem?_getD, List.getElem?_eq_getElem hp, List.getElem?_eq_getElem hr]

theorem repIdx_val (ps : List Rat) (pat : List Nat) (hp : pat.length = ps.length)
    (hiso : ∀ i j, i < ps.length → j < ps.length → (pat.getD i 0 > pat.getD j 0 ↔ ps.getD i 0 > ps.getD j 0)) (k : Nat) :
    ps.getD (repIdx pat k) 0 = ps.getD k 0 := by
  unfold repIdx
  split
  · next hk =>
    cases hf : (List.range k).find? (fun j => pat.getD j 0 == pat.getD k 0) with
    | none => rfl
    | some j =>
      have hj : j < k := by simpa using List.mem_of_find?_eq_some hf
      have he : pat.getD j 0 = pat.getD k 0 := by simpa using List.find?_some hf
      have hkn : k < ps.length := hp ▸ hk
      have hjn : j < ps.length := by omega
      have h1 : ¬ ps.getD j 0 > ps.getD k 0 := fun hh => by
        have := (hiso j k hjn hkn).2 hh
        omega
      have h2 : ¬ ps.getD k 0 > ps.getD j 0 := fun hh => by
        have := (hiso k j hkn hjn).2 hh
        omega
      simp only [Option.getD_some]
      exact le_antisymm (not_lt.1 h1) (not_lt.1 h2)
  · rfl

theorem evalTerms_repTerms (ps rs : List Rat) (pat : List Nat) (hp : pat.length = ps.length)
    (hiso : ∀ i j, i < ps.length → j < ps.length → (pat.getD i 0 > pat.getD j 0 ↔ ps.getD i 0 > ps.getD j 0))
    (l : List ((Nat × Nat) × Int)) : evalTerms ps rs (repTerms pat l) = evalTerms ps rs l := by
  induction l with
  | nil => rfl
  | cons t r ih =>
    have : repTerms pat (t :: r) = ((repIdx pat t.1.1, t.1.2), t.2) :: repTerms pat r := rfl
    rw [this]
    simp only [evalTerms, ih, repIdx_val ps pat hp hiso]

/-- THE BRIDGE of (b2): the area normal form of a pattern, read at precisions ordered like the pattern, is the model's
`calculateAp` — for lists of any length -/
theorem areaModel_eval (ps rs : List Rat) (pat : List Nat) (hp : pat.length = ps.length) (hr : rs.length = ps.length)
    (hiso : ∀ i j, i < ps.length → j < ps.length → (pat.getD i 0 > pat.getD j 0 ↔ ps.getD i 0 > ps.getD j 0)) :
    evalNF (envPR ps rs) (areaModel pat) = calculateAp ps rs := by
  unfold areaModel calculateAp stackOf
  rw [evalNF_biNF, evalTerms_normTerms, evalTerms_repTerms ps rs pat hp hiso, zip_eq_map_range ps rs hr,
    ← List.map_reverse, hp]
  cases hrev : (List.range ps.length).reverse with
  | nil => rfl
  | cons i rest =>
    have hmem : ∀ x ∈ i :: rest, x < ps.length := by
      intro x hx
      rw [← hrev] at hx
      simpa using hx
    simp only [List.map_cons]
    have := scan_map ps rs pat ps.length hiso rest [i] (fun x hx => hmem x (by simp [hx]))
      (by intro x hx; simp at hx; rw [hx]; exact hmem i (by simp))
    simp only [List.map_cons, List.map_nil] at this
    rw [this, stackArea_map]

/-! ### (b1) precision / recall normal forms read at a concrete tp list -/

/-- variables `t i` read in a list, `g` = the ground-truth count -/
def envT (ts : List Rat) (g : Rat) : Var → Rat := fun v =>
  if v.1 = "t" then ts.getD v.2 0 else if v.1 = "g" then g else 0

theorem precNF_eval (ts : List Rat) (g : Rat) (i : Nat) :
    evalNF (envT ts g) (precNF i) = ts.getD i 0 / ((i : Rat) + 1) := by
  simp only [precNF, evalNF, evalMono, envT]
  simp [npow]
  ring

theorem recallNF_eval (ts : List Rat) (G : Nat) (i : Nat) :
    evalNF (envT ts (G : Rat)) (recallNF (decide (0 < G)) i) = recallOf G (ts.getD i 0) := by
  unfold recallNF recallOf
  by_cases h : 0 < G
  · simp only [h, decide_true, if_true, evalNF, evalMono, envT]
    simp [npow]
    ring
  · simp [h, evalNF]

/-! ### (c) the mean normal form -/

theorem evalNF_mean (env : Var → Rat) (kind : String) (m : Nat) (d : List Nat) :
    evalNF env (d.map fun i => ([((kind, i), (1 : Int))], ((1 : Int), m))) = (d.map fun i => env (kind, i)).sum / (m : Rat) := by
  induction d with
  | nil => simp [evalNF]
  | cons i d ih =>
    simp only [List.map_cons, evalNF, evalMono, ih, List.sum_cons]
    simp [npow]
    ring

/-- mAP as the code's table spells it, read at per-label values, is the mean of the values of the labels with a result -/
theorem meanNF_eval (env : Var → Rat) (kind : String) (d : List Nat) :
    (meanNF kind d).map (evalNF env) =
      if d.isEmpty then none else some ((d.map fun i => env (kind, i)).sum / (d.length : Rat)) := by
  unfold meanNF
  split
  · rfl
  · simp only [Option.map_some, evalNF_mean]

/-! ### (a) the ranking depends on the confidences only through their order -/

theorem insertDesc_congr {α : Type} (key key' : α → Rat) (x : α) :
    ∀ ys : List α, (∀ y ∈ ys, (key x < key y ↔ key' x < key' y)) → insertDesc key x ys = insertDesc key' x ys := by
  intro ys
  induction ys with
  | nil => intro _; rfl
  | cons y ys ih =>
    intro h
    have hy := h y (by simp)
    have ih' := ih fun z hz => h z (by simp [hz])
    unfold insertDesc
    by_cases hk : key x < key y
    · have hk' : key' x < key' y := hy.1 hk
      simp [hk, hk', ih']
    · have hk' : ¬ key' x < key' y := fun hh => hk (hy.2 hh)
      simp [hk, hk']

/-- two key functions that order the elements of `l` alike rank `l` alike (so `sortIdx pat`, the model's sort run on a rank
pattern, is the ranking of every confidence list ordered like the pattern) -/
theorem sortDesc_congr {α : Type} (key key' : α → Rat) :
    ∀ l : List α, (∀ a ∈ l, ∀ b ∈ l, (key a < key b ↔ key' a < key' b)) → sortDesc key l = sortDesc key' l := by
  intro l
  induction l with
  | nil => intro _; rfl
  | cons x xs ih =>
    intro h
    have ih' := ih fun a ha b hb => h a (by simp [ha]) b (by simp [hb])
    simp only [sortDesc]
    rw [ih']
    apply insertDesc_congr
    intro y hy
    have : y ∈ xs := (sortDesc_perm key' xs).mem_iff.1 hy
    exact h x (by simp) y (by simp [this])

theorem insertDesc_map {α β : Type} (key : β → Rat) (f : α → β) (x : α) :
    ∀ ys : List α, insertDesc key (f x) (ys.map f) = (insertDesc (fun a => key (f a)) x ys).map f := by
  intro ys
  induction ys with
  | nil => rfl
  | cons y ys ih =>
    simp only [List.map_cons, insertDesc]
    split
    · simp [ih]
    · simp

theorem sortDesc_map {α β : Type} (key : β → Rat) (f : α → β) :
    ∀ l : List α, sortDesc key (l.map f) = (sortDesc (fun a => key (f a)) l).map f := by
  intro l
  induction l with
  | nil => rfl
  | cons x xs ih => simp only [List.map_cons, sortDesc, ih, insertDesc_map]

end PEval.APDT
