import PEval.Lemmas.ClassificationGeneric
import PEval.Model.MatchDispatch
/-!
Error exits of `MatchDispatch.getObjectResultsX` on the identity-based paths (ROI-less 2-D objects): the traffic-light
matcher returns when every uuid is set and raises `RuntimeError` when one is `None`.  The two facts about
`Classification.pairTlr` are C11's (`C11.tlr_total`, `C11.tlr_null_uuid_error`, proved there from the same lemmas);
they are re-derived here so that C01 does not import another property's module.
-/
namespace PEval.MatchDispatch
open PEval PEval.Matching PEval.Classification

theorem pairTlr_total {uf : Bool} {ests gts : List Classification.Obj} (hn : ∀ o ∈ ests ++ gts, o.uuid ≠ none) :
    ∃ rs, pairTlr uf ests gts = .ok rs := by
  have hnn : ∀ e ∈ ests, ∀ g ∈ gts, nullUuid e g = false := fun e he g hg =>
    nullUuid_false (hn e (List.mem_append_left _ he)) (hn g (List.mem_append_right _ hg))
  obtain ⟨s1, h1⟩ := outer_stepG_total (c := cond1 uf) ests (initSt ests gts) hnn
  have sh := outer_shrinks (stepG_is_move _) gts ests h1
  obtain ⟨s2, h2⟩ := outer_stepG_total (c := sameKey) (gs := s1.gs) s1.es s1
    (fun e he g hg => hnn e (sh.es.subset he) g (sh.gs.subset hg))
  exact ⟨paired s2.res, by simp only [pairTlr, tlrStage1, tlrStage2, h1, h2]⟩

theorem pairTlr_null_uuid_error {uf : Bool} {ests gts : List Classification.Obj} (he : ests ≠ []) (hg : gts ≠ [])
    (hnull : ∃ o ∈ ests ++ gts, o.uuid = none) : ∃ x, pairTlr uf ests gts = .error x := by
  cases hres : pairTlr uf ests gts with
  | error x => exact ⟨x, rfl⟩
  | ok rs =>
    exfalso
    obtain ⟨s1, s2, h1, _, _⟩ := pairTlr_ok hres
    have hnn := outer_ok_nonnull (fun e g s s' hs => (stepG_ok hs).1) gts ests h1
    obtain ⟨o, ho, hnone⟩ := hnull
    rcases List.mem_append.1 ho with ho | ho
    · obtain ⟨g, hgm⟩ := List.exists_mem_of_ne_nil gts hg
      have := hnn o ho g hgm
      rw [nullUuid_true_left hnone] at this
      cases this
    · obtain ⟨e, hem⟩ := List.exists_mem_of_ne_nil ests he
      have := hnn e hem o ho
      rw [nullUuid_true_right hnone] at this
      cases this

theorem mem_toClsFrom {k : Nat} {os : List ObjX} {o : Classification.Obj} (h : o ∈ toClsFrom k os) :
    ∃ ox ∈ os, o.uuid = ox.uuid := by
  induction os generalizing k with
  | nil => cases h
  | cons x xs ih =>
    simp only [toClsFrom, List.mem_cons] at h
    rcases h with rfl | h
    · exact ⟨x, by simp, rfl⟩
    · obtain ⟨ox, hox, hu⟩ := ih h
      exact ⟨ox, List.mem_cons_of_mem _ hox, hu⟩

theorem exists_toClsFrom {k : Nat} {os : List ObjX} {ox : ObjX} (h : ox ∈ os) :
    ∃ o ∈ toClsFrom k os, o.uuid = ox.uuid := by
  induction os generalizing k with
  | nil => cases h
  | cons x xs ih =>
    simp only [List.mem_cons] at h
    rcases h with rfl | h
    · exact ⟨⟨k, ox.uuid, ⟨ox.tl, ox.label⟩, ox.frame⟩, by simp [toClsFrom], rfl⟩
    · obtain ⟨o, ho, hu⟩ := ih (k := k + 1) h
      exact ⟨o, by simp [toClsFrom, ho], hu⟩

theorem toCls_ne_nil {os : List ObjX} (h : os ≠ []) : toCls os ≠ [] := by
  cases os with
  | nil => exact absurd rfl h
  | cons x xs => simp [toCls, toClsFrom]

/-- traffic-light path: every uuid set ⇒ the call returns -/
theorem getObjectResultsX_tlr_total {uf : Bool} {c : Cfg} {sx : SceneX} {e0 g0 : ObjX} {es gs : List ObjX}
    (hE : sx.ests = e0 :: es) (hG : sx.gts = g0 :: gs) (hd : dispatch sx.is2d e0 g0 = .tlr)
    (hn : ∀ o ∈ sx.ests ++ sx.gts, o.uuid ≠ none) : ∃ rs, getObjectResultsX uf c sx = .ok rs := by
  have hn' : ∀ o ∈ toCls sx.ests ++ toCls sx.gts, o.uuid ≠ none := by
    intro o ho
    rcases List.mem_append.1 ho with ho | ho
    · obtain ⟨ox, hox, hu⟩ := mem_toClsFrom ho
      rw [hu]; exact hn ox (List.mem_append_left _ hox)
    · obtain ⟨ox, hox, hu⟩ := mem_toClsFrom ho
      rw [hu]; exact hn ox (List.mem_append_right _ hox)
  obtain ⟨rs, hrs⟩ := pairTlr_total (uf := uf) hn'
  refine ⟨clsRes rs, ?_⟩
  unfold getObjectResultsX
  simp only [hE, hG, hd]
  rw [← hE, ← hG, hrs]
  rfl

/-- traffic-light path: a `None` uuid on either side ⇒ the call raises (`RuntimeError` in the code) -/
theorem getObjectResultsX_tlr_null_uuid_error {uf : Bool} {c : Cfg} {sx : SceneX} {e0 g0 : ObjX} {es gs : List ObjX}
    (hE : sx.ests = e0 :: es) (hG : sx.gts = g0 :: gs) (hd : dispatch sx.is2d e0 g0 = .tlr)
    (hnull : ∃ o ∈ sx.ests ++ sx.gts, o.uuid = none) : ∃ x, getObjectResultsX uf c sx = .error x := by
  have hnull' : ∃ o ∈ toCls sx.ests ++ toCls sx.gts, o.uuid = none := by
    obtain ⟨ox, hox, hu⟩ := hnull
    rcases List.mem_append.1 hox with hox | hox
    · obtain ⟨o, ho, hu'⟩ := exists_toClsFrom (k := 0) hox
      exact ⟨o, List.mem_append_left _ ho, by rw [hu', hu]⟩
    · obtain ⟨o, ho, hu'⟩ := exists_toClsFrom (k := 0) hox
      exact ⟨o, List.mem_append_right _ ho, by rw [hu', hu]⟩
  obtain ⟨x, hx⟩ := pairTlr_null_uuid_error (uf := uf) (toCls_ne_nil (by rw [hE]; simp))
    (toCls_ne_nil (by rw [hG]; simp)) hnull'
  refine ⟨x, ?_⟩
  unfold getObjectResultsX
  simp only [hE, hG, hd]
  rw [← hE, ← hG, hx]
  rfl

end PEval.MatchDispatch
