import PEval.Model.Pipeline
import PEval.Properties.C01
import PEval.Lemmas.PassFailCount
/-!
Composition lemmas, part 1: what C01 proves of the matcher's output (`results_gt_nodup`,
`results_est_nodup`) is, after translation, the well-formedness hypothesis `PassFail.MatcherWF` of the
C03 conservation theorems.  Core Lean only.
-/
namespace PEval.Pipeline
open PEval

/-! ### two list facts (Mathlib's `inj_on_of_nodup_map`, `Nodup.map_on`) -/

theorem inj_on_of_nodup_map {α β : Type} {g : α → β} {l : List α} (d : (l.map g).Nodup) :
    ∀ x ∈ l, ∀ y ∈ l, g x = g y → x = y := by
  induction l with
  | nil => intro x hx; cases hx
  | cons a t ih =>
    rw [List.map_cons, List.nodup_cons] at d
    intro x hx y hy hxy
    rcases List.mem_cons.1 hx with hxa | hx
    · rcases List.mem_cons.1 hy with hya | hy
      · rw [hxa, hya]
      · rw [hxa] at hxy
        exact absurd (List.mem_map.2 ⟨y, hy, hxy.symm⟩) d.1
    · rcases List.mem_cons.1 hy with hya | hy
      · rw [hya] at hxy
        exact absurd (List.mem_map.2 ⟨x, hx, hxy⟩) d.1
      · exact ih d.2 x hx y hy hxy

theorem nodup_map_on {α β : Type} {g : α → β} {l : List α}
    (H : ∀ x ∈ l, ∀ y ∈ l, g x = g y → x = y) (d : l.Nodup) : (l.map g).Nodup := by
  induction l with
  | nil => simp
  | cons a t ih =>
    rw [List.nodup_cons] at d
    rw [List.map_cons, List.nodup_cons]
    refine ⟨?_, ih (fun x hx y hy => H x (List.mem_cons_of_mem _ hx) y (List.mem_cons_of_mem _ hy)) d.2⟩
    intro hm
    obtain ⟨y, hy, hya⟩ := List.mem_map.1 hm
    have := H y (List.mem_cons_of_mem _ hy) a List.mem_cons_self hya
    subst this
    exact d.1 hy

/-! ### the translated results -/

theorem toPFRes_gt (f : Frame) (r : Matching.Res) : (toPFRes f r).gt = r.2.map (toGT f) := by
  obtain ⟨i, o⟩ := r
  cases o <;> rfl

theorem toPFRes_est (f : Frame) (r : Matching.Res) : (toPFRes f r).est = (f.est r.1).id := by
  obtain ⟨i, o⟩ := r
  cases o <;> rfl

theorem toPFRes_estCrit (f : Frame) (r : Matching.Res) : (toPFRes f r).estCrit = (f.est r.1).crit := by
  obtain ⟨i, o⟩ := r
  cases o <;> rfl

/-- the ground truths attached to the translated results are the translated used ground truths -/
theorem gtsOf_map_toPFRes (f : Frame) (rs : List Matching.Res) :
    PassFail.gtsOf (rs.map (toPFRes f)) = (Matching.usedGts rs).map (toGT f) := by
  induction rs with
  | nil => rfl
  | cons r t ih =>
    obtain ⟨i, o⟩ := r
    simp only [PassFail.gtsOf, Matching.usedGts] at ih ⊢
    cases o with
    | none => simpa [toPFRes] using ih
    | some j => simpa [toPFRes] using ih

/-- the critical filter of the pass/fail model on translated results = translation of the critical
filter on matcher results: the AP stage and the pass/fail stage see the same result list -/
theorem resSurvives_toPFRes (f : Frame) (r : Matching.Res) :
    PassFail.resSurvives (toPFRes f r) = survives f r := by
  obtain ⟨i, o⟩ := r
  cases o <;> rfl

theorem criticalResults_map (f : Frame) (rs : List Matching.Res) :
    PassFail.criticalResults (rs.map (toPFRes f)) = (critResults f rs).map (toPFRes f) := by
  unfold PassFail.criticalResults critResults
  rw [List.filter_map]
  congr 1
  apply List.filter_congr
  intro r _
  exact resSurvives_toPFRes f r

theorem criticalGts_pfGts (f : Frame) :
    PassFail.criticalGts (pfGts f) = (critGtIdx f).map (toGT f) := by
  unfold PassFail.criticalGts pfGts critGtIdx
  rw [List.filter_map]
  rfl

/-- ground truths of a frame are a set ⇒ the translation is injective on the positions in use -/
theorem toGT_inj_on {f : Frame} (hd : PassFail.GtsDistinct (pfGts f)) :
    ∀ j, j < f.scene.gts.length → ∀ k, k < f.scene.gts.length → toGT f j = toGT f k → j = k := by
  intro j hj k hk h
  exact inj_on_of_nodup_map (PassFail.GtsDistinct.nodup hd) j (List.mem_range.2 hj) k
    (List.mem_range.2 hk) h

/-- C01 ⇒ hypothesis of C03, for every configuration and scene -/
theorem matcherWF_of_matched {f : Frame} {rs : List Matching.Res}
    (h : Matching.getObjectResults f.cfg f.scene = .ok rs)
    (hd : PassFail.GtsDistinct (pfGts f)) : PassFail.MatcherWF (pfFrame f rs) := by
  obtain ⟨hnd, hlt⟩ := C01.results_gt_nodup h
  refine ⟨hd, ?_, ?_⟩
  · show (PassFail.gtsOf (rs.map (toPFRes f))).Nodup
    rw [gtsOf_map_toPFRes]
    refine nodup_map_on ?_ hnd
    intro x hx y hy hxy
    exact toGT_inj_on hd x (hlt x hx) y (hlt y hy) hxy
  · intro g hg
    have hg' : g ∈ PassFail.gtsOf (rs.map (toPFRes f)) := hg
    rw [gtsOf_map_toPFRes] at hg'
    obtain ⟨j, hj, rfl⟩ := List.mem_map.1 hg'
    exact List.mem_map.2 ⟨j, List.mem_range.2 (hlt j hj), rfl⟩

/-- C01 ⇒ the estimates of the translated results are pairwise different objects, when the harness
ids of the estimates are -/
theorem ests_nodup_of_matched {f : Frame} {rs : List Matching.Res}
    (h : Matching.getObjectResults f.cfg f.scene = .ok rs)
    (hid : ((List.range f.scene.ests.length).map (fun i => (f.est i).id)).Nodup) :
    ((rs.map (toPFRes f)).map (·.est)).Nodup := by
  obtain ⟨hnd, hlt⟩ := C01.results_est_nodup h
  have e : (rs.map (toPFRes f)).map (·.est) = (rs.map (·.1)).map (fun i => (f.est i).id) := by
    rw [List.map_map, List.map_map]
    apply List.map_congr_left
    intro r _
    exact toPFRes_est f r
  rw [e]
  refine nodup_map_on ?_ hnd
  intro x hx y hy hxy
  obtain ⟨r, hr, rfl⟩ := List.mem_map.1 hx
  obtain ⟨r', hr', rfl⟩ := List.mem_map.1 hy
  exact inj_on_of_nodup_map hid _ (List.mem_range.2 (hlt r hr)) _ (List.mem_range.2 (hlt r' hr')) hxy

/-! ### the two label encodings -/

theorem labelsCoherent_sound {f : Frame} (h : labelsCoherent f = true) {i j : Nat}
    {e g : Matching.Obj} (he : f.scene.ests[i]? = some e) (hg : f.scene.gts[j]? = some g) :
    Matching.isUnknown e.label = ((f.est i).label == AP.unknownLabel) ∧
    Matching.isFp g.label = ((f.gt j).label == AP.fpLabel) ∧
    (e.label == g.label) = ((f.est i).label == (f.gt j).label) := by
  unfold labelsCoherent at h
  rw [List.all_eq_true] at h
  have hi : i < f.scene.ests.length := (List.getElem?_eq_some_iff.1 he).1
  have hj : j < f.scene.gts.length := (List.getElem?_eq_some_iff.1 hg).1
  have h1 := h i (List.mem_range.2 hi)
  simp only [he, Bool.and_eq_true, List.all_eq_true] at h1
  have h2 := h1.2 j (List.mem_range.2 hj)
  simp only [hg, Bool.and_eq_true] at h2
  refine ⟨?_, ?_, ?_⟩
  · simpa using h1.1
  · simpa using h2.1
  · simpa using h2.2

/-- with coherent encodings the label compatibility read by the pass/fail stage (computed on the
matcher's objects) is the one the metrics stage computes from its label numbers -/
theorem labelOk_eq_isMatchable {f : Frame} (h : labelsCoherent f = true) {i j : Nat}
    (hi : i < f.scene.ests.length) (hj : j < f.scene.gts.length) :
    labelOk f i j = AP.isMatchable (apPolicy f.cfg.policy) (f.est i).label (f.gt j).label := by
  obtain ⟨e, he⟩ : ∃ e, f.scene.ests[i]? = some e := ⟨_, List.getElem?_eq_getElem hi⟩
  obtain ⟨g, hg⟩ : ∃ g, f.scene.gts[j]? = some g := ⟨_, List.getElem?_eq_getElem hj⟩
  obtain ⟨hu, hf, hl⟩ := labelsCoherent_sound h he hg
  unfold labelOk
  simp only [he, hg]
  unfold Matching.isMatchable AP.isMatchable
  rw [hf, hl, hu]
  cases f.cfg.policy <;> simp [apPolicy]

/-! ### unfolding `detectFrame` -/

theorem detectFrame_ok {f : Frame} {o : Out} (h : detectFrame f = .ok o) :
    ∃ rs, Matching.getObjectResults f.cfg f.scene = .ok rs ∧ o.matched = rs ∧
      o.pf = PassFail.evaluateFrame (pfFrame f rs) ∧ mapsFor f rs f.maps = .ok o.maps := by
  unfold detectFrame at h
  cases hr : Matching.getObjectResults f.cfg f.scene with
  | error e => simp [hr] at h
  | ok rs =>
    simp only [hr] at h
    cases hm : mapsFor f rs f.maps with
    | error e => simp [hm] at h
    | ok maps =>
      simp only [hm] at h
      cases ht : pfThrError f (critResults f rs) with
      | some e => simp [ht] at h
      | none =>
        simp only [ht, Except.ok.injEq] at h
        subst h
        exact ⟨rs, rfl, rfl, rfl, hm⟩

theorem mapsFor_mem {f : Frame} {rs : List Matching.Res} {cfgs : List MapCfg} {os : List AP.MapOut}
    (h : mapsFor f rs cfgs = .ok os) : ∀ o ∈ os, ∃ mc ∈ cfgs, mapFor f rs mc = .ok o := by
  induction cfgs generalizing os with
  | nil =>
    simp only [mapsFor, Except.ok.injEq] at h
    subst h
    intro o ho; cases ho
  | cons mc rest ih =>
    unfold mapsFor at h
    cases h1 : mapFor f rs mc with
    | error e => simp [h1] at h
    | ok o1 =>
      simp only [h1] at h
      cases h2 : mapsFor f rs rest with
      | error e => simp [h2] at h
      | ok os1 =>
        simp only [h2, Except.ok.injEq] at h
        subst h
        intro o ho
        rcases List.mem_cons.1 ho with rfl | ho
        · exact ⟨mc, List.mem_cons_self, h1⟩
        · obtain ⟨mc', hmc', hm'⟩ := ih h2 o ho
          exact ⟨mc', List.mem_cons_of_mem _ hmc', hm'⟩

end PEval.Pipeline
