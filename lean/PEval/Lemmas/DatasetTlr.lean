import Mathlib.Tactic.Linarith
import Mathlib.Tactic.Ring
import PEval.Lemmas.Dataset
/-!
The averaged traffic-light camera of `_get_transforms` (repair of finding C16-N1): the rotations are
sign-aligned with the first one before they are summed, so the sum keeps a component of at least
`|q₀|²` along the first rotation `q₀` and cannot be the zero quaternion; hence the division by its norm
cannot raise `ZeroDivisionError`, and `sensorFrames` succeeds as soon as every channel converts.
-/
namespace PEval.Dataset
open PEval

/-! ## the 4-D dot product -/

theorem Quat.dot_add (p a b : Quat) : Quat.dot p (Quat.add a b) = Quat.dot p a + Quat.dot p b := by
  simp only [Quat.dot, Quat.add]; ring

theorem Quat.dot_neg (p q : Quat) : Quat.dot p q.neg = -Quat.dot p q := by
  simp only [Quat.dot, Quat.neg]; ring

theorem Quat.dot_zero (p : Quat) : Quat.dot p Quat.zero = 0 := by
  simp [Quat.dot, Quat.zero]

theorem Quat.dot_self (p : Quat) : Quat.dot p p = p.normSq := rfl

theorem Quat.normSq_nonneg (q : Quat) : 0 ≤ q.normSq := by
  unfold Quat.normSq
  nlinarith [mul_self_nonneg q.w, mul_self_nonneg q.x, mul_self_nonneg q.y, mul_self_nonneg q.z]

/-- only the zero quaternion has norm zero -/
theorem Quat.normSq_pos {q : Quat} (h : q ≠ Quat.zero) : 0 < q.normSq := by
  rcases lt_or_eq_of_le (Quat.normSq_nonneg q) with hp | hz
  · exact hp
  · exfalso
    apply h
    unfold Quat.normSq at hz
    have hw : q.w = 0 := by
      have : q.w * q.w = 0 := by
        nlinarith [mul_self_nonneg q.w, mul_self_nonneg q.x, mul_self_nonneg q.y, mul_self_nonneg q.z]
      exact mul_self_eq_zero.1 this
    have hx : q.x = 0 := by
      have : q.x * q.x = 0 := by
        nlinarith [mul_self_nonneg q.w, mul_self_nonneg q.x, mul_self_nonneg q.y, mul_self_nonneg q.z]
      exact mul_self_eq_zero.1 this
    have hy : q.y = 0 := by
      have : q.y * q.y = 0 := by
        nlinarith [mul_self_nonneg q.w, mul_self_nonneg q.x, mul_self_nonneg q.y, mul_self_nonneg q.z]
      exact mul_self_eq_zero.1 this
    have hzz : q.z = 0 := by
      have : q.z * q.z = 0 := by
        nlinarith [mul_self_nonneg q.w, mul_self_nonneg q.x, mul_self_nonneg q.y, mul_self_nonneg q.z]
      exact mul_self_eq_zero.1 this
    obtain ⟨w, x, y, z⟩ := q
    simp only at hw hx hy hzz
    subst hw hx hy hzz
    rfl

/-- a unit quaternion is not the zero quaternion -/
theorem Quat.ne_zero_of_unit {q : Quat} (h : q.normSq = 1) : q ≠ Quat.zero := by
  intro hz
  rw [hz] at h
  simp [Quat.normSq, Quat.zero] at h

/-! ## sign alignment -/

/-- an aligned rotation is the rotation itself or its negation (the same rotation) -/
theorem alignTo_cases (q0 q : Quat) :
    (Quat.dot q0 q < 0 ∧ alignTo q0 q = q.neg) ∨ (0 ≤ Quat.dot q0 q ∧ alignTo q0 q = q) := by
  unfold alignTo
  by_cases h : Quat.dot q0 q < 0
  · exact Or.inl ⟨h, by simp [h]⟩
  · exact Or.inr ⟨not_lt.1 h, by simp [h]⟩

/-- … and lies in the closed half-space of the first rotation -/
theorem alignTo_dot_nonneg (q0 q : Quat) : 0 ≤ Quat.dot q0 (alignTo q0 q) := by
  rcases alignTo_cases q0 q with ⟨h, e⟩ | ⟨h, e⟩
  · rw [e, Quat.dot_neg]; linarith
  · rw [e]; exact h

theorem alignSigns_length (l : List Quat) : (alignSigns l).length = l.length := by
  cases l <;> simp [alignSigns]

theorem alignSigns_eq_nil {l : List Quat} : alignSigns l = [] ↔ l = [] := by
  cases l <;> simp [alignSigns]

/-- summing quaternions of the closed half-space of `q0` does not decrease the component along `q0` -/
theorem dot_foldl_add_ge (q0 : Quat) :
    ∀ (l : List Quat) (acc : Quat), (∀ q ∈ l, 0 ≤ Quat.dot q0 q) →
      Quat.dot q0 acc ≤ Quat.dot q0 (l.foldl Quat.add acc)
  | [], acc, _ => by simp
  | q :: l, acc, h => by
    have h1 := h q List.mem_cons_self
    have h2 := dot_foldl_add_ge q0 l (Quat.add acc q) (fun x hx => h x (List.mem_cons_of_mem _ hx))
    rw [Quat.dot_add] at h2
    simp only [List.foldl_cons]
    linarith

/-- the aligned sum keeps at least `|q0|²` along the first rotation -/
theorem alignSigns_sum_dot (q0 : Quat) (rest : List Quat) :
    q0.normSq ≤ Quat.dot q0 ((alignSigns (q0 :: rest)).foldl Quat.add Quat.zero) := by
  simp only [alignSigns, List.foldl_cons]
  have h := dot_foldl_add_ge q0 (rest.map (alignTo q0)) (Quat.add Quat.zero q0) (by
    intro q hq
    obtain ⟨r, _, rfl⟩ := List.mem_map.1 hq
    exact alignTo_dot_nonneg q0 r)
  rw [Quat.dot_add, Quat.dot_zero, Quat.dot_self] at h
  linarith

/-- … so it is not the zero quaternion unless the first rotation is -/
theorem alignSigns_sum_ne_zero {q0 : Quat} (rest : List Quat) (h : q0 ≠ Quat.zero) :
    (alignSigns (q0 :: rest)).foldl Quat.add Quat.zero ≠ Quat.zero := by
  intro hz
  have h1 := alignSigns_sum_dot q0 rest
  rw [hz, Quat.dot_zero] at h1
  have := Quat.normSq_pos h
  linarith

/-! ## `sensorFrames` cannot fail in the average -/

theorem tlrRawRotations_mem {T : Tables} {frs : List String} {q : Quat} (h : q ∈ tlrRawRotations T frs) :
    ∃ cs ∈ T.calibratedSensors, cs.rotation = q := by
  unfold tlrRawRotations at h
  obtain ⟨p, hp, hq⟩ := List.mem_filterMap.1 h
  split at hq
  · cases hq
    exact ⟨p.1, (List.of_mem_zip hp).1, rfl⟩
  · cases hq

/-- the aligned sum of the traffic-light rotations of a table is not zero when the first of them is not -/
theorem tlrRotations_sum_ne_zero {T : Tables} {frs : List String}
    (h : ∀ q, (tlrRawRotations T frs).head? = some q → q ≠ Quat.zero) (hne : tlrRotations T frs ≠ []) :
    (tlrRotations T frs).foldl Quat.add Quat.zero ≠ Quat.zero := by
  unfold tlrRotations at hne ⊢
  cases hl : tlrRawRotations T frs with
  | nil => simp [hl, alignSigns] at hne
  | cons q0 rest => exact alignSigns_sum_ne_zero rest (h q0 (by simp [hl]))

/-- the `mapE` of `sensorFrames` decides alone whether it succeeds -/
theorem sensorFrames_of_channels {T : Tables} {frs : List String}
    (hm : mapE (fun cs =>
      match lookup Sensor.token T.sensors cs.sensorToken with
      | .error e => .error e
      | .ok s => Enums.frameFromValue s.channel) T.calibratedSensors = .ok frs)
    (h : ∀ q, (tlrRawRotations T frs).head? = some q → q ≠ Quat.zero) :
    sensorFrames T = .ok frs := by
  unfold sensorFrames
  split
  · rename_i e heq
    have := hm.symm.trans heq
    cases this
  · rename_i frames heq
    have := hm.symm.trans heq
    cases this
    by_cases he : tlrRotations T frs = []
    · simp [he]
    · have := tlrRotations_sum_ne_zero h he
      simp [this]

/-- `sensorFrames` fails only where the channel loop fails, with that error: never in the average -/
theorem sensorFrames_error {T : Tables} {e : Err} (he : sensorFrames T = .error e)
    (h : ∀ cs ∈ T.calibratedSensors, cs.rotation ≠ Quat.zero) :
    mapE (fun cs =>
      match lookup Sensor.token T.sensors cs.sensorToken with
      | .error e => .error e
      | .ok s => Enums.frameFromValue s.channel) T.calibratedSensors = .error e := by
  cases hm : mapE (fun cs =>
      match lookup Sensor.token T.sensors cs.sensorToken with
      | .error e => .error e
      | .ok s => Enums.frameFromValue s.channel) T.calibratedSensors with
  | error e' =>
    unfold sensorFrames at he
    split at he
    · rename_i e'' heq
      have := hm.symm.trans heq
      cases this
      cases he
      rfl
    · rename_i frames heq
      have := hm.symm.trans heq
      cases this
  | ok frs =>
    have := sensorFrames_of_channels hm (fun q hq => by
      obtain ⟨cs, hcs, rfl⟩ := tlrRawRotations_mem (List.mem_of_mem_head? hq)
      exact h cs hcs)
    rw [this] at he
    cases he

theorem mapE_error {α β} {f : α → Except Err β} :
    ∀ {l : List α} {e : Err}, mapE f l = .error e → ∃ a ∈ l, f a = .error e
  | [], e, h => by simp [mapE] at h
  | a :: l, e, h => by
    simp only [mapE] at h
    cases hfa : f a with
    | error e' =>
      simp only [hfa] at h
      cases h
      exact ⟨a, List.mem_cons_self, hfa⟩
    | ok b =>
      simp only [hfa] at h
      cases hl : mapE f l with
      | error e' =>
        simp only [hl] at h
        cases h
        obtain ⟨x, hx, hfx⟩ := mapE_error hl
        exact ⟨x, List.mem_cons_of_mem _ hx, hfx⟩
      | ok bs => simp [hl] at h

/-- the only ways `_get_transforms` can fail on a table without zero rotations: a calibrated sensor whose
sensor token does not resolve (`KeyError`) or whose channel is no `FrameID` value (`ValueError`) -/
theorem sensorFrames_error_kind {T : Tables} {e : Err} (he : sensorFrames T = .error e)
    (h : ∀ cs ∈ T.calibratedSensors, cs.rotation ≠ Quat.zero) : e = "KeyError" ∨ e = "ValueError" := by
  obtain ⟨cs, _, hcs⟩ := mapE_error (sensorFrames_error he h)
  cases hl : lookup Sensor.token T.sensors cs.sensorToken with
  | error e' =>
    simp only [hl] at hcs
    cases hcs
    exact Or.inl (lookup_error hl)
  | ok sen =>
    simp only [hl] at hcs
    unfold Enums.frameFromValue at hcs
    split at hcs
    · cases hcs
    · cases hcs; exact Or.inr rfl

end PEval.Dataset
