import PEval.Lemmas.SensingEdge
import PEval.Lemmas.SensingBox
/-!
Assembly: the winding counter on a parallelogram / a box for EVERY point (edge lines included), in geometric
terms (`wn_para_closed`, `keepInside_box_closed`), and the consequences: scale monotonicity without the
"off the edge lines" restriction, the axis-aligned case.
-/
namespace PEval.Sensing

/-- sign of the `u`-component of the step "+x, then +y": negative = the step decreases `u` -/
def stepU (ax ay bx by_ : ℚ) : ℚ := if by_ ≠ 0 then by_ * (ax * by_ - ay * bx) else -bx * (ax * by_ - ay * bx)
/-- sign of the `v`-component of the step "+x, then +y" -/
def stepV (ax ay bx by_ : ℚ) : ℚ := if ay ≠ 0 then -ay * (ax * by_ - ay * bx) else ax * (ax * by_ - ay * bx)

/-- half-open membership of one parallelogram coordinate: strictly inside, or on the line `+1` when the step moves
inwards (decreases the coordinate), or on the line `−1` when the step increases it -/
@[reducible] def inHalf (u s : ℚ) : Prop := (-1 < u ∧ u < 1) ∨ (u = 1 ∧ s < 0) ∨ (u = -1 ∧ 0 < s)

theorem stepU_ccw {ax ay bx by_ : ℚ} (hD : 0 < ax * by_ - ay * bx) :
    (stepU ax ay bx by_ < 0 ↔ (by_ < 0 ∨ (by_ = 0 ∧ ay < 0))) ∧
    (0 < stepU ax ay bx by_ ↔ (0 < by_ ∨ (by_ = 0 ∧ 0 < ay))) := by
  unfold stepU
  by_cases hb : by_ = 0
  · subst hb
    simp only [ne_eq, not_true_eq_false, if_false, lt_irrefl, true_and, false_or]
    have hD' : 0 < -(ay * bx) := by linarith
    rw [mul_neg_iff_right hD, mul_pos_iff_right hD]
    constructor
    · constructor
      · intro h; by_contra hn; have hn := not_lt.mp hn
        have : 0 ≤ ay * bx := mul_nonneg hn (by linarith)
        linarith
      · intro h; by_contra hn; have hn := not_lt.mp hn
        have : 0 ≤ (-ay) * (-bx) := mul_nonneg (by linarith) (by linarith)
        linarith
    · constructor
      · intro h; by_contra hn; have hn := not_lt.mp hn
        have : 0 ≤ (-ay) * (-bx) := mul_nonneg (by linarith) (by linarith)
        linarith
      · intro h; by_contra hn; have hn := not_lt.mp hn
        have : 0 ≤ ay * bx := mul_nonneg h.le (by linarith)
        linarith
  · simp only [ne_eq, hb, not_false_eq_true, if_true, false_and, or_false]
    rw [mul_neg_iff_right hD, mul_pos_iff_right hD]
    exact ⟨Iff.rfl, Iff.rfl⟩

theorem stepV_ccw {ax ay bx by_ : ℚ} (hD : 0 < ax * by_ - ay * bx) :
    (stepV ax ay bx by_ < 0 ↔ (0 < ay ∨ (ay = 0 ∧ by_ < 0))) ∧
    (0 < stepV ax ay bx by_ ↔ (ay < 0 ∨ (ay = 0 ∧ 0 < by_))) := by
  unfold stepV
  by_cases ha : ay = 0
  · subst ha
    simp only [ne_eq, not_true_eq_false, if_false, lt_irrefl, true_and, false_or]
    have hD' : 0 < ax * by_ := by linarith
    rw [mul_neg_iff_right hD, mul_pos_iff_right hD]
    constructor
    · constructor
      · intro h; by_contra hn; have hn := not_lt.mp hn
        have : 0 ≤ (-ax) * by_ := mul_nonneg (by linarith) hn
        linarith
      · intro h; by_contra hn; have hn := not_lt.mp hn
        have : 0 ≤ ax * (-by_) := mul_nonneg hn (by linarith)
        linarith
    · constructor
      · intro h; by_contra hn; have hn := not_lt.mp hn
        have : 0 ≤ ax * (-by_) := mul_nonneg h.le (by linarith)
        linarith
      · intro h; by_contra hn; have hn := not_lt.mp hn
        have : 0 ≤ (-ax) * by_ := mul_nonneg (by linarith) h.le
        linarith
  · simp only [ne_eq, ha, not_false_eq_true, if_true, false_and, or_false]
    rw [mul_neg_iff_right hD, mul_pos_iff_right hD]
    constructor <;> constructor <;> intro h <;> linarith

theorem mul_neg_iff_right_neg {x a : ℚ} (ha : a < 0) : x * a < 0 ↔ 0 < x := by
  have := mul_pos_iff_right (x := x) (a := -a) (by linarith)
  constructor
  · intro h; apply this.mp; linarith [mul_neg x a]
  · intro h; have := this.mpr h; linarith [mul_neg x a]

theorem mul_pos_iff_right_neg {x a : ℚ} (ha : a < 0) : 0 < x * a ↔ x < 0 := by
  have := mul_neg_iff_right (x := x) (a := -a) (by linarith)
  constructor
  · intro h; apply this.mp; linarith [mul_neg x a]
  · intro h; have := this.mpr h; linarith [mul_neg x a]

theorem stepU_cw {ax ay bx by_ : ℚ} (hD : ax * by_ - ay * bx < 0) :
    (stepU ax ay bx by_ < 0 ↔ (0 < by_ ∨ (by_ = 0 ∧ ay < 0))) ∧
    (0 < stepU ax ay bx by_ ↔ (by_ < 0 ∨ (by_ = 0 ∧ 0 < ay))) := by
  unfold stepU
  by_cases hb : by_ = 0
  · subst hb
    simp only [ne_eq, not_true_eq_false, if_false, lt_irrefl, true_and, false_or]
    have hD' : 0 < ay * bx := by linarith
    rw [mul_neg_iff_right_neg hD, mul_pos_iff_right_neg hD]
    constructor
    · constructor
      · intro h; by_contra hn; have hn := not_lt.mp hn
        have : 0 ≤ ay * (-bx) := mul_nonneg hn (by linarith)
        linarith
      · intro h; by_contra hn; have hn := not_lt.mp hn
        have : 0 ≤ (-ay) * bx := mul_nonneg (by linarith) (by linarith)
        linarith
    · constructor
      · intro h; by_contra hn; have hn := not_lt.mp hn
        have : 0 ≤ (-ay) * bx := mul_nonneg (by linarith) (by linarith)
        linarith
      · intro h; by_contra hn; have hn := not_lt.mp hn
        have : 0 ≤ ay * (-bx) := mul_nonneg h.le (by linarith)
        linarith
  · simp only [ne_eq, hb, not_false_eq_true, if_true, false_and, or_false]
    rw [mul_neg_iff_right_neg hD, mul_pos_iff_right_neg hD]
    exact ⟨Iff.rfl, Iff.rfl⟩

theorem stepV_cw {ax ay bx by_ : ℚ} (hD : ax * by_ - ay * bx < 0) :
    (stepV ax ay bx by_ < 0 ↔ (ay < 0 ∨ (ay = 0 ∧ by_ < 0))) ∧
    (0 < stepV ax ay bx by_ ↔ (0 < ay ∨ (ay = 0 ∧ 0 < by_))) := by
  unfold stepV
  by_cases ha : ay = 0
  · subst ha
    simp only [ne_eq, not_true_eq_false, if_false, lt_irrefl, true_and, false_or]
    have hD' : ax * by_ < 0 := by linarith
    rw [mul_neg_iff_right_neg hD, mul_pos_iff_right_neg hD]
    constructor
    · constructor
      · intro h; by_contra hn; have hn := not_lt.mp hn
        have : 0 ≤ ax * by_ := mul_nonneg h.le hn
        linarith
      · intro h; by_contra hn; have hn := not_lt.mp hn
        have : 0 ≤ (-ax) * (-by_) := mul_nonneg (by linarith) (by linarith)
        linarith
    · constructor
      · intro h; by_contra hn; have hn := not_lt.mp hn
        have : 0 ≤ (-ax) * (-by_) := mul_nonneg (by linarith) (by linarith)
        linarith
      · intro h; by_contra hn; have hn := not_lt.mp hn
        have : 0 ≤ ax * by_ := mul_nonneg hn h.le
        linarith
  · simp only [ne_eq, ha, not_false_eq_true, if_true, false_and, or_false]
    rw [mul_neg_iff_right_neg hD, mul_pos_iff_right_neg hD]
    constructor <;> constructor <;> intro h <;> linarith

/-- **value of the winding counter on a parallelogram, EVERY point.**  `p = c + u·a + v·b`, `det(a,b) ≠ 0`: the
counter is `1` (counter-clockwise) or `255` (clockwise) when `u` and `v` are both half-open inside, else `0`. -/
theorem wn_para_closed (cx cy ax ay bx by_ zu zl u v : ℚ) (p : Pt)
    (hD : ax * by_ - ay * bx ≠ 0)
    (hx : p.x = cx + u * ax + v * bx) (hy : p.y = cy + u * ay + v * by_) :
    wn (paraArea cx cy ax ay bx by_ zu zl) p
      = if inHalf u (stepU ax ay bx by_) ∧ inHalf v (stepV ax ay bx by_) then
          (if 0 < ax * by_ - ay * bx then 1 else 255) else 0 := by
  rw [wn_eq_sum]
  have hlen : (paraArea cx cy ax ay bx by_ zu zl).length / 2 = 4 := by simp [paraArea]
  rw [hlen]
  have hr : List.range 4 = [0, 1, 2, 3] := rfl
  rw [hr]
  simp only [List.map_cons, List.map_nil, List.sum_cons, List.sum_nil, add_zero]
  have c0 : cornerAt (paraArea cx cy ax ay bx by_ zu zl) 0 = ⟨cx + ax + bx, cy + ay + by_, zu⟩ := rfl
  have c1 : cornerAt (paraArea cx cy ax ay bx by_ zu zl) 1 = ⟨cx - ax + bx, cy - ay + by_, zu⟩ := rfl
  have c2 : cornerAt (paraArea cx cy ax ay bx by_ zu zl) 2 = ⟨cx - ax - bx, cy - ay - by_, zu⟩ := rfl
  have c3 : cornerAt (paraArea cx cy ax ay bx by_ zu zl) 3 = ⟨cx + ax - bx, cy + ay - by_, zu⟩ := rfl
  have c4 : cornerAt (paraArea cx cy ax ay bx by_ zu zl) 4 = ⟨cx + ax + bx, cy + ay + by_, zl⟩ := rfl
  have m1 : (0 + 1) % 4 = 1 := rfl
  have m2 : (1 + 1) % 4 = 2 := rfl
  have m3 : (2 + 1) % 4 = 3 := rfl
  have m4 : (3 + 1) % 4 = 0 := rfl
  have a1 : 0 + 1 = 1 := rfl
  have a2 : 1 + 1 = 2 := rfl
  have a3 : 2 + 1 = 3 := rfl
  have a4 : 3 + 1 = 4 := rfl
  rw [m1, m2, m3, m4, a1, a2, a3, a4, c0, c1, c2, c3, c4]
  rw [edgeK_eq_kE3 _ _ _ p rfl, edgeK_eq_kE3 _ _ _ p rfl, edgeK_eq_kE3 _ _ _ p rfl,
    edgeK_eq_kE3 ⟨cx + ax - bx, cy + ay - by_, zu⟩ ⟨cx + ax + bx, cy + ay + by_, zu⟩ ⟨cx + ax + bx, cy + ay + by_, zl⟩ p rfl]
  simp only []
  have e0 : p.y - (cy + ay + by_) = (u - 1) * ay + (v - 1) * by_ := by rw [hy]; ring
  have e1 : p.y - (cy - ay + by_) = (u - 1) * ay + (v - 1) * by_ + 2 * ay := by rw [hy]; ring
  have e2 : p.y - (cy - ay - by_) = (u - 1) * ay + (v - 1) * by_ + 2 * ay + 2 * by_ := by rw [hy]; ring
  have e3 : p.y - (cy + ay - by_) = (u - 1) * ay + (v - 1) * by_ + 2 * by_ := by rw [hy]; ring
  have k0 : (cx - ax + bx - (cx + ax + bx)) * (p.y - (cy + ay + by_))
      - (cy - ay + by_ - (cy + ay + by_)) * (p.x - (cx + ax + bx)) = (1 - v) * (2 * (ax * by_ - ay * bx)) := by
    rw [hx, hy]; ring
  have k1 : (cx - ax - bx - (cx - ax + bx)) * (p.y - (cy - ay + by_))
      - (cy - ay - by_ - (cy - ay + by_)) * (p.x - (cx - ax + bx)) = (u + 1) * (2 * (ax * by_ - ay * bx)) := by
    rw [hx, hy]; ring
  have k2 : (cx + ax - bx - (cx - ax - bx)) * (p.y - (cy - ay - by_))
      - (cy + ay - by_ - (cy - ay - by_)) * (p.x - (cx - ax - bx)) = (v + 1) * (2 * (ax * by_ - ay * bx)) := by
    rw [hx, hy]; ring
  have k3 : (cx + ax + bx - (cx + ax - bx)) * (p.y - (cy + ay - by_))
      - (cy + ay + by_ - (cy + ay - by_)) * (p.x - (cx + ax - bx)) = (1 - u) * (2 * (ax * by_ - ay * bx)) := by
    rw [hx, hy]; ring
  rw [k0, k1, k2, k3, e0, e1, e2, e3]
  have hab : ay ≠ 0 ∨ by_ ≠ 0 := by
    by_contra h
    have h' := not_or.mp h
    have ha : ay = 0 := not_not.mp h'.1
    have hb : by_ = 0 := not_not.mp h'.2
    apply hD; rw [ha, hb]; ring
  have la := link5_of ay u
  have lb := link5_of by_ v
  rcases lt_or_gt_of_ne hD with hneg | hpos
  · have hE : 2 * (ax * by_ - ay * bx) < 0 := by linarith
    have hn : ¬ (0 < ax * by_ - ay * bx) := not_lt.mpr hneg.le
    have hc : CrossCw u v ((1 - v) * (2 * (ax * by_ - ay * bx))) ((u + 1) * (2 * (ax * by_ - ay * bx)))
        ((v + 1) * (2 * (ax * by_ - ay * bx))) ((1 - u) * (2 * (ax * by_ - ay * bx))) := by
      refine ⟨⟨?_, ?_⟩, ⟨?_, ?_⟩, ⟨?_, ?_⟩, ⟨?_, ?_⟩⟩ <;>
        first
          | (rw [mul_pos_iff_right_neg hE]; constructor <;> intro h <;> linarith)
          | (rw [mul_neg_iff_right_neg hE]; constructor <;> intro h <;> linarith)
    have key := core5_cw ay by_ ((u - 1) * ay) ((v - 1) * by_) u v _ _ _ _ hab la lb hc
    rw [add_assoc, add_assoc] at key
    rw [key]
    obtain ⟨su1, su2⟩ := stepU_cw hneg
    obtain ⟨sv1, sv2⟩ := stepV_cw hneg
    have eqU : uInCw ay by_ u ↔ inHalf u (stepU ax ay bx by_) := by
      unfold uInCw inHalf; rw [su1, su2]
    have eqV : vInCw ay by_ v ↔ inHalf v (stepV ax ay bx by_) := by
      unfold vInCw inHalf; rw [sv1, sv2]
    simp only [hn, if_false]
    by_cases hin : uInCw ay by_ u ∧ vInCw ay by_ v
    · rw [if_pos hin, if_pos ⟨eqU.1 hin.1, eqV.1 hin.2⟩]; rfl
    · rw [if_neg hin, if_neg (fun h => hin ⟨eqU.2 h.1, eqV.2 h.2⟩)]; rfl
  · have hE : 0 < 2 * (ax * by_ - ay * bx) := by linarith
    have hpos' : 0 < ax * by_ - ay * bx := hpos
    have hc : CrossCcw u v ((1 - v) * (2 * (ax * by_ - ay * bx))) ((u + 1) * (2 * (ax * by_ - ay * bx)))
        ((v + 1) * (2 * (ax * by_ - ay * bx))) ((1 - u) * (2 * (ax * by_ - ay * bx))) := by
      refine ⟨⟨?_, ?_⟩, ⟨?_, ?_⟩, ⟨?_, ?_⟩, ⟨?_, ?_⟩⟩ <;>
        first
          | (rw [mul_pos_iff_right hE]; constructor <;> intro h <;> linarith)
          | (rw [mul_neg_iff_right hE]; constructor <;> intro h <;> linarith)
    have key := core5_ccw ay by_ ((u - 1) * ay) ((v - 1) * by_) u v _ _ _ _ hab la lb hc
    rw [add_assoc, add_assoc] at key
    rw [key]
    obtain ⟨su1, su2⟩ := stepU_ccw hpos'
    obtain ⟨sv1, sv2⟩ := stepV_ccw hpos'
    have eqU : uInCcw ay by_ u ↔ inHalf u (stepU ax ay bx by_) := by
      unfold uInCcw inHalf; rw [su1, su2]
    have eqV : vInCcw ay by_ v ↔ inHalf v (stepV ax ay bx by_) := by
      unfold vInCcw inHalf; rw [sv1, sv2]
    simp only [hpos', if_true]
    by_cases hin : uInCcw ay by_ u ∧ vInCcw ay by_ v
    · rw [if_pos hin, if_pos ⟨eqU.1 hin.1, eqV.1 hin.2⟩]; rfl
    · rw [if_neg hin, if_neg (fun h => hin ⟨eqU.2 h.1, eqV.2 h.2⟩)]; rfl

/-! ### boxes -/

/-- half-open membership of a box-frame coordinate `ξ` in `[-L, L]`: strictly inside, or on `+L` when the step
"+x, then +y" decreases the coordinate (`s < 0`), or on `−L` when it increases it -/
@[reducible] def inLen (ξ L s : ℚ) : Prop := (-L < ξ ∧ ξ < L) ∨ (ξ = L ∧ s < 0) ∨ (ξ = -L ∧ 0 < s)

theorem stepU_scale (L W e1x e1y e2x e2y : ℚ) (hW : 0 < W) :
    stepU (L * e1x) (L * e1y) (W * e2x) (W * e2y) = (W * (L * W)) * stepU e1x e1y e2x e2y := by
  unfold stepU
  by_cases h : e2y = 0
  · subst h; simp only [mul_zero, ne_eq, not_true_eq_false, if_false]; ring
  · have h' : W * e2y ≠ 0 := mul_ne_zero hW.ne' h
    simp only [ne_eq, h, h', not_false_eq_true, if_true]; ring

theorem stepV_scale (L W e1x e1y e2x e2y : ℚ) (hL : 0 < L) :
    stepV (L * e1x) (L * e1y) (W * e2x) (W * e2y) = (L * (L * W)) * stepV e1x e1y e2x e2y := by
  unfold stepV
  by_cases h : e1y = 0
  · subst h; simp only [mul_zero, ne_eq, not_true_eq_false, if_false]; ring
  · have h' : L * e1y ≠ 0 := mul_ne_zero hL.ne' h
    simp only [ne_eq, h, h', not_false_eq_true, if_true]; ring

theorem inHalf_div (ξ L s c : ℚ) (hL : 0 < L) (hc : 0 < c) : inHalf (ξ / L) (c * s) ↔ inLen ξ L s := by
  unfold inHalf inLen
  have d1 : ξ / L < 1 ↔ ξ < L := by rw [div_lt_one hL]
  have d2 : -1 < ξ / L ↔ -L < ξ := by rw [lt_div_iff₀ hL, neg_one_mul]
  have d3 : ξ / L = 1 ↔ ξ = L := div_eq_one_iff_eq hL.ne'
  have d4 : ξ / L = -1 ↔ ξ = -L := by rw [div_eq_iff hL.ne', neg_one_mul]
  have s1 : c * s < 0 ↔ s < 0 := by rw [mul_comm]; exact mul_neg_iff_right hc
  have s2 : 0 < c * s ↔ 0 < s := by rw [mul_comm]; exact mul_pos_iff_right hc
  rw [d1, d2, d3, d4, s1, s2]

/-- **winding counter of a box, EVERY point**: `p.xy = c + ξ·e1 + η·e2`, scale `k > 0`, `l, w > 0`, `det(e1,e2) ≠ 0` -/
theorem wn_box_closed (b : Box) (k ξ η : ℚ) (p : Pt)
    (hk : 0 < k) (hl : 0 < b.l) (hw : 0 < b.w) (hdet : b.e1x * b.e2y - b.e1y * b.e2x ≠ 0)
    (hx : p.x = b.cx + ξ * b.e1x + η * b.e2x) (hy : p.y = b.cy + ξ * b.e1y + η * b.e2y) :
    0 < wn (boxCorners b k) p ↔
      inLen ξ (b.l / 2 * k) (stepU b.e1x b.e1y b.e2x b.e2y) ∧ inLen η (b.w / 2 * k) (stepV b.e1x b.e1y b.e2x b.e2y) := by
  have hL : 0 < b.l / 2 * k := by positivity
  have hW : 0 < b.w / 2 * k := by positivity
  have hu : ξ = ξ / (b.l / 2 * k) * (b.l / 2 * k) := by field_simp
  have hv : η = η / (b.w / 2 * k) * (b.w / 2 * k) := by field_simp
  have key := wn_para_closed b.cx b.cy (b.l / 2 * k * b.e1x) (b.l / 2 * k * b.e1y)
      (b.w / 2 * k * b.e2x) (b.w / 2 * k * b.e2y) (b.cz + b.h / 2) (b.cz - b.h / 2)
      (ξ / (b.l / 2 * k)) (η / (b.w / 2 * k)) p
      (by rw [box_det]; exact mul_ne_zero (mul_ne_zero hL.ne' hW.ne') hdet)
      (by rw [hx]; nth_rewrite 1 [hu]; nth_rewrite 1 [hv]; ring)
      (by rw [hy]; nth_rewrite 1 [hu]; nth_rewrite 1 [hv]; ring)
  have h1 : 0 < wn (boxCorners b k) p ↔
      (inHalf (ξ / (b.l / 2 * k))
          (stepU (b.l / 2 * k * b.e1x) (b.l / 2 * k * b.e1y) (b.w / 2 * k * b.e2x) (b.w / 2 * k * b.e2y)) ∧
        inHalf (η / (b.w / 2 * k))
          (stepV (b.l / 2 * k * b.e1x) (b.l / 2 * k * b.e1y) (b.w / 2 * k * b.e2x) (b.w / 2 * k * b.e2y))) := by
    rw [boxCorners_eq_para, key]
    constructor
    · intro h
      by_contra hn
      rw [if_neg hn] at h
      exact absurd h (by decide)
    · intro h
      rw [if_pos h]
      split <;> decide
  rw [h1, stepU_scale _ _ _ _ _ _ hW, stepV_scale _ _ _ _ _ _ hL,
    inHalf_div _ _ _ _ hL (by positivity), inHalf_div _ _ _ _ hW (by positivity)]

/-- the inside mask of a box for EVERY point (no "off the edge lines" restriction) -/
theorem keepInside_box_closed (cols : Nat) (b : Box) (k ξ η : ℚ) (p : Pt)
    (hk : 0 < k) (hl : 0 < b.l) (hw : 0 < b.w) (hh : 0 ≤ b.h) (hdet : b.e1x * b.e2y - b.e1y * b.e2x ≠ 0)
    (hx : p.x = b.cx + ξ * b.e1x + η * b.e2x) (hy : p.y = b.cy + ξ * b.e1y + η * b.e2y) :
    keepInside cols (boxCorners b k) p = true ↔
      inLen ξ (b.l / 2 * k) (stepU b.e1x b.e1y b.e2x b.e2y) ∧ inLen η (b.w / 2 * k) (stepV b.e1x b.e1y b.e2x b.e2y) ∧
        (cols < 3 ∨ (b.cz - b.h / 2 ≤ p.z ∧ p.z ≤ b.cz + b.h / 2)) := by
  have hwn := wn_box_closed b k ξ η p hk hl hw hdet hx hy
  unfold keepInside
  rw [zMin_box b k hh, zMax_box b k hh]
  by_cases hc : cols < 3
  · simp only [hc, if_true, decide_eq_true_eq, true_or, and_true]
    rw [hwn]
  · simp only [hc, if_false, Bool.and_eq_true, decide_eq_true_eq, false_or]
    rw [hwn, and_assoc]

/-- a half-open member of `[-L, L]` is a strict member of every larger interval, and stays a member of the same -/
theorem inLen_mono {ξ L L' s : ℚ} (hL : 0 < L) (hLL : L ≤ L') (h : inLen ξ L s) : inLen ξ L' s := by
  rcases lt_or_eq_of_le hLL with hlt | heq
  · left
    rcases h with ⟨h1, h2⟩ | ⟨h1, _⟩ | ⟨h1, _⟩
    · exact ⟨by linarith, by linarith⟩
    · rw [h1]; exact ⟨by linarith, hlt⟩
    · rw [h1]; exact ⟨by linarith, by linarith⟩
  · rw [← heq]; exact h

end PEval.Sensing
