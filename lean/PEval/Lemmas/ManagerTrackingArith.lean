import PEval.Lemmas.ManagerTrackingScene
import PEval.Lemmas.ClearSum
/-!
Helper lemmas for the tracking extension of C13, part 3 (rational arithmetic; single Mathlib modules
through `ClearSum`): the scene MOTA against the per-frame MOTAs.
-/

namespace PEval.ManagerTracking
open PEval.Manager PEval PEval.Clear

/-- `_sum_clear`'s weighting of one MOTA: `mota * num_ground_truth`, nothing when it is `inf` -/
def motaWeighted (o : Clear.Out) : Rat :=
  match o.mota with
  | some m => m * (o.g : Rat)
  | none => 0

/-- the unclamped MOTA numerator of a sum of accumulators is the sum of the numerators -/
theorem num_accSum (outs : List Clear.Out) :
    (accSum (outs.map (·.acc))).tp - ((accSum (outs.map (·.acc))).fp : Rat) - ((accSum (outs.map (·.acc))).sw : Rat)
      = ratSum (outs.map Out.num) := by
  induction outs with
  | nil => simp [ratSum]
  | cons o os ih =>
    simp only [List.map_cons, accSum_cons, Acc.add_tp, Acc.add_fp, Acc.add_sw, ratSum, Out.num]
    rw [← ih]
    push_cast
    ring

/-- a frame whose MOTA is neither undefined nor clamped contributes exactly its numerator -/
theorem motaWeighted_eq_num (o : Clear.Out) (hm : o.mota = mota o.g o.acc) (hg : o.g ≠ 0) (hn : 0 ≤ o.num) :
    motaWeighted o = o.num := by
  have hgne : (o.g : Rat) ≠ 0 := by exact_mod_cast hg
  have hgpos : (0 : Rat) < (o.g : Rat) := by exact_mod_cast Nat.pos_of_ne_zero hg
  have : o.mota = some (o.num / (o.g : Rat)) := by
    rw [hm]; unfold mota
    simp only [hg, if_false, Option.some.injEq]
    exact max_eq_right (div_nonneg hn (le_of_lt hgpos))
  unfold motaWeighted
  rw [this]
  simp only
  rw [div_mul_cancel₀ _ hgne]

/-- MOTA of the summed counts = ground-truth-weighted mean of the per-frame MOTAs, when no frame is
without ground truth and no frame's MOTA is clamped -/
theorem mota_weighted_mean (frames : List Clear.Out) (hne : frames ≠ [])
    (hm : ∀ o ∈ frames, o.mota = mota o.g o.acc) (hg : ∀ o ∈ frames, o.g ≠ 0) (hn : ∀ o ∈ frames, 0 ≤ o.num) :
    mota (frames.map (·.g)).sum (accSum (frames.map (·.acc)))
      = some (ratSum (frames.map motaWeighted) / (((frames.map (·.g)).sum : Nat) : Rat)) := by
  have hG := natSum_pos frames hne hg
  have hGpos : (0 : Rat) < (((frames.map (·.g)).sum : Nat) : Rat) := by exact_mod_cast Nat.pos_of_ne_zero hG
  have hw : frames.map motaWeighted = frames.map Out.num := by
    apply List.map_congr_left
    intro o ho
    exact motaWeighted_eq_num o (hm o ho) (hg o ho) (hn o ho)
  have hnum : 0 ≤ ratSum (frames.map Out.num) := by
    apply ratSum_nonneg
    intro x hx
    obtain ⟨o, ho, rfl⟩ := List.mem_map.mp hx
    exact hn o ho
  unfold mota
  simp only [hG, if_false, Option.some.injEq]
  rw [num_accSum, hw]
  exact max_eq_right (div_nonneg hnum (le_of_lt hGpos))

end PEval.ManagerTracking
