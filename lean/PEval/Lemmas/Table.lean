import PEval.Model.Enums
/-! General facts about first-match lookup in `(name, value)` tables (no Mathlib needed). -/
namespace PEval.Enums

theorem firstByValue_none {t : Table} {s : String} (h : s ∉ values t) : firstByValue t s = none := by
  unfold firstByValue
  have : t.find? (fun p => p.2 == s) = none := by
    rw [List.find?_eq_none]
    intro p hp hps
    apply h
    simp only [values, List.mem_map]
    exact ⟨p, hp, by simpa using hps⟩
  simp [this]

theorem firstByValue_mem {t : Table} {p : String × String} (hnd : (values t).Nodup) (hp : p ∈ t) :
    firstByValue t p.2 = some p.1 := by
  induction t with
  | nil => cases hp
  | cons a t ih =>
    simp only [values, List.map_cons, List.nodup_cons] at hnd
    unfold firstByValue
    simp only [List.find?_cons]
    by_cases h : a.2 = p.2
    · simp only [h, beq_self_eq_true, Option.map_some]
      rcases List.mem_cons.1 hp with rfl | hp'
      · rfl
      · exfalso
        apply hnd.1
        rw [h]
        exact List.mem_map.2 ⟨p, hp', rfl⟩
    · have hne : (a.2 == p.2) = false := by simpa using h
      simp only [hne]
      rcases List.mem_cons.1 hp with rfl | hp'
      · exact absurd rfl h
      · exact ih hnd.2 hp'

theorem firstByValue_some_mem {t : Table} {s m : String} (h : firstByValue t s = some m) :
    (m, s) ∈ t := by
  unfold firstByValue at h
  cases hf : t.find? (fun p => p.2 == s) with
  | none => simp [hf] at h
  | some p =>
    simp [hf] at h
    have hm := List.mem_of_find?_eq_some hf
    have hs := List.find?_some hf
    simp at hs
    subst h; subst hs
    exact hm

end PEval.Enums
