import PEval.Model.AP
import Mathlib.Tactic.Linarith
import Mathlib.Algebra.Order.Ring.Rat
/-!
Lemmas about the AP model, part 2: `sortDesc` (the model of `list.sort(key=…, reverse=True)`) returns a
permutation, sorted by descending key, in which elements of equal key keep their input order; and a
counting lemma for duplicate-free sublists.
-/

namespace PEval.AP

variable {α : Type} (key : α → Rat)

theorem insertDesc_perm (x : α) (l : List α) : (insertDesc key x l).Perm (x :: l) := by
  induction l with
  | nil => exact List.Perm.refl _
  | cons y ys ih =>
    unfold insertDesc
    split
    · exact (List.Perm.cons y ih).trans (List.Perm.swap x y ys)
    · exact List.Perm.refl _

theorem sortDesc_perm (l : List α) : (sortDesc key l).Perm l := by
  induction l with
  | nil => exact List.Perm.refl _
  | cons x xs ih => exact (insertDesc_perm key x _).trans (List.Perm.cons x ih)

theorem insertDesc_sorted (x : α) {l : List α} (h : l.Pairwise (fun a b => key b ≤ key a)) :
    (insertDesc key x l).Pairwise (fun a b => key b ≤ key a) := by
  induction l with
  | nil => simp [insertDesc]
  | cons y ys ih =>
    rw [List.pairwise_cons] at h
    unfold insertDesc
    split
    · next hlt =>
      rw [List.pairwise_cons]
      refine ⟨?_, ih h.2⟩
      intro z hz
      rcases List.mem_cons.1 ((insertDesc_perm key x ys).mem_iff.1 hz) with rfl | hz'
      · exact le_of_lt hlt
      · exact h.1 z hz'
    · next hge =>
      have hyx : key y ≤ key x := not_lt.1 hge
      rw [List.pairwise_cons]
      refine ⟨?_, List.pairwise_cons.2 h⟩
      intro z hz
      rcases List.mem_cons.1 hz with rfl | hz'
      · exact hyx
      · exact le_trans (h.1 z hz') hyx

theorem sortDesc_sorted (l : List α) : (sortDesc key l).Pairwise (fun a b => key b ≤ key a) := by
  induction l with
  | nil => exact List.Pairwise.nil
  | cons x xs ih => exact insertDesc_sorted key x ih

/-- an inserted element passes only elements of strictly larger key: the sub-list of any fixed key
value is unchanged -/
theorem insertDesc_filter (x : α) (l : List α) (k : Rat) :
    (insertDesc key x l).filter (fun a => decide (key a = k))
      = (x :: l).filter (fun a => decide (key a = k)) := by
  induction l with
  | nil => rfl
  | cons y ys ih =>
    unfold insertDesc
    split
    · next hlt =>
      by_cases hy : key y = k
      · have hx : key x ≠ k := by intro hx; rw [hx, hy] at hlt; exact lt_irrefl _ hlt
        simp only [List.filter_cons, hy, hx, decide_true, decide_false, if_true] at ih ⊢
        simpa using ih
      · simp only [List.filter_cons, hy, decide_false] at ih ⊢
        simpa using ih
    · rfl

theorem sortDesc_filter (l : List α) (k : Rat) :
    (sortDesc key l).filter (fun a => decide (key a = k)) = l.filter (fun a => decide (key a = k)) := by
  induction l with
  | nil => rfl
  | cons x xs ih =>
    show (insertDesc key x (sortDesc key xs)).filter _ = _
    rw [insertDesc_filter, List.filter_cons, List.filter_cons, ih]

theorem sortDesc_of_sorted {l : List α} (h : l.Pairwise (fun a b => key b ≤ key a)) :
    sortDesc key l = l := by
  induction l with
  | nil => rfl
  | cons x xs ih =>
    rw [List.pairwise_cons] at h
    show insertDesc key x (sortDesc key xs) = _
    rw [ih h.2]
    cases xs with
    | nil => rfl
    | cons y ys =>
      have : ¬ key x < key y := not_lt.2 (h.1 y (List.mem_cons_self ..))
      simp [insertDesc, this]

theorem sortDesc_idem (l : List α) : sortDesc key (sortDesc key l) = sortDesc key l :=
  sortDesc_of_sorted key (sortDesc_sorted key l)

/-- a duplicate-free list contained in another list is not longer -/
theorem length_le_of_nodup_subset {β : Type} [DecidableEq β] {l₁ l₂ : List β} (hd : l₁.Nodup)
    (hs : ∀ a ∈ l₁, a ∈ l₂) : l₁.length ≤ l₂.length := by
  induction l₁ generalizing l₂ with
  | nil => exact Nat.zero_le _
  | cons a t ih =>
    rw [List.nodup_cons] at hd
    have ha : a ∈ l₂ := hs a (List.mem_cons_self ..)
    have ht : ∀ b ∈ t, b ∈ l₂.erase a := by
      intro b hb
      have hne : b ≠ a := by intro e; subst e; exact hd.1 hb
      exact (List.mem_erase_of_ne hne).2 (hs b (List.mem_cons_of_mem _ hb))
    have := ih hd.2 ht
    rw [List.length_erase_of_mem ha] at this
    have hpos : 0 < l₂.length := List.length_pos_of_mem ha
    simp only [List.length_cons]
    omega

end PEval.AP
