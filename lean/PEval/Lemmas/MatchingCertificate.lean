import PEval.Lemmas.MatchingUnique
/-!
Certificate checker for the documented relation "take *a* best available pair until none is left" (`GreedyRun`,
`TwoStageRun` of `MatchingUnique.lean`).

The property leaves the winner of an exact score tie open; the model `matchFrom` fixes it (first best cell in row-major
order).  When the real code pairs differently, the harness proposes an ORDER in which the real pairs could have been
picked (`picks1` in the compatible-only stage, `picks2` in the label-blind stage); `checkTwoStage` verifies, step by step,
that every pick is an available candidate of its stage, that no available candidate is strictly better, and that each
stage ends only when nothing is available.  Soundness (`checkTwoStage_sound`): an accepted certificate IS a run of the
relation, so the real outcome is one the property admits.  (No completeness claim is needed: a rejected certificate makes
the correspondence report a disagreement.)
-/
namespace PEval.Matching

/-- one stage: the picks, in order, are each a best available candidate; at the end nothing is available -/
def checkStage (t : Tbl) (s1 : Bool) : List (Nat × Nat) → St → Option St
  | [], st => if (cands t s1 st.es st.gs).isEmpty then some st else none
  | (i, j) :: ps, st =>
    match t.score i j with
    | none => none
    | some s =>
      if (cands t s1 st.es st.gs).contains (i, j, s) &&
          (cands t s1 st.es st.gs).all (fun x => !(better t.maximize x.2.2 s)) then
        checkStage t s1 ps { es := st.es.erase i, gs := st.gs.erase j, pairs := st.pairs ++ [(i, j)] }
      else none

theorem checkStage_sound (t : Tbl) (s1 : Bool) (ps : List (Nat × Nat)) (st st' : St)
    (h : checkStage t s1 ps st = some st') : GreedyRun t s1 st st' := by
  revert st
  induction ps with
  | nil =>
    intro st h
    unfold checkStage at h
    split at h
    · rename_i hc
      have hst := Option.some.inj h
      subst hst
      exact GreedyRun.done _ (List.isEmpty_iff.1 hc)
    · cases h
  | cons p ps ih =>
    intro st h
    obtain ⟨i, j⟩ := p
    unfold checkStage at h
    split at h
    · cases h
    · rename_i s _hs
      split at h
      · rename_i hc
        rw [Bool.and_eq_true] at hc
        obtain ⟨hmem, hall⟩ := hc
        have hmem' : (i, j, s) ∈ cands t s1 st.es st.gs := by
          simpa using hmem
        refine GreedyRun.pick st st' i j s hmem' ?_ (ih _ h)
        intro x hx
        have := (List.all_eq_true.1 hall) x hx
        simpa using this
      · cases h

/-- both stages from the full index lists -/
def checkTwoStage (t : Tbl) (es gs : List Nat) (picks1 picks2 : List (Nat × Nat)) : Option St :=
  (checkStage t true picks1 { es := es, gs := gs, pairs := [] }).bind (checkStage t false picks2)

/-- an accepted certificate is a run of the documented relation -/
theorem checkTwoStage_sound (t : Tbl) (es gs : List Nat) (picks1 picks2 : List (Nat × Nat)) (st : St)
    (h : checkTwoStage t es gs picks1 picks2 = some st) : TwoStageRun t es gs st := by
  unfold checkTwoStage at h
  cases h1 : checkStage t true picks1 { es := es, gs := gs, pairs := [] } with
  | none => rw [h1] at h; cases h
  | some s1 =>
    rw [h1] at h
    exact ⟨s1, checkStage_sound t true picks1 _ s1 h1, checkStage_sound t false picks2 s1 st h⟩

/-- the accepted run pairs exactly the proposed picks, in the proposed order -/
theorem checkStage_pairs (t : Tbl) (s1 : Bool) (ps : List (Nat × Nat)) (st st' : St)
    (h : checkStage t s1 ps st = some st') : st'.pairs = st.pairs ++ ps := by
  revert st
  induction ps with
  | nil =>
    intro st h
    unfold checkStage at h
    split at h
    · have hst := Option.some.inj h
      subst hst
      simp
    · cases h
  | cons p ps ih =>
    intro st h
    obtain ⟨i, j⟩ := p
    unfold checkStage at h
    split at h
    · cases h
    · split at h
      · rw [ih _ h]; simp
      · cases h

theorem checkTwoStage_pairs (t : Tbl) (es gs : List Nat) (picks1 picks2 : List (Nat × Nat)) (st : St)
    (h : checkTwoStage t es gs picks1 picks2 = some st) : st.pairs = picks1 ++ picks2 := by
  unfold checkTwoStage at h
  cases h1 : checkStage t true picks1 { es := es, gs := gs, pairs := [] } with
  | none => rw [h1] at h; cases h
  | some s1 =>
    rw [h1] at h
    rw [checkStage_pairs t false picks2 s1 st h, checkStage_pairs t true picks1 _ s1 h1]
    simp

end PEval.Matching
