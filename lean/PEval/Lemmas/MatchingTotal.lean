import PEval.Lemmas.MatchingResults
/-!
Totality and error characterisation of the geometric matcher (audit C01 finding 4, C02 finding 3, cross-cutting X2):
when does `getObjectResults` return, when does it raise, and which Python exception does each error exit mirror.

Error exits of the model (all inside `_get_score_table`, in this order for one cell, cells visited row-major):
* `"IndexError"`  = `matchable_thresholds[index]` in `get_label_threshold` (`common/threshold.py`): the ground truth's label
  is the `k`-th target label and the threshold list has at most `k` entries;
* `"AssertionError"` = `assert 0.0 <= threshold_value <= 1.0` in `IOU2dMatching / IOU3dMatching.is_better_than`.
Both are only reached for a pair in the SAME frame (the code tests `frame_id` first).
-/
namespace PEval.Matching

/-! ## `findSome?` over `List.range` = the first index -/

theorem findSome?_range_eq_none_iff {α} (f : Nat → Option α) (n : Nat) :
    (List.range n).findSome? f = none ↔ ∀ i, i < n → f i = none := by
  rw [List.findSome?_eq_none_iff]
  constructor
  · intro h i hi; exact h i (List.mem_range.2 hi)
  · intro h i hi; exact h i (List.mem_range.1 hi)

theorem findSome?_range_eq_some_iff {α} (f : Nat → Option α) (n : Nat) (b : α) :
    (List.range n).findSome? f = some b ↔ ∃ i, i < n ∧ f i = some b ∧ ∀ k, k < i → f k = none := by
  induction n with
  | zero => simp
  | succ n ih =>
    rw [List.range_succ, List.findSome?_append, Option.or_eq_some_iff, ih, findSome?_range_eq_none_iff]
    constructor
    · rintro (⟨i, hi, hf, hk⟩ | ⟨hnone, hn⟩)
      · exact ⟨i, Nat.lt_succ_of_lt hi, hf, hk⟩
      · refine ⟨n, Nat.lt_succ_self n, ?_, hnone⟩
        simp only [List.findSome?_cons, List.findSome?_nil] at hn
        cases hfn : f n with
        | none => simp [hfn] at hn
        | some b' => simp [hfn] at hn; rw [hn]
    · rintro ⟨i, hi, hf, hk⟩
      by_cases hin : i < n
      · exact Or.inl ⟨i, hin, hf, hk⟩
      · have : i = n := by omega
        subst this
        refine Or.inr ⟨hk, ?_⟩
        simp [hf]

/-! ## the error exits of one cell -/

theorem labelThreshold_error_iff {ts : Option (List String)} {th : Option (List Rat)} {l : String} {err : Err} :
    labelThreshold ts th l = .error err ↔
      err = "IndexError" ∧ ∃ T H k, ts = some T ∧ th = some H ∧ T.findIdx? (· == l) = some k ∧ H.length ≤ k := by
  constructor
  · intro h
    unfold labelThreshold at h
    cases ts with
    | none => simp at h
    | some T =>
      cases th with
      | none => simp at h
      | some H =>
        simp only at h
        cases hk : T.findIdx? (· == l) with
        | none => simp [hk] at h
        | some k =>
          simp only [hk] at h
          cases hH : H[k]? with
          | some r => simp [hH] at h
          | none =>
            simp only [hH, Except.error.injEq] at h
            exact ⟨h.symm, T, H, k, rfl, rfl, hk, List.getElem?_eq_none_iff.1 hH⟩
  · rintro ⟨rfl, T, H, k, rfl, rfl, hk, hle⟩
    unfold labelThreshold
    simp only [hk, List.getElem?_eq_none hle]

theorem isBetterThan_error_iff {m : Mode} {v r : Rat} {err : Err} :
    isBetterThan m v r = .error err ↔ err = "AssertionError" ∧ m.maximize = true ∧ ¬ (0 ≤ r ∧ r ≤ 1) := by
  unfold isBetterThan
  cases hm : m.maximize with
  | false => simp
  | true =>
    by_cases hr : 0 ≤ r ∧ r ≤ 1
    · simp [hr]
    · simp only [if_true, hr, if_false, Except.error.injEq, not_false_eq_true, and_true]
      exact ⟨fun h => h.symm, fun h => h.symm⟩

/-- one cell raises exactly when the two objects are in the same frame and either the threshold lookup or the IoU
range assertion fails (in this order) -/
theorem cell_error_iff {c : Cfg} {e g : Obj} {v : Rat} {err : Err} :
    cell c e g v = .error err ↔
      e.frame = g.frame ∧
        (labelThreshold c.targets c.thresholds g.label = .error err ∨
          ∃ r, labelThreshold c.targets c.thresholds g.label = .ok (some r) ∧
            isBetterThan c.mode v r = .error err) := by
  unfold cell
  by_cases hf : e.frame = g.frame
  · have hf' : (e.frame == g.frame) = true := by simpa using hf
    simp only [hf, true_and]
    cases hl : labelThreshold c.targets c.thresholds g.label with
    | error e' => simp [bind, Except.bind]
    | ok thr =>
      cases thr with
      | none => simp [bind, Except.bind, pure, Except.pure]
      | some r =>
        cases hb : isBetterThan c.mode v r with
        | error e' => simp [hb, bind, Except.bind]
        | ok b => cases b <;> simp [hb, bind, Except.bind, pure, Except.pure]
  · have hf' : (e.frame == g.frame) = false := by simpa using hf
    simp [hf', hf, pure, Except.pure]

theorem cellAt_error_iff {c : Cfg} {sc : Scene} {i j : Nat} {err : Err} :
    cellAt c sc i j = .error err ↔
      ∃ e g, sc.ests[i]? = some e ∧ sc.gts[j]? = some g ∧ cell c e g (sc.val i j) = .error err := by
  unfold cellAt
  cases he : sc.ests[i]? with
  | none => simp
  | some e =>
    cases hg : sc.gts[j]? with
    | none => simp
    | some g => simp

theorem cellAt_ok_or_error (c : Cfg) (sc : Scene) (i j : Nat) :
    (∃ x, cellAt c sc i j = .ok x) ∨ ∃ err, cellAt c sc i j = .error err := by
  cases h : cellAt c sc i j with
  | ok x => exact Or.inl ⟨x, rfl⟩
  | error e => exact Or.inr ⟨e, rfl⟩

/-- only two kinds of exception leave the table construction -/
theorem cellAt_error_kind {c : Cfg} {sc : Scene} {i j : Nat} {err : Err} (h : cellAt c sc i j = .error err) :
    err = "IndexError" ∨ err = "AssertionError" := by
  obtain ⟨e, g, _, _, hc⟩ := cellAt_error_iff.1 h
  rcases (cell_error_iff.1 hc).2 with hl | ⟨r, _, hb⟩
  · exact Or.inl (labelThreshold_error_iff.1 hl).1
  · exact Or.inr (isBetterThan_error_iff.1 hb).1

/-! ## the table -/

/-- no exception while the table is filled iff every cell is defined -/
theorem tableError_eq_none_iff {c : Cfg} {sc : Scene} :
    tableError c sc = none ↔ ∀ i j, i < sc.ests.length → j < sc.gts.length → ∃ x, cellAt c sc i j = .ok x := by
  constructor
  · intro h i j hi hj; exact tableError_none h hi hj
  · intro h
    unfold tableError
    rw [findSome?_range_eq_none_iff]
    intro i hi
    rw [findSome?_range_eq_none_iff]
    intro j hj
    obtain ⟨x, hx⟩ := h i j hi hj
    simp [hx]

/-- the exception of the call is the one of the FIRST failing cell in row-major order (the code fills the table with
`for i … for j …` and stops at the first exception) -/
theorem tableError_eq_some_iff {c : Cfg} {sc : Scene} {err : Err} :
    tableError c sc = some err ↔
      ∃ i j, i < sc.ests.length ∧ j < sc.gts.length ∧ cellAt c sc i j = .error err ∧
        ∀ i' j', i' < sc.ests.length → j' < sc.gts.length → (i' < i ∨ (i' = i ∧ j' < j)) →
          ∃ x, cellAt c sc i' j' = .ok x := by
  unfold tableError
  rw [findSome?_range_eq_some_iff]
  constructor
  · rintro ⟨i, hi, hrow, hbefore⟩
    rw [findSome?_range_eq_some_iff] at hrow
    obtain ⟨j, hj, hcell, hjbefore⟩ := hrow
    have hce : cellAt c sc i j = .error err := by
      cases hx : cellAt c sc i j with
      | ok x => simp [hx] at hcell
      | error e' => simp [hx] at hcell; rw [hcell]
    refine ⟨i, j, hi, hj, hce, ?_⟩
    intro i' j' hi' hj' hlt
    rcases hlt with hlt | ⟨rfl, hlt⟩
    · have := hbefore i' hlt
      rw [findSome?_range_eq_none_iff] at this
      have := this j' hj'
      cases hx : cellAt c sc i' j' with
      | ok x => exact ⟨x, rfl⟩
      | error e' => simp [hx] at this
    · have := hjbefore j' hlt
      cases hx : cellAt c sc i' j' with
      | ok x => exact ⟨x, rfl⟩
      | error e' => simp [hx] at this
  · rintro ⟨i, j, hi, hj, hce, hbefore⟩
    refine ⟨i, hi, ?_, ?_⟩
    · rw [findSome?_range_eq_some_iff]
      refine ⟨j, hj, by simp [hce], ?_⟩
      intro k hk
      obtain ⟨x, hx⟩ := hbefore i k hi (by omega) (Or.inr ⟨rfl, hk⟩)
      simp [hx]
    · intro k hk
      rw [findSome?_range_eq_none_iff]
      intro j' hj'
      obtain ⟨x, hx⟩ := hbefore k j' (by omega) hj' (Or.inl hk)
      simp [hx]

/-! ## the call -/

/-- `get_object_results` raises exactly when both lists are non-empty and the table construction raises; it is the
table's exception -/
theorem getObjectResults_error_iff {c : Cfg} {sc : Scene} {err : Err} :
    getObjectResults c sc = .error err ↔ sc.ests ≠ [] ∧ sc.gts ≠ [] ∧ tableError c sc = some err := by
  unfold getObjectResults
  by_cases he : sc.ests = []
  · simp [he]
  · by_cases hg : sc.gts = []
    · simp [he, hg]
    · have he' : sc.ests.isEmpty = false := by simpa using he
      have hg' : sc.gts.isEmpty = false := by simpa using hg
      simp only [he', hg', Bool.false_eq_true, if_false, ne_eq, he, hg, not_false_eq_true, true_and]
      cases tableError c sc with
      | none => simp
      | some e => simp

theorem getObjectResults_ok_iff {c : Cfg} {sc : Scene} :
    (∃ rs, getObjectResults c sc = .ok rs) ↔ sc.ests = [] ∨ sc.gts = [] ∨ tableError c sc = none := by
  constructor
  · rintro ⟨rs, h⟩
    by_cases he : sc.ests = []
    · exact Or.inl he
    · by_cases hg : sc.gts = []
      · exact Or.inr (Or.inl hg)
      · refine Or.inr (Or.inr ?_)
        cases ht : tableError c sc with
        | none => rfl
        | some e =>
          have := getObjectResults_error_iff.2 ⟨he, hg, ht⟩
          rw [this] at h; cases h
  · intro h
    cases hr : getObjectResults c sc with
    | ok rs => exact ⟨rs, rfl⟩
    | error e =>
      obtain ⟨he, hg, ht⟩ := getObjectResults_error_iff.1 hr
      rcases h with h | h | h
      · exact absurd h he
      · exact absurd h hg
      · rw [h] at ht; cases ht

/-! ## well-formed configurations never raise -/

/-- the configuration is well-formed for the matcher: when target labels and matchable thresholds are both given there
is a threshold for every target label, and in the IoU modes every threshold lies in `[0, 1]` -/
def WFCfg (c : Cfg) : Prop :=
  ∀ T H, c.targets = some T → c.thresholds = some H →
    T.length ≤ H.length ∧ (c.mode.maximize = true → ∀ r ∈ H, 0 ≤ r ∧ r ≤ 1)

theorem labelThreshold_ok_some {ts : Option (List String)} {th : Option (List Rat)} {l : String} {r : Rat}
    (h : labelThreshold ts th l = .ok (some r)) : ∃ T H, ts = some T ∧ th = some H ∧ r ∈ H := by
  unfold labelThreshold at h
  cases ts with
  | none => simp at h
  | some T =>
    cases th with
    | none => simp at h
    | some H =>
      simp only at h
      cases hk : T.findIdx? (· == l) with
      | none => simp [hk] at h
      | some k =>
        simp only [hk] at h
        cases hH : H[k]? with
        | none => simp [hH] at h
        | some r' =>
          simp only [hH, Except.ok.injEq, Option.some.injEq] at h
          subst h
          exact ⟨T, H, rfl, rfl, List.mem_of_getElem? hH⟩

theorem cell_ok_of_wf {c : Cfg} (hwf : WFCfg c) (e g : Obj) (v : Rat) : ∃ x, cell c e g v = .ok x := by
  cases hc : cell c e g v with
  | ok x => exact ⟨x, rfl⟩
  | error err =>
    exfalso
    obtain ⟨_, hcase⟩ := cell_error_iff.1 hc
    rcases hcase with hl | ⟨r, hl, hb⟩
    · obtain ⟨_, T, H, k, hT, hH, hk, hle⟩ := labelThreshold_error_iff.1 hl
      have := (hwf T H hT hH).1
      have hk' := (List.findIdx?_eq_some_iff_findIdx_eq.1 hk).1
      omega
    · obtain ⟨_, hm, hr⟩ := isBetterThan_error_iff.1 hb
      obtain ⟨T, H, hT, hH, hmem⟩ := labelThreshold_ok_some hl
      exact hr ((hwf T H hT hH).2 hm r hmem)

/-- **Totality**: for a well-formed configuration the matcher returns for every pair of lists and every scoring -/
theorem getObjectResults_total {c : Cfg} (hwf : WFCfg c) (sc : Scene) : ∃ rs, getObjectResults c sc = .ok rs := by
  rw [getObjectResults_ok_iff]
  refine Or.inr (Or.inr (tableError_eq_none_iff.2 ?_))
  intro i j _ _
  unfold cellAt
  cases sc.ests[i]? with
  | none => exact ⟨_, rfl⟩
  | some e =>
    cases sc.gts[j]? with
    | none => exact ⟨_, rfl⟩
    | some g => exact cell_ok_of_wf hwf e g _

/-- without thresholds or without target labels nothing can raise -/
theorem wfCfg_of_no_thresholds {c : Cfg} (h : c.thresholds = none ∨ c.targets = none) : WFCfg c := by
  intro T H hT hH
  rcases h with h | h
  · rw [h] at hH; cases hH
  · rw [h] at hT; cases hT

end PEval.Matching
