import Mathlib.Tactic.Ring
import PEval.Lemmas.APDTBridge
import PEval.Lemmas.APClassify
/-!
The bridge of the tables (c) — `Map.__init__` — for ALL inputs (any number of labels; does not import `PEval.Gen.*`):
whenever the model's `mapOf` answers, the skeleton `mapAtoms` at the shape (`shapeOfMap`: positions of the dict keys in
the target list) and at the valuation (`valMap`: which buckets are empty) of the input answers a leaf whose `Ap` calls,
read on the input (`readCall`), are exactly the model's per-label `Ap`s / APH `Ap`s, and whose mAP / mAPH normal forms,
read at the per-label values, are the model's mAP / mAPH (`map_bridge`).
-/
namespace PEval.APDT
open PEval.AP PEval.ClearDT

/-- the `Ap` that `Map.__init__` builds for target label `l` with threshold `t`: both dicts are read by key -/
def apCall (tm : TpMetric) (m : Mode) (buckets : List (Label × List (List Res))) (nums : List (Label × Nat))
    (l : Label) (t : Rat) : Except Err ApOut :=
  match lookupKey l buckets with
  | .error e => .error e
  | .ok rs =>
    match lookupKey l nums with
    | .error e => .error e
    | .ok G => apOfNested tm m [l] [t] G rs

/-- an `ApCall` of a table leaf read on a concrete input: (APH?, target label, key of the result-dict entry, key of the
count-dict entry, position of the threshold), labels by their position in the target list -/
def readCall (m : Mode) (targets : List Label) (thrs : List Rat) (buckets : List (Label × List (List Res)))
    (nums : List (Label × Nat)) (c : ApCall) : Except Err ApOut :=
  match targets[c.2.1]?, targets[c.2.2.1]?, targets[c.2.2.2.1]?, thrs[c.2.2.2.2]? with
  | some lt, some lr, some ln, some t =>
    (match lookupKey lr buckets with
    | .error e => .error e
    | .ok rs =>
      match lookupKey ln nums with
      | .error e => .error e
      | .ok G => apOfNested (if c.1 then .aph else .ap) m [lt] [t] G rs)
  | _, _, _, _ => .error "IndexError"

/-- the shape of a concrete input: number of target labels, the dict keys as positions in the target list (a key that is
no target label gets position `targets.length`: an extra key) -/
def shapeOfMap (is2d : Bool) (targets : List Label) (buckets : List (Label × List (List Res)))
    (nums : List (Label × Nat)) : MapShape :=
  ⟨targets.length, buckets.map fun kv => targets.idxOf kv.1, nums.map fun kv => targets.idxOf kv.1, is2d⟩

/-- the valuation of a concrete input: `empty i` ⇔ the bucket of target label `i` holds no result -/
def valMap (targets : List Label) (buckets : List (Label × List (List Res))) : Val where
  b := fun a =>
    match a with
    | .empty i => (match targets[i]? with
      | some l => (match lookupKey l buckets with
        | .ok rs => rs.flatten.isEmpty
        | .error _ => false)
      | none => false)
    | _ => false
  o := fun _ => .eq

theorem valMap_consistent (targets : List Label) (buckets : List (Label × List (List Res))) :
    (valMap targets buckets).consistent := by
  refine ⟨?_, by simp [valMap]⟩
  intro r j s h
  simp [valMap] at h

/-- per-label values `ap i`, `aph i` of an output -/
def envMap (out : MapOut) : Var → Rat := fun v =>
  if v.1 = "ap" then ((out.aps[v.2]?).bind (·.ap)).getD 0
  else if v.1 = "aph" then ((out.aphs[v.2]?).bind (·.ap)).getD 0 else 0

/-! ### the loop -/

theorem mapLoop_ok (m : Mode) (is2d : Bool) (buckets : List (Label × List (List Res))) (nums : List (Label × Nat)) :
    ∀ (lts : List (Label × Rat)) (as hs : List ApOut), mapLoop m is2d buckets nums lts = .ok (as, hs) →
      lts.map (fun lt => apCall .ap m buckets nums lt.1 lt.2) = as.map .ok ∧
      (if is2d then hs = [] else lts.map (fun lt => apCall .aph m buckets nums lt.1 lt.2) = hs.map .ok) ∧
      ∀ lt ∈ lts, (∃ rs, lookupKey lt.1 buckets = .ok rs) ∧ (∃ G, lookupKey lt.1 nums = .ok G) := by
  intro lts
  induction lts with
  | nil =>
    intro as hs h
    simp only [mapLoop, Except.ok.injEq, Prod.mk.injEq] at h
    obtain ⟨rfl, rfl⟩ := h
    cases is2d <;> simp
  | cons lt lts ih =>
    intro as hs h
    obtain ⟨l, t⟩ := lt
    unfold mapLoop at h
    cases h1 : lookupKey l buckets with
    | error e => simp [h1] at h
    | ok rs =>
      cases h2 : lookupKey l nums with
      | error e => simp [h1, h2] at h
      | ok G =>
        cases h3 : apOfNested .ap m [l] [t] G rs with
        | error e => simp [h1, h2, h3] at h
        | ok a =>
          simp only [h1, h2, h3] at h
          cases is2d with
          | true =>
            simp only [if_true] at h
            cases h5 : mapLoop m true buckets nums lts with
            | error e => simp [h5] at h
            | ok p =>
              obtain ⟨as', hs'⟩ := p
              simp only [h5, Except.ok.injEq, Prod.mk.injEq] at h
              obtain ⟨rfl, rfl⟩ := h
              obtain ⟨i1, i2, i3⟩ := ih as' hs' h5
              simp only [if_true] at i2 ⊢
              have e1 : apCall .ap m buckets nums l t = .ok a := by simp only [apCall, h1, h2, h3]
              refine ⟨by simp only [List.map_cons, e1, i1], i2, ?_⟩
              intro lt hlt
              simp only [List.mem_cons] at hlt
              rcases hlt with rfl | hlt
              · exact ⟨⟨rs, h1⟩, ⟨G, h2⟩⟩
              · exact i3 lt hlt
          | false =>
            simp only [Bool.false_eq_true, if_false] at h
            cases h4 : apOfNested .aph m [l] [t] G rs with
            | error e => simp [h4, Except.map] at h
            | ok b =>
              simp only [h4, Except.map] at h
              cases h5 : mapLoop m false buckets nums lts with
              | error e => simp [h5] at h
              | ok p =>
                obtain ⟨as', hs'⟩ := p
                simp only [h5, Except.ok.injEq, Prod.mk.injEq] at h
                obtain ⟨rfl, rfl⟩ := h
                obtain ⟨i1, i2, i3⟩ := ih as' hs' h5
                simp only [Bool.false_eq_true, if_false] at i2 ⊢
                have e1 : apCall .ap m buckets nums l t = .ok a := by simp only [apCall, h1, h2, h3]
                have e2 : apCall .aph m buckets nums l t = .ok b := by simp only [apCall, h1, h2, h4]
                refine ⟨by simp only [List.map_cons, e1, i1], by simp only [List.map_cons, e2, i2], ?_⟩
                intro lt hlt
                simp only [List.mem_cons] at hlt
                rcases hlt with rfl | hlt
                · exact ⟨⟨rs, h1⟩, ⟨G, h2⟩⟩
                · exact i3 lt hlt

theorem lookupKey_ok_mem {β : Type} {l : Label} {x : β} : ∀ {L : List (Label × β)}, lookupKey l L = .ok x → ∃ kv ∈ L, kv.1 = l := by
  intro L
  induction L with
  | nil => intro h; simp [lookupKey] at h
  | cons kv L ih =>
    intro h
    obtain ⟨k, v⟩ := kv
    unfold lookupKey at h
    by_cases e : (k == l) = true
    · exact ⟨(k, v), by simp, by simpa using e⟩
    · simp only [e, Bool.false_eq_true, if_false] at h
      obtain ⟨kv, hm, hk⟩ := ih h
      exact ⟨kv, by simp [hm], hk⟩

/-! ### reading the calls of a leaf -/

theorem readCall_diag (m : Mode) (targets : List Label) (thrs : List Rat) (buckets : List (Label × List (List Res)))
    (nums : List (Label × Nat)) (aph : Bool) (i : Nat) (l : Label) (t : Rat) (hl : targets[i]? = some l) (ht : thrs[i]? = some t) :
    readCall m targets thrs buckets nums (aph, i, i, i, i) = apCall (if aph then .aph else .ap) m buckets nums l t := by
  simp only [readCall, hl, ht, apCall]

theorem calls_eq_zip (m : Mode) (targets : List Label) (thrs : List Rat) (buckets : List (Label × List (List Res)))
    (nums : List (Label × Nat)) (aph : Bool) (tm : TpMetric) (htm : tm = if aph then .aph else .ap)
    (hlen : thrs.length = targets.length) :
    (List.range targets.length).map (fun i => readCall m targets thrs buckets nums (aph, i, i, i, i)) =
      (targets.zip thrs).map fun lt => apCall tm m buckets nums lt.1 lt.2 := by
  subst htm
  apply List.ext_getElem
  · simp [hlen]
  · intro i h1 h2
    simp only [List.length_map, List.length_range] at h1
    have h3 : i < thrs.length := by omega
    simp only [List.getElem_map, List.getElem_range, List.getElem_zip]
    exact readCall_diag m targets thrs buckets nums aph i _ _ (List.getElem?_eq_getElem h1) (List.getElem?_eq_getElem h3)

/-! ### the mean over the defined labels -/

theorem filterMap_eq_filter_map {α : Type} (f : α → Option Rat) :
    ∀ l : List α, l.filterMap f = (l.filter fun a => (f a).isSome).map fun a => (f a).getD 0 := by
  intro l
  induction l with
  | nil => rfl
  | cons a l ih =>
    cases h : f a with
    | none => simp [h, ih]
    | some x => simp [h, ih]

theorem definedLabels_aux (p : Nat → Bool) : ∀ l : List Nat,
    (l.zip (l.map p)).filterMap (fun q => if q.2 then none else some q.1) = l.filter fun i => !p i := by
  intro l
  induction l with
  | nil => rfl
  | cons a l ih =>
    simp only [List.map_cons, List.zip_cons_cons, List.filterMap_cons, List.filter_cons, ih]
    cases p a <;> simp

theorem definedLabels_eq (L : Nat) (p : Nat → Bool) :
    definedLabels L ((List.range L).map p) = (List.range L).filter fun i => !p i :=
  definedLabels_aux p (List.range L)

/-- the mean normal form over the defined labels, read at the per-label values, is `meanDefined` -/
theorem mean_bridge (kind : String) (as : List ApOut) (env : Var → Rat)
    (henv : ∀ i, env (kind, i) = ((as[i]?).bind (·.ap)).getD 0) (p : Nat → Bool)
    (hp : ∀ i, i < as.length → p i = ((as[i]?).bind (·.ap)).isNone) :
    (meanNF kind (definedLabels as.length ((List.range as.length).map p))).map (evalNF env) =
      meanDefined (as.map (·.ap)) := by
  rw [meanNF_eval, definedLabels_eq]
  unfold meanDefined
  have hfm : (as.map (·.ap)).filterMap id = (List.range as.length).filterMap fun i => (as[i]?).bind (·.ap) := by
    have : as.map (·.ap) = (List.range as.length).map fun i => (as[i]?).bind (·.ap) := by
      apply List.ext_getElem
      · simp
      · intro i h1 h2
        simp only [List.length_map] at h1
        simp [List.getElem?_eq_getElem h1]
    rw [this, List.filterMap_map]
    rfl
  have hfilt : ((List.range as.length).filter fun i => !p i) =
      (List.range as.length).filter fun i => ((as[i]?).bind (·.ap)).isSome := by
    apply List.filter_congr
    intro i hi
    rw [hp i (List.mem_range.1 hi)]
    cases (as[i]?).bind (·.ap) <;> rfl
  rw [hfm, filterMap_eq_filter_map, hfilt]
  simp only [henv, List.length_map]
  by_cases he : ((List.range as.length).filter fun i => ((as[i]?).bind (·.ap)).isSome) = []
  · simp [he]
  · have hpos : 0 < ((List.range as.length).filter fun i => ((as[i]?).bind (·.ap)).isSome).length :=
      List.length_pos_iff.2 he
    simp [he, hpos]

/-! ### the bridge -/

theorem apOfNested_none_iff {tm : TpMetric} {m : Mode} {T : List Label} {th : List Rat} {G : Nat}
    {rs : List (List Res)} {a : ApOut} (h : apOfNested tm m T th G rs = .ok a) : a.ap = none ↔ rs.flatten = [] := by
  unfold apOfNested at h
  obtain ⟨ks, hk, rfl⟩ := apOf_ok h
  have hl := classifyAll_length hk
  have hp := (sortDesc_perm Res.conf rs.flatten).length_eq
  cases ks with
  | nil =>
    simp only [apOfKinds_nil, true_iff]
    exact List.length_eq_zero_iff.1 (by rw [← hp, ← hl]; rfl)
  | cons k t =>
    rw [apOfKinds_ap (List.cons_ne_nil _ _)]
    simp only [reduceCtorEq, false_iff]
    intro hnil
    rw [hnil] at hl
    simp [sortDesc] at hl

/-- what a leaf of the tables (c) says on a concrete input -/
structure MapLeafReads (m : Mode) (targets : List Label) (thrs : List Rat) (buckets : List (Label × List (List Res)))
    (nums : List (Label × Nat)) (leaf : MapLeaf) (out : MapOut) : Prop where
  aps : leaf.aps.map (readCall m targets thrs buckets nums) = out.aps.map .ok
  aphs : leaf.aphs.map (readCall m targets thrs buckets nums) = out.aphs.map .ok
  map : leaf.map.map (evalNF (envMap out)) = out.map
  maph : leaf.maph.map (evalNF (envMap out)) = out.maph

theorem zip_map_getElem {targets : List Label} {thrs : List Rat} {xs : List ApOut}
    {f : Label × Rat → Except Err ApOut} (h : (targets.zip thrs).map f = xs.map .ok) (i : Nat)
    (hi : i < xs.length) (hi' : i < targets.length) (hi'' : i < thrs.length) : f (targets[i], thrs[i]) = .ok xs[i] := by
  have hl : i < ((targets.zip thrs).map f).length := by simp; omega
  have := List.getElem_of_eq h hl
  simpa only [List.getElem_map, List.getElem_zip] using this

/-- which buckets are empty, read off the per-label `Ap`s (for the AP and for the APH instances alike) -/
theorem bucket_empty_bridge (tm : TpMetric) (m : Mode) (targets : List Label) (thrs : List Rat)
    (buckets : List (Label × List (List Res))) (nums : List (Label × Nat)) (hlen : thrs.length = targets.length)
    (xs : List ApOut) (hx : (targets.zip thrs).map (fun lt => apCall tm m buckets nums lt.1 lt.2) = xs.map .ok) :
    xs.length = targets.length ∧
    ∀ i, i < xs.length → (valMap targets buckets).b (.empty i) = ((xs[i]?).bind (·.ap)).isNone := by
  have hxl : xs.length = targets.length := by
    have := congrArg List.length hx
    simpa [hlen] using this.symm
  refine ⟨hxl, ?_⟩
  intro i hi
  have hi' : i < targets.length := by omega
  have hi'' : i < thrs.length := by omega
  have hget := zip_map_getElem hx i hi hi' hi''
  simp only [valMap, List.getElem?_eq_getElem hi', List.getElem?_eq_getElem hi, Option.bind_some]
  simp only [apCall] at hget
  cases hr : lookupKey targets[i] buckets with
  | error e => simp [hr] at hget
  | ok rs =>
    cases hG : lookupKey targets[i] nums with
    | error e => simp [hr, hG] at hget
    | ok G =>
      simp only [hr, hG] at hget
      have := apOfNested_none_iff hget
      cases hap : xs[i].ap with
      | none => simp [this.1 hap]
      | some x =>
        have hne : rs.flatten ≠ [] := fun h => by rw [this.2 h] at hap; cases hap
        simp [hne]

/-- **THE BRIDGE of (c)**, any number of labels: whenever the model's `Map` answers (pairwise distinct target labels, one
threshold per label), the skeleton at the shape and the valuation of the input answers a leaf whose `Ap` / APH calls —
label `i`'s `Ap` from the dict entries and the threshold OF LABEL `i` — read on the input are the model's per-label
`Ap`s, and whose mAP / mAPH normal forms read at the per-label values are the model's mAP / mAPH -/
theorem map_bridge (m : Mode) (is2d : Bool) (targets : List Label) (thrs : List Rat)
    (buckets : List (Label × List (List Res))) (nums : List (Label × Nat)) (hnd : targets.Nodup)
    (hlen : thrs.length = targets.length) (out : MapOut) (hout : mapOf m is2d targets thrs buckets nums = .ok out) :
    ∃ leaf, mapAtoms (shapeOfMap is2d targets buckets nums) (valMap targets buckets) = .ok leaf ∧
      MapLeafReads m targets thrs buckets nums leaf out := by
  unfold mapOf at hout
  cases hloop : mapLoop m is2d buckets nums (targets.zip thrs) with
  | error e => simp [hloop] at hout
  | ok p =>
    obtain ⟨as, hs⟩ := p
    simp only [hloop, Except.ok.injEq] at hout
    subst hout
    obtain ⟨h1, h2, h3⟩ := mapLoop_ok m is2d buckets nums _ as hs hloop
    -- every target label is a key of both dicts
    have hkeys : (List.range targets.length).all (fun i =>
        (buckets.map fun kv => targets.idxOf kv.1).contains i && (nums.map fun kv => targets.idxOf kv.1).contains i) = true := by
      rw [List.all_eq_true]
      intro i hi
      have hi' : i < targets.length := List.mem_range.1 hi
      have hi'' : i < thrs.length := by omega
      have hmem : (targets[i], thrs[i]) ∈ targets.zip thrs := by
        rw [List.mem_iff_getElem]
        exact ⟨i, by simp [hi', hi''], by simp⟩
      obtain ⟨⟨rs, hr⟩, ⟨G, hG⟩⟩ := h3 _ hmem
      obtain ⟨kv, hkv, hk⟩ := lookupKey_ok_mem hr
      obtain ⟨kv', hkv', hk'⟩ := lookupKey_ok_mem hG
      have hidx : targets.idxOf targets[i] = i := List.Nodup.idxOf_getElem hnd i hi'
      simp only [Bool.and_eq_true, List.contains_iff_mem, List.mem_map]
      exact ⟨⟨kv, hkv, by rw [hk, hidx]⟩, ⟨kv', hkv', by rw [hk', hidx]⟩⟩
    obtain ⟨haslen, hempty⟩ := bucket_empty_bridge .ap m targets thrs buckets nums hlen as h1
    refine ⟨mapLeafOf (shapeOfMap is2d targets buckets nums)
      ((List.range targets.length).map fun i => (valMap targets buckets).b (.empty i)),
      by simp only [mapAtoms, shapeOfMap, hkeys, if_true], ?_⟩
    constructor
    · simp only [mapLeafOf, shapeOfMap, List.map_map]
      rw [← h1]
      exact calls_eq_zip m targets thrs buckets nums false .ap rfl hlen
    · cases is2d with
      | true =>
        simp only [if_true] at h2
        simp [mapLeafOf, shapeOfMap, h2]
      | false =>
        simp only [Bool.false_eq_true, if_false] at h2
        simp only [mapLeafOf, shapeOfMap, Bool.false_eq_true, if_false, List.map_map]
        rw [← h2]
        exact calls_eq_zip m targets thrs buckets nums true .aph rfl hlen
    · simp only [mapLeafOf, shapeOfMap]
      rw [← haslen]
      exact mean_bridge "ap" as _ (fun i => by simp [envMap]) _ hempty
    · cases is2d with
      | true =>
        simp only [if_true] at h2
        simp [mapLeafOf, shapeOfMap, h2, meanDefined]
      | false =>
        simp only [Bool.false_eq_true, if_false] at h2
        obtain ⟨hhslen, hempty'⟩ := bucket_empty_bridge .aph m targets thrs buckets nums hlen hs h2
        simp only [mapLeafOf, shapeOfMap, Bool.false_eq_true, if_false]
        rw [← hhslen]
        exact mean_bridge "aph" hs _ (fun i => by simp [envMap]) _ hempty'

end PEval.APDT
