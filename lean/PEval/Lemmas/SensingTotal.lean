import PEval.Lemmas.SensingCrop
/-!
Totality of the sensing frame evaluation (C12): with at least two columns and well-formed areas (at least three
corners per plane, an even number of corners) nothing raises; a cloud with fewer than two columns raises
`RuntimeError` as soon as anything is cropped.
-/
namespace PEval.Sensing

def ValidArea (a : List Corner) : Prop := 3 ≤ a.length / 2 ∧ a.length % 2 = 0

theorem cropBox_total {cols : Nat} (hc : 2 ≤ cols) (cloud : List Pt) (b : Box) (k : Rat) (inside : Bool) :
    cropBox cols cloud b k inside =
      .ok (if inside then cropInside cols cloud (boxCorners b k) else cropOutside cols cloud (boxCorners b k)) := by
  rw [cropBox_eq, if_neg (by omega)]

theorem sensingResult_total {cols : Nat} (hc : 2 ≤ cols) (cfg : Cfg) (cloud : List Pt) (o : Obj) :
    ∃ r, sensingResult cfg cols cloud o = .ok r := by
  unfold sensingResult
  rw [cropBox_total hc]
  exact ⟨_, rfl⟩

theorem evaluateDetection_total {cols : Nat} (hc : 2 ≤ cols) (cfg : Cfg) (cloud : List Pt) :
    ∀ (objs : List Obj) (fr : FrameRes), ∃ fr', evaluateDetection cfg cols cloud objs fr = .ok fr'
  | [], fr => ⟨fr, rfl⟩
  | o :: os, fr => by
    obtain ⟨r, hr⟩ := sensingResult_total hc cfg cloud o
    obtain ⟨fr', h⟩ := evaluateDetection_total hc cfg cloud os (fr.push r)
    refine ⟨fr', ?_⟩
    simp only [evaluateDetection, hr]
    exact h

theorem cropOutsideAll_total {cols : Nat} (hc : 2 ≤ cols) (cfg : Cfg) :
    ∀ (objs : List Obj) (pts : List Pt), ∃ r, cropOutsideAll cfg cols objs pts = .ok r
  | [], pts => ⟨pts, rfl⟩
  | o :: os, pts => by
    obtain ⟨r, h⟩ := cropOutsideAll_total hc cfg os
      (cropOutside cols pts (boxCorners o.box (scaleFactor cfg o.dist)))
    refine ⟨r, ?_⟩
    simp only [cropOutsideAll, cropBox_total hc]
    exact h

theorem evaluateNonDetection_total {cols : Nat} (hc : 2 ≤ cols) (cfg : Cfg) (objs : List Obj) :
    ∀ (cs : List (List Pt)) (fr : FrameRes), ∃ fr', evaluateNonDetection cfg cols objs cs fr = .ok fr'
  | [], fr => ⟨fr, rfl⟩
  | c :: cs, fr => by
    obtain ⟨rest, hr⟩ := cropOutsideAll_total hc cfg objs c
    obtain ⟨fr', h⟩ := evaluateNonDetection_total hc cfg objs cs
      (if rest.length ≠ 0 then { fr with nonDetection := fr.nonDetection ++ [rest] } else fr)
    refine ⟨fr', ?_⟩
    simp only [evaluateNonDetection, hr]
    exact h

theorem evaluateFrame_total {cols : Nat} (hc : 2 ≤ cols) (cfg : Cfg) (objs : List Obj) (cloud : List Pt)
    (nd : List (List Pt)) : ∃ fr, evaluateFrame cfg cols objs cloud nd = .ok fr := by
  obtain ⟨fr1, h1⟩ := evaluateDetection_total hc cfg cloud objs {}
  obtain ⟨fr2, h2⟩ := evaluateNonDetection_total hc cfg objs nd fr1
  refine ⟨fr2, ?_⟩
  simp only [evaluateFrame, h1]
  exact h2

theorem managerCropAreas_total {cols : Nat} (hc : 2 ≤ cols) (cloud : List Pt) :
    ∀ (areas : List (List Corner)), (∀ a ∈ areas, ValidArea a) → ∃ cs, managerCropAreas cols cloud areas = .ok cs
  | [], _ => ⟨[], rfl⟩
  | a :: as, h => by
    obtain ⟨cs, hcs⟩ := managerCropAreas_total hc cloud as (fun x hx => h x (List.mem_cons_of_mem _ hx))
    have ha := h a List.mem_cons_self
    refine ⟨cropInside cols cloud a :: cs, ?_⟩
    simp only [managerCropAreas, crop_of_valid cloud true hc ha.1 ha.2, hcs]
    rfl

theorem managerCropObjects_total {cols : Nat} (hc : 2 ≤ cols) (mcfg : Cfg) (objs : List Obj) :
    ∀ (cs : List (List Pt)), ∃ rs, managerCropObjects mcfg cols objs cs = .ok rs
  | [] => ⟨[], rfl⟩
  | c :: cs => by
    obtain ⟨r, hr⟩ := cropOutsideAll_total hc mcfg objs c
    obtain ⟨rs, hrs⟩ := managerCropObjects_total hc mcfg objs cs
    refine ⟨r :: rs, ?_⟩
    simp only [managerCropObjects, hr, hrs]
    rfl

theorem addFrameResult_total {cols : Nat} (hc : 2 ≤ cols) (mcfg fcfg : Cfg) (objs : List Obj) (cloud : List Pt)
    (areas : List (List Corner)) (ha : ∀ a ∈ areas, ValidArea a) :
    ∃ fr, addFrameResult mcfg fcfg cols objs cloud areas = .ok fr := by
  obtain ⟨cs, hcs⟩ := managerCropAreas_total hc cloud areas ha
  obtain ⟨nd, hnd⟩ := managerCropObjects_total hc mcfg objs cs
  obtain ⟨fr, hfr⟩ := evaluateFrame_total hc fcfg (filterUuids fcfg objs) cloud nd
  refine ⟨fr, ?_⟩
  simp only [addFrameResult, managerCrop, hcs]
  show (managerCropObjects mcfg cols objs cs >>= fun nd => evaluateFrame fcfg cols (filterUuids fcfg objs) cloud nd) = _
  rw [hnd]
  exact hfr

/-- `crop_pointcloud` succeeds exactly on clouds with ≥ 2 columns and well-formed areas; both failures are `RuntimeError` -/
theorem crop_ok_iff (cols : Nat) (cloud : List Pt) (area : List Corner) (inside : Bool) :
    (∃ r, crop cols cloud area inside = .ok r) ↔ (2 ≤ cols ∧ ValidArea area) := by
  constructor
  · rintro ⟨r, h⟩
    obtain ⟨h1, h2, h3, _⟩ := crop_ok h
    exact ⟨h1, h2, h3⟩
  · rintro ⟨h1, h2, h3⟩
    exact ⟨_, crop_of_valid cloud inside h1 h2 h3⟩

theorem crop_error_kind (cols : Nat) (cloud : List Pt) (area : List Corner) (inside : Bool) (k : Err)
    (h : crop cols cloud area inside = .error k) : k = "RuntimeError" := by
  unfold crop at h
  split at h
  · cases h; rfl
  · split at h
    · cases h; rfl
    · cases h

end PEval.Sensing
