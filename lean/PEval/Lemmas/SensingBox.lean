import PEval.Lemmas.SensingPara
import Mathlib.Tactic.LinearCombination
import Mathlib.Tactic.Positivity
/-!
Boxes (C12): the corner list of `get_corners` is a parallelogram area; the inside mask of a box in
terms of the point's coordinates in the box frame.
-/

namespace PEval.Sensing

theorem boxCorners_eq_para (b : Box) (k : ℚ) :
    boxCorners b k = paraArea b.cx b.cy (b.l / 2 * k * b.e1x) (b.l / 2 * k * b.e1y)
      (b.w / 2 * k * b.e2x) (b.w / 2 * k * b.e2y) (b.cz + b.h / 2) (b.cz - b.h / 2) := by
  unfold boxCorners paraArea Box.corner
  simp only [List.cons.injEq, Corner.mk.injEq, and_true]
  refine ⟨⟨?_, ?_⟩, ⟨?_, ?_⟩, ⟨?_, ?_⟩, ⟨?_, ?_⟩, ⟨?_, ?_⟩, ⟨?_, ?_⟩, ⟨?_, ?_⟩, ⟨?_, ?_⟩⟩ <;> ring

theorem zMin_box (b : Box) (k : ℚ) (hh : 0 ≤ b.h) : zMin (boxCorners b k) = b.cz - b.h / 2 := by
  have h1 : ¬ (b.cz + b.h / 2 < b.cz + b.h / 2) := lt_irrefl _
  have h2 : b.cz - b.h / 2 < b.cz + b.h / 2 ∨ b.cz - b.h / 2 = b.cz + b.h / 2 := by
    rcases lt_or_eq_of_le hh with h | h
    · left; linarith
    · right; rw [← h]; ring
  have h3 : ¬ (b.cz - b.h / 2 < b.cz - b.h / 2) := lt_irrefl _
  rcases h2 with h2 | h2
  · simp [zMin, boxCorners, Box.corner, h2]
  · simp [zMin, boxCorners, Box.corner, h2]

theorem zMax_box (b : Box) (k : ℚ) (hh : 0 ≤ b.h) : zMax (boxCorners b k) = b.cz + b.h / 2 := by
  have h1 : ¬ (b.cz + b.h / 2 < b.cz + b.h / 2) := lt_irrefl _
  have h2 : ¬ (b.cz + b.h / 2 < b.cz - b.h / 2) := by
    apply not_lt.mpr; linarith
  simp [zMax, boxCorners, Box.corner, h2]

/-- the determinant of the two half-axes of the scaled footprint -/
theorem box_det (b : Box) (k : ℚ) :
    (b.l / 2 * k * b.e1x) * (b.w / 2 * k * b.e2y) - (b.l / 2 * k * b.e1y) * (b.w / 2 * k * b.e2x)
      = (b.l / 2 * k) * (b.w / 2 * k) * (b.e1x * b.e2y - b.e1y * b.e2x) := by ring

theorem abs_lt_iff' (x m : ℚ) : |x| < m ↔ (x < m ∧ -m < x) := by
  rw [abs_lt]; constructor <;> intro h <;> exact ⟨h.2, h.1⟩

/-- **winding counter of a box.** `p.xy = c + ξ·e1 + η·e2` (coordinates in the box frame), scale
`k > 0`, `l, w > 0`, `det(e1,e2) ≠ 0`, `|ξ| ≠ k·l/2`, `|η| ≠ k·w/2`. -/
theorem wn_box_pos_iff (b : Box) (k ξ η : ℚ) (p : Pt)
    (hk : 0 < k) (hl : 0 < b.l) (hw : 0 < b.w) (hdet : b.e1x * b.e2y - b.e1y * b.e2x ≠ 0)
    (hx : p.x = b.cx + ξ * b.e1x + η * b.e2x) (hy : p.y = b.cy + ξ * b.e1y + η * b.e2y)
    (oξ : |ξ| ≠ b.l / 2 * k) (oη : |η| ≠ b.w / 2 * k) :
    0 < wn (boxCorners b k) p ↔ |ξ| < b.l / 2 * k ∧ |η| < b.w / 2 * k := by
  have hL : 0 < b.l / 2 * k := by positivity
  have hW : 0 < b.w / 2 * k := by positivity
  have hu : ξ = ξ / (b.l / 2 * k) * (b.l / 2 * k) := by field_simp
  have hv : η = η / (b.w / 2 * k) * (b.w / 2 * k) := by field_simp
  have key := wn_para b.cx b.cy (b.l / 2 * k * b.e1x) (b.l / 2 * k * b.e1y)
      (b.w / 2 * k * b.e2x) (b.w / 2 * k * b.e2y) (b.cz + b.h / 2) (b.cz - b.h / 2)
      (ξ / (b.l / 2 * k)) (η / (b.w / 2 * k)) p
      (by rw [box_det]; exact mul_ne_zero (mul_ne_zero hL.ne' hW.ne') hdet)
      (by rw [hx]; nth_rewrite 1 [hu]; nth_rewrite 1 [hv]; ring)
      (by rw [hy]; nth_rewrite 1 [hu]; nth_rewrite 1 [hv]; ring)
      (by intro h; rw [div_eq_one_iff_eq hL.ne'] at h
          apply oξ; rw [h]; exact abs_of_pos hL)
      (by intro h; rw [div_eq_iff hL.ne'] at h
          apply oξ; rw [h]; rw [neg_one_mul, abs_neg]; exact abs_of_pos hL)
      (by intro h; rw [div_eq_one_iff_eq hW.ne'] at h
          apply oη; rw [h]; exact abs_of_pos hW)
      (by intro h; rw [div_eq_iff hW.ne'] at h
          apply oη; rw [h]; rw [neg_one_mul, abs_neg]; exact abs_of_pos hW)
  rw [boxCorners_eq_para, key, abs_lt_iff', abs_lt_iff']
  have d1 : ∀ x m : ℚ, 0 < m → (x / m < 1 ↔ x < m) := fun x m hm => by rw [div_lt_one hm]
  have d2 : ∀ x m : ℚ, 0 < m → (-1 < x / m ↔ -m < x) := fun x m hm => by
    rw [lt_div_iff₀ hm, neg_one_mul]
  simp only [d1 _ _ hL, d2 _ _ hL, d1 _ _ hW, d2 _ _ hW]
  by_cases hin : (ξ < b.l / 2 * k ∧ -(b.l / 2 * k) < ξ ∧ η < b.w / 2 * k ∧ -(b.w / 2 * k) < η)
  · rw [if_pos hin]
    constructor
    · intro _; exact ⟨⟨hin.1, hin.2.1⟩, hin.2.2.1, hin.2.2.2⟩
    · intro _; split <;> decide
  · rw [if_neg hin]
    constructor
    · intro h; exact absurd h (by decide)
    · intro h; exact absurd ⟨h.1.1, h.1.2, h.2.1, h.2.2⟩ hin

/-- the inside mask of a box, geometrically -/
theorem keepInside_box_iff (cols : Nat) (b : Box) (k ξ η : ℚ) (p : Pt)
    (hk : 0 < k) (hl : 0 < b.l) (hw : 0 < b.w) (hh : 0 ≤ b.h) (hdet : b.e1x * b.e2y - b.e1y * b.e2x ≠ 0)
    (hx : p.x = b.cx + ξ * b.e1x + η * b.e2x) (hy : p.y = b.cy + ξ * b.e1y + η * b.e2y)
    (oξ : |ξ| ≠ b.l / 2 * k) (oη : |η| ≠ b.w / 2 * k) :
    keepInside cols (boxCorners b k) p = true ↔
      |ξ| < b.l / 2 * k ∧ |η| < b.w / 2 * k ∧
        (cols < 3 ∨ (b.cz - b.h / 2 ≤ p.z ∧ p.z ≤ b.cz + b.h / 2)) := by
  have hwn := wn_box_pos_iff b k ξ η p hk hl hw hdet hx hy oξ oη
  unfold keepInside
  rw [zMin_box b k hh, zMax_box b k hh]
  by_cases hc : cols < 3
  · simp only [hc, if_true, decide_eq_true_eq, true_or, and_true]
    rw [hwn]
  · simp only [hc, if_false, Bool.and_eq_true, decide_eq_true_eq, false_or]
    rw [hwn, and_assoc]

/-- a box with a pure yaw `(c, s)`, `c² + s² = 1` -/
def yawBox (cx cy cz c s w l h : ℚ) : Box :=
  { cx := cx, cy := cy, cz := cz, e1x := c, e1y := s, e2x := -s, e2y := c, w := w, l := l, h := h }

end PEval.Sensing
