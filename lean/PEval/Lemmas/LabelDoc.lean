import PEval.Lemmas.Label
import PEval.Gen.DocLabels
/-!
Facts about the DOCUMENTED label tables alone (`PEval.Gen.doc*`, parsed from docs/en/perception/label.md on every
run). They depend on the document only, not on the code's tables, so Lake re-checks them only when the document
changes. Restated under their property names in `PEval/Properties/C14.lean`.
-/
namespace PEval.Label

/-- documented names are written in lower case -/
theorem doc_names_lowercase :
    ∀ d ∈ [Gen.docAutoware, Gen.docAutowareMerged, Gen.docTrafficLightOther, Gen.docTrafficLightClassification],
      ∀ p ∈ d, p.1.toLower = p.1 := by decide +kernel

/-- the document's merged table is the merged image of its unmerged table, row for row as a set -/
theorem doc_merge_consistent :
    (∀ p ∈ Gen.docAutoware, (p.1, mergeImage p.2) ∈ Gen.docAutowareMerged) ∧
    (∀ q ∈ Gen.docAutowareMerged, ∃ p ∈ Gen.docAutoware, p.1 = q.1 ∧ mergeImage p.2 = q.2) := by decide +kernel

end PEval.Label
