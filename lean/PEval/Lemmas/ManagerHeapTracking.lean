import PEval.Lemmas.ManagerHeap
import PEval.Model.ManagerTracking
/-!
The heap model of the manager with its TRACKING scores made concrete: when the pure tracking part of an
`HSem` is `ManagerTracking.frameTrack` on the tracking view (`tbOf`) of the previous and the current
object results, the heap machine refines the extended state machine `PEval.ManagerTracking.trun`, so
the theorems of `Properties/C13Tracking.lean` hold of it.
-/
namespace PEval.ManagerHeap
open PEval.Manager PEval.ManagerTracking PEval

variable {Est OR C : Type}

/-- the manager's target labels and tracking configurations, and the tracking view of a list of object
results (`divide_objects(object_results, target_labels)` in the vocabulary of `Model/Clear.lean`) -/
structure TrackParams (OR : Type) where
  labels : List Nat
  cfgs : List TCfg
  tbOf : List OR → List (List TRes)

/-- the tracking part of `sem` is `evaluate_tracking` on `[previous bucket, current bucket]` per label with
the current frame's ground-truth counts.

The buckets on the right are divided by `p.labels`, the MANAGER's target labels; `evaluate_frame` divides the current
and the previous object results by `critical_object_filter_config.target_labels` (`perception_frame_result.py`:
`divide_objects(previous_result.object_results, critical…target_labels)`, `tracking_results.get(label, [])`).  NOT
guaranteed by the code; when the critical labels differ from the manager's (run against /repo, tracking task):
* permutation / superset: the tracking scores are unchanged (`TrackingMetricsScore.__init__` reads
  `object_results_dict[target_label]` by key; a label of the previous frame's dict missing in the current one is filled
  with `[]` by `.get`);
* a manager label not covered: `KeyError` in `TrackingMetricsScore.__init__` inside `evaluate_frame`, before the result is
  appended — `add_frame_result` raises and stores nothing (same mechanism as for `LabelsAgree`, see its doc comment and
  `Properties/C13Labels.lean`).
So `heap_refines_tracking_machine` is about calls whose critical filter is over the manager's labels. -/
def TracksBy (sem : HSem Est OR C (List TScore)) (p : TrackParams OR) : Prop :=
  ∀ c ors gts prev,
    sem.trackOf c ors gts prev = frameTrack p.labels p.cfgs (prev.map p.tbOf) (p.tbOf ors) (sem.detOf c ors gts)

def toTSem (sem : HSem Est OR C (List TScore)) (p : TrackParams OR) : TSem (List Est) C :=
  { labels := p.labels, cfgs := p.cfgs
    evalDet := fun f es c => pureDet sem c f es
    evalTB := fun f es c => p.tbOf (pureORs sem c f es) }

def absTRes (p : TrackParams OR) (r : HResult OR (List TScore)) : TFrameResult :=
  ⟨r.frameName, r.det, p.tbOf r.objectResults, r.track⟩

def absTState (p : TrackParams OR) (s : HState Est OR (List TScore)) : TState :=
  { dataset := s.dataset.map s.heap.frame, frameResults := s.frameResults.map (absTRes p) }

def absTOutAdded (p : TrackParams OR) : HOut OR (List TScore) → Option TFrameResult
  | .added r => some (absTRes p r)
  | _ => none

theorem absTState_addState (sem : HSem Est OR C (List TScore)) (p : TrackParams OR) (ht : TracksBy sem p)
    (s : HState Est OR (List TScore)) (fr er : Ref) (c : C) (hv : DatasetValid s.heap s.dataset) :
    absTState p (addState sem s fr er c)
      = (taddFrameResult (toTSem sem p) (absTState p s) (s.heap.frame fr) (s.heap.est er) c).1 ∧
    absTRes p (addResult sem s fr er c)
      = (taddFrameResult (toTSem sem p) (absTState p s) (s.heap.frame fr) (s.heap.est er) c).2 := by
  have hx := addState_ext sem s fr er c
  have hr : absTRes p (addResult sem s fr er c)
      = tevalFrame (toTSem sem p) (s.heap.frame fr) (s.heap.est er) c (s.frameResults.map (absTRes p)).getLast? := by
    have ht' := ht
    unfold TracksBy at ht'
    simp only [absTRes, addResult, tevalFrame, toTSem, ht', pureDet, List.getLast?_map, Option.map_map]
    cases s.frameResults.getLast? <;> rfl
  refine ⟨?_, by simp only [taddFrameResult, absTState]; exact hr⟩
  simp only [absTState, taddFrameResult]
  congr 1
  · exact List.map_congr_left (fun r hr' => hx.frame (hv r hr'))
  · simp only [addState, List.map_append, List.map_cons, List.map_nil, hr]

/-- one step: states correspond; an `add` answers with the corresponding frame result -/
theorem hstep_tsim (sem : HSem Est OR C (List TScore)) (p : TrackParams OR) (ht : TracksBy sem p) (h0 : Heap Est)
    (s : HState Est OR (List TScore)) (op : HOp C) (hx : Ext h0 s.heap) (hv : DatasetValid h0 s.dataset)
    (hop : op.validIn h0) :
    absTState p (hstep sem s op).1 = (tstep (toTSem sem p) (absTState p s) (absOp h0 op)).1 ∧
    absTOutAdded p (hstep sem s op).2 = (tstep (toTSem sem p) (absTState p s) (absOp h0 op)).2.added? := by
  have hv' : DatasetValid s.heap s.dataset := fun r hr => Nat.lt_of_lt_of_le (hv r hr) hx.length_le
  cases op with
  | add fr er c =>
    obtain ⟨h1, h2⟩ := hop
    have h1' : fr < s.heap.frames.length := Nat.lt_of_lt_of_le h1 hx.length_le
    have h2' : er < s.heap.ests.length := by rw [hx.ests_length]; exact h2
    rw [hstep_add sem s fr er c h1' h2']
    obtain ⟨e1, e2⟩ := absTState_addState sem p ht s fr er c hv'
    simp only [absOp, tstep, ← hx.frame h1, ← hx.est er, absTOutAdded, TOut.added?]
    exact ⟨e1, by rw [e2]⟩
  | scene => exact ⟨rfl, rfl⟩
  | lookup t thr => exact ⟨rfl, rfl⟩

theorem hrun_tsim (sem : HSem Est OR C (List TScore)) (p : TrackParams OR) (ht : TracksBy sem p) (h0 : Heap Est)
    (s : HState Est OR (List TScore)) (ops : List (HOp C)) (hx : Ext h0 s.heap) (hv : DatasetValid h0 s.dataset)
    (hops : ∀ op ∈ ops, op.validIn h0) :
    absTState p (hrun sem s ops).1 = (trun (toTSem sem p) (absTState p s) (ops.map (absOp h0))).1 ∧
    (hrun sem s ops).2.map (absTOutAdded p) = (trun (toTSem sem p) (absTState p s) (ops.map (absOp h0))).2.map TOut.added? := by
  induction ops generalizing s with
  | nil => exact ⟨rfl, rfl⟩
  | cons op ops ih =>
    obtain ⟨e1, e2⟩ := hstep_tsim sem p ht h0 s op hx hv (hops op List.mem_cons_self)
    have hx' : Ext h0 (hstep sem s op).1.heap := hx.trans (hstep_ext sem s op)
    have hv'' : DatasetValid h0 (hstep sem s op).1.dataset := by
      rw [hstep, hstepV_dataset]; exact hv
    obtain ⟨i1, i2⟩ := ih (hstep sem s op).1 hx' hv'' (fun o ho => hops o (List.mem_cons_of_mem _ ho))
    simp only [hrun, hrunV, List.map_cons, trun]
    simp only [hrun, hstep] at i1 i2 e1 e2
    rw [← e1, ← e2]
    exact ⟨i1, by rw [i2]⟩

end PEval.ManagerHeap
