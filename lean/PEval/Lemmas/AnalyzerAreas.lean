import PEval.Model.Analyzer
/-!
# C19 lemmas (6): areas of `generate_area_points` are disjoint, so `get_area_idx` never raises
Core Lean only (`grind` does the case analysis on the 1/3/9 explicit rectangles).
-/

set_option linter.unusedSimpArgs false
set_option linter.unnecessarySimpa false

namespace PEval.Analyzer

theorem hits1 (mx my x y : Rat) (a : Areas) (h : generateAreaPoints 1 mx my = .ok a) : (areaHits a x y).length ≤ 1 := by
  simp [generateAreaPoints] at h
  subst h
  simp [areaHits, insideArea, List.zipIdx, List.filter_cons]
  grind

theorem hits3 (mx my x y : Rat) (a : Areas) (h : generateAreaPoints 3 mx my = .ok a) : (areaHits a x y).length ≤ 1 := by
  simp [generateAreaPoints] at h
  subst h
  simp [areaHits, insideArea, List.zipIdx, List.filter_cons]
  grind

theorem hits9 (mx my x y : Rat) (a : Areas) (h : generateAreaPoints 9 mx my = .ok a) : (areaHits a x y).length ≤ 1 := by
  simp [generateAreaPoints] at h
  subst h
  simp [areaHits, insideArea, List.zipIdx, List.filter_cons]
  grind

theorem generateAreaPoints_ok (n : Nat) (mx my : Rat) (a : Areas) (h : generateAreaPoints n mx my = .ok a) :
    n = 1 ∨ n = 3 ∨ n = 9 := by
  unfold generateAreaPoints at h
  simp only at h
  split at h
  · left; assumption
  · split at h
    · right; left; assumption
    · split at h
      · right; right; assumption
      · simp at h

/-- at most one generated area contains a point -/
theorem areaHits_le_one (n : Nat) (mx my x y : Rat) (a : Areas) (h : generateAreaPoints n mx my = .ok a) :
    (areaHits a x y).length ≤ 1 := by
  rcases generateAreaPoints_ok n mx my a h with rfl | rfl | rfl
  · exact hits1 mx my x y a h
  · exact hits3 mx my x y a h
  · exact hits9 mx my x y a h

/-- `get_area_idx` never raises on generated areas: it is the total `areaOf` used by the table -/
theorem getAreaIdx_generated (n : Nat) (mx my x y : Rat) (a : Areas) (h : generateAreaPoints n mx my = .ok a) :
    getAreaIdx a x y = .ok (areaOf a x y) := by
  have hl := areaHits_le_one n mx my x y a h
  unfold areaOf getAreaIdx
  match hh : areaHits a x y with
  | [] => rfl
  | [i] => rfl
  | i :: j :: rest => rw [hh] at hl; simp at hl

theorem mem_areaHits (a : Areas) (x y : Rat) (i : Nat) :
    i ∈ areaHits a x y ↔ ∃ ur bl, a.upperRights[i]? = some ur ∧ a.bottomLefts[i]? = some bl ∧ insideArea ur bl x y = true := by
  unfold areaHits
  simp only [List.mem_map, List.mem_filter, List.mem_zipIdx_iff_getElem?, List.getElem?_map]
  constructor
  · rintro ⟨⟨b, j⟩, ⟨hget, hb⟩, rfl⟩
    simp only at hget hb
    subst hb
    cases hz : (a.upperRights.zip a.bottomLefts)[j]? with
    | none => simp [hz] at hget
    | some z =>
      obtain ⟨ur, bl⟩ := z
      have := List.getElem?_zip_eq_some.mp hz
      simp only [hz, Option.map_some, Option.some.injEq] at hget
      exact ⟨ur, bl, this.1, this.2, hget⟩
  · rintro ⟨ur, bl, h1, h2, h3⟩
    refine ⟨(true, i), ⟨?_, rfl⟩, rfl⟩
    have : (a.upperRights.zip a.bottomLefts)[i]? = some (ur, bl) := List.getElem?_zip_eq_some.mpr ⟨h1, h2⟩
    simp [this, h3]

/-- the returned index is that of a rectangle strictly containing the point; `None` means no rectangle does -/
theorem getAreaIdx_spec (a : Areas) (x y : Rat) :
    (∀ i, getAreaIdx a x y = .ok (some i) →
      ∃ ur bl, a.upperRights[i]? = some ur ∧ a.bottomLefts[i]? = some bl ∧
        bl.1 < x ∧ x < ur.1 ∧ ur.2 < y ∧ y < bl.2) ∧
    (getAreaIdx a x y = .ok none → ∀ (i : Nat) (ur bl : Rat × Rat), a.upperRights[i]? = some ur → a.bottomLefts[i]? = some bl →
        insideArea ur bl x y = false) := by
  constructor
  · intro i h
    unfold getAreaIdx at h
    match hh : areaHits a x y with
    | [] => simp [hh] at h
    | [j] =>
      simp [hh] at h
      subst h
      have : j ∈ areaHits a x y := by simp [hh]
      obtain ⟨ur, bl, h1, h2, h3⟩ := (mem_areaHits a x y j).mp this
      refine ⟨ur, bl, h1, h2, ?_⟩
      simp [insideArea] at h3
      grind
    | j :: k :: rest => simp [hh] at h
  · intro h i ur bl h1 h2
    unfold getAreaIdx at h
    match hh : areaHits a x y with
    | [] =>
      cases hin : insideArea ur bl x y with
      | false => rfl
      | true =>
        have : i ∈ areaHits a x y := (mem_areaHits a x y i).mpr ⟨ur, bl, h1, h2, hin⟩
        simp [hh] at this
    | [j] => simp [hh] at h
    | j :: k :: rest => simp [hh] at h

end PEval.Analyzer
