import PEval.Model.AP
import Mathlib.Tactic.Linarith
import Mathlib.Tactic.Ring
import Mathlib.Algebra.Order.Field.Basic
import Mathlib.Data.Rat.Defs
import Mathlib.Algebra.Order.Ring.Rat
/-!
Lemmas about the AP model, part 1: the code-shaped interpolation (`scan` + `partialArea`) equals the
all-point interpolated sum `apSpec`, and the same value written directly over the TP weights (`apW`),
on which bounds and monotonicity are proved by induction over the ranking.
-/

namespace PEval.AP

/-! ### code = spec -/

/-- recall of the next-lower index in a reversed point list, 0 below index 0 -/
def prevR : List Pt → Rat
  | [] => 0
  | (_, r) :: _ => r

/-- the spec summed from the last index down; `m` = max precision over the indices already visited -/
def revAux (m : Rat) : List Pt → Rat
  | [] => 0
  | (p, r) :: rest => (r - prevR rest) * max p m + revAux (max p m) rest

theorem scan_inv (rest : List Pt) (m rm : Rat) (st : List Pt) :
    stackArea (scan rest ((m, rm) :: st))
    = partialArea ((m, rm) :: st) + m * (rm - prevR rest) + revAux m rest := by
  induction rest generalizing m rm st with
  | nil => simp [scan, prevR, revAux, stackArea]
  | cons hd tl ih =>
    obtain ⟨p, r⟩ := hd
    by_cases h : p > m
    · simp only [scan, h, if_true]
      rw [ih p r ((m, rm) :: st)]
      have hmax : max p m = p := max_eq_left (le_of_lt h)
      simp only [partialArea, prevR, revAux, hmax]
      ring
    · simp only [scan, h, if_false]
      rw [ih m rm st]
      have hmax : max p m = m := max_eq_right (not_lt.mp h)
      simp only [prevR, revAux, hmax]
      ring

/-- forward spec with a floor `m` under every suffix maximum -/
def specFloor (m : Rat) (prev : Rat) : List Pt → Rat
  | [] => 0
  | (p, r) :: rest => (r - prev) * maxWith (max p m) (rest.map Prod.fst) + specFloor m r rest

/-- recall of the last point, `prev` if there is none -/
def lastR (prev : Rat) : List Pt → Rat
  | [] => prev
  | (_, r) :: rest => lastR r rest

theorem lastR_append_singleton (prev : Rat) (l : List Pt) (p r : Rat) :
    lastR prev (l ++ [(p, r)]) = r := by
  induction l generalizing prev with
  | nil => rfl
  | cons a t ih => obtain ⟨q, s⟩ := a; simp [lastR, ih]

theorem prevR_eq_lastR_reverse (l : List Pt) : prevR l = lastR 0 l.reverse := by
  cases l with
  | nil => rfl
  | cons a t => obtain ⟨q, s⟩ := a; simp [prevR, lastR_append_singleton]

theorem maxWith_append_singleton (m p : Rat) (l : List Rat) :
    maxWith m (l ++ [p]) = maxWith (max p m) l := by
  simp [maxWith, List.foldr_append]

theorem specFloor_append (m prev : Rat) (l : List Pt) (p r : Rat) :
    specFloor m prev (l ++ [(p, r)]) = specFloor (max p m) prev l + (r - lastR prev l) * max p m := by
  induction l generalizing prev with
  | nil => simp [specFloor, lastR, maxWith]
  | cons a t ih =>
    obtain ⟨p0, r0⟩ := a
    simp only [List.cons_append, specFloor, List.map_append, List.map_cons, List.map_nil,
      maxWith_append_singleton, ih, lastR]
    rw [max_left_comm p p0 m]
    ring

theorem apSpecFrom_append (prev : Rat) (l : List Pt) (p r : Rat) :
    apSpecFrom prev (l ++ [(p, r)]) = specFloor p prev l + (r - lastR prev l) * p := by
  induction l generalizing prev with
  | nil => simp [apSpecFrom, specFloor, lastR, maxWith]
  | cons a t ih =>
    obtain ⟨p0, r0⟩ := a
    simp only [List.cons_append, apSpecFrom, specFloor, List.map_append, List.map_cons, List.map_nil,
      maxWith_append_singleton, ih, lastR]
    rw [max_comm p p0]
    ring

theorem revAux_eq_specFloor (m : Rat) (rl : List Pt) : revAux m rl = specFloor m 0 rl.reverse := by
  induction rl generalizing m with
  | nil => rfl
  | cons a t ih =>
    obtain ⟨p, r⟩ := a
    simp only [revAux, List.reverse_cons, specFloor_append, ih, prevR_eq_lastR_reverse]
    ring

/-- the value `_calculate_ap` computes is the all-point interpolated area -/
theorem calculateAp_eq_apSpec (ps rs : List Rat) : calculateAp ps rs = apSpec ps rs := by
  unfold calculateAp apSpec
  generalize hpts : ps.zip rs = pts
  have hrev : pts = pts.reverse.reverse := (List.reverse_reverse pts).symm
  generalize hrl : pts.reverse = rl at hrev
  cases rl with
  | nil => subst hrev; rfl
  | cons a rest =>
    obtain ⟨p, r⟩ := a
    have h := scan_inv rest p r []
    show stackArea (scan rest [(p, r)]) = _
    rw [h, hrev, List.reverse_cons, apSpecFrom_append, revAux_eq_specFloor, prevR_eq_lastR_reverse]
    simp [partialArea]
    ring

/-! ### the same sum over the TP weights -/

/-- AP of the ranking whose remaining TP weights are `ws`, the next index being `i` and the TP weight
accumulated so far `c`: `Σ_j w_j/G · max_{k ≥ j} cum_k/(k+1)` -/
def apW (G : Nat) : Nat → Rat → List Rat → Rat
  | _, _, [] => 0
  | i, c, w :: ws =>
    recallOf G w * maxWith ((c + w) / ((i : Rat) + 1)) (precFrom (i + 1) (cumsumFrom (c + w) ws))
      + apW G (i + 1) (c + w) ws

theorem length_cumsumFrom (c : Rat) (ws : List Rat) : (cumsumFrom c ws).length = ws.length := by
  induction ws generalizing c with
  | nil => rfl
  | cons w t ih => simp [cumsumFrom, ih]

theorem length_precFrom (i : Nat) (ts : List Rat) : (precFrom i ts).length = ts.length := by
  induction ts generalizing i with
  | nil => rfl
  | cons w t ih => simp [precFrom, ih]

theorem recallOf_add (G : Nat) (a b : Rat) : recallOf G (a + b) = recallOf G a + recallOf G b := by
  unfold recallOf
  split
  · ring
  · simp

theorem recallOf_zero (G : Nat) : recallOf G 0 = 0 := by
  unfold recallOf; split <;> simp

theorem recallOf_nonneg (G : Nat) {a : Rat} (h : 0 ≤ a) : 0 ≤ recallOf G a := by
  unfold recallOf
  split
  · exact div_nonneg h (by exact_mod_cast Nat.zero_le G)
  · exact le_refl 0

theorem recallOf_mono (G : Nat) {a b : Rat} (h : a ≤ b) : recallOf G a ≤ recallOf G b := by
  unfold recallOf
  split
  · exact div_le_div_of_nonneg_right h (by exact_mod_cast Nat.zero_le G)
  · exact le_refl 0

theorem recallOf_le_one (G : Nat) {a : Rat} (h : a ≤ (G : Rat)) : recallOf G a ≤ 1 := by
  unfold recallOf
  split
  · next hG =>
    have : (0 : Rat) < (G : Rat) := by exact_mod_cast hG
    exact (div_le_one this).2 h
  · exact zero_le_one

theorem apSpec_eq_apW (G i : Nat) (c : Rat) (ws : List Rat) :
    apSpecFrom (recallOf G c) ((precFrom i (cumsumFrom c ws)).zip (recalls G (cumsumFrom c ws)))
      = apW G i c ws := by
  induction ws generalizing i c with
  | nil => rfl
  | cons w t ih =>
    have hlen : (precFrom (i + 1) (cumsumFrom (c + w) t)).length
        ≤ (recalls G (cumsumFrom (c + w) t)).length := by
      simp [recalls, length_precFrom, length_cumsumFrom]
    simp only [cumsumFrom, precFrom, recalls, List.map_cons, List.zip_cons_cons, apSpecFrom, apW]
    have := ih (i + 1) (c + w)
    simp only [recalls] at this hlen
    rw [this, List.map_fst_zip hlen, recallOf_add]
    ring

/-! ### `maxWith` -/

theorem le_maxWith (m : Rat) (ps : List Rat) : m ≤ maxWith m ps := by
  induction ps with
  | nil => exact le_refl m
  | cons p t ih => exact le_trans ih (le_max_right p _)

theorem maxWith_le {m b : Rat} {ps : List Rat} (hm : m ≤ b) (hp : ∀ p ∈ ps, p ≤ b) :
    maxWith m ps ≤ b := by
  induction ps with
  | nil => exact hm
  | cons p t ih =>
    simp only [maxWith, List.foldr_cons]
    exact max_le (hp p (List.mem_cons_self ..)) (ih (fun q hq => hp q (List.mem_cons_of_mem _ hq)))

theorem maxWith_mono {m m' : Rat} {ps ps' : List Rat} (hm : m ≤ m')
    (hp : List.Forall₂ (· ≤ ·) ps ps') : maxWith m ps ≤ maxWith m' ps' := by
  induction hp with
  | nil => exact hm
  | cons hab _ ih =>
    simp only [maxWith, List.foldr_cons]
    exact max_le_max hab ih

/-! ### pointwise order of cumulative sums and precisions -/

theorem cumsumFrom_mono {c c' : Rat} {ws ws' : List Rat} (hc : c ≤ c')
    (h : List.Forall₂ (· ≤ ·) ws ws') :
    List.Forall₂ (· ≤ ·) (cumsumFrom c ws) (cumsumFrom c' ws') := by
  induction h generalizing c c' with
  | nil => exact .nil
  | cons hab _ ih => exact .cons (add_le_add hc hab) (ih (add_le_add hc hab))

theorem precFrom_mono (i : Nat) {ts ts' : List Rat} (h : List.Forall₂ (· ≤ ·) ts ts') :
    List.Forall₂ (· ≤ ·) (precFrom i ts) (precFrom i ts') := by
  induction h generalizing i with
  | nil => exact .nil
  | cons hab _ ih =>
    refine .cons (div_le_div_of_nonneg_right hab ?_) (ih (i + 1))
    have : (0 : Rat) ≤ (i : Rat) := by exact_mod_cast Nat.zero_le i
    linarith

theorem prec_le_one {i : Nat} {c : Rat} {ws : List Rat} (hc : c ≤ (i : Rat))
    (hw : ∀ w ∈ ws, w ≤ 1) : ∀ x ∈ precFrom i (cumsumFrom c ws), x ≤ 1 := by
  induction ws generalizing i c with
  | nil => intro x hx; cases hx
  | cons w t ih =>
    intro x hx
    have hw1 : w ≤ 1 := hw w (List.mem_cons_self ..)
    have hpos : (0 : Rat) < (i : Rat) + 1 := by
      have : (0 : Rat) ≤ (i : Rat) := by exact_mod_cast Nat.zero_le i
      linarith
    simp only [cumsumFrom, precFrom, List.mem_cons] at hx
    rcases hx with rfl | hx
    · exact (div_le_one hpos).2 (by linarith)
    · refine ih (i := i + 1) (c := c + w) ?_ (fun v hv => hw v (List.mem_cons_of_mem _ hv)) x hx
      push_cast
      linarith

/-! ### bounds and monotonicity of `apW` -/

theorem apW_nonneg (G : Nat) {i : Nat} {c : Rat} {ws : List Rat} (hc : 0 ≤ c)
    (hw : ∀ w ∈ ws, 0 ≤ w) : 0 ≤ apW G i c ws := by
  induction ws generalizing i c with
  | nil => exact le_refl 0
  | cons w t ih =>
    have hw0 : 0 ≤ w := hw w (List.mem_cons_self ..)
    have hi : (0 : Rat) < (i : Rat) + 1 := by
      have : (0 : Rat) ≤ (i : Rat) := by exact_mod_cast Nat.zero_le i
      linarith
    have h1 : 0 ≤ (c + w) / ((i : Rat) + 1) := div_nonneg (by linarith) (le_of_lt hi)
    have h2 := le_trans h1 (le_maxWith _ (precFrom (i + 1) (cumsumFrom (c + w) t)))
    have h3 := ih (i := i + 1) (c := c + w) (by linarith) (fun v hv => hw v (List.mem_cons_of_mem _ hv))
    simp only [apW]
    exact add_nonneg (mul_nonneg (recallOf_nonneg G hw0) h2) h3

theorem apW_le_recall_total (G : Nat) {i : Nat} {c : Rat} {ws : List Rat} (hc0 : 0 ≤ c)
    (hc : c ≤ (i : Rat)) (hw : ∀ w ∈ ws, 0 ≤ w ∧ w ≤ 1) : apW G i c ws ≤ recallOf G ws.sum := by
  induction ws generalizing i c with
  | nil => simp [apW, recallOf_zero]
  | cons w t ih =>
    obtain ⟨hw0, hw1⟩ := hw w (List.mem_cons_self ..)
    have hi : (0 : Rat) < (i : Rat) + 1 := by
      have : (0 : Rat) ≤ (i : Rat) := by exact_mod_cast Nat.zero_le i
      linarith
    have hc' : c + w ≤ ((i + 1 : Nat) : Rat) := by push_cast; linarith
    have hM : maxWith ((c + w) / ((i : Rat) + 1)) (precFrom (i + 1) (cumsumFrom (c + w) t)) ≤ 1 :=
      maxWith_le ((div_le_one hi).2 (by push_cast at hc'; linarith))
        (prec_le_one hc' (fun v hv => (hw v (List.mem_cons_of_mem _ hv)).2))
    have h3 := ih (i := i + 1) (c := c + w) (by linarith) hc'
      (fun v hv => hw v (List.mem_cons_of_mem _ hv))
    have hr := recallOf_nonneg G hw0
    simp only [apW, List.sum_cons, recallOf_add]
    have : recallOf G w * maxWith ((c + w) / ((i : Rat) + 1)) (precFrom (i + 1) (cumsumFrom (c + w) t))
        ≤ recallOf G w := by
      calc _ ≤ recallOf G w * 1 := mul_le_mul_of_nonneg_left hM hr
        _ = recallOf G w := mul_one _
    linarith

theorem apW_mono (G : Nat) {i : Nat} {c c' : Rat} {ws ws' : List Rat} (hc0 : 0 ≤ c) (hc : c ≤ c')
    (h : List.Forall₂ (fun w w' => 0 ≤ w ∧ w ≤ w') ws ws') : apW G i c ws ≤ apW G i c' ws' := by
  induction h generalizing i c c' with
  | nil => exact le_refl 0
  | @cons w w' t t' hab htl ih =>
    obtain ⟨hw0, hww⟩ := hab
    have hle : List.Forall₂ (· ≤ ·) t t' := by
      clear ih
      induction htl with
      | nil => exact .nil
      | cons h _ ih' => exact .cons h.2 ih'
    have hi : (0 : Rat) < (i : Rat) + 1 := by
      have : (0 : Rat) ≤ (i : Rat) := by exact_mod_cast Nat.zero_le i
      linarith
    have hcw : c + w ≤ c' + w' := add_le_add hc hww
    have hM := maxWith_mono (div_le_div_of_nonneg_right hcw (le_of_lt hi))
      (precFrom_mono (i + 1) (cumsumFrom_mono hcw hle))
    have h1 : 0 ≤ (c + w) / ((i : Rat) + 1) := div_nonneg (by linarith) (le_of_lt hi)
    have hM0 := le_trans h1 (le_maxWith _ (precFrom (i + 1) (cumsumFrom (c + w) t)))
    have hr0 := recallOf_nonneg G hw0
    have hr := recallOf_mono G hww
    have h3 := ih (i := i + 1) (c := c + w) (c' := c' + w') (by linarith) hcw
    simp only [apW]
    have := mul_le_mul hr hM hM0 (le_trans hr0 hr)
    linarith

theorem apW_zero (G : Nat) {i : Nat} {c : Rat} {ws : List Rat} (hw : ∀ w ∈ ws, w = 0) :
    apW G i c ws = 0 := by
  induction ws generalizing i c with
  | nil => rfl
  | cons w t ih =>
    have hw0 : w = 0 := hw w (List.mem_cons_self ..)
    simp only [apW, hw0, recallOf_zero, zero_mul, zero_add]
    have := ih (i := i + 1) (c := c + 0) (fun v hv => hw v (List.mem_cons_of_mem _ hv))
    simpa using this

/-- `k` weight-1 TPs ranked first on top of `i` earlier weight-1 TPs contribute at least `k/G` -/
theorem apW_perfect_ge (G : Nat) (hG : 0 < G) (k : Nat) {i : Nat} {zs : List Rat}
    (hz : ∀ z ∈ zs, 0 ≤ z) :
    (k : Rat) / (G : Rat) ≤ apW G i (i : Rat) (List.replicate k 1 ++ zs) := by
  induction k generalizing i with
  | zero =>
    simp only [Nat.cast_zero, zero_div, List.replicate_zero, List.nil_append]
    exact apW_nonneg G (by exact_mod_cast Nat.zero_le i) hz
  | succ k ih =>
    have hi : (0 : Rat) < (i : Rat) + 1 := by
      have : (0 : Rat) ≤ (i : Rat) := by exact_mod_cast Nat.zero_le i
      linarith
    have hGq : (0 : Rat) < (G : Rat) := by exact_mod_cast hG
    have h1 : ((i : Rat) + 1) / ((i : Rat) + 1) = 1 := div_self (ne_of_gt hi)
    have hM := le_maxWith (((i : Rat) + 1) / ((i : Rat) + 1))
      (precFrom (i + 1) (cumsumFrom ((i : Rat) + 1) (List.replicate k 1 ++ zs)))
    rw [h1] at hM
    have hr : recallOf G 1 = 1 / (G : Rat) := by simp [recallOf, hG]
    have hr0 : 0 ≤ recallOf G 1 := recallOf_nonneg G zero_le_one
    have h3 := ih (i := i + 1)
    simp only [List.replicate_succ, List.cons_append, apW]
    have hcast : ((i + 1 : Nat) : Rat) = (i : Rat) + 1 := by push_cast; ring
    rw [hcast] at h3
    have : recallOf G 1 ≤ recallOf G 1 *
        maxWith (((i : Rat) + 1) / ((i : Rat) + 1))
          (precFrom (i + 1) (cumsumFrom ((i : Rat) + 1) (List.replicate k 1 ++ zs))) := by
      rw [h1]
      calc recallOf G 1 = recallOf G 1 * 1 := (mul_one _).symm
        _ ≤ _ := mul_le_mul_of_nonneg_left hM hr0
    have hsplit : ((k + 1 : Nat) : Rat) / (G : Rat) = 1 / (G : Rat) + (k : Rat) / (G : Rat) := by
      push_cast; ring
    rw [hsplit]
    rw [hr] at this
    rw [hr]
    linarith

end PEval.AP
