import PEval.Lemmas.ClearSwitch
import PEval.Lemmas.MatchingResults
/-!
Helper lemmas for C05, part 7.

1. Frames PRODUCED by the one-to-one matcher (`Matching.getObjectResults`) out of object lists with
   unique track ids are `TrackOneToOne`; so is every sub-frame (a per-label bucket); hence
   `PrevOneToOne` holds for pipeline-produced histories under every configuration.
2. The scan of the previous frame sees exactly the previous results that pass THEIR OWN test under
   the CURRENT result's threshold (`scan_filter`): how a previous result was booked in its own frame
   (carry-over) plays no role.
3. The manager's per-label buckets (`bucket`, `sceneInputs`, `frameInputs`): a result whose ground
   truth has another label than the bucket it is filed in is ignored by that bucket's CLEAR instance
   (known finding C05-N1), stated exactly.
-/
namespace PEval.Clear

/-! ### 1. one-to-one frames -/

/-- threshold-free one-to-one: among the results WITH ground truth, same estimated track iff same
ground-truth track -/
def TrackOneToOne (frame : List Res) : Prop :=
  ∀ p ∈ frame, ∀ q ∈ frame, bothGt p q = true → sameEst p q = sameGt p q

theorem isTp_gt_isSome {cfg : Cfg} {t : Rat} {r : Res} (h : isTp cfg t r = true) : r.gt.isSome = true := by
  unfold isTp at h
  cases hg : r.gt with
  | none => simp [hg] at h
  | some g => rfl

theorem TrackOneToOne.oneToOne {frame : List Res} (h : TrackOneToOne frame) (cfg : Cfg) (t : Rat) :
    OneToOne cfg t frame := by
  intro p hp q hq h1 h2
  exact h p hp q hq (by simp [bothGt, isTp_gt_isSome h1, isTp_gt_isSome h2])

theorem TrackOneToOne.subset {f f' : List Res} (h : TrackOneToOne f) (hs : f' ⊆ f) : TrackOneToOne f' :=
  fun p hp q hq => h p (hs hp) q (hs hq)

theorem trackOneToOne_nil : TrackOneToOne [] := fun p hp => by cases hp

theorem prevOneToOne_of_track (cfg : Cfg) : ∀ (hist : List (List Res)), (∀ f ∈ hist, TrackOneToOne f) →
    PrevOneToOne cfg hist
  | [], _ => trivial
  | [_], _ => trivial
  | prev :: cur :: rest, h =>
    ⟨fun lt _ => (h prev (by simp)).oneToOne cfg lt.2,
      prevOneToOne_of_track cfg (cur :: rest) (fun f hf => h f (List.mem_cons_of_mem _ hf))⟩

/-- what CLEAR reads of the objects behind a matcher result: track id and label of estimate `i`, the
ground-truth side of ground truth `j`, the matching value / label agreement of the pair, TP weight -/
structure TrackAttrs where
  est : Nat → Nat × Nat
  gt : Nat → Gt
  value : Nat → Nat → Rat
  labelOk : Nat → Nat → Bool
  w : Nat → Nat → Rat

/-- one matcher result (positions in the two lists) as CLEAR reads it -/
def toClearRes (a : TrackAttrs) (r : Matching.Res) : Res :=
  match r.2 with
  | none => ⟨(a.est r.1).1, (a.est r.1).2, none, 0, false, 1⟩
  | some j => ⟨(a.est r.1).1, (a.est r.1).2, some (a.gt j), a.value r.1 j, a.labelOk r.1 j, a.w r.1 j⟩

def toClearFrame (a : TrackAttrs) (rs : List Matching.Res) : List Res := rs.map (toClearRes a)

/-- unique track ids per frame: different estimates differ in (uuid, label), different ground truths in uuid.

An INPUT assumption that Python never checks: `DynamicObject.uuid: Optional[str] = None` (`common/object.py`, the
constructor's default), and `_is_id_switched` / `_is_same_match` (`clear.py`) compare
`cur.estimated_object.uuid == prev.estimated_object.uuid` — `None == None` is `True`, so all estimates of one label
without a uuid are ONE track for CLEAR; a detector that re-uses an id inside a frame is not rejected either.  Real
inputs that satisfy it: a tracker's output (one uuid per track) and every loaded dataset (`instance_token`).  When
it fails the matcher is still one-to-one on OBJECTS, but the frame is not `TrackOneToOne`: the count then depends on
which previous result the scan meets first, and a frame-to-frame identical pairing is booked a switch —
`C05.shared_uuid_counts_a_switch` (Properties/C05.lean) computes the code's count on the smallest instance. -/
structure UniqueTracks (a : TrackAttrs) (nE nG : Nat) : Prop where
  est : ∀ i < nE, ∀ i' < nE, a.est i = a.est i' → i = i'
  gt : ∀ j < nG, ∀ j' < nG, (a.gt j).id = (a.gt j').id → j = j'

theorem eq_of_nodup_map {α β : Type} (f : α → β) : ∀ {l : List α}, (l.map f).Nodup → ∀ {a b : α},
    a ∈ l → b ∈ l → f a = f b → a = b
  | [], _, _, _, ha, _, _ => by cases ha
  | x :: t, h, a, b, ha, hb, e => by
    rw [List.map_cons, List.nodup_cons] at h
    rcases List.mem_cons.1 ha with rfl | ha' <;> rcases List.mem_cons.1 hb with rfl | hb'
    · rfl
    · exact absurd (List.mem_map.2 ⟨b, hb', e.symm⟩) h.1
    · exact absurd (List.mem_map.2 ⟨a, ha', e⟩) h.1
    · exact eq_of_nodup_map f h.2 ha' hb' e

theorem res_eq_of_fst {rs : List Matching.Res} (h : (rs.map (·.1)).Nodup) {r r' : Matching.Res}
    (hr : r ∈ rs) (hr' : r' ∈ rs) (e : r.1 = r'.1) : r = r' := eq_of_nodup_map (·.1) h hr hr' e

theorem res_eq_of_gt {rs : List Matching.Res} (h : (Matching.usedGts rs).Nodup) {r r' : Matching.Res} {j : Nat}
    (hr : r ∈ rs) (hr' : r' ∈ rs) (e : r.2 = some j) (e' : r'.2 = some j) : r = r' := by
  induction rs with
  | nil => cases hr
  | cons x t ih =>
    have hx : Matching.usedGts (x :: t) = (match x.2 with | some k => k :: Matching.usedGts t | none => Matching.usedGts t) := by
      unfold Matching.usedGts
      cases hx2 : x.2 <;> simp [hx2]
    have hmem : ∀ s ∈ t, s.2 = some j → j ∈ Matching.usedGts t := by
      intro s hs es
      exact List.mem_filterMap.2 ⟨s, hs, es⟩
    rw [hx] at h
    rcases List.mem_cons.1 hr with rfl | hrt <;> rcases List.mem_cons.1 hr' with rfl | hrt'
    · rfl
    · rw [e] at h
      exact absurd (hmem _ hrt' e') (List.nodup_cons.1 h).1
    · rw [e'] at h
      exact absurd (hmem _ hrt e) (List.nodup_cons.1 h).1
    · refine ih ?_ hrt hrt'
      cases hx2 : x.2 with
      | none => simpa [hx2] using h
      | some k => rw [hx2] at h; exact (List.nodup_cons.1 h).2

/-- a frame built from ANY one-to-one result list (each estimate position and each ground-truth position at
most once) over objects with unique track ids is one-to-one -/
theorem trackOneToOne_of_results (a : TrackAttrs) {nE nG : Nat} (hu : UniqueTracks a nE nG)
    {rs : List Matching.Res} (hE : (rs.map (·.1)).Nodup) (hEb : ∀ r ∈ rs, r.1 < nE)
    (hG : (Matching.usedGts rs).Nodup) (hGb : ∀ j ∈ Matching.usedGts rs, j < nG) :
    TrackOneToOne (toClearFrame a rs) := by
  intro p hp q hq hb
  obtain ⟨r, hr, rfl⟩ := List.mem_map.1 hp
  obtain ⟨r', hr', rfl⟩ := List.mem_map.1 hq
  rcases r with ⟨i, gj⟩
  rcases r' with ⟨i', gj'⟩
  cases gj with
  | none => simp [bothGt, toClearRes] at hb
  | some j =>
    cases gj' with
    | none => simp [bothGt, toClearRes] at hb
    | some j' =>
      have hj : j < nG := hGb j (List.mem_filterMap.2 ⟨_, hr, rfl⟩)
      have hj' : j' < nG := hGb j' (List.mem_filterMap.2 ⟨_, hr', rfl⟩)
      have hi := hEb _ hr
      have hi' := hEb _ hr'
      by_cases hre : ((i, some j) : Matching.Res) = (i', some j')
      · cases hre
        simp [sameEst, sameGt, toClearRes]
      · have h1 : i ≠ i' := fun e => hre (res_eq_of_fst hE hr hr' e)
        have h2 : j ≠ j' := fun e => hre (res_eq_of_gt hG hr hr' rfl (by rw [e]))
        have h3 : a.est i ≠ a.est i' := fun e => h1 (hu.est i hi i' hi' e)
        have h4 : (a.gt j).id ≠ (a.gt j').id := fun e => h2 (hu.gt j hj j' hj' e)
        have h5 : sameGt (toClearRes a (i, some j)) (toClearRes a (i', some j')) = false := by
          simp [sameGt, toClearRes, h4]
        have h6 : sameEst (toClearRes a (i, some j)) (toClearRes a (i', some j')) = false := by
          unfold sameEst toClearRes
          simp only
          cases hx : ((a.est i).1 == (a.est i').1) <;> cases hy : ((a.est i).2 == (a.est i').2) <;> simp
          exact h3 (Prod.ext (by simpa using hx) (by simpa using hy))
        rw [h5, h6]

/-- the matcher's answer uses every estimate position and every ground-truth position at most once
(the facts registered as `C01.results_est_nodup`, `C01.results_gt_nodup`) -/
theorem matcher_results_one_to_one {c : Matching.Cfg} {sc : Matching.Scene} {rs : List Matching.Res}
    (h : Matching.getObjectResults c sc = .ok rs) :
    (rs.map (·.1)).Nodup ∧ (∀ r ∈ rs, r.1 < sc.ests.length) ∧
    (Matching.usedGts rs).Nodup ∧ ∀ j ∈ Matching.usedGts rs, j < sc.gts.length := by
  open Matching in
  have hinv := matchAll_inv (mkTbl c sc) sc.ests.length sc.gts.length
  have hperm := hinv.permE List.nodup_range
  have hnd := hperm.nodup_iff.2 List.nodup_range
  rw [getObjectResults_ok h]
  refine ⟨?_, ?_, ?_, ?_⟩
  · rw [resultsOf_map_fst]
    cases c.fpValidation
    · exact hnd
    · simpa using (List.nodup_append.1 hnd).1
  · intro r hr
    have hm : r.1 ∈ (resultsOf c.fpValidation _).map (·.1) := List.mem_map.2 ⟨r, hr, rfl⟩
    rw [resultsOf_map_fst] at hm
    have : r.1 ∈ (matchAll (mkTbl c sc) sc.ests.length sc.gts.length).pairs.map (·.1) ++
        (matchAll (mkTbl c sc) sc.ests.length sc.gts.length).es := by
      cases hb : c.fpValidation <;> simp only [hb] at hm
      · exact hm
      · exact List.mem_append.2 (Or.inl (by simpa using hm))
    exact List.mem_range.1 (hperm.mem_iff.1 this)
  · rw [usedGts_resultsOf]; exact hinv.pG
  · rw [usedGts_resultsOf]
    intro j hj
    obtain ⟨p, hp, rfl⟩ := List.mem_map.1 hj
    exact List.mem_range.1 (hinv.subG p hp)

/-- a frame of CLEAR inputs is PRODUCED BY THE MATCHER: it is the translation of an answer of
`get_object_results` over object lists with unique track ids -/
def MatcherFrame (f : List Res) : Prop :=
  ∃ (c : Matching.Cfg) (sc : Matching.Scene) (rs : List Matching.Res) (a : TrackAttrs),
    Matching.getObjectResults c sc = .ok rs ∧ UniqueTracks a sc.ests.length sc.gts.length ∧
    f = toClearFrame a rs

theorem MatcherFrame.trackOneToOne {f : List Res} (h : MatcherFrame f) : TrackOneToOne f := by
  obtain ⟨c, sc, rs, a, hrs, hu, rfl⟩ := h
  obtain ⟨h1, h2, h3, h4⟩ := matcher_results_one_to_one hrs
  exact trackOneToOne_of_results a hu h1 h2 h3 h4

/-! ### 2. what the scan sees of the previous frame -/

/-- the scan reads the previous frame through the filter "passes its own test under the current result's
threshold" -/
theorem scan_filter (cfg : Cfg) (t : Rat) (c : Res) (prev : List Res) :
    scan cfg t c prev = scan cfg t c (prev.filter (isTp cfg t)) := by
  induction prev with
  | nil => rfl
  | cons p ps ih =>
    cases hp : isTp cfg t p with
    | false => simp [scan, hp, ih]
    | true =>
      rw [List.filter_cons_of_pos hp]
      simp only [scan, hp, Bool.not_true, Bool.false_eq_true, if_false]
      rw [ih]

theorem scan_nothing_of_no_own_tp (cfg : Cfg) (t : Rat) (c : Res) (prev : List Res)
    (h : ∀ p ∈ prev, isTp cfg t p = false) : scan cfg t c prev = .nothing := by
  rw [scan_filter]
  have : prev.filter (isTp cfg t) = [] := List.filter_eq_nil_iff.2 (fun p hp => by simp [h p hp])
  rw [this]; rfl

/-- a previous frame none of whose results passes its own test is invisible: the current result is booked by its
own test alone and no switch is booked with it – whatever those previous results were booked as in their frame -/
theorem outcome_of_no_own_tp (cfg : Cfg) (prev : List Res) (c : Res) (t : Rat)
    (ht : labelThreshold cfg (keyLabel c) = some t) (h : ∀ p ∈ prev, isTp cfg t p = false) :
    outcome cfg prev c = (if isTp cfg t c then .tp false else .fp) ∧ countsSwitch cfg prev c = false := by
  have hs := scan_nothing_of_no_own_tp cfg t c prev h
  have ho : outcome cfg prev c = (if isTp cfg t c then .tp false else .fp) := by
    unfold outcome; rw [ht]; simp only [hs]
  refine ⟨ho, ?_⟩
  unfold countsSwitch
  rw [ho]
  cases isTp cfg t c <;> rfl

/-- the OTHER reading of "a TP in the previous frame": the previous result was BOOKED TP in its own frame
(needs the frame before, `pp`) -/
def switchedTpBooked (cfg : Cfg) (pp prev : List Res) (c : Res) : Bool :=
  match labelThreshold cfg (keyLabel c) with
  | none => false
  | some t => isTp cfg t c && prev.any (fun p => countsTp cfg pp p && conflict c p)

/-- the two readings agree whenever "booked TP" and "passes its own test under the current threshold" agree on
the previous frame (no failing result carried over, no passing result skipped) -/
theorem switchedTp_eq_booked (cfg : Cfg) (pp prev : List Res) (c : Res)
    (h : ∀ t, labelThreshold cfg (keyLabel c) = some t → ∀ p ∈ prev, countsTp cfg pp p = isTp cfg t p) :
    switchedTp cfg prev c = switchedTpBooked cfg pp prev c := by
  unfold switchedTp switchedTpBooked
  cases ht : labelThreshold cfg (keyLabel c) with
  | none => rfl
  | some t =>
    simp only
    congr 1
    rw [Bool.eq_iff_iff, List.any_eq_true, List.any_eq_true]
    constructor
    · rintro ⟨p, hp, hh⟩; exact ⟨p, hp, by rw [h t ht p hp]; exact hh⟩
    · rintro ⟨p, hp, hh⟩; exact ⟨p, hp, by rw [← h t ht p hp]; exact hh⟩

/-! ### 3. the manager's per-label buckets (known finding C05-N1) -/

theorem mem_bucket {targets : List Nat} {l : Nat} {rs : List Res} {r : Res} :
    r ∈ bucket targets l rs ↔ r ∈ rs ∧
      ((r.estLabel ∈ targets ∧ r.estLabel = l) ∨ (r.estLabel ∉ targets ∧ ∃ g, r.gt = some g ∧ g.label = l)) := by
  unfold bucket bucketLabel
  rw [List.mem_filter]
  apply and_congr Iff.rfl
  by_cases hc : r.estLabel ∈ targets
  · simp [hc]
  · cases hg : r.gt with
    | none => simp [hc]
    | some g => simp [hc]

theorem bucket_subset (targets : List Nat) (l : Nat) (rs : List Res) : bucket targets l rs ⊆ rs :=
  fun _ h => (List.mem_filter.1 h).1

/-- the CLEAR instance of one target label evaluates exactly the results whose KEY label (ground truth's label
if any, else the estimate's) is that label -/
theorem evaluated_single (mx : Bool) (l : Nat) (thr : Rat) (r : Res) :
    evaluated ⟨mx, [(l, thr)]⟩ r = (keyLabel r == l) := by
  unfold evaluated labelThreshold
  simp only [List.find?_cons, List.find?_nil]
  by_cases h : keyLabel r = l
  · simp [h]
  · have h' : ¬ l = keyLabel r := fun e => h e.symm
    cases hb : (l == keyLabel r)
    · simp [h]
    · simp at hb; exact absurd hb h'

/-- filed in bucket `l` although the ground truth's label is another one -/
def crossLabel (l : Nat) (r : Res) : Bool := !(keyLabel r == l)

/-- a cross-label result adds nothing to the bucket's CLEAR instance: neither TP nor FP nor a switch nor score -/
theorem resStep_crossLabel (mx : Bool) (l : Nat) (thr : Rat) (prev : List Res) (r : Res)
    (h : crossLabel l r = true) : resStep ⟨mx, [(l, thr)]⟩ prev r = Acc.zero := by
  have he : evaluated ⟨mx, [(l, thr)]⟩ r = false := by
    rw [evaluated_single]; simpa [crossLabel] using h
  rw [resStep_eq_outcome, (outcome_skipped_iff _ prev r).mpr he]
  rfl

theorem countP_events (f : Res → Bool) : ∀ hist : List (List Res),
    (events hist).countP (fun e => f e.2) = (hist.drop 1).flatten.countP f
  | [] => by simp [events]
  | [_] => by simp [events]
  | prev :: cur :: rest => by
    have ih := countP_events f (cur :: rest)
    simp only [events, List.countP_append, List.countP_map, ih, List.drop_succ_cons, List.drop_zero,
      List.flatten_cons]
    rfl

/-- every result of a history is evaluated by the single-label instance or is a cross-label result -/
theorem single_label_accounting (mx : Bool) (l : Nat) (thr : Rat) (hist : List (List Res)) :
    predictNum hist = (events hist).countP (fun e => evaluated ⟨mx, [(l, thr)]⟩ e.2) +
      (hist.drop 1).flatten.countP (crossLabel l) := by
  rw [predictNum_eq, countP_events (fun r => evaluated ⟨mx, [(l, thr)]⟩ r)]
  unfold resultCount
  generalize (hist.drop 1).flatten = rs
  induction rs with
  | nil => rfl
  | cons r t ih =>
    rw [List.length_cons, List.countP_cons, List.countP_cons, ih, evaluated_single]
    unfold crossLabel
    cases keyLabel r == l <;> simp <;> omega

theorem mem_sceneInputs {targets : List (Nat × Rat)} {frames : List (List Res)} {gts : List (List Nat)}
    {li : LabelInput} (h : li ∈ sceneInputs targets frames gts) :
    ∃ lt ∈ targets, li.label = lt.1 ∧ li.thr = lt.2 ∧
      li.hist = [] :: frames.map (bucket (targets.map (·.1)) lt.1) := by
  unfold sceneInputs at h
  simp only [List.mem_map] at h
  obtain ⟨⟨lt, i⟩, hm, rfl⟩ := h
  refine ⟨lt, ?_, rfl, rfl, rfl⟩
  obtain ⟨_, _, h3⟩ := List.mem_zipIdx hm
  rw [h3]
  exact List.getElem_mem _

theorem mem_frameInputs {targets : List (Nat × Rat)} {prev cur : List Res} {gt : List Nat}
    {li : LabelInput} (h : li ∈ frameInputs targets prev cur gt) :
    ∃ lt ∈ targets, li.label = lt.1 ∧ li.thr = lt.2 ∧
      li.hist = [bucket (targets.map (·.1)) lt.1 prev, bucket (targets.map (·.1)) lt.1 cur] := by
  unfold frameInputs at h
  simp only [List.mem_map] at h
  obtain ⟨⟨lt, i⟩, hm, rfl⟩ := h
  refine ⟨lt, ?_, rfl, rfl, rfl⟩
  obtain ⟨_, _, h3⟩ := List.mem_zipIdx hm
  rw [h3]
  exact List.getElem_mem _

end PEval.Clear
