import PEval.Lemmas.ClassificationPair
/-!
The two stages of `_get_object_results_for_tlr`: structure of the result, maximality of each stage,
completeness of the uuid stage under unique keys.
-/
namespace PEval.Classification

theorem pairTlr_ok {uf : Bool} {ests gts : List Obj} {rs : List Res} (h : pairTlr uf ests gts = .ok rs) :
    ∃ s1 s2, tlrStage1 uf ests gts = .ok s1 ∧ tlrStage2 s1 = .ok s2 ∧ rs = paired s2.res := by
  unfold pairTlr at h
  split at h
  · cases h
  · rename_i s1 h1
    split at h
    · cases h
    · rename_i s2 h2
      simp only [Except.ok.injEq] at h
      exact ⟨s1, s2, h1, h2, h.symm⟩

/-- what is known about the states after stage 1 (`s1`) and stage 2 (`s2`); `p2` are the pairs added by
stage 2 -/
structure TlrFacts (uf : Bool) (ests gts : List Obj) (s1 s2 : St) (p2 : List (Obj × Obj)) : Prop where
  wf1 : WF ests gts s1
  wf2 : WF ests gts s2
  res1 : ∀ p ∈ s1.res, cond1 uf p.1 p.2 = true ∧ p.1 ∈ ests ∧ p.2 ∈ gts
  res2 : s2.res = s1.res ++ p2
  pairs2 : ∀ p ∈ p2, sameKey p.1 p.2 = true ∧ p.1 ∈ s1.es ∧ p.2 ∈ s1.gs
  sub_es : ∀ e ∈ s1.es, e ∈ ests
  sub_gs : ∀ g ∈ s1.gs, g ∈ gts

theorem stepG_is_move (c : Obj → Obj → Bool) : ∀ e g s s', stepG c e g s = .ok s' → Move c e g s s' :=
  fun _ _ _ _ h => stepG_move h

theorem stepU_is_move (c : Obj → Obj → Bool) : ∀ e g s s', stepU c e g s = .ok s' → Move c e g s s' :=
  fun _ _ _ _ h => stepU_move h

theorem outer_wf {step : Obj → Obj → St → Except Err St} {c : Obj → Obj → Bool}
    (hstep : ∀ e g s s', step e g s = .ok s' → Move c e g s s') {ests gts : List Obj} (gs es : List Obj)
    {s s' : St} (w : WF ests gts s) (h : outer step gs es s = .ok s') : WF ests gts s' :=
  outer_moves (P := WF ests gts) hstep gs es (fun _ _ _ _ _ _ ha hm => hm.wf ha) w h

theorem tlr_facts {uf : Bool} {ests gts : List Obj} {s1 s2 : St}
    (h1 : tlrStage1 uf ests gts = .ok s1) (h2 : tlrStage2 s1 = .ok s2) :
    ∃ p2, TlrFacts uf ests gts s1 s2 p2 := by
  unfold tlrStage1 at h1
  unfold tlrStage2 at h2
  have wf1 : WF ests gts s1 := outer_wf (stepG_is_move _) gts ests (wf_init ests gts) h1
  have wf2 : WF ests gts s2 := outer_wf (stepG_is_move _) s1.gs s1.es wf1 h2
  obtain ⟨t1, ht1, hall1⟩ := outer_res_from (stepG_is_move _) gts ests h1
  obtain ⟨p2, hp2, hall2⟩ := outer_res_from (stepG_is_move _) s1.gs s1.es h2
  have sh := outer_shrinks (stepG_is_move _) gts ests h1
  refine ⟨p2, wf1, wf2, ?_, hp2, hall2, fun e he => sh.es.subset he, fun g hg => sh.gs.subset hg⟩
  intro p hp
  rw [ht1] at hp
  simp only [initSt, List.nil_append] at hp
  exact hall1 p hp

/-- after stage 1 no unused pair satisfies the stage-1 condition -/
theorem tlr_max1 {uf : Bool} {ests gts : List Obj} {s1 : St} (hnd : ests.Nodup)
    (h1 : tlrStage1 uf ests gts = .ok s1) : ∀ e ∈ s1.es, ∀ g ∈ s1.gs, cond1 uf e g = false := by
  unfold tlrStage1 at h1
  have sh := outer_shrinks (stepG_is_move _) gts ests h1
  have hm := stage_maximal (c := cond1 uf) gts ests (s := initSt ests gts) hnd h1
  intro e he g hg
  by_contra hc
  exact hm e (sh.es.subset he) g (sh.gs.subset hg) ⟨by simpa using hc, he, hg⟩

/-- after stage 2 no pair with the same uuid and camera that was unused after stage 1 is still unused -/
theorem tlr_max2 {uf : Bool} {ests gts : List Obj} {s1 s2 : St} (hnd : ests.Nodup)
    (h1 : tlrStage1 uf ests gts = .ok s1) (h2 : tlrStage2 s1 = .ok s2) :
    ∀ e ∈ s1.es, ∀ g ∈ s1.gs, sameKey e g = true → ¬(e ∈ s2.es ∧ g ∈ s2.gs) := by
  have sh : Shrinks (initSt ests gts) s1 := outer_shrinks (stepG_is_move _) gts ests h1
  have hnd1 : s1.es.Nodup := sh.es.nodup hnd
  unfold tlrStage2 at h2
  have hm := stage_maximal (c := sameKey) s1.gs s1.es hnd1 h2
  intro e he g hg hk hh
  exact hm e he g hg ⟨hk, hh.1, hh.2⟩

/-- with unique keys on both sides the uuid stage pairs every same-key pair left over by stage 1 -/
theorem tlr_stage2_complete {uf : Bool} {ests gts : List Obj} {s1 s2 : St} {p2 : List (Obj × Obj)}
    (hke : (ests.map key).Nodup) (hkg : (gts.map key).Nodup)
    (h1 : tlrStage1 uf ests gts = .ok s1) (h2 : tlrStage2 s1 = .ok s2)
    (F : TlrFacts uf ests gts s1 s2 p2) :
    ∀ e ∈ s1.es, ∀ g ∈ s1.gs, sameKey e g = true → (e, g) ∈ p2 := by
  have hnde : ests.Nodup := List.Nodup.of_map _ hke
  have hndg : gts.Nodup := List.Nodup.of_map _ hkg
  intro e he g hg hk
  have hmax := tlr_max2 hnde h1 h2 e he g hg hk
  have he1 := (F.wf1.es_iff hnde e).1 he
  have hg1 := (F.wf1.gs_iff hndg g).1 hg
  by_cases hes : e ∈ s2.es
  · -- then g was taken in stage 2
    have hgs : g ∉ s2.gs := fun h => hmax ⟨hes, h⟩
    have : g ∈ s2.res.map Prod.snd := by
      rcases (F.wf2.mem_gs g).1 hg1.1 with h | h
      · exact absurd h hgs
      · exact h
    obtain ⟨e', hp⟩ := mem_map_snd this
    rw [F.res2] at hp
    rcases List.mem_append.1 hp with hp | hp
    · exact absurd (List.mem_map.2 ⟨(e', g), hp, rfl⟩) hg1.2
    · have hh := F.pairs2 _ hp
      have : e' = e := key_inj hke (F.sub_es _ hh.2.1) he1.1
        ((sameKey_iff.1 hh.1).trans (sameKey_iff.1 hk).symm)
      exact this ▸ hp
  · have : e ∈ s2.res.map Prod.fst := by
      rcases (F.wf2.mem_es e).1 he1.1 with h | h
      · exact absurd h hes
      · exact h
    obtain ⟨g', hp⟩ := mem_map_fst this
    rw [F.res2] at hp
    rcases List.mem_append.1 hp with hp | hp
    · exact absurd (List.mem_map.2 ⟨(e, g'), hp, rfl⟩) he1.2
    · have hh := F.pairs2 _ hp
      have : g' = g := key_inj hkg (F.sub_gs _ hh.2.2) hg1.1
        ((sameKey_iff.1 hh.1).symm.trans (sameKey_iff.1 hk))
      exact this ▸ hp

theorem mem_paired {ps : List (Obj × Obj)} {e g : Obj} :
    ({ est := e, gt := some g } : Res) ∈ paired ps ↔ (e, g) ∈ ps := by
  simp only [paired, List.mem_map]
  constructor
  · rintro ⟨p, hp, h⟩
    simp only [Res.mk.injEq, Option.some.injEq] at h
    obtain ⟨rfl, rfl⟩ := h
    exact hp
  · intro h; exact ⟨(e, g), h, rfl⟩

theorem paired_gt_some {ps : List (Obj × Obj)} {r : Res} (h : r ∈ paired ps) :
    ∃ p ∈ ps, r = { est := p.1, gt := some p.2 } := by
  simp only [paired, List.mem_map] at h
  obtain ⟨p, hp, rfl⟩ := h
  exact ⟨p, hp, rfl⟩

theorem paired_map_est (ps : List (Obj × Obj)) : (paired ps).map Res.est = ps.map Prod.fst := by
  simp [paired, Function.comp_def]

theorem paired_filterMap_gt (ps : List (Obj × Obj)) : (paired ps).filterMap Res.gt = ps.map Prod.snd := by
  induction ps with
  | nil => rfl
  | cons p t ih => simp only [paired, List.map_cons, List.filterMap_cons] at *; rw [ih]

theorem fpResults_map_est (es : List Obj) : (fpResults es).map Res.est = es := by
  simp [fpResults, Function.comp_def]

theorem fpResults_filterMap_gt (es : List Obj) : (fpResults es).filterMap Res.gt = [] := by
  induction es with
  | nil => rfl
  | cons e t ih => simp only [fpResults, List.map_cons, List.filterMap_cons] at *; exact ih

end PEval.Classification
