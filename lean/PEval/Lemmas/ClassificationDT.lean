import PEval.Model.ClassificationDT
/-!
# C11 decision skeletons = the model's algorithm on index objects (exhaustive kernel evaluation)

For every function (0 generic, 1 / 2 traffic lights without / with `uuid_matching_first`), every shape up to 2 × 2 and
EVERY valuation of the shape's atoms, the hand-written skeleton `ClassificationDT.skel` equals the MODEL's own loops
(`outer`, `stepU`, `stepG`, `take`; `pairById` / `pairTlr` in their parametrised forms `pairByIdG` / `pairTlrG`, see
`pairById_eq` / `pairTlr_eq`) run on index objects whose equality tests are read from the valuation.  This file does not
depend on generated tables, so it is checked once and cached.
-/
namespace PEval.ClassificationDT
open PEval PEval.DT

theorem skel_eq_model_generic : ∀ nm ∈ shapes, skelOk 0 nm.1 nm.2 = true := by decide +kernel
theorem skel_eq_model_tlr : ∀ nm ∈ shapes, skelOk 1 nm.1 nm.2 = true := by decide +kernel
theorem skel_eq_model_tlr_uuid_first : ∀ nm ∈ shapes, skelOk 2 nm.1 nm.2 = true := by decide +kernel

theorem skel_eq_model_on_index : ∀ f ∈ [0, 1, 2], ∀ nm ∈ shapes, skelOk f nm.1 nm.2 = true := by
  intro f hf
  simp only [List.mem_cons, List.not_mem_nil, or_false] at hf
  rcases hf with rfl | rfl | rfl
  · exact skel_eq_model_generic
  · exact skel_eq_model_tlr
  · exact skel_eq_model_tlr_uuid_first

end PEval.ClassificationDT
