import PEval.Lemmas.GeometryClip
/-!
Helper lemmas for C06, convexity part: convex position of a vertex list (`Cvx`: every triple of
vertices taken in list order is counter-clockwise or collinear), closed under sublists; the shoelace
area `signed2` of a polygon in convex position is non-negative and monotone under taking sublists
(removing vertices); inserting a point of an edge keeps convex position and the shoelace area.
-/
namespace PEval.Geometry

/-! ## algebra of `cross` -/

theorem cross_cyc (a b c : V2) : cross a b c = cross b c a := by unfold cross; ring
theorem cross_self_left (a c : V2) : cross a a c = 0 := by unfold cross; ring
theorem cross_self_right (a b : V2) : cross a b b = 0 := by unfold cross; ring
theorem cross_self_outer (a b : V2) : cross a b a = 0 := by unfold cross; ring

/-- adding the vertex `x` between `u` and `v` changes the fan from `o` by the triangle `u x v` -/
theorem cross_split (o u x v : V2) : cross o u x + cross o x v = cross o u v + cross u x v := by
  unfold cross; ring

/-- the point `u + t (v − u)` -/
def lerp (u v : V2) (t : Rat) : V2 := ⟨u.x + t * (v.x - u.x), u.y + t * (v.y - u.y)⟩

theorem cross_lerp1 (u v b c : V2) (t : Rat) :
    cross (lerp u v t) b c = (1 - t) * cross u b c + t * cross v b c := by
  unfold cross lerp; ring
theorem cross_lerp2 (a u v c : V2) (t : Rat) :
    cross a (lerp u v t) c = (1 - t) * cross a u c + t * cross a v c := by
  unfold cross lerp; ring
theorem cross_lerp3 (a b u v : V2) (t : Rat) :
    cross a b (lerp u v t) = (1 - t) * cross a b u + t * cross a b v := by
  unfold cross lerp; ring

theorem isect_eq_lerp (p q : V2) (dp dq : Rat) : isect p q dp dq = lerp p q (dp / (dp - dq)) := rfl

/-! ## convex position -/

/-- convex position in list order: every ordered triple of vertices is counter-clockwise or collinear -/
def Cvx : List V2 → Prop
  | [] => True
  | x :: L => L.Pairwise (fun y z => 0 ≤ cross x y z) ∧ Cvx L

instance Cvx.decidable : (L : List V2) → Decidable (Cvx L)
  | [] => isTrue trivial
  | x :: L => by
    unfold Cvx
    exact @instDecidableAnd _ _ _ (Cvx.decidable L)

theorem Cvx.sublist {L' L : List V2} (h : L'.Sublist L) (hc : Cvx L) : Cvx L' := by
  induction h with
  | slnil => trivial
  | cons a _ ih => exact ih hc.2
  | cons_cons a h ih => exact ⟨hc.1.sublist h, ih hc.2⟩

theorem Cvx.tail {x : V2} {L : List V2} (hc : Cvx (x :: L)) : Cvx L := hc.2

/-! ## the fan sum and the shoelace area under removal of vertices -/

theorem fan2_cons_cons (o a b : V2) (L : List V2) : fan2 o (a :: b :: L) = cross o a b + fan2 o (b :: L) := rfl
theorem fan2_single (o a : V2) : fan2 o [a] = 0 := rfl
theorem fan2_nil (o : V2) : fan2 o [] = 0 := rfl

theorem fan2_self_cons (o : V2) (L : List V2) : fan2 o (o :: L) = fan2 o L := by
  cases L with
  | nil => rfl
  | cons y L => rw [fan2_cons_cons, cross_self_left, zero_add]

theorem fan2_sublist_le (o : V2) {L' L : List V2} (h : L'.Sublist L) :
    ∀ x, Cvx (o :: x :: L) → fan2 o (x :: L') ≤ fan2 o (x :: L) := by
  induction h with
  | slnil => intro x _; exact le_refl _
  | @cons L' L y h ih =>
    intro x hc
    have hc' : Cvx (o :: x :: L) :=
      Cvx.sublist (List.Sublist.cons_cons o (List.Sublist.cons_cons x (List.sublist_cons_self y L))) hc
    refine le_trans (ih x hc') ?_
    cases L with
    | nil =>
      rw [fan2_cons_cons, fan2_single, fan2_single]
      have := hc.1
      simp only [List.pairwise_cons, List.mem_cons, List.not_mem_nil] at this
      have := this.1 y (by simp)
      linarith
    | cons z L2 =>
      rw [fan2_cons_cons, fan2_cons_cons, fan2_cons_cons]
      have h1 : 0 ≤ cross x y z := by
        have := hc.2.1
        simp only [List.pairwise_cons, List.mem_cons] at this
        exact this.1 z (by simp)
      have := cross_split o x y z
      linarith
  | @cons_cons L' L y h ih =>
    intro x hc
    rw [fan2_cons_cons, fan2_cons_cons]
    have hc' : Cvx (o :: y :: L) := Cvx.sublist (List.Sublist.cons_cons o (List.sublist_cons_self x _)) hc
    have := ih y hc'
    linarith

theorem fan2_sublist_le' (o : V2) {L' L : List V2} (h : L'.Sublist L) (hc : Cvx (o :: L)) :
    fan2 o L' ≤ fan2 o L := by
  rw [← fan2_self_cons o L', ← fan2_self_cons o L]
  apply fan2_sublist_le o h o
  refine ⟨?_, hc⟩
  rw [List.pairwise_cons]
  refine ⟨fun z _ => ?_, hc.1⟩
  rw [cross_self_left]

/-- changing the apex of a fan over an open path changes the sum by a boundary term -/
theorem fan2_apex (o o' : V2) (L : List V2) : ∀ x : V2,
    fan2 o (x :: L) = fan2 o' (x :: L)
      + ((o.x - o'.x) * (x.y - (L.getLastD x).y) - (o.y - o'.y) * (x.x - (L.getLastD x).x)) := by
  induction L with
  | nil => intro x; simp [fan2_single]
  | cons y L ih =>
    intro x
    rw [fan2_cons_cons, fan2_cons_cons, ih y, List.getLastD_cons]
    unfold cross; ring

/-- dropping the first vertex `p0` of a polygon removes the triangle `p0 p1 last` -/
theorem signed2_cons_cons (p0 p1 : V2) (L : List V2) :
    signed2 (p0 :: p1 :: L) = signed2 (p1 :: L) + cross p0 p1 (L.getLastD p1) := by
  show fan2 p0 (p1 :: L) = fan2 p1 L + _
  rw [fan2_apex p0 p1 L p1, fan2_self_cons]
  unfold cross; ring

theorem cvx_head_last {p0 p1 : V2} {L : List V2} (hc : Cvx (p0 :: p1 :: L)) :
    0 ≤ cross p0 p1 (L.getLastD p1) := by
  have hm : L.getLastD p1 ∈ p1 :: L := List.getLastD_mem_cons
  rcases List.mem_cons.1 hm with h | h
  · rw [h, cross_self_right]
  · have := hc.1
    rw [List.pairwise_cons] at this
    exact this.1 _ h

/-- removing vertices of a polygon in convex position does not increase the shoelace area -/
theorem signed2_sublist_le {L' L : List V2} (h : L'.Sublist L) (hc : Cvx L) : signed2 L' ≤ signed2 L := by
  induction h with
  | slnil => exact le_refl _
  | @cons L' L a h ih =>
    refine le_trans (ih hc.2) ?_
    cases L with
    | nil => exact le_refl _
    | cons p1 L2 =>
      rw [signed2_cons_cons]
      have := cvx_head_last hc
      linarith
  | @cons_cons L' L a h ih => exact fan2_sublist_le' a h hc

theorem signed2_nonneg_of_cvx {L : List V2} (hc : Cvx L) : 0 ≤ signed2 L :=
  signed2_sublist_le (List.nil_sublist L) hc

/-! ## convex position and the last vertex -/

theorem pairwise_last (x : V2) : ∀ (M : List V2) (d : V2),
    M.Pairwise (fun a b => 0 ≤ cross x a b) → ∀ z ∈ M, 0 ≤ cross x z (M.getLastD d) := by
  intro M
  induction M with
  | nil => intro d _ z hz; cases hz
  | cons a M ih =>
    intro d hp z hz
    rw [List.getLastD_cons]
    rw [List.pairwise_cons] at hp
    rcases List.mem_cons.1 hz with rfl | hz
    · have hm : M.getLastD z ∈ z :: M := List.getLastD_mem_cons
      rcases List.mem_cons.1 hm with h | h
      · rw [h, cross_self_right]
      · exact hp.1 _ h
    · exact ih a hp.2 z hz

theorem cvx_pairwise_last : ∀ (M : List V2) (d : V2), Cvx M →
    M.Pairwise (fun y z => 0 ≤ cross y z (M.getLastD d)) := by
  intro M
  induction M with
  | nil => intro d _; exact List.Pairwise.nil
  | cons y M ih =>
    intro d hc
    rw [List.getLastD_cons, List.pairwise_cons]
    exact ⟨fun z hz => pairwise_last y M y hc.1 z hz, ih y hc.2⟩

/-! ## inserting a point of an edge -/

theorem pairwise_insert {R : V2 → V2 → Prop} (A B : List V2) (u v I : V2)
    (h : (A ++ u :: v :: B).Pairwise R)
    (hl : ∀ a, R a u → R a v → R a I) (hr : ∀ z, R u z → R v z → R I z)
    (huI : R u v → R u I) (hIv : R u v → R I v) :
    (A ++ u :: I :: v :: B).Pairwise R := by
  simp only [List.pairwise_append, List.pairwise_cons, List.mem_cons] at h ⊢
  obtain ⟨hA, ⟨hu, hv, hB⟩, hAB⟩ := h
  have huv : R u v := hu v (Or.inl rfl)
  refine ⟨hA, ⟨?_, ⟨?_, hv, hB⟩⟩, ?_⟩
  · intro z hz
    rcases hz with rfl | hz
    · exact huI huv
    · exact hu z hz
  · intro z hz
    rcases hz with rfl | hz
    · exact hIv huv
    · exact hr z (hu z (Or.inr hz)) (hv z hz)
  · intro a ha z hz
    rcases hz with rfl | rfl | hz
    · exact hAB a ha _ (Or.inl rfl)
    · exact hl a (hAB a ha _ (Or.inl rfl)) (hAB a ha _ (Or.inr (Or.inl rfl)))
    · exact hAB a ha z (Or.inr hz)

theorem conv_nonneg {t x y : Rat} (h0 : 0 ≤ t) (h1 : t ≤ 1) (hx : 0 ≤ x) (hy : 0 ≤ y) :
    0 ≤ (1 - t) * x + t * y := by
  have := mul_nonneg (sub_nonneg.2 h1) hx
  have := mul_nonneg h0 hy
  linarith

/-- a point of the edge `u → v` may be inserted between `u` and `v` -/
theorem Cvx.insert_mid {t : Rat} (h0 : 0 ≤ t) (h1 : t ≤ 1) (u v : V2) (B : List V2) :
    ∀ A : List V2, Cvx (A ++ u :: v :: B) → Cvx (A ++ u :: lerp u v t :: v :: B) := by
  intro A
  induction A with
  | nil =>
    intro hc
    obtain ⟨hu, hv, hB⟩ := hc
    rw [List.pairwise_cons] at hu
    refine ⟨?_, ?_, hv, hB⟩
    · rw [List.pairwise_cons]
      refine ⟨?_, List.pairwise_cons.2 hu⟩
      intro z hz
      rw [cross_lerp2, cross_self_left]
      rcases List.mem_cons.1 hz with rfl | hz
      · rw [cross_self_right]; simp
      · have := mul_nonneg h0 (hu.1 z hz); linarith
    · rw [List.pairwise_cons]
      constructor
      · intro z hz
        rw [cross_lerp1, cross_self_left]
        have := mul_nonneg (sub_nonneg.2 h1) (hu.1 z hz); linarith
      · refine (hu.2.and hv).imp ?_
        intro y z hyz
        rw [cross_lerp1]
        exact conv_nonneg h0 h1 hyz.1 hyz.2
  | cons x A ih =>
    intro hc
    refine ⟨?_, ih hc.2⟩
    apply pairwise_insert A B u v _ hc.1
    · intro a hu hv; rw [cross_lerp3]; exact conv_nonneg h0 h1 hu hv
    · intro z hu hv; rw [cross_lerp2]; exact conv_nonneg h0 h1 hu hv
    · intro huv; rw [cross_lerp3, cross_self_right]; have := mul_nonneg h0 huv; linarith
    · intro huv; rw [cross_lerp2, cross_self_right]; have := mul_nonneg (sub_nonneg.2 h1) huv; linarith

/-- a point of the closing edge `last → first` may be put in front of the list -/
theorem Cvx.insert_front {t : Rat} (h0 : 0 ≤ t) (h1 : t ≤ 1) (p0 : V2) (M : List V2)
    (hc : Cvx (p0 :: M)) : Cvx (lerp (M.getLastD p0) p0 t :: p0 :: M) := by
  refine ⟨?_, hc⟩
  rw [List.pairwise_cons]
  constructor
  · intro z hz
    rw [cross_lerp1, cross_self_left, cross_cyc]
    have := mul_nonneg (sub_nonneg.2 h1) (pairwise_last p0 M p0 hc.1 z hz)
    linarith
  · refine ((cvx_pairwise_last M p0 hc.2).and hc.1).imp ?_
    intro y z hyz
    rw [cross_lerp1, cross_cyc (M.getLastD p0) y z]
    exact conv_nonneg h0 h1 hyz.1 hyz.2

theorem fan2_insert (o u v I : V2) (B : List V2) : ∀ A : List V2,
    fan2 o (A ++ u :: I :: v :: B) = fan2 o (A ++ u :: v :: B) + cross u I v := by
  intro A
  induction A with
  | nil =>
    simp only [List.nil_append, fan2_cons_cons]
    have := cross_split o u I v
    linarith
  | cons a A ih =>
    cases A with
    | nil =>
      simp only [List.cons_append, List.nil_append] at ih ⊢
      rw [fan2_cons_cons, fan2_cons_cons o a u, ih]; ring
    | cons c A =>
      simp only [List.cons_append] at ih ⊢
      rw [fan2_cons_cons, fan2_cons_cons o a c, ih]; ring

theorem cross_lerp_mid (u v : V2) (t : Rat) : cross u (lerp u v t) v = 0 := by unfold cross lerp; ring

theorem signed2_insert_mid (u v : V2) (t : Rat) (A B : List V2) :
    signed2 (A ++ u :: lerp u v t :: v :: B) = signed2 (A ++ u :: v :: B) := by
  cases A with
  | nil =>
    show fan2 u (lerp u v t :: v :: B) = fan2 u (v :: B)
    rw [fan2_cons_cons, cross_lerp_mid, zero_add]
  | cons a A =>
    show fan2 a (A ++ u :: lerp u v t :: v :: B) = fan2 a (A ++ u :: v :: B)
    rw [fan2_insert, cross_lerp_mid, add_zero]

theorem signed2_insert_front (p0 : V2) (M : List V2) (t : Rat) :
    signed2 (lerp (M.getLastD p0) p0 t :: p0 :: M) = signed2 (p0 :: M) := by
  rw [signed2_cons_cons]
  have : cross (lerp (M.getLastD p0) p0 t) p0 (M.getLastD p0) = 0 := by unfold cross lerp; ring
  rw [this, add_zero]

/-! ## rigid motions and box footprints -/

theorem Cvx.map_motion {m : Motion} (h : m.rot.IsUnit) : ∀ {L : List V2}, Cvx L → Cvx (L.map m.apply2) := by
  intro L
  induction L with
  | nil => intro _; trivial
  | cons x L ih =>
    intro hc
    refine ⟨?_, ih hc.2⟩
    rw [List.pairwise_map]
    exact hc.1.imp (fun {y z} hyz => by rw [cross_motion h]; exact hyz)

theorem cvx_localCorners {b : Box} (hw : 0 ≤ b.w) (hl : 0 ≤ b.l) : Cvx (localCorners b) := by
  have hwl := mul_nonneg hw hl
  simp only [localCorners, Cvx, List.pairwise_cons, List.mem_cons, List.not_mem_nil, or_false, forall_eq_or_imp,
    forall_eq, cross, List.Pairwise.nil, and_true, false_imp_iff, implies_true]
  refine ⟨⟨⟨?_, ?_⟩, ?_⟩, ?_⟩ <;> nlinarith

theorem cvx_footprint {b : Box} (hw : 0 ≤ b.w) (hl : 0 ≤ b.l) (hr : b.rot.IsUnit) : Cvx (footprint b) := by
  rw [footprint_eq_map_local]
  exact Cvx.map_motion (m := ⟨b.rot, ⟨b.center.x, b.center.y, 0⟩⟩) hr (cvx_localCorners hw hl)

end PEval.Geometry
