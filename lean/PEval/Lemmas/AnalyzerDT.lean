import PEval.Model.AnalyzerDT
import Mathlib.Algebra.Order.Ring.Rat
import Mathlib.Tactic.Linarith
/-!
# C19 decision skeletons = the model (bridges; independent of the generated tables, so checked once and cached)

(1) `areaAtoms_valuation`: for 1, 3, 9 divisions and ALL rational bounds and positions, the area skeleton read at the order
atoms of a concrete input is the MODEL's `getAreaIdx` on the grid of the MODEL's `generateAreaPoints`.

(2) `rows_skel_eq_model`: for every tabulated frame shape and every assignment of its atoms, the row skeleton is the number
computed from the MODEL's `Analyzer.add` run on index objects (exhaustive kernel evaluation).  `rows_noF11`: where no FP result
carries a ground truth the skeleton's number has no cell of F11's signature, so the per-run relation `rowsRel` is equality there.
-/
namespace PEval.AnalyzerDT
open PEval PEval.DT PEval.Analyzer

theorem cmpR_lt (a b : Rat) : isLt (cmpR a b) = decide (a < b) := by
  unfold cmpR isLt
  by_cases h : a < b
  · simp [h]
  · by_cases h2 : a = b <;> simp [h, h2]

theorem cmpR_gt (a b : Rat) : isGt (cmpR a b) = decide (a > b) := by
  unfold cmpR isGt
  by_cases h : a < b
  · have : ¬ (a > b) := not_lt.mpr (le_of_lt h)
    simp [h, this]
  · by_cases h2 : a = b
    · subst h2; simp
    · have : a > b := lt_of_le_of_ne (not_lt.mp h) (Ne.symm h2)
      simp [h, h2, this]

theorem pick_line (m x : Rat) (i : Nat) :
    pick (cmpR x (lineVal m 0)) (cmpR x (lineVal m 1)) (cmpR x (lineVal m 2)) (cmpR x (lineVal m 3)) i = cmpR x (lineVal m i) := by
  match i with
  | 0 => rfl
  | 1 => rfl
  | 2 => rfl
  | _ + 3 => rfl

def conc (mX mY : Rat) (p : Nat × Nat) : Rat × Rat := (lineVal mX p.1, lineVal mY p.2)

theorem insideSym_eq (mX mY x y : Rat) (ur bl : Nat × Nat) :
    insideSym (fun i => cmpR x (lineVal mX i)) (fun i => cmpR y (lineVal mY i)) ur bl =
      insideArea (conc mX mY ur) (conc mX mY bl) x y := by
  simp only [insideSym, insideArea, conc, cmpR_lt, cmpR_gt]
  congr

theorem generate_eq (n : Nat) (hn : n = 1 ∨ n = 3 ∨ n = 9) (mX mY : Rat) :
    generateAreaPoints n mX mY = .ok ⟨(symUR n).map (conc mX mY), (symBL n).map (conc mX mY)⟩ := by
  rcases hn with rfl | rfl | rfl <;> simp [generateAreaPoints, symUR, symBL, conc, lineVal]

theorem hits_eq (n : Nat) (mX mY x y : Rat) :
    hitsSym n (fun i => cmpR x (lineVal mX i)) (fun i => cmpR y (lineVal mY i)) =
      areaHits ⟨(symUR n).map (conc mX mY), (symBL n).map (conc mX mY)⟩ x y := by
  unfold hitsSym areaHits hitsOf
  congr 3
  simp only [List.zip_map, List.map_map]
  apply List.map_congr_left
  intro p _
  exact insideSym_eq mX mY x y p.1 p.2

/-- THE BRIDGE of kernel (1): the skeleton at the atoms of an input = the model's answer -/
theorem areaAtoms_valuation (n : Nat) (hn : n = 1 ∨ n = 3 ∨ n = 9) (mX mY x y : Rat) :
    areaAtoms n (areaValuation mX mY x y) = areaResOfModel n mX mY x y := by
  have hv : areaAtoms n (areaValuation mX mY x y) =
      areaRes n (fun i => cmpR x (lineVal mX i)) (fun i => cmpR y (lineVal mY i)) := by
    unfold areaAtoms
    rw [areaFast_eq n hn]
    congr 1 <;> funext i
    · exact pick_line mX x i
    · exact pick_line mY y i
  rw [hv]
  unfold areaRes areaResOfModel getAreaIdx resOfHits
  rw [generate_eq n hn, hits_eq]
  simp only []
  split <;> rename_i h <;> simp [h]

/-- a position exactly ON a grid line of the x-axis lies in no area (the model's answer is `None`), for positive bounds -/
theorem model_on_x_line (n : Nat) (hn : n = 1 ∨ n = 3 ∨ n = 9) (mX mY y : Rat) (hX : 0 < mX) (k : Nat)
    (hg : n ≠ 1 ∨ k = 0 ∨ 3 ≤ k) :
    areaResOfModel n mX mY (lineVal mX k) y = .other 0 := by
  have hk : (lineVal mX k = -mX ∨ lineVal mX k = mX) ∨ (n ≠ 1 ∧ (lineVal mX k = -mX / 3 ∨ lineVal mX k = mX / 3)) := by
    match k with
    | 0 => exact Or.inl (Or.inl rfl)
    | 1 => exact Or.inr ⟨by omega, Or.inl rfl⟩
    | 2 => exact Or.inr ⟨by omega, Or.inr rfl⟩
    | _ + 3 => exact Or.inl (Or.inr rfl)
  generalize lineVal mX k = x at hk
  have h3 : -mX / 3 < mX / 3 := by linarith
  have h1 : -mX < -mX / 3 := by linarith
  have h2 : mX / 3 < mX := by linarith
  rcases hn with rfl | rfl | rfl <;> rcases hk with (rfl | rfl) | ⟨h1', rfl | rfl⟩ <;>
    first | (exact absurd rfl h1') |
    (simp [areaResOfModel, generateAreaPoints, getAreaIdx, areaHits, insideArea, List.zipIdx, List.filter_cons] <;> grind)

/-- the same for the y-axis (inner lines exist for 9 divisions only) -/
theorem model_on_y_line (n : Nat) (hn : n = 1 ∨ n = 3 ∨ n = 9) (mX mY x : Rat) (hY : 0 < mY) (k : Nat)
    (hg : n = 9 ∨ k = 0 ∨ 3 ≤ k) :
    areaResOfModel n mX mY x (lineVal mY k) = .other 0 := by
  have hk : (lineVal mY k = -mY ∨ lineVal mY k = mY) ∨ (n = 9 ∧ (lineVal mY k = -mY / 3 ∨ lineVal mY k = mY / 3)) := by
    match k with
    | 0 => exact Or.inl (Or.inl rfl)
    | 1 => exact Or.inr ⟨by omega, Or.inl rfl⟩
    | 2 => exact Or.inr ⟨by omega, Or.inr rfl⟩
    | _ + 3 => exact Or.inl (Or.inr rfl)
  generalize lineVal mY k = y at hk
  have h3 : -mY / 3 < mY / 3 := by linarith
  have h1 : -mY < -mY / 3 := by linarith
  have h2 : mY / 3 < mY := by linarith
  rcases hn with rfl | rfl | rfl <;> rcases hk with (rfl | rfl) | ⟨h9, rfl | rfl⟩ <;>
    first | (exact absurd h9 (by decide)) |
    (simp [areaResOfModel, generateAreaPoints, getAreaIdx, areaHits, insideArea, List.zipIdx, List.filter_cons] <;> grind)

theorem rows_skel_eq_model : ∀ key ∈ rowKeys, rowsSkelOk key = true := by decide +kernel

/-- for a shape: on every assignment of the four atoms under which no FP result carries a ground truth, the skeleton's number shows no
FP pair holding a ground truth (so `relCode` against it is equality, `relCode_eq_of_noF11`) -/
def rowsNoF11Ok (key : Nat) : Bool :=
  allBits.all fun b => !(noFPwithGT key (valOfBits b)) ||
    (match rowsAtoms key (valOfBits b) with | .other m => noF11Code 4 m | _ => false)

theorem rows_noF11 : ∀ key ∈ rowKeys, rowsNoF11Ok key = true := by decide +kernel

/-- the restriction is not vacuous, and it is a restriction: a TP and a GT-less FP satisfy it, a TP and an FP carrying a ground truth
do not; the relation accepts exactly the two layouts there (FP pair with / without its ground truth) and not, e.g., a TN row written
as FN or a dropped pair -/
example : noFPwithGT 4 (valOfBits (false, false, true, false)) = true ∧ noFPwithGT 4 (valOfBits (false, false, false, false)) = false ∧
    noFPwithGT 9 (valOfBits (false, false, false, false)) = true := by decide
example : relCode 4 (7 + 38 * 64) (7 + 38 * 64) = true ∧ relCode 4 (7 + 36 * 64) (7 + 38 * 64) = true ∧
    relCode 4 (7 + 37 * 64) (7 + 38 * 64) = false ∧ relCode 4 (5 + 38 * 64) (7 + 38 * 64) = false ∧
    relCode 4 7 (7 + 38 * 64) = false ∧ relCode 4 (rowDigit 4 0 0 + 1) (rowDigit 3 0 0 + 1) = false ∧
    relCode 4 (7 + 38 * 64) (7 + 36 * 64) = false := by decide

end PEval.AnalyzerDT
