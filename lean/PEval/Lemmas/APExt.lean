import PEval.Lemmas.APMono
import PEval.Model.APExt
/-!
Lemmas about the extended AP model (`PEval/Model/APExt.lean`), part 1: `float("inf")` as a threshold.

`EThr.real B` reads `inf` as the number `B`. If `1 < B` and every matching score of the results at hand
is below `B`, each `…E` function on a threshold list `th` IS the function of `PEval/Model/AP.lean` on
`th.map (EThr.real B)` (`…_real`). Consequences: on finite thresholds the extended model is the model
(`…_fin`), and every statement about rational thresholds carries over to `EThr`.
-/

namespace PEval.AP

/-- closes `match … = match …` goals whose two sides differ only in the names of the compiled matchers -/
macro "matchers" : tactic => `(tactic| (repeat' (first | rfl | split)))

/-- every matching score the result carries is below `B` -/
def ScoreLt (B : Rat) (r : Res) : Prop := ∀ x, r.score = .val (some x) → x < B

theorem isBetterThanE_real {m : Mode} {v : Option Rat} {B : Rat} (e : EThr) (hB : 1 < B)
    (hv : ∀ x, v = some x → x < B) : isBetterThanE m v e = isBetterThan m v (e.real B) := by
  cases e with
  | fin t => rfl
  | posInf =>
    unfold isBetterThanE isBetterThan thrValidE thrValid isBetterE isBetter EThr.real
    cases hm : m.isDistance
    · have : ¬ B ≤ 1 := not_le.mpr hB
      simp [this]
    · cases v with
      | none => simp
      | some x => simp [hv x rfl]

theorem isResultCorrectE_real {m : Mode} {r : Res} {B : Rat} (o : Option EThr) (hB : 1 < B)
    (hr : ScoreLt B r) : isResultCorrectE m o r = isResultCorrect m (o.map (EThr.real B)) r := by
  unfold isResultCorrectE isResultCorrect
  cases hg : r.gt with
  | none => rfl
  | some g =>
    cases o with
    | none => rfl
    | some t =>
      cases hs : r.score with
      | noMethod => rfl
      | val v =>
        simp only [Option.map_some]
        rw [isBetterThanE_real t hB (fun x hx => hr x (by rw [hs, hx]))]
        cases isBetterThan m v (EThr.real B t) <;> rfl

theorem getLabelThresholdE_real (l : Label) (T : List Label) (B : Rat) (o : Option (List EThr)) :
    getLabelThreshold l T (o.map (List.map (EThr.real B)))
      = (getLabelThresholdE l T o).map (Option.map (EThr.real B)) := by
  unfold getLabelThreshold getLabelThresholdE
  cases o with
  | none => rfl
  | some ts =>
    simp only [Option.map_some]
    cases T.findIdx? (· == l) with
    | none => rfl
    | some i =>
      simp only [List.getElem?_map]
      cases ts[i]? <;> rfl

theorem classifyE_real {tm : TpMetric} {m : Mode} {T : List Label} {B : Rat} (th : List EThr) {r : Res}
    (hB : 1 < B) (hr : ScoreLt B r) :
    classifyE tm m T th r = classify tm m T (th.map (EThr.real B)) r := by
  unfold classifyE classify
  have h := getLabelThresholdE_real (keyLabel r) T B (some th)
  simp only [Option.map_some] at h
  rw [h]
  cases getLabelThresholdE (keyLabel r) T (some th) with
  | error e => rfl
  | ok o =>
    cases o with
    | none => rfl
    | some t =>
      simp only [Except.map, Option.map_some]
      rw [isResultCorrectE_real (some t) hB hr]
      rfl

theorem classifyAllE_real {tm : TpMetric} {m : Mode} {T : List Label} {B : Rat} (th : List EThr)
    (hB : 1 < B) : ∀ {rs : List Res}, (∀ r ∈ rs, ScoreLt B r) →
    classifyAllE tm m T th rs = classifyAll tm m T (th.map (EThr.real B)) rs
  | [], _ => rfl
  | r :: rs, h => by
    unfold classifyAllE classifyAll
    rw [classifyE_real th hB (h r (List.mem_cons_self ..)),
      classifyAllE_real th hB (fun x hx => h x (List.mem_cons_of_mem _ hx))]
    cases classify tm m T (th.map (EThr.real B)) r with
    | error e => rfl
    | ok k => cases classifyAll tm m T (th.map (EThr.real B)) rs <;> rfl

theorem apOfE_real {tm : TpMetric} {m : Mode} {T : List Label} {B : Rat} (th : List EThr) (G : Nat)
    {rs : List Res} (hB : 1 < B) (h : ∀ r ∈ rs, ScoreLt B r) :
    apOfE tm m T th G rs = apOf tm m T (th.map (EThr.real B)) G rs := by
  unfold apOfE apOf
  rw [classifyAllE_real th hB (fun r hr => h r (mem_sortDesc.1 hr))]
  cases classifyAll tm m T (th.map (EThr.real B)) (sortDesc Res.conf rs) <;> rfl

theorem apOfNestedE_real {tm : TpMetric} {m : Mode} {T : List Label} {B : Rat} (th : List EThr) (G : Nat)
    {rss : List (List Res)} (hB : 1 < B) (h : ∀ r ∈ rss.flatten, ScoreLt B r) :
    apOfNestedE tm m T th G rss = apOfNested tm m T (th.map (EThr.real B)) G rss :=
  apOfE_real th G hB h

/-- every result of every bucket has its scores below `B` -/
def BucketsLt (B : Rat) (buckets : List (Label × List (List Res))) : Prop :=
  ∀ l rss, lookupKey l buckets = .ok rss → ∀ r ∈ rss.flatten, ScoreLt B r

theorem mapLoopE_real {m : Mode} {is2d : Bool} {buckets : List (Label × List (List Res))}
    {nums : List (Label × Nat)} {B : Rat} (hB : 1 < B) (hb : BucketsLt B buckets) :
    ∀ (tz : List (Label × EThr)),
      mapLoopE m is2d buckets nums tz
        = mapLoop m is2d buckets nums (tz.map (fun p => (p.1, p.2.real B)))
  | [] => rfl
  | (l, t) :: rest => by
    unfold mapLoopE mapLoop
    simp only [List.map_cons]
    cases hl : lookupKey l buckets with
    | error e => rfl
    | ok rss =>
      cases lookupKey l nums with
      | error e => rfl
      | ok G =>
        have h1 := apOfNestedE_real (tm := .ap) (m := m) (T := [l]) [t] G hB (hb l rss hl)
        have h2 := apOfNestedE_real (tm := .aph) (m := m) (T := [l]) [t] G hB (hb l rss hl)
        simp only [List.map_cons, List.map_nil] at h1 h2
        simp only [h1, h2, mapLoopE_real hB hb rest]
        matchers

theorem zip_map_real (T : List Label) (th : List EThr) (B : Rat) :
    T.zip (th.map (EThr.real B)) = (T.zip th).map (fun p => (p.1, p.2.real B)) := by
  induction T generalizing th with
  | nil => rfl
  | cons a t ih =>
    cases th with
    | nil => rfl
    | cons b u => simp [List.zip_cons_cons, ih]

theorem mapOfE_real {m : Mode} {is2d : Bool} {T : List Label} (th : List EThr)
    {buckets : List (Label × List (List Res))} {nums : List (Label × Nat)} {B : Rat} (hB : 1 < B)
    (hb : BucketsLt B buckets) :
    mapOfE m is2d T th buckets nums = mapOf m is2d T (th.map (EThr.real B)) buckets nums := by
  unfold mapOfE mapOf
  rw [mapLoopE_real hB hb, zip_map_real]
  matchers

/-! ### the threshold-dependent split -/

theorem getStatusE_real {m : Mode} {r : Res} {B : Rat} (o : Option EThr) (hB : 1 < B)
    (hr : ScoreLt B r) : getStatusE m o r = getStatus m (o.map (EThr.real B)) r := by
  unfold getStatusE getStatus
  rw [isResultCorrectE_real o hB hr]
  matchers

theorem isPositiveE_real {m : Mode} {T : List Label} {r : Res} {B : Rat} (o : Option (List EThr))
    (hB : 1 < B) (hr : ScoreLt B r) :
    isPositiveE m T o r = isPositive m T (o.map (List.map (EThr.real B))) r := by
  unfold isPositiveE isPositive
  cases hg : r.gt with
  | none => rfl
  | some g =>
    simp only
    rw [getLabelThresholdE_real g.label T B o]
    cases getLabelThresholdE g.label T o with
    | error e => rfl
    | ok thr =>
      simp only [Except.map]
      rw [getStatusE_real thr hB hr]
      matchers

theorem getPositiveE_real {m : Mode} {T : List Label} {B : Rat} (o : Option (List EThr)) (hB : 1 < B) :
    ∀ {rs : List Res}, (∀ r ∈ rs, ScoreLt B r) →
    getPositiveE m T o rs = getPositive m T (o.map (List.map (EThr.real B))) rs
  | [], _ => rfl
  | r :: rs, h => by
    unfold getPositiveE getPositive
    rw [isPositiveE_real o hB (h r (List.mem_cons_self ..)),
      getPositiveE_real o hB (fun x hx => h x (List.mem_cons_of_mem _ hx))]
    matchers

theorem gtStatusesE_real {m : Mode} {T : List Label} {B : Rat} (o : Option (List EThr)) (hB : 1 < B) :
    ∀ {rs : List Res}, (∀ r ∈ rs, ScoreLt B r) →
    gtStatusesE m T o rs = gtStatuses m T (o.map (List.map (EThr.real B))) rs
  | [], _ => rfl
  | r :: rs, h => by
    unfold gtStatusesE gtStatuses
    rw [getLabelThresholdE_real (keyLabel r) T B o]
    cases getLabelThresholdE (keyLabel r) T o with
    | error e => rfl
    | ok thr =>
      simp only [Except.map]
      rw [getStatusE_real thr hB (h r (List.mem_cons_self ..)),
        gtStatusesE_real o hB (fun x hx => h x (List.mem_cons_of_mem _ hx))]
      matchers

theorem getNegativeE_real {m : Mode} {T : List Label} {B : Rat} (o : Option (List EThr)) (gts : List Gt)
    {rs : List Res} (hB : 1 < B) (h : ∀ r ∈ rs, ScoreLt B r) :
    getNegativeE m T o gts rs = getNegative m T (o.map (List.map (EThr.real B))) gts rs := by
  unfold getNegativeE getNegative
  rw [gtStatusesE_real o hB h]
  matchers

/-! ### a number above everything at hand -/

/-- one more than the largest of `1` and the elements of `xs` -/
def ub (xs : List Rat) : Rat := xs.foldr max 1 + 1

theorem le_foldr_max (xs : List Rat) : 1 ≤ xs.foldr max 1 ∧ ∀ x ∈ xs, x ≤ xs.foldr max 1 := by
  induction xs with
  | nil => exact ⟨le_refl _, fun x hx => by cases hx⟩
  | cons a t ih =>
    refine ⟨le_trans ih.1 (le_max_right _ _), fun x hx => ?_⟩
    rcases List.mem_cons.1 hx with rfl | hx
    · exact le_max_left _ _
    · exact le_trans (ih.2 x hx) (le_max_right _ _)

theorem one_lt_ub (xs : List Rat) : 1 < ub xs := by
  have := (le_foldr_max xs).1
  unfold ub; linarith

theorem lt_ub {xs : List Rat} {x : Rat} (h : x ∈ xs) : x < ub xs := by
  have := (le_foldr_max xs).2 x h
  unfold ub; linarith

/-- the matching scores carried by a list of results -/
def scoresOf (rs : List Res) : List Rat :=
  rs.filterMap (fun r => match r.score with
    | .val (some x) => some x
    | _ => none)

/-- the numbers among a list of threshold values -/
def finsOf (th : List EThr) : List Rat :=
  th.filterMap (fun e => match e with
    | .fin t => some t
    | .posInf => none)

theorem scoreLt_ub {rs : List Res} (extra : List Rat) {r : Res} (h : r ∈ rs) :
    ScoreLt (ub (scoresOf rs ++ extra)) r := by
  intro x hx
  apply lt_ub
  apply List.mem_append_left
  unfold scoresOf
  exact List.mem_filterMap.2 ⟨r, h, by rw [hx]⟩

theorem fin_le_ub {th : List EThr} (pre post : List Rat) {t : Rat} (h : EThr.fin t ∈ th) :
    t ≤ ub (pre ++ finsOf th ++ post) := by
  apply le_of_lt
  apply lt_ub
  apply List.mem_append_left
  apply List.mem_append_right
  unfold finsOf
  exact List.mem_filterMap.2 ⟨_, h, rfl⟩

theorem map_real_fin (B : Rat) (th : List Rat) : (th.map EThr.fin).map (EThr.real B) = th := by
  induction th with
  | nil => rfl
  | cons a t ih => simp only [List.map_cons, ih]; rfl

/-! ### "looser" survives the reading -/

theorem looserE_real {m : Mode} {e e' : EThr} {B : Rat} (h : looserE m e e')
    (h1 : ∀ t, e = .fin t → t ≤ B) (h2 : ∀ t, e' = .fin t → t ≤ B) :
    looser m (e.real B) (e'.real B) := by
  unfold looserE at h
  unfold looser
  cases hm : m.isDistance <;> simp only [hm, if_true, if_false, Bool.false_eq_true] at h ⊢ <;>
    cases e <;> cases e' <;> simp only [EThr.le, EThr.real] at h ⊢
  all_goals first
    | exact h
    | exact h1 _ rfl
    | exact h2 _ rfl
    | exact le_refl _

theorem forall₂_looserE_real {m : Mode} {th th' : List EThr} {B : Rat}
    (h : List.Forall₂ (looserE m) th th') (h1 : ∀ t, EThr.fin t ∈ th → t ≤ B)
    (h2 : ∀ t, EThr.fin t ∈ th' → t ≤ B) :
    List.Forall₂ (looser m) (th.map (EThr.real B)) (th'.map (EThr.real B)) := by
  induction h with
  | nil => exact .nil
  | cons hab _ ih =>
    refine .cons (looserE_real hab ?_ ?_) (ih ?_ ?_)
    · intro t ht; exact h1 t (by rw [ht]; exact List.mem_cons_self ..)
    · intro t ht; exact h2 t (by rw [ht]; exact List.mem_cons_self ..)
    · intro t ht; exact h1 t (List.mem_cons_of_mem _ ht)
    · intro t ht; exact h2 t (List.mem_cons_of_mem _ ht)

/-- the bound used for a pair of threshold lists on a result list: above 1, above every score, at
least every number among the thresholds -/
def boundFor (rs : List Res) (th th' : List EThr) : Rat := ub (scoresOf rs ++ finsOf th ++ finsOf th')

theorem boundFor_spec (rs : List Res) (th th' : List EThr) :
    1 < boundFor rs th th' ∧ (∀ r ∈ rs, ScoreLt (boundFor rs th th') r)
      ∧ (∀ t, EThr.fin t ∈ th → t ≤ boundFor rs th th')
      ∧ (∀ t, EThr.fin t ∈ th' → t ≤ boundFor rs th th') := by
  refine ⟨one_lt_ub _, fun r hr => ?_, fun t ht => ?_, fun t ht => ?_⟩
  · unfold boundFor; rw [List.append_assoc]; exact scoreLt_ub _ hr
  · unfold boundFor; exact fin_le_ub _ _ ht
  · unfold boundFor
    have := fin_le_ub (scoresOf rs ++ finsOf th) [] ht
    simpa using this

/-- all results of all buckets of a per-label dict -/
def allRes (buckets : List (Label × List (List Res))) : List Res :=
  buckets.flatMap (fun kv => kv.2.flatten)

theorem bucketsLt_of_all {B : Rat} {buckets : List (Label × List (List Res))}
    (h : ∀ r ∈ allRes buckets, ScoreLt B r) : BucketsLt B buckets := by
  intro l rss hl r hr
  obtain ⟨k, hk⟩ := lookupKey_mem hl
  exact h r (List.mem_flatMap.2 ⟨(k, rss), hk, hr⟩)

end PEval.AP
