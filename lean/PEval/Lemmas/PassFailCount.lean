import PEval.Lemmas.PassFail
/-!
Counting lemmas for C03: under the well-formedness hypothesis the ground truths referenced by the
object results are, up to order, exactly the ground truths the second loop of
`get_negative_objects` skips; every result with a ground truth has exactly one ground-truth status.
Core Lean only.
-/
namespace PEval.PassFail

/-! ## membership in `gtsOf` -/

theorem mem_gtsOf {rs : List Res} {g : GT} : g ∈ gtsOf rs ↔ ∃ r ∈ rs, r.gt = some g := by
  simp [gtsOf, List.mem_filterMap]

theorem mem_gtsOf_filter {rs : List Res} {p : Res → Bool} {g : GT} :
    g ∈ gtsOf (rs.filter p) ↔ ∃ r ∈ rs, p r = true ∧ r.gt = some g := by
  simp [gtsOf, List.mem_filterMap, List.mem_filter, and_assoc]

theorem gtsOf_filter_sublist (rs : List Res) (p : Res → Bool) :
    (gtsOf (rs.filter p)).Sublist (gtsOf rs) :=
  List.Sublist.filterMap _ List.filter_sublist

/-! ## `in non_candidates` on a set of ground truths is membership -/

theorem eq_of_same {gts : List GT} (hd : GtsDistinct gts) :
    ∀ a ∈ gts, ∀ b ∈ gts, a.same b = true → a = b := by
  induction gts with
  | nil => intro a ha; cases ha
  | cons x xs ih =>
    have hp := List.pairwise_cons.mp hd
    intro a ha b hb hs
    simp [GT.same] at hs
    rcases List.mem_cons.mp ha with rfl | ha' <;> rcases List.mem_cons.mp hb with rfl | hb'
    · rfl
    · have := hp.1 b hb'; rcases hs with h | h
      · exact absurd h this.1
      · exact absurd h this.2
    · have := hp.1 a ha'; rcases hs with h | h
      · exact absurd h.symm this.1
      · exact absurd h.symm this.2
    · exact ih hp.2 a ha' b hb' (by simp [GT.same]; exact hs)

theorem same_self (a : GT) : a.same a = true := by simp [GT.same]

theorem GtsDistinct.nodup {gts : List GT} (hd : GtsDistinct gts) : gts.Nodup := by
  unfold GtsDistinct at hd
  exact List.Pairwise.imp (fun {a b} h hab => h.1 (by rw [hab])) hd

theorem inNonCand_iff_mem {rs : List Res} {gts : List GT} (h : WF rs gts) {g : GT} (hg : g ∈ gts) :
    inNonCand g (gtsOf rs) = true ↔ g ∈ gtsOf rs := by
  obtain ⟨hd, _, hsub⟩ := h
  constructor
  · intro hin
    simp only [inNonCand, List.any_eq_true] at hin
    obtain ⟨n, hn, hs⟩ := hin
    have : g = n := eq_of_same hd g hg n (hsub n hn) hs
    exact this ▸ hn
  · intro hm
    simp only [inNonCand, List.any_eq_true]
    exact ⟨g, hm, same_self g⟩

/-- the ground truths skipped by the second loop are exactly the ground truths of the results -/
theorem filter_inNonCand_perm {rs : List Res} {gts : List GT} (h : WF rs gts) :
    (gts.filter (fun g => inNonCand g (gtsOf rs))).Perm (gtsOf rs) := by
  have hd := h.1
  have hn := h.2.1
  have hsub := h.2.2
  refine (List.perm_ext_iff_of_nodup ?_ hn).mpr ?_
  · exact List.Nodup.sublist List.filter_sublist hd.nodup
  · intro g
    constructor
    · intro hg
      have hg' := List.mem_filter.mp hg
      exact (inNonCand_iff_mem h hg'.1).mp hg'.2
    · intro hg
      exact List.mem_filter.mpr ⟨hsub g hg, (inNonCand_iff_mem h (hsub g hg)).mpr hg⟩

/-! ## every result with a ground truth has exactly one ground-truth status -/

theorem perm_ins1 {α} (a : α) (A X : List α) : (a :: (A ++ X)).Perm (A ++ a :: X) :=
  List.perm_middle.symm

theorem perm_ins2 {α} (a : α) (A B X : List α) : (a :: (A ++ (B ++ X))).Perm (A ++ (B ++ a :: X)) :=
  (perm_ins1 a A (B ++ X)).trans (List.Perm.append_left A (perm_ins1 a B X))

theorem perm_ins3 {α} (a : α) (A B C X : List α) :
    (a :: (A ++ (B ++ (C ++ X)))).Perm (A ++ (B ++ (C ++ a :: X))) :=
  (perm_ins1 a A (B ++ (C ++ X))).trans (List.Perm.append_left A (perm_ins2 a B C X))

theorem gtsOf_status_perm (rs : List Res) :
    (gtsOf rs).Perm
      (gtsOf (rs.filter (gtStatusIs .TP)) ++ (gtsOf (rs.filter (gtStatusIs .FN)) ++
        (gtsOf (rs.filter (gtStatusIs .TN)) ++ gtsOf (rs.filter (gtStatusIs .FP))))) := by
  induction rs with
  | nil => simp [gtsOf]
  | cons r rs ih =>
    cases hg : r.gt with
    | none =>
      simp [gtsOf, hg, getStatus_none r hg, gtStatusIs] at ih ⊢; exact ih
    | some g =>
      have hs := getStatus_some r g hg
      cases hc : isResultCorrect r <;> cases hf : g.isFP <;> simp [hc, hf] at hs
      · -- (FP, FN)
        simp [gtsOf, hg, hs, gtStatusIs] at ih ⊢
        exact (List.Perm.cons g ih).trans (perm_ins1 g _ _)
      · -- (FP, FP)
        simp [gtsOf, hg, hs, gtStatusIs] at ih ⊢
        exact (List.Perm.cons g ih).trans (perm_ins3 g _ _ _ _)
      · -- (TP, TP)
        simp [gtsOf, hg, hs, gtStatusIs] at ih ⊢
        exact ih
      · -- (FP, TN)
        simp [gtsOf, hg, hs, gtStatusIs] at ih ⊢
        exact (List.Perm.cons g ih).trans (perm_ins2 g _ _ _)

/-! ## the TP list and the matched-FP sublist of the FP list, as filters -/

theorem isTP_eq_gtStatusIs : isTP = gtStatusIs .TP := by
  funext r; rw [isTP_eq]; rfl

theorem matchedFP_getPositive (rs : List Res) :
    matchedFP (getPositive rs).2 = rs.filter (gtStatusIs .FP) := by
  rw [getPositive_snd]
  induction rs with
  | nil => simp [matchedFP]
  | cons r rs ih =>
    cases hg : r.gt with
    | none =>
      simp [matchedFP, isTP, fpEntry, Res.hasFPGt, hg, getStatus_none r hg, gtStatusIs] at ih ⊢
      exact ih
    | some g =>
      have hs := getStatus_some r g hg
      cases hc : isResultCorrect r <;> cases hf : g.isFP <;> simp [hc, hf] at hs <;>
        simp [matchedFP, isTP, fpEntry, Res.hasFPGt, Res.unmatched, hg, hs, hf, gtStatusIs] at ih ⊢ <;>
        exact ih

/-! ## label kind of the ground truths in each list -/

theorem status_isFP {r : Res} {g : GT} (hg : r.gt = some g) :
    (gtStatusIs .TP r = true → g.isFP = false) ∧ (gtStatusIs .FN r = true → g.isFP = false) ∧
    (gtStatusIs .TN r = true → g.isFP = true) ∧ (gtStatusIs .FP r = true → g.isFP = true) := by
  have hs := getStatus_some r g hg
  cases hc : isResultCorrect r <;> cases hf : g.isFP <;> simp [hc, hf] at hs <;>
    simp [gtStatusIs, hs]

end PEval.PassFail
