import Mathlib.Algebra.Order.Floor.Ring
import Mathlib.Data.Rat.Floor
import PEval.Lemmas.DatasetTotal
/-!
Helper lemmas for the 2-D part of C16 (`_sample_to_frame_2d`): inversion of the `Except` pipelines,
the annotation loop, `dedupFirst`, truncation, and totality on referentially intact tables.
-/
namespace PEval.Dataset
open PEval

/-! ## label tables -/

theorem convertWith_cases (table : List (String × String)) (name : String) :
    (∃ p ∈ table, name.toLower = p.2 ∧ convertWith table name = p.1) ∨
    (name.toLower ∉ table.map (·.2) ∧ convertWith table name = "UNKNOWN") := by
  unfold convertWith
  cases hf : table.find? (fun p => name.toLower == p.2) with
  | some p =>
    left
    exact ⟨p, List.mem_of_find?_eq_some hf, by simpa using List.find?_some hf, rfl⟩
  | none =>
    right
    refine ⟨?_, rfl⟩
    intro hmem
    obtain ⟨p, hp, hp2⟩ := List.mem_map.1 hmem
    have := List.find?_eq_none.1 hf p hp
    simp [hp2] at this

theorem trafficLightTable_cases (task : String) :
    trafficLightTable task = Gen.trafficLightPairsClassification ∨
    trafficLightTable task = Gen.trafficLightPairsOther := by
  unfold trafficLightTable
  split
  · exact Or.inl rfl
  · exact Or.inr rfl

/-! ## `dedupFirst` -/

theorem mem_dedupFirst {x : String} : ∀ {l : List String}, x ∈ dedupFirst l ↔ x ∈ l
  | [] => by simp [dedupFirst]
  | y :: l => by
    simp only [dedupFirst, List.mem_cons, List.mem_filter, mem_dedupFirst (l := l)]
    by_cases h : x = y
    · simp [h]
    · simp [h]

theorem nodup_dedupFirst : ∀ (l : List String), (dedupFirst l).Nodup
  | [] => by simp [dedupFirst]
  | y :: l => by
    simp only [dedupFirst]
    refine List.nodup_cons.2 ⟨?_, (nodup_dedupFirst l).filter _⟩
    simp

/-! ## truncation -/

theorem truncInt_nonneg {q : Rat} (h : 0 ≤ q) :
    0 ≤ truncInt q ∧ (truncInt q : Rat) ≤ q ∧ q < (truncInt q : Rat) + 1 := by
  have hf : truncInt q = ⌊q⌋ := by simp [truncInt, h, Rat.floor_def', Rat.floor_def]
  rw [hf]
  exact ⟨Int.floor_nonneg.2 h, Int.floor_le q, Int.lt_floor_add_one q⟩

theorem truncInt_neg {q : Rat} (h : q < 0) :
    truncInt q ≤ 0 ∧ q ≤ (truncInt q : Rat) ∧ (truncInt q : Rat) - 1 < q := by
  have hn : ¬ (0 ≤ q) := not_le.2 h
  have hf : truncInt q = -⌊-q⌋ := by simp [truncInt, hn, Rat.floor_def', Rat.floor_def]
  rw [hf]
  have h1 := Int.floor_le (-q)
  have h2 := Int.lt_floor_add_one (-q)
  have h3 : 0 ≤ ⌊-q⌋ := Int.floor_nonneg.2 (by linarith)
  refine ⟨by omega, ?_, ?_⟩
  · push_cast; linarith
  · push_cast; linarith

/-! ## the camera loop -/

theorem mem_camerasOf {T : Tables} {tok : String} {frames : List String} {fr : String} {sd : SampleData} :
    (fr, sd) ∈ camerasOf T tok frames ↔ fr ∈ frames ∧ dataOf T tok (cameraType fr) = some sd := by
  unfold camerasOf
  simp only [List.mem_filterMap, Option.map_eq_some_iff, Prod.mk.injEq]
  constructor
  · rintro ⟨f, hf, sd', hsd, rfl, rfl⟩
    exact ⟨hf, hsd⟩
  · rintro ⟨hf, hsd⟩
    exact ⟨fr, hf, sd, hsd, rfl, rfl⟩

theorem camerasOf_sublist (T : Tables) (tok : String) :
    ∀ frames : List String, ((camerasOf T tok frames).map (·.1)).Sublist frames
  | [] => by simp [camerasOf]
  | f :: rest => by
    have ih := camerasOf_sublist T tok rest
    unfold camerasOf at ih ⊢
    simp only [List.filterMap_cons]
    cases hd : dataOf T tok (cameraType f) with
    | none => simpa using ih.cons f
    | some sd => simpa using ih.cons_cons f

theorem transforms2D_spec {T : Tables} :
    ∀ {cams : List (String × SampleData)} {acc tf : Option Pose}, transforms2D T cams acc = .ok tf →
      (cams = [] → tf = acc) ∧
      (∀ c, cams.getLast? = some c → ∃ ego, lookup EgoPose.token T.egoPoses c.2.egoPoseToken = .ok ego ∧
        tf = some ⟨ego.translation, ego.rotation⟩) ∧
      (cams ≠ [] → ∃ frs, sensorFrames T = .ok frs)
  | [], acc, tf, h => by
    simp only [transforms2D] at h
    cases h
    exact ⟨fun _ => rfl, fun c hc => (by simp at hc), fun h => absurd rfl h⟩
  | (fr, sd) :: rest, acc, tf, h => by
    simp only [transforms2D] at h
    cases he : lookup EgoPose.token T.egoPoses sd.egoPoseToken with
    | error e => simp [he] at h
    | ok ego =>
      simp only [he] at h
      cases hs : sensorFrames T with
      | error e => simp [hs] at h
      | ok frs =>
        simp only [hs] at h
        obtain ⟨h1, h2, _⟩ := transforms2D_spec h
        refine ⟨fun hc => (by cases hc), ?_, fun _ => ⟨frs, rfl⟩⟩
        intro c hc
        cases rest with
        | nil =>
          simp only [List.getLast?_singleton, Option.some.injEq] at hc
          subst hc
          exact ⟨ego, he, h1 rfl⟩
        | cons c' rest' =>
          rw [List.getLast?_cons_cons] at hc
          exact h2 c hc

/-! ## the annotation loop -/

theorem object2DOf_ok {T : Tables} {cfg : Config2D} {time : Nat} {cams : List (String × SampleData)}
    {stale : Option String} {o : ObjectAnn} {obj : Obj2D} (h : object2DOf T cfg time cams stale o = .ok obj) :
    ∃ cat attrs uuid fr, lookup Named.token T.categories o.categoryToken = .ok cat ∧
      attributeNamesOfTokens T o.attributeTokens = .ok attrs ∧
      (if cfg.family = "traffic_light" then tlrUuid T stale o else .ok o.instanceToken) = .ok uuid ∧
      frameOfToken cams o.sampleDataToken = some fr ∧
      obj = { uuid := uuid, label := convertWith (pairTable2D cfg) cat.name, name := cat.name,
              attributes := attrs, roi := roiOf cfg.task o, frame := fr, time := time } := by
  unfold object2DOf at h
  split at h
  · cases h
  · rename_i cat hcat
    split at h
    · cases h
    · rename_i attrs hattrs
      split at h
      · cases h
      · rename_i uuid huuid
        split at h
        · cases h
        · rename_i fr hfr
          cases h
          exact ⟨cat, attrs, uuid, fr, hcat, hattrs, huuid, hfr, rfl⟩

theorem objects2DLoop_forall₂ {T : Tables} {cfg : Config2D} {time : Nat} {cams : List (String × SampleData)} :
    ∀ {l : List ObjectAnn} {stale : Option String} {objs : List Obj2D},
      objects2DLoop T cfg time cams stale l = .ok objs →
      List.Forall₂ (fun o obj => ∃ st, object2DOf T cfg time cams st o = .ok obj) l objs
  | [], stale, objs, h => by
    simp only [objects2DLoop] at h
    cases h
    exact .nil
  | o :: rest, stale, objs, h => by
    simp only [objects2DLoop] at h
    cases ho : object2DOf T cfg time cams stale o with
    | error e => simp [ho] at h
    | ok obj =>
      simp only [ho] at h
      cases hr : objects2DLoop T cfg time cams (some obj.uuid) rest with
      | error e => simp [hr] at h
      | ok objs' =>
        simp only [hr] at h
        cases h
        exact .cons ⟨stale, ho⟩ (objects2DLoop_forall₂ hr)

theorem objects2DLoop_total {T : Tables} {cfg : Config2D} {time : Nat} {cams : List (String × SampleData)} :
    ∀ (l : List ObjectAnn) (stale : Option String),
      (∀ o ∈ l, ∀ st, ∃ obj, object2DOf T cfg time cams st o = .ok obj) →
      ∃ objs, objects2DLoop T cfg time cams stale l = .ok objs
  | [], _, _ => ⟨[], rfl⟩
  | o :: rest, stale, h => by
    obtain ⟨obj, ho⟩ := h o List.mem_cons_self stale
    obtain ⟨objs, hr⟩ := objects2DLoop_total rest (some obj.uuid)
      (fun x hx => h x (List.mem_cons_of_mem _ hx))
    exact ⟨obj :: objs, by simp [objects2DLoop, ho, hr]⟩

theorem sampleToFrame2D_ok {T : Tables} {cfg : Config2D} {n : Nat} {s : Sample} {f : Frame2D}
    (h : sampleToFrame2D T cfg n s = .ok f) :
    ∃ tf objs objs',
      transforms2D T (camerasOf T s.token cfg.frames) none = .ok tf ∧
      objects2DLoop T cfg s.timestamp (camerasOf T s.token cfg.frames) none
        (objectAnnsOf T (camerasOf T s.token cfg.frames)) = .ok objs ∧
      (if cfg.family = "traffic_light" ∧ cfg.task = "CLASSIFICATION2D"
        then mergeTrafficLights s.timestamp objs else .ok objs) = .ok objs' ∧
      f = { unixTime := s.timestamp, frameName := toString n, objects := objs', ego2map := tf } := by
  unfold sampleToFrame2D at h
  simp only at h
  split at h
  · cases h
  · rename_i tf htf
    split at h
    · cases h
    · rename_i objs hobjs
      split at h
      · cases h
      · rename_i objs' hm
        cases h
        exact ⟨tf, objs, objs', htf, hobjs, hm, rfl⟩

theorem loadFrom2D_spec {T : Tables} {cfg : Config2D} :
    ∀ {l : List Sample} {n : Nat} {fs : List Frame2D}, loadFrom2D T cfg n l = .ok fs →
      fs.length = l.length ∧
      ∀ i (h : i < l.length), ∃ f, fs[i]? = some f ∧ sampleToFrame2D T cfg (n + i) l[i] = .ok f
  | [], n, fs, h => by
    simp only [loadFrom2D] at h
    cases h
    exact ⟨rfl, fun i hi => absurd hi (Nat.not_lt_zero _)⟩
  | s :: rest, n, fs, h => by
    simp only [loadFrom2D] at h
    cases hs : sampleToFrame2D T cfg n s with
    | error e => simp [hs] at h
    | ok f =>
      simp only [hs] at h
      cases hr : loadFrom2D T cfg (n + 1) rest with
      | error e => simp [hr] at h
      | ok fr =>
        simp only [hr] at h
        cases h
        obtain ⟨hlen, hidx⟩ := loadFrom2D_spec hr
        refine ⟨by simp [hlen], ?_⟩
        intro i hi
        cases i with
        | zero => exact ⟨f, rfl, by simpa using hs⟩
        | succ j =>
          have hj : j < rest.length := by simpa using hi
          obtain ⟨g, hg1, hg2⟩ := hidx j hj
          refine ⟨g, by simpa using hg1, ?_⟩
          have : n + (j + 1) = n + 1 + j := by omega
          simpa [this] using hg2

/-! ## the merge of traffic lights -/

theorem mergeOne_ok {time : Nat} {objs : List Obj2D} {uuid : String} {m : Obj2D}
    (h : mergeOne time objs uuid = .ok m) :
    m.uuid = uuid ∧ m.frame = "CAM_TRAFFIC_LIGHT" ∧ m.roi = none ∧ m.time = time ∧
    ∃ c ∈ objs, c.uuid = uuid ∧ m.label = c.label ∧ m.name = c.name ∧ m.attributes = c.attributes ∧
      ((∀ c' ∈ objs, c'.uuid = uuid → c'.label = m.label) ∨
       (m.label ≠ "UNKNOWN" ∧ (dedupFirst ((objs.filter (fun o => o.uuid == uuid)).map (·.label))).length = 2)) := by
  unfold mergeOne at h
  simp only at h
  split at h
  · cases h
  · rename_i c0 tl hc
    have hmemc : ∀ c, c ∈ objs.filter (fun o => o.uuid == uuid) → c ∈ objs ∧ c.uuid = uuid := by
      intro c hcm
      have := List.mem_filter.1 hcm
      exact ⟨this.1, by simpa using this.2⟩
    split at h
    · rename_i hall
      simp only [Except.map, Except.ok.injEq] at h
      subst h
      have hc0 : c0 ∈ objs.filter (fun o => o.uuid == uuid) := by rw [hc]; exact List.mem_cons_self
      refine ⟨rfl, rfl, rfl, rfl, c0, (hmemc c0 hc0).1, (hmemc c0 hc0).2, rfl, rfl, rfl, Or.inl ?_⟩
      intro c' hc' hu
      have hm : c' ∈ objs.filter (fun o => o.uuid == uuid) := List.mem_filter.2 ⟨hc', by simpa using hu⟩
      have := List.all_eq_true.1 hall c' hm
      simpa using this
    · split at h
      · rename_i hlen
        split at h
        · rename_i c hfind
          simp only [Except.map, Except.ok.injEq] at h
          subst h
          have hcm : c ∈ objs.filter (fun o => o.uuid == uuid) := List.mem_of_find?_eq_some hfind
          have hne : c.label ≠ "UNKNOWN" := by simpa using List.find?_some hfind
          refine ⟨rfl, rfl, rfl, rfl, c, (hmemc c hcm).1, (hmemc c hcm).2, rfl, rfl, rfl, Or.inr ⟨hne, ?_⟩⟩
          exact hlen
        · simp [Except.map] at h
      · simp [Except.map] at h

theorem merge_uuids {time : Nat} {objs : List Obj2D} {us : List String} {ms : List Obj2D}
    (h : List.Forall₂ (fun a b => mergeOne time objs a = .ok b) us ms) : ms.map (·.uuid) = us := by
  induction h with
  | nil => rfl
  | cons hab _ ih => simp [(mergeOne_ok hab).1, ih]

/-! ## totality on referentially intact tables -/

/-- what "well-formed" means for the 2-D loader: every token it follows resolves, every sensor channel is
a `FrameID` value and no calibrated rotation is the zero quaternion (the signs of the quaternions are free) -/
structure WellFormed2D (T : Tables) : Prop where
  samples_ne : T.samples ≠ []
  ego : ∀ sd ∈ T.sampleData, ∃ e, lookup EgoPose.token T.egoPoses sd.egoPoseToken = .ok e
  sensors : ∀ cs ∈ T.calibratedSensors, ∃ sen m, lookup Sensor.token T.sensors cs.sensorToken = .ok sen ∧
    Enums.frameFromValue sen.channel = .ok m
  rotations : ∀ cs ∈ T.calibratedSensors, cs.rotation ≠ Quat.zero
  oann_category : ∀ o ∈ T.objectAnns, ∃ c, lookup Named.token T.categories o.categoryToken = .ok c
  oann_attributes : ∀ o ∈ T.objectAnns, ∀ t ∈ o.attributeTokens, ∃ x, lookup Named.token T.attributes t = .ok x
  oann_instance : ∀ o ∈ T.objectAnns, ∃ i ∈ T.instances, i.token = o.instanceToken

theorem transforms2D_total {T : Tables} (wf : WellFormed2D T) :
    ∀ (cams : List (String × SampleData)) (acc : Option Pose), (∀ c ∈ cams, c.2 ∈ T.sampleData) →
      ∃ tf, transforms2D T cams acc = .ok tf
  | [], acc, _ => ⟨acc, rfl⟩
  | (fr, sd) :: rest, acc, h => by
    obtain ⟨e, he⟩ := wf.ego sd (h (fr, sd) List.mem_cons_self)
    obtain ⟨frs, hfrs⟩ := sensorFrames_total wf.sensors wf.rotations
    obtain ⟨tf, htf⟩ := transforms2D_total wf rest (some ⟨e.translation, e.rotation⟩)
      (fun c hc => h c (List.mem_cons_of_mem _ hc))
    exact ⟨tf, by simp [transforms2D, he, hfrs, htf]⟩

theorem frameOfToken_some {cams : List (String × SampleData)} {tok : String}
    (h : (cams.map (·.2.token)).contains tok = true) : ∃ fr, frameOfToken cams tok = some fr := by
  unfold frameOfToken
  cases hf : cams.reverse.find? (fun c => c.2.token == tok) with
  | some c => exact ⟨c.1, rfl⟩
  | none =>
    have hm : tok ∈ cams.map (·.2.token) := by simpa using h
    obtain ⟨c, hc, hct⟩ := List.mem_map.1 hm
    have := List.find?_eq_none.1 hf c (by simpa using hc)
    simp [hct] at this

theorem object2DOf_total {T : Tables} (wf : WellFormed2D T) (cfg : Config2D) (time : Nat)
    (cams : List (String × SampleData)) (st : Option String) {o : ObjectAnn} (ho : o ∈ objectAnnsOf T cams) :
    ∃ obj, object2DOf T cfg time cams st o = .ok obj := by
  have hf := List.mem_filter.1 ho
  obtain ⟨cat, hcat⟩ := wf.oann_category o hf.1
  obtain ⟨attrs, hattrs⟩ : ∃ l, attributeNamesOfTokens T o.attributeTokens = .ok l := by
    unfold attributeNamesOfTokens
    apply mapE_ok_of_forall
    intro t ht
    obtain ⟨x, hx⟩ := wf.oann_attributes o hf.1 t ht
    exact ⟨x.name, by simp [hx, Except.map]⟩
  obtain ⟨uuid, huuid⟩ : ∃ u, (if cfg.family = "traffic_light" then tlrUuid T st o
      else Except.ok o.instanceToken) = .ok u := by
    split
    · unfold tlrUuid
      cases hfi : T.instances.find? (fun i => i.token == o.instanceToken) with
      | some i => exact ⟨_, rfl⟩
      | none =>
        obtain ⟨i, hi, hit⟩ := wf.oann_instance o hf.1
        have := List.find?_eq_none.1 hfi i hi
        simp [hit] at this
    · exact ⟨_, rfl⟩
  obtain ⟨fr, hfr⟩ := frameOfToken_some hf.2
  simp only [object2DOf, hcat, hattrs, huuid, hfr]
  exact ⟨_, rfl⟩

theorem sampleToFrame2D_total {T : Tables} (wf : WellFormed2D T) (cfg : Config2D)
    (hnm : ¬ (cfg.family = "traffic_light" ∧ cfg.task = "CLASSIFICATION2D")) (n : Nat) (s : Sample) :
    ∃ f, sampleToFrame2D T cfg n s = .ok f := by
  have hc : ∀ c ∈ camerasOf T s.token cfg.frames, c.2 ∈ T.sampleData := by
    intro c hc
    exact dataOf_mem (mem_camerasOf.1 (show (c.1, c.2) ∈ _ from hc)).2
  obtain ⟨tf, htf⟩ := transforms2D_total wf _ none hc
  obtain ⟨objs, hobjs⟩ := objects2DLoop_total (T := T) (cfg := cfg) (time := s.timestamp)
    (cams := camerasOf T s.token cfg.frames) (objectAnnsOf T (camerasOf T s.token cfg.frames)) none
    (fun o ho st => object2DOf_total wf cfg _ _ st ho)
  simp only [sampleToFrame2D, htf, hobjs, hnm, if_false]
  exact ⟨_, rfl⟩

theorem loadFrom2D_total {T : Tables} (wf : WellFormed2D T) (cfg : Config2D)
    (hnm : ¬ (cfg.family = "traffic_light" ∧ cfg.task = "CLASSIFICATION2D")) :
    ∀ (l : List Sample) (n : Nat), ∃ fs, loadFrom2D T cfg n l = .ok fs
  | [], n => ⟨[], rfl⟩
  | s :: rest, n => by
    obtain ⟨f, hf⟩ := sampleToFrame2D_total wf cfg hnm n s
    obtain ⟨fs, hfs⟩ := loadFrom2D_total wf cfg hnm rest (n + 1)
    exact ⟨f :: fs, by simp [loadFrom2D, hf, hfs]⟩

end PEval.Dataset
