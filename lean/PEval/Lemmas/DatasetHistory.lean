import Mathlib.Data.List.Perm.Subperm
import PEval.Lemmas.DatasetTotal
/-!
The tracking history is EXACTLY a prefix of the `prev`-chain (C16, `tracking_history_exact`).

`PrevChain T a l` : `l` is the list of annotation records met when walking `prev` from `a` until a
record without `prev` (nearest first). `walk` is the `while` loop of `PredictHelper._iterate` run on
that list instead of on the tables; `iterate_eq_walk` shows the two agree whenever the fuel exceeds
the chain's length, and `walk_spec` evaluates the loop when the elapsed times grow strictly along
the chain: the records less than 3.15 s back, at most 6.
-/
namespace PEval.Dataset
open PEval

/-- the records reached from `a` along `prev`, nearest first, down to the record whose `prev` is empty -/
inductive PrevChain (T : Tables) : Annotation → List Annotation → Prop
  | nil {a : Annotation} : a.prev = "" → PrevChain T a []
  | cons {a b : Annotation} {l : List Annotation} : a.prev ≠ "" →
      lookup Annotation.token T.annotations a.prev = .ok b → PrevChain T b l → PrevChain T a (b :: l)

theorem PrevChain.unique {T : Tables} {a : Annotation} {l l' : List Annotation}
    (h : PrevChain T a l) (h' : PrevChain T a l') : l = l' := by
  induction h generalizing l' with
  | nil he =>
    cases h' with
    | nil _ => rfl
    | cons hne _ _ => exact absurd he hne
  | cons hne hb _ ih =>
    cases h' with
    | nil he => exact absurd he hne
    | cons _ hb' hl' =>
      rw [hb] at hb'
      cases hb'
      rw [ih hl']

theorem PrevChain.mem {T : Tables} {a : Annotation} {l : List Annotation} (h : PrevChain T a l) :
    ∀ r ∈ l, r ∈ T.annotations := by
  induction h with
  | nil _ => intro r hr; cases hr
  | cons _ hb _ ih =>
    intro r hr
    rcases List.mem_cons.1 hr with rfl | hr
    · exact (lookup_ok_mem hb).1
    · exact ih r hr

/-- along a chain whose links go strictly back in time, times decrease strictly -/
theorem PrevChain.desc {T : Tables} {tm : Annotation → Nat} {a : Annotation} {l : List Annotation}
    (h : PrevChain T a l) (ha : a ∈ T.annotations)
    (hearlier : ∀ b ∈ T.annotations, ∀ c, lookup Annotation.token T.annotations b.prev = .ok c → tm c < tm b) :
    (∀ r ∈ l, tm r < tm a) ∧ l.Pairwise (fun x y => tm y < tm x) := by
  induction h with
  | nil _ => exact ⟨fun r hr => (by cases hr), List.Pairwise.nil⟩
  | @cons a b l _ hb _ ih =>
    have hbm := (lookup_ok_mem hb).1
    have hlt := hearlier a ha b hb
    obtain ⟨h1, h2⟩ := ih hbm
    refine ⟨?_, List.Pairwise.cons (fun r hr => h1 r hr) h2⟩
    intro r hr
    rcases List.mem_cons.1 hr with rfl | hr
    · exact hlt
    · exact Nat.lt_trans (h1 r hr) hlt

/-- … and stay within the instance when every link does -/
theorem PrevChain.same_instance {T : Tables} {a : Annotation} {l : List Annotation}
    (h : PrevChain T a l) (ha : a ∈ T.annotations)
    (hprev : ∀ b ∈ T.annotations, ∀ c, lookup Annotation.token T.annotations b.prev = .ok c →
      c.instanceToken = b.instanceToken) :
    ∀ r ∈ l, r.instanceToken = a.instanceToken := by
  induction h with
  | nil _ => intro r hr; cases hr
  | @cons a b l _ hb _ ih =>
    have hbm := (lookup_ok_mem hb).1
    have hi := hprev a ha b hb
    intro r hr
    rcases List.mem_cons.1 hr with rfl | hr
    · exact hi
    · exact (ih hbm r hr).trans hi

/-- a chain with strictly decreasing times is shorter than the annotation table -/
theorem PrevChain.length_lt {T : Tables} {tm : Annotation → Nat} {a : Annotation} {l : List Annotation}
    (h : PrevChain T a l) (ha : a ∈ T.annotations)
    (hearlier : ∀ b ∈ T.annotations, ∀ c, lookup Annotation.token T.annotations b.prev = .ok c → tm c < tm b) :
    l.length < T.annotations.length := by
  obtain ⟨h1, h2⟩ := h.desc ha hearlier
  have hnd : (a :: l).Nodup := by
    refine List.nodup_cons.2 ⟨?_, ?_⟩
    · intro hm
      exact Nat.lt_irrefl _ (h1 a hm)
    · exact h2.imp (fun {x y} hxy hEq => by subst hEq; exact Nat.lt_irrefl _ hxy)
  have hsub : (a :: l) ⊆ T.annotations := by
    intro r hr
    rcases List.mem_cons.1 hr with rfl | hr
    · exact ha
    · exact h.mem r hr
  have := (List.subperm_of_subset hnd hsub).length_le
  simp only [List.length_cons] at this
  omega

/-- on referentially intact tables whose `prev` links go strictly back in time the chain exists -/
theorem PrevChain.exists_of_wf {T : Tables} (wf : WellFormed T) (tm : Annotation → Nat)
    (hearlier : ∀ b ∈ T.annotations, ∀ c, lookup Annotation.token T.annotations b.prev = .ok c → tm c < tm b) :
    ∀ (n : Nat) (a : Annotation), a ∈ T.annotations → tm a < n → ∃ l, PrevChain T a l
  | 0, _, _, h => absurd h (Nat.not_lt_zero _)
  | n + 1, a, ha, h => by
    by_cases he : a.prev = ""
    · exact ⟨[], .nil he⟩
    · obtain ⟨b, hb⟩ := wf.ann_prev a ha he
      have hlt := hearlier a ha b hb
      obtain ⟨l, hl⟩ := PrevChain.exists_of_wf wf tm hearlier n b (lookup_ok_mem hb).1 (by omega)
      exact ⟨b :: l, .cons he hb hl⟩

theorem takeWhile_congr_mem {α} {p q : α → Bool} :
    ∀ {l : List α}, (∀ r ∈ l, p r = q r) → l.takeWhile p = l.takeWhile q
  | [], _ => rfl
  | x :: l, h => by
    have hx := h x List.mem_cons_self
    have ih := takeWhile_congr_mem (l := l) (fun r hr => h r (List.mem_cons_of_mem _ hr))
    simp [List.takeWhile_cons, hx, ih]

/-! ## the loop of `_iterate` on a list -/

/-- the `while` loop of `_iterate` (see `iterate`) reading the chain from a list; `tm` = sample time of a record -/
def walk (start : Nat) (tm : Annotation → Nat) : List Annotation → Nat → List Annotation → List Annotation
  | [], _, acc => acc
  | r :: rest, elapsed, acc =>
    if elapsed ≤ windowUs ∧ acc.length < maxPast then
      walk start tm rest (absDiff (tm r) start) (if absDiff (tm r) start < windowUs then acc ++ [r] else acc)
    else acc

theorem iterate_eq_walk {T : Tables} {start : Nat} {tm : Annotation → Nat} :
    ∀ {cur : Annotation} {l : List Annotation}, PrevChain T cur l →
      (∀ r ∈ l, timeOf T r.sampleToken = .ok (tm r)) →
      ∀ (fuel elapsed : Nat) (acc : List Annotation), l.length < fuel →
        iterate T start fuel cur elapsed acc = .ok (walk start tm l elapsed acc) := by
  intro cur l h
  induction h with
  | @nil a he =>
    intro _ fuel elapsed acc hf
    cases fuel with
    | zero => exact absurd hf (Nat.not_lt_zero _)
    | succ f =>
      simp only [iterate, walk, he, beq_self_eq_true, if_true]
      split <;> rfl
  | @cons a b l hne hb _ ih =>
    intro htm fuel elapsed acc hf
    cases fuel with
    | zero => exact absurd hf (Nat.not_lt_zero _)
    | succ f =>
      have hne' : (a.prev == "") = false := by simpa using hne
      have htb := htm b List.mem_cons_self
      simp only [iterate, walk, hne', Bool.false_eq_true, if_false, hb, htb]
      split
      · exact ih (fun r hr => htm r (List.mem_cons_of_mem _ hr)) f _ _ (by simpa using hf)
      · rfl

/-- once the window is reached and the elapsed times keep growing, nothing more is collected -/
theorem walk_done {start : Nat} {tm : Annotation → Nat} :
    ∀ (l : List Annotation) (elapsed : Nat) (acc : List Annotation), windowUs ≤ elapsed →
      (∀ r ∈ l, elapsed < absDiff (tm r) start) →
      l.Pairwise (fun x y => absDiff (tm x) start < absDiff (tm y) start) →
      walk start tm l elapsed acc = acc
  | [], _, _, _, _, _ => rfl
  | r :: rest, elapsed, acc, hw, hgt, hp => by
    simp only [walk]
    split
    · have hr := hgt r List.mem_cons_self
      have hnot : ¬ absDiff (tm r) start < windowUs := by omega
      simp only [hnot, if_false]
      have hp' := List.pairwise_cons.1 hp
      exact walk_done rest _ acc (by omega) (fun x hx => hp'.1 x hx) hp'.2
    · rfl

/-- the loop evaluated: while inside the window it appends, up to the cap; the first record at or
beyond the window ends the collection -/
theorem walk_spec {start : Nat} {tm : Annotation → Nat} :
    ∀ (l : List Annotation) (elapsed : Nat) (acc : List Annotation), elapsed < windowUs →
      (∀ r ∈ l, elapsed < absDiff (tm r) start) →
      l.Pairwise (fun x y => absDiff (tm x) start < absDiff (tm y) start) →
      walk start tm l elapsed acc =
        acc ++ (l.takeWhile (fun r => decide (absDiff (tm r) start < windowUs))).take (maxPast - acc.length)
  | [], _, acc, _, _, _ => by simp [walk]
  | r :: rest, elapsed, acc, hw, hgt, hp => by
    have hp' := List.pairwise_cons.1 hp
    simp only [walk]
    by_cases hcap : acc.length < maxPast
    · have hc : elapsed ≤ windowUs ∧ acc.length < maxPast := ⟨Nat.le_of_lt hw, hcap⟩
      simp only [hc, and_self, if_true]
      by_cases hin : absDiff (tm r) start < windowUs
      · simp only [hin, if_true, List.takeWhile_cons, decide_true]
        rw [walk_spec rest _ (acc ++ [r]) hin (fun x hx => hp'.1 x hx) hp'.2]
        have hk : maxPast - acc.length = (maxPast - (acc ++ [r]).length) + 1 := by
          simp only [List.length_append, List.length_singleton]; omega
        rw [hk, List.take_succ_cons]
        simp
      · simp only [hin, if_false, List.takeWhile_cons, decide_false]
        rw [walk_done rest _ acc (by omega) (fun x hx => hp'.1 x hx) hp'.2]
        simp
    · have hc : ¬ (elapsed ≤ windowUs ∧ acc.length < maxPast) := fun h => hcap h.2
      have hz : maxPast - acc.length = 0 := by omega
      simp [hc, hz]

end PEval.Dataset
