import PEval.Lemmas.AP
import PEval.Lemmas.APSort
/-!
Lemmas about the AP model, part 3: from rankings of `Kind`s to `apW`; comparison of two classifications
of the same result list (APH vs AP here, two thresholds in `APMono`); the mean over the defined APs.
-/

namespace PEval.AP

/-- order on possibly undefined scores: both undefined, or both defined and `≤` -/
def optLe : Option Rat → Option Rat → Prop
  | none, none => True
  | some a, some b => a ≤ b
  | _, _ => False

theorem optLe_refl (a : Option Rat) : optLe a a := by
  cases a <;> simp [optLe]

/-! ### `apOfKinds` in terms of `apW` -/

theorem apOfKinds_nil (G : Nat) : (apOfKinds G []).ap = none := rfl

theorem apOfKinds_ap {G : Nat} {ks : List Kind} (h : ks ≠ []) :
    (apOfKinds G ks).ap = some (apW G 0 0 (ks.map Kind.tpw)) := by
  have he : ks.isEmpty = false := by cases ks <;> simp_all
  have h2 := apSpec_eq_apW G 0 0 (ks.map Kind.tpw)
  rw [recallOf_zero] at h2
  simp only [apOfKinds, tpFpLists, he, Bool.false_eq_true, if_false, calculateAp_eq_apSpec, apSpec,
    cumsum]
  rw [h2]

theorem apOfKinds_tpList {G : Nat} {ks : List Kind} (h : ks ≠ []) :
    (apOfKinds G ks).tpList = cumsum (ks.map Kind.tpw)
      ∧ (apOfKinds G ks).fpList = cumsum (ks.map Kind.fpw) := by
  have he : ks.isEmpty = false := by cases ks <;> simp_all
  simp [apOfKinds, tpFpLists, he]

theorem forall₂_map {α β : Type} {R : β → β → Prop} (f : α → β) {l l' : List α}
    (h : List.Forall₂ (fun a b => R (f a) (f b)) l l') : List.Forall₂ R (l.map f) (l'.map f) := by
  induction h with
  | nil => exact .nil
  | cons hab _ ih => exact .cons hab ih

/-- pointwise larger TP weights (all non-negative) never lower the AP, and keep it (un)defined -/
theorem apOfKinds_mono (G : Nat) {ks ks' : List Kind}
    (h : List.Forall₂ (fun k k' => 0 ≤ k.tpw ∧ k.tpw ≤ k'.tpw) ks ks') :
    optLe (apOfKinds G ks).ap (apOfKinds G ks').ap := by
  cases h with
  | nil => simp [apOfKinds_nil, optLe]
  | cons hab htl =>
    rw [apOfKinds_ap (List.cons_ne_nil _ _), apOfKinds_ap (List.cons_ne_nil _ _)]
    exact apW_mono G (le_refl 0) (le_refl 0) (forall₂_map Kind.tpw (.cons hab htl))

theorem sum_tpw_le_count {ks : List Kind} (h : ∀ k ∈ ks, k.tpw ≤ 1) :
    (ks.map Kind.tpw).sum ≤ ((ks.filter Kind.isTp).length : Rat) := by
  induction ks with
  | nil => simp
  | cons k t ih =>
    have hk := h k (List.mem_cons_self ..)
    have ht := ih (fun x hx => h x (List.mem_cons_of_mem _ hx))
    cases k with
    | tp w =>
      simp only [List.map_cons, List.sum_cons, List.filter_cons, Kind.isTp, if_true, List.length_cons,
        Nat.cast_succ, Kind.tpw] at hk ⊢
      linarith
    | fp => simpa [Kind.tpw, Kind.isTp, List.filter_cons] using ht
    | ignored => simpa [Kind.tpw, Kind.isTp, List.filter_cons] using ht

/-! ### `classifyAll` -/

theorem classifyAll_cons_ok {tm : TpMetric} {m : Mode} {T : List Label} {th : List Rat} {r : Res}
    {rs : List Res} {ks : List Kind} (h : classifyAll tm m T th (r :: rs) = .ok ks) :
    ∃ k ks0, classify tm m T th r = .ok k ∧ classifyAll tm m T th rs = .ok ks0 ∧ ks = k :: ks0 := by
  unfold classifyAll at h
  cases hk : classify tm m T th r with
  | error e => simp [hk] at h
  | ok k =>
    cases hks : classifyAll tm m T th rs with
    | error e => simp [hk, hks] at h
    | ok ks0 =>
      simp only [hk, hks, Except.ok.injEq] at h
      exact ⟨k, ks0, rfl, rfl, h.symm⟩

theorem classifyAll_length {tm : TpMetric} {m : Mode} {T : List Label} {th : List Rat} {rs : List Res}
    {ks : List Kind} (h : classifyAll tm m T th rs = .ok ks) : ks.length = rs.length := by
  induction rs generalizing ks with
  | nil => simp only [classifyAll, Except.ok.injEq] at h; subst h; rfl
  | cons r t ih =>
    obtain ⟨k, ks0, _, h2, rfl⟩ := classifyAll_cons_ok h
    simp [ih h2]

/-- two classifications of one result list are related pointwise as soon as they are per result -/
theorem classifyAll_rel {R : Kind → Kind → Prop} {tm tm' : TpMetric} {m m' : Mode} {T T' : List Label}
    {th th' : List Rat} {L : List Res}
    (h : ∀ r ∈ L, ∀ k k', classify tm m T th r = .ok k → classify tm' m' T' th' r = .ok k' → R k k')
    {ks ks' : List Kind} (h1 : classifyAll tm m T th L = .ok ks)
    (h2 : classifyAll tm' m' T' th' L = .ok ks') : List.Forall₂ R ks ks' := by
  induction L generalizing ks ks' with
  | nil =>
    simp only [classifyAll, Except.ok.injEq] at h1 h2
    subst h1 h2
    exact .nil
  | cons r t ih =>
    obtain ⟨k, ks0, hk, hks, rfl⟩ := classifyAll_cons_ok h1
    obtain ⟨k', ks0', hk', hks', rfl⟩ := classifyAll_cons_ok h2
    exact .cons (h r (List.mem_cons_self ..) k k' hk hk')
      (ih (fun x hx => h x (List.mem_cons_of_mem _ hx)) hks hks')

/-- per result: every property of the produced kinds that holds per result holds for the list -/
theorem classifyAll_forall {P : Kind → Prop} {tm : TpMetric} {m : Mode} {T : List Label}
    {th : List Rat} {L : List Res}
    (h : ∀ r ∈ L, ∀ k, classify tm m T th r = .ok k → P k)
    {ks : List Kind} (h1 : classifyAll tm m T th L = .ok ks) : ∀ k ∈ ks, P k := by
  induction L generalizing ks with
  | nil =>
    simp only [classifyAll, Except.ok.injEq] at h1
    subst h1
    intro k hk; cases hk
  | cons r t ih =>
    obtain ⟨k, ks0, hk, hks, rfl⟩ := classifyAll_cons_ok h1
    intro x hx
    rcases List.mem_cons.1 hx with rfl | hx'
    · exact h r (List.mem_cons_self ..) _ hk
    · exact ih (fun y hy => h y (List.mem_cons_of_mem _ hy)) hks x hx'

/-- the weight a TP gets is `tpValue`; FP and ignored results weigh 0 -/
theorem classify_tpw {tm : TpMetric} {m : Mode} {T : List Label} {th : List Rat} {r : Res} {k : Kind}
    (h : classify tm m T th r = .ok k) : k.tpw = 0 ∨ k.tpw = tpValue tm r := by
  unfold classify at h
  cases hg : getLabelThreshold (keyLabel r) T (some th) with
  | error e => simp [hg] at h
  | ok o =>
    cases o with
    | none => simp only [hg, Except.ok.injEq] at h; subst h; exact Or.inl rfl
    | some t =>
      cases hc : isResultCorrect m (some t) r with
      | error e => simp [hg, hc] at h
      | ok b =>
        cases b
        · simp only [hg, hc, Except.ok.injEq] at h; subst h; exact Or.inl rfl
        · simp only [hg, hc, Except.ok.injEq] at h; subst h; exact Or.inr rfl

theorem tpValue_bounds {tm : TpMetric} {r : Res} (h : 0 ≤ r.hw ∧ r.hw ≤ 1) :
    0 ≤ tpValue tm r ∧ tpValue tm r ≤ 1 := by
  cases tm with
  | ap => exact ⟨zero_le_one, le_refl 1⟩
  | aph =>
    simp only [tpValue]
    by_cases hg : r.gt.isNone = true
    · simp only [hg, if_true]; exact ⟨le_refl 0, zero_le_one⟩
    · simp only [hg]; exact h

/-- the decision (TP / FP / ignored) does not depend on the TP metric; only the TP weight does -/
theorem classify_metric_rel {m : Mode} {T : List Label} {th : List Rat} {r : Res}
    (hw : 0 ≤ r.hw ∧ r.hw ≤ 1) {k k' : Kind} (h1 : classify .aph m T th r = .ok k)
    (h2 : classify .ap m T th r = .ok k') : 0 ≤ k.tpw ∧ k.tpw ≤ k'.tpw := by
  unfold classify at h1 h2
  cases hg : getLabelThreshold (keyLabel r) T (some th) with
  | error e => simp [hg] at h1
  | ok o =>
    cases o with
    | none =>
      simp only [hg, Except.ok.injEq] at h1 h2; subst h1 h2; exact ⟨le_refl 0, le_refl 0⟩
    | some t =>
      cases hc : isResultCorrect m (some t) r with
      | error e => simp [hg, hc] at h1
      | ok b =>
        cases b
        · simp only [hg, hc, Except.ok.injEq] at h1 h2; subst h1 h2; exact ⟨le_refl 0, le_refl 0⟩
        · simp only [hg, hc, Except.ok.injEq] at h1 h2; subst h1 h2
          exact tpValue_bounds (tm := .aph) hw

/-! ### `apOf` -/

theorem apOf_ok {tm : TpMetric} {m : Mode} {T : List Label} {th : List Rat} {G : Nat}
    {rs : List Res} {a : ApOut} (h : apOf tm m T th G rs = .ok a) :
    ∃ ks, classifyAll tm m T th (sortDesc Res.conf rs) = .ok ks ∧ a = apOfKinds G ks := by
  unfold apOf at h
  cases hk : classifyAll tm m T th (sortDesc Res.conf rs) with
  | error e => simp [hk] at h
  | ok ks =>
    simp only [hk] at h
    split at h
    · cases h
    · simp only [Except.ok.injEq] at h
      exact ⟨ks, rfl, h.symm⟩

theorem mem_sortDesc {rs : List Res} {r : Res} : r ∈ sortDesc Res.conf rs ↔ r ∈ rs :=
  (sortDesc_perm Res.conf rs).mem_iff

/-! ### mean over the defined values -/

theorem filterMap_id_forall₂ {l l' : List (Option Rat)} (h : List.Forall₂ optLe l l') :
    List.Forall₂ (· ≤ ·) (l.filterMap id) (l'.filterMap id) := by
  induction h with
  | nil => exact .nil
  | @cons a b t t' hab _ ih =>
    cases a <;> cases b <;> simp only [optLe] at hab
    · simpa using ih
    · simpa using List.Forall₂.cons hab ih

theorem forall₂_le_sum {v v' : List Rat} (h : List.Forall₂ (· ≤ ·) v v') :
    v.sum ≤ v'.sum ∧ v.length = v'.length := by
  induction h with
  | nil => exact ⟨le_refl _, rfl⟩
  | cons hab _ ih =>
    simp only [List.sum_cons, List.length_cons]
    exact ⟨add_le_add hab ih.1, by rw [ih.2]⟩

theorem meanDefined_mono {l l' : List (Option Rat)} (h : List.Forall₂ optLe l l') :
    optLe (meanDefined l) (meanDefined l') := by
  obtain ⟨hs, hl⟩ := forall₂_le_sum (filterMap_id_forall₂ h)
  unfold meanDefined
  simp only []
  rw [← hl]
  split
  · next hpos =>
    simp only [optLe]
    exact div_le_div_of_nonneg_right hs (by exact_mod_cast Nat.zero_le _)
  · simp [optLe]

theorem sum_bounds {v : List Rat} {lo hi : Rat} (h : ∀ x ∈ v, lo ≤ x ∧ x ≤ hi) :
    lo * (v.length : Rat) ≤ v.sum ∧ v.sum ≤ hi * (v.length : Rat) := by
  induction v with
  | nil => simp
  | cons a t ih =>
    obtain ⟨h1, h2⟩ := h a (List.mem_cons_self ..)
    obtain ⟨i1, i2⟩ := ih (fun x hx => h x (List.mem_cons_of_mem _ hx))
    simp only [List.sum_cons, List.length_cons, Nat.cast_succ]
    constructor <;> nlinarith

theorem sum_zero {l : List Rat} (h : ∀ z ∈ l, z = 0) : l.sum = 0 := by
  induction l with
  | nil => rfl
  | cons a t ih =>
    rw [List.sum_cons, h a (List.mem_cons_self ..), ih (fun z hz => h z (List.mem_cons_of_mem _ hz))]
    ring

theorem sum_replicate_one (n : Nat) : (List.replicate n (1 : Rat)).sum = (n : Rat) := by
  induction n with
  | zero => rfl
  | succ n ih => rw [List.replicate_succ, List.sum_cons, ih]; push_cast; ring

end PEval.AP
